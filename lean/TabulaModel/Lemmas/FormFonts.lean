import TabulaModel.Model.FormFonts
import TabulaModel.Lemmas.CSBytes
import TabulaModel.Lemmas.CMap
/-!
Invariants of the extractor's font table over operation histories (`Model/FormFonts.lean`):
one induction principle for `step` / `invoke` / `runForm` (`run_induction`), and its two
instances used by `Props/C07Fonts.lean`: bindings in force are never replaced (`Keeps`), and
the model-failure flag stays clear when every `decodeString` succeeds.
-/
namespace Tabula.FormFonts
open Tabula.Pdf (Obj)
open Tabula.Reader (Str Dict Err dget)

theorem showOne_fonts (nfc : List Nat → List Nat) (st : St) (d : Str) : (showOne nfc st d).fonts = st.fonts := by
  unfold showOne
  split
  · split <;> rfl
  · rfl

theorem showOne_sel (nfc : List Nat → List Nat) (st : St) (d : Str) : (showOne nfc st d).sel = st.sel := by
  unfold showOne
  split
  · split <;> rfl
  · rfl

theorem showOne_stack (nfc : List Nat → List Nat) (st : St) (d : Str) : (showOne nfc st d).stack = st.stack := by
  unfold showOne
  split
  · split <;> rfl
  · rfl

theorem showArray_fonts (nfc : List Nat → List Nat) (st : St) (xs : List Obj) : (showArray nfc st xs).fonts = st.fonts := by
  induction xs generalizing st with
  | nil => rfl
  | cons x xs ih =>
    cases x <;> simp only [showArray, ih]
    exact showOne_fonts nfc st _

theorem restore_fonts {st st' : St} (h : restore st = some st') : st'.fonts = st.fonts := by
  unfold restore at h
  split at h
  · simp at h
  · simp only [Option.some.injEq] at h; subst h; rfl

/-- A relation between the state before and after that holds across every operation
history, provided it holds across the primitive steps and across `invoke` given that it holds
across the form's own operations. -/
theorem run_induction (nfc : List Nat → List Nat) (res : FRes) (P : St → St → Prop)
    (hrefl : ∀ st, P st st) (htrans : ∀ a b c, P a b → P b c → P a c)
    (hq : ∀ st : St, P st { st with stack := (st.cur, st.sel) :: st.stack })
    (hQ : ∀ st st', restore st = some st' → P st st')
    (hTf : ∀ st n, P st (setFont st n))
    (hshow : ∀ st d, P st (showOne nfc st d))
    (hinv : ∀ fuel, (∀ st ops, P st (runForm nfc res fuel st ops)) → ∀ st n, P st (invoke nfc res (fuel + 1) st n)) :
    ∀ fuel, (∀ st n, P st (invoke nfc res fuel st n)) ∧ (∀ st op, P st (step nfc res fuel st op).1) ∧
      (∀ st ops, P st (runForm nfc res fuel st ops)) := by
  have harr : ∀ (xs : List Obj) (st : St), P st (showArray nfc st xs) := by
    intro xs
    induction xs with
    | nil => intro st; exact hrefl st
    | cons x xs ih =>
      intro st
      cases x <;> simp only [showArray] <;> first | exact ih st | skip
      exact htrans _ _ _ (hshow st _) (ih _)
  -- from `invoke` at a fuel to `step` and `runForm` at that fuel
  have hlevel : ∀ fuel, (∀ st n, P st (invoke nfc res fuel st n)) →
      (∀ st op, P st (step nfc res fuel st op).1) ∧ (∀ st ops, P st (runForm nfc res fuel st ops)) := by
    intro fuel hi
    have hstep : ∀ st op, P st (step nfc res fuel st op).1 := by
      intro st op
      rw [step.eq_1]
      split
      · exact hq st
      · split
        · split
          · rename_i st' h; exact hQ st st' h
          · exact hrefl st
        · split
          · split
            · split
              · exact hTf st _
              · exact hrefl st
            · exact hrefl st
          · split
            · split
              · exact hshow st _
              · exact hrefl st
            · split
              · split
                · exact harr _ st
                · exact hrefl st
              · split
                · split
                  · exact hshow st _
                  · exact hrefl st
                · split
                  · split
                    · exact hi st _
                    · exact hrefl st
                  · exact hrefl st
    refine ⟨hstep, ?_⟩
    intro st ops
    induction ops generalizing st with
    | nil => rw [runForm.eq_1]; exact hrefl st
    | cons op ops ih =>
      rw [runForm.eq_2]
      exact htrans _ _ _ (hstep st op) (ih _)
  intro fuel
  induction fuel with
  | zero =>
    have h0 : ∀ st n, P st (invoke nfc res 0 st n) := by
      intro st n; rw [invoke.eq_1]; exact hrefl st
    exact ⟨h0, hlevel 0 h0⟩
  | succ fuel ih =>
    have hi := hinv fuel ih.2.2
    exact ⟨hi, hlevel (fuel + 1) hi⟩

/-! ## the same induction for histories whose shown strings are byte strings -/

/-- every string an operation can show is a byte string -/
def OpBytes (op : Pdf.CS.Operation) : Prop := ∀ o ∈ op.operands, Pdf.CS.ShowBytes o

def OpsBytes (ops : List Pdf.CS.Operation) : Prop := ∀ op ∈ ops, OpBytes op

/-- `run_induction` for relations that hold across a show only when the shown string is a
byte string: the operations are then required to carry byte strings (`OpsBytes`, which is
what `csParse` produces from bytes: `Pdf.CS.csParse_showBytes`) -/
theorem run_induction_bytes (nfc : List Nat → List Nat) (res : FRes) (P : St → St → Prop)
    (hrefl : ∀ st, P st st) (htrans : ∀ a b c, P a b → P b c → P a c)
    (hq : ∀ st : St, P st { st with stack := (st.cur, st.sel) :: st.stack })
    (hQ : ∀ st st', restore st = some st' → P st st')
    (hTf : ∀ st n, P st (setFont st n))
    (hshow : ∀ st d, Pdf.CS.Bytes d → P st (showOne nfc st d))
    (hinv : ∀ fuel, (∀ st ops, OpsBytes ops → P st (runForm nfc res fuel st ops)) →
      ∀ st n, P st (invoke nfc res (fuel + 1) st n)) :
    ∀ fuel, (∀ st n, P st (invoke nfc res fuel st n)) ∧
      (∀ st op, OpBytes op → P st (step nfc res fuel st op).1) ∧
      (∀ st ops, OpsBytes ops → P st (runForm nfc res fuel st ops)) := by
  have harr : ∀ (xs : List Obj) (st : St), (∀ s, Obj.str s ∈ xs → Pdf.CS.Bytes s) → P st (showArray nfc st xs) := by
    intro xs
    induction xs with
    | nil => intro st _; exact hrefl st
    | cons x xs ih =>
      intro st hx
      have hrest : ∀ s, Obj.str s ∈ xs → Pdf.CS.Bytes s := fun s hs => hx s (List.mem_cons_of_mem _ hs)
      cases x <;> simp only [showArray] <;> first | exact ih st hrest | skip
      rename_i s
      exact htrans _ _ _ (hshow st s (hx s (by simp))) (ih _ hrest)
  have hlevel : ∀ fuel, (∀ st n, P st (invoke nfc res fuel st n)) →
      (∀ st op, OpBytes op → P st (step nfc res fuel st op).1) ∧
      (∀ st ops, OpsBytes ops → P st (runForm nfc res fuel st ops)) := by
    intro fuel hi
    have hstep : ∀ st op, OpBytes op → P st (step nfc res fuel st op).1 := by
      intro st op hop
      rw [step.eq_1]
      split
      · exact hq st
      · split
        · split
          · rename_i st' h; exact hQ st st' h
          · exact hrefl st
        · split
          · split
            · split
              · exact hTf st _
              · exact hrefl st
            · exact hrefl st
          · split
            · split
              · rename_i s hops
                exact hshow st s ((hop (.str s) (by rw [hops]; simp)).1 s rfl)
              · exact hrefl st
            · split
              · split
                · rename_i xs hops
                  exact harr xs st ((hop (.arr xs) (by rw [hops]; simp)).2 xs rfl)
                · exact hrefl st
              · split
                · split
                  · rename_i a b s hops
                    exact hshow st s ((hop (.str s) (by rw [hops]; simp)).1 s rfl)
                  · exact hrefl st
                · split
                  · split
                    · exact hi st _
                    · exact hrefl st
                  · exact hrefl st
    refine ⟨hstep, ?_⟩
    intro st ops
    induction ops generalizing st with
    | nil => intro _; rw [runForm.eq_1]; exact hrefl st
    | cons op ops ih =>
      intro hops
      rw [runForm.eq_2]
      exact htrans _ _ _ (hstep st op (hops op (by simp))) (ih _ (fun o ho => hops o (by simp [ho])))
  intro fuel
  induction fuel with
  | zero =>
    have h0 : ∀ st n, P st (invoke nfc res 0 st n) := by
      intro st n; rw [invoke.eq_1]; exact hrefl st
    exact ⟨h0, hlevel 0 h0⟩
  | succ fuel ih =>
    have hi := hinv fuel ih.2.2
    exact ⟨hi, hlevel (fuel + 1) hi⟩

/-- every binding of `a` is still in force in `b` -/
def Keeps (a b : St) : Prop := ∀ name f, a.fonts name = some f → b.fonts name = some f

theorem keeps_of_fonts_eq {a b : St} (h : b.fonts = a.fonts) : Keeps a b := by
  intro name f hf; rw [h]; exact hf

theorem keeps_setFont (st : St) (n : Str) : Keeps st (setFont st n) := by
  intro name f hf
  unfold setFont
  simp only
  generalize (if n.head? = some 47 then n else 47 :: n) = key
  split
  · exact hf
  · rename_i hnone
    show st.fonts.set key defaultFont name = some f
    unfold FontMap.set
    by_cases hk : name = key
    · subst hk; rw [hf] at hnone; simp at hnone
    · simp only [hk, if_false]; exact hf

theorem popOrKeep_fonts (st : St) : (popOrKeep st).fonts = st.fonts := by
  unfold popOrKeep
  split
  · rename_i s hs; exact restore_fonts hs
  · rfl

/-- leaving a form: a name bound before the form (in `outer`) is bound to the same font
afterwards — by `restoreFonts` when the form had resources of its own, else because the
form's operations kept it -/
theorem leaveForm_keeps (res : FRes) (sd rd : Dict) (outer : FontMap) (st2 : St) (name : Str) (f : FontDecode.Font)
    (ho : outer name = some f) (h2 : formResources res sd = none → st2.fonts name = some f) :
    (leaveForm res sd rd outer st2).fonts name = some f := by
  unfold leaveForm
  simp only
  cases hfr : formResources res sd with
  | some d => simp only [Option.map_some, restoreFonts, ho]
  | none =>
    simp only [Option.map_none, restoreFonts]
    rw [popOrKeep_fonts]
    exact h2 hfr

theorem enterForm_fonts_none (res : FRes) (st : St) (rd sd : Dict) (data : Str) (h : formResources res sd = none) :
    (enterForm res st rd sd data).fonts = st.fonts := by
  unfold enterForm formFonts
  simp only [h]

/-- **bindings are stable**: across `invoke` (a whole Form XObject, whatever it registers or
selects inside, to any nesting depth), `step` and `runForm`, a name that was bound keeps its font -/
theorem keeps_all (nfc : List Nat → List Nat) (res : FRes) (fuel : Nat) :
    (∀ st n, Keeps st (invoke nfc res fuel st n)) ∧ (∀ st op, Keeps st (step nfc res fuel st op).1) ∧
      (∀ st ops, Keeps st (runForm nfc res fuel st ops)) := by
  apply run_induction nfc res Keeps
  · intro st name f hf; exact hf
  · intro a b c hab hbc name f hf; exact hbc name f (hab name f hf)
  · intro st; exact keeps_of_fonts_eq rfl
  · intro st st' h; exact keeps_of_fonts_eq (restore_fonts h)
  · exact keeps_setFont
  · intro st d; exact keeps_of_fonts_eq (showOne_fonts nfc st d)
  · intro fuel ih st n name f hf
    rw [invoke.eq_2]
    split
    · exact hf
    · split
      · exact hf
      · split
        · exact hf
        · -- the form is executed
          apply leaveForm_keeps _ _ _ _ _ _ _ hf
          intro hfr
          split
          · rw [enterForm_fonts_none _ _ _ _ _ hfr]; exact hf
          · exact ih _ _ name f (by rw [enterForm_fonts_none _ _ _ _ _ hfr]; exact hf)

/-! ## `RegisterFontsFromResources`: the order of the map iteration does not matter -/

/-- entry `kv` assigns to `name`: under its own key, or under the `/`-prefixed alias -/
def Assigns (fd : Dict) (kv : Str × Obj) (name : Str) : Prop :=
  kv.1 = name ∨ (47 :: kv.1 = name ∧ kv.1.head? ≠ some 47 ∧ dget fd (47 :: kv.1) = none)

instance (fd : Dict) (kv : Str × Obj) (name : Str) : Decidable (Assigns fd kv name) := by
  unfold Assigns; infer_instance

theorem registerEntry_apply (res : Reader.Res) (fd : Dict) (kv : Str × Obj) (m : FontMap) (name : Str) :
    registerEntry res fd kv m name =
      match parseFont res kv.2 with
      | some f => if Assigns fd kv name then some f else m name
      | none => m name := by
  unfold registerEntry
  cases hp : parseFont res kv.2 with
  | none => rfl
  | some f =>
    simp only
    by_cases halias : kv.1.head? ≠ some 47 ∧ (dget fd (47 :: kv.1)).isNone = true
    · rw [if_pos halias]
      have hnone : dget fd (47 :: kv.1) = none := by
        cases h : dget fd (47 :: kv.1) with
        | none => rfl
        | some o => rw [h] at halias; simp at halias
      unfold FontMap.set Assigns
      by_cases h1 : name = 47 :: kv.1
      · have : 47 :: kv.1 = name := h1.symm
        simp [h1, halias.1, hnone]
      · by_cases h2 : name = kv.1
        · simp [h2]
        · have h1' : ¬ 47 :: kv.1 = name := fun h => h1 h.symm
          have h2' : ¬ kv.1 = name := fun h => h2 h.symm
          simp [h1, h2, h1', h2']
    · rw [if_neg halias]
      unfold FontMap.set Assigns
      by_cases h2 : name = kv.1
      · simp [h2]
      · have h2' : ¬ kv.1 = name := fun h => h2 h.symm
        have : ¬ (47 :: kv.1 = name ∧ kv.1.head? ≠ some 47 ∧ dget fd (47 :: kv.1) = none) := by
          intro ⟨_, hh, hn⟩
          apply halias
          exact ⟨hh, by rw [hn]; rfl⟩
        simp [h2, h2', this]

/-- the value the loop leaves under `name` when at most one entry (up to equality) assigns to it -/
theorem registerLoop_apply (res : Reader.Res) (fd : Dict) (name : Str) (order : List (Str × Obj)) (m : FontMap)
    (huniq : ∀ kv ∈ order, ∀ kv' ∈ order, Assigns fd kv name → Assigns fd kv' name → kv = kv') :
    registerLoop res fd order m name =
      match order.find? (fun kv => decide (Assigns fd kv name)) with
      | some kv => (match parseFont res kv.2 with | some f => some f | none => m name)
      | none => m name := by
  unfold registerLoop
  induction order generalizing m with
  | nil => rfl
  | cons kv rest ih =>
    simp only [List.foldl_cons]
    rw [ih (registerEntry res fd kv m) (fun a ha b hb => huniq a (by simp [ha]) b (by simp [hb]))]
    simp only [List.find?_cons]
    by_cases hA : Assigns fd kv name
    · simp only [hA, decide_true]
      have hval : registerEntry res fd kv m name =
          (match parseFont res kv.2 with | some f => some f | none => m name) := by
        rw [registerEntry_apply]; cases parseFont res kv.2 <;> simp [hA]
      cases hf : rest.find? (fun kv => decide (Assigns fd kv name)) with
      | none => simp only; exact hval
      | some kv2 =>
        have hmem := List.mem_of_find?_eq_some hf
        have hA2 : Assigns fd kv2 name := by
          have := List.find?_some hf; simpa using this
        have : kv2 = kv := (huniq kv (by simp) kv2 (by simp [hmem]) hA hA2).symm
        subst this
        simp only
        cases hp : parseFont res kv2.2 with
        | some f => rfl
        | none => simp only; rw [hval, hp]
    · simp only [hA, decide_false]
      have hval : registerEntry res fd kv m name = m name := by
        rw [registerEntry_apply]; cases parseFont res kv.2 <;> simp [hA]
      rw [hval]

theorem dget_some_mem {fd : Dict} {k : Str} {o : Obj} (h : dget fd k = some o) : (k, o) ∈ fd := by
  induction fd with
  | nil => simp [dget] at h
  | cons kv r ih =>
    obtain ⟨k', v'⟩ := kv
    simp only [dget] at h
    split at h
    · rename_i hk; simp only [Option.some.injEq] at h; subst hk h; simp
    · exact List.mem_cons_of_mem _ (ih h)

theorem dget_ne_none_of_mem {fd : Dict} {k : Str} {o : Obj} (h : (k, o) ∈ fd) : dget fd k ≠ none := by
  induction fd with
  | nil => simp at h
  | cons kv r ih =>
    obtain ⟨k', v'⟩ := kv
    simp only [dget]
    split
    · simp
    · rename_i hk
      rcases List.mem_cons.mp h with h | h
      · simp only [Prod.mk.injEq] at h; exact absurd h.1.symm hk
      · exact ih h

theorem dget_of_mem_nodup {fd : Dict} (hnd : (fd.map (·.1)).Nodup) {k : Str} {o : Obj} (h : (k, o) ∈ fd) :
    dget fd k = some o := by
  induction fd with
  | nil => simp at h
  | cons kv r ih =>
    obtain ⟨k', v'⟩ := kv
    simp only [List.map_cons, List.nodup_cons] at hnd
    simp only [dget]
    rcases List.mem_cons.mp h with h | h
    · simp only [Prod.mk.injEq] at h; simp [h.1, h.2]
    · have hne : k' ≠ k := by
        intro hk
        apply hnd.1
        subst hk
        exact List.mem_map.mpr ⟨(k', o), h, rfl⟩
      simp only [hne, if_false]
      exact ih hnd.2 h

/-- with distinct keys, at most one entry of the dictionary assigns to a given name -/
theorem assigns_unique (fd : Dict) (hnd : (fd.map (·.1)).Nodup) (name : Str) (a b : Str × Obj)
    (ha : a ∈ fd) (hb : b ∈ fd) (hA : Assigns fd a name) (hB : Assigns fd b name) : a = b := by
  obtain ⟨ka, oa⟩ := a
  obtain ⟨kb, ob⟩ := b
  have key : ka = kb → (ka, oa) = (kb, ob) := by
    intro h; subst h
    have h1 := dget_of_mem_nodup hnd ha
    have h2 := dget_of_mem_nodup hnd hb
    rw [h1] at h2; simp only [Option.some.injEq] at h2; rw [h2]
  unfold Assigns at hA hB
  simp only at hA hB
  rcases hA with hA | ⟨hA, _, hAn⟩ <;> rcases hB with hB | ⟨hB, _, hBn⟩
  · exact key (hA.trans hB.symm)
  · exfalso; rw [hB, ← hA] at hBn; exact dget_ne_none_of_mem ha hBn
  · exfalso; rw [hA, ← hB] at hAn; exact dget_ne_none_of_mem hb hAn
  · exact key (by have := hA.trans hB.symm; simpa using this)

theorem registered_key (res : Reader.Res) (fd : Dict) (name : Str) (o : Obj) (hd : dget fd name = some o) :
    registered res fd name = parseFont res o := by
  unfold registered; rw [hd]

theorem registered_alias_of (res : Reader.Res) (fd : Dict) (k : Str) (hd : dget fd (47 :: k) = none) :
    registered res fd (47 :: k) =
      if k.head? = some 47 then none else (dget fd k).bind (parseFont res) := by
  unfold registered; rw [hd]
  rfl

theorem registered_no_slash (res : Reader.Res) (fd : Dict) (name : Str) (hd : dget fd name = none)
    (hn : name.head? ≠ some 47) : registered res fd name = none := by
  unfold registered; rw [hd]
  simp only
  split
  · simp at hn
  · rfl

/-- **the iteration order does not matter**: for a dictionary with distinct keys (a Go map),
ranging over its entries in ANY order — any list with the same members — leaves exactly the
table `registerFonts` uses: the key itself, else the `/`-prefixed alias, else the old binding -/
theorem registerLoop_eq (res : Reader.Res) (fd : Dict) (hnd : (fd.map (·.1)).Nodup)
    (order : List (Str × Obj)) (hmem : ∀ kv, kv ∈ order ↔ kv ∈ fd) (m : FontMap) (name : Str) :
    registerLoop res fd order m name =
      match registered res fd name with
      | some f => some f
      | none => m name := by
  rw [registerLoop_apply res fd name order m
    (fun a ha b hb hA hB => assigns_unique fd hnd name a b ((hmem a).mp ha) ((hmem b).mp hb) hA hB)]
  -- the owner of `name`, if any
  have howner : ∀ kv, kv ∈ fd → Assigns fd kv name →
      order.find? (fun kv => decide (Assigns fd kv name)) = some kv := by
    intro kv hkv hA
    cases hf : order.find? (fun kv => decide (Assigns fd kv name)) with
    | none =>
      have := List.find?_eq_none.mp hf kv ((hmem kv).mpr hkv)
      simp [hA] at this
    | some kv2 =>
      have hA2 : Assigns fd kv2 name := by have := List.find?_some hf; simpa using this
      have hm2 := (hmem kv2).mp (List.mem_of_find?_eq_some hf)
      rw [assigns_unique fd hnd name kv2 kv hm2 hkv hA2 hA]
  have hnone : (∀ kv ∈ fd, ¬ Assigns fd kv name) →
      order.find? (fun kv => decide (Assigns fd kv name)) = none := by
    intro h
    apply List.find?_eq_none.mpr
    intro kv hkv
    simp [h kv ((hmem kv).mp hkv)]
  cases hd : dget fd name with
  | some o => rw [howner (name, o) (dget_some_mem hd) (Or.inl rfl), registered_key res fd name o hd]
  | none =>
    -- no entry has the key `name`
    have hnokey : ∀ kv ∈ fd, kv.1 ≠ name := by
      intro kv hkv h
      obtain ⟨k, o⟩ := kv
      simp only at h; subst h
      exact dget_ne_none_of_mem hkv hd
    by_cases hs : name.head? = some 47
    · obtain ⟨k, rfl⟩ : ∃ k, name = 47 :: k := by
        cases name with
        | nil => simp at hs
        | cons c k => simp only [List.head?_cons, Option.some.injEq] at hs; exact ⟨k, by rw [hs]⟩
      rw [registered_alias_of res fd k hd]
      by_cases hk : k.head? = some 47
      · rw [if_pos hk]
        rw [hnone (fun kv hkv hA => by
          rcases hA with h | ⟨h, hh, _⟩
          · exact hnokey kv hkv h
          · simp only [List.cons.injEq, true_and] at h; rw [h] at hh; exact hh hk)]
      · rw [if_neg hk]
        cases hdk : dget fd k with
        | some o =>
          rw [howner (k, o) (dget_some_mem hdk) (Or.inr ⟨rfl, hk, hd⟩)]
          rfl
        | none =>
          rw [hnone (fun kv hkv hA => by
            rcases hA with h | ⟨h, _, _⟩
            · exact hnokey kv hkv h
            · simp only [List.cons.injEq, true_and] at h
              obtain ⟨k', o'⟩ := kv
              simp only at h; subst h
              exact dget_ne_none_of_mem hkv hdk)]
          rfl
    · rw [registered_no_slash res fd name hd hs]
      rw [hnone (fun kv hkv hA => by
        rcases hA with h | ⟨h, _, _⟩
        · exact hnokey kv hkv h
        · apply hs; rw [← h]; rfl)]

/-- the model-failure flag is not raised when every font decodes -/
def StaysGood (a b : St) : Prop := a.bad = false → b.bad = false

theorem showOne_bad (nfc : List Nat → List Nat) (hdec : ∀ f d, (FontDecode.decodeString nfc f d).isSome = true)
    (st : St) (d : Str) : StaysGood st (showOne nfc st d) := by
  intro hb
  unfold showOne
  split
  · rename_i f _
    have := hdec f d
    split
    · exact hb
    · rename_i hnone; rw [hnone] at this; simp at this
  · exact hb

theorem restore_bad {st st' : St} (h : restore st = some st') : st'.bad = st.bad := by
  unfold restore at h
  split at h
  · simp at h
  · simp only [Option.some.injEq] at h; subst h; rfl

theorem popOrKeep_bad (st : St) : (popOrKeep st).bad = st.bad := by
  unfold popOrKeep
  split
  · rename_i s hs; exact restore_bad hs
  · rfl

theorem staysGood_all (nfc : List Nat → List Nat) (hdec : ∀ f d, (FontDecode.decodeString nfc f d).isSome = true)
    (res : FRes) (fuel : Nat) :
    (∀ st n, StaysGood st (invoke nfc res fuel st n)) ∧ (∀ st op, StaysGood st (step nfc res fuel st op).1) ∧
      (∀ st ops, StaysGood st (runForm nfc res fuel st ops)) := by
  apply run_induction nfc res StaysGood
  · intro st h; exact h
  · intro a b c hab hbc h; exact hbc (hab h)
  · intro st h; exact h
  · intro st st' h hb; rw [restore_bad h]; exact hb
  · intro st n h
    show (setFont st n).bad = false
    unfold setFont
    simp only
    split <;> exact h
  · exact showOne_bad nfc hdec
  · intro fuel ih st n hb
    rw [invoke.eq_2]
    split
    · exact hb
    · split
      · exact hb
      · split
        · exact hb
        · show (popOrKeep _).bad = false
          rw [popOrKeep_bad]
          split
          · exact hb
          · exact ih _ _ hb

/-! ## fonts with scalar-only CMaps; the UTF-8 invariant's building blocks -/

/-- the font's ToUnicode CMap, if any, holds only lists of scalar values -/
def FontOK (f : FontDecode.Font) : Prop := ∀ cm, f.toUnicode = some cm → CMap.CharsOK cm

/-- the fonts saved on the graphics-state stack are `FontOK` -/
def StackOK (stack : List (Str × Option FontDecode.Font)) : Prop := ∀ p ∈ stack, ∀ f, p.2 = some f → FontOK f

/-- all registered fonts, the selected font and the fonts saved on the graphics-state stack
are `FontOK`, all texts so far are lists of scalar values -/
def Utf8Inv (st : St) : Prop :=
  (∀ name f, st.fonts name = some f → FontOK f) ∧ (∀ s ∈ st.out, CMap.AllScalar s) ∧
    (∀ f, st.sel = some f → FontOK f) ∧ StackOK st.stack

theorem stackOK_push {stack : List (Str × Option FontDecode.Font)} (h : StackOK stack) (c : Str)
    (sel : Option FontDecode.Font) (hs : ∀ f, sel = some f → FontOK f) : StackOK ((c, sel) :: stack) := by
  intro p hp f hf
  rcases List.mem_cons.mp hp with hp | hp
  · subst hp; exact hs f hf
  · exact h p hp f hf

theorem restore_utf8 {st st' : St} (hr : restore st = some st') (h : Utf8Inv st) : Utf8Inv st' := by
  unfold restore at hr
  split at hr
  · simp at hr
  · rename_i c r hst
    simp only [Option.some.injEq] at hr; subst hr
    have hstack : StackOK (c :: r) := by rw [← hst]; exact h.2.2.2
    exact ⟨h.1, h.2.1, fun f hf => hstack c (by simp) f hf, fun p hp => hstack p (List.mem_cons_of_mem _ hp)⟩

theorem push_utf8 (st : St) (h : Utf8Inv st) : Utf8Inv { st with stack := (st.cur, st.sel) :: st.stack } :=
  ⟨h.1, h.2.1, h.2.2.1, stackOK_push h.2.2.2 _ _ h.2.2.1⟩

theorem defaultFont_ok : FontOK defaultFont := by
  intro cm hcm; simp [defaultFont, Reader.defaultFont] at hcm

theorem setFont_utf8 (st : St) (n : Str) (h : Utf8Inv st) : Utf8Inv (setFont st n) := by
  unfold setFont
  simp only
  generalize (if n.head? = some 47 then n else 47 :: n) = key
  split
  · rename_i f hf
    exact ⟨h.1, h.2.1, fun g hg => by simp only [Option.some.injEq] at hg; subst hg; exact h.1 key f hf, h.2.2.2⟩
  · refine ⟨?_, h.2.1, fun g hg => by simp only [Option.some.injEq] at hg; subst hg; exact defaultFont_ok, h.2.2.2⟩
    intro name f hf
    have hf' : st.fonts.set key defaultFont name = some f := hf
    unfold FontMap.set at hf'
    by_cases hk : name = key
    · simp only [hk, if_true, Option.some.injEq] at hf'; subst hf'; exact defaultFont_ok
    · simp only [hk, if_false] at hf'; exact h.1 name f hf'

/-- every stream the resolver hands out decodes to a byte string -/
def ResBytes (res : FRes) : Prop := ∀ n d dec, res n = .ok (.stream d (some dec)) → Pdf.CS.Bytes dec

theorem toUnicodeOf_ok (res : Reader.Res) (fd : Dict) (cm : CMap.CMap) (h : Reader.toUnicodeOf res fd = some cm) :
    CMap.CharsOK cm := by
  unfold Reader.toUnicodeOf at h
  split at h
  · split at h
    · simp only [Option.some.injEq] at h; subst h; exact CMap.charsOK_parse _
    · simp at h
  · simp at h

theorem readerParseFont_ok (res : Reader.Res) (o : Obj) (f : FontDecode.Font) (h : Reader.parseFont res o = some f) : FontOK f := by
  intro cm hcm
  unfold Reader.parseFont at h
  split at h
  · split at h
    · split at h
      · split at h
        · split at h
          · simp only [Option.some.injEq] at h; subst h; exact toUnicodeOf_ok _ _ _ hcm
          · simp at h
        · simp at h
      · split at h
        · split at h
          · split at h
            · simp only [Option.some.injEq] at h; subst h; exact toUnicodeOf_ok _ _ _ hcm
            · simp at h
          · simp at h
        · split at h
          · split at h
            · simp only [Option.some.injEq] at h; subst h; exact toUnicodeOf_ok _ _ _ hcm
            · simp at h
          · simp at h
    · simp at h
  · simp at h

theorem parseFont_ok (res : Reader.Res) (o : Obj) (f : FontDecode.Font) (h : parseFont res o = some f) : FontOK f := by
  unfold parseFont at h
  split at h
  · rename_i f0 h0
    have := readerParseFont_ok res o f0 h0
    split at h
    · simp only [Option.some.injEq] at h; subst h; exact this
    · simp only [Option.some.injEq] at h; subst h; exact this
  · simp at h

theorem registered_ok (res : Reader.Res) (fd : Dict) (name : Str) (f : FontDecode.Font) (h : registered res fd name = some f) :
    FontOK f := by
  unfold registered at h
  split at h
  · exact parseFont_ok _ _ _ h
  · split at h
    · split at h
      · simp at h
      · cases hd : dget fd _ with
        | none => rw [hd] at h; simp at h
        | some o => rw [hd] at h; exact parseFont_ok _ _ _ h
    · simp at h

theorem registerFonts_ok (res : Reader.Res) (rd : Dict) (m : FontMap) (hm : ∀ name f, m name = some f → FontOK f)
    (name : Str) (f : FontDecode.Font) (h : registerFonts res rd m name = some f) : FontOK f := by
  cases hfo : Reader.fontsOf res (some rd) with
  | none => simp only [registerFonts, hfo] at h; exact hm name f h
  | some fd =>
    simp only [registerFonts, hfo] at h
    cases hreg : registered res fd name with
    | none => rw [hreg] at h; exact hm name f h
    | some f' =>
      rw [hreg] at h
      simp only [Option.some.injEq] at h; subst h
      exact registered_ok _ _ _ _ hreg

theorem setFont_fonts_cases (st : St) (n name : Str) (f : FontDecode.Font) (h : (setFont st n).fonts name = some f) :
    st.fonts name = some f ∨ f = defaultFont := by
  unfold setFont at h
  simp only at h
  generalize (if n.head? = some 47 then n else 47 :: n) = key at h
  split at h
  · exact Or.inl h
  · have h' : st.fonts.set key defaultFont name = some f := h
    unfold FontMap.set at h'
    by_cases hk : name = key
    · simp only [hk, if_true, Option.some.injEq] at h'; exact Or.inr h'.symm
    · simp only [hk, if_false] at h'; exact Or.inl h'

theorem leaveForm_out (res : FRes) (sd rd : Dict) (outer : FontMap) (st2 : St) :
    (leaveForm res sd rd outer st2).out = (popOrKeep st2).out := rfl

theorem leaveForm_fonts_cases (res : FRes) (sd rd : Dict) (outer : FontMap) (st2 : St) (name : Str) (f : FontDecode.Font)
    (h : (leaveForm res sd rd outer st2).fonts name = some f) :
    outer name = some f ∨ (popOrKeep st2).fonts name = some f := by
  unfold leaveForm at h
  simp only at h
  cases hfr : formResources res sd with
  | none => rw [hfr] at h; simp only [Option.map_none, restoreFonts] at h; exact Or.inr h
  | some d =>
    rw [hfr] at h
    simp only [Option.map_some, restoreFonts] at h
    cases ho : outer name with
    | none => rw [ho] at h; exact Or.inr h
    | some g => rw [ho] at h; simp only [Option.some.injEq] at h; subst h; exact Or.inl rfl

theorem popOrKeep_utf8 (st : St) (h : Utf8Inv st) : Utf8Inv (popOrKeep st) := by
  unfold popOrKeep
  split
  · rename_i s hs; exact restore_utf8 hs h
  · exact h

theorem leaveForm_utf8 (res : FRes) (sd rd : Dict) (outer : FontMap) (st2 : St)
    (houter : ∀ name f, outer name = some f → FontOK f) (h2 : Utf8Inv st2) :
    Utf8Inv (leaveForm res sd rd outer st2) := by
  have hpop := popOrKeep_utf8 st2 h2
  refine ⟨?_, by rw [leaveForm_out]; exact hpop.2.1, hpop.2.2.1, hpop.2.2.2⟩
  intro name f hf
  rcases leaveForm_fonts_cases res sd rd outer st2 name f hf with h1 | h1
  · exact houter name f h1
  · exact hpop.1 name f h1

theorem enterForm_utf8 (res : FRes) (st : St) (rd sd : Dict) (data : Str) (h : Utf8Inv st) :
    Utf8Inv (enterForm res st rd sd data) := by
  refine ⟨?_, h.2.1, h.2.2.1, stackOK_push h.2.2.2 _ _ h.2.2.1⟩
  intro name f hf
  have hf' : formFonts res sd st.fonts name = some f := hf
  unfold formFonts at hf'
  cases hfr : formResources res sd with
  | none => rw [hfr] at hf'; exact h.1 name f hf'
  | some d => rw [hfr] at hf'; exact registerFonts_ok _ _ _ h.1 name f hf'

theorem findForm_bytes (res : FRes) (hres : ResBytes res) (rd : Dict) (name : Str) (sd : Dict) (data : Str)
    (h : findForm res rd name = some (sd, data)) : Pdf.CS.Bytes data := by
  unfold findForm at h
  split at h
  · simp at h
  · split at h
    · simp only at h
      split at h
      · simp at h
      · rename_i r _
        split at h
        · rename_i sd' data' hr
          split at h
          · split at h
            · simp only [Option.some.injEq, Prod.mk.injEq] at h
              obtain ⟨_, rfl⟩ := h
              -- the stream came from the resolver
              unfold fresolve at hr
              split at hr
              · split at hr
                · simp at hr
                · exact hres _ _ _ hr
              · simp at hr
            · simp at h
          · simp at h
        · simp at h
    · simp at h

end Tabula.FormFonts
