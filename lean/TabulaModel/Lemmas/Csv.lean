import TabulaModel.Model.Csv
/-!
Lemmas for the RFC 4180 writer/reader pair of `Model/Csv.lean`.
-/
namespace Tabula.Csv

theorem steps_append (d : Nat) (xs ys : Str) (s : St) (a : Acc) :
    steps d s a (xs ++ ys) =
      match steps d s a xs with
      | none => none
      | some (s', a') => steps d s' a' ys := by
  induction xs generalizing s a with
  | nil => simp [steps]
  | cons c cs ih =>
    simp only [List.cons_append, steps]
    cases h : step d s a c with
    | none => simp
    | some p => obtain ⟨s', a'⟩ := p; simp [ih]

/-- states in which an unquoted field may begin or continue -/
def plain (s : St) : Prop := s = .recStart ∨ s = .fieldStart ∨ s = .unq

/-- states in which a field may end (delimiter / LF accepted) -/
def endable (s : St) : Prop := s = .recStart ∨ s = .fieldStart ∨ s = .unq ∨ s = .quoSeen

theorem mustQuote_false_cons {d c : Nat} {cs : Str} (h : mustQuote d (c :: cs) = false) :
    ¬ isSpecial d c ∧ mustQuote d cs = false := by
  unfold mustQuote at h
  by_cases hc : isSpecial d c
  · simp [hc] at h
  · simp [hc] at h; exact ⟨hc, h⟩

theorem step_plain_ordinary {d c : Nat} {s : St} (a : Acc) (hs : plain s) (hc : ¬ isSpecial d c) :
    step d s a c = some (.unq, push a c) := by
  unfold isSpecial at hc
  have h1 : c ≠ 34 := fun h => hc (Or.inl h)
  have h2 : ¬ (c = d ∨ c = 10 ∨ c = 13) := fun h => hc (Or.inr h)
  rcases hs with h | h | h <;> subst h <;> simp [step, h1, h2]

/-- an unquoted field body is copied into `cur` -/
theorem steps_unquoted (d : Nat) (f : Str) (s : St) (a : Acc) (hs : plain s)
    (hf : mustQuote d f = false) :
    ∃ s', plain s' ∧ steps d s a f = some (s', { a with cur := a.cur ++ f }) := by
  induction f generalizing s a with
  | nil => exact ⟨s, hs, by simp [steps]⟩
  | cons c cs ih =>
    obtain ⟨hc, hcs⟩ := mustQuote_false_cons hf
    obtain ⟨s', hs', h⟩ := ih .unq (push a c) (Or.inr (Or.inr rfl)) hcs
    refine ⟨s', hs', ?_⟩
    simp only [push, List.append_assoc, List.singleton_append] at h
    simp only [steps, step_plain_ordinary a hs hc, push]
    exact h

/-- the escaped body of a quoted field is decoded into `cur` -/
theorem steps_escape (d : Nat) (f : Str) (a : Acc) :
    steps d .quo a (escape f) = some (.quo, { a with cur := a.cur ++ f }) := by
  induction f generalizing a with
  | nil => simp [steps, escape]
  | cons c cs ih =>
    by_cases hc : c = 34
    · subst hc
      simp only [escape, if_true, steps, step, ih, push, List.append_assoc, List.singleton_append]
    · simp only [escape, hc, if_false, steps, step, ih, push, List.append_assoc, List.singleton_append]

/-- one written field, read from the start of a field -/
theorem steps_field (extra : Str → Bool) (d : Nat) (f : Str) (s : St) (a : Acc)
    (hs : s = .recStart ∨ s = .fieldStart) (ha : a.cur = []) :
    ∃ s', endable s' ∧ steps d s a (writeField extra d f) = some (s', { a with cur := f }) := by
  unfold writeField
  by_cases hq : needsQuotes extra d f = true
  · simp only [hq, if_true]
    have h1 : step d s a 34 = some (.quo, a) := by
      rcases hs with h | h <;> subst h <;> simp [step]
    refine ⟨.quoSeen, Or.inr (Or.inr (Or.inr rfl)), ?_⟩
    simp only [steps, h1]
    rw [steps_append, steps_escape]
    simp [steps, step, ha]
  · simp only [hq]
    have hm : mustQuote d f = false := by
      cases f with
      | nil => rfl
      | cons c cs =>
        simp only [needsQuotes, Bool.or_eq_true, not_or, Bool.not_eq_true] at hq
        exact hq.1
    have hp : plain s := by rcases hs with h | h <;> simp [plain, h]
    obtain ⟨s', hs', h⟩ := steps_unquoted d f s a hp hm
    refine ⟨s', ?_, ?_⟩
    · rcases hs' with h | h | h <;> simp [endable, h]
    · simpa [ha] using h

theorem step_endable_delim {d : Nat} {s : St} (a : Acc) (hs : endable s) (hd : validDelim d) :
    step d s a d = some (.fieldStart, endField a) := by
  obtain ⟨_, h34, h10, h13, _⟩ := hd
  rcases hs with h | h | h | h <;> subst h <;> simp [step, sep, h34]

theorem step_endable_lf {d : Nat} {s : St} (a : Acc) (hs : endable s) (hd : validDelim d) :
    step d s a 10 = some (.recStart, endRecord a) := by
  obtain ⟨_, h34, h10, h13, _⟩ := hd
  have : (10 : Nat) ≠ d := fun h => h10 h.symm
  rcases hs with h | h | h | h <;> subst h <;> simp [step, sep, this]

/-- one written record (non-empty list of fields), read from the start of a field -/
theorem steps_record (extra : Str → Bool) (d : Nat) (hd : validDelim d) (r : List Str) (hr : r ≠ [])
    (s : St) (a : Acc) (hs : s = .recStart ∨ s = .fieldStart) (ha : a.cur = []) :
    steps d s a (writeRecord extra d r) =
      some (.recStart, { cur := [], row := [], rows := a.rows ++ [a.row ++ r] }) := by
  unfold writeRecord
  induction r generalizing s a with
  | nil => exact absurd rfl hr
  | cons f fs ih =>
    cases fs with
    | nil =>
      obtain ⟨s', hs', h⟩ := steps_field extra d f s a hs ha
      simp only [writeFields]
      rw [steps_append, h]
      simp [steps, step_endable_lf _ hs' hd, endRecord]
    | cons g gs =>
      obtain ⟨s', hs', h⟩ := steps_field extra d f s a hs ha
      simp only [writeFields, List.append_assoc, List.cons_append]
      rw [steps_append, h]
      simp only [steps, step_endable_delim _ hs' hd]
      have := ih (by simp) .fieldStart (endField { a with cur := f }) (Or.inr rfl) rfl
      rw [this]
      simp [endField]

/-- all written records, read from the start of a record -/
theorem steps_rows (extra : Str → Bool) (d : Nat) (hd : validDelim d) (rows : List (List Str))
    (hrows : ∀ r ∈ rows, r ≠ []) (acc : List (List Str)) :
    steps d .recStart ⟨[], [], acc⟩ (csvWrite extra d rows) = some (.recStart, ⟨[], [], acc ++ rows⟩) := by
  induction rows generalizing acc with
  | nil => simp [csvWrite, steps]
  | cons r rs ih =>
    simp only [csvWrite]
    rw [steps_append, steps_record extra d hd r (hrows r (by simp)) .recStart _ (Or.inl rfl) rfl]
    simp only [List.nil_append]
    rw [ih (fun r' h => hrows r' (by simp [h]))]
    simp

end Tabula.Csv
