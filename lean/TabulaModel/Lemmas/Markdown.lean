import TabulaModel.Model.Markdown
import TabulaModel.Lemmas.A1
/-!
Helper lemmas for C15 (Markdown tables, headings, lists).
-/
namespace Tabula.Markdown
open Tabula.A1 (Str dec decAux decAux_acc dec_head)

/-! ### trimming -/

theorem trimRight_cons (a : Nat) (s : Str) :
    trimRight (a :: s) = if (trimRight s).isEmpty && isWs a then [] else a :: trimRight s := rfl

theorem trimRight_append_ws (s : Str) (c : Nat) (h : isWs c = true) :
    trimRight (s ++ [c]) = trimRight s := by
  induction s with
  | nil => simp [trimRight, h]
  | cons a s ih => simp [trimRight, ih]

theorem trimRight_eq_self (s : Str) (h : ∀ c, s.getLast? = some c → isWs c = false) :
    trimRight s = s := by
  induction s with
  | nil => rfl
  | cons a s ih =>
    cases s with
    | nil =>
      have := h a (by simp)
      simp [trimRight, this]
    | cons b s' =>
      have hs : trimRight (b :: s') = b :: s' := ih (by
        intro c hc; apply h; simpa [List.getLast?_cons_cons] using hc)
      rw [trimRight_cons, hs]; simp

theorem trimRight_trimLeft_append_ws (x : Str) (c : Nat) (h : isWs c = true) :
    trimRight (trimLeft (x ++ [c])) = trimRight (trimLeft x) := by
  induction x with
  | nil => simp [trimLeft, h, trimRight]
  | cons a x ih =>
    simp only [List.cons_append, trimLeft]
    split
    · exact ih
    · rw [← List.cons_append, trimRight_append_ws _ _ h]

theorem trim_pad (x : Str) : trim (32 :: x ++ [32]) = trim x := by
  unfold trim
  have : trimLeft (32 :: x ++ [32]) = trimLeft (x ++ [32]) := by
    simp [trimLeft, isWs]
  rw [this, trimRight_trimLeft_append_ws _ _ (by decide)]

theorem trim_space : trim [32] = [] := by decide

theorem mem_trimLeft (s : Str) : ∀ c ∈ trimLeft s, c ∈ s := by
  induction s with
  | nil => simp [trimLeft]
  | cons a s ih =>
    intro c hc
    simp only [trimLeft] at hc
    split at hc
    · exact List.mem_cons_of_mem _ (ih c hc)
    · exact hc

theorem mem_trimRight (s : Str) : ∀ c ∈ trimRight s, c ∈ s := by
  induction s with
  | nil => simp [trimRight]
  | cons a s ih =>
    intro c hc
    simp only [trimRight] at hc
    split at hc
    · simp at hc
    · rcases List.mem_cons.mp hc with h | h
      · simp [h]
      · exact List.mem_cons_of_mem _ (ih c h)

theorem mem_trim (s : Str) : ∀ c ∈ trim s, c ∈ s := fun c hc =>
  mem_trimLeft s c (mem_trimRight _ c hc)

/-! ### escaping -/

theorem replaceByte_nil (o : Nat) (n : Str) : replaceByte o n [] = [] := rfl

theorem replaceByte_cons (o : Nat) (n : Str) (c : Nat) (s : Str) :
    replaceByte o n (c :: s) = (if c = o then n else [c]) ++ replaceByte o n s := by
  simp [replaceByte]

theorem replaceByte_append (o : Nat) (n : Str) (a b : Str) :
    replaceByte o n (a ++ b) = replaceByte o n a ++ replaceByte o n b := by
  simp [replaceByte]

theorem escPipe_nil : escPipe [] = [] := rfl

theorem escPipe_cons_pipe (s : Str) : escPipe (124 :: s) = 92 :: 124 :: escPipe s := by
  simp [escPipe, replaceByte_cons]

theorem escPipe_cons_ne (c : Nat) (s : Str) (h : c ≠ 124) : escPipe (c :: s) = c :: escPipe s := by
  simp [escPipe, replaceByte_cons, h]

theorem escPipe_append (a b : Str) : escPipe (a ++ b) = escPipe a ++ escPipe b :=
  replaceByte_append _ _ _ _

theorem escPipe_isEmpty (s : Str) : (escPipe s).isEmpty = s.isEmpty := by
  cases s with
  | nil => rfl
  | cons c s =>
    by_cases h : c = 124
    · subst h; rw [escPipe_cons_pipe]; rfl
    · rw [escPipe_cons_ne _ _ h]; rfl

theorem trimLeft_escPipe (s : Str) : trimLeft (escPipe s) = escPipe (trimLeft s) := by
  induction s with
  | nil => rfl
  | cons c s ih =>
    by_cases h : c = 124
    · subst h; rw [escPipe_cons_pipe]; simp [trimLeft, isWs, escPipe_cons_pipe]
    · rw [escPipe_cons_ne _ _ h]
      simp only [trimLeft]
      split
      · exact ih
      · rw [escPipe_cons_ne _ _ h]

theorem trimRight_escPipe (s : Str) : trimRight (escPipe s) = escPipe (trimRight s) := by
  induction s with
  | nil => rfl
  | cons c s ih =>
    by_cases h : c = 124
    · subst h
      rw [escPipe_cons_pipe, trimRight_cons, trimRight_cons, ih, trimRight_cons]
      simp [isWs, escPipe_cons_pipe]
    · rw [escPipe_cons_ne _ _ h, trimRight_cons, trimRight_cons, ih, escPipe_isEmpty]
      split
      · rfl
      · rw [escPipe_cons_ne _ _ h]

theorem trim_escPipe (s : Str) : trim (escPipe s) = escPipe (trim s) := by
  unfold trim; rw [trimLeft_escPipe, trimRight_escPipe]

theorem nlToSpace_escPipe (s : Str) : nlToSpace (escPipe s) = escPipe (nlToSpace s) := by
  induction s with
  | nil => rfl
  | cons c s ih =>
    unfold nlToSpace escPipe at *
    by_cases h1 : c = 124
    · subst h1; simp [replaceByte_cons, ih]
    · by_cases h2 : c = 10
      · subst h2; simp [replaceByte_cons, ih]
      · simp [replaceByte_cons, h1, h2, ih]

theorem replace13_escPipe (n : Str) (hn : 124 ∉ n) (s : Str) :
    replaceByte 13 n (escPipe s) = escPipe (replaceByte 13 n s) := by
  have hn' : escPipe n = n := by
    unfold escPipe replaceByte
    induction n with
    | nil => rfl
    | cons a n ih =>
      have ha : a ≠ 124 := fun e => hn (by simp [e])
      have hn2 : 124 ∉ n := fun e => hn (List.mem_cons_of_mem _ e)
      simp [ha, ih hn2]
  induction s with
  | nil => rfl
  | cons c s ih =>
    by_cases h1 : c = 124
    · subst h1
      rw [escPipe_cons_pipe]
      simp only [replaceByte_cons, ih]
      simp [escPipe_cons_pipe]
    · rw [escPipe_cons_ne _ _ h1]
      simp only [replaceByte_cons, ih]
      split
      · rw [escPipe_append, hn']
      · rw [escPipe_append, escPipe_cons_ne _ _ h1, escPipe_nil]

/-- every writer's cell text is the pipe-escaped form of its normalised cell -/
theorem escCell_eq (w : Writer) (s : Str) : escCell w s = escPipe (preCell w s) := by
  cases w with
  | model => rfl
  | docx => exact trim_escPipe _
  | odt => exact trim_escPipe _
  | xlsx => exact nlToSpace_escPipe _
  | pptx =>
    show replaceByte 13 [32] (nlToSpace (escPipe s)) = escPipe (replaceByte 13 [32] (nlToSpace s))
    rw [nlToSpace_escPipe, replace13_escPipe _ (by decide)]
  | html =>
    show _ = escPipe (replaceByte 13 [] (nlToSpace s))
    rw [← replace13_escPipe _ (by simp), ← nlToSpace_escPipe]
    simp only [escCell]
    induction s with
    | nil => rfl
    | cons c s ih =>
      rw [List.flatMap_cons, ih]
      by_cases h1 : c = 124
      · subst h1; simp [escPipe_cons_pipe, nlToSpace, replaceByte_cons]
      · rw [escPipe_cons_ne _ _ h1]
        by_cases h2 : c = 10
        · subst h2; simp [nlToSpace, replaceByte_cons]
        · by_cases h3 : c = 13
          · subst h3; simp [nlToSpace, replaceByte_cons]
          · simp [nlToSpace, replaceByte_cons, h1, h2, h3]

theorem mem_replaceByte (o : Nat) (n s : Str) (c : Nat) (h : c ∈ replaceByte o n s) :
    c ∈ n ∨ (c ∈ s ∧ c ≠ o) := by
  unfold replaceByte at h
  rcases List.mem_flatMap.mp h with ⟨a, ha, hc⟩
  split at hc
  · exact Or.inl hc
  · simp at hc; subst hc; exact Or.inr ⟨ha, by assumption⟩

/-- a cell without backslash stays without backslash under the writer's normalisation -/
theorem preCell_noBs (w : Writer) (s : Str) (h : 92 ∉ s) : 92 ∉ preCell w s := by
  have hnl : 92 ∉ nlToSpace s := fun hc => by
    rcases mem_replaceByte _ _ _ _ hc with h1 | h1
    · simp at h1
    · exact h h1.1
  cases w with
  | model => exact hnl
  | docx => exact fun hc => hnl (mem_trim _ _ hc)
  | odt => exact fun hc => hnl (mem_trim _ _ hc)
  | xlsx => exact hnl
  | pptx =>
    intro hc
    rcases mem_replaceByte _ _ _ _ hc with h1 | h1
    · simp at h1
    · exact hnl h1.1
  | html =>
    intro hc
    rcases mem_replaceByte _ _ _ _ hc with h1 | h1
    · simp at h1
    · exact hnl h1.1

/-- no newline survives the writer's normalisation -/
theorem preCell_noNl (w : Writer) (s : Str) : 10 ∉ preCell w s := by
  have hnl : 10 ∉ nlToSpace s := fun hc => by
    rcases mem_replaceByte _ _ _ _ hc with h1 | h1
    · simp at h1
    · exact h1.2 rfl
  cases w with
  | model => exact hnl
  | docx => exact fun hc => hnl (mem_trim _ _ hc)
  | odt => exact fun hc => hnl (mem_trim _ _ hc)
  | xlsx => exact hnl
  | pptx =>
    intro hc
    rcases mem_replaceByte _ _ _ _ hc with h1 | h1
    · simp at h1
    · exact hnl h1.1
  | html =>
    intro hc
    rcases mem_replaceByte _ _ _ _ hc with h1 | h1
    · simp at h1
    · exact hnl h1.1

theorem escPipe_noNl (s : Str) (h : 10 ∉ s) : 10 ∉ escPipe s := by
  intro hc
  rcases mem_replaceByte _ _ _ _ hc with h1 | h1
  · simp at h1
  · exact h h1.1

/-! ### the row scanner -/

theorem splitPipes_nil (cur : Str) : splitPipes [] cur = [cur.reverse] := by
  simp [splitPipes]

theorem splitPipes_esc (r cur : Str) : splitPipes (92 :: 124 :: r) cur = splitPipes r (124 :: cur) := by
  rw [splitPipes]

theorem splitPipes_pipe (r cur : Str) : splitPipes (124 :: r) cur = cur.reverse :: splitPipes r [] := by
  rw [splitPipes.eq_3 _ _ _ (fun _ h _ => by omega)]; simp

theorem splitPipes_other (c : Nat) (r cur : Str) (h1 : c ≠ 92) (h2 : c ≠ 124) :
    splitPipes (c :: r) cur = splitPipes r (c :: cur) := by
  rw [splitPipes.eq_3 _ _ _ (fun _ h _ => h1 h)]; simp [h2]

/-- a backslash that is not followed by a pipe is cell text -/
theorem splitPipes_bs (r cur : Str) (h : ∀ r', r ≠ 124 :: r') :
    splitPipes (92 :: r) cur = splitPipes r (92 :: cur) := by
  rw [splitPipes.eq_3 _ _ _ (fun r' _ h2 => h r' h2)]; simp

/-- escaped text never starts with a bare pipe -/
theorem escPipe_append_head (s t : Str) (hs : s ≠ []) : ∀ r', escPipe s ++ t ≠ 124 :: r' := by
  cases s with
  | nil => exact absurd rfl hs
  | cons d s' =>
    intro r' h
    by_cases hd : d = 124
    · subst hd; rw [escPipe_cons_pipe] at h; simp at h
    · rw [escPipe_cons_ne _ _ hd] at h; simp at h; exact hd h.1

/-- scanning an escaped text — ANY bytes, backslashes included — adds exactly that text to the
current cell, provided a backslash at its very end is not followed by a pipe of the row -/
theorem splitPipes_escPipe_append_any (s t : Str) (h : s.getLast? = some 92 → ∀ r', t ≠ 124 :: r')
    (cur : Str) : splitPipes (escPipe s ++ t) cur = splitPipes t (s.reverse ++ cur) := by
  induction s generalizing cur with
  | nil => rfl
  | cons c s ih =>
    have hs : s.getLast? = some 92 → ∀ r', t ≠ 124 :: r' := by
      intro hl; apply h
      cases s with
      | nil => simp at hl
      | cons d s' => simpa [List.getLast?_cons_cons] using hl
    by_cases h1 : c = 124
    · subst h1
      rw [escPipe_cons_pipe]
      simp only [List.cons_append]
      rw [splitPipes_esc, ih hs]
      simp
    · rw [escPipe_cons_ne _ _ h1]
      simp only [List.cons_append]
      by_cases h2 : c = 92
      · subst h2
        have hne : ∀ r', escPipe s ++ t ≠ 124 :: r' := by
          cases s with
          | nil => exact h (by simp)
          | cons d s' => exact escPipe_append_head _ t (by simp)
        rw [splitPipes_bs _ _ hne, ih hs]
        simp
      · rw [splitPipes_other _ _ _ h2 h1, ih hs]
        simp

theorem getLast?_ne_of_not_mem (p : Str) (x : Nat) (h : x ∉ p) : p.getLast? ≠ some x :=
  fun hl => h (List.mem_of_getLast? hl)

/-- scanning an escaped backslash-free text adds exactly that text to the current cell -/
theorem splitPipes_escPipe_append (s t : Str) (h : 92 ∉ s) (cur : Str) :
    splitPipes (escPipe s ++ t) cur = splitPipes t (s.reverse ++ cur) :=
  splitPipes_escPipe_append_any s t (fun hl => absurd hl (getLast?_ne_of_not_mem s 92 h)) cur

/-- the body of a row line: each padded cell, pipe-escaped, followed by `|` -/
def rowBody (ps : List Str) : Str := ps.flatMap fun p => escPipe p ++ [124]

theorem rowBody_cons (p : Str) (ps : List Str) : rowBody (p :: ps) = escPipe p ++ 124 :: rowBody ps := by
  simp [rowBody]

theorem rowBody_append (a b : List Str) : rowBody (a ++ b) = rowBody a ++ rowBody b := by
  simp [rowBody]

/-- cells of any bytes that do not END in a backslash (a padded cell ends in a space) -/
theorem splitPipes_rowBody_end (ps : List Str) (h : ∀ p ∈ ps, p.getLast? ≠ some 92) :
    splitPipes (rowBody ps) [] = ps ++ [[]] := by
  induction ps with
  | nil => rfl
  | cons p ps ih =>
    rw [rowBody_cons, splitPipes_escPipe_append_any _ _ (fun hl => absurd hl (h p (by simp))),
      splitPipes_pipe, ih (fun q hq => h q (List.mem_cons_of_mem _ hq))]
    simp

theorem splitPipes_rowBody (ps : List Str) (h : ∀ p ∈ ps, 92 ∉ p) :
    splitPipes (rowBody ps) [] = ps ++ [[]] :=
  splitPipes_rowBody_end ps (fun p hp => getLast?_ne_of_not_mem p 92 (h p hp))

theorem dropLastEmpty_append_nil (ps : List Str) : dropLastEmpty (ps ++ [[]]) = ps := by
  induction ps with
  | nil => rfl
  | cons p ps ih =>
    cases ps with
    | nil => rfl
    | cons q qs =>
      show p :: dropLastEmpty (q :: qs ++ [[]]) = _
      rw [ih]

theorem eq_nil_or_snoc {α} (l : List α) : l = [] ∨ ∃ a b, l = a ++ [b] := by
  induction l with
  | nil => exact Or.inl rfl
  | cons x l ih =>
    rcases ih with h | ⟨a, b, h⟩
    · exact Or.inr ⟨[], x, by simp [h]⟩
    · exact Or.inr ⟨x :: a, b, by simp [h]⟩

theorem trim_rowLine (ps : List Str) : trim (124 :: rowBody ps) = 124 :: rowBody ps := by
  unfold trim
  have h1 : trimLeft (124 :: rowBody ps) = 124 :: rowBody ps := by simp [trimLeft, isWs]
  rw [h1]
  apply trimRight_eq_self
  intro c hc
  rcases eq_nil_or_snoc ps with h | ⟨a, b, h⟩
  · subst h; simp [rowBody] at hc; subst hc; rfl
  · subst h
    rw [rowBody_append, rowBody_cons] at hc
    have : (124 :: (rowBody a ++ (escPipe b ++ 124 :: rowBody []))) = (124 :: (rowBody a ++ escPipe b)) ++ [124] := by
      simp [rowBody]
    rw [this, List.getLast?_append] at hc
    simp at hc; subst hc; rfl

/-- **core lemma**: a row line made of padded cells of ANY bytes, none of which ends in a
backslash, reads back as those cells, trimmed -/
theorem gfmSplitRow_rowLine_end (ps : List Str) (h : ∀ p ∈ ps, p.getLast? ≠ some 92) :
    gfmSplitRow (124 :: rowBody ps) = ps.map trim := by
  unfold gfmSplitRow
  rw [trim_rowLine]
  simp only
  rw [splitPipes_rowBody_end _ h, dropLastEmpty_append_nil]

theorem gfmSplitRow_rowLine (ps : List Str) (h : ∀ p ∈ ps, 92 ∉ p) :
    gfmSplitRow (124 :: rowBody ps) = ps.map trim :=
  gfmSplitRow_rowLine_end ps (fun p hp => getLast?_ne_of_not_mem p 92 (h p hp))

/-! ### rows of the writers -/

/-- the cell as it stands between two pipes, before pipe escaping -/
def padCell (w : Writer) (c : Str) : Str := 32 :: preCell w c ++ [32]

theorem escPipe_pad (x : Str) : escPipe (32 :: x ++ [32]) = 32 :: escPipe x ++ [32] := by
  rw [List.cons_append, escPipe_cons_ne _ _ (by decide), escPipe_append]; rfl

theorem rowPipe_eq (w : Writer) (cells : List Str) :
    rowPipe (cells.map (escCell w)) = 124 :: rowBody (cells.map (padCell w)) := by
  unfold rowPipe
  congr 1
  induction cells with
  | nil => rfl
  | cons c cs ih =>
    simp only [List.map_cons, List.flatMap_cons, rowBody_cons, ih, padCell, escPipe_pad, escCell_eq]
    simp

theorem rowModel_eq (cs : List Str) (h : cs ≠ []) : rowModel cs = rowPipe cs := by
  induction cs with
  | nil => exact absurd rfl h
  | cons c cs ih =>
    cases cs with
    | nil => simp [rowModel, rowPipe]
    | cons d ds =>
      rw [rowModel, ih (by simp)]
      · simp [rowPipe]
      · simp

theorem renderRow_eq (w : Writer) (cells : List Str) (h : cells ≠ []) :
    renderRow w cells = 124 :: rowBody (cells.map (padCell w)) := by
  cases w with
  | model =>
    show rowModel (cells.map (escCell .model)) = _
    rw [rowModel_eq _ (by simpa using h), rowPipe_eq]
  | docx => exact rowPipe_eq _ _
  | odt => exact rowPipe_eq _ _
  | xlsx => exact rowPipe_eq _ _
  | pptx => exact rowPipe_eq _ _
  | html => exact rowPipe_eq _ _

theorem padCell_noBs (w : Writer) (c : Str) (h : 92 ∉ c) : 92 ∉ padCell w c := by
  unfold padCell
  intro hc
  simp at hc
  exact preCell_noBs w c h hc

theorem trim_padCell (w : Writer) (c : Str) : trim (padCell w c) = normCell w c := trim_pad _

theorem padCell_end (w : Writer) (c : Str) : (padCell w c).getLast? ≠ some 92 := by
  unfold padCell
  rw [List.getLast?_append]
  simp

/-- one rendered row reads back as its cells, normalised — cells of ANY bytes -/
theorem gfmSplitRow_renderRow_any (w : Writer) (cells : List Str) (hne : cells ≠ []) :
    gfmSplitRow (renderRow w cells) = cells.map (normCell w) := by
  rw [renderRow_eq w cells hne, gfmSplitRow_rowLine_end]
  · simp [trim_padCell]
  · intro p hp
    rcases List.mem_map.mp hp with ⟨c, _, rfl⟩
    exact padCell_end w c

theorem gfmSplitRow_renderRow (w : Writer) (cells : List Str) (hne : cells ≠ [])
    (_h : ∀ c ∈ cells, 92 ∉ c) : gfmSplitRow (renderRow w cells) = cells.map (normCell w) :=
  gfmSplitRow_renderRow_any w cells hne

theorem rowBody_noNl (ps : List Str) (h : ∀ p ∈ ps, 10 ∉ p) : 10 ∉ rowBody ps := by
  unfold rowBody
  intro hc
  rcases List.mem_flatMap.mp hc with ⟨p, hp, h1⟩
  rcases List.mem_append.mp h1 with h2 | h2
  · exact escPipe_noNl p (h p hp) h2
  · simp at h2

theorem renderRow_noNl (w : Writer) (cells : List Str) (hne : cells ≠ []) : 10 ∉ renderRow w cells := by
  rw [renderRow_eq w cells hne]
  intro hc
  rcases List.mem_cons.mp hc with h1 | h1
  · simp at h1
  · refine rowBody_noNl _ ?_ h1
    intro p hp
    rcases List.mem_map.mp hp with ⟨c, _, rfl⟩
    unfold padCell
    intro h2
    simp at h2
    exact preCell_noNl w c h2

/-! ### separator rows -/

def dashCell (w : Writer) : Str :=
  match w with
  | .model => [45, 45, 45]
  | .xlsx => [45, 45, 45]
  | .pptx => [45, 45, 45]
  | _ => [32, 45, 45, 45, 32]

theorem delimPipe_eq (w : Writer) (hw : w ≠ .model) (n : Nat) :
    delimPipe (delimPiece w) n = 124 :: rowBody (List.replicate n (dashCell w)) := by
  unfold delimPipe
  congr 1
  induction n with
  | zero => rfl
  | succ n ih =>
    rw [List.replicate_succ, List.flatten_cons, ih, List.replicate_succ, rowBody_cons]
    cases w <;> first | exact absurd rfl hw | rfl

theorem delimModel_eq (n : Nat) (h : 1 ≤ n) :
    delimModel n = 124 :: rowBody (List.replicate n [45, 45, 45]) := by
  induction n with
  | zero => omega
  | succ n ih =>
    cases n with
    | zero => rfl
    | succ m =>
      rw [delimModel, ih (by omega)]
      · rfl
      · omega

theorem renderDelim_eq (w : Writer) (n : Nat) (h : 1 ≤ n) :
    renderDelim w n = 124 :: rowBody (List.replicate n (dashCell w)) := by
  cases w with
  | model => exact delimModel_eq n h
  | docx => exact delimPipe_eq .docx (by decide) n
  | odt => exact delimPipe_eq .odt (by decide) n
  | xlsx => exact delimPipe_eq .xlsx (by decide) n
  | pptx => exact delimPipe_eq .pptx (by decide) n
  | html => exact delimPipe_eq .html (by decide) n

theorem gfmSplitRow_renderDelim (w : Writer) (n : Nat) (h : 1 ≤ n) :
    gfmSplitRow (renderDelim w n) = List.replicate n [45, 45, 45] := by
  rw [renderDelim_eq w n h, gfmSplitRow_rowLine]
  · rw [List.map_replicate]
    cases w <;> rfl
  · intro p hp
    rw [List.eq_of_mem_replicate hp]
    cases w <;> decide

theorem renderDelim_noNl (w : Writer) (n : Nat) (h : 1 ≤ n) : 10 ∉ renderDelim w n := by
  rw [renderDelim_eq w n h]
  intro hc
  rcases List.mem_cons.mp hc with h1 | h1
  · simp at h1
  · refine rowBody_noNl _ ?_ h1
    intro p hp
    rw [List.eq_of_mem_replicate hp]
    cases w <;> decide

/-! ### lines and the table reader -/

theorem splitLines_append (l rest : Str) (h : 10 ∉ l) :
    splitLines (l ++ 10 :: rest) = l :: splitLines rest := by
  induction l with
  | nil => simp [splitLines]
  | cons c l ih =>
    have hc : c ≠ 10 := fun e => h (by simp [e])
    have hl : 10 ∉ l := fun e => h (List.mem_cons_of_mem _ e)
    simp only [List.cons_append, splitLines, hc, if_false]
    rw [ih hl]

theorem splitLines_rows (lines : List Str) (h : ∀ l ∈ lines, 10 ∉ l) :
    splitLines (lines.flatMap fun l => l ++ [10]) = lines ++ [[]] := by
  induction lines with
  | nil => rfl
  | cons l ls ih =>
    have e : (List.flatMap (fun l => l ++ [10]) (l :: ls)) = l ++ 10 :: List.flatMap (fun l => l ++ [10]) ls := by
      simp
    rw [e, splitLines_append _ _ (h l (by simp)), ih (fun x hx => h x (List.mem_cons_of_mem _ hx))]
    rfl

theorem padTrunc_exact (n : Nat) (cells : List Str) (h : cells.length = n) : padTrunc n cells = cells := by
  unfold padTrunc
  subst h
  simp

theorem isBlank_rowLine (r : Str) : isBlank (124 :: r) = false := by
  simp [isBlank, isWs]

theorem bodyRows_rows_any (w : Writer) (n : Nat) (hn : 1 ≤ n) (rows : List (List Str))
    (hlen : ∀ r ∈ rows, r.length = n) :
    bodyRows n (rows.map (renderRow w) ++ [[]]) = rows.map (List.map (normCell w)) := by
  induction rows with
  | nil => simp [bodyRows, isBlank]
  | cons r rs ih =>
    have hr : r ≠ [] := by
      intro e; have := hlen r (by simp); rw [e] at this; simp at this; omega
    simp only [List.map_cons, List.cons_append, bodyRows]
    rw [ih (fun x hx => hlen x (List.mem_cons_of_mem _ hx))]
    rw [gfmSplitRow_renderRow_any w r hr, renderRow_eq w r hr, isBlank_rowLine]
    rw [padTrunc_exact n _ (by simp [hlen r (by simp)])]
    simp

theorem bodyRows_rows (w : Writer) (n : Nat) (hn : 1 ≤ n) (rows : List (List Str))
    (hlen : ∀ r ∈ rows, r.length = n) (_hbs : ∀ r ∈ rows, ∀ c ∈ r, 92 ∉ c) :
    bodyRows n (rows.map (renderRow w) ++ [[]]) = rows.map (List.map (normCell w)) :=
  bodyRows_rows_any w n hn rows hlen

theorem all_replicate_dash (n : Nat) : (List.replicate n [45, 45, 45]).all isDelimCell = true := by
  rw [List.all_eq_true]
  intro x hx
  rw [List.eq_of_mem_replicate hx]
  decide

/-- a rectangular table of cells of ANY bytes through any writer reads back as the same rows ×
columns of normalised cell texts -/
theorem gfmTable_render_any (w : Writer) (n : Nat) (hn : 1 ≤ n) (hdr : List Str) (rows : List (List Str))
    (hh : hdr.length = n) (hlen : ∀ r ∈ rows, r.length = n) :
    gfmTable (render w (hdr :: rows)) = some ((hdr :: rows).map (List.map (normCell w))) := by
  have hhne : hdr ≠ [] := by intro e; rw [e] at hh; simp at hh; omega
  have hbody : (rows.flatMap fun r => renderRow w r ++ [10])
      = (rows.map (renderRow w)).flatMap fun l => l ++ [10] := by
    induction rows with
    | nil => rfl
    | cons r rs ih =>
      simp only [List.flatMap_cons, List.map_cons]
      rw [ih (fun x hx => hlen x (List.mem_cons_of_mem _ hx))]
  have hlines : splitLines (render w (hdr :: rows))
      = renderRow w hdr :: renderDelim w n :: (rows.map (renderRow w) ++ [[]]) := by
    have e : render w (hdr :: rows) = renderRow w hdr ++ 10 :: (renderDelim w n ++ 10 ::
        ((rows.map (renderRow w)).flatMap fun l => l ++ [10])) := by
      simp only [render, hh, hbody]
      simp
    rw [e, splitLines_append _ _ (renderRow_noNl w hdr hhne),
      splitLines_append _ _ (renderDelim_noNl w n hn), splitLines_rows]
    intro l hl
    rcases List.mem_map.mp hl with ⟨r, hr, rfl⟩
    apply renderRow_noNl
    intro e; have := hlen r hr; rw [e] at this; simp at this; omega
  unfold gfmTable
  rw [hlines]
  simp only
  rw [gfmSplitRow_renderRow_any w hdr hhne, gfmSplitRow_renderDelim w n hn]
  simp only [List.length_map, List.length_replicate, hh, all_replicate_dash]
  rw [bodyRows_rows_any w n hn rows hlen]
  simp [hn]

/-- a rectangular backslash-free table through any writer reads back as the same rows ×
columns of normalised cell texts -/
theorem gfmTable_render (w : Writer) (n : Nat) (hn : 1 ≤ n) (hdr : List Str) (rows : List (List Str))
    (hh : hdr.length = n) (hlen : ∀ r ∈ rows, r.length = n)
    (_hbh : ∀ c ∈ hdr, 92 ∉ c) (_hbs : ∀ r ∈ rows, ∀ c ∈ r, 92 ∉ c) :
    gfmTable (render w (hdr :: rows)) = some ((hdr :: rows).map (List.map (normCell w))) :=
  gfmTable_render_any w n hn hdr rows hh hlen

/-! ### the same, for lines given by their padded cells (used for docx/odt spans) -/

theorem rowLine_noNl (ps : List Str) (h : ∀ p ∈ ps, 10 ∉ p) : 10 ∉ 124 :: rowBody ps := by
  intro hc
  rcases List.mem_cons.mp hc with h1 | h1
  · simp at h1
  · exact rowBody_noNl _ h h1

theorem bodyRows_psLines_end (n : Nat) (bps : List (List Str)) (hlen : ∀ ps ∈ bps, ps.length = n)
    (h92 : ∀ ps ∈ bps, ∀ p ∈ ps, p.getLast? ≠ some 92) :
    bodyRows n (bps.map (fun ps => 124 :: rowBody ps) ++ [[]]) = bps.map (List.map trim) := by
  induction bps with
  | nil => simp [bodyRows, isBlank]
  | cons r rs ih =>
    simp only [List.map_cons, List.cons_append, bodyRows]
    rw [ih (fun x hx => hlen x (List.mem_cons_of_mem _ hx)) (fun x hx => h92 x (List.mem_cons_of_mem _ hx))]
    rw [gfmSplitRow_rowLine_end r (h92 r (by simp)), isBlank_rowLine]
    rw [padTrunc_exact n _ (by simp [hlen r (by simp)])]
    simp

theorem gfmTable_psLines_end (n : Nat) (hn : 1 ≤ n) (hp : List Str) (dp : Str) (bps : List (List Str))
    (hh : hp.length = n) (hlen : ∀ ps ∈ bps, ps.length = n)
    (hdp : trim dp = [45, 45, 45]) (hdp92 : dp.getLast? ≠ some 92) (hdp10 : 10 ∉ dp)
    (h92h : ∀ p ∈ hp, p.getLast? ≠ some 92) (h10h : ∀ p ∈ hp, 10 ∉ p)
    (h92 : ∀ ps ∈ bps, ∀ p ∈ ps, p.getLast? ≠ some 92) (h10 : ∀ ps ∈ bps, ∀ p ∈ ps, 10 ∉ p) :
    gfmTable ((124 :: rowBody hp) ++ 10 :: ((124 :: rowBody (List.replicate n dp)) ++ 10 ::
        ((bps.map fun ps => 124 :: rowBody ps).flatMap fun l => l ++ [10])))
      = some ((hp :: bps).map (List.map trim)) := by
  have hlines : splitLines ((124 :: rowBody hp) ++ 10 :: ((124 :: rowBody (List.replicate n dp)) ++ 10 ::
        ((bps.map fun ps => 124 :: rowBody ps).flatMap fun l => l ++ [10])))
      = (124 :: rowBody hp) :: (124 :: rowBody (List.replicate n dp)) ::
          (bps.map (fun ps => 124 :: rowBody ps) ++ [[]]) := by
    rw [splitLines_append _ _ (rowLine_noNl hp h10h), splitLines_append _ _ (rowLine_noNl _ ?_), splitLines_rows]
    · intro l hl
      rcases List.mem_map.mp hl with ⟨r, hr, rfl⟩
      exact rowLine_noNl r (h10 r hr)
    · intro p hp'
      rw [List.eq_of_mem_replicate hp']; exact hdp10
  unfold gfmTable
  rw [hlines]
  simp only
  rw [gfmSplitRow_rowLine_end hp h92h, gfmSplitRow_rowLine_end (List.replicate n dp) (by
    intro p hp'; rw [List.eq_of_mem_replicate hp']; exact hdp92)]
  rw [List.map_replicate, hdp]
  simp only [List.length_map, List.length_replicate, hh, all_replicate_dash]
  rw [bodyRows_psLines_end n bps hlen h92]
  simp [hn]

theorem bodyRows_psLines (n : Nat) (bps : List (List Str)) (hlen : ∀ ps ∈ bps, ps.length = n)
    (h92 : ∀ ps ∈ bps, ∀ p ∈ ps, 92 ∉ p) :
    bodyRows n (bps.map (fun ps => 124 :: rowBody ps) ++ [[]]) = bps.map (List.map trim) :=
  bodyRows_psLines_end n bps hlen (fun ps hps p hp => getLast?_ne_of_not_mem p 92 (h92 ps hps p hp))

theorem gfmTable_psLines (n : Nat) (hn : 1 ≤ n) (hp : List Str) (dp : Str) (bps : List (List Str))
    (hh : hp.length = n) (hlen : ∀ ps ∈ bps, ps.length = n)
    (hdp : trim dp = [45, 45, 45]) (hdp92 : 92 ∉ dp) (hdp10 : 10 ∉ dp)
    (h92h : ∀ p ∈ hp, 92 ∉ p) (h10h : ∀ p ∈ hp, 10 ∉ p)
    (h92 : ∀ ps ∈ bps, ∀ p ∈ ps, 92 ∉ p) (h10 : ∀ ps ∈ bps, ∀ p ∈ ps, 10 ∉ p) :
    gfmTable ((124 :: rowBody hp) ++ 10 :: ((124 :: rowBody (List.replicate n dp)) ++ 10 ::
        ((bps.map fun ps => 124 :: rowBody ps).flatMap fun l => l ++ [10])))
      = some ((hp :: bps).map (List.map trim)) :=
  gfmTable_psLines_end n hn hp dp bps hh hlen hdp (getLast?_ne_of_not_mem dp 92 hdp92) hdp10
    (fun p hp' => getLast?_ne_of_not_mem p 92 (h92h p hp')) h10h
    (fun ps hps p hp' => getLast?_ne_of_not_mem p 92 (h92 ps hps p hp')) h10

/-! ### docx / odt rows with merged cells -/

theorem SCell.cols_pos (c : SCell) : 1 ≤ c.cols := by
  unfold SCell.cols; split <;> omega

/-- padded cells of one docx/odt row -/
def spanPs (w : Writer) (n : Nat) (cells : List SCell) : List Str :=
  cells.flatMap (fun c =>
    if c.cont then List.replicate c.cols [32] else padCell w c.text :: List.replicate (c.cols - 1) [32])
  ++ List.replicate (n - rowCols cells) [32]

theorem emptyCells_eq (k : Nat) : emptyCells k = rowBody (List.replicate k [32]) := by
  unfold emptyCells
  induction k with
  | zero => rfl
  | succ k ih => rw [List.replicate_succ, List.flatten_cons, ih, List.replicate_succ, rowBody_cons]; rfl

theorem flatMap_spanCellOut (w : Writer) (cells : List SCell) :
    cells.flatMap (spanCellOut w) = rowBody (cells.flatMap (fun c =>
      if c.cont then List.replicate c.cols [32] else padCell w c.text :: List.replicate (c.cols - 1) [32])) := by
  induction cells with
  | nil => rfl
  | cons c cs ih =>
    rw [List.flatMap_cons, List.flatMap_cons, rowBody_append, ih]
    congr 1
    unfold spanCellOut
    split
    · exact emptyCells_eq _
    · rw [rowBody_cons, ← emptyCells_eq, padCell, escPipe_pad, escCell_eq]; simp

theorem renderSpanRow_eq (w : Writer) (n : Nat) (cells : List SCell) :
    renderSpanRow w n cells = 124 :: rowBody (spanPs w n cells) := by
  unfold renderSpanRow spanPs
  rw [rowBody_append, ← emptyCells_eq, flatMap_spanCellOut]
  rfl

theorem length_spanPs (w : Writer) (n : Nat) (cells : List SCell) (h : rowCols cells ≤ n) :
    (spanPs w n cells).length = n := by
  have : ∀ cs : List SCell, (cs.flatMap (fun c =>
      if c.cont then List.replicate c.cols [32] else padCell w c.text :: List.replicate (c.cols - 1) [32])).length
      = rowCols cs := by
    intro cs
    induction cs with
    | nil => rfl
    | cons c cs ih =>
      rw [List.flatMap_cons, List.length_append, ih]
      have := c.cols_pos
      unfold rowCols
      simp only [List.map_cons, List.sum_cons]
      split <;> simp <;> omega
  unfold spanPs
  rw [List.length_append, this, List.length_replicate]
  omega

theorem map_trim_spanPs (w : Writer) (n : Nat) (cells : List SCell) :
    (spanPs w n cells).map trim = gridRow w n cells := by
  unfold spanPs gridRow
  rw [List.map_append, List.map_replicate, trim_space, List.map_flatMap]
  congr 1
  induction cells with
  | nil => rfl
  | cons c cs ih =>
    rw [List.flatMap_cons, List.flatMap_cons, ih]
    congr 1
    split
    · rw [List.map_replicate, trim_space]
    · rw [List.map_cons, List.map_replicate, trim_space, trim_padCell]

theorem spanPs_no (w : Writer) (n : Nat) (cells : List SCell) (x : Nat) (hx : x ≠ 32)
    (h : ∀ c ∈ cells, x ∉ preCell w c.text) : ∀ p ∈ spanPs w n cells, x ∉ p := by
  intro p hp
  unfold spanPs at hp
  rcases List.mem_append.mp hp with h1 | h1
  · rcases List.mem_flatMap.mp h1 with ⟨c, hc, h2⟩
    split at h2
    · rw [List.eq_of_mem_replicate h2]; simp; exact hx
    · rcases List.mem_cons.mp h2 with h3 | h3
      · rw [h3]; unfold padCell; intro h4; simp at h4
        rcases h4 with h4 | h4 | h4
        · exact hx h4
        · exact h c hc h4
        · exact hx h4
      · rw [List.eq_of_mem_replicate h3]; simp; exact hx
  · rw [List.eq_of_mem_replicate h1]; simp; exact hx

/-- every padded cell of a docx/odt row ends in a space, whatever the cell texts -/
theorem spanPs_end (w : Writer) (n : Nat) (cells : List SCell) :
    ∀ p ∈ spanPs w n cells, p.getLast? ≠ some 92 := by
  intro p hp
  unfold spanPs at hp
  rcases List.mem_append.mp hp with h1 | h1
  · rcases List.mem_flatMap.mp h1 with ⟨c, _, h2⟩
    split at h2
    · rw [List.eq_of_mem_replicate h2]; decide
    · rcases List.mem_cons.mp h2 with h3 | h3
      · rw [h3]; exact padCell_end w c.text
      · rw [List.eq_of_mem_replicate h3]; decide
  · rw [List.eq_of_mem_replicate h1]; decide

theorem le_foldl_max (t : List (List SCell)) (m : Nat) :
    m ≤ t.foldl (fun m r => if rowCols r > m then rowCols r else m) m ∧
    ∀ r ∈ t, rowCols r ≤ t.foldl (fun m r => if rowCols r > m then rowCols r else m) m := by
  induction t generalizing m with
  | nil => simp
  | cons a t ih =>
    simp only [List.foldl_cons]
    by_cases hc : rowCols a > m
    · simp only [hc, if_true]
      have h := ih (rowCols a)
      refine ⟨by have := h.1; omega, ?_⟩
      intro r hr
      rcases List.mem_cons.mp hr with e | e
      · subst e; exact h.1
      · exact h.2 r e
    · simp only [hc, if_false]
      have h := ih m
      refine ⟨h.1, ?_⟩
      intro r hr
      rcases List.mem_cons.mp hr with e | e
      · subst e; have := h.1; omega
      · exact h.2 r e

theorem rowCols_le_colCount (t : List (List SCell)) : ∀ r ∈ t, rowCols r ≤ colCount t :=
  (le_foldl_max t 0).2

/-! ### headings and lists -/

theorem takeWhile_replicate_append (p : Nat → Bool) (a : Nat) (k : Nat) (r : Str) (hp : p a = true) :
    (List.replicate k a ++ r).takeWhile p = List.replicate k a ++ r.takeWhile p := by
  induction k with
  | zero => simp
  | succ k ih => simp [List.replicate_succ, hp, ih]

theorem dropWhile_replicate_append (p : Nat → Bool) (a : Nat) (k : Nat) (r : Str) (hp : p a = true) :
    (List.replicate k a ++ r).dropWhile p = r.dropWhile p := by
  induction k with
  | zero => simp
  | succ k ih => simp [List.replicate_succ, hp, ih]

theorem dec_digits (n : Nat) : ∀ c ∈ dec n, isDigit c = true := by
  unfold dec
  induction n using Nat.strongRecOn with
  | _ n ih =>
    rw [decAux]
    split
    · intro c hc; simp at hc; subst hc; simp [isDigit]; omega
    · rw [decAux_acc]
      intro c hc
      rcases List.mem_append.mp hc with h | h
      · exact ih (n / 10) (by omega) c h
      · simp at h; subst h; simp [isDigit]; omega

theorem takeWhile_all_append (p : Nat → Bool) (a r : Str) (h : ∀ c ∈ a, p c = true) :
    (a ++ r).takeWhile p = a ++ r.takeWhile p := by
  induction a with
  | nil => rfl
  | cons x a ih =>
    simp [h x (by simp), ih (fun c hc => h c (List.mem_cons_of_mem _ hc))]

theorem dropWhile_all_append (p : Nat → Bool) (a r : Str) (h : ∀ c ∈ a, p c = true) :
    (a ++ r).dropWhile p = r.dropWhile p := by
  induction a with
  | nil => rfl
  | cons x a ih =>
    simp [h x (by simp), ih (fun c hc => h c (List.mem_cons_of_mem _ hc))]

theorem trimRight_idem (s : Str) : trimRight (trimRight s) = trimRight s := by
  induction s with
  | nil => rfl
  | cons a s ih =>
    rw [trimRight_cons]
    split
    · rfl
    · rename_i h
      rw [trimRight_cons, ih]
      simp only [h]
      simp

theorem trimLeft_trimRight_of_head (y : Str) (h : y = [] ∨ ∃ a y', y = a :: y' ∧ isWs a = false) :
    trimLeft (trimRight y) = trimRight y := by
  rcases h with h | ⟨a, y', h, ha⟩
  · subst h; rfl
  · subst h
    rw [trimRight_cons]
    simp [ha, trimLeft]

theorem trimLeft_head (s : Str) : trimLeft s = [] ∨ ∃ a y', trimLeft s = a :: y' ∧ isWs a = false := by
  induction s with
  | nil => exact Or.inl rfl
  | cons a s ih =>
    simp only [trimLeft]
    split
    · exact ih
    · rename_i h
      exact Or.inr ⟨a, s, rfl, by simpa using h⟩

theorem trim_trim (s : Str) : trim (trim s) = trim s := by
  unfold trim
  rw [trimLeft_trimRight_of_head _ (trimLeft_head s), trimRight_idem]

theorem replaceByte_absent (o : Nat) (n s : Str) (h : o ∉ s) : replaceByte o n s = s := by
  induction s with
  | nil => rfl
  | cons c s ih =>
    have hc : c ≠ o := fun e => h (by simp [e])
    rw [replaceByte_cons, ih (fun e => h (List.mem_cons_of_mem _ e))]
    simp [hc]

theorem flatMap_lines {α : Type} (f : α → Str) (rows : List α) :
    (rows.flatMap fun r => f r ++ [10]) = (rows.map f).flatMap fun l => l ++ [10] := by
  induction rows with
  | nil => rfl
  | cons r rs ih => simp only [List.flatMap_cons, List.map_cons, ih]

theorem parse_unordered (k : Nat) (text : Str) :
    parseListLine (List.replicate k 32 ++ 45 :: 32 :: text) = some (k / 2, false, text) := by
  unfold parseListLine
  have ht : (List.replicate k 32 ++ 45 :: 32 :: text).takeWhile (· == 32) = List.replicate k 32 := by
    rw [takeWhile_replicate_append _ _ _ _ (by decide)]; simp
  have hd : (List.replicate k 32 ++ 45 :: 32 :: text).dropWhile (· == 32) = 45 :: 32 :: text := by
    rw [dropWhile_replicate_append _ _ _ _ (by decide)]; simp
  simp only [ht, hd, List.length_replicate]
  simp

theorem parseOrdered_dec (ind n : Nat) (text : Str) :
    parseOrdered ind (dec n ++ 46 :: 32 :: text) = some (ind / 2, true, text) := by
  obtain ⟨d, ds, hdec, _, _⟩ := dec_head n
  unfold parseOrdered
  rw [takeWhile_all_append _ _ _ (dec_digits n), dropWhile_all_append _ _ _ (dec_digits n)]
  simp [isDigit, hdec]

theorem parse_ordered (k n : Nat) (text : Str) :
    parseListLine (List.replicate k 32 ++ (dec n ++ 46 :: 32 :: text)) = some (k / 2, true, text) := by
  obtain ⟨d, ds, hdec, hd1, hd2⟩ := dec_head n
  have hne : (d == 32) = false := by simp; omega
  unfold parseListLine
  have ht : (List.replicate k 32 ++ (dec n ++ 46 :: 32 :: text)).takeWhile (· == 32) = List.replicate k 32 := by
    rw [takeWhile_replicate_append _ _ _ _ (by decide), hdec]; simp [hne]
  have hd : (List.replicate k 32 ++ (dec n ++ 46 :: 32 :: text)).dropWhile (· == 32)
      = dec n ++ 46 :: 32 :: text := by
    rw [dropWhile_replicate_append _ _ _ _ (by decide), hdec]; simp [hne]
  simp only [ht, hd, List.length_replicate]
  split
  · rename_i m t heq
    rw [hdec] at heq
    simp only [List.cons_append, List.cons.injEq] at heq
    have hm : ¬ (m = 45 ∨ m = 42 ∨ m = 43) := by omega
    simp only [hm, if_false]
    exact parseOrdered_dec k n text
  · exact parseOrdered_dec k n text

end Tabula.Markdown
