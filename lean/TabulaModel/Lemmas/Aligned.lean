import TabulaModel.Lemmas.SplitValid
import TabulaModel.Lemmas.Conserve
/-!
C13: conservation of the non-whitespace characters by `SplitToSize(text, nil)` for ANY bytes
(ill-formed UTF-8 included).  A split point is never strictly inside a well-formed character
(`NotCovered`), hence the left-to-right scan that defines `stripWs` passes through it
(`Aligned`), hence `stripWs` distributes over the cut.
-/
set_option linter.unusedVariables false
namespace Tabula.Split

/-- no well-formed character of `s` has position `p` strictly inside it -/
def NotCovered (s : Str) (p : Nat) : Prop := ∀ q, q < p → ¬ (p < q + charLen (s.drop q))

theorem notCovered_zero (s : Str) : NotCovered s 0 := fun q h => absurd h (Nat.not_lt_zero _)

theorem notCovered_of_ge (s : Str) (p : Nat) (h : s.length ≤ p) : NotCovered s p := by
  intro q hq hc
  have := charLen_le_length (s.drop q)
  simp only [List.length_drop] at this
  omega

theorem notCovered_of_runeStart (s : Str) (p b : Nat) (hb : s[p]? = some b) (hr : runeStart b = true) :
    NotCovered s p := by
  intro q hq hc
  obtain ⟨c, hc1, hc2⟩ := drop_cont s q p hq hc
  rw [hb] at hc1; cases hc1
  exact isCont_not_runeStart hc2 hr

theorem notCovered_after_ascii (s : Str) (i b : Nat) (hb : s[i]? = some b) (hlt : b < 0x80) :
    NotCovered s (i + 1) := by
  intro q hq hc
  by_cases e : q = i
  · subst e
    have hl : q < s.length := (List.getElem?_eq_some_iff.mp hb).1
    have hd : s.drop q = b :: s.drop (q + 1) := by
      rw [List.drop_eq_getElem_cons hl]
      have := (List.getElem?_eq_some_iff.mp hb).2
      rw [this]
    rw [hd, charLen_one hlt] at hc
    omega
  · obtain ⟨c, hc1, hc2⟩ := drop_cont s q i (by omega) (by omega)
    rw [hb] at hc1; cases hc1
    have := isCont_ge hc2
    omega

/-! ### the scan of `stripWs` -/

/-- the width of the character `stripWs` reads at the head of `s` -/
def scanStep (s : Str) : Nat := if spaceLen s ≠ 0 then spaceLen s else runeLen s

theorem scanStep_pos (s : Str) : 0 < scanStep s := by
  unfold scanStep
  split
  · omega
  · exact runeLen_pos s

theorem runeLen_le_length (s : Str) (hs : s ≠ []) : runeLen s ≤ s.length := by
  unfold runeLen
  split
  · exact List.length_pos_iff.mpr hs
  · exact charLen_le_length s

theorem scanStep_le_length (s : Str) (hs : s ≠ []) : scanStep s ≤ s.length := by
  unfold scanStep
  split
  · exact spaceLen_le_length s
  · exact runeLen_le_length s hs

/-- the scan passes through position `p` -/
inductive Aligned : Str → Nat → Prop
  | zero (s : Str) : Aligned s 0
  | next {s : Str} {p : Nat} : s ≠ [] → Aligned (s.drop (scanStep s)) p → Aligned s (scanStep s + p)

/-- what the scan reads at the head does not change when the string is cut behind it -/
theorem scan_take (s : Str) (n : Nat) (hs : s ≠ []) (hn : scanStep s ≤ n) :
    spaceLen (s.take n) = spaceLen s ∧ (spaceLen s = 0 → runeLen (s.take n) = runeLen s) := by
  have hsplit : s.take n ++ s.drop n = s := List.take_append_drop n s
  by_cases hsp : spaceLen s = 0
  · have h1 : spaceLen (s.take n) = 0 := by
      apply Classical.byContradiction
      intro hne
      have := spaceLen_append (s.take n) (s.drop n) hne
      rw [hsplit] at this
      omega
    refine ⟨by rw [h1, hsp], fun _ => ?_⟩
    have hk : scanStep s = runeLen s := by simp [scanStep, hsp]
    by_cases hc : charLen s = 0
    · have hc' : charLen (s.take n) = 0 := by
        apply Classical.byContradiction
        intro hne
        have := charLen_append (s.take n) (s.drop n) hne
        rw [hsplit] at this
        omega
      simp [runeLen, hc, hc']
    · have hr : runeLen s = charLen s := by simp [runeLen, hc]
      have := charLen_take s n hc (by omega)
      simp [runeLen, this, hc]
  · have hk : scanStep s = spaceLen s := by simp [scanStep, hsp]
    refine ⟨?_, fun h => absurd h hsp⟩
    have hw := isWsChar_take_spaceLen s hsp
    have hle := spaceLen_le_length s
    have ht : (s.take n).take (spaceLen s) = s.take (spaceLen s) := by
      rw [List.take_take, Nat.min_eq_left (by omega)]
    have h3 := spaceLen_wsChar_append hw ((s.take n).drop (spaceLen s))
    rw [← ht, List.take_append_drop] at h3
    rw [h3, List.length_take, List.length_take]
    omega

/-- `stripWs` distributes over a cut the scan passes through -/
theorem Aligned.stripWs_eq {s : Str} {p : Nat} (h : Aligned s p) :
    stripWs s = stripWs (s.take p) ++ stripWs (s.drop p) := by
  induction h with
  | zero s => simp [stripWs_nil]
  | @next s p hs _ ih =>
    have hk := scanStep_pos s
    have hkl := scanStep_le_length s hs
    obtain ⟨e1, e2⟩ := scan_take s (scanStep s + p) hs (by omega)
    have htne : s.take (scanStep s + p) ≠ [] := by
      intro e
      have := congrArg List.length e
      have hpos : 0 < s.length := List.length_pos_iff.mpr hs
      simp only [List.length_take, List.length_nil] at this
      omega
    have hdt : (s.take (scanStep s + p)).drop (scanStep s) = (s.drop (scanStep s)).take p := by
      rw [List.drop_take]
      congr 1
      omega
    have htt : (s.take (scanStep s + p)).take (scanStep s) = s.take (scanStep s) := by
      rw [List.take_take, Nat.min_eq_left (by omega)]
    have hdd : s.drop (scanStep s + p) = (s.drop (scanStep s)).drop p := by
      rw [List.drop_drop]
    rw [hdd]
    by_cases hsp : spaceLen s = 0
    · have hk' : scanStep s = runeLen s := by simp [scanStep, hsp]
      have hr := e2 hsp
      have hL : stripWs s = s.take (scanStep s) ++ stripWs (s.drop (scanStep s)) := by
        rw [hk']; exact stripWs_char s hs hsp
      have hT : stripWs (s.take (scanStep s + p))
          = s.take (scanStep s) ++ stripWs ((s.drop (scanStep s)).take p) := by
        rw [stripWs_char (s.take (scanStep s + p)) htne (by rw [e1]; exact hsp), hr, ← hk', htt, hdt]
      rw [hL, hT, ih, List.append_assoc]
    · have hk' : scanStep s = spaceLen s := by simp [scanStep, hsp]
      have hL : stripWs s = stripWs (s.drop (scanStep s)) := by
        rw [hk']; exact stripWs_space s hsp
      have hT : stripWs (s.take (scanStep s + p)) = stripWs ((s.drop (scanStep s)).take p) := by
        rw [stripWs_space (s.take (scanStep s + p)) (by rw [e1]; exact hsp), e1, ← hk', hdt]
      rw [hL, hT, ih]

theorem scanStep_cases (s : Str) : scanStep s = 1 ∨ (scanStep s = charLen s ∧ charLen s ≠ 0) := by
  unfold scanStep
  split
  · rename_i h
    right
    have := charLen_of_spaceLen s h
    exact ⟨this.symm, by omega⟩
  · unfold runeLen
    split
    · left; rfl
    · rename_i h; right; exact ⟨rfl, h⟩

/-- a position no well-formed character covers is passed by the scan -/
theorem aligned_of_notCovered (p : Nat) : ∀ s : Str, p ≤ s.length → NotCovered s p → Aligned s p := by
  induction p using Nat.strongRecOn with
  | _ p ih =>
    intro s hp hn
    by_cases h0 : p = 0
    · subst h0; exact .zero s
    · have hs : s ≠ [] := by
        intro e; subst e; simp at hp; exact h0 hp
      have hk := scanStep_pos s
      have hkp : scanStep s ≤ p := by
        rcases scanStep_cases s with h1 | ⟨h1, h2⟩
        · omega
        · have := hn 0 (by omega)
          rw [List.drop_zero] at this
          omega
      have hrec : Aligned (s.drop (scanStep s)) (p - scanStep s) := by
        apply ih (p - scanStep s) (by omega)
        · simp only [List.length_drop]; omega
        · intro q hq hc
          rw [List.drop_drop] at hc
          exact hn (scanStep s + q) (by omega) (by omega)
      have e : p = scanStep s + (p - scanStep s) := by omega
      rw [e]
      exact .next hs hrec

theorem stripWs_cut (s : Str) (p : Nat) (hn : NotCovered s p) :
    stripWs s = stripWs (s.take p) ++ stripWs (s.drop p) := by
  by_cases hp : p ≤ s.length
  · exact (aligned_of_notCovered p s hp hn).stripWs_eq
  · rw [List.take_of_length_le (by omega), List.drop_eq_nil_of_le (by omega), stripWs_nil, List.append_nil]

/-! ### the split points -/

theorem backToStart_le (s : Str) (i k : Nat) : backToStart s i k ≤ i := by
  induction k generalizing i with
  | zero => exact Nat.le_refl _
  | succ n ih =>
    unfold backToStart
    split
    · omega
    · split
      · split
        · exact Nat.le_refl _
        · exact Nat.le_trans (ih (i - 1)) (Nat.sub_le _ _)
      · exact Nat.le_refl _

theorem notCovered_charLen (s : Str) (h : charLen s ≠ 0) : NotCovered s (charLen s) := by
  intro q hq hc
  by_cases e : q = 0
  · subst e; rw [List.drop_zero] at hc; omega
  · obtain ⟨b, hb1, hb2⟩ := drop_cont s 0 q (by omega) (by rw [List.drop_zero]; omega)
    obtain ⟨b', hb1', hb2'⟩ := drop_head s q (by omega)
    rw [hb1] at hb1'; cases hb1'
    exact isCont_not_runeStart hb2 hb2'

theorem notCovered_runeBoundaryNear (s : Str) (pos : Nat) : NotCovered s (runeBoundaryNear s pos) := by
  unfold runeBoundaryNear
  by_cases h0 : pos = 0 ∨ pos ≥ s.length
  · rw [if_pos h0]
    rcases h0 with rfl | h
    · exact notCovered_zero s
    · exact notCovered_of_ge s pos h
  · rw [if_neg h0]
    have hpos : pos < s.length := by omega
    have hb : s[pos]? = some s[pos] := List.getElem?_eq_getElem hpos
    rw [hb]
    simp only
    cases hr : runeStart s[pos]
    · simp only [Bool.false_eq_true, if_false]
      by_cases hcov : ∃ q, q < pos ∧ pos < q + charLen (s.drop q)
      · obtain ⟨q, hq1, hq2⟩ := hcov
        rw [backToStart_char s q pos hq1 hq2]
        have hn : charLen (s.drop q) ≠ 0 := by omega
        have hsz : runeLen (s.drop q) = charLen (s.drop q) := by
          unfold runeLen; rw [if_neg hn]
        rw [hsz, if_neg (by omega)]
        by_cases hq0 : q > 0
        · rw [if_pos hq0]
          obtain ⟨a, ha1, ha2⟩ := drop_head s q hn
          exact notCovered_of_runeStart s q a ha1 ha2
        · rw [if_neg hq0]
          have : q = 0 := by omega
          subst this
          rw [List.drop_zero] at hn ⊢
          exact notCovered_charLen s hn
      · have hnc : NotCovered s pos := fun q hq hc => hcov ⟨q, hq, hc⟩
        have hst := backToStart_le s (pos - 1) 2
        generalize backToStart s (pos - 1) 2 = start at hst ⊢
        by_cases hle : start + runeLen (s.drop start) ≤ pos
        · rw [if_pos hle]; exact hnc
        · exfalso
          by_cases hc : charLen (s.drop start) = 0
          · have : runeLen (s.drop start) = 1 := by simp [runeLen, hc]
            omega
          · have : runeLen (s.drop start) = charLen (s.drop start) := by simp [runeLen, hc]
            exact hcov ⟨start, by omega, by omega⟩
    · simp only [if_true]
      exact notCovered_of_runeStart s pos _ hb hr

theorem notCovered_of_drop_ascii (s : Str) (T k b q : Nat)
    (e : q = T + k + 1) (hb : (s.drop T)[k]? = some b) (hlt : b < 0x80) : NotCovered s q := by
  subst e
  rw [List.getElem?_drop] at hb
  exact notCovered_after_ascii s (T + k) b hb hlt

theorem notCovered_findWordBoundaryNear (s : Str) (T : Nat) : NotCovered s (findWordBoundaryNear s T) := by
  unfold findWordBoundaryNear
  split
  · exact notCovered_of_ge s _ (Nat.le_refl _)
  · simp only
    split
    · rename_i hp
      obtain ⟨j, b, e, hb, hlt⟩ := findWordBoundaryBefore_spec s T hp
      rw [e]; exact notCovered_after_ascii s j b hb hlt
    · split
      · rename_i q hq
        obtain ⟨k, b, e, hb, hlt⟩ := wordFwd_spec _ _ _ _ hq
        exact notCovered_of_drop_ascii s T k b q e hb hlt
      · exact notCovered_runeBoundaryNear s T

theorem notCovered_findSentenceEndNear (s : Str) (T : Nat) : NotCovered s (findSentenceEndNear s T) := by
  unfold findSentenceEndNear
  split
  · exact notCovered_of_ge s _ (Nat.le_refl _)
  · split
    · rename_i p hp
      split at hp
      · simp at hp
      · obtain ⟨b, hb, hlt⟩ := sentBack_spec s _ _ p hp
        exact notCovered_of_runeStart s p b hb (runeStart_of_lt hlt)
    · simp only
      split
      · rename_i hp
        obtain ⟨j, b, e, hb, hlt⟩ := findWordBoundaryBefore_spec s T hp
        rw [e]; exact notCovered_after_ascii s j b hb hlt
      · split
        · rename_i q hq
          obtain ⟨k, b, e, hb, hlt⟩ := sentFwd_spec _ _ _ _ hq
          exact notCovered_of_drop_ascii s T k b q e hb hlt
        · exact notCovered_findWordBoundaryNear s T

/-- without semantic boundaries no split point lies strictly inside a well-formed character,
whatever the bytes -/
theorem notCovered_findSplitPointAt (c : SizeConfig) (s : Str) (M : Nat) (u : SizeUnit) :
    NotCovered s (findSplitPointAt c s [] M u) := by
  unfold findSplitPointAt
  simp only [List.isEmpty_nil, Bool.not_true, Bool.and_false, Bool.false_eq_true, if_false]
  split
  · exact notCovered_of_ge s _ (Nat.le_refl _)
  · exact notCovered_findSentenceEndNear s _

/-! ### trimming and the main theorem -/

theorem wsOnly_head (r : Str) (hr : WsOnly r) (hne : r ≠ []) : ∃ b, r[0]? = some b ∧ runeStart b = true := by
  cases hr with
  | nil => exact absurd rfl hne
  | @cons c t hc _ =>
    have h0 : spaceLen c ≠ 0 := by
      rw [hc.2]; exact Nat.ne_of_gt (List.length_pos_iff.mpr hc.1)
    have e := charLen_of_spaceLen c h0
    obtain ⟨b, hb1, hb2⟩ := charLen_head c (by rw [e]; exact h0)
    refine ⟨b, ?_, hb2⟩
    have hl : 0 < c.length := List.length_pos_iff.mpr hc.1
    rw [List.getElem?_append_left hl]; exact hb1

/-- `strings.TrimSpace` removes no non-whitespace character, whatever the bytes -/
theorem stripWs_trimSpace_any (x : Str) : stripWs (trimSpace x) = stripWs x := by
  obtain ⟨l, r, hl, hr, e⟩ := trimSpace_decomp x
  have hcut : NotCovered (trimSpace x ++ r) (trimSpace x).length := by
    by_cases hne : r = []
    · subst hne; exact notCovered_of_ge _ _ (by simp)
    · obtain ⟨b, hb1, hb2⟩ := wsOnly_head r hr hne
      apply notCovered_of_runeStart _ _ b _ hb2
      rw [List.getElem?_append_right (Nat.le_refl _)]
      simpa using hb1
  have h1 := stripWs_cut _ _ hcut
  rw [List.take_left, List.drop_left, stripWs_wsOnly hr, List.append_nil] at h1
  conv => rhs; rw [e, List.append_assoc, stripWs_wsOnly_append hl, h1]

/-- **conservation for any bytes**: the non-whitespace characters of the pieces of
`SplitToSize(text, nil)` are exactly those of the text, in order -/
theorem splitToSize_content (c : SizeConfig) (text : Str) (bs : List Boundary) (hbs : bs = []) :
    (splitToSize c text bs).flatMap stripWs = stripWs text := by
  induction text, bs using splitToSize.induct c with
  | case1 rem bs h =>
    rw [splitToSize, if_pos h]
    have : rem = [] := List.length_eq_zero_iff.mp h
    subst this
    simp [stripWs_nil]
  | case2 rem bs h hmax =>
    rw [splitToSize, if_neg h, if_pos hmax]; simp
  | case3 rem bs h hmax sp hsp =>
    rw [splitToSize, if_neg h, if_neg hmax]
    simp only [sp] at hsp
    rw [dif_pos hsp]; simp
  | case4 rem bs h hmax sp hsp chunk rest bs' hchunk ih =>
    rw [splitToSize, if_neg h, if_neg hmax]
    simp only [sp] at hsp
    rw [dif_neg hsp]
    simp only [chunk, sp] at hchunk
    rw [if_pos hchunk]
    subst hbs
    have hcut := stripWs_cut rem _ (notCovered_findSplitPointAt c rem c.maxValue c.maxUnit)
    rw [ih rfl, hcut]
    simp only [rest, sp]
    rw [stripWs_trimSpace_any, ← stripWs_trimSpace_any (rem.take _), hchunk, stripWs_nil, List.nil_append]
  | case5 rem bs h hmax sp hsp chunk rest bs' hchunk ih =>
    rw [splitToSize, if_neg h, if_neg hmax]
    simp only [sp] at hsp
    rw [dif_neg hsp]
    simp only [chunk, sp] at hchunk
    rw [if_neg hchunk]
    subst hbs
    have hcut := stripWs_cut rem _ (notCovered_findSplitPointAt c rem c.maxValue c.maxUnit)
    rw [List.flatMap_cons, ih rfl, hcut]
    simp only [rest, sp]
    rw [stripWs_trimSpace_any, stripWs_trimSpace_any]

end Tabula.Split
