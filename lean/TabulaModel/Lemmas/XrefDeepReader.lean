import TabulaModel.Lemmas.XrefExpand
import TabulaModel.Lemmas.XrefResolveGen
/-!
# `Reader.ResolveDeep` against the plain tree unfolding `expand`

* `rdeep_eq_expand`, `resolveDeepR_eq_expand`: on every object graph where the tree unfolding
  `expand g false` succeeds within the depth limit, `Reader.ResolveDeep` (`rdeep`,
  `resolveDeepR`) returns exactly that unfolding - the shared results (`done`) and the
  back-reference rule (`active`) are invisible there;
* `mapOpt_sortKV`: visiting a dictionary in key order (`rdeep`) or in the given order and sorting
  afterwards (`expand`) is the same (`insertKV` / `sortKV` only look at the keys);
* `expand_noRef`: the deep value holds no reference outside stream dictionaries;
* `rdeep_sound`, `resolveDeepR_sound`, `resolveDeepR_lookups`: conversely, whatever `rdeep`
  answers (any `active`, `depth`, `fuel`), an answer that holds no reference is the deep value -
  a lookup that fails below the object is never papered over by a shared result (no partial
  answers);
* `resolveDeepR_cycle`, `expand_cycleGraph`: on a reference cycle the answer holds the back
  reference left in place and there is no deep value, so `NoRef` cannot be dropped there.
Core Lean only.
-/
namespace Tabula.XrefR
open Tabula.Reader (PVal)
open Tabula.XrefFile (Str)

/-- every finished reference holds the deep value of the object it names -/
def DoneOk (g : Int → Option PVal) (done : List (Ref × DObj)) : Prop :=
  ∀ r res, done.lookup r = some res → ∃ b, expand g false b (.ref r.1 r.2) = some res

theorem doneOk_nil (g : Int → Option PVal) : DoneOk g [] := by
  intro r res h
  cases h

/-! ## key order: `insertKV` / `sortKV` only look at the keys -/

theorem mem_insertKV {p q : Str × DObj} {l : List (Str × DObj)} (h : p ∈ insertKV q l) : p = q ∨ p ∈ l := by
  induction l with
  | nil =>
    simp only [insertKV, List.mem_singleton] at h
    exact .inl h
  | cons x r ih =>
    simp only [insertKV] at h
    by_cases hlt : strLt q.1 x.1 = true
    · simp only [hlt, if_true, List.mem_cons] at h
      simp only [List.mem_cons]
      exact h
    · simp only [hlt, Bool.false_eq_true, if_false, List.mem_cons] at h
      simp only [List.mem_cons]
      rcases h with h | h
      · exact .inr (.inl h)
      · rcases ih h with h | h
        · exact .inl h
        · exact .inr (.inr h)

theorem mem_sortKV {p : Str × DObj} {l : List (Str × DObj)} (h : p ∈ sortKV l) : p ∈ l := by
  induction l with
  | nil => exact h
  | cons x r ih =>
    simp only [sortKV] at h
    rcases mem_insertKV h with h | h
    · subst h; exact List.mem_cons_self ..
    · exact List.mem_cons_of_mem _ (ih h)

theorem mem_insertKV_of {p q : Str × DObj} {l : List (Str × DObj)} (h : p = q ∨ p ∈ l) : p ∈ insertKV q l := by
  induction l with
  | nil =>
    simp only [insertKV, List.mem_singleton]
    rcases h with h | h
    · exact h
    · cases h
  | cons x r ih =>
    simp only [insertKV]
    by_cases hlt : strLt q.1 x.1 = true
    · simp only [hlt, if_true, List.mem_cons]
      simp only [List.mem_cons] at h
      exact h
    · simp only [hlt, Bool.false_eq_true, if_false, List.mem_cons]
      simp only [List.mem_cons] at h
      rcases h with h | h | h
      · exact .inr (ih (.inl h))
      · exact .inl h
      · exact .inr (ih (.inr h))

theorem mem_sortKV_of {p : Str × DObj} {l : List (Str × DObj)} (h : p ∈ l) : p ∈ sortKV l := by
  induction l with
  | nil => exact h
  | cons x r ih =>
    simp only [sortKV]
    apply mem_insertKV_of
    simp only [List.mem_cons] at h
    rcases h with h | h
    · exact .inl h
    · exact .inr (ih h)

theorem mem_snd_sortKV {e : DObj} {l : List (Str × DObj)} (h : e ∈ (sortKV l).map Prod.snd) : e ∈ l.map Prod.snd := by
  simp only [List.mem_map] at h ⊢
  obtain ⟨p, hp, he⟩ := h
  exact ⟨p, mem_sortKV hp, he⟩

theorem mem_snd_sortKV_of {e : DObj} {l : List (Str × DObj)} (h : e ∈ l.map Prod.snd) : e ∈ (sortKV l).map Prod.snd := by
  simp only [List.mem_map] at h ⊢
  obtain ⟨p, hp, he⟩ := h
  exact ⟨p, mem_sortKV_of hp, he⟩

/-- same keys, the values of the second list are the images of the values of the first -/
inductive KVRel (f : DObj → Option DObj) : List (Str × DObj) → List (Str × DObj) → Prop
  | nil : KVRel f [] []
  | cons {k : Str} {e e' : DObj} {l l' : List (Str × DObj)} :
      f e = some e' → KVRel f l l' → KVRel f ((k, e) :: l) ((k, e') :: l')

theorem kvRel_of_mapOpt {f : DObj → Option DObj} :
    ∀ (kv : List (Str × DObj)) (ys : List DObj), mapOpt f (kv.map Prod.snd) = some ys →
      KVRel f kv ((kv.map Prod.fst).zip ys) := by
  intro kv
  induction kv with
  | nil =>
    intro ys h
    simp only [List.map, mapOpt] at h
    cases h
    exact .nil
  | cons p r ih =>
    intro ys h
    obtain ⟨k, e⟩ := p
    simp only [List.map, mapOpt] at h
    cases hx : f e with
    | none => rw [hx] at h; cases h
    | some x' =>
      rw [hx] at h
      cases hr : mapOpt f (r.map Prod.snd) with
      | none => rw [hr] at h; cases h
      | some rs =>
        rw [hr] at h
        simp only [Option.map] at h
        cases h
        simp only [List.map, List.zip_cons_cons]
        exact .cons hx (ih rs hr)

theorem kvRel_insertKV {f : DObj → Option DObj} {k : Str} {e e' : DObj} (he : f e = some e')
    {l l' : List (Str × DObj)} (h : KVRel f l l') : KVRel f (insertKV (k, e) l) (insertKV (k, e') l') := by
  induction h with
  | nil => exact .cons he .nil
  | @cons k2 e2 e2' l l' h2 hl ih =>
    simp only [insertKV]
    by_cases hlt : strLt k k2 = true
    · simp only [hlt, if_true]
      exact .cons he (.cons h2 hl)
    · simp only [hlt, Bool.false_eq_true, if_false]
      exact .cons h2 ih

theorem kvRel_sortKV {f : DObj → Option DObj} {l l' : List (Str × DObj)} (h : KVRel f l l') :
    KVRel f (sortKV l) (sortKV l') := by
  induction h with
  | nil => exact .nil
  | cons h2 _ ih =>
    simp only [sortKV]
    exact kvRel_insertKV h2 ih

theorem kvRel_mapOpt {f : DObj → Option DObj} {l l' : List (Str × DObj)} (h : KVRel f l l') :
    mapOpt f (l.map Prod.snd) = some (l'.map Prod.snd) ∧ (l.map Prod.fst).zip (l'.map Prod.snd) = l' := by
  induction h with
  | nil => exact ⟨rfl, rfl⟩
  | cons h2 _ ih =>
    constructor
    · simp only [List.map, mapOpt, h2, ih.1, Option.map]
    · simp only [List.map, List.zip_cons_cons, ih.2]

/-- resolving the values in key order and pairing them with the sorted keys = resolving them in
the given order and sorting the pairs -/
theorem mapOpt_sortKV {f : DObj → Option DObj} (kv : List (Str × DObj)) (ys : List DObj)
    (h : mapOpt f (kv.map Prod.snd) = some ys) :
    ∃ ys', mapOpt f ((sortKV kv).map Prod.snd) = some ys' ∧
      ((sortKV kv).map Prod.fst).zip ys' = sortKV ((kv.map Prod.fst).zip ys) := by
  have h2 := kvRel_mapOpt (kvRel_sortKV (kvRel_of_mapOpt kv ys h))
  exact ⟨_, h2.1, h2.2⟩

/-! ## the loop over a container -/

theorem foldRes_mapOpt {δ : Type} (P : δ → Prop) (f : DObj → δ → Unit → Option (DObj × δ) × Unit)
    (h : DObj → Option DObj) :
    ∀ (xs ys : List DObj) (d : δ), mapOpt h xs = some ys → P d →
      (∀ e ∈ xs, ∀ d v, P d → h e = some v → ∃ d', f e d () = (some (v, d'), ()) ∧ P d') →
      ∃ d', foldRes f xs d () = (some (ys, d'), ()) ∧ P d' := by
  intro xs
  induction xs with
  | nil =>
    intro ys d hm hP _
    simp only [mapOpt] at hm
    cases hm
    exact ⟨d, rfl, hP⟩
  | cons x xs ih =>
    intro ys d hm hP hf
    simp only [mapOpt] at hm
    cases hx : h x with
    | none => rw [hx] at hm; cases hm
    | some x' =>
      rw [hx] at hm
      cases hr : mapOpt h xs with
      | none => rw [hr] at hm; cases hm
      | some rs =>
        rw [hr] at hm
        simp only [Option.map] at hm
        cases hm
        obtain ⟨d1, hf1, hP1⟩ := hf x (List.mem_cons_self ..) d x' hP hx
        obtain ⟨d2, hf2, hP2⟩ := ih rs d1 hr hP1 (fun e he => hf e (List.mem_cons_of_mem _ he))
        refine ⟨d2, ?_, hP2⟩
        simp only [foldRes, hf1, hf2]

theorem doneOk_cons {g : Int → Option PVal} {n gen : Int} {v : DObj} {done : List (Ref × DObj)} {b : Nat}
    (hv : expand g false b (.ref n gen) = some v) (hd : DoneOk g done) : DoneOk g (((n, gen), v) :: done) := by
  intro r res hlk
  simp only [List.lookup] at hlk
  by_cases hk : (r == (n, gen)) = true
  · simp only [hk] at hlk
    cases hlk
    have hr : r = (n, gen) := eq_of_beq hk
    subst hr
    exact ⟨b, hv⟩
  · have hk' : (r == (n, gen)) = false := by
      cases h : (r == (n, gen)) with
      | true => exact absurd h hk
      | false => rfl
    simp only [hk'] at hlk
    exact hd r res hlk

/-! ## `rdeep` = `expand` where `expand` succeeds within the limit -/

/-- **on an object that unfolds within the levels left, `resolveDeep` returns the unfolding**,
whatever finished references it is handed (as long as they hold deep values) and whatever
references are being resolved further up (they all stand above `obj`) -/
theorem rdeep_eq_expand (g : Int → Option PVal) :
    ∀ (fuel : Nat) (active : List Ref) (obj : DObj) (depth : Nat) (done : List (Ref × DObj)) (b : Nat) (v : DObj),
      expand g false b obj = some v → depth + b ≤ maxResolveDepth + 1 → maxResolveDepth + 2 ≤ fuel + depth →
      DoneOk g done → (∀ a ∈ active, Below g false (.ref a.1 a.2) obj) →
      ∃ done', rdeep (pureGet g) fuel active obj depth done () = (some (v, done'), ()) ∧ DoneOk g done' := by
  intro fuel
  induction fuel with
  | zero =>
    intro active obj depth done b v hexp hdb hfd _ _
    cases b with
    | zero => cases hexp
    | succ b => omega
  | succ fuel ih =>
    intro active obj depth done b v hexp hdb hfd hdone hact
    cases b with
    | zero => cases hexp
    | succ b =>
      have hd : ¬ depth > maxResolveDepth := by omega
      simp only [rdeep, hd, if_false]
      cases obj with
      | ref n gen =>
        have hexp0 := hexp
        simp only [expand] at hexp
        cases hg : g n with
        | none => rw [hg] at hexp; cases hexp
        | some t =>
          rw [hg] at hexp
          simp only at hexp ⊢
          cases hl : List.lookup (n, gen) done with
          | some res =>
            obtain ⟨b2, hb2⟩ := hdone (n, gen) res hl
            have hvr : v = res := expand_unique g false _ _ _ _ _ hexp0 hb2
            subst hvr
            exact ⟨done, rfl, hdone⟩
          | none =>
            simp only
            by_cases ha : active.contains (n, gen) = true
            · have hm : (n, gen) ∈ active := List.contains_iff_mem.mp ha
              have hcyc := expand_cycle g false (.ref n gen) (hact (n, gen) hm) (b + 1)
              rw [hcyc] at hexp0
              cases hexp0
            · simp only [ha, Bool.false_eq_true, if_false, pureGet, hg]
              have hact' : ∀ a ∈ (n, gen) :: active, Below g false (.ref a.1 a.2) (ofPVal t) := by
                intro a ha'
                simp only [List.mem_cons] at ha'
                rcases ha' with ha' | ha'
                · subst ha'
                  exact .one (.ref hg)
                · exact (hact a ha').snoc (.ref hg)
              obtain ⟨done2, hr, hd2⟩ := ih ((n, gen) :: active) (ofPVal t) (depth + 1) done b v hexp
                (by omega) (by omega) hdone hact'
              simp only [hr]
              exact ⟨_, rfl, doneOk_cons hexp0 hd2⟩
      | arr xs =>
        simp only [expand] at hexp
        cases hm : mapOpt (expand g false b) xs with
        | none => rw [hm] at hexp; cases hexp
        | some ys =>
          rw [hm] at hexp
          simp only [Option.map] at hexp
          cases hexp
          obtain ⟨d', hfold, hP⟩ := foldRes_mapOpt (DoneOk g)
            (fun e d s => rdeep (pureGet g) fuel active e (depth + 1) d s) (expand g false b) xs ys done hm hdone
            (fun e he d v' hPd hev => ih active e (depth + 1) d b v' hev (by omega) (by omega) hPd
              (fun a ha => (hact a ha).snoc (.arr he)))
          simp only [hfold]
          exact ⟨d', rfl, hP⟩
      | dict kv =>
        simp only [expand] at hexp
        cases hm : mapOpt (expand g false b) (kv.map Prod.snd) with
        | none => rw [hm] at hexp; cases hexp
        | some ys =>
          rw [hm] at hexp
          simp only [Option.map] at hexp
          cases hexp
          obtain ⟨ys', hm', hzip⟩ := mapOpt_sortKV kv ys hm
          obtain ⟨d', hfold, hP⟩ := foldRes_mapOpt (DoneOk g)
            (fun e d s => rdeep (pureGet g) fuel active e (depth + 1) d s) (expand g false b)
            ((sortKV kv).map Prod.snd) ys' done hm' hdone
            (fun e he d v' hPd hev => ih active e (depth + 1) d b v' hev (by omega) (by omega) hPd
              (fun a ha => (hact a ha).snoc (.dict (mem_snd_sortKV he))))
          simp only [hfold, hzip]
          exact ⟨d', rfl, hP⟩
      | stream kv data =>
        rw [expand_stream] at hexp
        simp only [Bool.false_eq_true, if_false] at hexp
        cases hexp
        exact ⟨done, rfl, hdone⟩
      | null => cases hexp; exact ⟨done, rfl, hdone⟩
      | bool _ => cases hexp; exact ⟨done, rfl, hdone⟩
      | int _ => cases hexp; exact ⟨done, rfl, hdone⟩
      | real _ _ _ => cases hexp; exact ⟨done, rfl, hdone⟩
      | str _ => cases hexp; exact ⟨done, rfl, hdone⟩
      | name _ => cases hexp; exact ⟨done, rfl, hdone⟩

/-- **`Reader.ResolveDeep` returns the plain tree unfolding wherever that exists within
`maxResolveDepth + 1` levels** -/
theorem resolveDeepR_eq_expand (g : Int → Option PVal) (obj v : DObj)
    (h : expand g false (maxResolveDepth + 1) obj = some v) :
    resolveDeepR (pureGet g) obj () = (some v, ()) := by
  obtain ⟨done', hr, _⟩ := rdeep_eq_expand g (maxResolveDepth + 2) [] obj 0 [] (maxResolveDepth + 1) v h
    (by omega) (by omega) (doneOk_nil g) (fun a ha => by cases ha)
  simp only [resolveDeepR, hr, Option.map]

/-! ## the deep value holds no reference -/

/-- the deep value holds no reference outside stream dictionaries -/
inductive NoRef : DObj → Prop
  | null : NoRef .null
  | bool (b : Bool) : NoRef (.bool b)
  | int (i : Int) : NoRef (.int i)
  | real (n : Bool) (m s : Nat) : NoRef (.real n m s)
  | str (s : Str) : NoRef (.str s)
  | name (s : Str) : NoRef (.name s)
  | arr {xs : List DObj} : (∀ e ∈ xs, NoRef e) → NoRef (.arr xs)
  | dict {kv : List (Str × DObj)} : (∀ e ∈ kv.map Prod.snd, NoRef e) → NoRef (.dict kv)
  | stream (kv : List (Str × DObj)) (data : Str) : NoRef (.stream kv data)

theorem noRef_arr {xs : List DObj} : NoRef (.arr xs) ↔ ∀ e ∈ xs, NoRef e :=
  ⟨fun h => by cases h with | arr h => exact h, .arr⟩

theorem noRef_dict {kv : List (Str × DObj)} : NoRef (.dict kv) ↔ ∀ e ∈ kv.map Prod.snd, NoRef e :=
  ⟨fun h => by cases h with | dict h => exact h, .dict⟩

theorem not_noRef_ref (n gen : Int) : ¬ NoRef (.ref n gen) := fun h => by cases h

theorem mapOpt_mem_out {f : DObj → Option DObj} {xs ys : List DObj} (h : mapOpt f xs = some ys) {y : DObj}
    (hy : y ∈ ys) : ∃ e, e ∈ xs ∧ f e = some y := by
  induction xs generalizing ys with
  | nil =>
    simp only [mapOpt] at h
    cases h
    cases hy
  | cons x xs ih =>
    simp only [mapOpt] at h
    cases hx : f x with
    | none => rw [hx] at h; cases h
    | some x' =>
      rw [hx] at h
      cases hr : mapOpt f xs with
      | none => rw [hr] at h; cases h
      | some rs =>
        rw [hr] at h
        simp only [Option.map] at h
        cases h
        simp only [List.mem_cons] at hy
        rcases hy with hy | hy
        · subst hy
          exact ⟨x, List.mem_cons_self .., hx⟩
        · obtain ⟨e, he, hfe⟩ := ih hr hy
          exact ⟨e, List.mem_cons_of_mem _ he, hfe⟩

theorem mem_snd_zip {ks : List Str} {ys : List DObj} {e : DObj} (h : e ∈ (ks.zip ys).map Prod.snd) : e ∈ ys := by
  simp only [List.mem_map] at h
  obtain ⟨p, hp, he⟩ := h
  obtain ⟨k, y⟩ := p
  simp only at he
  subst he
  exact (List.of_mem_zip hp).2

/-- **the deep value holds no reference outside stream dictionaries** -/
theorem expand_noRef (g : Int → Option PVal) :
    ∀ (b : Nat) (o v : DObj), expand g false b o = some v → NoRef v := by
  intro b
  induction b using Nat.strongRecOn with
  | _ b ih =>
    intro o v h
    cases b with
    | zero => cases h
    | succ b =>
      cases o with
      | ref n gen =>
        simp only [expand] at h
        cases hg : g n with
        | none => rw [hg] at h; cases h
        | some t => rw [hg] at h; exact ih b (Nat.lt_succ_self _) _ _ h
      | arr xs =>
        simp only [expand] at h
        cases hm : mapOpt (expand g false b) xs with
        | none => rw [hm] at h; cases h
        | some ys =>
          rw [hm] at h
          simp only [Option.map] at h
          cases h
          refine .arr (fun y hy => ?_)
          obtain ⟨e, _, hfe⟩ := mapOpt_mem_out hm hy
          exact ih b (Nat.lt_succ_self _) e y hfe
      | dict kv =>
        simp only [expand] at h
        cases hm : mapOpt (expand g false b) (kv.map Prod.snd) with
        | none => rw [hm] at h; cases h
        | some ys =>
          rw [hm] at h
          simp only [Option.map] at h
          cases h
          refine .dict (fun y hy => ?_)
          obtain ⟨e, _, hfe⟩ := mapOpt_mem_out hm (mem_snd_zip (mem_snd_sortKV hy))
          exact ih b (Nat.lt_succ_self _) e y hfe
      | stream kv data =>
        rw [expand_stream] at h
        simp only [Bool.false_eq_true, if_false] at h
        cases h
        exact .stream _ _
      | null => cases h; exact .null
      | bool _ => cases h; exact .bool _
      | int _ => cases h; exact .int _
      | real _ _ _ => cases h; exact .real _ _ _
      | str _ => cases h; exact .str _
      | name _ => cases h; exact .name _

/-- what `Reader.ResolveDeep` returns on a graph that unfolds within the limit holds no reference -/
theorem resolveDeepR_noRef (g : Int → Option PVal) (obj v : DObj)
    (h : expand g false (maxResolveDepth + 1) obj = some v) :
    resolveDeepR (pureGet g) obj () = (some v, ()) ∧ NoRef v :=
  ⟨resolveDeepR_eq_expand g obj v h, expand_noRef g _ _ _ h⟩

/-! ## the converse: an answer without a reference is the deep value -/

/-- every finished reference whose result holds no reference holds the deep value of the object
it names (inside a reference cycle a finished result can hold a back reference) -/
def DoneOkN (g : Int → Option PVal) (done : List (Ref × DObj)) : Prop :=
  ∀ r res, done.lookup r = some res → NoRef res → ∃ b, expand g false b (.ref r.1 r.2) = some res

theorem DoneOk.toN {g : Int → Option PVal} {done : List (Ref × DObj)} (h : DoneOk g done) : DoneOkN g done :=
  fun r res hl _ => h r res hl

/-- element by element: a result without a reference is the deep value of the element -/
inductive AllSound (g : Int → Option PVal) : List DObj → List DObj → Prop
  | nil : AllSound g [] []
  | cons {e v : DObj} {es vs : List DObj} :
      (NoRef v → ∃ b, expand g false b e = some v) → AllSound g es vs → AllSound g (e :: es) (v :: vs)

theorem allSound_mapOpt {g : Int → Option PVal} {xs ys : List DObj} (h : AllSound g xs ys)
    (hn : ∀ y ∈ ys, NoRef y) : ∃ b, mapOpt (expand g false b) xs = some ys := by
  induction h with
  | nil => exact ⟨0, rfl⟩
  | @cons e v es vs he _ ih =>
    obtain ⟨b1, h1⟩ := he (hn v (List.mem_cons_self ..))
    obtain ⟨b2, h2⟩ := ih (fun y hy => hn y (List.mem_cons_of_mem _ hy))
    refine ⟨max b1 b2, ?_⟩
    have h1' := expand_mono_le g false b1 (max b1 b2) (Nat.le_max_left _ _) _ _ h1
    have h2' := mapOpt_congr h2 (fun e _ v hv => expand_mono_le g false b2 (max b1 b2) (Nat.le_max_right _ _) e v hv)
    simp only [mapOpt, h1', h2', Option.map]

theorem allSound_zip {g : Int → Option PVal} : ∀ (l : List (Str × DObj)) (ys : List DObj),
    AllSound g (l.map Prod.snd) ys → ((l.map Prod.fst).zip ys).map Prod.snd = ys := by
  intro l
  induction l with
  | nil =>
    intro ys h
    cases h
    rfl
  | cons p r ih =>
    intro ys h
    cases h with
    | cons _ hr =>
      simp only [List.map, List.zip_cons_cons]
      rw [ih _ hr]

theorem foldRes_sound {g : Int → Option PVal} (f : DObj → List (Ref × DObj) → Unit → Option (DObj × List (Ref × DObj)) × Unit) :
    ∀ (xs ys : List DObj) (d d' : List (Ref × DObj)), foldRes f xs d () = (some (ys, d'), ()) → DoneOkN g d →
      (∀ e ∈ xs, ∀ d v d', f e d () = (some (v, d'), ()) → DoneOkN g d →
        DoneOkN g d' ∧ (NoRef v → ∃ b, expand g false b e = some v)) →
      DoneOkN g d' ∧ AllSound g xs ys := by
  intro xs
  induction xs with
  | nil =>
    intro ys d d' h hP _
    simp only [foldRes] at h
    cases h
    exact ⟨hP, .nil⟩
  | cons x xs ih =>
    intro ys d d' h hP hf
    simp only [foldRes] at h
    generalize hfx : f x d () = r at h
    obtain ⟨a, u⟩ := r
    cases a with
    | none => cases h
    | some p =>
      obtain ⟨x', d1⟩ := p
      simp only at h
      generalize hfr : foldRes f xs d1 u = r at h
      obtain ⟨a, u'⟩ := r
      cases a with
      | none => cases h
      | some p =>
        obtain ⟨rs, d2⟩ := p
        simp only at h
        cases h
        obtain ⟨hP1, hQ1⟩ := hf x (List.mem_cons_self ..) d _ d1 hfx hP
        obtain ⟨hP2, hQ2⟩ := ih _ d1 _ hfr hP1 (fun e he => hf e (List.mem_cons_of_mem _ he))
        exact ⟨hP2, .cons hQ1 hQ2⟩

theorem mapOpt_total {f : DObj → Option DObj} {xs : List DObj} (h : ∀ e ∈ xs, ∃ v, f e = some v) :
    ∃ ys, mapOpt f xs = some ys := by
  induction xs with
  | nil => exact ⟨[], rfl⟩
  | cons x xs ih =>
    obtain ⟨v, hv⟩ := h x (List.mem_cons_self ..)
    obtain ⟨ys, hys⟩ := ih (fun e he => h e (List.mem_cons_of_mem _ he))
    exact ⟨v :: ys, by simp only [mapOpt, hv, hys, Option.map]⟩

theorem doneOkN_cons {g : Int → Option PVal} {n gen : Int} {v : DObj} {done : List (Ref × DObj)}
    (hv : NoRef v → ∃ b, expand g false b (.ref n gen) = some v) (hd : DoneOkN g done) :
    DoneOkN g (((n, gen), v) :: done) := by
  intro r res hlk hn
  simp only [List.lookup] at hlk
  by_cases hk : (r == (n, gen)) = true
  · simp only [hk] at hlk
    cases hlk
    have hr : r = (n, gen) := eq_of_beq hk
    subst hr
    exact hv hn
  · have hk' : (r == (n, gen)) = false := by
      cases h : (r == (n, gen)) with
      | true => exact absurd h hk
      | false => rfl
    simp only [hk'] at hlk
    exact hd r res hlk hn

/-- **whatever `resolveDeep` answers, an answer that holds no reference is the deep value of the
object**: a lookup that fails, a level too many, a cycle are never papered over by a shared
result (`done`) or by a reference left in place (`active`) - the only other answers are the ones
that still hold a reference. No assumption on `active`, `depth`, `fuel`. -/
theorem rdeep_sound (g : Int → Option PVal) :
    ∀ (fuel : Nat) (active : List Ref) (obj : DObj) (depth : Nat) (done : List (Ref × DObj)) (v : DObj)
      (done' : List (Ref × DObj)),
      rdeep (pureGet g) fuel active obj depth done () = (some (v, done'), ()) → DoneOkN g done →
      DoneOkN g done' ∧ (NoRef v → ∃ b, expand g false b obj = some v) := by
  intro fuel
  induction fuel with
  | zero =>
    intro active obj depth done v done' h _
    cases h
  | succ fuel ih =>
    intro active obj depth done v done' h hdone
    simp only [rdeep] at h
    by_cases hd : depth > maxResolveDepth
    · simp only [hd, if_true] at h
      cases h
    · simp only [hd, if_false] at h
      have hfold : ∀ xs ys d', foldRes (fun e d s => rdeep (pureGet g) fuel active e (depth + 1) d s) xs done ()
            = (some (ys, d'), ()) → DoneOkN g d' ∧ AllSound g xs ys :=
        fun xs ys d' hf => foldRes_sound _ xs ys done d' hf hdone
          (fun e _ d v d' he hPd => ih active e (depth + 1) d v d' he hPd)
      cases obj with
      | ref n gen =>
        simp only at h
        cases hl : List.lookup (n, gen) done with
        | some res =>
          rw [hl] at h
          simp only at h
          cases h
          exact ⟨hdone, fun hn => hdone (n, gen) v hl hn⟩
        | none =>
          rw [hl] at h
          simp only at h
          by_cases ha : active.contains (n, gen) = true
          · simp only [ha, if_true] at h
            cases h
            exact ⟨hdone, fun hn => absurd hn (not_noRef_ref n gen)⟩
          · simp only [ha, Bool.false_eq_true, if_false, pureGet] at h
            cases hg : g n with
            | none => rw [hg] at h; cases h
            | some t =>
              rw [hg] at h
              simp only at h
              generalize hr : rdeep (pureGet g) fuel ((n, gen) :: active) (ofPVal t) (depth + 1) done () = r at h
              obtain ⟨a, u⟩ := r
              cases a with
              | none => cases h
              | some p =>
                obtain ⟨res, done2⟩ := p
                simp only at h
                cases h
                obtain ⟨hP, hQ⟩ := ih _ _ _ _ _ _ hr hdone
                have hv : NoRef v → ∃ b, expand g false b (.ref n gen) = some v := by
                  intro hn
                  obtain ⟨b, hb⟩ := hQ hn
                  exact ⟨b + 1, by simp only [expand, hg]; exact hb⟩
                exact ⟨doneOkN_cons hv hP, hv⟩
      | arr xs =>
        simp only at h
        generalize hr : foldRes (fun e d s => rdeep (pureGet g) fuel active e (depth + 1) d s) xs done () = r at h
        obtain ⟨a, u⟩ := r
        cases a with
        | none => cases h
        | some p =>
          obtain ⟨ys, d2⟩ := p
          simp only at h
          cases h
          obtain ⟨hP, hQ⟩ := hfold xs ys _ hr
          refine ⟨hP, fun hn => ?_⟩
          obtain ⟨b, hb⟩ := allSound_mapOpt hQ (noRef_arr.mp hn)
          exact ⟨b + 1, by simp only [expand, hb, Option.map]⟩
      | dict kv =>
        simp only at h
        generalize hr : foldRes (fun e d s => rdeep (pureGet g) fuel active e (depth + 1) d s)
          ((sortKV kv).map Prod.snd) done () = r at h
        obtain ⟨a, u⟩ := r
        cases a with
        | none => cases h
        | some p =>
          obtain ⟨ys', d2⟩ := p
          simp only at h
          cases h
          obtain ⟨hP, hQ⟩ := hfold _ ys' _ hr
          refine ⟨hP, fun hn => ?_⟩
          have hn' := noRef_dict.mp hn
          rw [allSound_zip _ _ hQ] at hn'
          obtain ⟨b, hb⟩ := allSound_mapOpt hQ hn'
          obtain ⟨ys, hys⟩ := mapOpt_total (f := expand g false b) (xs := kv.map Prod.snd)
            (fun e he => mapOpt_mem hb (mem_snd_sortKV_of he))
          obtain ⟨ys'', hm'', hzip⟩ := mapOpt_sortKV kv ys hys
          rw [hb] at hm''
          cases hm''
          exact ⟨b + 1, by simp only [expand, hys, Option.map, hzip]⟩
      | stream kv data =>
        cases h
        exact ⟨hdone, fun _ => ⟨1, by rw [expand_stream]; simp only [Bool.false_eq_true, if_false]⟩⟩
      | null => cases h; exact ⟨hdone, fun _ => ⟨1, rfl⟩⟩
      | bool _ => cases h; exact ⟨hdone, fun _ => ⟨1, rfl⟩⟩
      | int _ => cases h; exact ⟨hdone, fun _ => ⟨1, rfl⟩⟩
      | real _ _ _ => cases h; exact ⟨hdone, fun _ => ⟨1, rfl⟩⟩
      | str _ => cases h; exact ⟨hdone, fun _ => ⟨1, rfl⟩⟩
      | name _ => cases h; exact ⟨hdone, fun _ => ⟨1, rfl⟩⟩

/-- **an answer of `Reader.ResolveDeep` that holds no reference is the plain tree unfolding** -/
theorem resolveDeepR_sound (g : Int → Option PVal) (obj v : DObj)
    (h : resolveDeepR (pureGet g) obj () = (some v, ())) (hn : NoRef v) :
    ∃ b, expand g false b obj = some v := by
  simp only [resolveDeepR] at h
  generalize hr : rdeep (pureGet g) (maxResolveDepth + 2) [] obj 0 [] () = r at h
  obtain ⟨a, u⟩ := r
  cases a with
  | none => cases h
  | some p =>
    obtain ⟨v', d'⟩ := p
    simp only [Option.map] at h
    cases h
    exact (rdeep_sound g _ _ _ _ _ _ _ hr (doneOk_nil g).toN).2 hn

theorem expand_ref_none {g : Int → Option PVal} {n : Int} (hg : g n = none) (gen : Int) :
    ∀ b, expand g false b (.ref n gen) = none := by
  intro b
  cases b with
  | zero => rfl
  | succ b => simp only [expand, hg]

/-- **no partial answers**: when `Reader.ResolveDeep` answers with a value that holds no
reference, every lookup below the object succeeded (a reference to a missing object anywhere
below makes the whole call fail) -/
theorem resolveDeepR_lookups (g : Int → Option PVal) (obj v : DObj)
    (h : resolveDeepR (pureGet g) obj () = (some v, ())) (hn : NoRef v) (n gen : Int)
    (hb : obj = .ref n gen ∨ Below g false obj (.ref n gen)) : g n ≠ none := by
  intro hg
  obtain ⟨b, hexp⟩ := resolveDeepR_sound g obj v h hn
  rcases hb with hb | hb
  · subst hb
    rw [expand_ref_none hg] at hexp
    cases hexp
  · obtain ⟨b', v', _, hv'⟩ := expand_below g false _ _ hb b v hexp
    rw [expand_ref_none hg] at hv'
    cases hv'

/-! ## why `NoRef v` is asked for: a reference cycle -/

/-- object 1 is `[1 0 R]` -/
def cycleGraph : Int → Option PVal := fun n => if n = 1 then some (.obj (.arr [.ref 1 0])) else none

/-- on a reference cycle `Reader.ResolveDeep` answers with the back reference left in place … -/
theorem resolveDeepR_cycle :
    resolveDeepR (pureGet cycleGraph) (.ref 1 0) () = (some (.arr [.ref 1 0]), ()) := by
  rfl

/-- … where the tree unfolding has no value, whatever the levels allowed: `rdeep_sound` without
`NoRef v` would be false -/
theorem expand_cycleGraph (b : Nat) : expand cycleGraph false b (.ref 1 0) = none := by
  apply expand_cycle
  have h1 : Child cycleGraph false (.ref 1 0) (.arr [.ref 1 0]) :=
    Child.ref (g := cycleGraph) (n := 1) (gen := 0) (t := .obj (.arr [.ref 1 0])) rfl
  exact .cons h1 (.one (.arr (List.mem_cons_self ..)))

end Tabula.XrefR
