import TabulaModel.Model.MarkdownDoc
import TabulaModel.Lemmas.Markdown
/-!
Lemmas about the document reading spec of `Model/MarkdownDoc.lean`: lines of joined text,
classification of the lines the writers emit, pipe blocks, and the reader on a document given
as a sequence of segments (`Seg`).
-/
namespace Tabula.MarkdownDoc
open Tabula.A1 (Str dec decInt)
open Tabula.Markdown

/-! ## lines -/

/-- every line followed by `\n` -/
def joinLines (ls : List Str) : Str := ls.flatMap fun l => l ++ [10]

theorem joinLines_nil : joinLines [] = [] := rfl

theorem joinLines_cons (l : Str) (ls : List Str) : joinLines (l :: ls) = l ++ 10 :: joinLines ls := by
  simp [joinLines]

theorem joinLines_append (a b : List Str) : joinLines (a ++ b) = joinLines a ++ joinLines b := by
  simp [joinLines]

theorem joinLines_singleton (l : Str) : joinLines [l] = l ++ [10] := by simp [joinLines]

theorem splitLines_ne_nil (s : Str) : splitLines s ≠ [] := by
  induction s with
  | nil => simp [splitLines]
  | cons c cs ih =>
    unfold splitLines
    split
    · simp
    · split <;> simp

/-- a newline ends the current line whatever precedes it -/
theorem splitLines_append_nl (a b : Str) : splitLines (a ++ 10 :: b) = splitLines a ++ splitLines b := by
  induction a with
  | nil => simp [splitLines]
  | cons c a ih =>
    by_cases hc : c = 10
    · subst hc
      simp only [List.cons_append, splitLines, if_true, ih]
    · cases hs : splitLines a with
      | nil => exact absurd hs (splitLines_ne_nil a)
      | cons l ls =>
        have e1 : splitLines (c :: a) = (c :: l) :: ls := by simp [splitLines, hc, hs]
        have e2 : splitLines (c :: (a ++ 10 :: b)) = (c :: l) :: (ls ++ splitLines b) := by
          simp [splitLines, hc, ih, hs]
        rw [List.cons_append, e2, e1]; simp

theorem splitLines_noNl (l : Str) (h : 10 ∉ l) : splitLines l = [l] := by
  induction l with
  | nil => rfl
  | cons c l ih =>
    have hc : c ≠ 10 := fun e => h (by simp [e])
    have hl : 10 ∉ l := fun e => h (List.mem_cons_of_mem _ e)
    simp [splitLines, hc, ih hl]

theorem splitLines_joinLines_append (ls : List Str) (h : ∀ l ∈ ls, 10 ∉ l) (rest : Str) :
    splitLines (joinLines ls ++ rest) = ls ++ splitLines rest := by
  induction ls with
  | nil => simp [joinLines]
  | cons l ls ih =>
    rw [joinLines_cons, List.append_assoc, List.cons_append,
      splitLines_append _ _ (h l (by simp)), ih (fun x hx => h x (List.mem_cons_of_mem _ hx))]
    rfl

theorem splitLines_joinLines (ls : List Str) (h : ∀ l ∈ ls, 10 ∉ l) :
    splitLines (joinLines ls) = ls ++ [[]] := by
  have := splitLines_joinLines_append ls h []
  simpa [splitLines] using this

theorem splitLines_replicate_nl (k : Nat) : splitLines (List.replicate k 10) = List.replicate (k + 1) [] := by
  induction k with
  | zero => rfl
  | succ k ih => simp [List.replicate_succ, splitLines, ih]

/-! ## classification of emitted lines -/

theorem isBlank_nil : isBlank [] = true := rfl

theorem classify_nil : classify [] = .skip := by decide

theorem classify_pipe (r : Str) : classify (124 :: r) = .pipe := by
  have hb : isBlank (124 :: r) = false := isBlank_rowLine r
  have hh : ((124 :: r) == hrLine) = false := by
    simp [hrLine]
  simp [classify, hb, hh, isPipeLine]

theorem classify_of_isPipe (l : Str) (h : isPipeLine l = true) : classify l = .pipe := by
  match l, h with
  | 124 :: r, _ => exact classify_pipe r

theorem atxAny_atxLine (level : Nat) (text : Str) (h1 : 1 ≤ level) :
    atxAny (atxLine level text) = some (level, text) := by
  unfold atxAny atxLine
  have ht : (List.replicate level 35 ++ 32 :: text).takeWhile (· == 35) = List.replicate level 35 := by
    rw [takeWhile_replicate_append _ _ _ _ (by decide)]; simp
  have hd : (List.replicate level 35 ++ 32 :: text).dropWhile (· == 35) = 32 :: text := by
    rw [dropWhile_replicate_append _ _ _ _ (by decide)]; simp
  simp only [ht, hd, List.length_replicate]
  simp [h1]

theorem atxLine_succ (level : Nat) (text : Str) :
    atxLine (level + 1) text = 35 :: atxLine level text := by
  simp [atxLine, List.replicate_succ]

theorem classify_atxLine (level : Nat) (text : Str) (h1 : 1 ≤ level) :
    classify (atxLine level text) = .heading level text := by
  obtain ⟨k, rfl⟩ : ∃ k, level = k + 1 := ⟨level - 1, by omega⟩
  have hb : isBlank (atxLine (k + 1) text) = false := by
    rw [atxLine_succ]; simp [isBlank, isWs]
  have hh : (atxLine (k + 1) text == hrLine) = false := by
    rw [atxLine_succ]; simp [hrLine]
  have hp : isPipeLine (atxLine (k + 1) text) = false := by
    rw [atxLine_succ]; rfl
  have hq : isQuoteLine (atxLine (k + 1) text) = false := by
    rw [atxLine_succ]
    cases k <;> simp [atxLine, isQuoteLine, List.replicate_succ]
  simp [classify, hb, hh, hp, hq, atxAny_atxLine _ _ h1]

theorem headingOf_atxLine (level : Nat) (text : Str) (h1 : 1 ≤ level) :
    headingOf (atxLine level text) = some (level, text) := by
  simp [headingOf, classify_atxLine _ _ h1]

theorem itemOf_atxLine (level : Nat) (text : Str) (h1 : 1 ≤ level) :
    itemOf (atxLine level text) = none := by
  simp [itemOf, classify_atxLine _ _ h1]

theorem isPara_atxLine (level : Nat) (text : Str) (h1 : 1 ≤ level) :
    isPara (atxLine level text) = false := by
  simp [isPara, classify_atxLine _ _ h1]

theorem headingOf_nil : headingOf [] = none := by decide
theorem itemOf_nil : itemOf [] = none := by decide
theorem isPara_nil : isPara [] = false := by decide

theorem headingOf_pipe (l : Str) (h : isPipeLine l = true) : headingOf l = none := by
  simp [headingOf, classify_of_isPipe l h]
theorem itemOf_pipe (l : Str) (h : isPipeLine l = true) : itemOf l = none := by
  simp [itemOf, classify_of_isPipe l h]
theorem isPara_pipe (l : Str) (h : isPipeLine l = true) : isPara l = false := by
  simp [isPara, classify_of_isPipe l h]

/-- a line of `k` spaces, a marker that `parseListLine` reads, and the text -/
theorem classify_item_line (line : Str) (d : Nat) (o : Bool) (t : Str) (hne : line ≠ [])
    (hfirst : ∀ c r, line = c :: r → c = 32 ∨ c = 45 ∨ (48 ≤ c ∧ c ≤ 57))
    (hhr : line ≠ hrLine) (hnb : isBlank line = false)
    (hp : parseListLine line = some (d, o, t)) : classify line = .item d o t := by
  match line, hne with
  | c :: r, _ =>
    have hc := hfirst c r rfl
    have h1 : isPipeLine (c :: r) = false := by
      unfold isPipeLine
      split
      · rename_i heq; simp at heq; omega
      · rfl
    have h2 : isQuoteLine (c :: r) = false := by
      unfold isQuoteLine
      split
      · rename_i heq; simp at heq; omega
      · rfl
    have h3 : atxAny (c :: r) = none := by
      have hc35 : (c == 35) = false := by simp; omega
      simp [atxAny, List.takeWhile, hc35]
    have h4 : ((c :: r) == hrLine) = false := by
      simpa using hhr
    simp [classify, hnb, h4, h1, h2, h3, hp]

theorem parseListLine_listLine (it : Item) :
    parseListLine (listLine it) = some (it.depth, it.ordered, it.text) := by
  have h2 : 2 * it.depth / 2 = it.depth := by omega
  unfold listLine
  cases hO : it.ordered with
  | false =>
    have := parse_unordered (2 * it.depth) it.text
    rw [h2] at this
    simpa using this
  | true =>
    have := parse_ordered (2 * it.depth) it.num it.text
    rw [h2] at this
    simpa using this

theorem listLine_shape (it : Item) :
    ∃ c r, listLine it = c :: r ∧ (c = 32 ∨ c = 45 ∨ (48 ≤ c ∧ c ≤ 57)) ∧ isBlank (listLine it) = false
      ∧ listLine it ≠ hrLine := by
  obtain ⟨d, ds, hdec, hd1, hd2⟩ := Tabula.A1.dec_head it.num
  unfold listLine
  cases hk : 2 * it.depth with
  | zero =>
    cases hO : it.ordered with
    | false =>
      refine ⟨45, 32 :: it.text, by simp, by simp, ?_, ?_⟩
      · simp [isBlank, isWs]
      · simp [hrLine]
    | true =>
      refine ⟨d, ds ++ [46, 32] ++ it.text, by simp [hdec], by omega, ?_, ?_⟩
      · have : isWs d = false := by simp [isWs]; omega
        simp [hdec, isBlank, this]
      · simp [hdec, hrLine]; omega
  | succ k =>
    refine ⟨32, List.replicate k 32 ++ ((if it.ordered = true then dec it.num ++ [46, 32] else [45, 32]) ++ it.text),
      by simp [List.replicate_succ], by simp, ?_, ?_⟩
    · cases hO : it.ordered with
      | false => simp [isBlank, isWs, List.replicate_succ]
      | true =>
        have : isWs d = false := by simp [isWs]; omega
        simp [isBlank, hdec, this, List.replicate_succ]
    · simp [hrLine, List.replicate_succ]

theorem classify_listLine (it : Item) : classify (listLine it) = .item it.depth it.ordered it.text := by
  obtain ⟨c, r, hcr, hc, hnb, hhr⟩ := listLine_shape it
  apply classify_item_line (listLine it) it.depth it.ordered it.text
  · rw [hcr]; simp
  · intro c' r' h
    rw [hcr] at h
    cases h
    exact hc
  · exact hhr
  · exact hnb
  · exact parseListLine_listLine it

theorem headingOf_listLine (it : Item) : headingOf (listLine it) = none := by
  simp [headingOf, classify_listLine]
theorem itemOf_listLine (it : Item) : itemOf (listLine it) = some (it.depth, it.ordered, it.text) := by
  simp [itemOf, classify_listLine]
theorem isPara_listLine (it : Item) : isPara (listLine it) = false := by
  simp [isPara, classify_listLine]

theorem isPipeLine_listLine (it : Item) : isPipeLine (listLine it) = false := by
  obtain ⟨c, r, hcr, hc, _, _⟩ := listLine_shape it
  rw [hcr]
  unfold isPipeLine
  split
  · rename_i heq; simp at heq; omega
  · rfl

theorem isPipeLine_atxLine (level : Nat) (text : Str) (h1 : 1 ≤ level) : isPipeLine (atxLine level text) = false := by
  obtain ⟨k, rfl⟩ : ∃ k, level = k + 1 := ⟨level - 1, by omega⟩
  rw [atxLine_succ]; rfl

/-! ## pipe blocks -/

theorem pipeBlocksAux_nonpipe (ls rest : List Str) (h : ∀ l ∈ ls, isPipeLine l = false) :
    pipeBlocksAux (ls ++ rest) [] = pipeBlocksAux rest [] := by
  induction ls with
  | nil => rfl
  | cons l ls ih =>
    have hl := h l (by simp)
    simp only [List.cons_append, pipeBlocksAux, hl]
    simpa using ih (fun x hx => h x (List.mem_cons_of_mem _ hx))

theorem pipeBlocksAux_pipe (T rest cur : List Str) (h : ∀ l ∈ T, isPipeLine l = true) :
    pipeBlocksAux (T ++ rest) cur = pipeBlocksAux rest (cur ++ T) := by
  induction T generalizing cur with
  | nil => simp
  | cons l T ih =>
    have hl := h l (by simp)
    simp only [List.cons_append, pipeBlocksAux, hl, if_true]
    rw [ih (cur ++ [l]) (fun x hx => h x (List.mem_cons_of_mem _ hx))]
    simp

theorem pipeBlocksAux_flush (cur rest : List Str) (l : Str) (hl : isPipeLine l = false) (hne : cur ≠ []) :
    pipeBlocksAux (l :: rest) cur = cur :: pipeBlocksAux rest [] := by
  cases cur with
  | nil => exact absurd rfl hne
  | cons a b => simp [pipeBlocksAux, hl]

theorem pipeBlocksAux_end_blank (X cur : List Str) :
    pipeBlocksAux (X ++ [[]]) cur = pipeBlocksAux X cur := by
  induction X generalizing cur with
  | nil => simp [pipeBlocksAux, isPipeLine]
  | cons l X ih =>
    simp only [List.cons_append, pipeBlocksAux]
    split
    · exact ih _
    · rw [ih]

/-- a document as a sequence of segments: plain lines (none of them a pipe line) and pipe tables
(one or more pipe lines, followed by an empty line) -/
inductive Seg where
  | plain (ls : List Str)
  | table (T : List Str)

def Seg.lines : Seg → List Str
  | .plain ls => ls
  | .table T => T ++ [[]]

def Seg.OK : Seg → Prop
  | .plain ls => ∀ l ∈ ls, isPipeLine l = false
  | .table T => T ≠ [] ∧ ∀ l ∈ T, isPipeLine l = true

def segLines (segs : List Seg) : List Str := segs.flatMap Seg.lines

def segPlain (segs : List Seg) : List Str :=
  segs.flatMap fun
    | .plain ls => ls
    | .table _ => []

def segTables (segs : List Seg) : List (List Str) :=
  segs.filterMap fun
    | .table T => some T
    | .plain _ => none

theorem segLines_cons (s : Seg) (segs : List Seg) : segLines (s :: segs) = s.lines ++ segLines segs := by
  simp [segLines]

theorem segLines_append (a b : List Seg) : segLines (a ++ b) = segLines a ++ segLines b := by
  simp [segLines]
theorem segPlain_append (a b : List Seg) : segPlain (a ++ b) = segPlain a ++ segPlain b := by
  simp [segPlain]
theorem segTables_append (a b : List Seg) : segTables (a ++ b) = segTables a ++ segTables b := by
  simp [segTables]

theorem pipeBlocks_segs (segs : List Seg) (h : ∀ s ∈ segs, s.OK) :
    pipeBlocks (segLines segs) = segTables segs := by
  unfold pipeBlocks
  induction segs with
  | nil => rfl
  | cons s segs ih =>
    have ih := ih (fun x hx => h x (List.mem_cons_of_mem _ hx))
    have hs := h s (by simp)
    rw [segLines_cons]
    cases s with
    | plain ls =>
      rw [Seg.lines, pipeBlocksAux_nonpipe ls _ hs, ih]
      simp [segTables]
    | table T =>
      obtain ⟨hne, hT⟩ := hs
      rw [Seg.lines, List.append_assoc, pipeBlocksAux_pipe T _ [] hT]
      simp only [List.nil_append, List.singleton_append]
      rw [pipeBlocksAux_flush T _ [] rfl hne, ih]
      simp [segTables]

theorem filterMap_segLines {β} (f : Str → Option β) (hnil : f [] = none)
    (hp : ∀ l, isPipeLine l = true → f l = none) (segs : List Seg) (h : ∀ s ∈ segs, s.OK) :
    (segLines segs).filterMap f = (segPlain segs).filterMap f := by
  induction segs with
  | nil => rfl
  | cons s segs ih =>
    have ih := ih (fun x hx => h x (List.mem_cons_of_mem _ hx))
    have hs := h s (by simp)
    rw [segLines_cons, List.filterMap_append, ih]
    cases s with
    | plain ls => simp [Seg.lines, segPlain]
    | table T =>
      have : (T ++ [[]]).filterMap f = [] := by
        rw [List.filterMap_append]
        have h1 : T.filterMap f = [] := by
          rw [List.filterMap_eq_nil_iff]
          intro l hl; exact hp l (hs.2 l hl)
        simp [h1, hnil]
      simp [Seg.lines, segPlain, this]

theorem filter_segLines (f : Str → Bool) (hnil : f [] = false)
    (hp : ∀ l, isPipeLine l = true → f l = false) (segs : List Seg) (h : ∀ s ∈ segs, s.OK) :
    (segLines segs).filter f = (segPlain segs).filter f := by
  induction segs with
  | nil => rfl
  | cons s segs ih =>
    have ih := ih (fun x hx => h x (List.mem_cons_of_mem _ hx))
    have hs := h s (by simp)
    rw [segLines_cons, List.filter_append, ih]
    cases s with
    | plain ls => simp [Seg.lines, segPlain]
    | table T =>
      have : (T ++ [[]]).filter f = [] := by
        rw [List.filter_append]
        have h1 : T.filter f = [] := by
          rw [List.filter_eq_nil_iff]
          intro l hl; simp [hp l (hs.2 l hl)]
        simp [h1, hnil]
      simp [Seg.lines, segPlain, this]

/-! ## front matter and table of contents -/

theorem skipFront_id (L : List Str) (h : L.head? ≠ some hrLine) : skipFront L = L := by
  cases L with
  | nil => rfl
  | cons l ls =>
    have : (l == hrLine) = false := by
      simp only [List.head?_cons, ne_eq, Option.some.injEq] at h
      simpa using h
    simp [skipFront, this]

theorem dropToc_id (L : List Str) (h : tocTitle ∉ L) : dropToc L = L := by
  induction L with
  | nil => rfl
  | cons l ls ih =>
    have h1 : (l == tocTitle) = false := by
      have : l ≠ tocTitle := fun e => h (by simp [e])
      simpa using this
    simp [dropToc, h1, ih (fun e => h (List.mem_cons_of_mem _ e))]

theorem dropWhile_ne_append (fm rest : List Str) (h : hrLine ∉ fm) :
    (fm ++ hrLine :: rest).dropWhile (· != hrLine) = hrLine :: rest := by
  induction fm with
  | nil => simp
  | cons l fm ih =>
    have h1 : (l != hrLine) = true := by
      have : l ≠ hrLine := fun e => h (by simp [e])
      simpa using this
    simp [h1, ih (fun e => h (List.mem_cons_of_mem _ e))]

theorem skipFront_front (fm rest : List Str) (h : hrLine ∉ fm) :
    skipFront (hrLine :: (fm ++ hrLine :: rest)) = rest := by
  simp [skipFront, dropWhile_ne_append fm rest h]

theorem dropToc_toc (pre toc rest : List Str) (hpre : tocTitle ∉ pre) (htoc : hrLine ∉ toc) :
    dropToc (pre ++ tocTitle :: (toc ++ hrLine :: rest)) = pre ++ rest := by
  induction pre with
  | nil => simp [dropToc, dropWhile_ne_append toc rest htoc]
  | cons l pre ih =>
    have h1 : (l == tocTitle) = false := by
      have : l ≠ tocTitle := fun e => hpre (by simp [e])
      simpa using this
    simp [dropToc, h1, ih (fun e => hpre (List.mem_cons_of_mem _ e))]

/-- what the reader gives on lines without front matter and without a TOC -/
theorem readLines_plain (L : List Str) (h1 : L.head? ≠ some hrLine) (h2 : tocTitle ∉ L) :
    readLines L = { headings := L.filterMap headingOf, items := L.filterMap itemOf,
                    tables := (pipeBlocks L).map gfmTableL, paras := L.filter isPara } := by
  unfold readLines content
  rw [skipFront_id L h1, dropToc_id L h2]

/-! ## blank lines at the ends -/

theorem readLines_cons_blank (L : List Str) (h : L.head? ≠ some hrLine) :
    readLines ([] :: L) = readLines L := by
  have e1 : content ([] :: L) = [] :: content L := by
    unfold content
    rw [skipFront_id L h]
    have : skipFront ([] :: L) = [] :: L := by simp [skipFront, hrLine]
    rw [this]
    simp [dropToc, tocTitle]
  unfold readLines
  rw [e1]
  simp [headingOf_nil, itemOf_nil, isPara_nil, pipeBlocks, pipeBlocksAux, isPipeLine]

theorem skipFront_end_blank (L : List Str) :
    skipFront (L ++ [[]]) = skipFront L ++ [[]] ∨ skipFront (L ++ [[]]) = skipFront L := by
  cases L with
  | nil => left; simp [skipFront, hrLine]
  | cons l ls =>
    by_cases hl : (l == hrLine) = true
    · simp only [List.cons_append, skipFront, hl, if_true]
      by_cases hmem : hrLine ∈ ls
      · obtain ⟨a, b, hab, ha⟩ : ∃ a b, ls = a ++ hrLine :: b ∧ hrLine ∉ a := by
          induction ls with
          | nil => simp at hmem
          | cons x xs ih =>
            by_cases hx : x = hrLine
            · exact ⟨[], xs, by simp [hx], by simp⟩
            · have : hrLine ∈ xs := by
                rcases List.mem_cons.mp hmem with h | h
                · exact absurd h.symm hx
                · exact h
              obtain ⟨a, b, hab, ha⟩ := ih this
              refine ⟨x :: a, b, by simp [hab], ?_⟩
              intro hm
              rcases List.mem_cons.mp hm with h | h
              · exact hx h.symm
              · exact ha h
        left
        rw [hab, List.append_assoc, List.cons_append, dropWhile_ne_append a _ ha, dropWhile_ne_append a _ ha]
        simp
      · right
        have hall : ∀ (M : List Str), hrLine ∉ M → M.dropWhile (· != hrLine) = [] := by
          intro M hM
          induction M with
          | nil => rfl
          | cons x xs ih =>
            have hx : (x != hrLine) = true := by
              have : x ≠ hrLine := fun e => hM (by simp [e])
              simpa using this
            simp [List.dropWhile, hx, ih (fun e => hM (List.mem_cons_of_mem _ e))]
        have hm2 : hrLine ∉ ls ++ [[]] := by
          intro hm
          rcases List.mem_append.mp hm with h | h
          · exact hmem h
          · simp [hrLine] at h
        rw [hall ls hmem, hall (ls ++ [[]]) hm2]
    · left
      have hl' : (l == hrLine) = false := by simpa using hl
      simp [skipFront, hl']

theorem dropToc_end_blank (L : List Str) :
    dropToc (L ++ [[]]) = dropToc L ++ [[]] ∨ dropToc (L ++ [[]]) = dropToc L := by
  induction L with
  | nil => left; simp [dropToc, tocTitle]
  | cons l ls ih =>
    by_cases hl : (l == tocTitle) = true
    · simp only [List.cons_append, dropToc, hl, if_true]
      by_cases hmem : hrLine ∈ ls
      · obtain ⟨a, b, hab, ha⟩ : ∃ a b, ls = a ++ hrLine :: b ∧ hrLine ∉ a := by
          clear ih
          induction ls with
          | nil => simp at hmem
          | cons x xs ih =>
            by_cases hx : x = hrLine
            · exact ⟨[], xs, by simp [hx], by simp⟩
            · have : hrLine ∈ xs := by
                rcases List.mem_cons.mp hmem with h | h
                · exact absurd h.symm hx
                · exact h
              obtain ⟨a, b, hab, ha⟩ := ih this
              refine ⟨x :: a, b, by simp [hab], ?_⟩
              intro hm
              rcases List.mem_cons.mp hm with h | h
              · exact hx h.symm
              · exact ha h
        left
        rw [hab, List.append_assoc, List.cons_append, dropWhile_ne_append a _ ha, dropWhile_ne_append a _ ha]
        simp
      · right
        have hall : ∀ (M : List Str), hrLine ∉ M → M.dropWhile (· != hrLine) = [] := by
          intro M hM
          induction M with
          | nil => rfl
          | cons x xs ih =>
            have hx : (x != hrLine) = true := by
              have : x ≠ hrLine := fun e => hM (by simp [e])
              simpa using this
            simp [List.dropWhile, hx, ih (fun e => hM (List.mem_cons_of_mem _ e))]
        have hm2 : hrLine ∉ ls ++ [[]] := by
          intro hm
          rcases List.mem_append.mp hm with h | h
          · exact hmem h
          · simp [hrLine] at h
        rw [hall ls hmem, hall (ls ++ [[]]) hm2]
    · have hl' : (l == tocTitle) = false := by simpa using hl
      simp only [List.cons_append, dropToc, hl']
      rcases ih with h | h
      · left; simp [h]
      · right; simp [h]

theorem content_end_blank (L : List Str) :
    content (L ++ [[]]) = content L ++ [[]] ∨ content (L ++ [[]]) = content L := by
  unfold content
  rcases skipFront_end_blank L with h | h
  · rw [h]; exact dropToc_end_blank _
  · right; rw [h]

theorem readLines_end_blank (L : List Str) : readLines (L ++ [[]]) = readLines L := by
  unfold readLines
  rcases content_end_blank L with h | h
  · rw [h]
    simp [headingOf_nil, itemOf_nil, isPara_nil, pipeBlocks, pipeBlocksAux_end_blank]
  · rw [h]

theorem readLines_end_blanks (L : List Str) (k : Nat) : readLines (L ++ List.replicate k []) = readLines L := by
  induction k with
  | zero => simp
  | succ k ih =>
    rw [List.replicate_succ', ← List.append_assoc, readLines_end_blank, ih]

theorem readLines_cons_blanks (L : List Str) (k : Nat) (h : L.head? ≠ some hrLine) :
    readLines (List.replicate k [] ++ L) = readLines L := by
  induction k with
  | zero => simp
  | succ k ih =>
    rw [List.replicate_succ, List.cons_append, readLines_cons_blank, ih]
    cases k with
    | zero => simpa using h
    | succ k => simp [List.replicate_succ, hrLine]

/-! ## `strings.Trim(s, "\n")` -/

theorem dropWhile_nl_split (s : Str) : ∃ k, s = List.replicate k 10 ++ s.dropWhile (· == 10) := by
  induction s with
  | nil => exact ⟨0, rfl⟩
  | cons c s ih =>
    by_cases hc : c = 10
    · obtain ⟨k, hk⟩ := ih
      refine ⟨k + 1, ?_⟩
      subst hc
      simp only [List.dropWhile, beq_self_eq_true, List.replicate_succ, List.cons_append]
      rw [← hk]
    · refine ⟨0, ?_⟩
      have : (c == 10) = false := by simpa using hc
      simp [List.dropWhile, this]

theorem splitLines_replicate_append (k : Nat) (s : Str) :
    splitLines (List.replicate k 10 ++ s) = List.replicate k [] ++ splitLines s := by
  induction k with
  | zero => simp
  | succ k ih => simp [List.replicate_succ, splitLines, ih]

theorem splitLines_append_replicate (s : Str) (j : Nat) :
    splitLines (s ++ List.replicate j 10) = splitLines s ++ List.replicate j [] := by
  cases j with
  | zero => simp
  | succ j =>
    rw [List.replicate_succ, splitLines_append_nl, splitLines_replicate_nl]

theorem trimRight_nl_split (s : Str) :
    ∃ j, s = (s.reverse.dropWhile (· == 10)).reverse ++ List.replicate j 10 := by
  obtain ⟨k, hk⟩ := dropWhile_nl_split s.reverse
  refine ⟨k, ?_⟩
  have := congrArg List.reverse hk
  simpa using this

theorem readMd_trimNl (s : Str)
    (h : s.head? = some 10 → (splitLines (s.dropWhile (· == 10))).head? ≠ some hrLine) :
    readMd (trimNl s) = readMd s := by
  obtain ⟨k, hk⟩ := dropWhile_nl_split s
  obtain ⟨j, hj⟩ := trimRight_nl_split (s.dropWhile (· == 10))
  have e1 : trimNl s = ((s.dropWhile (· == 10)).reverse.dropWhile (· == 10)).reverse := rfl
  unfold readMd
  rw [e1]
  have e2 : splitLines s = List.replicate k [] ++ splitLines (s.dropWhile (· == 10)) := by
    conv => lhs; rw [hk]
    exact splitLines_replicate_append k _
  have e3 : splitLines (s.dropWhile (· == 10)) =
      splitLines ((s.dropWhile (· == 10)).reverse.dropWhile (· == 10)).reverse ++ List.replicate j [] := by
    conv => lhs; rw [hj]
    exact splitLines_append_replicate _ j
  rw [e2]
  have e4 : readLines (List.replicate k [] ++ splitLines (s.dropWhile (· == 10)))
      = readLines (splitLines (s.dropWhile (· == 10))) := by
    cases k with
    | zero => simp
    | succ k =>
      apply readLines_cons_blanks
      apply h
      rw [hk]; simp [List.replicate_succ]
  rw [e4, e3, readLines_end_blanks]

theorem joinLines_replicate_nil (k : Nat) : joinLines (List.replicate k []) = List.replicate k 10 := by
  induction k with
  | zero => rfl
  | succ k ih => simp [List.replicate_succ, joinLines_cons, ih]

theorem readMd_joinLines (L : List Str) (hnl : ∀ l ∈ L, 10 ∉ l) : readMd (joinLines L) = readLines L := by
  unfold readMd
  rw [splitLines_joinLines L hnl, readLines_end_blank]

/-- the lines of a builder that holds whole lines, after `strings.Trim(s, "\n")`: what the reader
sees is what it sees on the lines themselves -/
theorem readMd_trimNl_joinLines (L : List Str) (hnl : ∀ l ∈ L, 10 ∉ l)
    (h : L.head? = some [] → hrLine ∉ L) : readMd (trimNl (joinLines L)) = readLines L := by
  rw [readMd_trimNl, readMd_joinLines L hnl]
  intro hhead
  -- the builder starts with a newline: the first line is empty
  have h0 : L.head? = some [] := by
    cases L with
    | nil => simp [joinLines] at hhead
    | cons l ls =>
      cases l with
      | nil => rfl
      | cons c r =>
        rw [joinLines_cons] at hhead
        simp only [List.cons_append, List.head?_cons, Option.some.injEq] at hhead
        exact absurd hhead (fun e => hnl (c :: r) (by simp) (by simp [e]))
  have hno := h h0
  -- the lines after the leading empty ones
  have key : ∀ (M : List Str), (∀ l ∈ M, 10 ∉ l) → hrLine ∉ M →
      (splitLines ((joinLines M).dropWhile (· == 10))).head? ≠ some hrLine := by
    intro M
    induction M with
    | nil => intro _ _; simp [joinLines, splitLines, hrLine]
    | cons l ls ih =>
      intro hM hhr
      cases l with
      | nil =>
        rw [joinLines_cons]
        simp only [List.nil_append, List.dropWhile, beq_self_eq_true]
        exact ih (fun x hx => hM x (List.mem_cons_of_mem _ hx)) (fun e => hhr (List.mem_cons_of_mem _ e))
      | cons c r =>
        have hc : (c == 10) = false := by
          have : c ≠ 10 := fun e => hM (c :: r) (by simp) (by simp [e])
          simpa using this
        rw [joinLines_cons]
        simp only [List.cons_append, List.dropWhile, hc]
        have : splitLines (c :: (r ++ 10 :: joinLines ls)) = (c :: r) :: splitLines (joinLines ls) := by
          have := splitLines_append (c :: r) (joinLines ls) (hM (c :: r) (by simp))
          simpa using this
        rw [this]
        simp only [List.head?_cons, ne_eq, Option.some.injEq]
        intro e
        exact hhr (by simp [e])
  exact key L hnl hno

/-! ## preamble: front matter and generated table of contents -/

theorem readLines_congr (X Y : List Str) (h : content X = content Y) : readLines X = readLines Y := by
  unfold readLines; rw [h]

/-- the lines of a front matter block: `---`, the key lines, `---`, an empty line -/
def fmBlock (fm : List Str) : List Str := hrLine :: (fm ++ [hrLine, []])

/-- the lines of a generated TOC: the title, the entry lines (with the empty lines around them),
`---`, an empty line -/
def tocBlock (toc : List Str) : List Str := tocTitle :: (toc ++ [hrLine, []])

theorem content_plain (L : List Str) (h1 : L.head? ≠ some hrLine) (h2 : tocTitle ∉ L) : content L = L := by
  unfold content; rw [skipFront_id L h1, dropToc_id L h2]

theorem content_fm (fm L : List Str) (hfm : hrLine ∉ fm) (h2 : tocTitle ∉ L) :
    content (fmBlock fm ++ L) = [] :: L := by
  unfold content fmBlock
  have : hrLine :: (fm ++ [hrLine, []]) ++ L = hrLine :: (fm ++ hrLine :: ([] :: L)) := by simp
  rw [this, skipFront_front fm _ hfm, dropToc_id]
  intro h
  rcases List.mem_cons.mp h with h | h
  · revert h; decide
  · exact h2 h

theorem content_toc (toc L : List Str) (htoc : hrLine ∉ toc) :
    content (tocBlock toc ++ L) = [] :: L := by
  unfold content tocBlock
  have e : tocTitle :: (toc ++ [hrLine, []]) ++ L = [] ++ tocTitle :: (toc ++ hrLine :: ([] :: L)) := by simp
  rw [skipFront_id _ (by simp [tocTitle, hrLine]), e, dropToc_toc [] toc _ (by simp) htoc]
  rfl

theorem content_fm_toc (fm toc L : List Str) (hfm : hrLine ∉ fm) (htoc : hrLine ∉ toc) :
    content (fmBlock fm ++ (tocBlock toc ++ L)) = [] :: [] :: L := by
  unfold content fmBlock tocBlock
  have e1 : hrLine :: (fm ++ [hrLine, []]) ++ (tocTitle :: (toc ++ [hrLine, []]) ++ L)
      = hrLine :: (fm ++ hrLine :: ([] :: tocTitle :: (toc ++ hrLine :: ([] :: L)))) := by simp
  rw [e1, skipFront_front fm _ hfm]
  have e2 : ([] : Str) :: tocTitle :: (toc ++ hrLine :: ([] :: L)) = [[]] ++ tocTitle :: (toc ++ hrLine :: ([] :: L)) := rfl
  rw [e2, dropToc_toc [[]] toc _ (by simp [tocTitle]) htoc]
  rfl

/-- an optional block of lines -/
def optBlock (f : List Str → List Str) : Option (List Str) → List Str
  | some x => f x
  | none => []

/-- a document with any of the two preamble blocks reads as its body -/
theorem readLines_preamble (fm toc : Option (List Str)) (L : List Str)
    (hfm : ∀ f, fm = some f → hrLine ∉ f) (htoc : ∀ t, toc = some t → hrLine ∉ t)
    (h1 : L.head? ≠ some hrLine) (h2 : tocTitle ∉ L) :
    readLines (optBlock fmBlock fm ++ (optBlock tocBlock toc ++ L)) = readLines L := by
  have hc := content_plain L h1 h2
  have b1 : readLines ([] :: L) = readLines L := readLines_cons_blank L h1
  have b2 : readLines ([] :: [] :: L) = readLines L := by
    rw [readLines_cons_blank _ (by simp [hrLine]), b1]
  have c1 : content ([] :: L) = [] :: L :=
    content_plain _ (by simp [hrLine]) (by
      intro h; rcases List.mem_cons.mp h with h | h
      · revert h; decide
      · exact h2 h)
  have c2 : content ([] :: [] :: L) = [] :: [] :: L :=
    content_plain _ (by simp [hrLine]) (by
      intro h; rcases List.mem_cons.mp h with h | h
      · revert h; decide
      · rcases List.mem_cons.mp h with h | h
        · revert h; decide
        · exact h2 h)
  cases fm with
  | none =>
    cases toc with
    | none => simp [optBlock]
    | some t =>
      simp only [optBlock, List.nil_append]
      rw [readLines_congr _ ([] :: L) (by rw [content_toc t L (htoc t rfl), c1]), b1]
  | some f =>
    have hf1 := hfm f rfl
    cases toc with
    | none =>
      simp only [optBlock, List.nil_append]
      rw [readLines_congr _ ([] :: L) (by rw [content_fm f L hf1 h2, c1]), b1]
    | some t =>
      simp only [optBlock]
      rw [readLines_congr _ ([] :: [] :: L) (by rw [content_fm_toc f t L hf1 (htoc t rfl), c2]), b2]

/-! ## `gfmTable` on lines -/

theorem gfmTable_eq_L (doc : Str) : gfmTable doc = gfmTableL (splitLines doc) := by
  unfold gfmTable
  generalize splitLines doc = ls
  match ls with
  | [] => rfl
  | [_] => rfl
  | h :: d :: rest => rfl

theorem bodyRows_end_blank (n : Nat) (ls : List Str) : bodyRows n (ls ++ [[]]) = bodyRows n ls := by
  induction ls with
  | nil => simp [bodyRows, isBlank]
  | cons l ls ih =>
    simp only [List.cons_append, bodyRows, ih]

theorem gfmTableL_end_blank (h d : Str) (rest : List Str) :
    gfmTableL (h :: d :: rest ++ [[]]) = gfmTableL (h :: d :: rest) := by
  have : h :: d :: rest ++ [[]] = h :: d :: (rest ++ [[]]) := by simp
  rw [this]
  simp only [gfmTableL, bodyRows_end_blank]

/-- a table given by its lines reads as the joined text does -/
theorem gfmTableL_of_joined (T : List Str) (hnl : ∀ l ∈ T, 10 ∉ l) (h2 : 2 ≤ T.length) :
    gfmTableL T = gfmTable (joinLines T) := by
  rw [gfmTable_eq_L, splitLines_joinLines T hnl]
  match T, h2 with
  | h :: d :: rest, _ => exact (gfmTableL_end_blank h d rest).symm

end Tabula.MarkdownDoc
