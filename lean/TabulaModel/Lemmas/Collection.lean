import TabulaModel.Model.Collection
/-!
Loop invariants of the collection accessors of `Model/Collection.lean` (for `Props/C14Coll.lean`).
-/
set_option linter.unusedSimpArgs false
namespace Tabula.Export
open Tabula.Csv (Str)

theorem sectionsLoop_spec (cs : List Chunk) (seen acc : List Str) (hs : ∀ t, t ∈ seen ↔ t ∈ acc) (hn : acc.Nodup) :
    (sectionsLoop cs seen acc).Nodup ∧
    (∀ t, t ∈ sectionsLoop cs seen acc ↔ (t ∈ acc ∨ (t ≠ [] ∧ ∃ c ∈ cs, c.md.sectionTitle = t))) ∧
    ∃ sub, sectionsLoop cs seen acc = acc ++ sub ∧ sub.Sublist (cs.map (·.md.sectionTitle)) := by
  induction cs generalizing seen acc with
  | nil => exact ⟨hn, by simp [sectionsLoop], [], by simp [sectionsLoop], List.Sublist.slnil⟩
  | cons c rest ih =>
    simp only [sectionsLoop]
    by_cases h : c.md.sectionTitle ≠ [] ∧ c.md.sectionTitle ∉ seen
    · rw [if_pos h]
      have hnot : c.md.sectionTitle ∉ acc := fun hm => h.2 ((hs _).mpr hm)
      have hn' : (acc ++ [c.md.sectionTitle]).Nodup := by
        rw [List.nodup_append]
        refine ⟨hn, by simp, ?_⟩
        intro a ha b hb e
        simp only [List.mem_singleton] at hb
        exact hnot (hb ▸ e ▸ ha)
      have hs' : ∀ t, t ∈ c.md.sectionTitle :: seen ↔ t ∈ acc ++ [c.md.sectionTitle] := by
        intro t
        simp [hs t, Or.comm]
      obtain ⟨i1, i2, sub, i3, i4⟩ := ih _ _ hs' hn'
      refine ⟨i1, ?_, c.md.sectionTitle :: sub, by rw [i3]; simp,
        by simp only [List.map_cons]; exact List.Sublist.cons_cons _ i4⟩
      intro t
      rw [i2 t]
      simp only [List.mem_append, List.mem_singleton, List.mem_cons, List.not_mem_nil, or_false]
      constructor
      · rintro ((h1 | h1) | ⟨h1, c', hc', e⟩)
        · exact Or.inl h1
        · exact Or.inr ⟨h1 ▸ h.1, c, Or.inl rfl, h1.symm⟩
        · exact Or.inr ⟨h1, c', Or.inr hc', e⟩
      · rintro (h1 | ⟨h1, c', hc' | hc', e⟩)
        · exact Or.inl (Or.inl h1)
        · subst hc'; exact Or.inl (Or.inr e.symm)
        · exact Or.inr ⟨h1, c', hc', e⟩
    · rw [if_neg h]
      obtain ⟨i1, i2, sub, i3, i4⟩ := ih seen acc hs hn
      refine ⟨i1, ?_, sub, i3, by simp only [List.map_cons]; exact List.Sublist.cons _ i4⟩
      intro t
      rw [i2 t]
      simp only [List.mem_cons]
      constructor
      · rintro (h1 | ⟨h1, c', hc', e⟩)
        · exact Or.inl h1
        · exact Or.inr ⟨h1, c', Or.inr hc', e⟩
      · rintro (h1 | ⟨h1, c', hc' | hc', e⟩)
        · exact Or.inl h1
        · subst hc'
          left
          rw [← e] at h1
          have : c'.md.sectionTitle ∈ seen := by
            by_cases hm : c'.md.sectionTitle ∈ seen
            · exact hm
            · exact absurd ⟨h1, hm⟩ h
          rw [← e]; exact (hs _).mp this
        · exact Or.inr ⟨h1, c', hc', e⟩

theorem pageRangeLoop_spec (cs : List Chunk) (lo hi : Int) :
    (pageRangeLoop cs lo hi).1 ≤ lo ∧ (∀ c ∈ cs, (pageRangeLoop cs lo hi).1 ≤ c.md.pageStart) ∧
    ((pageRangeLoop cs lo hi).1 = lo ∨ ∃ c ∈ cs, (pageRangeLoop cs lo hi).1 = c.md.pageStart) ∧
    hi ≤ (pageRangeLoop cs lo hi).2 ∧ (∀ c ∈ cs, c.md.pageEnd ≤ (pageRangeLoop cs lo hi).2) ∧
    ((pageRangeLoop cs lo hi).2 = hi ∨ ∃ c ∈ cs, (pageRangeLoop cs lo hi).2 = c.md.pageEnd) := by
  induction cs generalizing lo hi with
  | nil => simp [pageRangeLoop]
  | cons c rest ih =>
    simp only [pageRangeLoop]
    have hlo : (if c.md.pageStart < lo then c.md.pageStart else lo) ≤ lo ∧
        (if c.md.pageStart < lo then c.md.pageStart else lo) ≤ c.md.pageStart ∧
        ((if c.md.pageStart < lo then c.md.pageStart else lo) = lo ∨
          (if c.md.pageStart < lo then c.md.pageStart else lo) = c.md.pageStart) := by
      split <;> omega
    have hhi : hi ≤ (if c.md.pageEnd > hi then c.md.pageEnd else hi) ∧
        c.md.pageEnd ≤ (if c.md.pageEnd > hi then c.md.pageEnd else hi) ∧
        ((if c.md.pageEnd > hi then c.md.pageEnd else hi) = hi ∨
          (if c.md.pageEnd > hi then c.md.pageEnd else hi) = c.md.pageEnd) := by
      split <;> omega
    generalize (if c.md.pageStart < lo then c.md.pageStart else lo) = lo' at hlo ⊢
    generalize (if c.md.pageEnd > hi then c.md.pageEnd else hi) = hi' at hhi ⊢
    obtain ⟨a1, a2, a3, a4, a5, a6⟩ := ih lo' hi'
    refine ⟨by omega, ?_, ?_, by omega, ?_, ?_⟩
    · intro c' hc'
      rcases List.mem_cons.mp hc' with e | e
      · subst e; omega
      · exact a2 c' e
    · rcases a3 with e | ⟨c', hc', e⟩
      · rcases hlo.2.2 with e' | e'
        · exact Or.inl (e.trans e')
        · exact Or.inr ⟨c, by simp, e.trans e'⟩
      · exact Or.inr ⟨c', List.mem_cons_of_mem _ hc', e⟩
    · intro c' hc'
      rcases List.mem_cons.mp hc' with e | e
      · subst e; omega
      · exact a5 c' e
    · rcases a6 with e | ⟨c', hc', e⟩
      · rcases hhi.2.2 with e' | e'
        · exact Or.inl (e.trans e')
        · exact Or.inr ⟨c, by simp, e.trans e'⟩
      · exact Or.inr ⟨c', List.mem_cons_of_mem _ hc', e⟩

theorem statsLoop_spec (cs : List Chunk) (s : Stats) :
    (statsLoop cs s).totalChunks = s.totalChunks ∧
    (statsLoop cs s).totalTokens = s.totalTokens + (cs.map (·.md.estimatedTokens)).sum ∧
    (statsLoop cs s).totalWords = s.totalWords + (cs.map (·.md.wordCount)).sum ∧
    (statsLoop cs s).totalChars = s.totalChars + (cs.map (·.md.charCount)).sum ∧
    (statsLoop cs s).withTables = s.withTables + cs.countP (·.md.hasTable) ∧
    (statsLoop cs s).withLists = s.withLists + cs.countP (·.md.hasList) ∧
    (statsLoop cs s).withImages = s.withImages + cs.countP (·.md.hasImage) ∧
    (statsLoop cs s).minTokens ≤ s.minTokens ∧ (∀ c ∈ cs, (statsLoop cs s).minTokens ≤ c.md.estimatedTokens) ∧
    s.maxTokens ≤ (statsLoop cs s).maxTokens ∧ (∀ c ∈ cs, c.md.estimatedTokens ≤ (statsLoop cs s).maxTokens) := by
  induction cs generalizing s with
  | nil => simp [statsLoop]
  | cons c rest ih =>
    simp only [statsLoop]
    obtain ⟨a0, a1, a2, a3, a4, a5, a6, a7, a8, a9, a10⟩ := ih { s with
      totalTokens := s.totalTokens + c.md.estimatedTokens
      totalWords := s.totalWords + c.md.wordCount
      totalChars := s.totalChars + c.md.charCount
      minTokens := if c.md.estimatedTokens < s.minTokens then c.md.estimatedTokens else s.minTokens
      maxTokens := if c.md.estimatedTokens > s.maxTokens then c.md.estimatedTokens else s.maxTokens
      withTables := if c.md.hasTable then s.withTables + 1 else s.withTables
      withLists := if c.md.hasList then s.withLists + 1 else s.withLists
      withImages := if c.md.hasImage then s.withImages + 1 else s.withImages }
    simp only at a0 a1 a2 a3 a4 a5 a6 a7 a9
    have hmn : (if c.md.estimatedTokens < s.minTokens then c.md.estimatedTokens else s.minTokens) ≤ s.minTokens ∧
        (if c.md.estimatedTokens < s.minTokens then c.md.estimatedTokens else s.minTokens) ≤ c.md.estimatedTokens := by
      split <;> omega
    have hmx : s.maxTokens ≤ (if c.md.estimatedTokens > s.maxTokens then c.md.estimatedTokens else s.maxTokens) ∧
        c.md.estimatedTokens ≤ (if c.md.estimatedTokens > s.maxTokens then c.md.estimatedTokens else s.maxTokens) := by
      split <;> omega
    refine ⟨a0, ?_, ?_, ?_, ?_, ?_, ?_, ?_, ?_, ?_, ?_⟩
    · rw [a1]; simp only [List.map_cons, List.sum_cons]; omega
    · rw [a2]; simp only [List.map_cons, List.sum_cons]; omega
    · rw [a3]; simp only [List.map_cons, List.sum_cons]; omega
    · rw [a4, List.countP_cons]; cases c.md.hasTable <;> simp <;> omega
    · rw [a5, List.countP_cons]; cases c.md.hasList <;> simp <;> omega
    · rw [a6, List.countP_cons]; cases c.md.hasImage <;> simp <;> omega
    · exact Int.le_trans a7 hmn.1
    · intro c' hc'
      rcases List.mem_cons.mp hc' with e | e
      · subst e; exact Int.le_trans a7 hmn.2
      · exact a8 c' e
    · exact Int.le_trans hmx.1 a9
    · intro c' hc'
      rcases List.mem_cons.mp hc' with e | e
      · subst e; exact Int.le_trans hmx.2 a9
      · exact a10 c' e

end Tabula.Export
