import TabulaModel.Lemmas.CMapSection
/-!
The target decoder of font/cmap.go (`hexToUnicode`, `decodeUTF16BE`) against Go's
`utf16.Decode`, and the target shapes not covered by the section theorems: explicit
byte-order mark, one-byte targets, white space inside the token.
-/
namespace Tabula.CMapTarget
open Tabula.UTF16 Tabula.CMap

/-- no high surrogate is followed by a unit that is not a low surrogate (a high surrogate at the very end is allowed); checked at the positions where the decoders look -/
def HighsPaired : List Nat → Prop
  | [] => True
  | [_] => True
  | u :: l :: rest =>
    if isHigh u then (isLow l = true ∧ HighsPaired rest) else HighsPaired (l :: rest)

private theorem eq_std_aux : ∀ (n : Nat) (us : List Nat), us.length ≤ n → HighsPaired us →
    cmapDecodeUnits us = stdDecodeUnits us := by
  intro n
  induction n with
  | zero =>
    intro us hn _
    match us, hn with
    | [], _ => rfl
  | succ n ih =>
    intro us hn h
    match us, hn, h with
    | [], _, _ => rfl
    | [u], _, _ => rfl
    | u :: l :: rest, hn, h =>
      simp only [List.length_cons] at hn
      simp only [HighsPaired] at h
      simp only [cmapDecodeUnits, stdDecodeUnits]
      cases hu : isHigh u with
      | false =>
        simp only [hu, Bool.false_eq_true, if_false] at h
        simp only [Bool.false_eq_true, if_false, Bool.false_and]
        rw [ih (l :: rest) (by simp only [List.length_cons]; omega) h]
      | true =>
        simp only [hu, if_true] at h
        obtain ⟨hl, hr⟩ := h
        simp only [hl, if_true, Bool.and_self]
        rw [ih rest (by omega) hr]

/-- the target decoder of cmap.go and Go's utf16.Decode (used for range targets) agree on every unit string in which every high surrogate is followed by a low one - in particular on every well-formed UTF-16 string, and also on strings with stray LOW surrogates -/
theorem cmapDecodeUnits_eq_std (us : List Nat) (h : HighsPaired us) : cmapDecodeUnits us = stdDecodeUnits us :=
  eq_std_aux us.length us (Nat.le_refl _) h

theorem toRune_high (u : Nat) (hu : isHigh u = true) : toRune u = 0xFFFD := by
  have := (isHigh_iff u).1 hu
  unfold toRune
  rw [if_neg (by omega)]

/-- … and they differ exactly in this: after an unpaired high surrogate cmap.go drops the next unit -/
theorem cmapDecodeUnits_unpaired (u l : Nat) (rest : List Nat) (hu : isHigh u = true) (hl : isLow l = false) :
    cmapDecodeUnits (u :: l :: rest) = 0xFFFD :: cmapDecodeUnits rest ∧
    stdDecodeUnits (u :: l :: rest) = 0xFFFD :: stdDecodeUnits (l :: rest) := by
  constructor
  · simp only [cmapDecodeUnits, hu, hl, if_true, Bool.false_eq_true, if_false, toRune_high u hu]
  · simp only [stdDecodeUnits, hu, hl, Bool.and_false, Bool.false_eq_true, if_false, toRune_high u hu]

/-- what `hexToUnicode` does with the hex text (either case) of a byte string -/
theorem hexToUnicode_hexOfBytesP (upper : Bool) (bs : List Nat) : AllBytes bs →
    hexToUnicode (hexOfBytesP upper bs) =
      (match bs with
       | 0xFE :: 0xFF :: rest => cmapDecodeUTF16BE rest
       | _ :: _ :: _ => cmapDecodeUTF16BE bs
       | [b] => some [toRune b]
       | [] => none) := by
  intro hb
  unfold hexToUnicode
  have hfilter : (hexOfBytesP upper bs).filter
      (fun c => !(c = 32 || c = 9 || c = 10 || c = 13)) = hexOfBytesP upper bs := by
    rw [List.filter_eq_self]
    intro c hc
    have := hexOfBytesP_mem _ _ hb c hc
    unfold IsHexCh at this
    have h1 : c ≠ 32 := by omega
    have h2 : c ≠ 9 := by omega
    have h3 : c ≠ 10 := by omega
    have h4 : c ≠ 13 := by omega
    simp [h1, h2, h3, h4]
  simp only [hfilter]
  have hl : (hexOfBytesP upper bs).length % 2 = 0 := by rw [hexOfBytesP_length]; omega
  simp only [hl, ne_eq, not_true_eq_false, if_false]
  rw [hexDecode_hexOfBytesP _ _ hb]
  simp only
  first
    | rfl
    | (split <;> split <;> simp_all)

theorem cmapDecodeUTF16BE_bytesBE (us : List Nat) :
    cmapDecodeUTF16BE (bytesBE us) = some (cmapDecodeUnits us) := by
  unfold cmapDecodeUTF16BE
  have : (bytesBE us).length % 2 = 0 := by rw [bytesBE_length]; omega
  simp only [this, ne_eq, not_true_eq_false, if_false]
  rw [unitsBE_bytesBE]

/-- a target written with an explicit byte-order mark `<FEFF…>`: every scalar string (empty, or starting with U+FEFF itself, included), upper- or lower-case hex -/
theorem hexToUnicode_bom_target (upper : Bool) (t : List Nat) (ht : ∀ c ∈ t, IsScalar c) :
    hexToUnicode (hexOfBytesP upper (0xFE :: 0xFF :: bytesBE (encodeUnits t))) = some t := by
  have hbytes : AllBytes (bytesBE (encodeUnits t)) := bytesBE_bytes _ (encodeUnits_lt t ht)
  have hall : AllBytes (0xFE :: 0xFF :: bytesBE (encodeUnits t)) := by
    intro b hb
    simp only [List.mem_cons] at hb
    rcases hb with hb | hb | hb
    · omega
    · omega
    · exact hbytes b hb
  rw [hexToUnicode_hexOfBytesP _ _ hall]
  simp only
  rw [cmapDecodeUTF16BE_bytesBE, cmapDecodeUnits_encodeUnits _ ht]

/-- a one-byte target `<41>` is the character of that number -/
theorem hexToUnicode_one_byte (upper : Bool) (b : Nat) (hb : b < 256) :
    hexToUnicode (hexOfBytesP upper [b]) = some [b] := by
  have hall : AllBytes [b] := by
    intro x hx
    simp only [List.mem_singleton] at hx
    omega
  rw [hexToUnicode_hexOfBytesP _ _ hall]
  simp only
  rw [toRune_scalar b (Or.inl (by omega))]

/-- white space (space, tab, LF, CR) inside a hex token is ignored, wherever it stands -/
theorem hexToUnicode_ws (h h' : Str)
    (he : h.filter (fun c => !(c = 32 || c = 9 || c = 10 || c = 13)) = h'.filter (fun c => !(c = 32 || c = 9 || c = 10 || c = 13))) :
    hexToUnicode h = hexToUnicode h' := by
  unfold hexToUnicode
  simp only [he]

end Tabula.CMapTarget
