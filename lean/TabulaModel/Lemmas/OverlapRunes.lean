import TabulaModel.Lemmas.OverlapBytes
import TabulaModel.Model.OverlapApi
/-!
C13, round 6: the overlap of EVERY strategy for EVERY byte string.

`content s` = the non-whitespace characters of `s` as Go's `range s` / `[]rune(s)` read it: an
ill-formed byte is U+FFFD (`san s = string([]rune(s))`).  On valid UTF-8 `content = stripWs`.
`san` distributes over every cut the rune scan passes through (`san_of_aligned`), hence over
every cut no well-formed character covers (`san_cut`); the byte-level code (character
overlap, `tailAtRuneBoundary`, the paragraph splitter, `strings.TrimSpace`) only cuts there,
and the rune-level code (the sentence splitter) works on `[]rune(s)` in the first place.  So
`generateOverlap_any`: the overlap's content is a suffix of the chunk's, no hypothesis.
-/
set_option linter.unusedVariables false
namespace Tabula.Overlap
open Tabula.Split

theorem decodeRunesAux_fuel (fuel : Nat) : ∀ s : Str, s.length ≤ fuel →
    decodeRunesAux fuel s = decodeRunesAux s.length s := by
  induction fuel using Nat.strongRecOn with
  | _ fuel ih =>
    intro s hl
    cases fuel with
    | zero =>
      have : s = [] := List.eq_nil_of_length_eq_zero (by omega)
      subst this; rfl
    | succ f =>
      by_cases hs : s = []
      · subst hs; rfl
      · have hpos : 0 < s.length := List.length_pos_iff.mpr hs
        obtain ⟨m, hm⟩ : ∃ m, s.length = m + 1 := ⟨s.length - 1, by omega⟩
        have hr := runeLen_pos s
        have hdl : (s.drop (runeLen s)).length ≤ m := by rw [List.length_drop]; omega
        rw [hm]
        unfold decodeRunesAux
        rw [if_neg hs, if_neg hs]
        rw [ih f (by omega) _ (by omega), ih m (by omega) _ hdl]

theorem decodeRunes_cons (s : Str) (hs : s ≠ []) :
    decodeRunes s = codePoint s :: decodeRunes (s.drop (runeLen s)) := by
  unfold decodeRunes
  have hpos : 0 < s.length := List.length_pos_iff.mpr hs
  obtain ⟨m, hm⟩ : ∃ m, s.length = m + 1 := ⟨s.length - 1, by omega⟩
  have hr := runeLen_pos s
  rw [hm]
  conv => lhs; unfold decodeRunesAux
  rw [if_neg hs]
  congr 1
  exact decodeRunesAux_fuel m _ (by rw [List.length_drop]; omega)

theorem san_nil : san [] = [] := rfl

theorem san_step (s : Str) (hs : s ≠ []) :
    san s = encodeRune (codePoint s) ++ san (s.drop (runeLen s)) := by
  unfold san
  rw [decodeRunes_cons s hs, encodeRunes_cons]

theorem valid_san (s : Str) : validUtf8 (san s) = true := valid_encodeRunes _

theorem san_valid (s : Str) (hv : validUtf8 s = true) : san s = s := encode_decode s hv

theorem scanStep_eq_runeLen (s : Str) : scanStep s = runeLen s := by
  unfold scanStep
  split
  · rename_i h
    have := charLen_of_spaceLen s h
    unfold runeLen
    rw [if_neg (by omega)]
    omega
  · rfl

theorem codePoint_of_charLen_zero (s : Str) (h : charLen s = 0) : codePoint s = 0xFFFD := by
  unfold codePoint
  rw [h]
  cases s <;> rfl

/-- the rune at the head does not change when the string is cut behind it -/
theorem rune_take (s : Str) (n : Nat) (hs : s ≠ []) (hn : runeLen s ≤ n) :
    runeLen (s.take n) = runeLen s ∧ codePoint (s.take n) = codePoint s := by
  have hsplit : s.take n ++ s.drop n = s := List.take_append_drop n s
  by_cases hc : charLen s = 0
  · have hc' : charLen (s.take n) = 0 := by
      apply Classical.byContradiction
      intro hne
      have := charLen_append (s.take n) (s.drop n) hne
      rw [hsplit] at this
      omega
    refine ⟨by simp [runeLen, hc, hc'], ?_⟩
    rw [codePoint_of_charLen_zero _ hc, codePoint_of_charLen_zero _ hc']
  · have hr : runeLen s = charLen s := by simp [runeLen, hc]
    have hct := charLen_take s n hc (by omega)
    refine ⟨by simp [runeLen, hct, hc], ?_⟩
    rw [hr] at hn
    rcases charLen_cases s with h0 | ⟨a, r, rfl, h1⟩ | ⟨a, b, r, rfl, h2⟩ | ⟨a, b, c, r, rfl, h3⟩
      | ⟨a, b, c, d, r, rfl, h4⟩
    · exact absurd h0 hc
    · rw [charLen_one h1] at hn
      obtain ⟨m, rfl⟩ : ∃ m, n = m + 1 := ⟨n - 1, by omega⟩
      rw [List.take_succ_cons, codePoint_one h1, codePoint_one h1]
    · rw [charLen_two h2] at hn
      obtain ⟨m, rfl⟩ : ∃ m, n = m + 2 := ⟨n - 2, by omega⟩
      rw [List.take_succ_cons, List.take_succ_cons, codePoint_two h2, codePoint_two h2]
    · rw [charLen_three h3] at hn
      obtain ⟨m, rfl⟩ : ∃ m, n = m + 3 := ⟨n - 3, by omega⟩
      rw [List.take_succ_cons, List.take_succ_cons, List.take_succ_cons, codePoint_three h3, codePoint_three h3]
    · rw [charLen_four h4] at hn
      obtain ⟨m, rfl⟩ : ∃ m, n = m + 4 := ⟨n - 4, by omega⟩
      rw [List.take_succ_cons, List.take_succ_cons, List.take_succ_cons, List.take_succ_cons,
        codePoint_four h4, codePoint_four h4]

/-- `string([]rune(s))` distributes over a cut the rune scan passes through -/
theorem san_of_aligned {s : Str} {p : Nat} (h : Aligned s p) :
    san s = san (s.take p) ++ san (s.drop p) := by
  induction h with
  | zero s => simp [san_nil]
  | @next s p hs _ ih =>
    have hk := scanStep_pos s
    have hkl := scanStep_le_length s hs
    have hkr := scanStep_eq_runeLen s
    have htne : s.take (scanStep s + p) ≠ [] := by
      intro e
      have := congrArg List.length e
      have hpos : 0 < s.length := List.length_pos_iff.mpr hs
      simp only [List.length_take, List.length_nil] at this
      omega
    obtain ⟨e1, e2⟩ := rune_take s (scanStep s + p) hs (by omega)
    have hdt : (s.take (scanStep s + p)).drop (scanStep s) = (s.drop (scanStep s)).take p := by
      rw [List.drop_take]
      congr 1
      omega
    have hdd : s.drop (scanStep s + p) = (s.drop (scanStep s)).drop p := by
      rw [List.drop_drop]
    rw [san_step s hs, san_step _ htne, e1, e2, ← hkr, hdt, hdd, ih, List.append_assoc]

theorem san_cut (s : Str) (p : Nat) (hn : NotCovered s p) :
    san s = san (s.take p) ++ san (s.drop p) := by
  by_cases hp : p ≤ s.length
  · exact san_of_aligned (aligned_of_notCovered p s hp hn)
  · rw [List.take_of_length_le (by omega), List.drop_eq_nil_of_le (by omega), san_nil, List.append_nil]

theorem content_cut (s : Str) (p : Nat) (hn : NotCovered s p) :
    content s = content (s.take p) ++ content (s.drop p) := by
  unfold content
  rw [san_cut s p hn, stripWs_valid_append _ _ (valid_san _)]


/-! ### valid prefixes, whitespace, trimming -/

theorem aligned_valid_prefix (a b : Str) (hv : validUtf8 a = true) : Aligned (a ++ b) a.length := by
  induction a using validUtf8.induct with
  | case1 => exact .zero _
  | case2 x hx h0 => rw [validUtf8_bad x hx h0] at hv; exact Bool.noConfusion hv
  | case3 x hx h0 ih =>
    rw [validUtf8_step x h0] at hv
    have hcl : charLen (x ++ b) = charLen x := charLen_append x b h0
    have hk : scanStep (x ++ b) = charLen x := by
      rw [scanStep_eq_runeLen]; unfold runeLen; rw [if_neg (by rw [hcl]; exact h0), hcl]
    have hle := charLen_le_length x
    have hne : x ++ b ≠ [] := by simp [hx]
    have hrec : Aligned ((x ++ b).drop (scanStep (x ++ b))) (x.drop (charLen x)).length := by
      rw [hk, List.drop_append_of_le_length hle]
      exact ih hv
    have e : x.length = scanStep (x ++ b) + (x.drop (charLen x)).length := by
      rw [hk, List.length_drop]; omega
    rw [e]
    exact .next hne hrec

theorem san_valid_append (a b : Str) (hv : validUtf8 a = true) : san (a ++ b) = a ++ san b := by
  have := san_of_aligned (aligned_valid_prefix a b hv)
  rwa [List.take_left, List.drop_left, san_valid a hv] at this

theorem content_valid_append (a b : Str) (hv : validUtf8 a = true) :
    content (a ++ b) = stripWs a ++ content b := by
  unfold content
  rw [san_valid_append a b hv, stripWs_valid_append a _ hv]

theorem content_valid (a : Str) (hv : validUtf8 a = true) : content a = stripWs a := by
  unfold content; rw [san_valid a hv]

theorem content_nil : content [] = [] := by
  unfold content; rw [san_nil, stripWs_nil]

theorem content_wsOnly_append {g : Str} (hg : WsOnly g) (x : Str) : content (g ++ x) = content x := by
  rw [content_valid_append g x (valid_wsOnly hg), stripWs_wsOnly hg, List.nil_append]

theorem content_wsOnly {g : Str} (hg : WsOnly g) : content g = [] := by
  rw [content_valid g (valid_wsOnly hg), stripWs_wsOnly hg]

theorem content_trimSpace (x : Str) : content (trimSpace x) = content x := by
  obtain ⟨l, r, hl, hr, e⟩ := trimSpace_decomp x
  have hcut : NotCovered (trimSpace x ++ r) (trimSpace x).length := by
    by_cases hne : r = []
    · subst hne; exact notCovered_of_ge _ _ (by simp)
    · obtain ⟨b, hb1, hb2⟩ := wsOnly_head r hr hne
      apply notCovered_of_runeStart _ _ b _ hb2
      rw [List.getElem?_append_right (Nat.le_refl _)]
      simpa using hb1
  have h1 := content_cut _ _ hcut
  rw [List.take_left, List.drop_left, content_wsOnly hr, List.append_nil] at h1
  conv => rhs; rw [e, List.append_assoc, content_wsOnly_append hl, h1]

theorem content_before_ascii (A : Str) (b : Nat) (rest : Str) (hb : b < 0x80) :
    content (A ++ b :: rest) = content A ++ content (b :: rest) := by
  have hn : NotCovered (A ++ b :: rest) A.length :=
    notCovered_of_runeStart _ _ b (by rw [List.getElem?_append_right (Nat.le_refl _)]; simp)
      (runeStart_of_lt hb)
  have := content_cut _ _ hn
  rwa [List.take_left, List.drop_left] at this

/-! ### suffixes of content, for any bytes -/

/-- `b`'s characters (as `range` reads them, white space dropped) are a suffix of `a`'s -/
def RuneSuffix (a b : Str) : Prop := ∃ x, content a = x ++ content b

theorem RuneSuffix.refl (a : Str) : RuneSuffix a a := ⟨[], rfl⟩

theorem RuneSuffix.trans {a b c : Str} (h1 : RuneSuffix a b) (h2 : RuneSuffix b c) : RuneSuffix a c := by
  obtain ⟨x, e1⟩ := h1
  obtain ⟨y, e2⟩ := h2
  exact ⟨x ++ y, by rw [e1, e2, List.append_assoc]⟩

theorem runeSuffix_nil (a : Str) : RuneSuffix a [] := ⟨content a, by simp [content_nil]⟩

theorem runeSuffix_drop_notCovered (s : Str) (p : Nat) (h : NotCovered s p) : RuneSuffix s (s.drop p) :=
  ⟨content (s.take p), content_cut s p h⟩

theorem runeSuffix_skipNonSpace (fuel : Nat) (s : Str) : RuneSuffix s (skipNonSpace fuel s) := by
  induction fuel generalizing s with
  | zero => exact .refl s
  | succ n ih =>
    unfold skipNonSpace
    split
    · exact runeSuffix_nil s
    · rename_i hs
      split
      · exact .refl s
      · have hal : Aligned s (runeLen s) := by
          have := Aligned.next hs (Aligned.zero (s.drop (scanStep s)))
          rwa [Nat.add_zero, scanStep_eq_runeLen] at this
        have hcut : content s = content (s.take (runeLen s)) ++ content (s.drop (runeLen s)) := by
          unfold content
          rw [san_of_aligned hal, stripWs_valid_append _ _ (valid_san _)]
        exact RuneSuffix.trans ⟨_, hcut⟩ (ih _)

theorem runeSuffix_trimLeft (s : Str) : RuneSuffix s (trimLeft s) := by
  obtain ⟨l, hl, e⟩ := trimLeft_decomp s
  refine ⟨[], ?_⟩
  conv => lhs; rw [e]
  rw [content_wsOnly_append hl]; rfl

theorem runeSuffix_trimSpace (s : Str) : RuneSuffix s (trimSpace s) :=
  ⟨[], by rw [content_trimSpace]; rfl⟩

theorem runeSuffix_charOverlap (c : OverlapConfig) (text : Str) :
    RuneSuffix text (generateCharacterOverlap c text) := by
  unfold generateCharacterOverlap
  split
  · exact .refl text
  · simp only
    obtain ⟨p, _, e, hn⟩ := skipCont_drop_notCovered text (text.length - c.size)
    rw [e]
    have h1 := runeSuffix_drop_notCovered text p hn
    generalize text.drop p = t1 at h1 ⊢
    have h2 : RuneSuffix t1 (if c.preserveWords = true then trimLeft (skipNonSpace t1.length t1) else t1) := by
      split
      · exact (runeSuffix_skipNonSpace _ _).trans (runeSuffix_trimLeft _)
      · exact .refl t1
    generalize (if c.preserveWords = true then trimLeft (skipNonSpace t1.length t1) else t1) = t at h2 ⊢
    split
    · exact runeSuffix_nil text
    · exact (h1.trans h2).trans (runeSuffix_trimSpace t)

theorem runeSuffix_tail (s : Str) (n : Nat) : RuneSuffix s (tailAtRuneBoundary s n) := by
  unfold tailAtRuneBoundary
  split
  · exact .refl s
  · obtain ⟨p, _, e, hn⟩ := skipCont_drop_notCovered s (s.length - n)
    rw [e]
    exact runeSuffix_drop_notCovered s p hn

/-- the sentences of overlap.go carry the content of ANY byte string -/
theorem splitIntoSentences_content_any (cl : Classes) (text : Str) :
    (splitIntoSentences cl text).flatMap stripWs = content text := by
  obtain ⟨hp, hval⟩ := splitIntoSentences_pieces cl text
  exact hp.stripWs_eq hval

/-- the last sentences of a list, joined: a valid string whose content is theirs -/
theorem runeSuffix_join_sentences (cl : Classes) (text : Str) (sel pre : List Str)
    (e : splitIntoSentences cl text = pre ++ sel) (res : Str)
    (hres : validUtf8 res = true) (hc : stripWs res = sel.flatMap stripWs) : RuneSuffix text res := by
  refine ⟨pre.flatMap stripWs, ?_⟩
  rw [← splitIntoSentences_content_any cl text, e, List.flatMap_append, content_valid res hres, hc]

theorem runeSuffix_sentenceOverlap (cl : Classes) (c : OverlapConfig) (text : Str) :
    validUtf8 (generateSentenceOverlap cl c text).1 = true
      ∧ RuneSuffix text (generateSentenceOverlap cl c text).1 := by
  unfold generateSentenceOverlap
  simp only
  split
  · exact ⟨validUtf8_nil, runeSuffix_nil text⟩
  · obtain ⟨_, hval⟩ := splitIntoSentences_pieces cl text
    generalize (splitIntoSentences cl text).length - min c.size (splitIntoSentences cl text).length = k
    have hvd : ∀ p ∈ (splitIntoSentences cl text).drop k, validUtf8 p = true :=
      fun p hp => hval p (List.mem_of_mem_drop hp)
    have hj := valid_joinWith [32] (valid_wsOnly wsOnly_space) _ hvd
    refine ⟨valid_trimSpace _ hj, ?_⟩
    apply runeSuffix_join_sentences cl text ((splitIntoSentences cl text).drop k)
      ((splitIntoSentences cl text).take k) (List.take_append_drop _ _).symm _ (valid_trimSpace _ hj)
    rw [stripWs_trimSpace _ hj, stripWs_joinWith [32] wsOnly_space _ hvd]

theorem truncateOverlap_any (cl : Classes) (c : OverlapConfig) (o : Str) :
    RuneSuffix o (truncateOverlap cl c o) := by
  unfold truncateOverlap
  split
  · exact .refl o
  · simp only
    have hchar : RuneSuffix o (generateCharacterOverlap c (tailAtRuneBoundary o c.maxOverlap)) :=
      (runeSuffix_tail o _).trans (runeSuffix_charOverlap c _)
    split
    · exact hchar
    · split
      · exact hchar
      · obtain ⟨_, hval⟩ := splitIntoSentences_pieces cl o
        obtain ⟨pre, e⟩ := fitLast_suffix c.maxOverlap (splitIntoSentences cl o).reverse 0 []
        rw [List.reverse_reverse, List.append_nil] at e
        generalize fitLast c.maxOverlap (splitIntoSentences cl o).reverse 0 [] = sel at e ⊢
        have hsel : ∀ p ∈ sel, validUtf8 p = true := fun p hp =>
          hval p (by rw [e]; exact List.mem_append_right _ hp)
        exact runeSuffix_join_sentences cl o sel pre e _
          (valid_joinWith _ (valid_wsOnly wsOnly_space) _ hsel)
          (stripWs_joinWith _ wsOnly_space _ hsel)

theorem capOverlap_any (cl : Classes) (c : OverlapConfig) (o : Str) : RuneSuffix o (capOverlap cl c o) := by
  unfold capOverlap
  split
  · exact truncateOverlap_any cl c o
  · exact .refl o


/-! ### the paragraph splitter, any bytes, as `range` reads them -/

theorem content_joinWith_any (b : Nat) (t : Str) (hb : b < 0x80) (hs : WsOnly (b :: t)) (ps : List Str) :
    content (joinWith (b :: t) ps) = ps.flatMap content := by
  induction ps with
  | nil => simp [joinWith, content_nil]
  | cons p rest ih =>
    rw [joinWith_cons]
    split
    · rename_i h; subst h; simp
    · have e : p ++ (b :: t) ++ joinWith (b :: t) rest = p ++ b :: (t ++ joinWith (b :: t) rest) := by simp
      rw [e, content_before_ascii p b _ hb]
      have e2 : b :: (t ++ joinWith (b :: t) rest) = (b :: t) ++ joinWith (b :: t) rest := by simp
      rw [e2, content_wsOnly_append hs, ih, List.flatMap_cons]

theorem splitLines_runes (text : Str) : (splitLines text []).flatMap content = content text := by
  have := content_joinWith_any 10 [] (by decide) wsOnly_nl (splitLines text [])
  rw [splitLines_join] at this
  simpa using this.symm

def ParaInvRunes (c : Str) (st : Str × List Str) : Prop :=
  st.2.reverse.flatMap content ++ content st.1 = c

theorem paraStep_inv_runes (c : Str) (st : Str × List Str) (line : Str)
    (h : ParaInvRunes c st) : ParaInvRunes (c ++ content line) (paraStep st line) := by
  unfold ParaInvRunes at h ⊢
  unfold paraStep
  simp only
  have hts := content_trimSpace line
  by_cases ht : trimSpace line = []
  · rw [if_pos ht]
    have hz : content line = [] := by rw [← hts, ht, content_nil]
    rw [hz, List.append_nil]
    by_cases hc : st.1 ≠ []
    · rw [if_pos hc]
      simp only [List.reverse_cons, List.flatMap_append, List.flatMap_cons, List.flatMap_nil,
        List.append_nil, content_nil]
      rw [content_trimSpace]; exact h
    · rw [if_neg hc]; exact h
  · rw [if_neg ht]
    simp only
    have hcs : content ((if st.1 ≠ [] then st.1 ++ [32] else st.1) ++ trimSpace line)
        = content st.1 ++ content line := by
      split
      · have e : st.1 ++ [32] ++ trimSpace line = st.1 ++ 32 :: trimSpace line := by simp
        rw [e, content_before_ascii st.1 32 _ (by decide)]
        have e2 : 32 :: trimSpace line = [32] ++ trimSpace line := rfl
        rw [e2, content_wsOnly_append wsOnly_space, hts]
      · rename_i hc
        have : st.1 = [] := by simpa using hc
        rw [this, List.nil_append, content_nil, List.nil_append, hts]
    rw [hcs, ← List.append_assoc, h]

theorem paraFold_inv_runes (lines : List Str) (c : Str) (st : Str × List Str) (h : ParaInvRunes c st) :
    ParaInvRunes (c ++ lines.flatMap content) (lines.foldl paraStep st) := by
  induction lines generalizing c st with
  | nil => simpa using h
  | cons l rest ih =>
    rw [List.foldl_cons, List.flatMap_cons, ← List.append_assoc]
    exact ih _ _ (paraStep_inv_runes c st l h)

theorem splitIntoParagraphs_runes (text : Str) :
    (splitIntoParagraphs text).flatMap content = content text := by
  rw [splitIntoParagraphs_eq]
  have inv := paraFold_inv_runes (splitLines text []) [] ([], []) (by simp [ParaInvRunes, content_nil])
  rw [List.nil_append, splitLines_runes text] at inv
  unfold ParaInvRunes at inv
  generalize (splitLines text []).foldl paraStep ([], []) = st at inv
  unfold paraFinish
  by_cases hc : st.1 ≠ []
  · rw [if_pos hc]
    simp only [List.reverse_cons, List.flatMap_append, List.flatMap_cons, List.flatMap_nil,
      List.append_nil]
    rw [content_trimSpace]; exact inv
  · rw [if_neg hc]
    have hc' : st.1 = [] := by simpa using hc
    rw [hc', content_nil, List.append_nil] at inv
    exact inv

theorem runeSuffix_paragraphOverlap (cl : Classes) (c : OverlapConfig) (text : Str) :
    RuneSuffix text (generateParagraphOverlap cl c text).1 := by
  unfold generateParagraphOverlap
  simp only
  split
  · exact runeSuffix_nil text
  · generalize (splitIntoParagraphs text).length - min c.size (splitIntoParagraphs text).length = k
    refine ⟨((splitIntoParagraphs text).take k).flatMap content, ?_⟩
    rw [content_trimSpace, content_joinWith_any 10 [10] (by decide) wsOnly_nlnl,
      ← List.flatMap_append, List.take_append_drop, splitIntoParagraphs_runes]

theorem rawOverlap_any (cl : Classes) (c : OverlapConfig) (text : Str) :
    RuneSuffix text (rawOverlap cl c text).1 := by
  unfold rawOverlap
  split
  · exact runeSuffix_charOverlap c text
  · split
    · exact (runeSuffix_sentenceOverlap cl c text).2
    · exact runeSuffix_paragraphOverlap cl c text

/-- **every strategy, every byte string**: read as Go's `range` reads strings (an ill-formed byte
is U+FFFD), the overlap's non-whitespace characters are a suffix of the chunk's -/
theorem generateOverlap_any (cl : Classes) (c : OverlapConfig) (text : Str) :
    RuneSuffix text (generateOverlap cl c text) := by
  unfold generateOverlap
  split
  · exact runeSuffix_nil text
  · simp only
    have hsel : RuneSuffix text (if (rawOverlap cl c text).1.length < c.minOverlap ∧ c.strategy = 2 ∧ (rawOverlap cl c text).2 = 0
          then generateCharacterOverlap c text else (rawOverlap cl c text).1) := by
      split
      · exact runeSuffix_charOverlap c text
      · exact rawOverlap_any cl c text
    exact hsel.trans (capOverlap_any cl c _)

end Tabula.Overlap
