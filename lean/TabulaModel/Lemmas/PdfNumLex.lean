import TabulaModel.Lemmas.PdfLexProgress
/-!
The two number readers cut the same lexeme out of EVERY input: `core.(*Lexer).readNumber`
(`numLoop`) and `contentstream.(*Parser).parseNumber` (`CS.numBody` behind an optional sign).
Core Lean only.
-/
namespace Tabula.Pdf
namespace Prog

/-- once the first byte is behind, `readNumber` and the loop of `contentstream.parseNumber` are
the same function -/
theorem numLoop_eq_numBody (inp : Str) : ∀ hd : Bool, numLoop hd false inp = CS.numBody hd inp := by
  induction inp with
  | nil => intro hd; simp [numLoop, CS.numBody]
  | cons b r ih =>
    intro hd
    by_cases h46 : b = 46
    · subst h46
      have hnd : isDigit 46 = false := by decide
      cases hd with
      | true => simp [numLoop, CS.numBody, hnd]
      | false => simp [numLoop, CS.numBody, hnd, ih true]
    · by_cases hdg : isDigit b = true
      · simp [numLoop, CS.numBody, h46, hdg, ih hd]
      · have hdg' : isDigit b = false := by cases hh : isDigit b <;> simp_all
        simp [numLoop, CS.numBody, h46, hdg']

/-- `readNumber` entered on a sign -/
theorem numLoop_sign_first (b : Nat) (r : Str) (hb : b = 45 ∨ b = 43) :
    numLoop false true (b :: r) = (b :: (CS.numBody false r).1, (CS.numBody false r).2.1, (CS.numBody false r).2.2) := by
  have h46 : b ≠ 46 := by omega
  have hs : (b == 45 || b == 43) = true := by rcases hb with h | h <;> subst h <;> decide
  rw [numLoop]
  simp only [h46, if_false, Bool.true_and, hs, Bool.or_true, if_true, numLoop_eq_numBody]

/-- `readNumber` entered on a digit or the point -/
theorem numLoop_body_first (b : Nat) (r : Str) (hb : b = 46 ∨ isDigit b = true) :
    numLoop false true (b :: r) = CS.numBody false (b :: r) := by
  rcases hb with h | h
  · subst h
    have hnd : isDigit 46 = false := by decide
    simp [numLoop, CS.numBody, hnd, numLoop_eq_numBody]
  · have h46 : b ≠ 46 := by intro h'; subst h'; revert h; decide
    simp [numLoop, CS.numBody, h46, h, numLoop_eq_numBody]

/-- **one lexeme for both parsers**: on every input that starts with a sign, a digit or the point,
`contentstream.parseNumber` converts exactly the text `core.readNumber` would put into its token
(as a real if it contains a point, else as an integer), and stops at the same byte -/
theorem cs_parseNumber_lexeme (b : Nat) (r : Str) (hb : b = 45 ∨ b = 43 ∨ b = 46 ∨ isDigit b = true) :
    CS.parseNumber (b :: r) =
      (if (numLoop false true (b :: r)).2.1 then
        (match parseReal (numLoop false true (b :: r)).1 with
          | none => none
          | some o => some (o, (numLoop false true (b :: r)).2.2))
      else
        (match Tabula.A1.atoi (numLoop false true (b :: r)).1 with
          | none => none
          | some v => some (.int v, (numLoop false true (b :: r)).2.2))) := by
  by_cases hs : b = 45 ∨ b = 43
  · have hs' : b = 43 ∨ b = 45 := by omega
    rw [numLoop_sign_first b r hs]
    unfold CS.parseNumber
    simp only [hs', if_true, List.length_singleton, List.drop_succ_cons, List.drop_zero, List.singleton_append]
    split
    · cases parseReal (b :: (CS.numBody false r).1) <;> rfl
    · cases Tabula.A1.atoi (b :: (CS.numBody false r).1) <;> rfl
  · have hb' : b = 46 ∨ isDigit b = true := by
      rcases hb with h | h | h | h
      · exact absurd (Or.inl h) hs
      · exact absurd (Or.inr h) hs
      · exact Or.inl h
      · exact Or.inr h
    have hs' : ¬ (b = 43 ∨ b = 45) := by omega
    rw [numLoop_body_first b r hb']
    unfold CS.parseNumber
    simp only [hs', if_false, List.length_nil, List.drop_zero, List.nil_append]
    split
    · cases parseReal (CS.numBody false (b :: r)).1 <;> rfl
    · cases Tabula.A1.atoi (CS.numBody false (b :: r)).1 <;> rfl

end Prog
end Tabula.Pdf
