import TabulaModel.Lemmas.XrefAsk
import TabulaModel.Lemmas.XrefNest
/-!
# What a lookup on a fresh reader is, without the `loading` set: `getD`

`getD b n` is `GetObject(n)` with `b` further nested loads allowed and NO memory of the objects
being loaded: the value and the number of objects loaded inside each other (the "need"). A
reference cycle cannot be detected that way - it just uses the budget up - but the answer is
the same as `XrefFile.getObjectB`'s, which does keep the set (`getObjectB_eq_getD`): the set
only ever turns an error (budget used up) into an earlier error.

`getD` is monotone in the budget and the need it reports is the least budget that works
(`getD_threshold`): this is what the reader's caches rely on when they count a cache hit as the
load it stands for.
-/
namespace Tabula.XrefC
open Tabula.Pdf (Obj PState parseObject)
open Tabula.Reader (Dict dget PVal)
open Tabula.XrefFile

/-- `getUncompressedObject(n)` at `off` on a fresh reader: value and the nested loads below it -/
def plainD (file : Str) (nested : Int → Option (PVal × Nat)) (n off : Int) : Option (PVal × Nat) :=
  match uncompressedAtK file n off with
  | .fin r => r.map fun v => (v, 0)
  | .ask m k =>
    match nested m with
    | none => none
    | some (v, j) => (k (lenInt (some v))).map fun w => (w, j)

/-- `GetObject(n)` with `b` nested loads allowed (this one included): the value and the number
of objects loaded inside each other, this one included -/
def getD (ext : Reader.Ext) (file : Str) (x : RawSection) : Nat → Int → Option (PVal × Nat)
  | 0, _ => none
  | b + 1, n =>
    match getLastI x n with
    | none => none
    | some e =>
      if e.kind = .free then none
      else if e.kind = .inUse then (plainD file (getD ext file x b) n e.f1).map fun p => (p.1, p.2 + 1)
      else
        match getLastI x e.f1 with
        | none => none
        | some se =>
          if se.kind = .compressed then none
          else
            match plainD file (getD ext file x b) e.f1 se.f1 with
            | some (.stream kv data, j) =>
              match Reader.mkObjStm ext kv data with
              | .ok os => (memberAtI os n e.f2).map fun o => (.obj o, j + 1)
              | .error _ => none
            | _ => none

/-- the object whose lookup the loading of `n` starts (the `/Length` reference of the object,
or of the object stream that holds it) -/
def nextOf (file : Str) (x : RawSection) (n : Int) : Option Int :=
  match getLastI x n with
  | none => none
  | some e =>
    if e.kind = .free then none
    else if e.kind = .inUse then (uncompressedAtK file n e.f1).asked
    else
      match getLastI x e.f1 with
      | none => none
      | some se => if se.kind = .compressed then none else (uncompressedAtK file e.f1 se.f1).asked

/-- `Chain p n`: loading `p` leads (in one or more steps) to the lookup of `n` -/
inductive Chain (file : Str) (x : RawSection) : Int → Int → Prop
  | one {p n : Int} : nextOf file x p = some n → Chain file x p n
  | cons {p q n : Int} : nextOf file x p = some q → Chain file x q n → Chain file x p n


theorem Ask.asked_some {α : Type} {a : Ask α} {m : Int} (h : a.asked = some m) : ∃ k, a = .ask m k := by
  cases a with
  | fin r => cases h
  | ask m' k => simp only [Ask.asked, Option.some.injEq] at h; subst h; exact ⟨k, rfl⟩

/-- an indirect `/Length` the resolver does not answer is an error -/
theorem streamWithLen_none (s : Tabula.Pdf.PState) : streamWithLen s none = none := rfl

theorem parseStreamDataK_ask_none {kv : Dict} {s : Tabula.Pdf.PState} {m : Int} {k}
    (h : parseStreamDataK kv s = .ask m k) : k none = none := by
  unfold parseStreamDataK at h
  cases hd : dget kv kLength with
  | none => rw [hd] at h; cases h
  | some o =>
    rw [hd] at h
    cases o <;> simp only at h <;> try cases h
    rfl

theorem indirectBodyK_ask_none {fuel : Nat} {num gen : Int} {s : Tabula.Pdf.PState} {m : Int} {k}
    (h : indirectBodyK fuel num gen s = .ask m k) : k none = none := by
  unfold indirectBodyK at h
  cases hp : parseObject fuel 0 s with
  | error e => rw [hp] at h; cases h
  | ok r =>
    obtain ⟨o, s4⟩ := r
    rw [hp] at h
    simp only at h
    split at h
    · cases o <;> simp only at h <;> try cases h
      rename_i kv
      cases hk : parseStreamDataK kv s4 with
      | fin r => rw [hk] at h; cases h
      | ask m' k' =>
        rw [hk] at h
        simp only [Ask.map, Ask.ask.injEq] at h
        obtain ⟨_, hk2⟩ := h
        subst hk2
        simp only [parseStreamDataK_ask_none hk]
    · split at h <;> cases h

theorem parseIndirectK_ask_none {inp : Str} {m : Int} {k} (h : parseIndirectK inp = .ask m k) : k none = none := by
  unfold parseIndirectK at h
  simp only at h
  split at h
  · split at h
    · cases h
    · split at h
      · split at h
        · cases h
        · split at h
          · exact indirectBodyK_ask_none h
          · cases h
      · cases h
  · cases h

theorem uncompressedAtK_ask_none {file : Str} {n off : Int} {m : Int} {k}
    (h : uncompressedAtK file n off = .ask m k) : k none = none := by
  unfold uncompressedAtK at h
  split at h
  · cases h
  · cases hk : parseIndirectK (List.drop off.toNat file) with
    | fin r => rw [hk] at h; cases h
    | ask m' k' =>
      rw [hk] at h
      simp only [Ask.map, Ask.ask.injEq] at h
      obtain ⟨_, hk2⟩ := h
      subst hk2
      simp only [parseIndirectK_ask_none hk]


/-! ## `plainD` / `getD`: the need is the least budget -/

/-- what `plainD` yields depends on the nested lookup only at the value it uses -/
theorem plainD_transfer {file : Str} {f g : Int → Option (PVal × Nat)} {n off : Int} {w : PVal} {j : Nat}
    (h : plainD file f n off = some (w, j))
    (hfg : ∀ m v, f m = some (v, j) → g m = some (v, j)) : plainD file g n off = some (w, j) := by
  unfold plainD at h ⊢
  cases hk : uncompressedAtK file n off with
  | fin r => rw [hk] at h; exact h
  | ask m k =>
    rw [hk] at h
    simp only at h ⊢
    cases hf : f m with
    | none => rw [hf] at h; cases h
    | some r =>
      obtain ⟨v, j'⟩ := r
      rw [hf] at h
      simp only at h
      cases hkv : k (lenInt (some v)) with
      | none => rw [hkv] at h; cases h
      | some w' =>
        rw [hkv] at h
        simp only [Option.map_some, Option.some.injEq, Prod.mk.injEq] at h
        obtain ⟨hw, hj⟩ := h
        subst hj
        rw [hfg m v hf]
        simp only [hkv, Option.map_some, hw]

/-- the nested loads below a plain object are those of the object it asks for -/
theorem plainD_need {file : Str} {f : Int → Option (PVal × Nat)} {n off : Int} {w : PVal} {j b : Nat}
    (h : plainD file f n off = some (w, j)) (hf : ∀ m v i, f m = some (v, i) → i ≤ b) : j ≤ b := by
  unfold plainD at h
  cases hk : uncompressedAtK file n off with
  | fin r =>
    rw [hk] at h
    cases r with
    | none => cases h
    | some v => simp only [Option.map_some, Option.some.injEq, Prod.mk.injEq] at h; omega
  | ask m k =>
    rw [hk] at h
    simp only at h
    cases hfm : f m with
    | none => rw [hfm] at h; cases h
    | some r =>
      obtain ⟨v, j'⟩ := r
      rw [hfm] at h
      simp only at h
      cases hkv : k (lenInt (some v)) with
      | none => rw [hkv] at h; cases h
      | some w' =>
        rw [hkv] at h
        simp only [Option.map_some, Option.some.injEq, Prod.mk.injEq] at h
        have := hf m v j' hfm
        omega

/-- one step of `getD` in terms of the nested lookup -/
def stepD (ext : Reader.Ext) (file : Str) (x : RawSection) (nested : Int → Option (PVal × Nat)) (n : Int) :
    Option (PVal × Nat) :=
  match getLastI x n with
  | none => none
  | some e =>
    if e.kind = .free then none
    else if e.kind = .inUse then (plainD file nested n e.f1).map fun p => (p.1, p.2 + 1)
    else
      match getLastI x e.f1 with
      | none => none
      | some se =>
        if se.kind = .compressed then none
        else
          match plainD file nested e.f1 se.f1 with
          | some (.stream kv data, j) =>
            match Reader.mkObjStm ext kv data with
            | .ok os => (memberAtI os n e.f2).map fun o => (.obj o, j + 1)
            | .error _ => none
          | _ => none

theorem getD_succ (ext : Reader.Ext) (file : Str) (x : RawSection) (b : Nat) (n : Int) :
    getD ext file x (b + 1) n = stepD ext file x (getD ext file x b) n := by
  simp only [getD, stepD]

/-- `stepD` yields need `j + 1` from a nested need `j`, and depends on the nested lookup only there -/
theorem stepD_transfer {ext : Reader.Ext} {file : Str} {x : RawSection} {f : Int → Option (PVal × Nat)} {n : Int}
    {w : PVal} {k : Nat} (h : stepD ext file x f n = some (w, k)) :
    ∃ j, k = j + 1 ∧ ∀ g : Int → Option (PVal × Nat),
      (∀ m v, f m = some (v, j) → g m = some (v, j)) → stepD ext file x g n = some (w, k) := by
  unfold stepD at h
  simp only [stepD]
  cases he : getLastI x n with
  | none => rw [he] at h; cases h
  | some e =>
    rw [he] at h
    simp only at h ⊢
    by_cases hfree : e.kind = .free
    · simp only [hfree, if_true] at h; cases h
    · simp only [hfree, if_false] at h ⊢
      by_cases hin : e.kind = .inUse
      · simp only [hin, if_true] at h ⊢
        cases hp : plainD file f n e.f1 with
        | none => rw [hp] at h; cases h
        | some r =>
          obtain ⟨w', j⟩ := r
          rw [hp] at h
          simp only [Option.map_some, Option.some.injEq, Prod.mk.injEq] at h
          obtain ⟨hw, hk⟩ := h
          refine ⟨j, hk.symm, fun g hfg => ?_⟩
          rw [plainD_transfer hp hfg]
          simp only [Option.map_some, hw, hk]
      · simp only [hin, if_false] at h ⊢
        cases hse : getLastI x e.f1 with
        | none => rw [hse] at h; cases h
        | some se =>
          rw [hse] at h
          simp only at h ⊢
          by_cases hc : se.kind = .compressed
          · simp only [hc, if_true] at h; cases h
          · simp only [hc, if_false] at h ⊢
            cases hp : plainD file f e.f1 se.f1 with
            | none => rw [hp] at h; cases h
            | some r =>
              obtain ⟨sv, j⟩ := r
              rw [hp] at h
              cases sv with
              | obj o => cases h
              | stream kv data =>
                simp only at h
                cases hm : Reader.mkObjStm ext kv data with
                | error err => rw [hm] at h; cases h
                | ok os =>
                  rw [hm] at h
                  simp only at h
                  cases hmem : memberAtI os n e.f2 with
                  | none => rw [hmem] at h; cases h
                  | some o =>
                    rw [hmem] at h
                    simp only [Option.map_some, Option.some.injEq, Prod.mk.injEq] at h
                    obtain ⟨hw, hk⟩ := h
                    refine ⟨j, hk.symm, fun g hfg => ?_⟩
                    rw [plainD_transfer hp hfg]
                    simp only [hm, hmem, Option.map_some, hw, hk]

/-- the need reported is at least one and within the budget -/
theorem getD_need (ext : Reader.Ext) (file : Str) (x : RawSection) :
    ∀ (b : Nat) (n : Int) (v : PVal) (k : Nat), getD ext file x b n = some (v, k) → 1 ≤ k ∧ k ≤ b := by
  intro b
  induction b with
  | zero => intro n v k h; cases h
  | succ b ih =>
    intro n v k h
    rw [getD_succ] at h
    obtain ⟨j, hk, _⟩ := stepD_transfer h
    subst hk
    refine ⟨by omega, ?_⟩
    -- j is the need of a nested lookup with budget b, or 0
    unfold stepD at h
    cases he : getLastI x n with
    | none => rw [he] at h; cases h
    | some e =>
      rw [he] at h
      simp only at h
      by_cases hfree : e.kind = .free
      · simp only [hfree, if_true] at h; cases h
      · simp only [hfree, if_false] at h
        by_cases hin : e.kind = .inUse
        · simp only [hin, if_true] at h
          cases hp : plainD file (getD ext file x b) n e.f1 with
          | none => rw [hp] at h; cases h
          | some r =>
            obtain ⟨w', j'⟩ := r
            rw [hp] at h
            simp only [Option.map_some, Option.some.injEq, Prod.mk.injEq] at h
            have := plainD_need hp (fun m v i hm => (ih m v i hm).2)
            omega
        · simp only [hin, if_false] at h
          cases hse : getLastI x e.f1 with
          | none => rw [hse] at h; cases h
          | some se =>
            rw [hse] at h
            simp only at h
            by_cases hc : se.kind = .compressed
            · simp only [hc, if_true] at h; cases h
            · simp only [hc, if_false] at h
              cases hp : plainD file (getD ext file x b) e.f1 se.f1 with
              | none => rw [hp] at h; cases h
              | some r =>
                obtain ⟨sv, j'⟩ := r
                rw [hp] at h
                cases sv with
                | obj o => cases h
                | stream kv data =>
                  simp only at h
                  cases hm : Reader.mkObjStm ext kv data with
                  | error err => rw [hm] at h; cases h
                  | ok os =>
                    rw [hm] at h
                    simp only at h
                    cases hmem : memberAtI os n e.f2 with
                    | none => rw [hmem] at h; cases h
                    | some o =>
                      rw [hmem] at h
                      simp only [Option.map_some, Option.some.injEq, Prod.mk.injEq] at h
                      have := plainD_need hp (fun m v i hm => (ih m v i hm).2)
                      omega

/-- more budget never changes an answer -/
theorem getD_mono (ext : Reader.Ext) (file : Str) (x : RawSection) :
    ∀ (b : Nat) (n : Int) (r : PVal × Nat), getD ext file x b n = some r → getD ext file x (b + 1) n = some r := by
  intro b
  induction b with
  | zero => intro n r h; cases h
  | succ b ih =>
    intro n r h
    obtain ⟨w, k⟩ := r
    rw [getD_succ] at h ⊢
    obtain ⟨j, _, hg⟩ := stepD_transfer h
    exact hg _ (fun m v hm => ih m (v, j) hm)

theorem getD_mono_le (ext : Reader.Ext) (file : Str) (x : RawSection) (b b' : Nat) (hb : b ≤ b') (n : Int)
    (r : PVal × Nat) (h : getD ext file x b n = some r) : getD ext file x b' n = some r := by
  induction hb with
  | refl => exact h
  | step _ ih => exact getD_mono ext file x _ n r ih

/-- **the need is the least budget**: an answer with need `k` is already the answer with budget `k` -/
theorem getD_threshold (ext : Reader.Ext) (file : Str) (x : RawSection) :
    ∀ (b : Nat) (n : Int) (v : PVal) (k : Nat), getD ext file x b n = some (v, k) → getD ext file x k n = some (v, k) := by
  intro b
  induction b with
  | zero => intro n v k h; cases h
  | succ b ih =>
    intro n v k h
    rw [getD_succ] at h
    obtain ⟨j, hk, hg⟩ := stepD_transfer h
    subst hk
    rw [getD_succ]
    exact hg _ (fun m v' hm => ih m v' j hm)

/-- with less budget than the need there is no answer -/
theorem getD_below_need (ext : Reader.Ext) (file : Str) (x : RawSection) (b b' : Nat) (n : Int) (v : PVal) (k : Nat)
    (h : getD ext file x b n = some (v, k)) (hb : b' < k) : getD ext file x b' n = none := by
  cases h' : getD ext file x b' n with
  | none => rfl
  | some r =>
    obtain ⟨v', k'⟩ := r
    have h1 := getD_mono_le ext file x b (max b b') (Nat.le_max_left _ _) n _ h
    have h2 := getD_mono_le ext file x b' (max b b') (Nat.le_max_right _ _) n _ h'
    rw [h1] at h2
    simp only [Option.some.injEq, Prod.mk.injEq] at h2
    have := (getD_need ext file x b' n v' k' h').2
    omega

/-- the answer at any budget, from one answer: the value when the budget covers the need -/
theorem getD_of_need (ext : Reader.Ext) (file : Str) (x : RawSection) (b b' : Nat) (n : Int) (v : PVal) (k : Nat)
    (h : getD ext file x b n = some (v, k)) :
    getD ext file x b' n = if k ≤ b' then some (v, k) else none := by
  by_cases hk : k ≤ b'
  · simp only [hk, if_true]
    exact getD_mono_le ext file x k b' hk n _ (getD_threshold ext file x b n v k h)
  · simp only [hk, if_false]
    exact getD_below_need ext file x b b' n v k h (by omega)


/-! ## reference cycles through `/Length`, and `getObjectB = getD` -/

theorem Chain.snoc {file : Str} {x : RawSection} {p n m : Int} (h : Chain file x p n) (hn : nextOf file x n = some m) :
    Chain file x p m := by
  induction h with
  | one h1 => exact .cons h1 (.one hn)
  | cons h1 _ ih => exact .cons h1 (ih hn)

/-- the first step of a chain that comes back: its target is on a cycle too -/
theorem Chain.next_cycle {file : Str} {x : RawSection} {n : Int} (h : Chain file x n n) :
    ∃ q, nextOf file x n = some q ∧ Chain file x q q := by
  cases h with
  | one h1 => exact ⟨n, h1, .one h1⟩
  | cons h1 h2 => exact ⟨_, h1, h2.snoc h1⟩

/-- when the loading of `n` starts the lookup of `q` and that lookup fails, `n` fails -/
theorem stepD_next_none {ext : Reader.Ext} {file : Str} {x : RawSection} {f : Int → Option (PVal × Nat)} {n q : Int}
    (hq : nextOf file x n = some q) (hf : f q = none) : stepD ext file x f n = none := by
  unfold nextOf at hq
  unfold stepD
  cases he : getLastI x n with
  | none => rfl
  | some e =>
    rw [he] at hq
    simp only at hq ⊢
    by_cases hfree : e.kind = .free
    · simp only [hfree, if_true]
    · simp only [hfree, if_false] at hq ⊢
      by_cases hin : e.kind = .inUse
      · simp only [hin, if_true] at hq ⊢
        obtain ⟨k, hk⟩ := Ask.asked_some hq
        simp only [plainD, hk, hf, Option.map_none]
      · simp only [hin, if_false] at hq ⊢
        cases hse : getLastI x e.f1 with
        | none => rfl
        | some se =>
          rw [hse] at hq
          simp only at hq ⊢
          by_cases hc : se.kind = .compressed
          · simp only [hc, if_true]
          · simp only [hc, if_false] at hq ⊢
            obtain ⟨k, hk⟩ := Ask.asked_some hq
            simp only [plainD, hk, hf]

/-- an object whose loading leads back to itself has no answer at any budget -/
theorem getD_cycle (ext : Reader.Ext) (file : Str) (x : RawSection) :
    ∀ (b : Nat) (n : Int), Chain file x n n → getD ext file x b n = none := by
  intro b
  induction b with
  | zero => intro n _; rfl
  | succ b ih =>
    intro n h
    obtain ⟨q, hq, hqq⟩ := h.next_cycle
    rw [getD_succ]
    exact stepD_next_none hq (ih q hqq)

theorem getD_no_entry (ext : Reader.Ext) (file : Str) (x : RawSection) (b : Nat) (n : Int)
    (h : getLastI x n = none) : getD ext file x b n = none := by
  cases b with
  | zero => rfl
  | succ b => simp only [getD, h]

theorem getD_free (ext : Reader.Ext) (file : Str) (x : RawSection) (b : Nat) (n : Int) (e : RawEntry)
    (h : getLastI x n = some e) (hf : e.kind = .free) : getD ext file x b n = none := by
  cases b with
  | zero => rfl
  | succ b => simp only [getD, h, hf, if_true]

/-- `lenInt` is what `getObjectB` makes of the nested answer -/
theorem lenInt_eq (r : Option PVal) :
    (match r with
     | some (.obj (.int i)) => some i
     | _ => none) = lenInt r := by
  unfold lenInt
  cases r with
  | none => rfl
  | some v =>
    cases v with
    | obj o => cases o <;> rfl
    | stream kv data => rfl

/-- `getUncompressedObject` with a resolver that answers like `getD`'s nested lookup -/
theorem uncompressedAt_plainD (file : Str) (n off : Int) (lenOf : Int → Option Int)
    (nested : Int → Option (PVal × Nat))
    (h : ∀ m, (uncompressedAtK file n off).asked = some m → lenOf m = lenInt ((nested m).map Prod.fst)) :
    uncompressedAt file n off lenOf = (plainD file nested n off).map Prod.fst := by
  rw [uncompressedAt_K]
  unfold plainD
  cases hk : uncompressedAtK file n off with
  | fin r => cases r <;> rfl
  | ask m k =>
    rw [hk] at h
    simp only [Ask.run, h m rfl]
    cases hn : nested m with
    | none => simp only [Option.map_none, lenInt, uncompressedAtK_ask_none hk]
    | some r =>
      obtain ⟨v, j⟩ := r
      simp only [Option.map_some]
      cases k (lenInt (some v)) <;> rfl

/-- **`getObjectB` is `getD`**: on a fresh reader, with `loading` being loaded and every object
of `loading` on the way to `n`, the lookup with the `loading` set answers what the lookup
without it answers with the remaining budget -/
theorem getObjectB_eq_getD (ext : Reader.Ext) (file : Str) (x : RawSection) :
    ∀ (f : Nat) (loading : List Int) (n : Int),
      (∀ p ∈ loading, Chain file x p n) → maxNestedLoads + 1 ≤ f + loading.length →
      getObjectB ext file x f loading n = (getD ext file x (maxNestedLoads - loading.length) n).map Prod.fst := by
  intro f
  induction f with
  | zero =>
    intro loading n _ hf
    have : maxNestedLoads - loading.length = 0 := by omega
    rw [this]; rfl
  | succ f ih =>
    intro loading n hch hf
    unfold getObjectB
    cases he : getLastI x n with
    | none => rw [getD_no_entry ext file x _ n he]; rfl
    | some e =>
      simp only
      by_cases hfree : e.kind = .free
      · rw [getD_free ext file x _ n e he hfree]; simp only [hfree, if_true, Option.map_none]
      · simp only [hfree, if_false]
        by_cases hcon : loading.contains n = true
        · have hmem : n ∈ loading := by simpa using hcon
          rw [getD_cycle ext file x _ n (hch n hmem)]
          simp only [hcon, if_true, Option.map_none]
        · simp only [hcon, if_false]
          by_cases hlim : loading.length ≥ maxNestedLoads
          · have : maxNestedLoads - loading.length = 0 := by omega
            rw [this]
            simp only [hlim, if_true]; rfl
          · simp only [hlim, if_false]
            obtain ⟨b, hb⟩ : ∃ b, maxNestedLoads - loading.length = b + 1 := ⟨maxNestedLoads - loading.length - 1, by omega⟩
            have hb' : maxNestedLoads - (n :: loading).length = b := by simp only [List.length_cons]; omega
            rw [hb, getD_succ]
            -- the nested lookups, by induction
            have hnest : ∀ m, nextOf file x n = some m →
                (match getObjectB ext file x f (n :: loading) m with
                 | some (.obj (.int i)) => some i
                 | _ => none) = lenInt ((getD ext file x b m).map Prod.fst) := by
              intro m hm
              rw [lenInt_eq, ih (n :: loading) m ?_ (by simp only [List.length_cons]; omega), hb']
              intro p hp
              cases hp with
              | head => exact .one hm
              | tail _ hp' => exact (hch p hp').snoc hm
            unfold stepD
            simp only [he, hfree, if_false]
            by_cases hin : e.kind = .inUse
            · simp only [hin, if_true]
              rw [uncompressedAt_plainD file n e.f1 _ (getD ext file x b)]
              · cases plainD file (getD ext file x b) n e.f1 <;> rfl
              · intro m hm
                apply hnest m
                simp only [nextOf, he, hin, hm]
                simp
            · simp only [hin, if_false]
              cases hse : getLastI x e.f1 with
              | none => rfl
              | some se =>
                simp only
                by_cases hc : se.kind = .compressed
                · simp [hc]
                · simp only [hc]
                  rw [uncompressedAt_plainD file e.f1 se.f1 _ (getD ext file x b)]
                  · cases hp : plainD file (getD ext file x b) e.f1 se.f1 with
                    | none => rfl
                    | some r =>
                      obtain ⟨sv, j⟩ := r
                      cases sv with
                      | obj o => rfl
                      | stream kv data =>
                        simp only [Option.map_some]
                        cases Reader.mkObjStm ext kv data with
                        | error _ => simp
                        | ok os => cases hmm : memberAtI os n e.f2 <;> simp [hmm]
                  · intro m hm
                    apply hnest m
                    simp only [nextOf, he, hfree, hin, if_false, hse, hc, hm]

/-- a lookup from outside: `getObjectB` with an empty `loading` set is `getD` with the whole budget -/
theorem getObjectB_top (ext : Reader.Ext) (file : Str) (x : RawSection) (n : Int) :
    getObjectB ext file x (maxNestedLoads + 1) [] n = (getD ext file x maxNestedLoads n).map Prod.fst := by
  have := getObjectB_eq_getD ext file x (maxNestedLoads + 1) [] n (fun p hp => by cases hp) (by simp)
  simpa using this

end Tabula.XrefC
