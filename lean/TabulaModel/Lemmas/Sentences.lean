import TabulaModel.Model.Sentences
import TabulaModel.Lemmas.OverlapFull
/-!
C13, deepening round: the sentence splitter and the sentence / paragraph packing of
`rag/chunker.go` conserve the non-whitespace content and UTF-8 validity
(`Model/Sentences.lean`).
-/
set_option linter.unusedVariables false
namespace Tabula.Sentences
open Tabula.Split Tabula.Overlap

/-! ### `splitIntoSentences` -/

theorem emitTrim_eq (acc : List Str) (x : Str) : emitTrim acc x = emit x ++ acc := by
  unfold emitTrim emit
  split <;> simp

theorem emit_ne_nil (x : Str) : ∀ t ∈ emit x, t ≠ [] := by
  unfold emit
  split
  · simp
  · rename_i h; intro t ht; simp at ht; subst ht; exact h

theorem emit_reverse (x : Str) : (emit x).reverse = emit x := by
  unfold emit; split <;> simp

/-- "skip if followed by lowercase letter" -/
def nextLower (cl : Classes) : List Nat → Bool
  | next :: _ => isLower cl next
  | [] => false

theorem sentLoop_cons (cl : Classes) (r : Nat) (rest : List Nat) (i : Nat) (cur : Str) (acc : List Str) :
    sentLoop cl (r :: rest) i cur acc =
      if (r == 46 || r == 33 || r == 63) = true then
        if nextLower cl rest = true then sentLoop cl rest (i + 1) ((encodeRune r).reverse ++ cur) acc
        else if afterCapital i ((encodeRune r).reverse ++ cur) = true then
          sentLoop cl rest (i + 1) ((encodeRune r).reverse ++ cur) acc
        else sentLoop cl rest (i + 1) [] (emitTrim acc ((encodeRune r).reverse ++ cur).reverse)
      else sentLoop cl rest (i + 1) ((encodeRune r).reverse ++ cur) acc := by
  cases rest <;> rfl

theorem packLoop_cons (max : Nat) (s : Str) (rest : List Str) (cur : Str) (acc : List Str) :
    packLoop max (s :: rest) cur acc =
      if cur.length + (s.length + (if cur ≠ [] then 1 else 0)) > max ∧ cur ≠ [] then
        packLoop max rest s (cur :: acc)
      else packLoop max rest ((if cur ≠ [] then cur ++ [32] else cur) ++ s) acc := rfl

/-- whatever the heuristics decide, the sentences are trimmed consecutive segments of the
re-encoded text -/
theorem sentLoop_pieces (cl : Classes) (rs : List Nat) (i : Nat) (cur : Str) (acc : List Str)
    (hc : validUtf8 cur.reverse = true) :
    ∃ rest, sentLoop cl rs i cur acc = acc.reverse ++ rest
      ∧ Pieces (cur.reverse ++ encodeRunes rs) rest
      ∧ ∀ t ∈ rest, validUtf8 t = true ∧ t ≠ [] := by
  induction rs generalizing i cur acc with
  | nil =>
    refine ⟨emit cur.reverse, ?_, ?_, fun t ht => ⟨emit_valid _ hc t ht, emit_ne_nil _ t ht⟩⟩
    · simp [sentLoop, emitTrim_eq, emit_reverse]
    · simpa [encodeRunes] using emit_pieces cur.reverse
  | cons r rest ih =>
    have hc' : validUtf8 ((encodeRune r).reverse ++ cur).reverse = true := by
      rw [List.reverse_append, List.reverse_reverse]
      exact validUtf8_append _ _ hc (valid_encodeRune r)
    have htext : cur.reverse ++ encodeRunes (r :: rest)
        = ((encodeRune r).reverse ++ cur).reverse ++ encodeRunes rest := by
      rw [encodeRunes_cons, List.reverse_append, List.reverse_reverse, List.append_assoc]
    rw [htext, sentLoop_cons]
    by_cases hp : (r == 46 || r == 33 || r == 63) = true
    · rw [if_pos hp]
      by_cases hl : nextLower cl rest = true
      · rw [if_pos hl]; exact ih (i + 1) _ acc hc'
      · rw [if_neg hl]
        by_cases hcap : afterCapital i ((encodeRune r).reverse ++ cur) = true
        · rw [if_pos hcap]; exact ih (i + 1) _ acc hc'
        · rw [if_neg hcap]
          obtain ⟨rest', e, hp, hv⟩ := ih (i + 1) [] (emitTrim acc ((encodeRune r).reverse ++ cur).reverse)
            (by simpa using validUtf8_nil)
          refine ⟨emit ((encodeRune r).reverse ++ cur).reverse ++ rest', ?_, ?_, ?_⟩
          · rw [e, emitTrim_eq, List.reverse_append, emit_reverse, List.append_assoc]
          · apply Pieces.append (emit_pieces _)
            simpa using hp
          · intro t ht
            rcases List.mem_append.mp ht with ht | ht
            · exact ⟨emit_valid _ hc' t ht, emit_ne_nil _ t ht⟩
            · exact hv t ht
    · rw [if_neg hp]; exact ih (i + 1) _ acc hc'

theorem splitIntoSentences_pieces (cl : Classes) (text : Str) :
    Pieces (encodeRunes (decodeRunes text)) (splitIntoSentences cl text)
      ∧ ∀ t ∈ splitIntoSentences cl text, validUtf8 t = true ∧ t ≠ [] := by
  unfold splitIntoSentences
  obtain ⟨rest, e, hp, hv⟩ := sentLoop_pieces cl (decodeRunes text) 0 [] [] (by simpa using validUtf8_nil)
  rw [e]
  simp only [List.reverse_nil, List.nil_append] at hp ⊢
  exact ⟨hp, hv⟩

theorem splitIntoSentences_content (cl : Classes) (text : Str) (hv : validUtf8 text = true) :
    (splitIntoSentences cl text).flatMap stripWs = stripWs text := by
  obtain ⟨hp, hval⟩ := splitIntoSentences_pieces cl text
  rw [encode_decode text hv] at hp
  exact hp.stripWs_eq fun t ht => (hval t ht).1

/-! ### `splitBySentences` -/

theorem packLoop_content (max : Nat) (ss : List Str) (cur : Str) (acc : List Str)
    (hs : ∀ s ∈ ss, validUtf8 s = true) (hc : validUtf8 cur = true) (ha : ∀ a ∈ acc, validUtf8 a = true) :
    (packLoop max ss cur acc).flatMap stripWs
        = acc.reverse.flatMap stripWs ++ stripWs cur ++ ss.flatMap stripWs
      ∧ ∀ o ∈ packLoop max ss cur acc, validUtf8 o = true := by
  induction ss generalizing cur acc with
  | nil =>
    unfold packLoop
    by_cases h : cur ≠ []
    · rw [if_pos h]
      constructor
      · simp
      · intro o ho
        rw [List.mem_reverse] at ho
        rcases List.mem_cons.mp ho with ho | ho
        · subst ho; exact hc
        · exact ha o ho
    · rw [if_neg h]
      have h' : cur = [] := by simpa using h
      subst h'
      exact ⟨by simp [stripWs_nil], fun o ho => ha o (List.mem_reverse.mp ho)⟩
  | cons s rest ih =>
    have hsv := hs s (List.mem_cons_self ..)
    have hrest : ∀ x ∈ rest, validUtf8 x = true := fun x hx => hs x (List.mem_cons_of_mem _ hx)
    rw [packLoop_cons]
    by_cases hfl : cur.length + (s.length + (if cur ≠ [] then 1 else 0)) > max ∧ cur ≠ []
    · rw [if_pos hfl]
      obtain ⟨h1, h2⟩ := ih s (cur :: acc) hrest hsv (by
        intro a ha'
        rcases List.mem_cons.mp ha' with h | h
        · subst h; exact hc
        · exact ha a h)
      refine ⟨?_, h2⟩
      rw [h1]
      simp [List.append_assoc]
    · rw [if_neg hfl]
      have hcur : validUtf8 (if cur ≠ [] then cur ++ [32] else cur) = true := by
        split
        · exact validUtf8_append _ _ hc (valid_wsOnly wsOnly_space)
        · exact hc
      have hcs : stripWs (if cur ≠ [] then cur ++ [32] else cur) = stripWs cur := by
        split
        · rw [stripWs_valid_append _ _ hc, stripWs_wsOnly wsOnly_space, List.append_nil]
        · rfl
      obtain ⟨h1, h2⟩ := ih ((if cur ≠ [] then cur ++ [32] else cur) ++ s) acc hrest
        (validUtf8_append _ _ hcur hsv) ha
      refine ⟨?_, h2⟩
      rw [h1, stripWs_valid_append _ _ hcur, hcs]
      simp [List.append_assoc]

/-- every packed chunk is within the maximum or is one single sentence -/
theorem packLoop_bound (max : Nat) (all ss : List Str) (cur : Str) (acc : List Str)
    (hss : ∀ s ∈ ss, s ∈ all)
    (hc : cur = [] ∨ cur.length ≤ max ∨ cur ∈ all)
    (ha : ∀ a ∈ acc, a.length ≤ max ∨ a ∈ all) :
    ∀ o ∈ packLoop max ss cur acc, o.length ≤ max ∨ o ∈ all := by
  induction ss generalizing cur acc with
  | nil =>
    unfold packLoop
    intro o ho
    rw [List.mem_reverse] at ho
    split at ho
    · rename_i h
      rcases List.mem_cons.mp ho with ho | ho
      · subst ho
        rcases hc with h0 | h1
        · exact absurd h0 h
        · exact h1
      · exact ha o ho
    · exact ha o ho
  | cons s rest ih =>
    have hsm := hss s (List.mem_cons_self ..)
    have hrest : ∀ x ∈ rest, x ∈ all := fun x hx => hss x (List.mem_cons_of_mem _ hx)
    rw [packLoop_cons]
    by_cases hfl : cur.length + (s.length + (if cur ≠ [] then 1 else 0)) > max ∧ cur ≠ []
    · rw [if_pos hfl]
      apply ih s (cur :: acc) hrest (Or.inr (Or.inr hsm))
      intro a ha'
      rcases List.mem_cons.mp ha' with h | h
      · subst h
        rcases hc with h0 | h1
        · exact absurd h0 hfl.2
        · exact h1
      · exact ha a h
    · rw [if_neg hfl]
      apply ih _ acc hrest _ ha
      by_cases hne : cur ≠ []
      · right; left
        rw [if_pos hne]
        have : ¬ (cur.length + (s.length + (if cur ≠ [] then 1 else 0)) > max) := fun h => hfl ⟨h, hne⟩
        rw [if_pos hne] at this
        simp only [List.length_append, List.length_cons, List.length_nil]
        omega
      · have h' : cur = [] := by simpa using hne
        subst h'
        right; right
        simpa using hsm

/-! ### `splitSectionByParagraphs` -/

/-- invariant of the paragraph loop: chunks and pending text are valid and carry `content` -/
def PInv (content : Str) (s : PState) : Prop :=
  (∀ p ∈ s.chunks, validUtf8 p = true) ∧ validUtf8 s.cur = true
    ∧ s.chunks.flatMap stripWs ++ stripWs s.cur = content

theorem flushChunk_inv (max min : Nat) (content : Str) (s : PState) (h : PInv content s) :
    PInv content (flushChunk max min s) ∧ stripWs (flushChunk max min s).cur = [] := by
  obtain ⟨h1, h2, h3⟩ := h
  unfold flushChunk
  split
  · rename_i ht
    exact ⟨⟨h1, h2, h3⟩, stripWs_wsOnly (wsOnly_of_trimSpace_nil _ ht)⟩
  · have happ : PInv content { chunks := s.chunks ++ [s.cur], cur := [] } := by
      refine ⟨?_, validUtf8_nil, ?_⟩
      · intro p hp
        rcases List.mem_append.mp hp with hp | hp
        · exact h1 p hp
        · simp at hp; subst hp; exact h2
      · simp [stripWs_nil, h3]
    split
    · rename_i prev hprev
      split
      · have hd : s.chunks.dropLast ++ [prev] = s.chunks := by
          obtain ⟨ys, e⟩ := List.getLast?_eq_some_iff.mp hprev
          rw [e]; simp
        have hpv : validUtf8 prev = true := h1 prev (by rw [← hd]; simp)
        refine ⟨⟨?_, validUtf8_nil, ?_⟩, stripWs_nil⟩
        · intro p hp
          rcases List.mem_append.mp hp with hp | hp
          · exact h1 p (List.dropLast_subset _ hp)
          · simp at hp; subst hp
            have := validUtf8_append (prev ++ [10, 10]) _ (validUtf8_append _ _ hpv (valid_wsOnly wsOnly_nlnl)) h2
            simpa [List.append_assoc] using this
        · simp only [List.flatMap_append, List.flatMap_cons, List.flatMap_nil, List.append_nil,
            stripWs_nil]
          rw [List.append_assoc prev, stripWs_valid_append prev _ hpv, stripWs_wsOnly_append wsOnly_nlnl,
            ← h3]
          conv => rhs; rw [← hd]
          simp [List.append_assoc]
      · exact ⟨happ, stripWs_nil⟩
    · exact ⟨happ, stripWs_nil⟩

theorem splitBySentences_content (cl : Classes) (max : Nat) (e : Str) (hv : validUtf8 e = true) :
    (splitBySentences cl max e).flatMap stripWs = stripWs e
      ∧ ∀ o ∈ splitBySentences cl max e, validUtf8 o = true := by
  unfold splitBySentences
  obtain ⟨h1, h2⟩ := packLoop_content max (splitIntoSentences cl e) [] []
    (fun s hs => ((splitIntoSentences_pieces cl e).2 s hs).1) validUtf8_nil (by simp)
  refine ⟨?_, h2⟩
  rw [h1, splitIntoSentences_content cl e hv]
  simp [stripWs_nil]

theorem paraStep_inv (cl : Classes) (max min : Nat) (content : Str) (s : PState) (e : Str)
    (he : validUtf8 e = true) (h : PInv content s) :
    PInv (content ++ stripWs e) (paraStep cl max min s e) := by
  unfold paraStep
  simp only
  have h1 : PInv content (if s.cur.length + (e.length + (if s.cur ≠ [] then 2 else 0)) > max ∧ s.cur ≠ []
      then flushChunk max min s else s) := by
    by_cases hc : s.cur.length + (e.length + (if s.cur ≠ [] then 2 else 0)) > max ∧ s.cur ≠ []
    · rw [if_pos hc]; exact (flushChunk_inv max min content s h).1
    · rw [if_neg hc]; exact h
  generalize (if s.cur.length + (e.length + (if s.cur ≠ [] then 2 else 0)) > max ∧ s.cur ≠ []
      then flushChunk max min s else s) = s1 at h1
  split
  · have h2 : PInv content (if s1.cur ≠ [] then flushChunk max min s1 else s1)
        ∧ stripWs (if s1.cur ≠ [] then flushChunk max min s1 else s1).cur = [] := by
      split
      · exact flushChunk_inv max min content s1 h1
      · rename_i hc
        have hc' : s1.cur = [] := by simpa using hc
        exact ⟨h1, by rw [hc', stripWs_nil]⟩
    generalize (if s1.cur ≠ [] then flushChunk max min s1 else s1) = s2 at h2
    obtain ⟨⟨g1, g2, g3⟩, hz⟩ := h2
    obtain ⟨p1, p2⟩ := splitBySentences_content cl max e he
    refine ⟨?_, g2, ?_⟩
    · intro p hp
      rcases List.mem_append.mp hp with hp | hp
      · exact g1 p hp
      · exact p2 p hp
    · simp only [List.flatMap_append]
      rw [p1, hz, List.append_nil, ← g3, hz, List.append_nil]
  · obtain ⟨g1, g2, g3⟩ := h1
    have hcur : validUtf8 (if s1.cur ≠ [] then s1.cur ++ [10, 10] else s1.cur) = true := by
      split
      · exact validUtf8_append _ _ g2 (valid_wsOnly wsOnly_nlnl)
      · exact g2
    have hcs : stripWs (if s1.cur ≠ [] then s1.cur ++ [10, 10] else s1.cur) = stripWs s1.cur := by
      split
      · rw [stripWs_valid_append _ _ g2, stripWs_wsOnly wsOnly_nlnl, List.append_nil]
      · rfl
    refine ⟨g1, validUtf8_append _ _ hcur he, ?_⟩
    simp only
    rw [stripWs_valid_append _ _ hcur, hcs, ← List.append_assoc, g3]

theorem paraFold_inv (cl : Classes) (max min : Nat) (paras : List Str)
    (hv : ∀ p ∈ paras, validUtf8 p = true) (content : Str) (s : PState) (h : PInv content s) :
    PInv (content ++ paras.flatMap stripWs) (paras.foldl (paraStep cl max min) s) := by
  induction paras generalizing content s with
  | nil => simpa using h
  | cons e rest ih =>
    rw [List.foldl_cons, List.flatMap_cons, ← List.append_assoc]
    exact ih (fun x hx => hv x (List.mem_cons_of_mem _ hx)) _ _
      (paraStep_inv cl max min content s e (hv e (List.mem_cons_self ..)) h)

theorem splitSectionByParagraphs_content (cl : Classes) (max min : Nat) (paras : List Str)
    (hv : ∀ p ∈ paras, validUtf8 p = true) :
    (splitSectionByParagraphs cl max min paras).flatMap stripWs = paras.flatMap stripWs
      ∧ ∀ o ∈ splitSectionByParagraphs cl max min paras, validUtf8 o = true := by
  unfold splitSectionByParagraphs
  have inv := paraFold_inv cl max min paras hv [] { chunks := [], cur := [] }
    ⟨by simp, validUtf8_nil, by simp [stripWs_nil]⟩
  obtain ⟨⟨g1, g2, g3⟩, hz⟩ := flushChunk_inv max min _ _ inv
  refine ⟨?_, g1⟩
  rw [hz, List.append_nil, List.nil_append] at g3
  exact g3

/-! ### the size of the chunks of `splitSectionByParagraphs` -/

/-- invariant for the size bound: emitted chunks and the pending text are within the maximum,
the pending text is valid and, unless empty, has a non-whitespace character -/
def PBound (max : Nat) (s : PState) : Prop :=
  (∀ p ∈ s.chunks, p.length ≤ max) ∧ s.cur.length ≤ max ∧ validUtf8 s.cur = true
    ∧ (s.cur ≠ [] → stripWs s.cur ≠ [])

theorem flushChunk_bound (max min : Nat) (s : PState) (h : PBound max s) :
    PBound max (flushChunk max min s) ∧ (flushChunk max min s).cur = [] := by
  obtain ⟨h1, h2, h3, h4⟩ := h
  unfold flushChunk
  split
  · rename_i ht
    have hc : s.cur = [] := by
      apply Classical.byContradiction
      intro hne
      exact h4 hne (stripWs_wsOnly (wsOnly_of_trimSpace_nil _ ht))
    exact ⟨⟨h1, h2, h3, h4⟩, hc⟩
  · have happ : PBound max { chunks := s.chunks ++ [s.cur], cur := [] } := by
      refine ⟨?_, Nat.zero_le _, validUtf8_nil, fun h => absurd rfl h⟩
      intro p hp
      rcases List.mem_append.mp hp with hp | hp
      · exact h1 p hp
      · simp at hp; subst hp; exact h2
    split
    · rename_i prev hprev
      split
      · rename_i hm
        refine ⟨⟨?_, Nat.zero_le _, validUtf8_nil, fun h => absurd rfl h⟩, rfl⟩
        intro p hp
        rcases List.mem_append.mp hp with hp | hp
        · exact h1 p (List.dropLast_subset _ hp)
        · simp at hp; subst hp
          simp only [List.length_append, List.length_cons, List.length_nil]
          omega
      · exact ⟨happ, rfl⟩
    · exact ⟨happ, rfl⟩

theorem splitBySentences_bound (cl : Classes) (max : Nat) (e : Str)
    (hs : ∀ t ∈ splitIntoSentences cl e, t.length ≤ max) :
    ∀ o ∈ splitBySentences cl max e, o.length ≤ max := by
  intro o ho
  unfold splitBySentences at ho
  rcases packLoop_bound max (splitIntoSentences cl e) (splitIntoSentences cl e) [] []
    (fun s hs => hs) (Or.inl rfl) (by simp) o ho with h | h
  · exact h
  · exact hs o h

theorem paraStep_bound (cl : Classes) (max min : Nat) (s : PState) (e : Str)
    (hv : validUtf8 e = true) (hne : stripWs e ≠ [])
    (hs : e.length > max → ∀ t ∈ splitIntoSentences cl e, t.length ≤ max)
    (h : PBound max s) : PBound max (paraStep cl max min s e) := by
  unfold paraStep
  simp only
  have h1 : PBound max (if s.cur.length + (e.length + (if s.cur ≠ [] then 2 else 0)) > max ∧ s.cur ≠ []
        then flushChunk max min s else s)
      ∧ ((if s.cur.length + (e.length + (if s.cur ≠ [] then 2 else 0)) > max ∧ s.cur ≠ []
        then flushChunk max min s else s).cur = []
        ∨ (if s.cur.length + (e.length + (if s.cur ≠ [] then 2 else 0)) > max ∧ s.cur ≠ []
        then flushChunk max min s else s).cur.length + e.length + 2 ≤ max) := by
    by_cases hc : s.cur.length + (e.length + (if s.cur ≠ [] then 2 else 0)) > max ∧ s.cur ≠ []
    · rw [if_pos hc]
      exact ⟨(flushChunk_bound max min s h).1, Or.inl (flushChunk_bound max min s h).2⟩
    · rw [if_neg hc]
      refine ⟨h, ?_⟩
      by_cases hcur : s.cur = []
      · exact Or.inl hcur
      · right
        have : ¬ (s.cur.length + (e.length + (if s.cur ≠ [] then 2 else 0)) > max) := fun hh => hc ⟨hh, hcur⟩
        rw [if_pos hcur] at this
        omega
  generalize (if s.cur.length + (e.length + (if s.cur ≠ [] then 2 else 0)) > max ∧ s.cur ≠ []
      then flushChunk max min s else s) = s1 at h1
  obtain ⟨hb, hfit⟩ := h1
  split
  · rename_i hbig
    have h2 : PBound max (if s1.cur ≠ [] then flushChunk max min s1 else s1) := by
      split
      · exact (flushChunk_bound max min s1 hb).1
      · exact hb
    generalize (if s1.cur ≠ [] then flushChunk max min s1 else s1) = s2 at h2
    obtain ⟨g1, g2, g3, g4⟩ := h2
    refine ⟨?_, g2, g3, g4⟩
    intro p hp
    rcases List.mem_append.mp hp with hp | hp
    · exact g1 p hp
    · exact splitBySentences_bound cl max e (hs hbig) p hp
  · rename_i hsmall
    obtain ⟨g1, g2, g3, g4⟩ := hb
    have hcur : validUtf8 (if s1.cur ≠ [] then s1.cur ++ [10, 10] else s1.cur) = true := by
      split
      · exact validUtf8_append _ _ g3 (valid_wsOnly wsOnly_nlnl)
      · exact g3
    refine ⟨g1, ?_, validUtf8_append _ _ hcur hv, ?_⟩
    · simp only
      rcases hfit with hf | hf
      · rw [hf]; simp; omega
      · split
        · simp only [List.length_append, List.length_cons, List.length_nil]; omega
        · simp only [List.length_append]; omega
    · intro _
      simp only
      rw [stripWs_valid_append _ _ hcur]
      intro hz
      exact hne (List.append_eq_nil_iff.mp hz).2

theorem paraFold_bound (cl : Classes) (max min : Nat) (paras : List Str)
    (hv : ∀ p ∈ paras, validUtf8 p = true) (hne : ∀ p ∈ paras, stripWs p ≠ [])
    (hs : ∀ p ∈ paras, p.length > max → ∀ t ∈ splitIntoSentences cl p, t.length ≤ max)
    (s : PState) (h : PBound max s) : PBound max (paras.foldl (paraStep cl max min) s) := by
  induction paras generalizing s with
  | nil => exact h
  | cons e rest ih =>
    rw [List.foldl_cons]
    exact ih (fun x hx => hv x (List.mem_cons_of_mem _ hx)) (fun x hx => hne x (List.mem_cons_of_mem _ hx))
      (fun x hx => hs x (List.mem_cons_of_mem _ hx)) _
      (paraStep_bound cl max min s e (hv e (List.mem_cons_self ..)) (hne e (List.mem_cons_self ..))
        (hs e (List.mem_cons_self ..)) h)

theorem splitSectionByParagraphs_bound (cl : Classes) (max min : Nat) (paras : List Str)
    (hv : ∀ p ∈ paras, validUtf8 p = true) (hne : ∀ p ∈ paras, stripWs p ≠ [])
    (hs : ∀ p ∈ paras, p.length > max → ∀ t ∈ splitIntoSentences cl p, t.length ≤ max) :
    ∀ o ∈ splitSectionByParagraphs cl max min paras, o.length ≤ max := by
  unfold splitSectionByParagraphs
  have inv := paraFold_bound cl max min paras hv hne hs { chunks := [], cur := [] }
    ⟨by simp, Nat.zero_le _, validUtf8_nil, fun h => absurd rfl h⟩
  exact (flushChunk_bound max min _ inv).1.1

theorem chunkParagraphDoc_bound (cl : Classes) (max min : Nat) (paras : List Str)
    (hv : ∀ p ∈ paras, validUtf8 p = true) (hne : ∀ p ∈ paras, stripWs p ≠ [])
    (hs : ∀ p ∈ paras, p.length > max → ∀ t ∈ splitIntoSentences cl p, t.length ≤ max) :
    ∀ o ∈ chunkParagraphDoc cl max min paras, o.length ≤ max := by
  have hsplit := splitSectionByParagraphs_bound cl max min paras hv hne hs
  have hsec : ∀ o ∈ chunkSection cl max min paras, o.length ≤ max := by
    unfold chunkSection
    simp only
    split
    · simp
    · split
      · rename_i hfit
        intro o ho; simp at ho; subst ho; exact hfit
      · exact hsplit
  unfold chunkParagraphDoc
  split
  · simp
  · simp only
    split
    · exact hsplit
    · exact hsec

/-- the titles `ChunkWithOverlapEnabled` passes for a paragraph document are empty -/
theorem zip_empty_titles (own : List Str) :
    own.zip ([] ++ List.replicate (own.length - ([] : List Str).length) []) = own.map fun t => (t, ([] : Str)) := by
  simp only [List.nil_append, List.length_nil, Nat.sub_zero]
  induction own with
  | nil => rfl
  | cons a rest ih => simp [List.replicate_succ, ih]

/-! ### texts without sentence punctuation -/

/-- no sentence punctuation among the runes -/
def NoPunct (rs : List Nat) : Prop := ∀ r ∈ rs, (r == 46 || r == 33 || r == 63) = false

theorem sentLoop_noPunct (cl : Classes) (rs : List Nat) (h : NoPunct rs) (i : Nat) (cur : Str) (acc : List Str) :
    sentLoop cl rs i cur acc = (emitTrim acc (cur.reverse ++ encodeRunes rs)).reverse := by
  induction rs generalizing i cur with
  | nil => simp [sentLoop, encodeRunes]
  | cons r rest ih =>
    have hr := h r (List.mem_cons_self ..)
    rw [sentLoop_cons, hr]
    simp only [Bool.false_eq_true, if_false]
    rw [ih (fun x hx => h x (List.mem_cons_of_mem _ hx))]
    simp [encodeRunes_cons, List.append_assoc]

/-- a text without `.`, `!`, `?` is one sentence, however long -/
theorem splitIntoSentences_noPunct (cl : Classes) (text : Str) (hv : validUtf8 text = true)
    (h : NoPunct (decodeRunes text)) : splitIntoSentences cl text = emit text := by
  unfold splitIntoSentences
  rw [sentLoop_noPunct cl _ h]
  simp only [List.reverse_nil, List.nil_append, encode_decode text hv, emitTrim_eq, List.append_nil]
  exact emit_reverse text

theorem packLoop_single (max : Nat) (s : Str) (hs : s ≠ []) : packLoop max [s] [] [] = [s] := by
  simp [packLoop, hs]

theorem splitBySentences_noPunct (cl : Classes) (max : Nat) (text : Str) (hv : validUtf8 text = true)
    (h : NoPunct (decodeRunes text)) (hne : trimSpace text ≠ []) :
    splitBySentences cl max text = [trimSpace text] := by
  unfold splitBySentences
  rw [splitIntoSentences_noPunct cl text hv h]
  unfold emit
  rw [if_neg hne]
  exact packLoop_single max _ hne

end Tabula.Sentences
