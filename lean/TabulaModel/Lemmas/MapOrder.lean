import TabulaModel.Model.MapOrder
/-!
Lemmas for `Model/MapOrder.lean`: a result computed by ranging over a Go map does not depend on
the iteration order (any permutation of the entries), nor on which sorting algorithm the stdlib
uses (any function returning a sorted rearrangement).
-/
namespace Tabula.MapOrder

/-! ### sorting -/

theorem leInt_trans (a b c : Int) (h1 : leInt a b = true) (h2 : leInt b c = true) : leInt a c = true := by
  simp only [leInt, decide_eq_true_eq] at *; omega

theorem leInt_total (a b : Int) : (leInt a b || leInt b a) = true := by
  simp only [leInt, Bool.or_eq_true, decide_eq_true_eq]; omega

theorem leInt_antisymm (a b : Int) (h1 : leInt a b = true) (h2 : leInt b a = true) : a = b := by
  simp only [leInt, decide_eq_true_eq] at *; omega

/-- `List.mergeSort` is a sort -/
theorem isSort_mergeSort {α : Type} (le : α → α → Bool)
    (trans : ∀ a b c, le a b = true → le b c = true → le a c = true)
    (total : ∀ a b, (le a b || le b a) = true) : IsSort le (fun l => l.mergeSort le) where
  perm l := List.mergeSort_perm l le
  sorted l := List.pairwise_mergeSort (le := le) trans total l

theorem insertInt_perm (x : Int) (l : List Int) : (insertInt x l).Perm (x :: l) := by
  induction l with
  | nil => exact List.Perm.refl _
  | cons y ys ih =>
    simp only [insertInt]
    split
    · exact List.Perm.refl _
    · exact (List.Perm.cons y ih).trans (List.Perm.swap x y ys)

theorem insertInt_sorted (x : Int) (l : List Int) (h : l.Pairwise (fun a b => leInt a b = true)) :
    (insertInt x l).Pairwise (fun a b => leInt a b = true) := by
  induction l with
  | nil => simp [insertInt]
  | cons y ys ih =>
    simp only [insertInt]
    have hy := List.pairwise_cons.mp h
    split
    · rename_i hxy
      refine List.pairwise_cons.mpr ⟨?_, h⟩
      intro b hb
      rcases List.mem_cons.mp hb with rfl | hb
      · simpa [leInt] using hxy
      · have := hy.1 b hb
        simp only [leInt, decide_eq_true_eq] at *; omega
    · rename_i hxy
      refine List.pairwise_cons.mpr ⟨?_, ih hy.2⟩
      intro b hb
      rcases List.mem_cons.mp ((insertInt_perm x ys).subset hb) with rfl | hb
      · simp only [leInt, decide_eq_true_eq]; omega
      · exact hy.1 b hb

theorem isSort_sortInts : IsSort leInt sortInts where
  perm l := by
    induction l with
    | nil => exact List.Perm.refl _
    | cons x xs ih => exact (insertInt_perm x _).trans (List.Perm.cons x ih)
  sorted l := by
    induction l with
    | nil => simp [sortInts]
    | cons x xs ih => exact insertInt_sorted x _ ih

/-- two sorts (whatever their algorithms) agree on any two arrangements of the same elements,
provided elements that compare equal both ways are equal -/
theorem sort_unique {α : Type} {le : α → α → Bool} {s₁ s₂ : List α → List α}
    (anti : ∀ a b, le a b = true → le b a = true → a = b)
    (h₁ : IsSort le s₁) (h₂ : IsSort le s₂) {l₁ l₂ : List α} (p : l₁.Perm l₂) : s₁ l₁ = s₂ l₂ :=
  List.Perm.eq_of_pairwise (le := fun a b => le a b = true) (fun a b _ _ => anti a b) (h₁.sorted l₁) (h₂.sorted l₂)
    ((h₁.perm l₁).trans (p.trans (h₂.perm l₂).symm))

theorem sortInts_unique {s₁ s₂ : List Int → List Int} (h₁ : IsSort leInt s₁) (h₂ : IsSort leInt s₂)
    {l₁ l₂ : List Int} (p : l₁.Perm l₂) : s₁ l₁ = s₂ l₂ :=
  sort_unique leInt_antisymm h₁ h₂ p

/-! ### finite maps -/

theorem set_comm {κ β : Type} [DecidableEq κ] (m : FMap κ β) (k1 k2 : κ) (v1 v2 : β) (h : k1 ≠ k2) :
    (m.set k1 v1).set k2 v2 = (m.set k2 v2).set k1 v1 := by
  funext x
  simp only [FMap.set]
  by_cases h1 : x = k1
  · subst h1; simp [h]
  · by_cases h2 : x = k2
    · subst h2; simp [h1]
    · simp [h1, h2]

theorem erase_comm {κ β : Type} [DecidableEq κ] (m : FMap κ β) (k1 k2 : κ) :
    (m.erase k1).erase k2 = (m.erase k2).erase k1 := by
  funext x
  simp only [FMap.erase]
  by_cases h1 : x = k1 <;> by_cases h2 : x = k2 <;> simp [h1, h2]

/-- two entries of a list whose keys are distinct are equal when their keys are -/
theorem eq_of_nodup_keys {κ β : Type} (l : List (κ × β)) (hnd : (l.map Prod.fst).Nodup)
    (x y : κ × β) (hx : x ∈ l) (hy : y ∈ l) (h : x.1 = y.1) : x = y := by
  induction l with
  | nil => cases hx
  | cons a as ih =>
    simp only [List.map_cons, List.nodup_cons] at hnd
    rcases List.mem_cons.mp hx with rfl | hx' <;> rcases List.mem_cons.mp hy with rfl | hy'
    · rfl
    · exact absurd (h ▸ List.mem_map_of_mem (f := Prod.fst) hy') hnd.1
    · exact absurd (h ▸ List.mem_map_of_mem (f := Prod.fst) hx') hnd.1
    · exact ih hnd.2 hx' hy'

/-- **copy loops**: the map produced by `for k, v := range src { dst[k] = f(v) }` is the same for
every iteration order of `src` -/
theorem copyAll_order_free {κ β γ : Type} [DecidableEq κ] (f : β → γ) (it₁ it₂ : List (κ × β))
    (p : it₁.Perm it₂) (hnd : (it₁.map Prod.fst).Nodup) (dst : FMap κ γ) :
    copyAll f it₁ dst = copyAll f it₂ dst := by
  unfold copyAll
  apply List.Perm.foldl_eq' p
  intro x hx y hy z
  by_cases hxy : x = y
  · subst hxy; rfl
  · exact set_comm z x.1 y.1 (f x.2) (f y.2) (fun h => hxy (eq_of_nodup_keys it₁ hnd x y hx hy h))

theorem copySome_order_free {κ β γ : Type} [DecidableEq κ] (f : β → Option γ) (it₁ it₂ : List (κ × β))
    (p : it₁.Perm it₂) (hnd : (it₁.map Prod.fst).Nodup) (dst : FMap κ γ) :
    copySome f it₁ dst = copySome f it₂ dst := by
  unfold copySome
  apply List.Perm.foldl_eq' p
  intro x hx y hy z
  by_cases hxy : x = y
  · subst hxy; rfl
  · have hk : x.1 ≠ y.1 := fun h => hxy (eq_of_nodup_keys it₁ hnd x y hx hy h)
    cases f x.2 <;> cases f y.2 <;> simp only []
    exact set_comm z x.1 y.1 _ _ hk

/-- what a copy loop leaves at a key that is not among the copied ones -/
theorem copyAll_not_mem {κ β γ : Type} [DecidableEq κ] (f : β → γ) (it : List (κ × β)) (dst : FMap κ γ)
    (k : κ) (h : k ∉ it.map Prod.fst) : copyAll f it dst k = dst k := by
  induction it generalizing dst with
  | nil => rfl
  | cons e es ih =>
    simp only [List.map_cons, List.mem_cons, not_or] at h
    simp only [copyAll, List.foldl_cons]
    have := ih (dst.set e.1 (f e.2)) h.2
    simp only [copyAll] at this
    rw [this]
    simp [FMap.set, h.1]

theorem assocGet_none {κ β : Type} [DecidableEq κ] (it : List (κ × β)) (k : κ)
    (h : k ∉ it.map Prod.fst) : assocGet it k = none := by
  induction it with
  | nil => rfl
  | cons e es ih =>
    simp only [List.map_cons, List.mem_cons, not_or] at h
    obtain ⟨a, v⟩ := e
    simp only [assocGet]
    simp only at h
    rw [if_neg h.1]
    exact ih h.2

/-- **specification of a copy loop** (distinct keys): the copied value where the source has the
key, the old content elsewhere -/
theorem copyAll_lookup {κ β γ : Type} [DecidableEq κ] (f : β → γ) (it : List (κ × β))
    (hnd : (it.map Prod.fst).Nodup) (dst : FMap κ γ) (k : κ) :
    copyAll f it dst k = match assocGet it k with | some v => some (f v) | none => dst k := by
  induction it generalizing dst with
  | nil => rfl
  | cons e es ih =>
    obtain ⟨a, v⟩ := e
    simp only [List.map_cons, List.nodup_cons] at hnd
    simp only [copyAll, List.foldl_cons, assocGet]
    have h := ih hnd.2 (dst.set a (f v))
    simp only [copyAll] at h
    rw [h]
    by_cases hk : k = a
    · subst hk
      rw [assocGet_none es k hnd.1]
      simp [FMap.set]
    · simp only [hk, if_false]
      cases assocGet es k <;> simp [FMap.set, hk]

/-- look-up in an association list with distinct keys does not depend on the arrangement -/
theorem assocGet_perm {κ β : Type} [DecidableEq κ] (l₁ l₂ : List (κ × β)) (p : l₁.Perm l₂)
    (hnd : (l₁.map Prod.fst).Nodup) (k : κ) : assocGet l₁ k = assocGet l₂ k := by
  have h1 := copyAll_lookup (id : β → β) l₁ hnd FMap.empty k
  have h2 := copyAll_lookup (id : β → β) l₂ ((p.map Prod.fst).nodup hnd) FMap.empty k
  rw [copyAll_order_free id l₁ l₂ p hnd] at h1
  rw [h1] at h2
  cases a : assocGet l₁ k <;> cases b : assocGet l₂ k <;> simp_all [FMap.empty]

/-! ### votes -/

/-- the heart of ce3fc9b: the repaired round commutes with itself on ANY two entries — it takes
the maximum of a total order on `(count, bucket)` pairs -/
theorem voteStep_comm (z x y : Int × Int) : voteStep (voteStep z x) y = voteStep (voteStep z y) x := by
  obtain ⟨zc, zb⟩ := z
  obtain ⟨xb, xc⟩ := x
  obtain ⟨yb, yc⟩ := y
  simp only [voteStep]
  repeat' split
  all_goals first
    | rfl
    | (simp only [Prod.mk.injEq] at *; omega)

/-- **vote_order_free**: the winner of the majority votes of `detectLeftMargin`,
`detectDominantAlignment`, `detectBodyFontSize` is the same for every iteration order of the
counting map — ties included, no hypothesis on the entries -/
theorem vote_order_free (it₁ it₂ : List (Int × Int)) (p : it₁.Perm it₂) : vote it₁ = vote it₂ := by
  unfold vote
  exact List.Perm.foldl_eq' p (fun x _ y _ z => voteStep_comm z x y) _


/-- `a` is at least as good as `b` in the order the vote maximises: more votes, or as many and a
smaller bucket (pairs are `(count, bucket)`) -/
def GE (a b : Int × Int) : Prop := a.1 > b.1 ∨ (a.1 = b.1 ∧ a.2 ≤ b.2)

theorem foldl_voteStep_spec (it : List (Int × Int)) (acc : Int × Int) :
    let r := it.foldl voteStep acc
    (r = acc ∨ (r.2, r.1) ∈ it) ∧ GE r acc ∧ ∀ e ∈ it, GE r (e.2, e.1) := by
  induction it generalizing acc with
  | nil => simp [GE]
  | cons e es ih =>
    obtain ⟨eb, ec⟩ := e
    obtain ⟨ac, ab⟩ := acc
    have h := ih (voteStep (ac, ab) (eb, ec))
    simp only [List.foldl_cons] at *
    obtain ⟨h1, h2, h3⟩ := h
    generalize List.foldl voteStep (voteStep (ac, ab) (eb, ec)) es = r at *
    obtain ⟨rc, rb⟩ := r
    simp only [voteStep] at h1 h2
    refine ⟨?_, ?_, ?_⟩
    · split at h1
      · rcases h1 with h1 | h1
        · right; simp only [Prod.mk.injEq] at h1; simp [h1.1, h1.2]
        · right; exact List.mem_cons_of_mem _ h1
      · rcases h1 with h1 | h1
        · left; exact h1
        · right; exact List.mem_cons_of_mem _ h1
    · split at h2 <;> simp only [GE] at * <;> omega
    · intro e he
      rcases List.mem_cons.mp he with rfl | he
      · split at h2 <;> simp only [GE] at * <;> omega
      · exact h3 e he

/-- **vote_spec**: the winner is an entry of the counting map (when every count is positive and
there is one) that no entry beats: no entry has more votes, and none with as many votes has a
smaller bucket -/
theorem vote_spec (it : List (Int × Int)) (hne : it ≠ []) (hpos : ∀ e ∈ it, e.2 > 0) :
    ((vote it).2, (vote it).1) ∈ it ∧
    ∀ e ∈ it, e.2 < (vote it).1 ∨ (e.2 = (vote it).1 ∧ (vote it).2 ≤ e.1) := by
  have h := foldl_voteStep_spec it (0, 0)
  simp only at h
  obtain ⟨h1, _, h3⟩ := h
  change (vote it = (0, 0) ∨ ((vote it).2, (vote it).1) ∈ it) at h1
  change ∀ e ∈ it, GE (vote it) (e.2, e.1) at h3
  refine ⟨?_, ?_⟩
  · rcases h1 with h1 | h1
    · exfalso
      cases it with
      | nil => exact hne rfl
      | cons e es =>
        have := h3 e (by simp)
        have hp := hpos e (by simp)
        rw [h1] at this
        simp only [GE] at this
        omega
    · exact h1
  · intro e he
    have := h3 e he
    simp only [GE] at this
    omega

/-! ### counting maps are maps -/

theorem bump_keys (m : List (Int × Int)) (k w : Int) :
    (bump m k w).map Prod.fst = if k ∈ m.map Prod.fst then m.map Prod.fst else m.map Prod.fst ++ [k] := by
  induction m with
  | nil => simp [bump]
  | cons e es ih =>
    obtain ⟨a, c⟩ := e
    simp only [bump]
    by_cases h : a = k
    · subst h; simp
    · simp only [h, if_false, List.map_cons, ih, List.mem_cons]
      have h' : ¬ k = a := fun x => h x.symm
      simp only [h', false_or]
      split <;> simp

theorem bump_nodup (m : List (Int × Int)) (k w : Int) (h : (m.map Prod.fst).Nodup) :
    ((bump m k w).map Prod.fst).Nodup := by
  rw [bump_keys]
  split
  · exact h
  · rename_i hk
    exact List.nodup_append.mpr ⟨h, by simp, by intro a ha b hb; simp at hb; subst hb; intro hab; subst hab; exact hk ha⟩

/-- the counting map has distinct keys, as every Go map -/
theorem countInto_nodup (xs : List (Int × Int)) : ((countInto xs).map Prod.fst).Nodup := by
  unfold countInto
  have : ∀ (m : List (Int × Int)), (m.map Prod.fst).Nodup →
      ((xs.foldl (fun m x => bump m x.1 x.2) m).map Prod.fst).Nodup := by
    induction xs with
    | nil => intro m h; exact h
    | cons x xs ih => intro m h; exact ih _ (bump_nodup m x.1 x.2 h)
  exact this [] (by simp)

/-! ### the sites, one by one -/

theorem detectLeftMargin_order_free (xs : List Int) (it : List (Int × Int))
    (p : it.Perm (marginCounts xs)) : detectLeftMarginVia xs it = detectLeftMargin xs := by
  simp only [detectLeftMargin, detectLeftMarginVia, vote_order_free it _ p]

theorem detectDominantAlignment_order_free (as : List Int) (it : List (Int × Int))
    (p : it.Perm (alignCounts as)) : detectDominantAlignmentVia as it = detectDominantAlignment as := by
  simp only [detectDominantAlignment, detectDominantAlignmentVia, vote_order_free it _ p]

theorem detectBodyFontSize_order_free (ps : List (Int × Int)) (it : List (Int × Int))
    (p : it.Perm (fontCounts ps)) : detectBodyFontSizeVia ps it = detectBodyFontSize ps := by
  simp only [detectBodyFontSize, detectBodyFontSizeVia, vote_order_free it _ p]

/-- `calculateAdaptiveTolerance` gives the same tolerance for every iteration order of the set of
baselines and whichever algorithms the two sorts use -/
theorem tolerance_order_free (sortY sortG : List Int → List Int) (hY : IsSort leInt sortY)
    (hG : IsSort leInt sortG) (frags : List (Int × Int)) (it : List Int)
    (p : it.Perm (ySet (frags.map Prod.fst))) : toleranceVia sortY sortG frags it = tolerance frags := by
  simp only [tolerance, toleranceVia]
  rw [sortInts_unique hY isSort_sortInts p]
  rw [sortInts_unique hG isSort_sortInts (List.Perm.refl _)]

/-! ### first match, lists in map order -/

theorem filter_keys_perm {κ β : Type} (p : β → Bool) (it₁ it₂ : List (κ × β)) (h : it₁.Perm it₂) :
    ((it₁.filter fun e => p e.2).map Prod.fst).Perm ((it₂.filter fun e => p e.2).map Prod.fst) :=
  (h.filter _).map _

/-- the repaired look-up of the navigation document does not depend on the iteration order -/
theorem minMatch_order_free {κ β : Type} [DecidableEq κ] {leK : κ → κ → Bool}
    (anti : ∀ a b, leK a b = true → leK b a = true → a = b)
    {s₁ s₂ : List κ → List κ} (h₁ : IsSort leK s₁) (h₂ : IsSort leK s₂) (p : β → Bool)
    (it₁ it₂ : List (κ × β)) (h : it₁.Perm it₂) (hnd : (it₁.map Prod.fst).Nodup) :
    minMatch s₁ p it₁ = minMatch s₂ p it₂ := by
  unfold minMatch
  rw [sort_unique anti h₁ h₂ (filter_keys_perm p it₁ it₂ h)]
  cases s₂ ((it₂.filter fun e => p e.2).map Prod.fst) with
  | nil => rfl
  | cons k _ => simp only [assocGet_perm it₁ it₂ h hnd k]

theorem collectSorted_order_free {κ β γ : Type} [DecidableEq κ] {leK : κ → κ → Bool}
    (anti : ∀ a b, leK a b = true → leK b a = true → a = b)
    {s₁ s₂ : List κ → List κ} (h₁ : IsSort leK s₁) (h₂ : IsSort leK s₂) (f : κ → β → Option γ)
    (it₁ it₂ : List (κ × β)) (h : it₁.Perm it₂) (hnd : (it₁.map Prod.fst).Nodup) :
    collectSorted s₁ f it₁ = collectSorted s₂ f it₂ := by
  unfold collectSorted
  rw [sort_unique anti h₁ h₂ (h.map Prod.fst)]
  congr 1
  funext k
  rw [assocGet_perm it₁ it₂ h hnd k]

/-- the list built in iteration order (the pinned `ExtractPageImages`, `findRepeatingPatterns`)
has the right elements in every order — only their arrangement varies -/
theorem collectPinned_perm {κ β γ : Type} (f : κ → β → Option γ) (it₁ it₂ : List (κ × β))
    (h : it₁.Perm it₂) : (collectPinned f it₁).Perm (collectPinned f it₂) :=
  h.filterMap _

theorem regionsSorted_order_free {κ β γ : Type} [DecidableEq κ] {leK : κ → κ → Bool}
    (anti : ∀ a b, leK a b = true → leK b a = true → a = b)
    {s₁ s₂ : List κ → List κ} (h₁ : IsSort leK s₁) (h₂ : IsSort leK s₂) (f : κ → β → Option γ)
    (score : γ → Int) (it₁ it₂ : List (κ × β)) (h : it₁.Perm it₂) (hnd : (it₁.map Prod.fst).Nodup) :
    regionsSorted s₁ f score it₁ = regionsSorted s₂ f score it₂ := by
  unfold regionsSorted
  rw [collectSorted_order_free anti h₁ h₂ f it₁ it₂ h hnd]

/-! ### the stable sort by descending score -/

theorem insertDesc_perm {γ : Type} (score : γ → Int) (x : γ) (l : List γ) :
    (insertDesc score x l).Perm (x :: l) := by
  induction l with
  | nil => exact List.Perm.refl _
  | cons y ys ih =>
    simp only [insertDesc]
    split
    · exact (List.Perm.cons y ih).trans (List.Perm.swap x y ys)
    · exact List.Perm.refl _

theorem stableDesc_perm {γ : Type} (score : γ → Int) (l : List γ) : (stableDesc score l).Perm l := by
  induction l with
  | nil => exact List.Perm.refl _
  | cons x xs ih => exact (insertDesc_perm score x _).trans (List.Perm.cons x ih)

theorem insertDesc_sorted {γ : Type} (score : γ → Int) (x : γ) (l : List γ)
    (h : l.Pairwise (fun a b => score a ≥ score b)) :
    (insertDesc score x l).Pairwise (fun a b => score a ≥ score b) := by
  induction l with
  | nil => simp [insertDesc]
  | cons y ys ih =>
    simp only [insertDesc]
    have hy := List.pairwise_cons.mp h
    split
    · rename_i hxy
      refine List.pairwise_cons.mpr ⟨?_, ih hy.2⟩
      intro b hb
      rcases List.mem_cons.mp ((insertDesc_perm score x ys).subset hb) with rfl | hb
      · omega
      · exact hy.1 b hb
    · rename_i hxy
      refine List.pairwise_cons.mpr ⟨?_, h⟩
      intro b hb
      rcases List.mem_cons.mp hb with rfl | hb
      · omega
      · have := hy.1 b hb; omega

theorem stableDesc_sorted {γ : Type} (score : γ → Int) (l : List γ) :
    (stableDesc score l).Pairwise (fun a b => score a ≥ score b) := by
  induction l with
  | nil => simp [stableDesc]
  | cons x xs ih => exact insertDesc_sorted score x _ ih

/-- `sort.SliceStable` by descending score is a sort in the sense of `IsSort` -/
theorem isSort_stableDesc {γ : Type} (score : γ → Int) :
    IsSort (fun a b => decide (score a ≥ score b)) (stableDesc score) where
  perm l := stableDesc_perm score l
  sorted l := by
    have := stableDesc_sorted score l
    simpa using this

/-! ### deleting the deeper levels -/

theorem eraseKey_filter (m : List (Int × Int)) (q : Int × Int → Bool) (k : Int) :
    eraseKey (m.filter q) k = m.filter fun e => q e && decide (e.1 ≠ k) := by
  simp [eraseKey, List.filter_filter, Bool.and_comm]

theorem deleteDeeper_filter (level : Int) (it : List (Int × Int)) (m : List (Int × Int)) :
    deleteDeeper level it m = m.filter fun e => !(decide (e.1 > level) && decide (e.1 ∈ it.map Prod.fst)) := by
  induction it generalizing m with
  | nil =>
    simp only [deleteDeeper, List.foldl_nil, List.map_nil, List.not_mem_nil, decide_false, Bool.and_false, Bool.not_false]
    exact (List.filter_eq_self.mpr (fun _ _ => rfl)).symm
  | cons x xs ih =>
    have h := ih (if x.1 > level then eraseKey m x.1 else m)
    simp only [deleteDeeper, List.foldl_cons] at *
    rw [h]
    by_cases hl : x.1 > level
    · simp only [hl, if_true, eraseKey, List.filter_filter]
      apply List.filter_congr
      intro e _
      by_cases he : e.1 = x.1
      · simp [he, hl]
      · have hm : decide (e.fst ∈ List.map Prod.fst (x :: xs)) = decide (e.fst ∈ List.map Prod.fst xs) := by
          simp only [List.map_cons, List.mem_cons, he, false_or]
        simp [hm, he]
    · simp only [hl, if_false]
      apply List.filter_congr
      intro e _
      by_cases he : e.1 = x.1
      · simp [he, hl]
      · have hm : decide (e.fst ∈ List.map Prod.fst (x :: xs)) = decide (e.fst ∈ List.map Prod.fst xs) := by
          simp only [List.map_cons, List.mem_cons, he, false_or]
        simp [hm, he]

/-- **specification of the loop**: when the keys visited are the keys of the map (as they are —
the iteration is of that map), exactly the entries of the deeper levels are gone, and the rest
keeps its place -/
theorem deleteDeeper_spec (level : Int) (it m : List (Int × Int)) (p : it.Perm m) :
    deleteDeeper level it m = m.filter fun e => decide (e.1 ≤ level) := by
  rw [deleteDeeper_filter]
  apply List.filter_congr
  intro e he
  have : e.1 ∈ it.map Prod.fst := List.mem_map_of_mem (f := Prod.fst) (p.symm.subset he)
  by_cases hl : e.1 > level
  · have h2 : ¬ e.1 ≤ level := by omega
    simp [hl, h2, this]
  · have h2 : e.1 ≤ level := by omega
    simp [hl, h2]

theorem deleteDeeper_order_free (level : Int) (it₁ it₂ m : List (Int × Int))
    (p₁ : it₁.Perm m) (p₂ : it₂.Perm m) : deleteDeeper level it₁ m = deleteDeeper level it₂ m := by
  rw [deleteDeeper_spec level it₁ m p₁, deleteDeeper_spec level it₂ m p₂]

theorem numberStep_order_free (iter : List (Int × Int) → List (Int × Int)) (hiter : ∀ m, (iter m).Perm m)
    (st : List (Int × Int) × Int) (lvl : Int) : numberStep iter st lvl = numberStep id st lvl := by
  simp only [numberStep]
  rw [deleteDeeper_order_free lvl (iter st.1) (id st.1) st.1 (hiter st.1) (List.Perm.refl _)]

theorem numberFrom_order_free (iter : List (Int × Int) → List (Int × Int)) (hiter : ∀ m, (iter m).Perm m)
    (st : List (Int × Int) × Int) (levels : List Int) : numberFrom iter st levels = numberFrom id st levels := by
  induction levels generalizing st with
  | nil => rfl
  | cons l ls ih =>
    simp only [numberFrom]
    rw [numberStep_order_free iter hiter st l, ih]

/-! ### mergeResources -/

theorem foldl_set_not_mem {κ β γ : Type} [DecidableEq κ] (g : κ × β → γ) (it : List (κ × β))
    (dst : FMap κ γ) (k : κ) (h : k ∉ it.map Prod.fst) :
    it.foldl (fun m e => m.set e.1 (g e)) dst k = dst k := by
  induction it generalizing dst with
  | nil => rfl
  | cons e es ih =>
    simp only [List.map_cons, List.mem_cons, not_or] at h
    simp only [List.foldl_cons]
    rw [ih _ h.2]
    simp [FMap.set, h.1]

theorem foldl_set_lookup {κ β γ : Type} [DecidableEq κ] (g : κ × β → γ) (it : List (κ × β))
    (hnd : (it.map Prod.fst).Nodup) (dst : FMap κ γ) (k : κ) :
    it.foldl (fun m e => m.set e.1 (g e)) dst k =
      match assocGet it k with | some v => some (g (k, v)) | none => dst k := by
  induction it generalizing dst with
  | nil => rfl
  | cons e es ih =>
    obtain ⟨a, v⟩ := e
    simp only [List.map_cons, List.nodup_cons] at hnd
    simp only [List.foldl_cons, assocGet]
    rw [ih hnd.2]
    by_cases hk : k = a
    · subst hk
      rw [assocGet_none es k hnd.1]
      simp [FMap.set]
    · simp only [hk, if_false]
      cases assocGet es k <;> simp [FMap.set, hk]


theorem mergeEntry_order_free (pa : Option RVal) (v : RVal) (p₁ p₂ c₁ c₂ : List (List Nat × Nat))
    (hp : p₁.Perm p₂) (hc : c₁.Perm c₂) (ndp : (p₁.map Prod.fst).Nodup) (ndc : (c₁.map Prod.fst).Nodup) :
    mergeEntry pa v p₁ c₁ = mergeEntry pa v p₂ c₂ := by
  unfold mergeEntry
  split
  · rw [copyAll_order_free id p₁ p₂ hp ndp, copyAll_order_free id c₁ c₂ hc ndc]
  · rfl
  · rfl

/-- `mergeResources` yields the same dictionary for every iteration order of the two resource
dictionaries and of every sub-dictionary -/
theorem mergeResourcesVia_order_free (parent child itParent itChild : List (List Nat × RVal))
    (subP subC : List Nat → List (List Nat × Nat))
    (hp : itParent.Perm parent) (hc : itChild.Perm child)
    (ndp : (parent.map Prod.fst).Nodup) (ndc : (child.map Prod.fst).Nodup)
    (hsp : ∀ k, (subP k).Perm (subOf parent k)) (hsc : ∀ k, (subC k).Perm (subOf child k))
    (ndsp : ∀ k, ((subOf parent k).map Prod.fst).Nodup) (ndsc : ∀ k, ((subOf child k).map Prod.fst).Nodup) :
    mergeResourcesVia parent itParent itChild subP subC = mergeResources parent child := by
  funext k
  unfold mergeResources mergeResourcesVia
  have ndc' : (itChild.map Prod.fst).Nodup := ((hc.map Prod.fst).symm).nodup ndc
  have ndp' : (itParent.map Prod.fst).Nodup := ((hp.map Prod.fst).symm).nodup ndp
  rw [foldl_set_lookup (fun e => mergeEntry (assocGet parent e.1) e.2 (subP e.1) (subC e.1)) itChild ndc']
  rw [foldl_set_lookup (fun e => mergeEntry (assocGet parent e.1) e.2 (subOf parent e.1) (subOf child e.1)) child ndc]
  rw [assocGet_perm itChild child hc ndc' k, copyAll_order_free toMVal itParent parent hp ndp']
  cases assocGet child k with
  | none => rfl
  | some v =>
    simp only
    rw [mergeEntry_order_free _ v (subP k) (subOf parent k) (subC k) (subOf child k) (hsp k) (hsc k)
      (((hsp k).map Prod.fst).symm.nodup (ndsp k)) (((hsc k).map Prod.fst).symm.nodup (ndsc k))]

/-- what `mergeResources` computes: the child's entry wins, except that sub-dictionaries present on
both sides are overlaid (child names over parent names); entries of the parent alone are kept -/
theorem mergeResources_spec (parent child : List (List Nat × RVal))
    (ndp : (parent.map Prod.fst).Nodup) (ndc : (child.map Prod.fst).Nodup) (k : List Nat) :
    mergeResources parent child k = mergeResourcesSpec parent child k := by
  unfold mergeResources mergeResourcesVia mergeResourcesSpec
  rw [foldl_set_lookup (fun e => mergeEntry (assocGet parent e.1) e.2 (subOf parent e.1) (subOf child e.1)) child ndc]
  cases hc : assocGet child k with
  | none =>
    simp only
    rw [copyAll_lookup toMVal parent ndp]
    cases assocGet parent k <;> simp [FMap.empty]
  | some v =>
    cases v with
    | other i => simp [mergeEntry]
    | dict c =>
      simp only [subOf, hc]
      cases hp : assocGet parent k with
      | none => simp [mergeEntry]
      | some pv =>
        cases pv with
        | other i => simp [mergeEntry]
        | dict pd => simp [mergeEntry]

end Tabula.MapOrder
