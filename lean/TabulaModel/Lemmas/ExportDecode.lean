import TabulaModel.Model.ExportDecode
import TabulaModel.Lemmas.ExportJson
import TabulaModel.Lemmas.ExportMeta
/-!
Lemmas about the inverse reader of `Model/ExportDecode.lean`: every textual convention of
`rag/export.go` (`%d`, `%t`, level names, `omitempty`, `[a,b,c]` cells) is undone by its reader.
-/
set_option linter.unusedSimpArgs false
namespace Tabula.Export
open Tabula.Csv (Str)
open Tabula.Json

/-! ### integers -/

theorem digitsVal_append (a b : Str) (acc : Nat) :
    digitsVal (a ++ b) acc = (digitsVal a acc).bind (digitsVal b) := by
  induction a generalizing acc with
  | nil => simp [digitsVal]
  | cons c cs ih =>
    simp only [List.cons_append, digitsVal]
    by_cases h : 48 ≤ c ∧ c ≤ 57
    · simp only [h, and_self, if_true, ih]
    · simp [h]

theorem digitsVal_dec (n : Nat) : digitsVal (dec n) 0 = some n := by
  induction n using Nat.strongRecOn with
  | _ n ih =>
    by_cases h : n < 10
    · rw [dec_small n h]
      have h1 : 48 ≤ 48 + n ∧ 48 + n ≤ 57 := by omega
      simp only [digitsVal, h1, and_self, if_true, Option.some.injEq]
      omega
    · rw [dec_step n h, digitsVal_append, ih (n / 10) (by omega)]
      have h1 : 48 ≤ 48 + n % 10 ∧ 48 + n % 10 ≤ 57 := by omega
      simp only [Option.bind_some, digitsVal, h1, and_self, if_true, Option.some.injEq]
      omega

theorem readNat_dec (n : Nat) : readNat (dec n) = some n := by
  obtain ⟨d, ds, e, _, _⟩ := dec_head n
  have := digitsVal_dec n
  rw [e] at this ⊢
  simpa [readNat] using this

/-- `%d` text reads back to the integer, for every Go int -/
theorem readInt_decInt (i : Int) : readInt (decInt i) = some i := by
  unfold decInt
  by_cases h : i < 0
  · simp only [h, if_true, readInt, readNat_dec, Option.map_some, Option.some.injEq]
    omega
  · simp only [h, if_false]
    obtain ⟨d, ds, e, h1, _⟩ := dec_head i.natAbs
    have hv := readNat_dec i.natAbs
    rw [e] at hv ⊢
    have hd : d ≠ 45 := by omega
    simp only [readInt, hd, if_false, hv, Option.map_some, Option.some.injEq]
    omega

theorem decInt_ne_nil (i : Int) : decInt i ≠ [] := by
  intro e
  have := readInt_decInt i
  rw [e] at this
  simp [readInt] at this

theorem readIntCellS_decInt (i : Int) : readIntCellS (decInt i) = some i := by
  simp [readIntCellS, decInt_ne_nil, readInt_decInt]

/-! ### levels -/

theorem levelOfString_levelString (l : Int) (h0 : 0 ≤ l) (h3 : l ≤ 3) :
    levelOfString (levelString l) = some l := by
  have : l = 0 ∨ l = 1 ∨ l = 2 ∨ l = 3 := by omega
  rcases this with h | h | h | h <;> subst h <;> decide

theorem levelString_ne_nil (l : Int) : levelString l ≠ [] := by
  unfold levelString
  split
  · decide
  · split
    · decide
    · split
      · decide
      · split <;> decide

/-! ### JSON members written with `omitempty` -/

theorem jStrOpt_omit (s : Str) : jStrOpt (if s.isEmpty then none else some (.str s)) = some s := by
  cases s with
  | nil => rfl
  | cons c r => rfl

theorem jIntOpt_omit (i : Int) : jIntOpt (if i = 0 then none else some (.num (decInt i))) = some i := by
  by_cases h : i = 0
  · simp [h, jIntOpt]
  · simp [h, jIntOpt, readInt_decInt]

theorem jBoolOpt_omit (b : Bool) : jBoolOpt (if b then some (.bool true) else none) = some b := by
  cases b <;> rfl

theorem jStrItems_map (l : List Str) : jStrItems (l.map J.str) = some l := by
  induction l with
  | nil => rfl
  | cons s r ih => simp [jStrItems, ih]

theorem jStrsOpt_omit (l : List Str) : jStrsOpt (if l.isEmpty then none else some (jStrs l)) = some l := by
  cases l with
  | nil => rfl
  | cons s r =>
    simp only [List.isEmpty_cons, Bool.false_eq_true, if_false, jStrsOpt, jStrs]
    exact jStrItems_map _

theorem jStrOpt_text (incl : Bool) (s : Str) :
    jStrOpt (if incl = false ∨ s.isEmpty then none else some (.str s)) = some (if incl then s else []) := by
  cases incl <;> cases s <;> simp [jStrOpt]

/-! ### metadata values through `exportedMeta` -/

theorem exportedMeta_keep (cfg : Config) (m : Meta) (k : Str) :
    exportedMeta cfg m k = if keepMeta cfg k then metaField m k else none := rfl

theorem metaField_headingLevel (m : Meta) : metaField m kHeadingLevel = (if m.headingLevel > 0 then some (.int m.headingLevel) else none) := by
  simp (decide := true) [metaField]
theorem metaField_totalChunks (m : Meta) : metaField m kTotalChunks = (if m.totalChunks > 0 then some (.int m.totalChunks) else none) := by
  simp (decide := true) [metaField]
theorem metaField_level (m : Meta) : metaField m kLevel = some (.str (levelString m.level)) := by
  simp (decide := true) [metaField]
theorem metaField_parentId (m : Meta) : metaField m kParentId = (if m.parentID ≠ [] then some (.str m.parentID) else none) := by
  simp (decide := true) [metaField]
theorem metaField_childIds (m : Meta) : metaField m kChildIds = (if m.childIDs ≠ [] then some (.strs m.childIDs) else none) := by
  simp (decide := true) [metaField]
theorem metaField_elementTypes (m : Meta) : metaField m kElementTypes = (if m.elementTypes ≠ [] then some (.strs m.elementTypes) else none) := by
  simp (decide := true) [metaField]
theorem metaField_sectionPath (m : Meta) : metaField m kSectionPath = (if m.sectionPath ≠ [] then some (.strs m.sectionPath) else none) := by
  simp (decide := true) [metaField]
theorem metaField_charCount (m : Meta) : metaField m kCharCount = (if m.charCount > 0 then some (.int m.charCount) else none) := by
  simp (decide := true) [metaField]
theorem metaField_wordCount (m : Meta) : metaField m kWordCount = (if m.wordCount > 0 then some (.int m.wordCount) else none) := by
  simp (decide := true) [metaField]
theorem metaField_estimatedTokens (m : Meta) : metaField m kEstimatedTokens = (if m.estimatedTokens > 0 then some (.int m.estimatedTokens) else none) := by
  simp (decide := true) [metaField]

/-- an "exported only when positive" integer, read from its optional JSON member -/
theorem jIntOpt_positive (keep : Bool) (i : Int) (h : 0 ≤ i) :
    jIntOpt ((if keep then (if i > 0 then some (Val.int i) else none) else none).map valToJ) =
      some (if keep then i else 0) := by
  cases keep with
  | false => rfl
  | true =>
    by_cases hi : i > 0
    · simp [hi, valToJ, jIntOpt, readInt_decInt]
    · have : i = 0 := by omega
      simp [this, jIntOpt]

theorem jLevelOpt_level (keep : Bool) (l : Int) (h0 : 0 ≤ l) (h3 : l ≤ 3) :
    jLevelOpt ((if keep then some (Val.str (levelString l)) else none).map valToJ) = some (if keep then l else 0) := by
  cases keep with
  | false => rfl
  | true => simp [valToJ, jLevelOpt, levelOfString_levelString l h0 h3]

theorem jStrOpt_nonempty (keep : Bool) (s : Str) :
    jStrOpt ((if keep then (if s ≠ [] then some (Val.str s) else none) else none).map valToJ) =
      some (if keep then s else []) := by
  cases keep with
  | false => rfl
  | true => cases s <;> simp [valToJ, jStrOpt]

theorem jStrsOpt_nonempty (keep : Bool) (l : List Str) :
    jStrsOpt ((if keep then (if l ≠ [] then some (Val.strs l) else none) else none).map valToJ) =
      some (if keep then l else []) := by
  cases keep with
  | false => rfl
  | true =>
    cases l with
    | nil => simp [jStrsOpt]
    | cons s r =>
      have := jStrItems_map (s :: r)
      simp only [List.map_cons] at this
      simp [valToJ, jStrsOpt, jStrs, this]

/-! ### lists of records -/

theorem mapOpt_map' {α β γ : Type} (f : α → Option β) (g : γ → α) (h : γ → β) (l : List γ)
    (hh : ∀ c ∈ l, f (g c) = some (h c)) : mapOpt f (l.map g) = some (l.map h) := by
  induction l with
  | nil => rfl
  | cons b bs ih =>
    simp only [List.map_cons, mapOpt, hh b (by simp), ih (fun x hx => hh x (List.mem_cons_of_mem _ hx))]

theorem mapOpt_append {α β : Type} (f : α → Option β) (a b : List α) :
    mapOpt f (a ++ b) = (mapOpt f a).bind (fun x => (mapOpt f b).map (x ++ ·)) := by
  induction a with
  | nil => cases h : mapOpt f b <;> simp [h, mapOpt]
  | cons x xs ih =>
    simp only [List.cons_append, mapOpt, ih]
    cases f x with
    | none => simp
    | some y =>
      cases mapOpt f xs with
      | none => simp
      | some ys =>
        cases mapOpt f b with
        | none => simp
        | some zs => simp

/-! ### cells -/

theorem cellAt_map (f : Str → Str) (header : List Str) (name : Str) :
    cellAt header (header.map f) name = if name ∈ header then f name else [] := by
  induction header with
  | nil => simp [cellAt]
  | cons h hs ih =>
    simp only [List.map_cons, cellAt]
    by_cases e : h = name
    · subst e; simp
    · have : ¬ name = h := fun x => e x.symm
      simp [e, ih, this]

theorem splitCommas_eq (s cur : Str) : splitCommas s cur = splitAcc s cur := by
  induction s generalizing cur with
  | nil => rfl
  | cons c cs ih =>
    simp only [splitCommas, splitAcc]
    split
    · rw [ih]
    · rw [ih]

/-- a list cell reads back when it is not empty and no element contains a comma -/
theorem readListCellS_format (marshal : MapSV → Str) (l : List Str) (hne : l ≠ []) (h : ∀ s ∈ l, 44 ∉ s) :
    readListCellS (formatValue marshal (.strs l)) = some l := by
  simp only [formatValue, readListCellS, List.getLast?_append, List.getLast?_singleton,
    Option.some_or, and_self, if_true, List.dropLast_concat, splitCommas_eq]
  rw [splitAcc_joinComma l hne h]

theorem readBoolCellS_boolStr (b : Bool) : readBoolCellS (boolStr b) = some b := by
  cases b <;> decide

/-- the cell of an optional metadata value: its `formatValue`, empty when there is none -/
def optCell (marshal : MapSV → Str) : Option Val → Str
  | some v => formatValue marshal v
  | none => []

/-- an "exported only when positive" integer, read from its (possibly empty) cell -/
theorem readIntCellS_positive (marshal : MapSV → Str) (keep : Bool) (i : Int) (h : 0 ≤ i) :
    readIntCellS (optCell marshal (if keep then (if i > 0 then some (Val.int i) else none) else none)) = some (if keep then i else 0) := by
  cases keep with
  | false => rfl
  | true =>
    by_cases hi : i > 0
    · simp [hi, optCell, formatValue, readIntCellS_decInt]
    · have : i = 0 := by omega
      simp [this, optCell, readIntCellS]

theorem readLevelCellS_level (marshal : MapSV → Str) (keep : Bool) (l : Int) (h0 : 0 ≤ l) (h3 : l ≤ 3) :
    readLevelCellS (optCell marshal (if keep then some (Val.str (levelString l)) else none)) = some (if keep then l else 0) := by
  cases keep with
  | false => rfl
  | true => simp [optCell, formatValue, readLevelCellS, levelString_ne_nil, levelOfString_levelString l h0 h3]

theorem strCell_nonempty (marshal : MapSV → Str) (keep : Bool) (s : Str) :
    (optCell marshal (if keep then (if s ≠ [] then some (Val.str s) else none) else none)) = (if keep then s else []) := by
  cases keep with
  | false => rfl
  | true => cases s <;> simp [optCell, formatValue]

theorem readListCellS_nonempty (marshal : MapSV → Str) (keep : Bool) (l : List Str) (h : ∀ s ∈ l, 44 ∉ s) :
    readListCellS (optCell marshal (if keep then (if l ≠ [] then some (Val.strs l) else none) else none)) = some (if keep then l else []) := by
  cases keep with
  | false => rfl
  | true =>
    by_cases hl : l = []
    · subst hl; simp [optCell, readListCellS]
    · simp only [if_true, hl, ne_eq, not_false_eq_true, optCell]
      exact readListCellS_format marshal l hl h

end Tabula.Export
