import TabulaModel.Model.PredictFlat
import TabulaModel.Lemmas.FiltersSound
/-!
Refinement of the TIFF predictor: the buffer-level transcription `applyTIFFPredictor2Flat`
(`Model/PredictFlat.lean`: one flat buffer, `result[rowStart+col] = data[rowStart+col] +
result[rowStart+col-colors]`) computes exactly what the row-wise model `applyTIFFPredictor2`
(`Model/Filters.lean`) computes, for all byte strings and all parameters. In particular none of
the index checks of the flat model (= Go run-time panics) can fail. Core Lean only.
-/
namespace Tabula.Filters

/-- writing at the position right after `a` replaces the head of what follows -/
theorem tiff_set_mid (a : Str) (x v : Nat) (b : Str) : (a ++ x :: b).set a.length v = a ++ v :: b := by
  induction a with
  | nil => rfl
  | cons y a ih => simp only [List.cons_append, List.length_cons, List.set_cons_succ, ih]

/-- `goSet` at index `len(pre)+len(done)` of `pre ++ done ++ z :: rest` succeeds and appends the
value to `done` -/
theorem tiff_goSet_mid (pre done : Str) (z v : Nat) (rest : Str) :
    goSet (pre ++ (done ++ z :: rest)) (pre.length + done.length) v = some (pre ++ ((done ++ [v]) ++ rest)) := by
  have h1 : pre ++ (done ++ z :: rest) = (pre ++ done) ++ z :: rest := by simp only [List.append_assoc]
  have h2 : pre ++ ((done ++ [v]) ++ rest) = (pre ++ done) ++ v :: rest := by
    simp only [List.append_assoc, List.cons_append, List.nil_append]
  have h3 : pre.length + done.length = (pre ++ done).length := by simp only [List.length_append]
  rw [h1, h2, h3]
  unfold goSet
  rw [tiff_set_mid]
  have : (pre ++ done).length < (pre ++ done ++ z :: rest).length := by
    simp only [List.length_append, List.length_cons]; omega
  simp only [this, if_true]

/-- reading the buffer `pre ++ done ++ rest` inside `done` -/
theorem tiff_getElem?_mid (pre done rest : Str) (k : Nat) (hk : k < done.length) :
    (pre ++ (done ++ rest))[pre.length + k]? = done[k]? := by
  rw [List.getElem?_append_right (by omega)]
  have : pre.length + k - pre.length = k := by omega
  rw [this, List.getElem?_append_left hk]

/-- `decRow` decodes every raw byte: the row has length `len(done) + len(fs)` -/
theorem tiff_decRow_length (P : Str → Option Nat) : ∀ (fs done row : Str),
    decRow P fs done = some row → row.length = done.length + fs.length := by
  intro fs
  induction fs with
  | nil =>
    intro done row h
    simp only [decRow, Option.some.injEq] at h
    subst h
    simp only [List.length_nil, Nat.add_zero]
  | cons f fs ih =>
    intro done row h
    simp only [decRow] at h
    split at h
    · exact absurd h (by simp)
    · have := ih _ _ h
      simp only [List.length_append, List.length_cons, List.length_nil] at this ⊢
      omega

/-- **column loop**: on the buffer `pre ++ done ++ rest` (earlier rows, decoded prefix of this
row, untouched cells) the `for col` loop of `applyTIFFPredictor2` computes `decRow` of the raw
bytes `fs` that `data` holds at `rowStart + col ..`, leaving `pre` and the cells after the row alone -/
theorem tiffColLoop_eq (data : Str) (colors : Nat) (hc : 1 ≤ colors) (hd : ∀ b ∈ data, b < 256) (pre : Str) :
    ∀ (fs done rest : Str),
      (∀ k, k < fs.length → data[pre.length + done.length + k]? = fs[k]?) → fs.length ≤ rest.length →
      tiffColLoop data colors pre.length fs.length done.length (pre ++ (done ++ rest)) =
        (decRow (tiffPredicted colors) fs done).map (fun row => pre ++ (row ++ rest.drop fs.length)) := by
  intro fs
  induction fs with
  | nil =>
    intro done rest _ _
    simp only [List.length_nil, tiffColLoop, decRow, Option.map_some, List.drop_zero]
  | cons f fs ih =>
    intro done rest hdat hlen
    match rest, hlen with
    | [], hlen => simp only [List.length_cons, List.length_nil] at hlen; omega
    | z :: rest, hlen =>
      have h0 : data[pre.length + done.length]? = some f := by
        have := hdat 0 (by simp only [List.length_cons]; omega)
        simpa only [Nat.add_zero, List.getElem?_cons_zero] using this
      have hf : f < 256 := hd f (List.mem_of_getElem? h0)
      have hdat' : ∀ (v k : Nat), k < fs.length → data[pre.length + (done ++ [v]).length + k]? = fs[k]? := by
        intro v k hk
        have := hdat (k + 1) (by simp only [List.length_cons]; omega)
        simp only [List.getElem?_cons_succ] at this
        rw [← this]
        simp only [List.length_append, List.length_cons, List.length_nil]
        congr 1
        omega
      have hlen' : fs.length ≤ rest.length := by
        simp only [List.length_cons] at hlen; omega
      have hstep : ∀ v : Nat,
          tiffColLoop data colors pre.length fs.length (done.length + 1) (pre ++ ((done ++ [v]) ++ rest)) =
            (decRow (tiffPredicted colors) fs (done ++ [v])).map
              (fun row => pre ++ (row ++ (z :: rest).drop (f :: fs).length)) := by
        intro v
        have := ih (done ++ [v]) rest (hdat' v) hlen'
        simp only [List.length_append, List.length_cons, List.length_nil, Nat.zero_add] at this
        simp only [List.length_cons, List.drop_succ_cons]
        exact this
      simp only [List.length_cons]
      rw [tiffColLoop]
      simp only [h0]
      by_cases hcol : done.length < colors
      · have hp : tiffPredicted colors done = some 0 := by
          unfold tiffPredicted; simp only [hcol, if_true]
        simp only [hcol, if_true, tiff_goSet_mid, decRow, hp]
        have : (f + 0) % 256 = f := by omega
        rw [this]
        exact hstep f
      · have hp : tiffPredicted colors done = done[done.length - colors]? := by
          unfold tiffPredicted; simp only [hcol, if_false]
        have hidx : pre.length + done.length - colors = pre.length + (done.length - colors) := by omega
        have hrd : (pre ++ (done ++ z :: rest))[pre.length + done.length - colors]? = done[done.length - colors]? := by
          rw [hidx]
          exact tiff_getElem?_mid pre done (z :: rest) _ (by omega)
        simp only [hcol, if_false, hrd, decRow, hp]
        cases hl : done[done.length - colors]? with
        | none => simp only [Option.map_none]
        | some l =>
          simp only [tiff_goSet_mid, toByte]
          exact hstep ((f + l) % 256)

/-- **row loop**: with `row` rows decoded (`acc`, newest first, flattened at the front of the
buffer) and `k` rows left (`rest`, the untouched cells), the `for row` loop of
`applyTIFFPredictor2` is `tiffRows` on the remaining data -/
theorem tiffRowLoop_eq (data : Str) (rowSize colors : Nat) (hc : 1 ≤ colors) (hd : ∀ b ∈ data, b < 256) :
    ∀ (k row : Nat) (acc : List Str) (rest : Str),
      acc.reverse.flatten.length = row * rowSize → rest.length = k * rowSize →
      data.length = (row + k) * rowSize →
      tiffRowLoop data rowSize colors k row (acc.reverse.flatten ++ rest) =
        tiffRows k rowSize colors (data.drop (row * rowSize)) acc := by
  intro k
  induction k with
  | zero =>
    intro row acc rest _ hrest _
    have : rest = [] := List.eq_nil_of_length_eq_zero (by omega)
    subst this
    simp only [tiffRowLoop, tiffRows, List.append_nil]
  | succ k ih =>
    intro row acc rest hpre hrest hlen
    have hm1 : (row + (k + 1)) * rowSize = row * rowSize + k * rowSize + rowSize := by
      rw [Nat.add_mul, Nat.succ_mul]; omega
    have hm2 : (k + 1) * rowSize = k * rowSize + rowSize := Nat.succ_mul k rowSize
    have hm3 : (row + 1) * rowSize = row * rowSize + rowSize := Nat.succ_mul row rowSize
    have hm4 : (row + 1 + k) * rowSize = row * rowSize + k * rowSize + rowSize := by
      rw [Nat.add_mul, Nat.succ_mul]; omega
    have hfl : ((data.drop (row * rowSize)).take rowSize).length = rowSize := by
      rw [List.length_take, List.length_drop]; omega
    have hcol := tiffColLoop_eq data colors hc hd acc.reverse.flatten
      ((data.drop (row * rowSize)).take rowSize) [] rest
      (by
        intro j hj
        rw [hfl] at hj
        rw [List.getElem?_take, List.getElem?_drop, hpre]
        simp only [hj, if_true, List.length_nil, Nat.add_zero])
      (by rw [hfl]; omega)
    rw [hfl, hpre] at hcol
    simp only [List.length_nil, List.nil_append] at hcol
    rw [tiffRowLoop, tiffRows, hcol]
    cases hr : decRow (tiffPredicted colors) ((data.drop (row * rowSize)).take rowSize) [] with
    | none => simp only [Option.map_none]
    | some r =>
      simp only [Option.map_some]
      have hrl : r.length = rowSize := by
        have := tiff_decRow_length _ _ _ _ hr
        rw [hfl] at this
        simpa only [List.length_nil, Nat.zero_add] using this
      have hfl' : (r :: acc).reverse.flatten = acc.reverse.flatten ++ r := by
        simp only [List.reverse_cons, List.flatten_append, List.flatten_cons, List.flatten_nil, List.append_nil]
      have := ih (row + 1) (r :: acc) (rest.drop rowSize)
        (by rw [hfl', List.length_append, hpre, hrl, hm3])
        (by rw [List.length_drop, hrest]; omega)
        (by rw [hlen, hm1, hm4])
      rw [hfl', List.append_assoc, hm3, ← List.drop_drop] at this
      exact this

/-- the buffer-level TIFF predictor computes what the row-wise model computes -/
theorem applyTIFFPredictor2Flat_eq (data : Str) (p : Params) (hd : ∀ b ∈ data, b < 256) :
    applyTIFFPredictor2Flat data p = applyTIFFPredictor2 data p := by
  unfold applyTIFFPredictor2Flat applyTIFFPredictor2
  simp only
  by_cases hbpc : p.bpc.getD 8 ≠ 8
  · rw [if_pos hbpc, if_pos hbpc]
  · rw [if_neg hbpc, if_neg hbpc]
    cases hrb : predictorRowBytes (p.columns.getD 1) (p.colors.getD 1) with
    | none => rfl
    | some rb =>
      simp only
      by_cases hmod : data.length % rb ≠ 0
      · rw [if_pos hmod, if_pos hmod]
      · rw [if_neg hmod, if_neg hmod]
        obtain ⟨_, h2, _, _⟩ := predictorRowBytes_some _ _ rb hrb
        have hc : 1 ≤ (p.colors.getD 1).toNat := by omega
        have hmod' : data.length % rb = 0 := by
          apply Classical.byContradiction
          intro hne
          exact hmod hne
        have hlen : data.length = data.length / rb * rb := by
          have := Nat.div_add_mod data.length rb
          rw [hmod', Nat.add_zero, Nat.mul_comm] at this
          exact this.symm
        have := tiffRowLoop_eq data rb (p.colors.getD 1).toNat hc hd (data.length / rb) 0 []
          (List.replicate data.length 0)
          (by simp only [List.reverse_nil, List.flatten_nil, List.length_nil, Nat.zero_mul])
          (by rw [List.length_replicate]; exact hlen)
          (by rw [Nat.zero_add]; exact hlen)
        simpa only [List.reverse_nil, List.flatten_nil, List.nil_append, Nat.zero_mul, List.drop_zero] using this

end Tabula.Filters
