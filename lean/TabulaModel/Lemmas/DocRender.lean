import TabulaModel.Model.DocRender
/-!
Lemmas about the shared rendering helpers: the "occurs in this order" relation on
strings, joins, the table writers.
-/
namespace Tabula.Render
open Tabula.Xml

/-- `InOrder ts s`: the strings `ts` occur in `s` one after the other, without overlap, in
the order of the list (what the harness's token-order oracle decides by search). -/
inductive InOrder : List Str → Str → Prop
  | nil (s : Str) : InOrder [] s
  | cons (t : Str) (ts : List Str) (a b : Str) : InOrder ts b → InOrder (t :: ts) (a ++ t ++ b)

theorem InOrder.prepend {ts : List Str} {s : Str} (p : Str) (h : InOrder ts s) : InOrder ts (p ++ s) := by
  cases h with
  | nil => exact .nil _
  | cons t ts a b hb =>
    have : p ++ (a ++ t ++ b) = (p ++ a) ++ t ++ b := by simp [List.append_assoc]
    rw [this]
    exact .cons t ts (p ++ a) b hb

theorem InOrder.append_right {ts : List Str} {s : Str} (q : Str) (h : InOrder ts s) : InOrder ts (s ++ q) := by
  induction h with
  | nil => exact .nil _
  | cons t ts a b _ ih =>
    have : a ++ t ++ b ++ q = a ++ t ++ (b ++ q) := by simp [List.append_assoc]
    rw [this]
    exact .cons t ts a (b ++ q) ih

theorem InOrder.append {ts us : List Str} {s u : Str} (h1 : InOrder ts s) (h2 : InOrder us u) :
    InOrder (ts ++ us) (s ++ u) := by
  induction h1 with
  | nil s => exact h2.prepend s
  | cons t ts a b _ ih =>
    have : a ++ t ++ b ++ u = a ++ t ++ (b ++ u) := by simp [List.append_assoc]
    rw [this]
    exact .cons t (ts ++ us) a (b ++ u) ih

theorem InOrder.single (t a b : Str) : InOrder [t] (a ++ t ++ b) := .cons t [] a b (.nil b)

theorem InOrder.self (t : Str) : InOrder [t] t := by
  have := InOrder.single t [] []
  simpa using this

/-- a string in which `ts` occur in order still holds them after text is put around it -/
theorem InOrder.wrap {ts : List Str} {s : Str} (p q : Str) (h : InOrder ts s) : InOrder ts (p ++ s ++ q) :=
  (h.prepend p).append_right q

/-- `Pieces tss ps`: the lists have the same length and piece number i holds the strings
`tss[i]` in order -/
inductive Pieces : List (List Str) → List Str → Prop
  | nil : Pieces [] []
  | cons {ts : List Str} {p : Str} {tss : List (List Str)} {ps : List Str} :
      InOrder ts p → Pieces tss ps → Pieces (ts :: tss) (p :: ps)

/-- pieces joined by a separator hold, in order, what each piece holds in order -/
theorem inOrder_joinWith (sep : Str) : ∀ (tss : List (List Str)) (pieces : List Str),
    Pieces tss pieces → InOrder tss.flatten (joinWith sep pieces) := by
  intro tss pieces h
  induction h with
  | nil => exact .nil _
  | @cons ts p tss' ps hp hrest ih =>
    cases hrest with
    | nil =>
      simp only [List.flatten_cons, List.flatten_nil, List.append_nil, joinWith]
      exact hp
    | @cons ts2 p2 tss2 ps2 hp2 hrest2 =>
      simp only [List.flatten_cons, joinWith]
      have := InOrder.append hp (ih.prepend sep)
      simpa [List.append_assoc] using this

/-- `joinWith` of one more piece -/
theorem joinWith_cons_cons (sep a b : Str) (rest : List Str) :
    joinWith sep (a :: b :: rest) = a ++ sep ++ joinWith sep (b :: rest) := rfl

/-! ### `ToText` -/

/-- the cell texts a table shows in plain text: every cell of every row, newlines as spaces -/
def tableTextCells (rows : List (List RCell)) : List Str := rows.flatten.map fun c => replaceNL c.text

theorem pieces_map_self {α : Type} (f : α → List Str) (g : α → Str) (h : ∀ x, InOrder (f x) (g x)) :
    ∀ l : List α, Pieces (l.map f) (l.map g) := by
  intro l
  induction l with
  | nil => exact .nil
  | cons x xs ih => exact .cons (h x) ih

/-- **table_text_in_order**. `ToText` shows the cells of the table row by row, cell by cell. -/
theorem tableToText_inOrder (rows : List (List RCell)) : InOrder (tableTextCells rows) (tableToText rows) := by
  unfold tableToText tableTextCells
  have hrow : ∀ row : List RCell, InOrder (row.map fun c => replaceNL c.text) (joinWith [9] (row.map fun c => replaceNL c.text)) := by
    intro row
    have hfl : (row.map fun c => [replaceNL c.text]).flatten = row.map fun c => replaceNL c.text := by
      induction row with
      | nil => rfl
      | cons c cs ih => simp [ih]
    have := inOrder_joinWith [9] (row.map fun c => [replaceNL c.text]) (row.map fun c => replaceNL c.text)
      (pieces_map_self (fun c : RCell => [replaceNL c.text]) (fun c => replaceNL c.text) (fun c => InOrder.self _) row)
    rw [hfl] at this
    exact this
  have hfl : (rows.map fun row => row.map fun c => replaceNL c.text).flatten = rows.flatten.map fun c => replaceNL c.text := by
    induction rows with
    | nil => rfl
    | cons r rs ih => simp
  have := inOrder_joinWith [10] (rows.map fun row => row.map fun c => replaceNL c.text)
    (rows.map fun row => joinWith [9] (row.map fun c => replaceNL c.text))
    (pieces_map_self _ _ hrow rows)
  rw [hfl] at this
  exact this

/-! ### `ToMarkdown` -/

/-- the text a Markdown cell shows -/
def mdCellText (c : RCell) : Str := trimSpace (escapePipes (replaceNL c.text))

/-- the cells of its own (not covered from above) of a row -/
def ownCells (row : List RCell) : List RCell := row.filter fun c => !c.covered

theorem mdCell_inOrder (c : RCell) : InOrder (if c.covered then [] else [mdCellText c]) (mdCell c) := by
  unfold mdCell
  cases hc : c.covered
  · simp only [Bool.false_eq_true, if_false]
    have := InOrder.single (mdCellText c) [32] ([32, 124] ++ repeatStr [32, 124] (spanOf c - 1))
    simpa [mdCellText, List.append_assoc] using this
  · simp only [if_true]
    exact .nil _

theorem flatMap_inOrder {α : Type} (f : α → List Str) (g : α → Str) (h : ∀ x, InOrder (f x) (g x)) :
    ∀ l : List α, InOrder (l.flatMap f) (l.flatMap g) := by
  intro l
  induction l with
  | nil => exact .nil _
  | cons x xs ih =>
    simp only [List.flatMap_cons]
    exact (h x).append ih

theorem ownCells_flatMap (row : List RCell) :
    (row.flatMap fun c => if c.covered then [] else [mdCellText c]) = (ownCells row).map mdCellText := by
  induction row with
  | nil => rfl
  | cons c cs ih =>
    simp only [List.flatMap_cons, ownCells, List.filter_cons]
    cases hc : c.covered
    · simp only [Bool.false_eq_true, if_false, Bool.not_false, if_true, List.map_cons]
      rw [ih]; rfl
    · simp only [if_true, Bool.not_true, Bool.false_eq_true, if_false]
      rw [ih]; rfl

/-- one Markdown row shows the texts of the row's own cells in order -/
theorem mdRow_inOrder (cc : Nat) (row : List RCell) : InOrder ((ownCells row).map mdCellText) (mdRow cc row) := by
  unfold mdRow
  rw [← ownCells_flatMap]
  have := flatMap_inOrder (fun c : RCell => if c.covered then [] else [mdCellText c]) mdCell mdCell_inOrder row
  have h2 := this.wrap [124] (repeatStr [32, 124] (cc - rowWidth row) ++ [10])
  simpa [List.append_assoc] using h2

/-- **table_markdown_in_order**. `ToMarkdown` shows the own cells of the table row by row,
cell by cell (when the table has any column). -/
theorem tableToMarkdown_inOrder (rows : List (List RCell)) (h : mdColCount rows ≠ 0) :
    InOrder (rows.flatMap fun row => (ownCells row).map mdCellText) (tableToMarkdown rows) := by
  cases rows with
  | nil => exact .nil _
  | cons first rest =>
    simp only [tableToMarkdown, h, if_false, List.flatMap_cons]
    have h1 := mdRow_inOrder (mdColCount (first :: rest)) first
    have h2 := flatMap_inOrder (fun row : List RCell => (ownCells row).map mdCellText) (mdRow (mdColCount (first :: rest)))
      (mdRow_inOrder _) rest
    have := h1.append (h2.prepend (mdSeparator (mdColCount (first :: rest))))
    simpa [List.append_assoc] using this

/-! ### `strings.Trim(s, "\n")` -/

theorem dropWhile_split (p : Nat → Bool) (s : Str) : ∃ a, s = a ++ s.dropWhile p ∧ ∀ c ∈ a, p c = true := by
  induction s with
  | nil => exact ⟨[], rfl, by simp⟩
  | cons c cs ih =>
    simp only [List.dropWhile_cons]
    cases hp : p c
    · exact ⟨[], rfl, by simp⟩
    · obtain ⟨a, ha, hall⟩ := ih
      refine ⟨c :: a, ?_, ?_⟩
      · simp only [if_true, List.cons_append]
        rw [← ha]
      · intro x hx
        cases hx with
        | head => exact hp
        | tail _ hm => exact hall x hm

/-- **trim_only_newlines**. `strings.Trim(s, "\n")` removes newlines at both ends and nothing else. -/
theorem trimNL_split (s : Str) : ∃ a b, s = a ++ trimNL s ++ b ∧ (∀ c ∈ a, c = 10) ∧ (∀ c ∈ b, c = 10) := by
  unfold trimNL
  obtain ⟨a, ha, hall⟩ := dropWhile_split (· == 10) s
  obtain ⟨b, hb, hbll⟩ := dropWhile_split (· == 10) (s.dropWhile (· == 10)).reverse
  refine ⟨a, b.reverse, ?_, ?_, ?_⟩
  · have h2 : s.dropWhile (· == 10) = ((s.dropWhile (· == 10)).reverse.dropWhile (· == 10)).reverse ++ b.reverse := by
      have := congrArg List.reverse hb
      simpa using this
    calc s = a ++ s.dropWhile (· == 10) := ha
      _ = a ++ (((s.dropWhile (· == 10)).reverse.dropWhile (· == 10)).reverse ++ b.reverse) := by rw [← h2]
      _ = _ := by simp [List.append_assoc]
  · intro c hc; simpa using hall c hc
  · intro c hc; simpa using hbll c (by simpa using hc)

end Tabula.Render

/-! ### `ToModelTable`: every own cell lands at (its row, its start column) -/
namespace Tabula.Render

/-- the grid column at which cell number `i` of a row starts: the widths before it added up -/
def startCol {α : Type} (width : α → Nat) (cells : List α) (i : Nat) : Nat := ((cells.take i).map width).sum

/-- `fillRowG` seen on the one grid row it writes -/
def fillLineG {α : Type} (width : α → Nat) (skip : α → Bool) (mk : α → MCell) (colCount : Nat) :
    List α → Nat → List MCell → List MCell
  | [], _, line => line
  | c :: rest, colIdx, line =>
    if colIdx ≥ colCount then line
    else if skip c then fillLineG width skip mk colCount rest (colIdx + width c) line
    else fillLineG width skip mk colCount rest (colIdx + width c) (line.set colIdx (mk c))

variable {α : Type} (width : α → Nat) (skip : α → Bool) (mk : α → MCell)

theorem setCell_other (g : List (List MCell)) (r r' c : Nat) (cell : MCell) (h : r ≠ r') :
    (setCell g r c cell)[r']? = g[r']? := by
  unfold setCell
  rw [List.getElem?_modify]
  cases g[r']? <;> simp [h]

theorem setCell_same (g : List (List MCell)) (r c : Nat) (cell : MCell) :
    (setCell g r c cell)[r]? = (g[r]?).map fun row => row.set c cell := by
  unfold setCell
  rw [List.getElem?_modify]
  cases g[r]? <;> simp

/-- a row of cells writes into its own grid row only -/
theorem fillRowG_other (cc rowIdx r : Nat) (h : rowIdx ≠ r) : ∀ (cells : List α) (col : Nat) (g : List (List MCell)),
    (fillRowG width skip mk cc rowIdx cells col g)[r]? = g[r]? := by
  intro cells
  induction cells with
  | nil => intro col g; rfl
  | cons c rest ih =>
    intro col g
    simp only [fillRowG]
    split
    · rfl
    · split
      · exact ih _ _
      · rw [ih, setCell_other _ _ _ _ _ h]

theorem fillRowG_same (cc rowIdx : Nat) : ∀ (cells : List α) (col : Nat) (g : List (List MCell)),
    (fillRowG width skip mk cc rowIdx cells col g)[rowIdx]? = (g[rowIdx]?).map (fillLineG width skip mk cc cells col) := by
  intro cells
  induction cells with
  | nil =>
    intro col g
    simp only [fillRowG]
    cases g[rowIdx]? with
    | none => rfl
    | some row => rfl
  | cons c rest ih =>
    intro col g
    simp only [fillRowG, fillLineG]
    split
    · cases g[rowIdx]? <;> simp
    · split
      · exact ih _ _
      · rw [ih, setCell_same]
        cases g[rowIdx]? <;> simp

theorem fillLineG_length (cc : Nat) : ∀ (cells : List α) (col : Nat) (line : List MCell),
    (fillLineG width skip mk cc cells col line).length = line.length := by
  intro cells
  induction cells with
  | nil => intro col line; rfl
  | cons c rest ih =>
    intro col line
    simp only [fillLineG]
    split
    · rfl
    · split
      · exact ih _ _
      · rw [ih, List.length_set]

/-- positions to the left of the running column are not written any more -/
theorem fillLineG_lt (cc : Nat) : ∀ (cells : List α) (col : Nat) (line : List MCell) (p : Nat), p < col →
    (fillLineG width skip mk cc cells col line)[p]? = line[p]? := by
  intro cells
  induction cells with
  | nil => intro col line p _; rfl
  | cons c rest ih =>
    intro col line p hp
    simp only [fillLineG]
    split
    · rfl
    · split
      · exact ih _ _ _ (by omega)
      · rw [ih _ _ _ (by omega), List.getElem?_set_ne (by omega)]

theorem startCol_zero (cells : List α) : startCol width cells 0 = 0 := by simp [startCol]

theorem startCol_succ (c : α) (rest : List α) (i : Nat) :
    startCol width (c :: rest) (i + 1) = width c + startCol width rest i := by
  simp [startCol]

/-- a cell ends inside its row -/
theorem startCol_add_le : ∀ (cells : List α) (i : Nat) (c : α), cells[i]? = some c →
    startCol width cells i + width c ≤ (cells.map width).sum := by
  intro cells
  induction cells with
  | nil => intro i c h; simp at h
  | cons c0 rest ih =>
    intro i c h
    cases i with
    | zero =>
      simp only [List.getElem?_cons_zero, Option.some.injEq] at h
      subst h
      simp [startCol_zero]
    | succ j =>
      simp only [List.getElem?_cons_succ] at h
      rw [startCol_succ]
      have := ih j c h
      simp only [List.map_cons, List.sum_cons]
      omega

/-- **own cell at its start column** (one row): cell number `i`, not covered, at least one
column wide, starting inside the grid, is found at its start column -/
theorem fillLineG_at (cc : Nat) : ∀ (cells : List α) (col : Nat) (line : List MCell) (i : Nat) (c : α),
    cells[i]? = some c → skip c = false → 1 ≤ width c →
    col + startCol width cells i < cc → col + startCol width cells i < line.length →
    (fillLineG width skip mk cc cells col line)[col + startCol width cells i]? = some (mk c) := by
  intro cells
  induction cells with
  | nil => intro col line i c h; simp at h
  | cons c0 rest ih =>
    intro col line i c hget hskip hw hcc hlen
    cases i with
    | zero =>
      simp only [List.getElem?_cons_zero, Option.some.injEq] at hget
      subst hget
      simp only [startCol_zero, Nat.add_zero] at hcc hlen ⊢
      simp only [fillLineG]
      have h1 : ¬ col ≥ cc := by omega
      simp only [h1, if_false, hskip, Bool.false_eq_true]
      rw [fillLineG_lt _ _ _ _ _ _ _ _ (by omega), List.getElem?_set_self hlen]
    | succ j =>
      simp only [List.getElem?_cons_succ] at hget
      rw [startCol_succ] at hcc hlen ⊢
      simp only [fillLineG]
      have h1 : ¬ col ≥ cc := by omega
      simp only [h1, if_false]
      have hidx : col + (width c0 + startCol width rest j) = (col + width c0) + startCol width rest j := by omega
      rw [hidx] at hcc hlen ⊢
      split
      · exact ih _ _ _ _ hget hskip hw hcc hlen
      · exact ih _ _ _ _ hget hskip hw hcc (by rw [List.length_set]; exact hlen)

/-- rows below the running row index are not written any more; row `k + r` is written by row `r` of the list -/
theorem fillRowsG_before (cc : Nat) : ∀ (rows : List (List α)) (k : Nat) (g : List (List MCell)) (r : Nat), r < k →
    (fillRowsG width skip mk cc rows k g)[r]? = g[r]? := by
  intro rows
  induction rows with
  | nil => intro k g r _; rfl
  | cons row rest ih =>
    intro k g r hr
    simp only [fillRowsG]
    rw [ih _ _ _ (by omega), fillRowG_other _ _ _ _ _ _ (by omega)]

theorem fillRowsG_row (cc : Nat) : ∀ (rows : List (List α)) (k : Nat) (g : List (List MCell)) (r : Nat) (row : List α),
    rows[r]? = some row →
    (fillRowsG width skip mk cc rows k g)[k + r]? = (g[k + r]?).map (fillLineG width skip mk cc row 0) := by
  intro rows
  induction rows with
  | nil => intro k g r row h; simp at h
  | cons row0 rest ih =>
    intro k g r row hget
    simp only [fillRowsG]
    cases r with
    | zero =>
      simp only [List.getElem?_cons_zero, Option.some.injEq] at hget
      subst hget
      simp only [Nat.add_zero]
      rw [fillRowsG_before _ _ _ _ _ _ _ _ (by omega), fillRowG_same]
    | succ j =>
      simp only [List.getElem?_cons_succ] at hget
      have hidx : k + (j + 1) = (k + 1) + j := by omega
      rw [hidx, ih _ _ _ _ hget, fillRowG_other _ _ _ _ _ _ (by omega)]

theorem newGrid_row (n cc r : Nat) (h : r < n) : (newGrid n cc)[r]? = some (List.replicate cc blankCell) := by
  simp [newGrid, List.getElem?_replicate, h]

/-- **model_grid_cell**. In the grid `ToModelTable` builds (`fillRowsG` over a fresh grid of
`colCount` columns), the cell number `i` of row `r` - not covered from above, at least one
column wide, starting inside the grid - stands at row `r`, column = the widths of the cells
before it in its row added up. -/
theorem model_grid_cell (cc : Nat) (rows : List (List α)) (r i : Nat) (row : List α) (c : α)
    (hr : rows[r]? = some row) (hc : row[i]? = some c) (hskip : skip c = false) (hw : 1 ≤ width c)
    (hcc : startCol width row i < cc) :
    ((fillRowsG width skip mk cc rows 0 (newGrid rows.length cc))[r]?).bind (·[startCol width row i]?) = some (mk c) := by
  have hlt : r < rows.length := by
    have := List.getElem?_eq_some_iff.mp hr
    exact this.1
  have h := fillRowsG_row width skip mk cc rows 0 (newGrid rows.length cc) r row hr
  simp only [Nat.zero_add] at h
  rw [h, newGrid_row _ _ _ hlt]
  simp only [Option.map_some, Option.bind_some]
  have := fillLineG_at width skip mk cc row 0 (List.replicate cc blankCell) i c hc hskip hw (by simpa using hcc) (by simpa using hcc)
  simpa using this

/-! ### the size of the grid `ToModelTable` builds -/

/-- the number of cells of a grid -/
def gridCells (g : List (List MCell)) : Nat := (g.map List.length).sum

theorem setCell_shape (g : List (List MCell)) (r c : Nat) (cell : MCell) :
    (setCell g r c cell).map List.length = g.map List.length := by
  unfold setCell
  apply List.ext_getElem?
  intro i
  simp only [List.getElem?_map, List.getElem?_modify]
  cases g[i]? with
  | none => rfl
  | some row =>
    by_cases h : r = i <;> simp [h]

theorem fillRowG_shape (cc rowIdx : Nat) : ∀ (cells : List α) (col : Nat) (g : List (List MCell)),
    (fillRowG width skip mk cc rowIdx cells col g).map List.length = g.map List.length := by
  intro cells
  induction cells with
  | nil => intro col g; rfl
  | cons c rest ih =>
    intro col g
    simp only [fillRowG]
    split
    · rfl
    · split
      · exact ih _ _
      · rw [ih, setCell_shape]

theorem fillRowsG_shape (cc : Nat) : ∀ (rows : List (List α)) (k : Nat) (g : List (List MCell)),
    (fillRowsG width skip mk cc rows k g).map List.length = g.map List.length := by
  intro rows
  induction rows with
  | nil => intro k g; rfl
  | cons row rest ih =>
    intro k g
    simp only [fillRowsG]
    rw [ih, fillRowG_shape]

theorem newGrid_shape (n cc : Nat) : (newGrid n cc).map List.length = List.replicate n cc := by
  simp [newGrid]

/-- **model_grid_shape**. The grid `ToModelTable` builds has one row per parsed row and
`colCount` cells in every row, whatever the cells say: `n x cc` cells. -/
theorem model_grid_shape (cc : Nat) (rows : List (List α)) :
    (fillRowsG width skip mk cc rows 0 (newGrid rows.length cc)).map List.length = List.replicate rows.length cc := by
  rw [fillRowsG_shape, newGrid_shape]

theorem model_grid_cells (cc : Nat) (rows : List (List α)) :
    gridCells (fillRowsG width skip mk cc rows 0 (newGrid rows.length cc)) = rows.length * cc := by
  unfold gridCells
  rw [model_grid_shape]
  simp
end Tabula.Render
