import TabulaModel.Model.CMap
import TabulaModel.Lemmas.UTF16
/-!
Lemmas about the CMap model: every text a parsed CMap can return consists of scalar values
(so its UTF-8 is valid), and the lookup rule.
-/
namespace Tabula.CMap
open Tabula.UTF16

/-- all elements are Unicode scalar values -/
def AllScalar (l : List Nat) : Prop := ∀ x ∈ l, IsScalar x

theorem allScalar_nil : AllScalar [] := by intro x hx; simp at hx

theorem allScalar_cons {a : Nat} {l : List Nat} (ha : IsScalar a) (hl : AllScalar l) : AllScalar (a :: l) := by
  intro x hx
  rcases List.mem_cons.mp hx with h | h
  · subst h; exact ha
  · exact hl x h

theorem allScalar_append {a b : List Nat} (ha : AllScalar a) (hb : AllScalar b) : AllScalar (a ++ b) := by
  intro x hx
  rcases List.mem_append.mp hx with h | h
  · exact ha x h
  · exact hb x h

/-! ## decoders yield scalars -/

theorem cmapDecodeUnits_scalar (us : List Nat) : AllScalar (cmapDecodeUnits us) := by
  induction us using cmapDecodeUnits.induct with
  | case1 => exact allScalar_nil
  | case2 u => simp only [cmapDecodeUnits]; exact allScalar_cons (toRune_isScalar u) allScalar_nil
  | case3 u l rest hh hl ih =>
    simp only [cmapDecodeUnits, hh, hl, if_true]
    exact allScalar_cons (combine_isScalar u l hh hl) ih
  | case4 u l rest hh hl ih =>
    simp only [cmapDecodeUnits, hh, hl, if_true]
    exact allScalar_cons (toRune_isScalar u) ih
  | case5 u l rest hh ih =>
    simp only [cmapDecodeUnits, hh]
    exact allScalar_cons (toRune_isScalar u) ih

theorem stdDecodeUnits_scalar (us : List Nat) : AllScalar (stdDecodeUnits us) := by
  induction us using stdDecodeUnits.induct with
  | case1 => exact allScalar_nil
  | case2 u => simp only [stdDecodeUnits]; exact allScalar_cons (toRune_isScalar u) allScalar_nil
  | case3 u l rest h ih =>
    simp only [stdDecodeUnits, h, if_true]
    simp only [Bool.and_eq_true] at h
    exact allScalar_cons (combine_isScalar u l h.1 h.2) ih
  | case4 u l rest h ih =>
    simp only [stdDecodeUnits, h]
    exact allScalar_cons (toRune_isScalar u) ih

theorem hexToUnicode_scalar (h : Str) (u : List Nat) (hu : hexToUnicode h = some u) : AllScalar u := by
  unfold hexToUnicode at hu
  simp only at hu
  split at hu
  · simp at hu
  · rename_i data _
    split at hu
    · unfold cmapDecodeUTF16BE at hu
      split at hu
      · simp at hu
      · simp only [Option.some.injEq] at hu; subst hu; exact cmapDecodeUnits_scalar _
    · unfold cmapDecodeUTF16BE at hu
      split at hu
      · simp at hu
      · simp only [Option.some.injEq] at hu; subst hu; exact cmapDecodeUnits_scalar _
    · simp only [Option.some.injEq] at hu; subst hu
      exact allScalar_cons (toRune_isScalar _) allScalar_nil
    · simp at hu

/-! ## the parser keeps `CharsOK` -/

/-- every direct mapping of the CMap is a list of scalar values -/
def CharsOK (cm : CMap) : Prop := ∀ p ∈ cm.chars, AllScalar p.2

theorem charsOK_empty : CharsOK {} := by intro p hp; simp at hp

theorem charsOK_setChar {cm : CMap} (h : CharsOK cm) (c : Nat) (u : List Nat) (hu : AllScalar u) :
    CharsOK (cm.setChar c u) := by
  intro p hp
  simp only [CMap.setChar, List.mem_cons] at hp
  rcases hp with hp | hp
  · subst hp; exact hu
  · exact h p hp

theorem charsOK_of_chars_eq {cm cm' : CMap} (h : CharsOK cm) (e : cm'.chars = cm.chars) : CharsOK cm' := by
  intro p hp; rw [e] at hp; exact h p hp

theorem charsOK_noteWidth {cm : CMap} (h : CharsOK cm) (s : Str) : CharsOK (cm.noteWidth s) := by
  unfold CMap.noteWidth; split
  · exact charsOK_of_chars_eq h rfl
  · exact h

theorem charsOK_bfCharStep {cm : CMap} (h : CharsOK cm) (s d : Str) : CharsOK (bfCharStep s d cm) := by
  unfold bfCharStep
  split
  · exact h
  · simp only
    split
    · exact charsOK_noteWidth h s
    · split
      · exact charsOK_noteWidth h s
      · rename_i u hu
        exact charsOK_setChar (charsOK_noteWidth h s) _ u (hexToUnicode_scalar _ u hu)

theorem charsOK_bfCharPairs (l : List Str) (cm : CMap) (h : CharsOK cm) : CharsOK (bfCharPairs l cm) := by
  induction l, cm using bfCharPairs.induct with
  | case1 s d rest cm ih => simp only [bfCharPairs]; exact ih (charsOK_bfCharStep h s d)
  | case2 l cm hne => 
    unfold bfCharPairs
    split
    · rename_i s d rest; exact absurd rfl (hne s d rest)
    · exact h

theorem charsOK_bfRangeStep {cm : CMap} (h : CharsOK cm) (s e d : Str) : CharsOK (bfRangeStep s e d cm) := by
  unfold bfRangeStep
  split
  · exact h
  · simp only
    split
    · exact charsOK_of_chars_eq (charsOK_noteWidth h s) rfl
    · exact charsOK_noteWidth h s

theorem charsOK_bfRangeTriples (l : List Str) (cm : CMap) (h : CharsOK cm) : CharsOK (bfRangeTriples l cm) := by
  induction l, cm using bfRangeTriples.induct with
  | case1 s e d rest cm ih => simp only [bfRangeTriples]; exact ih (charsOK_bfRangeStep h s e d)
  | case2 l cm hne =>
    unfold bfRangeTriples
    split
    · rename_i s e d rest; exact absurd rfl (hne s e d rest)
    · exact h

theorem charsOK_arrayLoop (l : List Str) (cur stop : Nat) (cm : CMap) (h : CharsOK cm) :
    CharsOK (arrayLoop l cur stop cm) := by
  induction l generalizing cur cm with
  | nil => exact h
  | cons a t ih =>
    simp only [arrayLoop]
    split
    · exact ih cur cm h
    · apply ih
      split
      · rename_i u hu
        split
        · exact charsOK_setChar h _ u (hexToUnicode_scalar _ u hu)
        · exact h
      · exact h

theorem charsOK_addBfRangeArray (s e : Str) (arr : List Str) (cm : CMap) (h : CharsOK cm) :
    CharsOK (addBfRangeArray s e arr cm) := by
  unfold addBfRangeArray
  split
  · exact charsOK_arrayLoop _ _ _ _ h
  · exact h

theorem charsOK_tokenStep (l l' : List Tok) (cm cm' : CMap) (h : CharsOK cm)
    (hs : tokenStep l cm = some (l', cm')) : CharsOK cm' := by
  unfold tokenStep at hs
  split at hs
  · simp only [Option.some.injEq, Prod.mk.injEq] at hs
    rw [← hs.2]; exact charsOK_bfRangeStep h _ _ _
  · split at hs
    · simp only [Option.some.injEq, Prod.mk.injEq] at hs
      rw [← hs.2]; exact charsOK_addBfRangeArray _ _ _ _ h
    · simp only [Option.some.injEq, Prod.mk.injEq] at hs
      rw [← hs.2]; exact h
  · simp only [Option.some.injEq, Prod.mk.injEq] at hs
    rw [← hs.2]; exact h
  · simp at hs

theorem charsOK_tokenLoop (f : Nat) (l : List Tok) (cm : CMap) (h : CharsOK cm) : CharsOK (tokenLoop f l cm) := by
  induction f generalizing l cm with
  | zero => simp only [tokenLoop]; exact h
  | succ f ih =>
    simp only [tokenLoop]
    split
    · rename_i l' cm' hs
      exact ih l' cm' (charsOK_tokenStep l l' cm cm' h hs)
    · exact h

theorem charsOK_parseBfRangeSection (sec : Str) (cm : CMap) (h : CharsOK cm) : CharsOK (parseBfRangeSection sec cm) := by
  unfold parseBfRangeSection
  split
  · exact charsOK_tokenLoop _ _ _ h
  · exact charsOK_bfRangeTriples _ _ h

theorem charsOK_sectionsLoop (kb ke : Str) (g : Str → CMap → CMap) (hg : ∀ s cm, CharsOK cm → CharsOK (g s cm))
    (f : Nat) (content : Str) (cm : CMap) (h : CharsOK cm) : CharsOK (sectionsLoop kb ke g f content cm) := by
  induction f generalizing content cm with
  | zero => simp only [sectionsLoop]; exact h
  | succ f ih =>
    simp only [sectionsLoop]
    split
    · exact h
    · split
      · exact h
      · exact ih _ _ (hg _ _ h)

theorem charsOK_codeSpaceLines (ls : List Str) (cm : CMap) (h : CharsOK cm) : CharsOK (codeSpaceLines ls cm) := by
  induction ls with
  | nil => exact h
  | cons l rest ih =>
    simp only [codeSpaceLines]
    split
    · exact ih
    · split
      · exact charsOK_of_chars_eq h rfl
      · exact ih

/-- every direct mapping of a parsed CMap consists of scalar values -/
theorem charsOK_parse (data : Str) : CharsOK (parseCMapData data) := by
  unfold parseCMapData parseBfRange parseBfChar
  apply charsOK_sectionsLoop _ _ _ charsOK_parseBfRangeSection
  apply charsOK_sectionsLoop _ _ _ (fun s cm h => charsOK_bfCharPairs _ cm h)
  unfold parseCodeSpaceRange
  split
  · exact charsOK_empty
  · simp only
    split
    · exact charsOK_empty
    · exact charsOK_codeSpaceLines _ _ charsOK_empty

/-! ## lookups yield scalars -/

theorem rangeText_scalar (r : Range) (c : Nat) : AllScalar (rangeText r c) := by
  unfold rangeText
  simp only
  split
  · exact stdDecodeUnits_scalar _
  · exact allScalar_cons (toRune_isScalar _) allScalar_nil

theorem lookupRanges_scalar (rs : List Range) (c : Nat) : AllScalar (lookupRanges rs c) := by
  induction rs with
  | nil => exact allScalar_nil
  | cons r t ih =>
    simp only [lookupRanges]
    split
    · exact rangeText_scalar r c
    · exact ih

theorem getChar_mem (cm : CMap) (c : Nat) (u : List Nat) (h : cm.getChar c = some u) : ∃ p ∈ cm.chars, p.2 = u := by
  unfold CMap.getChar at h
  cases hf : cm.chars.find? (fun p => p.1 == c) with
  | none => simp [hf] at h
  | some p =>
    simp only [hf, Option.map_some, Option.some.injEq] at h
    exact ⟨p, List.mem_of_find?_eq_some hf, h⟩

theorem lookup_scalar (cm : CMap) (h : CharsOK cm) (c : Nat) : AllScalar (lookup cm c) := by
  unfold lookup
  split
  · rename_i u hu
    obtain ⟨p, hp, e⟩ := getChar_mem cm c u hu
    rw [← e]; exact h p hp
  · exact lookupRanges_scalar _ _

theorem emit_scalar (cm : CMap) (h : CharsOK cm) (c : Nat) : AllScalar (emit cm c) := by
  unfold emit
  simp only
  split
  · exact lookup_scalar cm h c
  · split
    · exact allScalar_cons (toRune_isScalar _) allScalar_nil
    · exact allScalar_nil

theorem allScalar_flatMap {α : Type} (l : List α) (g : α → List Nat) (hg : ∀ a, AllScalar (g a)) :
    AllScalar (l.flatMap g) := by
  intro x hx
  obtain ⟨a, _, ha⟩ := List.mem_flatMap.mp hx
  exact hg a x ha

theorem lookupWidth_scalar (cm : CMap) (h : CharsOK cm) (w f : Nat) (data : List Nat) :
    AllScalar (lookupWidth cm w f data) := by
  induction f generalizing data with
  | zero => simp only [lookupWidth]; exact allScalar_nil
  | succ f ih =>
    cases data with
    | nil => simp only [lookupWidth]; exact allScalar_nil
    | cons b rest =>
      simp only [lookupWidth]
      split
      · exact allScalar_flatMap _ _ (emit_scalar cm h)
      · exact allScalar_append (emit_scalar cm h _) (ih _)

theorem lookupFallback_scalar (cm : CMap) (h : CharsOK cm) (data : List Nat) :
    AllScalar (lookupFallback cm data) := by
  induction data using lookupFallback.induct cm with
  | case1 => simp only [lookupFallback]; exact allScalar_nil
  | case2 b u hu => 
    simp only [lookupFallback]
    rw [if_pos hu]
    exact lookup_scalar cm h b
  | case3 b u hu =>
    simp only [lookupFallback]
    rw [if_neg hu]
    exact allScalar_cons (toRune_isScalar _) allScalar_nil
  | case4 b b2 rest u1 h1 ih =>
    simp only [lookupFallback]
    rw [if_pos h1]
    exact allScalar_append (lookup_scalar cm h b) ih
  | case5 b b2 rest u1 h1 u2 h2 ih =>
    simp only [lookupFallback]
    rw [if_neg h1, if_pos h2]
    exact allScalar_append (lookup_scalar cm h _) ih
  | case6 b b2 rest u1 h1 u2 h2 ih =>
    simp only [lookupFallback]
    rw [if_neg h1, if_neg h2]
    exact allScalar_cons (toRune_isScalar _) ih

/-- `LookupString` of a CMap whose direct mappings are scalar lists returns scalars only -/
theorem lookupString_scalar (cm : CMap) (h : CharsOK cm) (data : List Nat) : AllScalar (lookupString cm data) := by
  unfold lookupString
  split
  · exact lookupWidth_scalar cm h _ _ _
  · exact lookupFallback_scalar cm h _

end Tabula.CMap
