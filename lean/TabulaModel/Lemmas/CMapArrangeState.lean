import TabulaModel.Lemmas.CMapArrangeDefs
/-!
Arrangement independence at the level of the parsed STATE, for every `CMap` value (well formed
or not): what `Lookup` / `LookupString` return depends on the direct map as a function and on
the (pairwise disjoint) ranges as a set - not on the order in which they are stored; a range may
be cut in two, or written out as direct entries, without changing any lookup.
-/
namespace Tabula.CMapArrange
open Tabula.UTF16 Tabula.CMap
open Tabula.CMapCompose (Functional)

/-! ## the direct map -/

theorem find_key_functional (l : List (Nat × List Nat)) (hf : Functional l) (c : Nat) (u : List Nat) :
    (l.find? fun p => p.1 == c) = some (c, u) ↔ (c, u) ∈ l := by
  constructor
  · intro h
    exact List.mem_of_find?_eq_some h
  · intro hm
    cases h : l.find? (fun p => p.1 == c) with
    | none =>
      have h2 := List.find?_eq_none.mp h (c, u) hm
      simp at h2
    | some p =>
      have hpm := List.mem_of_find?_eq_some h
      have hp1 := List.find?_some h
      have hp1' : p.1 = c := by simpa using hp1
      rw [hf p hpm (c, u) hm hp1']

theorem functional_perm {l l' : List (Nat × List Nat)} (hf : Functional l) (hp : List.Perm l l') :
    Functional l' := by
  intro a ha b hb hab
  exact hf a (hp.mem_iff.mpr ha) b (hp.mem_iff.mpr hb) hab

/-- the direct map read as a function: for a functional association list, `getChar` is membership -/
theorem getChar_functional (cm : CMap) (hf : Functional cm.chars) (c : Nat) (u : List Nat) :
    cm.getChar c = some u ↔ (c, u) ∈ cm.chars := by
  unfold CMap.getChar
  constructor
  · intro h
    obtain ⟨p, hp, hpu⟩ := Option.map_eq_some_iff.mp h
    have hpm := List.mem_of_find?_eq_some hp
    have hp1 : p.1 = c := by simpa using List.find?_some hp
    have : p = (c, u) := by
      cases p with
      | mk a b =>
        simp only at hp1 hpu
        rw [hp1, hpu]
    rw [← this]
    exact hpm
  · intro hm
    rw [(find_key_functional cm.chars hf c u).mpr hm]
    rfl

/-- permuting the entries of the direct map (distinct codes, or equal entries) changes no lookup -/
theorem getChar_perm (cm cm' : CMap) (hf : Functional cm.chars) (hp : List.Perm cm.chars cm'.chars) (c : Nat) :
    cm.getChar c = cm'.getChar c := by
  apply Option.ext
  intro u
  rw [getChar_functional cm hf c u, getChar_functional cm' (functional_perm hf hp) c u]
  exact hp.mem_iff

/-! ## the ranges -/

theorem rangesDisjoint_symm {a b : Range} (h : RangesDisjoint a b) : RangesDisjoint b a := by
  intro c hc
  exact h c ⟨hc.2, hc.1⟩

/-- no range contains the code: nothing is found -/
theorem lookupRanges_none (rs : List Range) (c : Nat)
    (h : ∀ r ∈ rs, ¬ (r.start ≤ c ∧ c ≤ r.stop)) : lookupRanges rs c = [] := by
  induction rs with
  | nil => rfl
  | cons a t ih =>
    unfold lookupRanges
    rw [if_neg (h a (by simp))]
    exact ih (fun r hr => h r (by simp [hr]))

/-- among pairwise disjoint ranges, ANY range that contains the code decides the lookup -/
theorem lookupRanges_of_mem (rs : List Range) (hd : rs.Pairwise RangesDisjoint) (r : Range) (hr : r ∈ rs)
    (c : Nat) (hc : r.start ≤ c ∧ c ≤ r.stop) : lookupRanges rs c = rangeText r c := by
  induction rs with
  | nil => cases hr
  | cons a t ih =>
    rw [List.pairwise_cons] at hd
    unfold lookupRanges
    rcases List.mem_cons.mp hr with hra | hrt
    · subst hra
      rw [if_pos hc]
    · have hna : ¬ (a.start ≤ c ∧ c ≤ a.stop) := fun ha => hd.1 r hrt c ⟨ha, hc⟩
      rw [if_neg hna]
      exact ih hd.2 hrt

/-- permuting pairwise disjoint ranges changes no lookup -/
theorem lookupRanges_perm (rs rs' : List Range) (hd : rs.Pairwise RangesDisjoint) (hp : List.Perm rs rs') (c : Nat) :
    lookupRanges rs c = lookupRanges rs' c := by
  have hd' : rs'.Pairwise RangesDisjoint := hd.perm hp (fun h => rangesDisjoint_symm h)
  by_cases hex : ∃ r, r ∈ rs ∧ (r.start ≤ c ∧ c ≤ r.stop)
  · obtain ⟨r, hr, hc⟩ := hex
    rw [lookupRanges_of_mem rs hd r hr c hc, lookupRanges_of_mem rs' hd' r (hp.mem_iff.mp hr) c hc]
  · have hn : ∀ r ∈ rs, ¬ (r.start ≤ c ∧ c ≤ r.stop) := fun r hr hc => hex ⟨r, hr, hc⟩
    have hn' : ∀ r ∈ rs', ¬ (r.start ≤ c ∧ c ≤ r.stop) := fun r hr hc => hex ⟨r, hp.mem_iff.mpr hr, hc⟩
    rw [lookupRanges_none rs c hn, lookupRanges_none rs' c hn']

/-- `Lookup` depends on the direct map as a function and on the ranges as a set, not on their order -/
theorem lookup_perm (cm cm' : CMap) (hf : Functional cm.chars) (hpc : List.Perm cm.chars cm'.chars)
    (hd : cm.ranges.Pairwise RangesDisjoint) (hpr : List.Perm cm.ranges cm'.ranges) (c : Nat) :
    lookup cm c = lookup cm' c := by
  unfold lookup
  rw [getChar_perm cm cm' hf hpc c, lookupRanges_perm cm.ranges cm'.ranges hd hpr c]

/-! ## `LookupString` only uses `Lookup` and the widths -/

theorem emit_congr (cm cm' : CMap) (hl : ∀ c, lookup cm c = lookup cm' c) (c : Nat) :
    emit cm c = emit cm' c := by
  unfold emit
  rw [hl c]

theorem effectiveWidth_congr (cm cm' : CMap)
    (hbw : cm.byteWidth = cm'.byteWidth) (habw : cm.actualByteWidth = cm'.actualByteWidth) :
    effectiveWidth cm = effectiveWidth cm' := by
  unfold effectiveWidth
  rw [hbw, habw]

theorem lookupWidth_congr (cm cm' : CMap) (hl : ∀ c, lookup cm c = lookup cm' c) (w fuel : Nat)
    (data : List Nat) : lookupWidth cm w fuel data = lookupWidth cm' w fuel data := by
  have he : emit cm = emit cm' := funext (emit_congr cm cm' hl)
  induction fuel generalizing data with
  | zero => simp [lookupWidth]
  | succ f ih =>
    cases data with
    | nil => simp [lookupWidth]
    | cons b rest =>
      simp only [lookupWidth]
      rw [ih, he]

theorem lookupFallback_congr (cm cm' : CMap) (hl : ∀ c, lookup cm c = lookup cm' c)
    (data : List Nat) : lookupFallback cm data = lookupFallback cm' data := by
  have key : ∀ n (data : List Nat), data.length ≤ n → lookupFallback cm data = lookupFallback cm' data := by
    intro n
    induction n with
    | zero =>
      intro data hlen
      cases data with
      | nil => simp [lookupFallback]
      | cons b t => simp at hlen
    | succ n ih =>
      intro data hlen
      match data, hlen with
      | [], _ => simp [lookupFallback]
      | [b], _ => simp only [lookupFallback, hl]
      | b :: b2 :: rest, hlen =>
        have h1 : (b2 :: rest).length ≤ n := by simp at hlen ⊢; omega
        have h2 : rest.length ≤ n := by simp at hlen ⊢; omega
        simp only [lookupFallback, hl, ih _ h1, ih _ h2]
  exact key data.length data (Nat.le_refl _)

/-- `LookupString` is determined by `Lookup` and the two width fields - on the fixed-width path AND on the width-less fallback path, for every input -/
theorem lookupString_congr (cm cm' : CMap) (hl : ∀ c, lookup cm c = lookup cm' c)
    (hbw : cm.byteWidth = cm'.byteWidth) (habw : cm.actualByteWidth = cm'.actualByteWidth) (data : List Nat) :
    lookupString cm data = lookupString cm' data := by
  unfold lookupString
  rw [effectiveWidth_congr cm cm' hbw habw, lookupWidth_congr cm cm' hl, lookupFallback_congr cm cm' hl]

/-- **arrangement independence at the level of the parsed state, for all CMaps** -/
theorem lookupString_perm (cm cm' : CMap) (hf : Functional cm.chars) (hpc : List.Perm cm.chars cm'.chars)
    (hd : cm.ranges.Pairwise RangesDisjoint) (hpr : List.Perm cm.ranges cm'.ranges)
    (hbw : cm.byteWidth = cm'.byteWidth) (habw : cm.actualByteWidth = cm'.actualByteWidth) (data : List Nat) :
    lookupString cm data = lookupString cm' data :=
  lookupString_congr cm cm' (lookup_perm cm cm' hf hpc hd hpr) hbw habw data

/-! ## other ways of writing the same range -/

/-- a range cut in two at any code is the same range: `<lo> <hi> <t>` = `<lo> <m> <t>` + `<m+1> <hi> <t advanced by m+1-lo>` for a one-unit target (numeric start) -/
theorem lookupRanges_split (r : Range) (hu : r.units = []) (m : Nat) (h1 : r.start ≤ m) (h2 : m < r.stop)
    (rest : List Range) (c : Nat) :
    lookupRanges (r :: rest) c =
      lookupRanges (⟨r.start, m, r.startUnicode, []⟩ :: ⟨m + 1, r.stop, r.startUnicode + (m + 1 - r.start), []⟩ :: rest) c := by
  have hrt : ∀ (s e u : Nat), rangeText ⟨s, e, u, []⟩ c = [toRune ((u + (c - s)) % 4294967296)] := by
    intro s e u
    simp [rangeText]
  have hr : rangeText r c = [toRune ((r.startUnicode + (c - r.start)) % 4294967296)] := by
    simp [rangeText, hu]
  simp only [lookupRanges]
  rw [hrt, hrt, hr]
  by_cases ha : r.start ≤ c ∧ c ≤ r.stop
  · by_cases hb : c ≤ m
    · rw [if_pos ha, if_pos ⟨ha.1, hb⟩]
    · rw [if_pos ha, if_neg (by omega), if_pos (by omega)]
      have : r.startUnicode + (m + 1 - r.start) + (c - (m + 1)) = r.startUnicode + (c - r.start) := by omega
      rw [this]
  · rw [if_neg ha, if_neg (by omega), if_neg (by omega)]

/-- the direct entries of a written-out run of codes: the entry of a code inside the run -/
theorem find_written_in (s n : Nat) (f : Nat → List Nat) (c : Nat) (hc : s ≤ c ∧ c < s + n) :
    (((List.range n).map fun i => (s + i, f (s + i))).find? fun p => p.1 == c) = some (c, f c) := by
  apply (find_key_functional _ _ c (f c)).mpr
  · apply List.mem_map.mpr
    refine ⟨c - s, List.mem_range.mpr (by omega), ?_⟩
    have : s + (c - s) = c := by omega
    rw [this]
  · intro a ha b hb hab
    obtain ⟨i, _, hi⟩ := List.mem_map.mp ha
    obtain ⟨j, _, hj⟩ := List.mem_map.mp hb
    subst hi
    subst hj
    simp only at hab
    have : i = j := by omega
    rw [this]

/-- … and no entry for a code outside it -/
theorem find_written_out (s n : Nat) (f : Nat → List Nat) (c : Nat) (hc : ¬ (s ≤ c ∧ c < s + n)) :
    (((List.range n).map fun i => (s + i, f (s + i))).find? fun p => p.1 == c) = none := by
  apply List.find?_eq_none.mpr
  intro x hx
  obtain ⟨i, hi, hxi⟩ := List.mem_map.mp hx
  have hi' := List.mem_range.mp hi
  subst hxi
  simp only [beq_iff_eq]
  omega

/-- an offset range written out as direct entries (what an array target or bfchar entries store) is the same map: putting the text of every code of the first range into the direct map and dropping the range changes no lookup of a code that has no direct entry yet -/
theorem lookup_range_as_chars (cm : CMap) (r : Range) (rest : List Range) (hr : cm.ranges = r :: rest)
    (c : Nat) (hc : cm.getChar c = none) :
    lookup cm c =
      lookup { cm with chars := cm.chars ++ ((List.range (r.stop + 1 - r.start)).map fun i => (r.start + i, rangeText r (r.start + i))),
                       ranges := rest } c := by
  have hfind : (cm.chars.find? fun p => p.1 == c) = none := by
    unfold CMap.getChar at hc
    exact Option.map_eq_none_iff.mp hc
  unfold lookup
  rw [hc, hr]
  unfold CMap.getChar
  simp only []
  rw [List.find?_append, hfind, Option.none_or]
  by_cases hin : r.start ≤ c ∧ c ≤ r.stop
  · rw [find_written_in r.start (r.stop + 1 - r.start) (rangeText r) c (by omega)]
    simp only [Option.map_some, lookupRanges]
    rw [if_pos hin]
  · rw [find_written_out r.start (r.stop + 1 - r.start) (rangeText r) c (by omega)]
    simp only [Option.map_none, lookupRanges]
    rw [if_neg hin]

end Tabula.CMapArrange
