import TabulaModel.Lemmas.Chunk
/-!
Helper lemmas for property C12: which level a heading-like paragraph gets. `chunkPage` finds it
in two ways — the first heading with a text on a page through the document's table of contents
(`isHeadingElement` / `getHeadingLevel`), a later one through `resolveRepeatedHeadings` — and
both are the one rule `specHeadings`: the k-th heading with a text on a page takes the level of
the k-th layout heading of that page with that text (the last one if there are fewer).
-/
namespace Tabula.Chunk

/-- the entries a page contributes to `Document.TableOfContents` -/
def tocOfPage (p : Page) : List TOCEntry :=
  match p.layout with
  | none => []
  | some hs => hs.map fun h => ⟨h.1, h.2, p.number⟩

theorem tableOfContents_eq (d : Doc) : tableOfContents d = d.flatMap tocOfPage := rfl

/-- what `chunkPage` takes an element of the (resolved) page for: a heading with a level and
text, or no heading -/
def headingOf (toc : List TOCEntry) (page : Int) : Elem → Option (Int × Str)
  | .heading l t => some (l, t)
  | .para t => if isHeadingElement t toc page then some (getHeadingLevel t toc page, t) else none
  | _ => none

/-- the rule: a `model.Heading` keeps its level; a paragraph whose trimmed text is the text of
layout headings of the page is the heading with the level of the k-th of them (clamped), k being
the number of headings with that text met before it on the page; nothing else is a heading -/
def specHeadings (layout : List (Int × Str)) : List Str → List Elem → List (Option (Int × Str))
  | _, [] => []
  | seen, .heading l t :: es => some (l, t) :: specHeadings layout (trim t :: seen) es
  | seen, .para t :: es =>
    if levelsOf layout (trim t) = [] then none :: specHeadings layout seen es
    else some (nthClamped (levelsOf layout (trim t)) (seen.count (trim t)) 1, t)
      :: specHeadings layout (trim t :: seen) es
  | seen, .list _ _ :: es => none :: specHeadings layout seen es
  | seen, .table _ :: es => none :: specHeadings layout seen es
  | seen, .image _ :: es => none :: specHeadings layout seen es

/-- `pg` is a page of `d` and no other page has its number -/
def UniquePage (d : Doc) (pg : Page) : Prop :=
  ∃ pre post, d = pre ++ pg :: post ∧ ∀ q ∈ pre ++ post, q.number ≠ pg.number

theorem tocOfPage_other (q : Page) (n : Int) (h : q.number ≠ n) :
    ∀ e ∈ tocOfPage q, (e.page == n) = false := by
  intro e he
  unfold tocOfPage at he
  cases hl : q.layout with
  | none => simp [hl] at he
  | some hs =>
    simp only [hl, List.mem_map] at he
    obtain ⟨x, _, rfl⟩ := he
    simpa using h

theorem any_of_other (l : List TOCEntry) (t : Str) (n : Int) (h : ∀ e ∈ l, (e.page == n) = false) :
    l.any (tocMatches t n) = false := by
  rw [List.any_eq_false]
  intro e he
  simp [tocMatches, h e he]

theorem find_of_other (l : List TOCEntry) (t : Str) (n : Int) (h : ∀ e ∈ l, (e.page == n) = false) :
    l.find? (tocMatches t n) = none := by
  rw [List.find?_eq_none]
  intro e he
  simp [tocMatches, h e he]

theorem flatMap_other (ps : List Page) (n : Int) (h : ∀ q ∈ ps, q.number ≠ n) :
    ∀ e ∈ ps.flatMap tocOfPage, (e.page == n) = false := by
  intro e he
  obtain ⟨q, hq, heq⟩ := List.mem_flatMap.mp he
  exact tocOfPage_other q n (h q hq) e heq

/-- the table-of-contents lookup on a page with a number of its own sees that page's layout
headings only -/
theorem toc_lookup (d : Doc) (pg : Page) (hu : UniquePage d pg) (t : Str) :
    isHeadingElement t (tableOfContents d) pg.number = (tocOfPage pg).any (tocMatches t pg.number) ∧
    getHeadingLevel t (tableOfContents d) pg.number =
      (match (tocOfPage pg).find? (tocMatches t pg.number) with | some e => e.level | none => 1) := by
  obtain ⟨pre, post, rfl, hne⟩ := hu
  have hpre := flatMap_other pre pg.number (fun q hq => hne q (List.mem_append.mpr (Or.inl hq)))
  have hpost := flatMap_other post pg.number (fun q hq => hne q (List.mem_append.mpr (Or.inr hq)))
  unfold isHeadingElement getHeadingLevel
  rw [tableOfContents_eq]
  simp only [List.flatMap_append, List.flatMap_cons, List.any_append, List.find?_append,
    any_of_other _ t _ hpre, any_of_other _ t _ hpost, find_of_other _ t _ hpre, find_of_other _ t _ hpost,
    Bool.false_or, Bool.or_false, Option.none_or, Option.or_none]
  exact ⟨trivial, rfl⟩

theorem page_any (hs : List (Int × Str)) (n : Int) (t : Str) :
    (hs.map fun h => (⟨h.1, h.2, n⟩ : TOCEntry)).any (tocMatches t n) = !(levelsOf hs (trim t)).isEmpty := by
  induction hs with
  | nil => rfl
  | cons h hs ih =>
    simp only [List.map_cons, List.any_cons, ih, levelsOf, List.filter_cons, tocMatches, BEq.rfl, Bool.true_and]
    by_cases hm : (trim h.2 == trim t) = true
    · simp [hm]
    · simp only [hm, Bool.false_or, Bool.false_eq_true, if_false]

theorem page_find (hs : List (Int × Str)) (n : Int) (t : Str) :
    (match (hs.map fun h => (⟨h.1, h.2, n⟩ : TOCEntry)).find? (tocMatches t n) with
      | some e => e.level | none => 1) = nthClamped (levelsOf hs (trim t)) 0 1 := by
  induction hs with
  | nil => rfl
  | cons h hs ih =>
    simp only [List.map_cons, List.find?_cons, levelsOf, List.filter_cons, tocMatches, BEq.rfl, Bool.true_and]
    by_cases hm : (trim h.2 == trim t) = true
    · simp [hm, nthClamped]
    · simp only [hm, Bool.false_eq_true, if_false]
      exact ih

/-- **the level of every heading of a page**, `model.Heading` or heading-like paragraph, first
occurrence of its text or repetition, is the one `specHeadings` names -/
theorem heading_levels (d : Doc) (pg : Page) (hs : List (Int × Str)) (hl : pg.layout = some hs)
    (hu : UniquePage d pg) :
    (resolveRepeatedHeadings pg).map (headingOf (tableOfContents d) pg.number) = specHeadings hs [] pg.elems := by
  have hlook := toc_lookup d pg hu
  have htoc : tocOfPage pg = hs.map fun h => (⟨h.1, h.2, pg.number⟩ : TOCEntry) := by
    unfold tocOfPage; rw [hl]
  unfold resolveRepeatedHeadings
  rw [hl]
  simp only
  generalize ([] : List Str) = seen
  induction pg.elems generalizing seen with
  | nil => rfl
  | cons e es ih =>
    cases e with
    | heading l t => simp only [resolveElems, specHeadings, List.map_cons, headingOf, ih]
    | para t =>
      simp only [resolveElems, specHeadings]
      have h1 := (hlook t).1
      have h2 := (hlook t).2
      rw [htoc, page_any] at h1
      rw [htoc, page_find] at h2
      by_cases hls : levelsOf hs (trim t) = []
      · rw [if_pos hls, if_pos hls, List.map_cons, ih]
        simp [headingOf, h1, hls]
      · rw [if_neg hls, if_neg hls, List.map_cons, ih]
        have hne : (levelsOf hs (trim t)).isEmpty = false := by
          cases hx : levelsOf hs (trim t) with
          | nil => exact absurd hx hls
          | cons _ _ => rfl
        by_cases hn : List.count (trim t) seen = 0
        · simp [headingOf, h1, h2, hne, hn]
        · simp [headingOf, hn]
    | list o items => simp only [resolveElems, specHeadings, List.map_cons, headingOf, ih]
    | table rows => simp only [resolveElems, specHeadings, List.map_cons, headingOf, ih]
    | image alt => simp only [resolveElems, specHeadings, List.map_cons, headingOf, ih]

/-- a page without layout has no heading-like paragraphs -/
theorem heading_levels_nolayout (d : Doc) (pg : Page) (hl : pg.layout = none) (hu : UniquePage d pg) (t : Str) :
    isHeadingElement t (tableOfContents d) pg.number = false := by
  rw [(toc_lookup d pg hu t).1]
  unfold tocOfPage; rw [hl]; rfl

end Tabula.Chunk
