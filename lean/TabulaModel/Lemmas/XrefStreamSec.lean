import TabulaModel.Lemmas.XrefIndirect
import TabulaModel.Lemmas.XrefLines
import TabulaModel.Lemmas.XrefFile
/-!
`ParseXRef` on a cross-reference stream object laid out `N G obj EOL << … >> stream …`.
-/
namespace Tabula.XrefFile
open Tabula.Pdf Tabula.A1 Tabula.Pdf.Prs Tabula.Reader Tabula.XrefBytes

def eolUnits : Eol → Sep
  | .lf => [.ws 10]
  | .crlf => [.ws 13, .ws 10]
  | .cr => [.ws 13]

theorem renderSep_eolUnits (e : Eol) : renderSep (eolUnits e) = e.bytes := by
  cases e <;> simp [eolUnits, renderSep, SepUnit.render, Eol.bytes]

theorem sepOk_eolUnits (e : Eol) : SepOk (eolUnits e) := by
  cases e <;> intro u hu <;> simp [eolUnits] at hu <;> (try rcases hu with rfl | rfl) <;> (try subst hu) <;>
    simp [SepUnit.Ok, isWs]

/-- `N G obj`, the first line of the object -/
def objLine (num gen : Nat) : Str := dec num ++ 32 :: (dec gen ++ 32 :: kwObj)

/-- non-space ASCII -/
def Word (s : Str) : Prop := ∀ c ∈ s, c < 128 ∧ isSpace c = false

theorem fieldsAuxU_word (ds : Str) (h : Word ds) (rest cur : Str) (g : Nat) :
    fieldsAuxU (ds.length + g) (ds ++ rest) cur = fieldsAuxU g rest (ds.reverse ++ cur) := by
  induction ds generalizing cur with
  | nil => simp
  | cons d ds ih =>
    have hd := h d (by simp)
    have e : (d :: ds).length + g = (ds.length + g) + 1 := by simp; omega
    rw [e]
    simp only [List.cons_append, fieldsAuxU]
    rw [uspLen_ascii d _ hd.1]
    simp only [hd.2, Bool.false_eq_true, if_false, if_true]
    rw [ih (fun c hc => h c (by simp [hc]))]
    simp

theorem word_digits (s : Str) (h : IsDigits s) : Word s := fun c hc =>
  ⟨by have := h c hc; omega, digit_not_space c (h c hc)⟩

theorem fieldsU_three (a b c : Str) (ha : Word a) (hb : Word b) (hc : Word c) (hane : a ≠ []) (hbne : b ≠ [])
    (hcne : c ≠ []) : fieldsU (a ++ 32 :: (b ++ 32 :: c)) = [a, b, c] := by
  unfold fieldsU
  have e : (a ++ 32 :: (b ++ 32 :: c)).length + 1 = a.length + (((b.length + ((c.length + 1) + 1)) + 1)) := by
    simp; omega
  have h32 : ∀ r, uspLen (32 :: r) = 1 := by intro r; simp [uspLen, isSpace]
  have hrev : ∀ x : Str, x ≠ [] → (x.reverse ++ []).isEmpty = false := by
    intro x hx; cases x with
    | nil => exact absurd rfl hx
    | cons y ys => simp
  rw [e, fieldsAuxU_word a ha]
  simp only [fieldsAuxU, h32, Nat.succ_ne_zero, if_false, hrev a hane, Bool.false_eq_true, List.drop_one,
    List.tail_cons, List.append_nil, List.reverse_reverse]
  rw [fieldsAuxU_word b hb]
  simp only [fieldsAuxU, h32, Nat.succ_ne_zero, if_false, hrev b hbne, Bool.false_eq_true, List.drop_one,
    List.tail_cons, List.append_nil, List.reverse_reverse]
  have := fieldsAuxU_word c hc [] [] 1
  simp only [List.append_nil] at this
  rw [this]
  cases c with
  | nil => exact absurd rfl hcne
  | cons x xs => simp [fieldsAuxU, hane, hbne]

theorem word_kwObj : Word kwObj := by
  intro c hc; simp [kwObj] at hc; rcases hc with rfl | rfl | rfl <;> decide

theorem objLine_fields (num gen : Nat) : fieldsU (objLine num gen) = [dec num, dec gen, kwObj] := by
  obtain ⟨d, ds, hd, _, _⟩ := dec_head num
  obtain ⟨d', ds', hd', _, _⟩ := dec_head gen
  exact fieldsU_three _ _ _ (word_digits _ (dec_digits num)) (word_digits _ (dec_digits gen)) word_kwObj
    (by rw [hd]; simp) (by rw [hd']; simp) (by decide)

theorem objLine_word_or_space (num gen : Nat) : ∀ c ∈ objLine num gen, c < 128 ∧ c ≠ 10 ∧ c ≠ 13 := by
  intro c hc
  unfold objLine kwObj at hc
  simp only [List.mem_append, List.mem_cons] at hc
  rcases hc with h | h | h | h | h | h | h | h
  · have := dec_digits num c h; omega
  · omega
  · have := dec_digits gen c h; omega
  · omega
  · omega
  · omega
  · omega
  · simp at h

theorem trimSpaceU_objLine (num gen : Nat) : trimSpaceU (objLine num gen) = objLine num gen := by
  rw [trimSpaceU_ascii _ (fun c hc => (objLine_word_or_space num gen c hc).1)]
  obtain ⟨d, ds, hd, h1, h2⟩ := dec_head num
  apply trimSpace_of_ends (objLine num gen) d 106 (ds ++ 32 :: (dec gen ++ 32 :: kwObj))
  · unfold objLine; rw [hd]; simp
  · unfold objLine kwObj
    rw [List.getLast?_append]
    have : (32 :: (dec gen ++ [32, 111, 98, 106])).getLast? = some 106 := by
      have e : (32 :: (dec gen ++ [32, 111, 98, 106])) = (32 :: dec gen) ++ [32, 111, 98, 106] := by simp
      rw [e, List.getLast?_append]
      simp
    simp [this]
  · exact digit_not_space d ⟨h1, h2⟩
  · decide

theorem objLine_ne_xref (num gen : Nat) : objLine num gen ≠ kwXref := by
  obtain ⟨d, ds, hd, h1, h2⟩ := dec_head num
  unfold objLine kwXref
  rw [hd]
  intro h
  simp at h
  omega

theorem objLine_length (num gen : Nat) (hn : num ≤ maxInt64) (hg : gen ≤ maxInt64) : (objLine num gen).length ≤ 65534 := by
  unfold objLine kwObj
  have h1 : (dec num).length ≤ 19 := dec_length_le num 18 (by unfold maxInt64 at hn; omega)
  have h2 : (dec gen).length ≤ 19 := dec_length_le gen 18 (by unfold maxInt64 at hg; omega)
  simp; omega

end Tabula.XrefFile
