import TabulaModel.Lemmas.PdfCoreProgress
import TabulaModel.Lemmas.PdfCSProgress
/-!
White space and comments in front of ANY input (legal or not) change nothing for either parser: both
parsers are functions of the input only through its first token and what follows it.  The fuel /
loop bounds of the models depend on the input length; that they do not matter is the progress result
(`Lemmas/PdfCoreProgress.lean`, `Lemmas/PdfCSProgress.lean`).  Core Lean only.
-/
namespace Tabula.Pdf
namespace Space
open Prog

/-! ### the document-level parser -/

theorem tok_ws (w rest : Str) (h : AllWs w) : tok (w ++ rest) = tok rest := by
  rw [tok, Tok.lexSkip_ws _ w rest h]
  exact lexSkip_eq_tok rest _ (by simp only [List.length_append]; omega)

/-- a comment up to and including its end-of-line marker (CR, LF or CR LF) is skipped -/
theorem tok_comment (t e rest : Str) (ht : ∀ c ∈ t, c ≠ 10 ∧ c ≠ 13) (he : e = [10] ∨ e = [13] ∨ e = [13, 10]) :
    tok (37 :: (t ++ e) ++ rest) = tok rest := by
  rw [tok, List.length_append, List.length_cons, Tok.lexSkip_after_comment _ t e rest ht he]
  exact lexSkip_eq_tok rest _ (by omega)

/-- a comment that runs to the end of the input: the end of input follows -/
theorem tok_comment_eof (t : Str) (ht : ∀ c ∈ t, c ≠ 10 ∧ c ≠ 13) : tok (37 :: t) = some (.eof, []) := by
  have hb : ∀ t : Str, (∀ c ∈ t, c ≠ 10 ∧ c ≠ 13) → (commentBody t).2 = [] := by
    intro t
    induction t with
    | nil => intro _; rfl
    | cons c t ih =>
      intro h
      have hc := h c (by simp)
      simp only [commentBody, hc.1, hc.2, if_false]
      exact ih (fun x hx => h x (by simp [hx]))
  rw [tok, List.length_cons, Tok.lexSkip_comment, hb t ht]
  rfl

/-- one `ParseObject` call depends on the input only through its first token and what follows it -/
theorem coreParse_congr (x y : Str) (h : tok x = tok y) : coreParse x = coreParse y := by
  have hx := coreParse_fuel_irrelevant x (fuelFor x + fuelFor y) (by unfold fuelFor; omega)
  have hy := coreParse_fuel_irrelevant y (fuelFor x + fuelFor y) (by unfold fuelFor; omega)
  rw [← hx, ← hy]
  cases ht : tok x with
  | none =>
    have e1 := stateAt_tok_none x ht
    have e2 := stateAt_tok_none y (by rw [← h, ht])
    unfold stateAt at e1 e2
    have hf : fuelFor x + fuelFor y = (fuelFor x + fuelFor y - 1) + 1 := by unfold fuelFor; omega
    rw [e1, e2, hf, parseObject, parseObject]
  | some p =>
    obtain ⟨t, r⟩ := p
    have := stateAt_congr x y t r ht (by rw [← h, ht])
    unfold stateAt at this
    rw [this]

/-- … and so does a whole run of `ParseObject` calls -/
theorem coreParseAll_congr (x y : Str) (h : tok x = tok y) : coreParseAll x = coreParseAll y := by
  have hx := coreParseAll_stable x (fuelFor x + fuelFor y) (x.length + y.length + 2)
    (by omega) (by omega)
  have hy := coreParseAll_stable y (fuelFor x + fuelFor y) (x.length + y.length + 2)
    (by omega) (by omega)
  have key : parseSeq (fuelFor x + fuelFor y) (x.length + y.length + 2) (newParser x) [] =
      parseSeq (fuelFor x + fuelFor y) (x.length + y.length + 2) (newParser y) [] := by
    cases ht : tok x with
    | none =>
      have e1 := stateAt_tok_none x ht
      have e2 := stateAt_tok_none y (by rw [← h, ht])
      unfold stateAt at e1 e2
      have hf : fuelFor x + fuelFor y = (fuelFor x + fuelFor y - 1) + 1 := by unfold fuelFor; omega
      rw [e1, e2, hf, parseSeq, parseSeq, parseObject, parseObject]
    | some p =>
      obtain ⟨t, r⟩ := p
      have := stateAt_congr x y t r ht (by rw [← h, ht])
      unfold stateAt at this
      rw [this]
  unfold coreParseAll
  rw [← hx, ← hy, key]

/-! ### the content-stream parser -/

theorem skipSpace_allWs (w rest : Str) (h : AllWs w) : CS.skipSpace (w ++ rest) = CS.skipSpace rest := by
  induction w with
  | nil => rfl
  | cons c w ih =>
    rw [List.cons_append, skipSpace_ws c _ (h c (by simp))]
    exact ih (fun d hd => h d (by simp [hd]))

theorem skipLine_text (t s : Str) (ht : ∀ c ∈ t, c ≠ 10 ∧ c ≠ 13) : CS.skipLine (t ++ s) = CS.skipLine s := by
  induction t with
  | nil => rfl
  | cons c t ih =>
    have hc := ht c (by simp)
    rw [List.cons_append, CS.skipLine]
    have : ¬ (c = 13 ∨ c = 10) := by omega
    rw [if_neg this]
    exact ih (fun x hx => ht x (by simp [hx]))

theorem skipSpace_comment_eol (t e rest : Str) (ht : ∀ c ∈ t, c ≠ 10 ∧ c ≠ 13)
    (he : e = [10] ∨ e = [13] ∨ e = [13, 10]) :
    CS.skipSpace (37 :: (t ++ e) ++ rest) = CS.skipSpace rest := by
  rw [List.cons_append, skipSpace_comment, List.append_assoc, skipLine_text t _ ht]
  rcases he with h | h | h <;> subst h
  · simp only [List.singleton_append, CS.skipLine, or_true, if_true]
    exact skipSpace_ws 10 rest (by decide)
  · simp only [List.singleton_append, CS.skipLine, true_or, if_true]
    exact skipSpace_ws 13 rest (by decide)
  · simp only [List.cons_append, List.nil_append, CS.skipLine, true_or, if_true]
    rw [skipSpace_ws 13 _ (by decide), skipSpace_ws 10 _ (by decide)]

/-- one operand read depends on the input only through what `skipSpace` leaves -/
theorem cs_operand_congr (f d : Nat) (x y : Str) (h : CS.skipSpace x = CS.skipSpace y) :
    CS.parseOperand f d x = CS.parseOperand f d y := by
  cases f with
  | zero => rw [CS.parseOperand, CS.parseOperand]
  | succ f => rw [CS.parseOperand, CS.parseOperand, h]

theorem skipSpace_len_le (x : Str) : (CS.skipSpace x).length ≤ x.length := (skipSpace_suffix x).length_le

/-- `Parse` depends on the stream only through what `skipSpace` leaves of it -/
theorem csParse_congr (x y : Str) (h : CS.skipSpace x = CS.skipSpace y) : CS.csParse x = CS.csParse y := by
  have hx := csParse_stable x (x.length + y.length + 2) (CS.fuelFor x + CS.fuelFor y) (by omega) (by omega)
  have hy := csParse_stable y (x.length + y.length + 2) (CS.fuelFor x + CS.fuelFor y) (by omega) (by omega)
  rw [← hx, ← hy]
  have hn : x.length + y.length + 2 = (x.length + y.length + 1) + 1 := rfl
  rw [hn, CS.parseLoop, CS.parseLoop, h]

end Space
end Tabula.Pdf
