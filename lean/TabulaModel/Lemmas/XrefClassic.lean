import TabulaModel.Lemmas.XrefLines
import TabulaModel.Lemmas.XrefFile
/-!
The classic cross-reference table as a writer lays it out (ISO 32000-1 7.5.4), and the proof
that `parseClassic` reads it back.
-/
namespace Tabula.XrefFile
open Tabula.XrefBytes Tabula.A1

/-- an entry of a classic table as authored -/
structure CEnt where
  off : Nat
  gen : Nat
  inUse : Bool
  deriving Repr, DecidableEq

def CEnt.raw (e : CEnt) : RawEntry := entryOf ((e.off : Int), (e.gen : Int), e.inUse)

/-- ten digits of offset, five of generation -/
def CEnt.Ok (e : CEnt) : Prop := e.off < 10 ^ 10 ∧ e.gen < 10 ^ 5

/-- the two-byte entry terminators: SP LF, SP CR, CR LF -/
inductive EntEol | spLf | spCr | crLf
  deriving DecidableEq, Repr

def EntEol.pad : EntEol → Str
  | .spLf => [32]
  | .spCr => [32]
  | .crLf => []

def EntEol.eol : EntEol → Eol
  | .spLf => .lf
  | .spCr => .cr
  | .crLf => .crlf

/-- an entry line as the scanner delivers it -/
def entryLine (ee : EntEol) (e : CEnt) : Str := fmtEntry e.off e.gen e.inUse ++ ee.pad

/-- the entries of a subsection, then `k` -/
def renderEntries (ee : EntEol) : List CEnt → Str → Str
  | [], k => k
  | e :: es, k => entryLine ee e ++ (ee.eol.bytes ++ renderEntries ee es k)

/-- a subsection: first object number and its entries -/
abbrev CSub := Nat × List CEnt

/-- `first count` -/
def headerLine (s : CSub) : Str := dec s.1 ++ 32 :: dec s.2.length

def renderSubs (eol : Eol) (ee : EntEol) : List CSub → Str → Str
  | [], k => k
  | s :: ss, k => headerLine s ++ (eol.bytes ++ renderEntries ee s.2 (renderSubs eol ee ss k))

/-- `xref` EOL subsections `trailer` EOL dictionary EOL, then `rest` -/
def renderClassic (eol : Eol) (ee : EntEol) (subs : List CSub) (trailer rest : Str) : Str :=
  kwXref ++ (eol.bytes ++ renderSubs eol ee subs (kwTrailer ++ (eol.bytes ++ (trailer ++ (eol.bytes ++ rest)))))

def classicSection : List CSub → RawSection
  | [] => []
  | s :: ss => numberFrom (s.1 : Int) (s.2.map CEnt.raw) ++ classicSection ss

def subLines (ee : EntEol) : List CSub → List Str
  | [] => []
  | s :: ss => headerLine s :: (s.2.map (entryLine ee) ++ subLines ee ss)

def CSub.Ok (s : CSub) : Prop := s.1 + s.2.length < 9223372036854775808 ∧ ∀ e ∈ s.2, e.Ok

/-! ### characters of the lines -/

/-- digits, space, `n`, `f` -/
def TableChar (c : Nat) : Prop := (48 ≤ c ∧ c ≤ 57) ∨ c = 32 ∨ c = 110 ∨ c = 102

theorem tableChar_noEol (s : Str) (h : ∀ c ∈ s, TableChar c) : NoEol s := fun c hc => by
  have := h c hc; unfold TableChar at this; omega

theorem tableChar_ascii (s : Str) (h : ∀ c ∈ s, TableChar c) : Ascii s := fun c hc => by
  have := h c hc; unfold TableChar at this; omega

theorem entryLine_chars (ee : EntEol) (e : CEnt) : ∀ c ∈ entryLine ee e, TableChar c := by
  intro c hc
  unfold entryLine fmtEntry at hc
  simp only [List.mem_append, List.mem_singleton] at hc
  unfold TableChar
  rcases hc with ((((h | h) | h) | h) | h) | h
  · have := padDec_digits 10 e.off c h; omega
  · omega
  · have := padDec_digits 5 e.gen c h; omega
  · omega
  · cases hb : e.inUse <;> simp [hb] at h <;> omega
  · cases ee <;> simp [EntEol.pad] at h <;> omega

theorem headerLine_chars (s : CSub) : ∀ c ∈ headerLine s, TableChar c := by
  intro c hc
  unfold headerLine at hc
  simp only [List.mem_append, List.mem_cons] at hc
  unfold TableChar
  rcases hc with h | h | h
  · have := dec_digits s.1 c h; omega
  · omega
  · have := dec_digits s.2.length c h; omega

theorem entryLine_length (ee : EntEol) (e : CEnt) (h : e.Ok) : (entryLine ee e).length ≤ 19 := by
  unfold entryLine fmtEntry
  have hl1 : (padDec 10 e.off).length = 10 := padDec_length 10 e.off (dec_length_le e.off 9 h.1)
  have hl2 : (padDec 5 e.gen).length = 5 := padDec_length 5 e.gen (dec_length_le e.gen 4 h.2)
  cases ee <;> simp [EntEol.pad, hl1, hl2]

theorem headerLine_length (s : CSub) (h : s.Ok) : (headerLine s).length ≤ 39 := by
  unfold headerLine
  have h1 : (dec s.1).length ≤ 19 := dec_length_le s.1 18 (by have := h.1; omega)
  have h2 : (dec s.2.length).length ≤ 19 := dec_length_le s.2.length 18 (by have := h.1; omega)
  simp; omega

/-- does not start with LF (what may follow a lone CR) -/
def NotLf (r : Str) : Prop := ∀ t, r ≠ 10 :: t

theorem notLf_cons (c : Nat) (t : Str) (h : c ≠ 10) : NotLf (c :: t) := by
  intro t' e; simp at e; exact h e.1

theorem followOk_of_notLf (e : Eol) (r : Str) (h : NotLf r) : e.FollowOk r := fun _ => h

theorem padDec_head (w n : Nat) : ∃ d t, padDec w n = d :: t ∧ 48 ≤ d ∧ d ≤ 57 := by
  unfold padDec
  obtain ⟨d, ds, hd, h1, h2⟩ := dec_head n
  cases hk : w - (dec n).length with
  | zero => exact ⟨d, ds, by simp [hd], h1, h2⟩
  | succ k => exact ⟨48, List.replicate k 48 ++ dec n, by simp [List.replicate_succ], by omega, by omega⟩

theorem entryLine_notLf (ee : EntEol) (e : CEnt) (k : Str) : NotLf (entryLine ee e ++ k) := by
  unfold entryLine fmtEntry
  obtain ⟨d, t, hd, h1, _⟩ := padDec_head 10 e.off
  rw [hd]
  simp only [List.cons_append]
  exact notLf_cons d _ (by omega)

theorem headerLine_notLf (s : CSub) (k : Str) : NotLf (headerLine s ++ k) := by
  unfold headerLine
  obtain ⟨d, t, hd, h1, _⟩ := dec_head s.1
  rw [hd]
  simp only [List.cons_append]
  exact notLf_cons d _ (by omega)

theorem renderEntries_notLf (ee : EntEol) (es : List CEnt) (k : Str) (hk : NotLf k) :
    NotLf (renderEntries ee es k) := by
  cases es with
  | nil => exact hk
  | cons e es => exact entryLine_notLf ee e _

theorem renderSubs_notLf (eol : Eol) (ee : EntEol) (ss : List CSub) (k : Str) (hk : NotLf k) :
    NotLf (renderSubs eol ee ss k) := by
  cases ss with
  | nil => exact hk
  | cons s ss => exact headerLine_notLf s _

/-! ### the scanner on the table -/

theorem linesOf_entries (ee : EntEol) (es : List CEnt) (hes : ∀ e ∈ es, e.Ok) (k : Str) (hk : NotLf k) :
    linesOf (renderEntries ee es k) = (es.map (entryLine ee) ++ (linesOf k).1, (linesOf k).2) := by
  induction es with
  | nil => simp [renderEntries]
  | cons e es ih =>
    have hok := hes e (by simp)
    simp only [renderEntries]
    rw [linesOf_line (entryLine ee e) (tableChar_noEol _ (entryLine_chars ee e))
      (by have := entryLine_length ee e hok; omega) ee.eol _
      (followOk_of_notLf _ _ (renderEntries_notLf ee es k hk))]
    rw [ih (fun x hx => hes x (by simp [hx]))]
    simp

theorem linesOf_subs (eol : Eol) (ee : EntEol) (ss : List CSub) (hss : ∀ s ∈ ss, s.Ok) (k : Str)
    (hk : NotLf k) :
    linesOf (renderSubs eol ee ss k) = (subLines ee ss ++ (linesOf k).1, (linesOf k).2) := by
  induction ss with
  | nil => simp [renderSubs, subLines]
  | cons s ss ih =>
    have hok := hss s (by simp)
    simp only [renderSubs]
    have hk' := renderSubs_notLf eol ee ss k hk
    rw [linesOf_line (headerLine s) (tableChar_noEol _ (headerLine_chars s))
      (by have := headerLine_length s hok; omega) eol _
      (followOk_of_notLf _ _ (renderEntries_notLf ee s.2 _ hk'))]
    rw [linesOf_entries ee s.2 hok.2 _ hk', ih (fun x hx => hss x (by simp [hx]))]
    simp [subLines]

theorem kwXref_noEol : NoEol kwXref := by
  intro c hc; simp [kwXref] at hc; omega
theorem kwTrailer_noEol : NoEol kwTrailer := by
  intro c hc; simp [kwTrailer] at hc; omega

theorem kwTrailer_notLf (k : Str) : NotLf (kwTrailer ++ k) := by
  unfold kwTrailer
  simp only [List.cons_append]
  exact notLf_cons 116 _ (by decide)

/-- the lines of a rendered table: `xref`, headers and entries, `trailer`, the dictionary
line, then whatever the rest of the file yields -/
theorem linesOf_classic (eol : Eol) (ee : EntEol) (subs : List CSub) (hss : ∀ s ∈ subs, s.Ok)
    (trailer rest : Str) (htr : NoEol trailer) (hlen : trailer.length ≤ 65534)
    (htl : NotLf (trailer ++ (eol.bytes ++ rest))) (hrest : eol.FollowOk rest) :
    linesOf (renderClassic eol ee subs trailer rest) =
      (kwXref :: (subLines ee subs ++ kwTrailer :: trailer :: (linesOf rest).1), (linesOf rest).2) := by
  unfold renderClassic
  have hk := kwTrailer_notLf (eol.bytes ++ (trailer ++ (eol.bytes ++ rest)))
  rw [linesOf_line kwXref kwXref_noEol (by decide) eol _
    (followOk_of_notLf _ _ (renderSubs_notLf eol ee subs _ hk))]
  rw [linesOf_subs eol ee subs hss _ hk]
  rw [linesOf_line kwTrailer kwTrailer_noEol (by decide) eol _ (followOk_of_notLf _ _ htl)]
  rw [linesOf_line trailer htr hlen eol rest hrest]

end Tabula.XrefFile

/-! ### `parseTraditionalXRef` on those lines -/
namespace Tabula.XrefFile
open Tabula.XrefBytes Tabula.A1 Tabula.Pdf

theorem classicLoop_zero_num (tl : Bool) (ls : List Str) (n : Int) (acc : RawSection) :
    classicLoop tl ls 0 n acc = classicLoop tl ls 0 0 acc := by
  cases ls <;> simp [classicLoop]

theorem parseEntryU_entryLine (ee : EntEol) (e : CEnt) (h : e.Ok) :
    parseEntryU (entryLine ee e) = some ((e.off : Int), (e.gen : Int), e.inUse) := by
  rw [parseEntryU_ascii _ (tableChar_ascii _ (entryLine_chars ee e))]
  exact parseEntry_fmtEntry e.off e.gen e.inUse ee.pad h.1 h.2

theorem classicLoop_entries (tl : Bool) (ee : EntEol) (es : List CEnt) (hes : ∀ e ∈ es, e.Ok)
    (more : List Str) :
    ∀ (num : Int) (acc : RawSection), 0 ≤ num → num + es.length < 9223372036854775808 →
      classicLoop tl (es.map (entryLine ee) ++ more) es.length num acc =
        classicLoop tl more 0 0 (acc ++ numberFrom num (es.map CEnt.raw)) := by
  induction es with
  | nil =>
    intro num acc _ _
    simp only [List.map_nil, List.nil_append, List.length_nil, numberFrom, List.append_nil]
    exact classicLoop_zero_num tl more num acc
  | cons e es ih =>
    intro num acc h0 hb
    simp only [List.length_cons] at hb
    simp only [List.map_cons, List.cons_append, List.length_cons, classicLoop,
      parseEntryU_entryLine ee e (hes e (by simp))]
    rw [wrap64_id (num + 1) (by omega) (by omega),
      ih (fun x hx => hes x (by simp [hx])) (num + 1) _ (by omega) (by omega)]
    simp [numberFrom, CEnt.raw]

theorem dec_getLast (n : Nat) : ∃ d, (dec n).getLast? = some d ∧ 48 ≤ d ∧ d ≤ 57 := by
  obtain ⟨d, ds, hd, _, _⟩ := dec_head n
  have hne : dec n ≠ [] := by rw [hd]; simp
  refine ⟨(dec n).getLast hne, List.getLast?_eq_some_getLast hne, ?_⟩
  exact dec_digits n _ (List.getLast_mem hne)

theorem trimSpaceU_headerLine (s : CSub) : trimSpaceU (headerLine s) = headerLine s := by
  rw [trimSpaceU_ascii _ (tableChar_ascii _ (headerLine_chars s))]
  obtain ⟨d, ds, hd, h1, h2⟩ := dec_head s.1
  obtain ⟨l, hl, h3, h4⟩ := dec_getLast s.2.length
  apply trimSpace_of_ends (headerLine s) d l (ds ++ 32 :: dec s.2.length)
  · unfold headerLine; rw [hd]; simp
  · unfold headerLine
    obtain ⟨d', ds', hd', _, _⟩ := dec_head s.2.length
    rw [List.getLast?_append]
    have : (32 :: dec s.2.length).getLast? = some l := by
      rw [hd'] at hl ⊢
      simpa [List.getLast?_cons_cons] using hl
    rw [this]; simp
  · exact digit_not_space d ⟨h1, h2⟩
  · exact digit_not_space l ⟨h3, h4⟩

theorem headerLine_ne_nil (s : CSub) : headerLine s ≠ [] := by
  unfold headerLine
  obtain ⟨d, ds, hd, _, _⟩ := dec_head s.1
  rw [hd]; simp

theorem headerLine_ne_trailer (s : CSub) : headerLine s ≠ kwTrailer := by
  unfold headerLine kwTrailer
  obtain ⟨d, ds, hd, h1, h2⟩ := dec_head s.1
  rw [hd]
  intro h
  simp at h
  omega

theorem classicLoop_header (tl : Bool) (s : CSub) (hs : s.Ok) (ls : List Str) (n : Int) (acc : RawSection) :
    classicLoop tl (headerLine s :: ls) 0 n acc = classicLoop tl ls s.2.length (s.1 : Int) acc := by
  simp only [classicLoop, trimSpaceU_headerLine, headerLine_ne_nil, headerLine_ne_trailer, if_false]
  have hf : fieldsU (headerLine s) = [dec s.1, dec s.2.length] := by
    unfold headerLine
    obtain ⟨d, ds, hd, _, _⟩ := dec_head s.1
    obtain ⟨d', ds', hd', _, _⟩ := dec_head s.2.length
    exact fieldsU_two _ _ (dec_digits _) (dec_digits _) (by rw [hd]; simp) (by rw [hd']; simp)
  have hb := hs.1
  rw [hf]
  simp only [atoi_dec s.1 (by unfold maxInt64; omega), atoi_dec s.2.length (by unfold maxInt64; omega),
    Int.toNat_natCast]

theorem classicLoop_subs (tl : Bool) (ee : EntEol) (subs : List CSub) (hss : ∀ s ∈ subs, s.Ok)
    (more : List Str) :
    ∀ acc : RawSection,
      classicLoop tl (subLines ee subs ++ more) 0 0 acc =
        classicLoop tl more 0 0 (acc ++ classicSection subs) := by
  induction subs with
  | nil => intro acc; simp [subLines, classicSection]
  | cons s ss ih =>
    intro acc
    have hok := hss s (by simp)
    simp only [subLines, List.cons_append, List.append_assoc]
    rw [classicLoop_header tl s hok,
      classicLoop_entries tl ee s.2 hok.2 _ (s.1 : Int) acc (by omega) (by have := hok.1; omega),
      ih (fun x hx => hss x (by simp [hx]))]
    simp [classicSection]

theorem containsGtGt_cons (c : Nat) (r : Str) (h : containsGtGt r = true) : containsGtGt (c :: r) = true := by
  unfold containsGtGt
  split
  · rfl
  · rename_i heq
    simp at heq
    obtain ⟨_, rfl⟩ := heq
    exact h
  · rename_i heq; simp at heq

theorem containsGtGt_append (a b : Str) (h : containsGtGt b = true) : containsGtGt (a ++ b) = true := by
  induction a with
  | nil => exact h
  | cons c a ih => exact containsGtGt_cons c _ ih

theorem trimSpaceU_kwTrailer : trimSpaceU kwTrailer = kwTrailer := by decide
theorem trimSpaceU_kwXref : trimSpaceU kwXref = kwXref := by decide

/-- the `trailer` line followed by a one-line dictionary -/
theorem classicLoop_trailer (tl : Bool) (trailer : Str) (kv : Reader.Dict) (st : PState) (more : List Str)
    (n : Int) (acc : RawSection) (hgt : containsGtGt trailer = true)
    (hp : coreParse (trailer ++ [10]) = .ok (.dict kv, st)) :
    classicLoop tl (kwTrailer :: trailer :: more) 0 n acc = .ok (acc, kv) := by
  have hne : kwTrailer ≠ [] := by decide
  simp only [classicLoop, trimSpaceU_kwTrailer, hne, if_false, if_true, parseTrailer, trailerText, hgt, hp]
  simp

end Tabula.XrefFile
