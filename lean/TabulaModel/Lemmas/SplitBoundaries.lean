import TabulaModel.Lemmas.Aligned
import TabulaModel.Lemmas.SplitApi
/-!
C13, round 6: `SplitToSize(text, boundaries)` with caller-supplied boundaries that lie on
character boundaries of the text (`BoundariesAligned`; every list `DetectBoundaries` returns is
one, `Lemmas/Boundary.lean`).

After fix cf372da the loop shifts the boundaries by the split position AND the white space
trimmed in front of the new remainder, so `BoundariesAligned` is an invariant of the loop;
every split point is then a position no well-formed character covers, which gives
conservation of the non-whitespace characters for any bytes and UTF-8 integrity for valid
text, whatever the boundaries' scores and whichever of them are chosen.
-/
set_option linter.unusedVariables false
namespace Tabula.Split

/-- every supplied boundary lies on a character boundary of `s` (or beyond its end): no
well-formed character of `s` has the position strictly inside it -/
def BoundariesAligned (s : Str) (bs : List Boundary) : Prop := ∀ b ∈ bs, NotCovered s b.pos

theorem boundariesAligned_nil (s : Str) : BoundariesAligned s [] := by
  intro b hb; cases hb

theorem notCovered_drop (s : Str) (off p : Nat) (h : NotCovered s (off + p)) :
    NotCovered (s.drop off) p := by
  intro q hq hc
  rw [List.drop_drop] at hc
  exact h (off + q) (by omega) (by omega)

theorem notCovered_take (s : Str) (n p : Nat) (h : NotCovered s p) : NotCovered (s.take n) p := by
  intro q hq hc
  have hk : charLen ((s.take n).drop q) ≠ 0 := by omega
  have e : (s.take n).drop q = (s.drop q).take (n - q) := by
    rw [List.drop_take]
  have hs : s.drop q = (s.drop q).take (n - q) ++ (s.drop q).drop (n - q) :=
    (List.take_append_drop _ _).symm
  have h2 : charLen (s.drop q) = charLen ((s.take n).drop q) := by
    rw [e] at hk ⊢
    conv => lhs; rw [hs]
    exact charLen_append _ _ hk
  exact h q hq (by omega)

/-- in valid UTF-8 a position that no character covers is a character boundary -/
theorem valid_take_of_notCovered (s : Str) (hv : validUtf8 s = true) (p : Nat)
    (hn : NotCovered s p) : validUtf8 (s.take p) = true := by
  by_cases hp : p < s.length
  · obtain ⟨q, hq1, hq2, hq3⟩ := valid_char_at s hv p hp
    by_cases e : q = p
    · subst e; exact hq3
    · exact absurd hq2 (hn q (by omega))
  · rw [List.take_of_length_le (by omega)]; exact hv

/-- the bytes `strings.TrimSpace` keeps, as a slice of its argument -/
theorem trimSpace_eq_take_drop (x : Str) :
    trimSpace x = (x.drop (leadingSpace x)).take (trimSpace x).length := by
  obtain ⟨l, _, e1⟩ := trimLeft_decomp x
  obtain ⟨r, _, e2⟩ := trimRight_decomp (trimLeft x)
  have hl : leadingSpace x = l.length := by
    unfold leadingSpace
    have := congrArg List.length e1
    simp only [List.length_append] at this
    omega
  have hd : x.drop l.length = trimLeft x := by
    conv => lhs; rw [e1]
    exact List.drop_left
  rw [hl, hd]
  have : trimSpace x = trimRight (trimLeft x) := rfl
  rw [this]
  generalize trimRight (trimLeft x) = t at e2 ⊢
  rw [e2]
  exact List.take_left.symm

theorem boundariesAligned_step (rem : Str) (bs : List Boundary) (sp : Nat)
    (hb : BoundariesAligned rem bs) :
    BoundariesAligned (trimSpace (rem.drop sp))
      (adjustBoundaryPositions bs (sp + leadingSpace (rem.drop sp))) := by
  intro b hbm
  unfold adjustBoundaryPositions at hbm
  obtain ⟨b0, hb0, e⟩ := List.mem_map.mp hbm
  obtain ⟨hb0m, hgt⟩ := List.mem_filter.mp hb0
  have hgt : b0.pos > sp + leadingSpace (rem.drop sp) := by simpa using hgt
  subst e
  simp only
  rw [trimSpace_eq_take_drop (rem.drop sp), List.drop_drop]
  apply notCovered_take
  apply notCovered_drop
  have : sp + leadingSpace (rem.drop sp) + (b0.pos - (sp + leadingSpace (rem.drop sp))) = b0.pos := by
    omega
  rw [this]
  exact hb b0 hb0m

/-- with aligned boundaries no split point lies strictly inside a well-formed character -/
theorem notCovered_findSplitPointAt_aligned (c : SizeConfig) (s : Str) (bs : List Boundary)
    (hb : BoundariesAligned s bs) (M : Nat) (u : SizeUnit) :
    NotCovered s (findSplitPointAt c s bs M u) := by
  unfold findSplitPointAt
  simp only
  split
  · exact notCovered_of_ge s _ (Nat.le_refl _)
  · split
    · rename_i b hbest
      split at hbest
      · exact hb b (findBestBoundaryNear_some hbest).1
      · cases hbest
    · exact notCovered_findSentenceEndNear s _

/-- **conservation for any bytes and aligned boundaries** -/
theorem splitToSize_content_aligned (c : SizeConfig) (text : Str) (bs : List Boundary)
    (hb : BoundariesAligned text bs) :
    (splitToSize c text bs).flatMap stripWs = stripWs text := by
  induction text, bs using splitToSize.induct c with
  | case1 rem bs h =>
    rw [splitToSize, if_pos h]
    have : rem = [] := List.length_eq_zero_iff.mp h
    subst this
    simp [stripWs_nil]
  | case2 rem bs h hmax =>
    rw [splitToSize, if_neg h, if_pos hmax]; simp
  | case3 rem bs h hmax sp hsp =>
    rw [splitToSize, if_neg h, if_neg hmax]
    simp only [sp] at hsp
    rw [dif_pos hsp]; simp
  | case4 rem bs h hmax sp hsp chunk rest bs' hchunk ih =>
    rw [splitToSize, if_neg h, if_neg hmax]
    simp only [sp] at hsp
    rw [dif_neg hsp]
    simp only [chunk, sp] at hchunk
    simp only
    rw [if_pos hchunk]
    have hcut := stripWs_cut rem _ (notCovered_findSplitPointAt_aligned c rem bs hb c.maxValue c.maxUnit)
    rw [ih (boundariesAligned_step rem bs _ hb), hcut]
    simp only [rest, sp]
    rw [stripWs_trimSpace_any, ← stripWs_trimSpace_any (rem.take _), hchunk, stripWs_nil, List.nil_append]
  | case5 rem bs h hmax sp hsp chunk rest bs' hchunk ih =>
    rw [splitToSize, if_neg h, if_neg hmax]
    simp only [sp] at hsp
    rw [dif_neg hsp]
    simp only [chunk, sp] at hchunk
    simp only
    rw [if_neg hchunk]
    have hcut := stripWs_cut rem _ (notCovered_findSplitPointAt_aligned c rem bs hb c.maxValue c.maxUnit)
    rw [List.flatMap_cons, ih (boundariesAligned_step rem bs _ hb), hcut]
    simp only [rest, sp]
    rw [stripWs_trimSpace_any, stripWs_trimSpace_any]

/-- **UTF-8 integrity for aligned boundaries** -/
theorem splitToSize_valid_aligned (c : SizeConfig) (text : Str) (bs : List Boundary)
    (hb : BoundariesAligned text bs) (hv : validUtf8 text = true) :
    ∀ p ∈ splitToSize c text bs, validUtf8 p = true := by
  induction text, bs using splitToSize.induct c with
  | case1 rem bs h => rw [splitToSize, if_pos h]; simp
  | case2 rem bs h hmax =>
    rw [splitToSize, if_neg h, if_pos hmax]
    intro p hp; simp at hp; subst hp; exact hv
  | case3 rem bs h hmax sp hsp =>
    rw [splitToSize, if_neg h, if_neg hmax]
    simp only [sp] at hsp
    rw [dif_pos hsp]
    intro p hp; simp at hp; subst hp; exact hv
  | case4 rem bs h hmax sp hsp chunk rest bs' hchunk ih =>
    rw [splitToSize, if_neg h, if_neg hmax]
    simp only [sp] at hsp
    rw [dif_neg hsp]
    simp only [chunk, sp] at hchunk
    simp only
    rw [if_pos hchunk]
    have ht := valid_take_of_notCovered rem hv _
      (notCovered_findSplitPointAt_aligned c rem bs hb c.maxValue c.maxUnit)
    have hd := valid_drop_of_valid_take rem hv _ ht
    exact ih (boundariesAligned_step rem bs _ hb) (valid_trimSpace _ hd)
  | case5 rem bs h hmax sp hsp chunk rest bs' hchunk ih =>
    rw [splitToSize, if_neg h, if_neg hmax]
    simp only [sp] at hsp
    rw [dif_neg hsp]
    simp only [chunk, sp] at hchunk
    simp only
    rw [if_neg hchunk]
    have ht := valid_take_of_notCovered rem hv _
      (notCovered_findSplitPointAt_aligned c rem bs hb c.maxValue c.maxUnit)
    have hd := valid_drop_of_valid_take rem hv _ ht
    intro p hp
    rcases List.mem_cons.mp hp with hp | hp
    · subst hp; exact valid_trimSpace _ ht
    · exact ih (boundariesAligned_step rem bs _ hb) (valid_trimSpace _ hd) p hp

end Tabula.Split
