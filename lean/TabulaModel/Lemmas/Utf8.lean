import TabulaModel.Model.Split
namespace Tabula.Split

/-! ## byte-class facts -/

theorem ok2_spec {a b : Nat} (h : ok2 a b = true) : 0xC2 ≤ a ∧ a ≤ 0xDF ∧ isCont b = true := by
  simp only [ok2, Bool.and_eq_true, decide_eq_true_eq] at h
  exact ⟨h.1.1, h.1.2, h.2⟩

theorem ok3_spec {a b c : Nat} (h : ok3 a b c = true) :
    0xE0 ≤ a ∧ a ≤ 0xEF ∧ isCont b = true ∧ isCont c = true := by
  simp only [ok3, isCont, Bool.and_eq_true, Bool.or_eq_true, decide_eq_true_eq, beq_iff_eq] at h ⊢
  omega

theorem ok4_spec {a b c d : Nat} (h : ok4 a b c d = true) :
    0xF0 ≤ a ∧ a ≤ 0xF4 ∧ isCont b = true ∧ isCont c = true ∧ isCont d = true := by
  simp only [ok4, isCont, Bool.and_eq_true, Bool.or_eq_true, decide_eq_true_eq, beq_iff_eq] at h ⊢
  omega

theorem charLen_one {a : Nat} {r : Str} (h : a < 0x80) : charLen (a :: r) = 1 := by
  simp [charLen, h]

theorem charLen_two {a b : Nat} {r : Str} (h : ok2 a b = true) : charLen (a :: b :: r) = 2 := by
  have := ok2_spec h
  have h1 : ¬ a < 0x80 := by omega
  simp [charLen, h, h1]

theorem charLen_three {a b c : Nat} {r : Str} (h : ok3 a b c = true) :
    charLen (a :: b :: c :: r) = 3 := by
  have := ok3_spec h
  have h1 : ¬ a < 0x80 := by omega
  have h2 : ok2 a b = false := by
    cases h' : ok2 a b
    · rfl
    · have := ok2_spec h'; omega
  simp [charLen, h, h1, h2]

theorem charLen_four {a b c d : Nat} {r : Str} (h : ok4 a b c d = true) :
    charLen (a :: b :: c :: d :: r) = 4 := by
  have := ok4_spec h
  have h1 : ¬ a < 0x80 := by omega
  have h2 : ok2 a b = false := by
    cases h' : ok2 a b
    · rfl
    · have := ok2_spec h'; omega
  have h3 : ok3 a b c = false := by
    cases h' : ok3 a b c
    · rfl
    · have := ok3_spec h'; omega
  simp [charLen, h, h1, h2, h3]

/-- the shapes with a non-zero `charLen` -/
theorem charLen_cases (s : Str) :
    charLen s = 0
    ∨ (∃ a r, s = a :: r ∧ a < 0x80)
    ∨ (∃ a b r, s = a :: b :: r ∧ ok2 a b = true)
    ∨ (∃ a b c r, s = a :: b :: c :: r ∧ ok3 a b c = true)
    ∨ (∃ a b c d r, s = a :: b :: c :: d :: r ∧ ok4 a b c d = true) := by
  match s with
  | [] => left; rfl
  | a :: r =>
    by_cases h1 : a < 0x80
    · right; left; exact ⟨a, r, rfl, h1⟩
    · match r with
      | [] => left; simp [charLen, h1]
      | b :: r =>
        cases h2 : ok2 a b
        · match r with
          | [] => left; simp [charLen, h1, h2]
          | c :: r =>
            cases h3 : ok3 a b c
            · match r with
              | [] => left; simp [charLen, h1, h2, h3]
              | d :: r =>
                cases h4 : ok4 a b c d
                · left; simp [charLen, h1, h2, h3, h4]
                · right; right; right; right; exact ⟨a, b, c, d, r, rfl, h4⟩
            · right; right; right; left; exact ⟨a, b, c, r, rfl, h3⟩
        · right; right; left; exact ⟨a, b, r, rfl, h2⟩

/-- prefix determinacy -/
theorem charLen_append (s t : Str) (h : charLen s ≠ 0) : charLen (s ++ t) = charLen s := by
  rcases charLen_cases s with h0 | ⟨a, r, rfl, h1⟩ | ⟨a, b, r, rfl, h2⟩ | ⟨a, b, c, r, rfl, h3⟩
    | ⟨a, b, c, d, r, rfl, h4⟩
  · exact absurd h0 h
  · rw [List.cons_append, charLen_one h1, charLen_one h1]
  · rw [List.cons_append, List.cons_append, charLen_two h2, charLen_two h2]
  · rw [List.cons_append, List.cons_append, List.cons_append, charLen_three h3, charLen_three h3]
  · rw [List.cons_append, List.cons_append, List.cons_append, List.cons_append,
      charLen_four h4, charLen_four h4]

theorem charLen_take (s : Str) (k : Nat) (h : charLen s ≠ 0) (hk : charLen s ≤ k) :
    charLen (s.take k) = charLen s := by
  rcases charLen_cases s with h0 | ⟨a, r, rfl, h1⟩ | ⟨a, b, r, rfl, h2⟩ | ⟨a, b, c, r, rfl, h3⟩
    | ⟨a, b, c, d, r, rfl, h4⟩
  · exact absurd h0 h
  · rw [charLen_one h1] at hk ⊢
    obtain ⟨k', rfl⟩ : ∃ k', k = k' + 1 := ⟨k - 1, by omega⟩
    rw [List.take_succ_cons, charLen_one h1]
  · rw [charLen_two h2] at hk ⊢
    obtain ⟨k', rfl⟩ : ∃ k', k = k' + 1 + 1 := ⟨k - 2, by omega⟩
    rw [List.take_succ_cons, List.take_succ_cons, charLen_two h2]
  · rw [charLen_three h3] at hk ⊢
    obtain ⟨k', rfl⟩ : ∃ k', k = k' + 1 + 1 + 1 := ⟨k - 3, by omega⟩
    rw [List.take_succ_cons, List.take_succ_cons, List.take_succ_cons, charLen_three h3]
  · rw [charLen_four h4] at hk ⊢
    obtain ⟨k', rfl⟩ : ∃ k', k = k' + 1 + 1 + 1 + 1 := ⟨k - 4, by omega⟩
    rw [List.take_succ_cons, List.take_succ_cons, List.take_succ_cons, List.take_succ_cons,
      charLen_four h4]

/-- bytes 1..n-1 of a character are continuation bytes -/
theorem charLen_cont (s : Str) (j : Nat) (h0 : 0 < j) (hj : j < charLen s) :
    ∃ b, s[j]? = some b ∧ isCont b = true := by
  rcases charLen_cases s with h0 | ⟨a, r, rfl, h1⟩ | ⟨a, b, r, rfl, h2⟩ | ⟨a, b, c, r, rfl, h3⟩
    | ⟨a, b, c, d, r, rfl, h4⟩
  · omega
  · rw [charLen_one h1] at hj; omega
  · rw [charLen_two h2] at hj
    have := ok2_spec h2
    obtain rfl : j = 1 := by omega
    exact ⟨b, rfl, this.2.2⟩
  · rw [charLen_three h3] at hj
    have := ok3_spec h3
    have hj' : j = 1 ∨ j = 2 := by omega
    rcases hj' with rfl | rfl
    · exact ⟨b, rfl, this.2.2.1⟩
    · exact ⟨c, rfl, this.2.2.2⟩
  · rw [charLen_four h4] at hj
    have := ok4_spec h4
    have hj' : j = 1 ∨ j = 2 ∨ j = 3 := by omega
    rcases hj' with rfl | rfl | rfl
    · exact ⟨b, rfl, this.2.2.1⟩
    · exact ⟨c, rfl, this.2.2.2.1⟩
    · exact ⟨d, rfl, this.2.2.2.2⟩

theorem runeStart_of_lt {a : Nat} (h : a < 0x80) : runeStart a = true := by
  simp only [runeStart, isCont, Bool.not_eq_true', Bool.and_eq_false_iff, decide_eq_false_iff_not]
  omega

theorem runeStart_of_ge {a : Nat} (h : 0xC0 ≤ a) : runeStart a = true := by
  simp only [runeStart, isCont, Bool.not_eq_true', Bool.and_eq_false_iff, decide_eq_false_iff_not]
  omega

/-- the first byte of a character is not a continuation byte -/
theorem charLen_head (s : Str) (h : charLen s ≠ 0) : ∃ b, s[0]? = some b ∧ runeStart b = true := by
  rcases charLen_cases s with h0 | ⟨a, r, rfl, h1⟩ | ⟨a, b, r, rfl, h2⟩ | ⟨a, b, c, r, rfl, h3⟩
    | ⟨a, b, c, d, r, rfl, h4⟩
  · exact absurd h0 h
  · exact ⟨a, rfl, runeStart_of_lt h1⟩
  · have := ok2_spec h2
    exact ⟨a, rfl, runeStart_of_ge (by omega)⟩
  · have := ok3_spec h3
    exact ⟨a, rfl, runeStart_of_ge (by omega)⟩
  · have := ok4_spec h4
    exact ⟨a, rfl, runeStart_of_ge (by omega)⟩

theorem charLen_le_four (s : Str) : charLen s ≤ 4 := by
  rcases charLen_cases s with h0 | ⟨a, r, rfl, h1⟩ | ⟨a, b, r, rfl, h2⟩ | ⟨a, b, c, r, rfl, h3⟩
    | ⟨a, b, c, d, r, rfl, h4⟩
  · omega
  · rw [charLen_one h1]; omega
  · rw [charLen_two h2]; omega
  · rw [charLen_three h3]; omega
  · rw [charLen_four h4]; exact Nat.le_refl _

/-! ## `validUtf8` -/

theorem validUtf8_nil : validUtf8 [] = true := by
  rw [validUtf8]; rfl

theorem ne_nil_of_charLen {s : Str} (h : charLen s ≠ 0) : s ≠ [] := by
  intro hs; subst hs; exact h rfl

/-- one unfolding step -/
theorem validUtf8_step (s : Str) (h : charLen s ≠ 0) :
    validUtf8 s = validUtf8 (s.drop (charLen s)) := by
  conv => lhs; rw [validUtf8]
  rw [dif_neg (ne_nil_of_charLen h), dif_neg h]

theorem validUtf8_bad (s : Str) (hs : s ≠ []) (h : charLen s = 0) : validUtf8 s = false := by
  rw [validUtf8, dif_neg hs, dif_pos h]

theorem charLen_ne_zero_of_valid {s : Str} (hs : s ≠ []) (hv : validUtf8 s = true) :
    charLen s ≠ 0 := by
  intro h
  rw [validUtf8_bad s hs h] at hv
  exact Bool.noConfusion hv

theorem validUtf8_append (a b : Str) (ha : validUtf8 a = true) (hb : validUtf8 b = true) :
    validUtf8 (a ++ b) = true := by
  induction a using validUtf8.induct with
  | case1 => exact hb
  | case2 x hx h0 => rw [validUtf8_bad x hx h0] at ha; exact Bool.noConfusion ha
  | case3 x hx h0 ih =>
    rw [validUtf8_step x h0] at ha
    have h1 : charLen (x ++ b) = charLen x := charLen_append x b h0
    have h2 : charLen (x ++ b) ≠ 0 := by rw [h1]; exact h0
    rw [validUtf8_step _ h2, h1, List.drop_append_of_le_length (charLen_le_length x)]
    exact ih ha

theorem validUtf8_of_append_left (a b : Str) (hab : validUtf8 (a ++ b) = true)
    (ha : validUtf8 a = true) : validUtf8 b = true := by
  induction a using validUtf8.induct with
  | case1 => exact hab
  | case2 x hx h0 => rw [validUtf8_bad x hx h0] at ha; exact Bool.noConfusion ha
  | case3 x hx h0 ih =>
    rw [validUtf8_step x h0] at ha
    have h1 : charLen (x ++ b) = charLen x := charLen_append x b h0
    have h2 : charLen (x ++ b) ≠ 0 := by rw [h1]; exact h0
    rw [validUtf8_step _ h2, h1, List.drop_append_of_le_length (charLen_le_length x)] at hab
    exact ih hab ha

/-- the first character of a valid non-empty string is itself a valid string -/
theorem validUtf8_take_charLen (s : Str) (h : charLen s ≠ 0) :
    validUtf8 (s.take (charLen s)) = true := by
  have h1 : charLen (s.take (charLen s)) = charLen s := charLen_take s _ h (Nat.le_refl _)
  have h2 : charLen (s.take (charLen s)) ≠ 0 := by rw [h1]; exact h
  rw [validUtf8_step _ h2, h1, List.drop_eq_nil_of_le]
  · exact validUtf8_nil
  · rw [List.length_take]; exact Nat.min_le_left _ _

/-- every position of a valid string lies inside a character that starts at a position `q`
up to which the string is valid -/
theorem valid_char_at (s : Str) (hv : validUtf8 s = true) (p : Nat) (hp : p < s.length) :
    ∃ q, q ≤ p ∧ p < q + charLen (s.drop q) ∧ validUtf8 (s.take q) = true := by
  induction s using validUtf8.induct generalizing p with
  | case1 => exact absurd hp (Nat.not_lt_zero _)
  | case2 x hx h0 => rw [validUtf8_bad x hx h0] at hv; exact Bool.noConfusion hv
  | case3 x hx h0 ih =>
    by_cases hpn : p < charLen x
    · refine ⟨0, Nat.zero_le _, ?_, ?_⟩
      · rw [List.drop_zero]; omega
      · rw [List.take_zero]; exact validUtf8_nil
    · rw [validUtf8_step x h0] at hv
      have hlen : p - charLen x < (x.drop (charLen x)).length := by
        rw [List.length_drop]; omega
      obtain ⟨q, hq1, hq2, hq3⟩ := ih hv (p - charLen x) hlen
      refine ⟨charLen x + q, by omega, ?_, ?_⟩
      · rw [List.drop_drop] at hq2; omega
      · rw [List.take_add]
        exact validUtf8_append _ _ (validUtf8_take_charLen x h0) hq3

theorem valid_drop_of_valid_take (s : Str) (hv : validUtf8 s = true) (p : Nat)
    (ht : validUtf8 (s.take p) = true) : validUtf8 (s.drop p) = true := by
  apply validUtf8_of_append_left (s.take p) (s.drop p) _ ht
  rw [List.take_append_drop]; exact hv

theorem isCont_not_runeStart {b : Nat} (h1 : isCont b = true) (h2 : runeStart b = true) : False := by
  rw [runeStart, h1] at h2; exact Bool.noConfusion h2

/-- a position strictly inside a character holds a continuation byte -/
theorem drop_cont (s : Str) (q p : Nat) (h1 : q < p) (h2 : p < q + charLen (s.drop q)) :
    ∃ b, s[p]? = some b ∧ isCont b = true := by
  obtain ⟨b, hb1, hb2⟩ := charLen_cont (s.drop q) (p - q) (by omega) (by omega)
  rw [List.getElem?_drop] at hb1
  have : q + (p - q) = p := by omega
  rw [this] at hb1
  exact ⟨b, hb1, hb2⟩

theorem drop_head (s : Str) (q : Nat) (h : charLen (s.drop q) ≠ 0) :
    ∃ b, s[q]? = some b ∧ runeStart b = true := by
  obtain ⟨b, hb1, hb2⟩ := charLen_head (s.drop q) h
  rw [List.getElem?_drop] at hb1
  exact ⟨b, hb1, hb2⟩

/-- a position that is the end of the string or holds a rune-start byte is a character boundary -/
theorem valid_take_of_runeStart (s : Str) (hv : validUtf8 s = true) (p : Nat)
    (hp : p = s.length ∨ ∃ b, s[p]? = some b ∧ runeStart b = true) :
    validUtf8 (s.take p) = true := by
  rcases hp with rfl | ⟨b, hb1, hb2⟩
  · rw [List.take_length]; exact hv
  · have hlt : p < s.length := by
      have := List.getElem?_eq_some_iff.mp hb1
      exact this.1
    obtain ⟨q, hq1, hq2, hq3⟩ := valid_char_at s hv p hlt
    by_cases hqp : q = p
    · subst hqp; exact hq3
    · obtain ⟨c, hc1, hc2⟩ := drop_cont s q p (by omega) hq2
      rw [hb1] at hc1
      cases hc1
      exact (isCont_not_runeStart hc2 hb2).elim

theorem isCont_ge {b : Nat} (h : isCont b = true) : 0x80 ≤ b := by
  simp only [isCont, Bool.and_eq_true, decide_eq_true_eq] at h
  exact h.1

/-- the position after an ASCII byte is a character boundary -/
theorem valid_take_after_ascii (s : Str) (hv : validUtf8 s = true) (i b : Nat)
    (hi : s[i]? = some b) (hb : b < 0x80) : validUtf8 (s.take (i + 1)) = true := by
  have hlt : i < s.length := (List.getElem?_eq_some_iff.mp hi).1
  have h1 : validUtf8 (s.take i) = true :=
    valid_take_of_runeStart s hv i (Or.inr ⟨b, hi, runeStart_of_lt hb⟩)
  rw [List.take_add]
  apply validUtf8_append _ _ h1
  have h2 : (s.drop i).take 1 = [b] := by
    have : s.drop i = b :: s.drop (i + 1) := by
      rw [List.drop_eq_getElem_cons hlt]
      have := (List.getElem?_eq_some_iff.mp hi).2
      rw [this]
    rw [this]; rfl
  rw [h2]
  have h3 : charLen [b] = 1 := charLen_one hb
  rw [validUtf8_step [b] (by rw [h3]; exact Nat.one_ne_zero), h3]
  exact validUtf8_nil

/-! ## White_Space patterns and trimming -/

theorem isAsciiSpace_lt {b : Nat} (h : isAsciiSpace b = true) : b < 0x80 := by
  simp only [isAsciiSpace, Bool.or_eq_true, Bool.and_eq_true, decide_eq_true_eq, beq_iff_eq] at h
  omega

theorem isSpace2_ok2 {b c : Nat} (h : isSpace2 b c = true) : ok2 b c = true := by
  simp only [isSpace2, ok2, isCont, Bool.or_eq_true, Bool.and_eq_true, decide_eq_true_eq,
    beq_iff_eq] at h ⊢
  omega

theorem isSpace3_ok3 {b c d : Nat} (h : isSpace3 b c d = true) : ok3 b c d = true := by
  simp only [isSpace3, ok3, isCont, Bool.or_eq_true, Bool.and_eq_true, decide_eq_true_eq,
    beq_iff_eq] at h ⊢
  omega

theorem isSpace2_head {b c : Nat} (h : isSpace2 b c = true) : 0xC0 ≤ b := by
  have := ok2_spec (isSpace2_ok2 h); omega

theorem isSpace3_head {b c d : Nat} (h : isSpace3 b c d = true) : 0xC0 ≤ b := by
  have := ok3_spec (isSpace3_ok3 h); omega

/-- the shapes with a non-zero `spaceLen` -/
theorem spaceLen_cases (s : Str) :
    spaceLen s = 0
    ∨ (∃ b r, s = b :: r ∧ isAsciiSpace b = true ∧ spaceLen s = 1)
    ∨ (∃ b c r, s = b :: c :: r ∧ isSpace2 b c = true ∧ spaceLen s = 2)
    ∨ (∃ b c d r, s = b :: c :: d :: r ∧ isSpace3 b c d = true ∧ spaceLen s = 3) := by
  match s with
  | [] => left; rfl
  | b :: r =>
    cases h1 : isAsciiSpace b
    · match r with
      | [] => left; simp [spaceLen, h1]
      | c :: r =>
        cases h2 : isSpace2 b c
        · match r with
          | [] => left; simp [spaceLen, h1, h2]
          | d :: r =>
            cases h3 : isSpace3 b c d
            · left; simp [spaceLen, h1, h2, h3]
            · right; right; right; exact ⟨b, c, d, r, rfl, h3, by simp [spaceLen, h1, h2, h3]⟩
        · right; right; left; exact ⟨b, c, r, rfl, h2, by simp [spaceLen, h1, h2]⟩
    · right; left; exact ⟨b, r, rfl, h1, by simp [spaceLen, h1]⟩

/-- the shapes with a non-zero `spaceLenRev`: the first byte of the pattern (the last one
in the reversed string) is a rune start -/
theorem spaceLenRev_first (r : Str) (h : spaceLenRev r ≠ 0) :
    ∃ b, r[spaceLenRev r - 1]? = some b ∧ runeStart b = true := by
  match r with
  | [] => exact absurd rfl h
  | d :: r =>
    cases h1 : isAsciiSpace d
    · match r with
      | [] => exact absurd (by simp [spaceLenRev, h1]) h
      | c :: r =>
        cases h2 : isSpace2 c d
        · match r with
          | [] => exact absurd (by simp [spaceLenRev, h1, h2]) h
          | b :: r =>
            cases h3 : isSpace3 b c d
            · exact absurd (by simp [spaceLenRev, h1, h2, h3]) h
            · have e : spaceLenRev (d :: c :: b :: r) = 3 := by simp [spaceLenRev, h1, h2, h3]
              rw [e]
              exact ⟨b, rfl, runeStart_of_ge (isSpace3_head h3)⟩
        · have e : spaceLenRev (d :: c :: r) = 2 := by simp [spaceLenRev, h1, h2]
          rw [e]
          exact ⟨c, rfl, runeStart_of_ge (isSpace2_head h2)⟩
    · have e : spaceLenRev (d :: r) = 1 := by simp [spaceLenRev, h1]
      rw [e]
      exact ⟨d, rfl, runeStart_of_lt (isAsciiSpace_lt h1)⟩

/-- a White_Space pattern is a well-formed character of the same length -/
theorem charLen_of_spaceLen (s : Str) (h : spaceLen s ≠ 0) : charLen s = spaceLen s := by
  rcases spaceLen_cases s with h0 | ⟨b, r, rfl, h1, e⟩ | ⟨b, c, r, rfl, h2, e⟩
    | ⟨b, c, d, r, rfl, h3, e⟩
  · exact absurd h0 h
  · rw [e, charLen_one (isAsciiSpace_lt h1)]
  · rw [e, charLen_two (isSpace2_ok2 h2)]
  · rw [e, charLen_three (isSpace3_ok3 h3)]

theorem valid_trimLeft (s : Str) (hv : validUtf8 s = true) : validUtf8 (trimLeft s) = true := by
  induction s using trimLeft.induct with
  | case1 s h => rw [trimLeft, dif_pos h]; exact hv
  | case2 s h ih =>
    rw [trimLeft, dif_neg h]
    apply ih
    have e := charLen_of_spaceLen s h
    rw [validUtf8_step s (by rw [e]; exact h), e] at hv
    exact hv

theorem valid_trimLeftRev (r : Str) (hv : validUtf8 r.reverse = true) :
    validUtf8 (trimLeftRev r).reverse = true := by
  induction r using trimLeftRev.induct with
  | case1 r h => rw [trimLeftRev, dif_pos h]; exact hv
  | case2 r h ih =>
    rw [trimLeftRev, dif_neg h]
    apply ih
    rw [List.reverse_drop]
    have hle := spaceLenRev_le_length r
    obtain ⟨b, hb1, hb2⟩ := spaceLenRev_first r h
    apply valid_take_of_runeStart _ hv
    right
    refine ⟨b, ?_, hb2⟩
    rw [List.getElem?_reverse (by omega)]
    have : r.length - 1 - (r.length - spaceLenRev r) = spaceLenRev r - 1 := by omega
    rw [this]; exact hb1

theorem valid_trimRight (s : Str) (hv : validUtf8 s = true) : validUtf8 (trimRight s) = true := by
  unfold trimRight
  apply valid_trimLeftRev
  rw [List.reverse_reverse]; exact hv

theorem valid_trimSpace (s : Str) (hv : validUtf8 s = true) : validUtf8 (trimSpace s) = true := by
  unfold trimSpace
  exact valid_trimRight _ (valid_trimLeft s hv)

/-! ## `runeBoundaryNear` -/

theorem backToStart_start (s : Str) (q k b : Nat) (h1 : s[q]? = some b)
    (h2 : runeStart b = true) : backToStart s q (k + 1) = q := by
  unfold backToStart
  by_cases hq : q = 0
  · rw [if_pos hq]; exact hq.symm
  · rw [if_neg hq]; simp only [h1, h2, if_true]

theorem backToStart_zero (s : Str) (k : Nat) : backToStart s 0 k = 0 := by
  cases k with
  | zero => rfl
  | succ k => unfold backToStart; rw [if_pos rfl]

theorem backToStart_cont (s : Str) (i k b : Nat) (h1 : s[i + 1]? = some b)
    (h2 : isCont b = true) : backToStart s (i + 1) (k + 1) = backToStart s i k := by
  conv => lhs; unfold backToStart
  have h3 : runeStart b = false := by rw [runeStart, h2]; rfl
  rw [if_neg (Nat.succ_ne_zero i)]
  simp only [h1, h3, Nat.add_sub_cancel]
  rfl

/-- scanning back from just before a position inside a character (at most three bytes
after its start) finds the start of the character -/
theorem backToStart_char (s : Str) (q pos : Nat) (h1 : q < pos)
    (h2 : pos < q + charLen (s.drop q)) : backToStart s (pos - 1) 2 = q := by
  have h4 := charLen_le_four (s.drop q)
  obtain ⟨a, ha1, ha2⟩ := drop_head s q (by omega)
  have hj : pos = q + 1 ∨ pos = q + 2 ∨ pos = q + 3 := by omega
  rcases hj with rfl | rfl | rfl
  · rw [Nat.add_sub_cancel]; exact backToStart_start s q 1 a ha1 ha2
  · obtain ⟨b, hb1, hb2⟩ := drop_cont s q (q + 1) (by omega) (by omega)
    show backToStart s (q + 1) 2 = q
    rw [backToStart_cont s q 1 b hb1 hb2]
    exact backToStart_start s q 0 a ha1 ha2
  · obtain ⟨b, hb1, hb2⟩ := drop_cont s q (q + 1) (by omega) (by omega)
    obtain ⟨c, hc1, hc2⟩ := drop_cont s q (q + 2) (by omega) (by omega)
    show backToStart s (q + 2) 2 = q
    rw [backToStart_cont s (q + 1) 1 c hc1 hc2, backToStart_cont s q 0 b hb1 hb2]
    rfl

/-- `runeBoundaryNear` returns a character boundary of a valid string -/
theorem valid_take_runeBoundaryNear (s : Str) (hv : validUtf8 s = true) (pos : Nat)
    (hpos : pos < s.length) : validUtf8 (s.take (runeBoundaryNear s pos)) = true := by
  unfold runeBoundaryNear
  by_cases h0 : pos = 0 ∨ pos ≥ s.length
  · rw [if_pos h0]
    rcases h0 with rfl | h
    · rw [List.take_zero]; exact validUtf8_nil
    · omega
  · rw [if_neg h0]
    have hb : s[pos]? = some s[pos] := List.getElem?_eq_getElem hpos
    rw [hb]
    simp only
    cases hr : runeStart s[pos]
    · -- continuation byte
      simp only [Bool.false_eq_true, if_false]
      obtain ⟨q, hq1, hq2, hq3⟩ := valid_char_at s hv pos hpos
      have hqp : q < pos := by
        by_cases e : q = pos
        · subst e
          obtain ⟨a, ha1, ha2⟩ := drop_head s q (by omega)
          rw [hb] at ha1; cases ha1
          rw [hr] at ha2; exact Bool.noConfusion ha2
        · omega
      rw [backToStart_char s q pos hqp hq2]
      have hn : charLen (s.drop q) ≠ 0 := by omega
      have hsz : runeLen (s.drop q) = charLen (s.drop q) := by
        unfold runeLen; rw [if_neg hn]
      rw [hsz, if_neg (by omega)]
      by_cases hq0 : q > 0
      · rw [if_pos hq0]; exact hq3
      · rw [if_neg hq0]
        have : q = 0 := by omega
        subst this
        rw [List.drop_zero] at hn ⊢
        exact validUtf8_take_charLen s hn
    · simp only [if_true]
      exact valid_take_of_runeStart s hv pos (Or.inr ⟨s[pos], hb, hr⟩)

end Tabula.Split
