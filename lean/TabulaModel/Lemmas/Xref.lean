import TabulaModel.Model.Xref
namespace Tabula.Xref

theorem getLast_append {α : Type} (a b : List (Nat × α)) (n : Nat) :
    getLast (a ++ b) n = (getLast b n).or (getLast a n) := by
  induction a with
  | nil => cases h : getLast b n <;> simp [getLast, h]
  | cons kv a ih =>
    obtain ⟨k, v⟩ := kv
    simp only [List.cons_append, getLast, ih]
    cases hb : getLast b n with
    | some w => simp
    | none => simp

theorem getLast_single {α : Type} (k : Nat) (v : α) (n : Nat) :
    getLast [(k, v)] n = if k = n then some v else none := by
  simp [getLast]

/-- the newest (last) table of an oldest-first list that mentions `n` decides -/
def newest : List Section → Nat → Option Entry
  | [], _ => none
  | t :: ts, n => (newest ts n).or (getLast t n)

theorem getLast_flatten (ts : List Section) (n : Nat) :
    getLast ts.flatten n = newest ts n := by
  induction ts with
  | nil => rfl
  | cons t ts ih => simp [List.flatten_cons, getLast_append, newest, ih]

/-- everything in the caches is what the specification says -/
def CacheOk (f : File) (c : Cache) : Prop :=
  (∀ n v, getLast c.obj n = some v → specGet f n = some v) ∧
  (∀ s ms, getLast c.stm s = some ms → loadObjStm f s = some ms)

theorem cacheOk_empty (f : File) : CacheOk f {} := by
  constructor <;> intro _ _ h <;> simp [getLast] at h

theorem getObjStm_spec (f : File) (c : Cache) (stm : Nat) (h : CacheOk f c) :
    (getObjStm f c stm).1 = loadObjStm f stm ∧ CacheOk f (getObjStm f c stm).2 ∧
      (getObjStm f c stm).2.obj = c.obj := by
  unfold getObjStm
  cases hc : getLast c.stm stm with
  | some ms => exact ⟨(h.2 stm ms hc).symm, h, rfl⟩
  | none =>
    cases hl : loadObjStm f stm with
    | none => exact ⟨rfl, h, rfl⟩
    | some ms =>
      refine ⟨rfl, ⟨h.1, ?_⟩, rfl⟩
      intro s ms' hs
      simp only [getLast_append, getLast_single] at hs
      by_cases e : stm = s
      · subst e; simp at hs; subst hs; exact hl
      · simp [e] at hs; exact h.2 s ms' hs

theorem cacheOk_insert (f : File) (c : Cache) (n : Nat) (v : Val) (h : CacheOk f c)
    (hv : specGet f n = some v) : CacheOk f { c with obj := c.obj ++ [(n, v)] } := by
  refine ⟨?_, h.2⟩
  intro m w hm
  simp only [getLast_append, getLast_single] at hm
  by_cases e : n = m
  · subst e; simp at hm; subst hm; exact hv
  · simp [e] at hm; exact h.1 m w hm

theorem stepGet_spec (f : File) (c : Cache) (n : Nat) (h : CacheOk f c) :
    (stepGet f c n).1 = specGet f n ∧ CacheOk f (stepGet f c n).2 := by
  unfold stepGet
  cases hc : getLast c.obj n with
  | some v => exact ⟨(h.1 n v hc).symm, h⟩
  | none =>
    simp only
    cases hx : getLast f.xref n with
    | none => simp [specGet, hx, h]
    | some e =>
      cases e with
      | free nx => simp [specGet, hx, h]
      | «at» off =>
        simp only
        cases hu : getUncompressed f n off with
        | none => simp [specGet, hx, hu, h]
        | some v =>
          have hs : specGet f n = some v := by simp [specGet, hx, hu]
          exact ⟨hs.symm, cacheOk_insert f c n v h hs⟩
      | inStm stm idx =>
        simp only
        obtain ⟨h1, h2, _⟩ := getObjStm_spec f c stm h
        cases hg : getObjStm f c stm with
        | mk r c' =>
          rw [hg] at h1 h2
          simp only at h1 h2
          cases r with
          | none => simp [specGet, hx, ← h1, h2]
          | some ms =>
            simp only
            cases hm : memberAt ms n idx with
            | none => simp [specGet, hx, ← h1, hm, h2]
            | some v =>
              have hs : specGet f n = some v := by simp [specGet, hx, ← h1, hm]
              exact ⟨hs.symm, cacheOk_insert f c' n v h2 hs⟩

/-- the cache-free answer sequence of an operation list -/
def specRun (f : File) : List Op → List (Option Val)
  | [] => []
  | .get n :: ops => specGet f n :: specRun f ops
  | .clear :: ops => specRun f ops

theorem run_refines (f : File) (ops : List Op) (c : Cache) (h : CacheOk f c) :
    run f c ops = specRun f ops := by
  induction ops generalizing c with
  | nil => rfl
  | cons op ops ih =>
    cases op with
    | get n =>
      obtain ⟨h1, h2⟩ := stepGet_spec f c n h
      simp only [run, specRun]
      rw [h1, ih _ h2]
    | clear =>
      simp only [run, specRun]
      exact ih _ (cacheOk_empty f)

end Tabula.Xref

namespace Tabula.Xref

theorem getLast_mem_keys {α : Type} (l : List (Nat × α)) (n : Nat) (v : α)
    (h : getLast l n = some v) : n ∈ l.map Prod.fst := by
  induction l with
  | nil => simp [getLast] at h
  | cons kv l ih =>
    obtain ⟨k, w⟩ := kv
    simp only [getLast] at h
    cases hr : getLast l n with
    | some u =>
      rw [hr] at h
      simp only [Option.some.injEq] at h
      subst h
      have := ih hr
      simp only [List.map_cons, List.mem_cons]
      exact Or.inr this
    | none =>
      rw [hr] at h
      simp only at h
      by_cases e : k = n
      · simp [e]
      · simp [e] at h

/-- `path` is the `/Prev` chain that starts at offset `off` and ends at a section without
`/Prev` -/
inductive IsChain (secs : Sections) : Nat → List (Nat × Section) → Prop
  | last (off : Nat) (s : Section) :
      getLast secs off = some (s, none) → IsChain secs off [(off, s)]
  | step (off : Nat) (s : Section) (p : Nat) (rest : List (Nat × Section)) :
      getLast secs off = some (s, some p) → IsChain secs p rest →
      IsChain secs off ((off, s) :: rest)

theorem IsChain.keys_subset {secs : Sections} {off : Nat} {path : List (Nat × Section)}
    (h : IsChain secs off path) : path.map Prod.fst ⊆ secs.map Prod.fst := by
  induction h with
  | last off s hl =>
    intro x hx
    simp at hx
    subst hx
    exact getLast_mem_keys _ _ _ hl
  | step off s p rest hl _ ih =>
    intro x hx
    simp only [List.map_cons, List.mem_cons] at hx
    rcases hx with hx | hx
    · subst hx; exact getLast_mem_keys _ _ _ hl
    · exact ih hx

theorem chainFrom_path (secs : Sections) (off : Nat) (path : List (Nat × Section))
    (h : IsChain secs off path) :
    ∀ (fuel : Nat) (visited : List Nat), path.length ≤ fuel →
      (path.map Prod.fst).Nodup → (∀ x ∈ path.map Prod.fst, x ∉ visited) →
      chainFrom secs fuel visited off = path.map Prod.snd := by
  induction h with
  | last off s hl =>
    intro fuel visited hf _ hv
    cases fuel with
    | zero => simp at hf
    | succ fuel =>
      have hno : off ∉ visited := hv off (by simp)
      simp [chainFrom, hno, hl]
  | step off s p rest hl hrest ih =>
    intro fuel visited hf hnd hv
    cases fuel with
    | zero => simp at hf
    | succ fuel =>
      have hvo : off ∉ visited := hv off (by simp)
      simp only [List.map_cons, List.nodup_cons] at hnd
      have hrec := ih fuel (off :: visited) (by simp at hf; omega) hnd.2 (by
        intro x hx
        simp only [List.mem_cons, not_or]
        refine ⟨?_, hv x (by simp [hx])⟩
        intro e; subst e; exact hnd.1 hx)
      simp [chainFrom, hvo, hl, hrec]

end Tabula.Xref
