import TabulaModel.Lemmas.A1
/-!
More lemmas for the A1 codec (C17): digits of `dec`, references contain no colon, the split of
`ParseRangeRef`.
-/
namespace Tabula.A1

theorem dec_digits (n : Nat) : ∀ c ∈ dec n, 48 ≤ c ∧ c ≤ 57 := by
  unfold dec
  induction n using Nat.strongRecOn with
  | _ n ih =>
    rw [decAux]
    split
    · intro c hc; simp at hc; omega
    · rw [decAux_acc]
      intro c hc
      simp only [List.mem_append, List.mem_singleton] at hc
      rcases hc with hc | hc
      · exact ih (n / 10) (by omega) c hc
      · omega

theorem splitOnColon_clean (a rest cur : Str) (ha : 58 ∉ a) :
    splitOnColon (a ++ rest) cur = splitOnColon rest (a.reverse ++ cur) := by
  induction a generalizing cur with
  | nil => rfl
  | cons c cs ih =>
    have hc : c ≠ 58 := fun h => ha (by simp [h])
    have hcs : 58 ∉ cs := fun h => ha (by simp [h])
    simp only [List.cons_append, splitOnColon, hc, if_false]
    rw [ih _ hcs]; simp

/-- `strings.Split(a + ":" + b, ":")` for colon-free `a`, `b` -/
theorem splitOnColon_pair (a b : Str) (ha : 58 ∉ a) (hb : 58 ∉ b) :
    splitOnColon (a ++ 58 :: b) [] = [a, b] := by
  rw [splitOnColon_clean a _ [] ha]
  simp only [List.append_nil, splitOnColon, if_true, List.reverse_reverse]
  have := splitOnColon_clean b [] [] hb
  simp only [List.append_nil] at this
  rw [this]; simp [splitOnColon]

/-- a reference printed by `CellRef` for a non-negative pair has letters and digits only -/
theorem cellRef_chars (col row : Nat) : ∀ c ∈ cellRef (col : Int) (row : Int), (65 ≤ c ∧ c ≤ 90) ∨ (48 ≤ c ∧ c ≤ 57) := by
  unfold cellRef indexToColumn decInt
  have h0 : ¬ ((col : Int) < 0) := by omega
  have h1 : ¬ (((row : Int) + 1) < 0) := by omega
  simp only [h0, h1, if_false, Int.toNat_natCast]
  intro c hc
  simp only [List.mem_append] at hc
  rcases hc with hc | hc
  · exact Or.inl (toColAux_letters _ c hc)
  · exact Or.inr (dec_digits _ c hc)

theorem cellRef_no_colon (col row : Nat) : 58 ∉ cellRef (col : Int) (row : Int) := by
  intro h
  rcases cellRef_chars col row 58 h with h | h <;> omega

end Tabula.A1
