import TabulaModel.Model.Spell
/-!
Property C06, nesting depth: the depth of a validly spelled tree (`SObj.depth`, what the parsers
count in `p.depth`) is the depth of the object it denotes (`Obj.depth`, what the theorems speak
about).  Core Lean only.
-/
namespace Tabula.Pdf

mutual
theorem value_depth (so : SObj) (need : Bool) (hv : so.Valid need) : so.value.depth = so.depth := by
  match so with
  | .null _ => rfl
  | .bool _ _ => rfl
  | .int _ _ _ _ => rfl
  | .real _ r => simp only [SObj.value, RealSp.value, Obj.depth, SObj.depth]
  | .lit _ _ => rfl
  | .hex _ _ _ _ => rfl
  | .name _ _ => rfl
  | .ref _ _ _ _ _ => rfl
  | .arr pre items close =>
    simp only [SObj.Valid] at hv
    simp only [SObj.value, Obj.depth, SObj.depth, valueList_depth items false hv.2.2]
  | .dict pre kvs close =>
    simp only [SObj.Valid] at hv
    simp only [SObj.value, Obj.depth, SObj.depth, valueKVs_depth kvs hv.2.2.1]
theorem valueList_depth (xs : List SObj) (need : Bool) (hv : ValidList need xs) :
    Obj.depthList (valueList xs) = sdepthList xs := by
  match xs with
  | [] => rfl
  | x :: xs =>
    simp only [ValidList] at hv
    simp only [valueList, Obj.depthList, sdepthList, value_depth x need hv.1,
      valueList_depth xs x.endsRegular hv.2]
theorem valueKVs_depth (kvs : List SObj) (hv : ValidKVs kvs) :
    Obj.depthKV (valueKVs kvs) = sdepthList kvs := by
  match kvs with
  | [] => rfl
  | [_] => simp [ValidKVs] at hv
  | k :: v :: r =>
    simp only [ValidKVs] at hv
    obtain ⟨hkn, _, hvv, hv'⟩ := hv
    have hk : k.depth = 0 := by cases k <;> simp [SObj.isName] at hkn <;> rfl
    simp only [valueKVs, Obj.depthKV, sdepthList, value_depth v true hvv, valueKVs_depth r hv', hk]
    omega
end

/-! ### objects of any given depth (witnesses for the hypotheses of the C06 theorems) -/

/-- `k` arrays around `so`: `[[[… so …]]]` -/
def nestArr : Nat → SObj → SObj
  | 0, so => so
  | k + 1, so => .arr [] [nestArr k so] []

/-- `k` dictionaries around `so`: `<</K<</K … so … >>>>` (the value is written right after the key
when it starts with a delimiter, after a space otherwise) -/
def nestDict : Nat → SObj → SObj
  | 0, so => so
  | k + 1, so => .dict [] [.name [] [.raw 75], nestDict k so] []

theorem nestArr_valid (k : Nat) (so : SObj) (h : so.Valid false) : (nestArr k so).Valid false := by
  induction k with
  | zero => exact h
  | succ k ih => simp [nestArr, SObj.Valid, ValidList, SepOk, ih]

theorem nestArr_depth (k : Nat) (so : SObj) : (nestArr k so).value.depth = k + so.value.depth := by
  induction k with
  | zero => simp [nestArr]
  | succ k ih => simp only [nestArr, SObj.value, valueList, Obj.depth, Obj.depthList, ih]; omega

theorem nestDict_valid (k : Nat) (so : SObj) (need : Bool) (h : so.Valid true) :
    (nestDict (k + 1) so).Valid need := by
  induction k generalizing need with
  | zero =>
    simp [nestDict, SObj.Valid, ValidKVs, SepOk, SObj.isName, keysOf, NPiece.Ok, isWs, isDelim, h]
  | succ k ih =>
    have := ih true
    simp [nestDict, SObj.Valid, ValidKVs, SepOk, SObj.isName, keysOf, NPiece.Ok, isWs, isDelim] at this ⊢
    exact this

theorem nestDict_depth (k : Nat) (so : SObj) : (nestDict k so).value.depth = k + so.value.depth := by
  induction k with
  | zero => simp [nestDict]
  | succ k ih => simp only [nestDict, SObj.value, valueKVs, Obj.depth, Obj.depthKV, ih]; omega

end Tabula.Pdf
