import TabulaModel.Model.ExportApi
import TabulaModel.Lemmas.Export
/-!
Lemmas about the metadata maps of `Model/Export.lean` in terms of the chunk's own fields
(`metaField`, `exportedMeta` of `Model/ExportApi.lean`), for `Props/C14Meta.lean`.
-/
set_option linter.unusedSimpArgs false
namespace Tabula.Export
open Tabula.Csv (Str)

theorem mapLookup_append (a b : MapSV) (k : Str) :
    mapLookup (a ++ b) k = (mapLookup a k).or (mapLookup b k) := by
  induction a with
  | nil => simp [mapLookup]
  | cons e rest ih =>
    obtain ⟨k', v'⟩ := e
    simp only [List.cons_append, mapLookup]
    split
    · simp
    · exact ih

theorem mapLookup_mapInsert (m : MapSV) (k : Str) (v : Val) (k' : Str) :
    mapLookup (mapInsert m k v) k' = if k' = k then some v else mapLookup m k' := by
  induction m with
  | nil =>
    simp only [mapInsert, mapLookup]
    by_cases h : k = k'
    · simp [h]
    · have : ¬ k' = k := fun e => h e.symm
      simp [h, this]
  | cons e rest ih =>
    obtain ⟨k1, v1⟩ := e
    simp only [mapInsert]
    by_cases h1 : k1 = k
    · subst h1
      simp only [if_true, mapLookup]
      by_cases h2 : k1 = k'
      · simp [h2]
      · have : ¬ k' = k1 := fun e => h2 e.symm
        simp [h2, this]
    · simp only [h1, if_false, mapLookup, ih]
      by_cases h2 : k1 = k'
      · subst h2
        simp [h1]
      · simp [h2]

theorem mem_mapKeys_iff (m : MapSV) (k : Str) : k ∈ mapKeys m ↔ (mapLookup m k).isSome = true := by
  induction m with
  | nil => simp [mapKeys, mapLookup]
  | cons e rest ih =>
    obtain ⟨k1, v1⟩ := e
    simp only [mapKeys, List.map_cons, List.mem_cons, mapLookup] at ih ⊢
    by_cases h : k1 = k
    · simp [h]
    · have : ¬ k = k1 := fun e => h e.symm
      simp only [this, false_or, h, if_false]
      exact ih

theorem mapKeys_mapInsert (m : MapSV) (k : Str) (v : Val) :
    mapKeys (mapInsert m k v) = if k ∈ mapKeys m then mapKeys m else mapKeys m ++ [k] := by
  induction m with
  | nil => simp [mapInsert, mapKeys]
  | cons e rest ih =>
    obtain ⟨k1, v1⟩ := e
    simp only [mapInsert]
    by_cases h1 : k1 = k
    · subst h1; simp [mapKeys]
    · have h1' : ¬ k = k1 := fun e => h1 e.symm
      simp only [h1, if_false, mapKeys, List.map_cons, List.mem_cons, h1', false_or] at ih ⊢
      rw [ih]
      by_cases hk : k ∈ List.map (fun x => x.fst) rest <;> simp [hk]

theorem nodup_mapInsert (m : MapSV) (k : Str) (v : Val) (h : (mapKeys m).Nodup) :
    (mapKeys (mapInsert m k v)).Nodup := by
  rw [mapKeys_mapInsert]
  split
  · exact h
  · rename_i hk
    rw [List.nodup_append]
    refine ⟨h, by simp, ?_⟩
    intro a ha b hb
    simp only [List.mem_singleton] at hb
    intro e
    exact hk (hb ▸ e ▸ ha)

theorem flat_mapInsert (m : MapSV) (k : Str) (v : Val) (hm : ∀ e ∈ m, isFlat e.2) (hv : isFlat v) :
    ∀ e ∈ mapInsert m k v, isFlat e.2 := by
  induction m with
  | nil => intro e he; simp only [mapInsert, List.mem_singleton] at he; rw [he]; exact hv
  | cons e0 rest ih =>
    obtain ⟨k1, v1⟩ := e0
    intro e he
    simp only [mapInsert] at he
    split at he
    · rcases List.mem_cons.mp he with h | h
      · rw [h]; exact hv
      · exact hm e (List.mem_cons_of_mem _ h)
    · rcases List.mem_cons.mp he with h | h
      · rw [h]; exact hm (k1, v1) (by simp)
      · exact ih (fun e he => hm e (List.mem_cons_of_mem _ he)) e h

theorem flat_of_lookup (m : MapSV) (k : Str) (v : Val) (hm : ∀ e ∈ m, isFlat e.2)
    (h : mapLookup m k = some v) : isFlat v := by
  induction m with
  | nil => simp [mapLookup] at h
  | cons e0 rest ih =>
    obtain ⟨k1, v1⟩ := e0
    simp only [mapLookup] at h
    split at h
    · injection h with h; rw [← h]; exact hm (k1, v1) (by simp)
    · exact ih (fun e he => hm e (List.mem_cons_of_mem _ he)) h

theorem filterFields_spec (fs : List Str) (md acc : MapSV) (hacc : (mapKeys acc).Nodup)
    (hf : ∀ e ∈ acc, isFlat e.2) (hmd : ∀ e ∈ md, isFlat e.2) :
    (mapKeys (filterFields fs md acc)).Nodup ∧ (∀ e ∈ filterFields fs md acc, isFlat e.2) ∧
    ∀ k, mapLookup (filterFields fs md acc) k =
      if fs.contains k then (mapLookup md k).or (mapLookup acc k) else mapLookup acc k := by
  induction fs generalizing acc with
  | nil => exact ⟨hacc, hf, by simp [filterFields]⟩
  | cons f rest ih =>
    simp only [filterFields]
    cases hl : mapLookup md f with
    | none =>
      obtain ⟨h1, h2, h3⟩ := ih acc hacc hf
      refine ⟨h1, h2, ?_⟩
      intro k
      rw [h3 k]
      by_cases hk : k = f
      · subst hk; simp [hl]
      · have : (f == k) = false := by simpa using fun e : f = k => hk e.symm
        simp [hk]
    | some v =>
      have hv : isFlat v := flat_of_lookup md f v hmd hl
      obtain ⟨h1, h2, h3⟩ := ih (mapInsert acc f v) (nodup_mapInsert acc f v hacc) (flat_mapInsert acc f v hf hv)
      refine ⟨h1, h2, ?_⟩
      intro k
      rw [h3 k, mapLookup_mapInsert]
      by_cases hk : k = f
      · subst hk
        simp only [if_true, List.contains_cons, BEq.rfl, Bool.true_or, hl]
        split <;> simp
      · simp [hk]

theorem mapLookup_single (key : Str) (v : Val) (k : Str) :
    mapLookup [(key, v)] k = if k = key then some v else none := by
  simp only [mapLookup]
  by_cases h : key = k
  · simp [h]
  · have : ¬ k = key := fun e => h e.symm
    simp [h, this]

theorem mapLookup_seg (c : Prop) [Decidable c] (key : Str) (v : Val) (k : Str) :
    mapLookup (if c then [(key, v)] else []) k = if k = key then (if c then some v else none) else none := by
  by_cases hc : c
  · simp only [hc, if_true, mapLookup_single]
  · simp [hc, mapLookup]

theorem lookup_chunkMetadataToMap (m : Meta) (k : Str) :
    mapLookup (chunkMetadataToMap m) k = metaField m k := by
  unfold chunkMetadataToMap metaField
  simp only [mapLookup_append, mapLookup_seg, mapLookup_single]
  by_cases h0 : k = kDocumentTitle
  · subst h0; simp (decide := true)
  by_cases h1 : k = kSectionPath
  · subst h1; simp (decide := true)
  by_cases h2 : k = kSectionTitle
  · subst h2; simp (decide := true)
  by_cases h3 : k = kHeadingLevel
  · subst h3; simp (decide := true)
  by_cases h4 : k = kPageStart
  · subst h4; simp (decide := true)
  by_cases h5 : k = kPageEnd
  · subst h5; simp (decide := true)
  by_cases h6 : k = kChunkIndex
  · subst h6; simp (decide := true)
  by_cases h7 : k = kTotalChunks
  · subst h7; simp (decide := true)
  by_cases h8 : k = kLevel
  · subst h8; simp (decide := true)
  by_cases h9 : k = kParentId
  · subst h9; simp (decide := true)
  by_cases h10 : k = kChildIds
  · subst h10; simp (decide := true)
  by_cases h11 : k = kElementTypes
  · subst h11; simp (decide := true)
  by_cases h12 : k = kHasTable
  · subst h12; simp (decide := true)
  by_cases h13 : k = kHasList
  · subst h13; simp (decide := true)
  by_cases h14 : k = kHasImage
  · subst h14; simp (decide := true)
  by_cases h15 : k = kCharCount
  · subst h15; simp (decide := true)
  by_cases h16 : k = kWordCount
  · subst h16; simp (decide := true)
  by_cases h17 : k = kEstimatedTokens
  · subst h17; simp (decide := true)
  simp [*]

/-! ### `filterMetadata` on chunk metadata -/

theorem filterMetadata_chunk_spec (cfg : Config) (m : Meta) :
    (mapKeys (filterMetadata cfg (chunkMetadataToMap m))).Nodup ∧
    (∀ e ∈ filterMetadata cfg (chunkMetadataToMap m), isFlat e.2) ∧
    ∀ k, mapLookup (filterMetadata cfg (chunkMetadataToMap m)) k =
      if allowedField cfg k then metaField m k else none := by
  have hnd : (mapKeys (chunkMetadataToMap m)).Nodup := (keys_sublist m).nodup allKeysApp_nodup
  have hfl := values_flat m
  unfold filterMetadata allowedField
  cases hf : cfg.metadataFields with
  | none =>
    have e : (if cfg.flattenMetadata = true then flattenMetadata (chunkMetadataToMap m) [] else chunkMetadataToMap m)
        = chunkMetadataToMap m := by
      split
      · exact flatten_chunk_metadata m
      · rfl
    simp only [e]
    exact ⟨hnd, hfl, fun k => by simp [lookup_chunkMetadataToMap]⟩
  | some fs =>
    obtain ⟨h1, h2, h3⟩ := filterFields_spec fs (chunkMetadataToMap m) [] (by simp [mapKeys]) (by simp) hfl
    have e : (if cfg.flattenMetadata = true then flattenMetadata (filterFields fs (chunkMetadataToMap m) []) []
        else filterFields fs (chunkMetadataToMap m) []) = filterFields fs (chunkMetadataToMap m) [] := by
      split
      · unfold flattenMetadata
        rw [flattenGo_flat _ [] h2 (by simpa [mapKeys] using h1)]
        simp
      · rfl
    simp only [e]
    refine ⟨h1, h2, ?_⟩
    intro k
    rw [h3 k]
    simp [mapLookup, lookup_chunkMetadataToMap]

/-- the metadata map of an exported record, key by key, in terms of the chunk's fields -/
theorem lookup_filterMetadata (cfg : Config) (m : Meta) (k : Str) :
    mapLookup (filterMetadata cfg (chunkMetadataToMap m)) k =
      if allowedField cfg k then metaField m k else none :=
  (filterMetadata_chunk_spec cfg m).2.2 k

theorem chunkKeys_eq (cfg : Config) (c : Chunk) :
    chunkKeys cfg c = mapKeys (filterMetadata cfg (chunkMetadataToMap c.md)) := by
  unfold chunkKeys
  simp only [flatten_chunk_metadata, ite_self]

theorem mem_chunkKeys_iff (cfg : Config) (c : Chunk) (k : Str) :
    k ∈ chunkKeys cfg c ↔ (allowedField cfg k = true ∧ (metaField c.md k).isSome = true) := by
  rw [chunkKeys_eq, mem_mapKeys_iff, lookup_filterMetadata]
  by_cases h : allowedField cfg k = true <;> simp [h]

/-! ### every metadata value is flat, so `json.Marshal` (the `marshal` parameter) is never reached -/

theorem metaField_flat (m : Meta) (k : Str) (v : Val) (h : metaField m k = some v) : isFlat v := by
  rw [← lookup_chunkMetadataToMap] at h
  exact flat_of_lookup _ k v (values_flat m) h

theorem formatValue_flat (marshal marshal' : MapSV → Str) (v : Val) (h : isFlat v) :
    formatValue marshal v = formatValue marshal' v := by
  cases v with
  | obj kvs => exact absurd h (by simp [isFlat])
  | _ => rfl

/-! ### cells in terms of the chunk's fields -/

theorem getColumnValue_eq_cellSpec (marshal : MapSV → Str) (cfg : Config) (c : Chunk) (col : Str) :
    getColumnValue marshal cfg (prepareChunkForExport cfg c) col = cellSpec cfg c col := by
  unfold getColumnValue cellSpec
  by_cases h1 : col = cfg.chunkIDColumnName
  · simp only [h1, if_true, prepareChunkForExport]
  by_cases h2 : col = cfg.textColumnName
  · simp only [h1, h2, if_true, if_false, prepareChunkForExport]
  simp only [h1, h2, if_false]
  by_cases h3 : col = kChunkIndex
  · simp only [h3, if_true, prepareChunkForExport]
  by_cases h4 : col = kDocumentTitle
  · simp only [h3, h4, if_true, if_false, prepareChunkForExport]
  by_cases h5 : col = kPageStart
  · simp only [h3, h4, h5, if_true, if_false, prepareChunkForExport]
  by_cases h6 : col = kPageEnd
  · simp only [h3, h4, h5, h6, if_true, if_false, prepareChunkForExport]
  by_cases h7 : col = kSectionTitle
  · simp only [h3, h4, h5, h6, h7, if_true, if_false, prepareChunkForExport]
  by_cases h8 : col = kHasTable
  · simp only [h3, h4, h5, h6, h7, h8, if_true, if_false, prepareChunkForExport]
  by_cases h9 : col = kHasList
  · simp only [h3, h4, h5, h6, h7, h8, h9, if_true, if_false, prepareChunkForExport]
  by_cases h10 : col = kHasImage
  · simp only [h3, h4, h5, h6, h7, h8, h9, h10, if_true, if_false, prepareChunkForExport]
  by_cases h11 : col = kEmbeddings
  · simp only [h3, h4, h5, h6, h7, h8, h9, h10, h11, if_true, if_false, prepareChunkForExport]
  simp only [h3, h4, h5, h6, h7, h8, h9, h10, h11, if_false]
  cases stripMeta col with
  | none => rfl
  | some key =>
    simp only [prepareChunkForExport, exportedMeta]
    by_cases hm : cfg.includeMetadata = true
    · simp only [hm, if_true, Bool.true_and, lookup_filterMetadata]
      by_cases ha : allowedField cfg key = true
      · simp only [ha, if_true]
        cases hv : metaField c.md key with
        | none => rfl
        | some v => exact formatValue_flat _ _ v (metaField_flat c.md key v hv)
      · simp only [ha]
        rfl
    · simp only [hm]
      rfl

theorem getColumnValue_fun (marshal : MapSV → Str) (cfg : Config) (c : Chunk) :
    getColumnValue marshal cfg (prepareChunkForExport cfg c) = cellSpec cfg c :=
  funext (getColumnValue_eq_cellSpec marshal cfg c)

/-! ### list-valued metadata is never empty -/

theorem mem_of_mapLookup (m : MapSV) (k : Str) (v : Val) (h : mapLookup m k = some v) : (k, v) ∈ m := by
  induction m with
  | nil => simp [mapLookup] at h
  | cons e0 rest ih =>
    obtain ⟨k1, v1⟩ := e0
    simp only [mapLookup] at h
    split at h
    · rename_i hk
      injection h with h
      rw [hk, h]; exact List.mem_cons_self
    · exact List.mem_cons_of_mem _ (ih h)

def listNonEmpty : Val → Prop
  | .strs l => l ≠ []
  | _ => True

theorem all_append {P : Val → Prop} {a b : MapSV} (ha : ∀ e ∈ a, P e.2) (hb : ∀ e ∈ b, P e.2) :
    ∀ e ∈ a ++ b, P e.2 := by
  intro e he
  rcases List.mem_append.mp he with h | h
  · exact ha e h
  · exact hb e h

theorem all_single {P : Val → Prop} (k : Str) (v : Val) (hv : P v) : ∀ e ∈ [(k, v)], P e.2 := by
  intro e he
  simp only [List.mem_singleton] at he
  rw [he]; exact hv

theorem all_if {P : Val → Prop} (c : Prop) [Decidable c] (k : Str) (v : Val) (hv : c → P v) :
    ∀ e ∈ (if c then [(k, v)] else []), P e.2 := by
  split
  · rename_i hc; exact all_single k v (hv hc)
  · intro e he; simp at he

theorem values_listNonEmpty (m : Meta) : ∀ e ∈ chunkMetadataToMap m, listNonEmpty e.2 := by
  unfold chunkMetadataToMap
  repeat (first | apply all_append | exact all_if _ _ _ (fun h => h) | exact all_if _ _ _ (fun _ => trivial)
                | exact all_single _ _ trivial)

theorem metaField_strs_ne_nil (m : Meta) (k : Str) (l : List Str) (h : metaField m k = some (.strs l)) :
    l ≠ [] := by
  rw [← lookup_chunkMetadataToMap] at h
  exact values_listNonEmpty m _ (mem_of_mapLookup _ _ _ h)


/-! ### column names -/

theorem stripMeta_meta (k : Str) : stripMeta (kMeta ++ k) = some k := by
  simp [stripMeta, kMeta]

theorem fixedColumns_eq (cfg : Config) :
    fixedColumns cfg = cfg.chunkIDColumnName :: ((if cfg.includeText then [cfg.textColumnName] else []) ++ positionalColumns) := by
  simp [fixedColumns, positionalColumns]

theorem stripMeta_positional : ∀ x ∈ kEmbeddings :: positionalColumns, stripMeta x = none := by decide

theorem positional_nodup : (kEmbeddings :: positionalColumns).Nodup := by decide

theorem stripMeta_fixed (cfg : Config) (h : namesOk cfg = true) :
    ∀ x ∈ kEmbeddings :: fixedColumns cfg, stripMeta x = none := by
  simp only [namesOk, Bool.and_eq_true, Option.isNone_iff_eq_none] at h
  obtain ⟨⟨⟨⟨_, _⟩, _⟩, h4⟩, h5⟩ := h
  intro x hx
  rw [fixedColumns_eq] at hx
  simp only [List.mem_cons, List.mem_append] at hx
  rcases hx with hx | hx | hx | hx
  · exact stripMeta_positional x (by simp [hx])
  · rw [hx]; exact h4
  · split at hx
    · simp only [List.mem_singleton] at hx; rw [hx]; exact h5
    · simp at hx
  · exact stripMeta_positional x (List.mem_cons_of_mem _ hx)

theorem fixed_nodup (cfg : Config) (h : namesOk cfg = true) : (kEmbeddings :: fixedColumns cfg).Nodup := by
  simp only [namesOk, Bool.and_eq_true, bne_iff_ne, ne_eq, Bool.not_eq_true', List.contains_eq_mem,
    decide_eq_false_iff_not] at h
  obtain ⟨⟨⟨⟨h1, h2⟩, h3⟩, _⟩, _⟩ := h
  have hp := positional_nodup
  rw [fixedColumns_eq]
  rw [List.nodup_cons] at hp ⊢
  simp only [List.mem_cons, not_or] at h2 h3
  by_cases ht : cfg.includeText = true
  · simp only [ht, if_true, List.singleton_append, List.mem_cons, not_or, List.nodup_cons]
    refine ⟨⟨fun e => h2.1 e.symm, fun e => h3.1 e.symm, hp.1⟩, ⟨fun e => h1 e.symm, h2.2⟩, h3.2, hp.2⟩
  · simp only [ht, List.nil_append, List.mem_cons, not_or, List.nodup_cons, Bool.false_eq_true, if_false]
    exact ⟨⟨fun e => h2.1 e.symm, hp.1⟩, h2.2, hp.2⟩

theorem nodup_of_strict {l : List Str} (h : l.Pairwise strLt) : l.Nodup := by
  induction l with
  | nil => exact List.nodup_nil
  | cons x xs ih =>
    rw [List.pairwise_cons] at h
    rw [List.nodup_cons]
    exact ⟨fun hm => (h.1 x hm).2 rfl, ih h.2⟩

theorem nodup_map_meta {l : List Str} (h : l.Nodup) : (l.map (kMeta ++ ·)).Nodup := by
  induction l with
  | nil => simp
  | cons x xs ih =>
    rw [List.nodup_cons] at h
    rw [List.map_cons, List.nodup_cons]
    refine ⟨?_, ih h.2⟩
    intro hm
    obtain ⟨y, hy, e⟩ := List.mem_map.mp hm
    have : y = x := List.append_cancel_left e
    exact h.1 (this ▸ hy)

theorem sortedMetaKeys_strict (cfg : Config) (chunks : List Chunk) : (sortedMetaKeys cfg chunks).Pairwise strLt := by
  unfold sortedMetaKeys
  split
  · exact strict_of_sorted_nodup (pairwise_sortStrings _) (nodup_sortStrings (nodup_collectKeys List.nodup_nil))
  · exact List.Pairwise.nil

theorem mem_sortedMetaKeys (cfg : Config) (chunks : List Chunk) (k : Str) :
    k ∈ sortedMetaKeys cfg chunks ↔
      (cfg.includeMetadata = true ∧ isStandardColumn k = false ∧ ∃ c ∈ chunks, (exportedMeta cfg c.md k).isSome = true) := by
  unfold sortedMetaKeys exportedMeta
  by_cases h : cfg.includeMetadata = true
  · simp only [h, if_true, mem_sortStrings, mem_collectKeys, List.not_mem_nil, false_or, true_and, Bool.true_and,
      mem_chunkKeys_iff]
    constructor
    · rintro ⟨c, hc, ⟨ha, hm⟩, hs⟩
      exact ⟨hs, c, hc, by simp [ha, hm]⟩
    · rintro ⟨hs, c, hc, hm⟩
      refine ⟨c, hc, ?_, hs⟩
      by_cases ha : allowedField cfg k = true
      · simp only [ha, if_true] at hm; exact ⟨ha, hm⟩
      · simp [ha] at hm
  · simp [h]

/-- the header has no duplicate column (for non-colliding id/text column names) -/
theorem columns_nodup (cfg : Config) (chunks : List Chunk) (h : namesOk cfg = true) :
    (collectCSVColumns cfg chunks).Nodup := by
  have hf := fixed_nodup cfg h
  have hs := stripMeta_fixed cfg h
  rw [List.nodup_cons] at hf
  have hk := nodup_map_meta (nodup_of_strict (sortedMetaKeys_strict cfg chunks))
  unfold collectCSVColumns
  rw [List.nodup_append]
  refine ⟨?_, ?_, ?_⟩
  · rw [List.nodup_append]
    refine ⟨hf.2, hk, ?_⟩
    intro a ha b hb e
    obtain ⟨y, _, hy⟩ := List.mem_map.mp hb
    have h1 := hs a (List.mem_cons_of_mem _ ha)
    rw [e, ← hy, stripMeta_meta] at h1
    exact absurd h1 (by simp)
  · split <;> simp
  · intro a ha b hb e
    split at hb
    · simp only [List.mem_singleton] at hb
      rcases List.mem_append.mp ha with ha | ha
      · exact hf.1 (hb ▸ e ▸ ha)
      · obtain ⟨y, _, hy⟩ := List.mem_map.mp ha
        have h1 := hs kEmbeddings (by simp)
        rw [← hb, ← e, ← hy, stripMeta_meta] at h1
        exact absurd h1 (by simp)
    · simp at hb

/-- which `meta_<key>` columns an export has, in terms of the chunks' own fields -/
theorem meta_column_iff (cfg : Config) (chunks : List Chunk) (h : namesOk cfg = true) (k : Str) :
    kMeta ++ k ∈ collectCSVColumns cfg chunks ↔
      (cfg.includeMetadata = true ∧ isStandardColumn k = false ∧ ∃ c ∈ chunks, (exportedMeta cfg c.md k).isSome = true) := by
  have hs := stripMeta_fixed cfg h
  rw [← mem_sortedMetaKeys]
  unfold collectCSVColumns
  simp only [List.mem_append, List.mem_map]
  constructor
  · rintro ((hm | ⟨y, hy, e⟩) | hm)
    · have := hs _ (List.mem_cons_of_mem _ hm)
      rw [stripMeta_meta] at this
      exact absurd this (by simp)
    · have : y = k := List.append_cancel_left e
      exact this ▸ hy
    · split at hm
      · simp only [List.mem_singleton] at hm
        have := hs kEmbeddings (by simp)
        rw [← hm, stripMeta_meta] at this
        exact absurd this (by simp)
      · simp at hm
  · intro hk
    exact Or.inl (Or.inr ⟨k, hk, rfl⟩)

/-! ### list cells: exactly the comma-free lists read back -/

theorem splitAcc_length (s cur : Str) : (splitAcc s cur).length = s.count 44 + 1 := by
  induction s generalizing cur with
  | nil => simp [splitAcc]
  | cons c cs ih =>
    simp only [splitAcc]
    by_cases h : c = 44
    · subst h; simp [ih]
    · have : ¬ (c == 44) = true := by simpa using h
      simp [h, ih, List.count_cons, this]

def commas (l : List Str) : Nat := (l.map (·.count 44)).sum

theorem joinComma_count (l : List Str) (hne : l ≠ []) :
    (joinComma l).count 44 + 1 = l.length + commas l := by
  induction l with
  | nil => exact absurd rfl hne
  | cons s rest ih =>
    cases rest with
    | nil => simp only [joinComma, commas, List.map_cons, List.map_nil, List.sum_cons, List.sum_nil, List.length_cons, List.length_nil]; omega
    | cons t more =>
      have := ih (by simp)
      simp only [joinComma, List.count_append, List.count_cons, BEq.rfl, if_true, commas, List.map_cons,
        List.sum_cons, List.length_cons] at this ⊢
      omega

theorem commas_zero {l : List Str} (h : commas l = 0) : ∀ s ∈ l, 44 ∉ s := by
  induction l with
  | nil => simp
  | cons x xs ih =>
    simp only [commas, List.map_cons, List.sum_cons] at h
    intro s hs
    rcases List.mem_cons.mp hs with e | e
    · rw [e]
      have : x.count 44 = 0 := by omega
      exact List.count_eq_zero.mp this
    · exact ih (by simp only [commas]; omega) s e

end Tabula.Export
