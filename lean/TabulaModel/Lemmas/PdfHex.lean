import TabulaModel.Model.Print
import TabulaModel.Model.CSParser
namespace Tabula.Pdf

/-! ### hex digits -/

theorem hexDigitChar_isHexDigit (u : Bool) (v : Nat) (hv : v < 16) :
    isHexDigit (hexDigitChar u v) = true := by
  cases u <;> simp [hexDigitChar, isHexDigit] <;> split <;> omega

theorem hexDigitChar_isWs (u : Bool) (v : Nat) (hv : v < 16) :
    isWs (hexDigitChar u v) = false := by
  cases u <;> simp [hexDigitChar, isWs] <;> split <;> omega

theorem hexDigitChar_ne (u : Bool) (v : Nat) (hv : v < 16) : hexDigitChar u v ≠ 62 := by
  cases u <;> simp [hexDigitChar] <;> split <;> omega

theorem hexDigitChar_value (u : Bool) (v : Nat) (hv : v < 16) :
    hexValue (hexDigitChar u v) = v := by
  have h : v = 0 ∨ v = 1 ∨ v = 2 ∨ v = 3 ∨ v = 4 ∨ v = 5 ∨ v = 6 ∨ v = 7 ∨ v = 8 ∨ v = 9 ∨
      v = 10 ∨ v = 11 ∨ v = 12 ∨ v = 13 ∨ v = 14 ∨ v = 15 := by omega
  cases u <;> rcases h with h | h | h | h | h | h | h | h | h | h | h | h | h | h | h | h <;>
    subst h <;> decide

theorem isWs_ne (c : Nat) (h : isWs c = true) : c ≠ 62 := by
  intro hc; subst hc; revert h; decide

/-! ### one step of the document-level loop -/

theorem hexLoop_end (r : Str) : hexLoop (62 :: r) = some ([], r) := by
  simp [hexLoop]

theorem hexLoop_ws (c : Nat) (r : Str) (h : isWs c = true) : hexLoop (c :: r) = hexLoop r := by
  have := isWs_ne c h
  simp [hexLoop, this, h]

theorem hexLoop_digit (c : Nat) (r : Str) (h1 : c ≠ 62) (h2 : isWs c = false)
    (h3 : isHexDigit c = true) : hexLoop (c :: r) = pre [c] (hexLoop r) := by
  simp [hexLoop, h1, h2, h3]

theorem hexLoop_bad (c : Nat) (r : Str) (h1 : c ≠ 62) (h2 : isWs c = false)
    (h3 : isHexDigit c = false) : hexLoop (c :: r) = none := by
  simp [hexLoop, h1, h2, h3]

theorem hexLoop_allWs (w rest : Str) (hw : AllWs w) : hexLoop (w ++ rest) = hexLoop rest := by
  induction w with
  | nil => rfl
  | cons c w ih =>
    have hc : isWs c = true := hw c (by simp)
    have hw' : AllWs w := fun d hd => hw d (by simp [hd])
    rw [List.cons_append, hexLoop_ws c _ hc, ih hw']

theorem hexLoop_hdc (u : Bool) (v : Nat) (hv : v < 16) (r : Str) :
    hexLoop (hexDigitChar u v :: r) = pre [hexDigitChar u v] (hexLoop r) :=
  hexLoop_digit _ _ (hexDigitChar_ne u v hv) (hexDigitChar_isWs u v hv) (hexDigitChar_isHexDigit u v hv)

theorem pre_pre (a b : Str) (x : Option (Str × Str)) : pre a (pre b x) = pre (a ++ b) x := by
  cases x with
  | none => rfl
  | some p => cases p; simp [pre]

theorem pre_nil (x : Option (Str × Str)) : pre [] x = x := by
  cases x with
  | none => rfl
  | some p => cases p; rfl

/-! ### the round trip -/

def hexDigitsOf (ps : List HPiece) : Str :=
  ps.flatMap (fun p => [hexDigitChar p.u1 (p.b / 16), hexDigitChar p.u2 (p.b % 16)])

theorem hexLoop_piece (p : HPiece) (hp : p.Ok) (rest : Str) :
    hexLoop (p.render ++ rest) =
      pre [hexDigitChar p.u1 (p.b / 16), hexDigitChar p.u2 (p.b % 16)] (hexLoop rest) := by
  obtain ⟨hb, h1, h2⟩ := hp
  have e : p.render ++ rest =
      p.w1 ++ (hexDigitChar p.u1 (p.b / 16) :: (p.w2 ++ (hexDigitChar p.u2 (p.b % 16) :: rest))) := by
    simp [HPiece.render]
  rw [e, hexLoop_allWs _ _ h1, hexLoop_hdc _ _ (by omega), hexLoop_allWs _ _ h2,
    hexLoop_hdc _ _ (by omega), pre_pre]
  rfl

theorem hexLoop_pieces (ps : List HPiece) (hps : ∀ p ∈ ps, p.Ok) (rest : Str) :
    hexLoop (ps.flatMap HPiece.render ++ rest) = pre (hexDigitsOf ps) (hexLoop rest) := by
  induction ps with
  | nil => simp [hexDigitsOf, pre_nil]
  | cons p ps ih =>
    have hp : p.Ok := hps p (by simp)
    have hps' : ∀ q ∈ ps, q.Ok := fun q hq => hps q (by simp [hq])
    rw [List.flatMap_cons, List.append_assoc, hexLoop_piece p hp, ih hps', pre_pre]
    rfl

theorem hexPairs_digits (ps : List HPiece) (hps : ∀ p ∈ ps, p.Ok) (more : Str) :
    hexPairs (hexDigitsOf ps ++ more) = ps.map (·.b) ++ hexPairs more := by
  induction ps with
  | nil => rfl
  | cons p ps ih =>
    have hp : p.Ok := hps p (by simp)
    have hps' : ∀ q ∈ ps, q.Ok := fun q hq => hps q (by simp [hq])
    have hb := hp.1
    have e : hexDigitsOf (p :: ps) ++ more =
        hexDigitChar p.u1 (p.b / 16) :: hexDigitChar p.u2 (p.b % 16) :: (hexDigitsOf ps ++ more) := by
      simp [hexDigitsOf]
    rw [e, hexPairs, ih hps', hexDigitChar_value _ _ (by omega), hexDigitChar_value _ _ (by omega)]
    simp only [List.map_cons, List.cons_append]
    congr 1
    omega

/-- the document-level lexer + parser read every legal spelling of a hex string (any case, any
white space between digits, optional missing last digit) back as the bytes meant -/
theorem hexstr_roundtrip (ps : List HPiece) (last : Option HLast) (wEnd tail : Str)
    (hps : ∀ p ∈ ps, p.Ok) (hlast : ∀ l, last = some l → l.Ok) (hw : AllWs wEnd) :
    ∃ ds, hexLoop (renderHexBody ps last wEnd ++ tail) = some (ds, tail) ∧ hexPairs ds = hexValueOf ps last := by
  cases last with
  | none =>
    refine ⟨hexDigitsOf ps, ?_, ?_⟩
    · have e : renderHexBody ps none wEnd ++ tail =
          ps.flatMap HPiece.render ++ (wEnd ++ (62 :: tail)) := by
        simp [renderHexBody]
      rw [e, hexLoop_pieces ps hps, hexLoop_allWs _ _ hw, hexLoop_end]
      simp [pre]
    · have := hexPairs_digits ps hps []
      simpa [hexValueOf, hexPairs] using this
  | some l =>
    obtain ⟨hhi, hlw⟩ := hlast l rfl
    refine ⟨hexDigitsOf ps ++ [hexDigitChar l.u l.hi], ?_, ?_⟩
    · have e : renderHexBody ps (some l) wEnd ++ tail =
          ps.flatMap HPiece.render ++ (l.w ++ (hexDigitChar l.u l.hi :: (wEnd ++ (62 :: tail)))) := by
        simp [renderHexBody, HLast.render]
      rw [e, hexLoop_pieces ps hps, hexLoop_allWs _ _ hlw, hexLoop_hdc _ _ hhi,
        hexLoop_allWs _ _ hw, hexLoop_end]
      simp [pre]
    · rw [hexPairs_digits ps hps]
      simp [hexValueOf, hexPairs, hexDigitChar_value _ _ hhi]

/-! ### one step of the content-stream loop -/

theorem cs_hexLoop_end (r : Str) : CS.hexLoop (62 :: r) = some ([], r) := by
  rw [CS.hexLoop.eq_def]; simp

theorem cs_hexLoop_ws (c : Nat) (r : Str) (h : isWs c = true) :
    CS.hexLoop (c :: r) = CS.hexLoop r := by
  have := isWs_ne c h
  rw [CS.hexLoop.eq_def]; simp [this, h]

theorem cs_hexLoop_d1 (c : Nat) (h1 : c ≠ 62) (h2 : isWs c = false) (h3 : isHexDigit c = true)
    (r2 : Str) : CS.hexLoop (c :: 62 :: r2) = some ([hexValue c * 16], r2) := by
  rw [CS.hexLoop.eq_def]; simp [h1, h2, h3]

theorem cs_hexLoop_d2 (c c2 : Nat) (h1 : c ≠ 62) (h2 : isWs c = false) (h3 : isHexDigit c = true)
    (g1 : c2 ≠ 62) (g2 : isWs c2 = false) (g3 : isHexDigit c2 = true) (r2 : Str) :
    CS.hexLoop (c :: c2 :: r2) = pre [hexValue c * 16 + hexValue c2] (CS.hexLoop r2) := by
  rw [CS.hexLoop.eq_def]; simp [h1, h2, h3, g1, g2, g3]

theorem cs_hexLoop_dw1 (c c2 : Nat) (h1 : c ≠ 62) (h2 : isWs c = false) (h3 : isHexDigit c = true)
    (g2 : isWs c2 = true) (r2 r3 : Str) (hs : skipWs r2 = 62 :: r3) :
    CS.hexLoop (c :: c2 :: r2) = some ([hexValue c * 16], r3) := by
  have g1 := isWs_ne c2 g2
  rw [CS.hexLoop.eq_def]; simp only [h1, h2, h3, g1, g2]
  simp
  split
  · next h => rw [hs] at h; cases h
  · next c3 r3' h => rw [hs] at h; cases h; simp

theorem cs_hexLoop_dw2 (c c2 c3 : Nat) (h1 : c ≠ 62) (h2 : isWs c = false) (h3 : isHexDigit c = true)
    (g2 : isWs c2 = true) (r2 r3 : Str) (hs : skipWs r2 = c3 :: r3)
    (k1 : c3 ≠ 62) (k3 : isHexDigit c3 = true) :
    CS.hexLoop (c :: c2 :: r2) = pre [hexValue c * 16 + hexValue c3] (CS.hexLoop r3) := by
  have g1 := isWs_ne c2 g2
  rw [CS.hexLoop.eq_def]; simp only [h1, h2, h3, g1, g2]
  simp
  split
  · next h => rw [hs] at h; cases h
  · next c3' r3' h => rw [hs] at h; cases h; simp [k1, k3]

/-! ### white space skipping -/

theorem hexLoop_skipWs (s : Str) : hexLoop (skipWs s) = hexLoop s := by
  induction s with
  | nil => rfl
  | cons c s ih =>
    simp only [skipWs]
    split
    · next h => rw [ih, hexLoop_ws c s h]
    · rfl

theorem skipWs_head (s : Str) (c : Nat) (r : Str) (h : skipWs s = c :: r) : isWs c = false := by
  induction s with
  | nil => simp [skipWs] at h
  | cons d s ih =>
    simp only [skipWs] at h
    split at h
    · exact ih h
    · next hd => cases h; simpa using hd

/-! ### inversion of the document-level loop -/

theorem hexLoop_inv (c : Nat) (r0 ds r : Str) (h1 : c ≠ 62) (h2 : isWs c = false)
    (h : hexLoop (c :: r0) = some (ds, r)) :
    isHexDigit c = true ∧ ∃ ds', ds = c :: ds' ∧ hexLoop r0 = some (ds', r) := by
  cases h3 : isHexDigit c with
  | false => rw [hexLoop_bad c r0 h1 h2 h3] at h; cases h
  | true =>
    rw [hexLoop_digit c r0 h1 h2 h3] at h
    cases h4 : hexLoop r0 with
    | none => rw [h4] at h; cases h
    | some p =>
      obtain ⟨ds', r'⟩ := p
      rw [h4] at h
      simp only [pre, Option.some.injEq, Prod.mk.injEq] at h
      obtain ⟨ha, hb⟩ := h
      subst ha hb
      exact ⟨rfl, ds', rfl, rfl⟩

/-- whenever the document-level lexer accepts a hex string, the content-stream reader accepts it
too, stops at the same place and gives the bytes the document-level parser computes from the digits -/
theorem cs_hexLoop_agree (inp ds r : Str) (h : hexLoop inp = some (ds, r)) :
    CS.hexLoop inp = some (hexPairs ds, r) := by
  generalize hn : inp.length = n
  induction n using Nat.strongRecOn generalizing inp ds with
  | _ n ih =>
  cases inp with
  | nil => simp [hexLoop] at h
  | cons c r0 =>
  by_cases h1 : c = 62
  · subst h1
    rw [hexLoop_end] at h; cases h
    rw [cs_hexLoop_end]; rfl
  cases h2 : isWs c with
  | true =>
    rw [hexLoop_ws c r0 h2] at h
    rw [cs_hexLoop_ws c r0 h2]
    exact ih r0.length (by simp at hn; omega) r0 ds h rfl
  | false =>
  obtain ⟨h3, ds', hds, h'⟩ := hexLoop_inv c r0 ds r h1 h2 h
  subst hds
  cases r0 with
  | nil => simp [hexLoop] at h'
  | cons c2 r2 =>
  by_cases g1 : c2 = 62
  · subst g1
    rw [hexLoop_end] at h'; cases h'
    rw [cs_hexLoop_d1 c h1 h2 h3]; rfl
  cases g2 : isWs c2 with
  | true =>
    rw [hexLoop_ws c2 r2 g2, ← hexLoop_skipWs] at h'
    have hle := CS.skipWs_le r2
    cases hs : skipWs r2 with
    | nil => rw [hs] at h'; simp [hexLoop] at h'
    | cons c3 r3 =>
    rw [hs] at h' hle
    by_cases k1 : c3 = 62
    · subst k1
      rw [hexLoop_end] at h'; cases h'
      rw [cs_hexLoop_dw1 c c2 h1 h2 h3 g2 r2 _ hs]; rfl
    have k2 := skipWs_head r2 c3 r3 hs
    obtain ⟨k3, ds'', hds, h''⟩ := hexLoop_inv c3 r3 ds' r k1 k2 h'
    subst hds
    rw [cs_hexLoop_dw2 c c2 c3 h1 h2 h3 g2 r2 r3 hs k1 k3]
    rw [ih r3.length (by simp at hn hle; omega) r3 ds'' h'' rfl]
    rfl
  | false =>
    obtain ⟨g3, ds'', hds, h''⟩ := hexLoop_inv c2 r2 ds' r g1 g2 h'
    subst hds
    rw [cs_hexLoop_d2 c c2 h1 h2 h3 g1 g2 g3]
    rw [ih r2.length (by simp at hn; omega) r2 ds'' h'' rfl]
    rfl

/-- so the content-stream reader has the same round trip -/
theorem cs_hexstr_roundtrip (ps : List HPiece) (last : Option HLast) (wEnd tail : Str)
    (hps : ∀ p ∈ ps, p.Ok) (hlast : ∀ l, last = some l → l.Ok) (hw : AllWs wEnd) :
    CS.hexLoop (renderHexBody ps last wEnd ++ tail) = some (hexValueOf ps last, tail) := by
  obtain ⟨ds, h1, h2⟩ := hexstr_roundtrip ps last wEnd tail hps hlast hw
  rw [cs_hexLoop_agree _ ds tail h1, h2]

end Tabula.Pdf
