import TabulaModel.Model.XrefBytes
import TabulaModel.Lemmas.A1
namespace Tabula.XrefBytes
open Tabula.A1

theorem beBytes_length (v w : Nat) : (beBytes v w).length = w := by
  induction w generalizing v with
  | zero => rfl
  | succ w ih => simp [beBytes, ih]

theorem step_arith (a p q r : Nat) : (a * p + q) * 256 + r = a * (p * 256) + (r + 256 * q) := by
  have e : a * (p * 256) = a * p * 256 := (Nat.mul_assoc a p 256).symm
  rw [e, Nat.add_mul]
  omega

theorem foldl_beBytes (v w a : Nat) :
    (beBytes v w).foldl (fun acc b => acc * 256 + b) a = a * 256 ^ w + v % 256 ^ w := by
  induction w generalizing v a with
  | zero => simp [beBytes, Nat.mod_one]
  | succ w ih =>
    simp only [beBytes, List.foldl_append, List.foldl_cons, List.foldl_nil, ih]
    have hp : (256 : Nat) ^ (w + 1) = 256 ^ w * 256 := Nat.pow_succ 256 w
    have h : v % (256 ^ w * 256) = v % 256 + 256 * (v / 256 % 256 ^ w) := by
      rw [Nat.mul_comm]; exact Nat.mod_mul
    rw [hp, h]
    exact step_arith a (256 ^ w) (v / 256 % 256 ^ w) (v % 256)

/-- reading back a big-endian field of at most 8 bytes, whatever follows it -/
theorem readBE_beBytes (v w : Nat) (rest : List Nat) (hw : w ≤ 8) (hv : v < 256 ^ w) :
    readBE (beBytes v w ++ rest) w = v := by
  unfold readBE
  have hmin : min w 8 = w := Nat.min_eq_left hw
  rw [hmin]
  have : (beBytes v w ++ rest).take w = beBytes v w := by
    rw [List.take_append_of_le_length (by simp [beBytes_length])]
    exact List.take_of_length_le (by simp [beBytes_length])
  rw [this, foldl_beBytes]
  simp [Nat.mod_eq_of_lt hv]

/-! ### decimal digits -/

def IsDigits (s : Str) : Prop := ∀ c ∈ s, 48 ≤ c ∧ c ≤ 57

theorem dec_digits (n : Nat) : IsDigits (dec n) := by
  unfold dec
  induction n using Nat.strongRecOn with
  | _ n ih =>
    rw [decAux]
    split
    · intro c hc; simp at hc; omega
    · rw [decAux_acc]
      intro c hc
      simp at hc
      rcases hc with hc | hc
      · exact ih (n / 10) (by omega) c hc
      · omega

theorem dec_length_le (n k : Nat) (h : n < 10 ^ (k + 1)) : (dec n).length ≤ k + 1 := by
  unfold dec
  induction k generalizing n with
  | zero =>
    rw [decAux]
    have : n < 10 := by simpa using h
    simp [this]
  | succ k ih =>
    rw [decAux]
    split
    · simp
    · rw [decAux_acc]
      have hlt : n / 10 < 10 ^ (k + 1) := by
        rw [Nat.pow_succ] at h
        exact Nat.div_lt_of_lt_mul (by rw [Nat.mul_comm]; exact h)
      have := ih (n / 10) hlt
      simp; omega

theorem digitsAcc_zeros (k : Nat) (s : Str) :
    digitsAcc (List.replicate k 48 ++ s) 0 = digitsAcc s 0 := by
  induction k with
  | zero => rfl
  | succ k ih =>
    simp only [List.replicate_succ, List.cons_append, digitsAcc]
    simpa using ih

theorem padDec_length (w n : Nat) (h : (dec n).length ≤ w) : (padDec w n).length = w := by
  unfold padDec; simp; omega

theorem padDec_digits (w n : Nat) : IsDigits (padDec w n) := by
  unfold padDec
  intro c hc
  simp at hc
  rcases hc with ⟨_, rfl⟩ | hc
  · omega
  · exact dec_digits n c hc

theorem atoi_digits (s : Str) (hs : IsDigits s) (hne : s ≠ []) (v : Nat)
    (hv : digitsAcc s 0 = some v) (hmax : v ≤ maxInt64) : atoi s = some (v : Int) := by
  unfold atoi
  cases s with
  | nil => exact absurd rfl hne
  | cons d ds =>
    have hd := hs d (by simp)
    have h43 : d ≠ 43 := by omega
    have h45 : d ≠ 45 := by omega
    split
    · rename_i heq
      split at heq
      · rename_i h'; simp at h'; omega
      · rename_i h'; simp at h'; omega
      · simp at heq
        obtain ⟨hn, hds⟩ := heq
        subst hn; subst hds
        simp [hv, hmax]

theorem atoi_padDec (w n : Nat) (hn : n ≤ maxInt64) : atoi (padDec w n) = some (n : Int) := by
  apply atoi_digits _ (padDec_digits w n)
  · unfold padDec
    obtain ⟨d, ds, hd, _, _⟩ := dec_head n
    rw [hd]; simp
  · unfold padDec
    rw [digitsAcc_zeros, digitsAcc_dec]
  · exact hn

/-! ### TrimSpace on what an entry contains -/

theorem digit_not_space (c : Nat) (h : 48 ≤ c ∧ c ≤ 57) : isSpace c = false := by
  unfold isSpace
  have : c ≠ 32 ∧ c ≠ 9 ∧ c ≠ 10 ∧ c ≠ 11 ∧ c ≠ 12 ∧ c ≠ 13 := by omega
  simp [this]

theorem dropWhile_space_digits (s : Str) (hs : IsDigits s) : s.dropWhile isSpace = s := by
  cases s with
  | nil => rfl
  | cons c cs => simp [List.dropWhile, digit_not_space c (hs c (by simp))]

theorem trimSpace_digits (s : Str) (hs : IsDigits s) : trimSpace s = s := by
  unfold trimSpace
  rw [dropWhile_space_digits s hs]
  have hr : IsDigits s.reverse := fun c hc => hs c (by simpa using hc)
  rw [dropWhile_space_digits _ hr]
  simp

theorem trimSpace_space_digits (s : Str) (hs : IsDigits s) : trimSpace (32 :: s) = s := by
  unfold trimSpace
  have : isSpace 32 = true := by decide
  simp only [List.dropWhile, this]
  exact trimSpace_digits s hs

/-- the 18 significant bytes of a classic entry, followed by anything, parse back -/
theorem parseEntry_fmtEntry (off gen : Nat) (inUse : Bool) (eol : Str)
    (hoff : off < 10 ^ 10) (hgen : gen < 10 ^ 5) :
    parseEntry (fmtEntry off gen inUse ++ eol) = some ((off : Int), (gen : Int), inUse) := by
  have hl1 : (padDec 10 off).length = 10 := padDec_length 10 off (dec_length_le off 9 hoff)
  have hl2 : (padDec 5 gen).length = 5 := padDec_length 5 gen (dec_length_le gen 4 hgen)
  unfold parseEntry fmtEntry
  have hlen : ¬ ((padDec 10 off ++ [32] ++ padDec 5 gen ++ [32] ++ [if inUse then 110 else 102] ++ eol).length < 18) := by
    simp [hl1, hl2]; omega
  simp only [hlen, if_false]
  have t1 : (padDec 10 off ++ [32] ++ padDec 5 gen ++ [32] ++ [if inUse then 110 else 102] ++ eol).take 10 = padDec 10 off := by
    simp only [List.append_assoc]
    rw [List.take_append_of_le_length (by omega)]
    exact List.take_of_length_le (by omega)
  have d1 : (padDec 10 off ++ [32] ++ padDec 5 gen ++ [32] ++ [if inUse then 110 else 102] ++ eol).drop 10 =
      32 :: (padDec 5 gen ++ ([32] ++ ([if inUse then 110 else 102] ++ eol))) := by
    simp only [List.append_assoc]
    rw [List.drop_append_of_le_length (by omega)]
    simp [hl1]
  have t2 : ((padDec 10 off ++ [32] ++ padDec 5 gen ++ [32] ++ [if inUse then 110 else 102] ++ eol).drop 10).take 6 = 32 :: padDec 5 gen := by
    rw [d1]
    simp only [List.take_succ_cons]
    rw [List.take_append_of_le_length (by omega)]
    congr 1
    exact List.take_of_length_le (by omega)
  have d2 : (padDec 10 off ++ [32] ++ padDec 5 gen ++ [32] ++ [if inUse then 110 else 102] ++ eol).drop 16 =
      32 :: ((if inUse then 110 else 102) :: eol) := by
    have : (16 : Nat) = 10 + 6 := rfl
    rw [this, ← List.drop_drop, d1]
    simp only [List.drop_succ_cons]
    rw [List.drop_append_of_le_length (by omega)]
    simp [hl2]
  rw [t1, t2, d2]
  rw [trimSpace_digits _ (padDec_digits 10 off), trimSpace_space_digits _ (padDec_digits 5 gen)]
  rw [atoi_padDec 10 off (by unfold maxInt64; omega), atoi_padDec 5 gen (by unfold maxInt64; omega)]
  cases inUse <;> simp [trimSpace, List.dropWhile, isSpace]

end Tabula.XrefBytes
