import TabulaModel.Lemmas.Reader
/-!
Renumbering the objects of a file (Props/C01Reader.lean, `read_renumber_invariant`): every
function of the reader above the object layer commutes with rewriting the object numbers in
references by an injective map.
-/
namespace Tabula.PdfDoc

/-- apply `g` to the `/Resources` representative -/
def AttrsOf.mapRes {R S : Type} (g : R → S) (a : AttrsOf R) : AttrsOf S :=
  { mb := a.mb, res := a.res.map g, rot := a.rot }

mutual
def PTreeOf.mapRes {R S : Type} (g : R → S) : PTreeOf R → PTreeOf S
  | .leaf a => .leaf (a.mapRes g)
  | .node a kids => .node (a.mapRes g) (mapResList g kids)
def mapResList {R S : Type} (g : R → S) : List (PTreeOf R) → List (PTreeOf S)
  | [] => []
  | t :: ts => t.mapRes g :: mapResList g ts
end

theorem over_mapRes {R S : Type} (g : R → S) (a b : AttrsOf R) :
    (a.over b).mapRes g = (a.mapRes g).over (b.mapRes g) := by
  cases a with | mk m1 r1 t1 => cases b with | mk m2 r2 t2 =>
  cases r1 <;> simp [AttrsOf.over, AttrsOf.mapRes]

mutual
theorem flatten_mapRes {R S : Type} (g : R → S) (t : PTreeOf R) (inh : AttrsOf R) :
    flatten (t.mapRes g) (inh.mapRes g) = (flatten t inh).map (AttrsOf.mapRes g) := by
  cases t with
  | leaf a => simp [PTreeOf.mapRes, flatten, over_mapRes]
  | node a kids =>
    simp only [PTreeOf.mapRes, flatten]
    rw [← over_mapRes, flattenList_mapRes g kids]
theorem flattenList_mapRes {R S : Type} (g : R → S) (ts : List (PTreeOf R)) (inh : AttrsOf R) :
    flattenList (mapResList g ts) (inh.mapRes g) = (flattenList ts inh).map (AttrsOf.mapRes g) := by
  cases ts with
  | nil => simp [mapResList, flattenList]
  | cons t ts =>
    simp only [mapResList, flattenList, List.map_append]
    rw [flatten_mapRes g t, flattenList_mapRes g ts]
end

end Tabula.PdfDoc

namespace Tabula.Reader
open Tabula.Pdf (Obj)

/-- a reference's object number after renumbering (a negative number names nothing) -/
def renNum (σ : Nat → Nat) (n : Int) : Int := if n < 0 then n else ((σ n.toNat : Nat) : Int)

mutual
/-- rewrite the object numbers of all references inside an object -/
def renObj (σ : Nat → Nat) : Obj → Obj
  | .ref n g => .ref (renNum σ n) g
  | .arr xs => .arr (renList σ xs)
  | .dict kv => .dict (renKV σ kv)
  | .null => .null
  | .bool b => .bool b
  | .int i => .int i
  | .real a b c => .real a b c
  | .str s => .str s
  | .name s => .name s
def renList (σ : Nat → Nat) : List Obj → List Obj
  | [] => []
  | x :: xs => renObj σ x :: renList σ xs
def renKV (σ : Nat → Nat) : List (Str × Obj) → List (Str × Obj)
  | [] => []
  | (k, v) :: r => (k, renObj σ v) :: renKV σ r
end

def renSVal (σ : Nat → Nat) : SVal → SVal
  | .obj o => .obj (renObj σ o)
  | .stream d => .stream d

/-- `res'` holds under number `σ n` what `res` holds under `n`, with the references rewritten -/
def Renumbered (σ : Nat → Nat) (res res' : Res) : Prop :=
  ∀ n, res' (σ n) = (res n).map (renSVal σ)

theorem renList_eq_map (σ : Nat → Nat) (xs : List Obj) : renList σ xs = xs.map (renObj σ) := by
  induction xs with
  | nil => rfl
  | cons x xs ih => simp [renList, ih]

theorem dget_ren (σ : Nat → Nat) (kv : Dict) (k : Str) :
    dget (renKV σ kv) k = (dget kv k).map (renObj σ) := by
  induction kv with
  | nil => rfl
  | cons p r ih =>
    obtain ⟨k', v⟩ := p
    simp only [renKV, dget]
    split
    · rfl
    · exact ih

theorem resolve_ren (σ : Nat → Nat) (res res' : Res) (h : Renumbered σ res res') (o : Obj) :
    resolve res' (renObj σ o) = (resolve res o).map (renSVal σ) := by
  cases o with
  | ref n g =>
    by_cases hn : n < 0
    · simp [renObj, renNum, resolve, hn, Except.map]
    · have h2 : ¬ ((σ n.toNat : Nat) : Int) < 0 := by omega
      simp only [renObj, renNum, resolve, hn, h2, if_false, Int.toNat_natCast]
      exact h n.toNat
  | _ => simp [renObj, resolve, Except.map, renSVal]

mutual
def renTree (σ : Nat → Nat) : RTree → RTree
  | .leaf d => .leaf (renKV σ d)
  | .node d kids => .node (renKV σ d) (renTreeList σ kids)
def renTreeList (σ : Nat → Nat) : List RTree → List RTree
  | [] => []
  | t :: ts => renTree σ t :: renTreeList σ ts
end

theorem contains_map_inj (σ : Nat → Nat) (hinj : ∀ a b, σ a = σ b → a = b) (vis : List Nat) (n : Nat) :
    (vis.map σ).contains (σ n) = vis.contains n := by
  by_cases hm : n ∈ vis
  · have : σ n ∈ vis.map σ := List.mem_map.mpr ⟨n, hm, rfl⟩
    simp [hm, this]
  · have : σ n ∉ vis.map σ := by
      intro h
      obtain ⟨a, ha, e⟩ := List.mem_map.mp h
      exact hm (hinj _ _ e ▸ ha)
    simp [hm, this]

/-- the result of the page-tree walk on the renumbered store -/
def renBuilt (σ : Nat → Nat) (p : RTree × List Nat) : RTree × List Nat := (renTree σ p.1, p.2.map σ)
def renBuiltList (σ : Nat → Nat) (p : List RTree × List Nat) : List RTree × List Nat :=
  (renTreeList σ p.1, p.2.map σ)

theorem visitKidsRef_ren (σ : Nat → Nat) (hinj : ∀ a b, σ a = σ b → a = b) (vis : List Nat) (k : Obj) :
    visitKidsRef (vis.map σ) (renObj σ k) = (visitKidsRef vis k).map (List.map σ) := by
  cases k with
  | ref n g =>
    by_cases hn : n < 0
    · simp [renObj, renNum, visitKidsRef, hn]
    · have h2 : ¬ ((σ n.toNat : Nat) : Int) < 0 := by omega
      simp only [renObj, renNum, visitKidsRef, hn, h2, if_false, Int.toNat_natCast, contains_map_inj σ hinj]
      split <;> simp
  | _ => simp [renObj, visitKidsRef]

theorem build_ren (σ : Nat → Nat) (hinj : ∀ a b, σ a = σ b → a = b) (res res' : Res)
    (h : Renumbered σ res res') : ∀ fuel,
    (∀ dep vis d, buildNode res' fuel dep (vis.map σ) (renKV σ d) = (buildNode res fuel dep vis d).map (renBuilt σ)) ∧
    (∀ dep vis ks, buildKids res' fuel dep (vis.map σ) (renList σ ks) = (buildKids res fuel dep vis ks).map (renBuiltList σ)) := by
  intro fuel
  induction fuel with
  | zero => exact ⟨fun _ _ _ => rfl, fun _ _ _ => rfl⟩
  | succ fuel ih =>
    refine ⟨?_, ?_⟩
    · intro dep vis d
      simp only [buildNode, dget_ren]
      by_cases hdep : dep ≥ PdfDoc.maxPageTreeDepth
      · simp [hdep, Except.map]
      simp only [hdep, if_false]
      cases hT : dget d kType with
      | none => rfl
      | some o =>
        cases o with
        | name t =>
          try simp only [Option.map_some, renObj]
          by_cases hp : t = kPages
          · simp only [hp, if_true]
            cases hK : dget d kKids with
            | none => rfl
            | some k =>
              simp only [Option.map_some, resolve_ren σ res res' h, visitKidsRef_ren σ hinj]
              cases hv : visitKidsRef vis k with
              | none => rfl
              | some vis0 =>
                simp only [Option.map_some]
                cases hr : resolve res k with
                | error e => rfl
                | ok v =>
                  cases v with
                  | stream dd => rfl
                  | obj ko =>
                    cases ko with
                    | arr kids =>
                      simp only [Except.map, renSVal, renObj]
                      rw [ih.2 (dep + 1) vis0 kids]
                      cases buildKids res fuel (dep + 1) vis0 kids with
                      | error e => rfl
                      | ok p => rfl
                    | _ => simp [Except.map, renSVal, renObj]
          · simp only [hp, if_false]
            by_cases hq : t = kPage
            · simp [hq, Except.map, renBuilt, renTree]
            · simp [hq, Except.map]
        | _ => simp [renObj, Except.map]
    · intro dep vis ks
      cases ks with
      | nil => rfl
      | cons k ks =>
        cases k with
        | ref n g =>
          by_cases hn : n < 0
          · simp [renList, renObj, renNum, buildKids, hn, Except.map]
          · have h2 : ¬ ((σ n.toNat : Nat) : Int) < 0 := by omega
            simp only [renList, renObj, renNum, buildKids, hn, h2, if_false, Int.toNat_natCast,
              contains_map_inj σ hinj]
            by_cases hv : n.toNat ∈ vis
            · simp [hv, Except.map]
            · have hc : vis.contains n.toNat = false := by simpa using hv
              simp only [hc, Bool.false_eq_true, if_false]
              rw [h n.toNat]
              cases hr : res n.toNat with
              | error e => rfl
              | ok v =>
                cases v with
                | stream dd => rfl
                | obj ko =>
                  cases ko with
                  | dict kd =>
                    simp only [Except.map, renSVal, renObj]
                    have := ih.1 dep (n.toNat :: vis) kd
                    simp only [List.map_cons] at this
                    rw [this]
                    cases buildNode res fuel dep (n.toNat :: vis) kd with
                    | error e => rfl
                    | ok p =>
                      simp only [Except.map, renBuilt]
                      rw [ih.2 dep p.2 ks]
                      cases buildKids res fuel dep p.2 ks with
                      | error e => rfl
                      | ok q => rfl
                  | _ => simp [Except.map, renSVal, renObj]
        | _ => simp [renList, renObj, buildKids, Except.map]

theorem pageTree_ren (σ : Nat → Nat) (hinj : ∀ a b, σ a = σ b → a = b) (res res' : Res)
    (h : Renumbered σ res res') (fuel r : Nat) :
    pageTree res' fuel (some (σ r)) = (pageTree res fuel (some r)).map (renTree σ) := by
  simp only [pageTree]
  rw [h r]
  cases hr : res r with
  | error e => rfl
  | ok v =>
    cases v with
    | stream dd => rfl
    | obj o =>
      cases o with
      | dict cat =>
        simp only [Except.map, renSVal, renObj, dget_ren]
        cases hP : dget cat kPages with
        | none => rfl
        | some p =>
          simp only [Option.map_some, resolve_ren σ res res' h]
          cases hp : resolve res p with
          | error e => rfl
          | ok pv =>
            cases pv with
            | stream dd => rfl
            | obj po =>
              cases po with
              | dict pd =>
                simp only [Except.map, renSVal, renObj, dget_ren]
                cases hC : dget pd kCount with
                | none => rfl
                | some c =>
                  cases c with
                  | int i =>
                    simp only [Option.map_some, renObj]
                    have := (build_ren σ hinj res res' h fuel).1 0 [] pd
                    simp only [List.map_nil] at this
                    rw [this]
                    cases buildNode res fuel 0 [] pd with
                    | error e => rfl
                    | ok q => rfl
                  | _ => simp [renObj, Except.map]
              | _ => simp [Except.map, renSVal, renObj]
      | _ => simp [Except.map, renSVal, renObj]

mutual
theorem leafDicts_ren (σ : Nat → Nat) (t : RTree) : leafDicts (renTree σ t) = (leafDicts t).map (renKV σ) := by
  cases t with
  | leaf d => simp [renTree, leafDicts]
  | node d kids => simp only [renTree, leafDicts]; exact leafDictsList_ren σ kids
theorem leafDictsList_ren (σ : Nat → Nat) (ts : List RTree) :
    leafDictsList (renTreeList σ ts) = (leafDictsList ts).map (renKV σ) := by
  cases ts with
  | nil => rfl
  | cons t ts => simp only [renTreeList, leafDictsList, List.map_append, leafDicts_ren σ t, leafDictsList_ren σ ts]
end

theorem attrsOf_ren (σ : Nat → Nat) (d : Dict) :
    attrsOf (renKV σ d) = (attrsOf d).mapRes (renObj σ) := by
  simp [attrsOf, PdfDoc.AttrsOf.mapRes, dget_ren]

mutual
theorem toPTree_ren (σ : Nat → Nat) (t : RTree) : toPTree (renTree σ t) = (toPTree t).mapRes (renObj σ) := by
  cases t with
  | leaf d => simp [renTree, toPTree, PdfDoc.PTreeOf.mapRes, attrsOf_ren]
  | node d kids =>
    simp only [renTree, toPTree, PdfDoc.PTreeOf.mapRes, attrsOf_ren]
    rw [toPTreeList_ren σ kids]
theorem toPTreeList_ren (σ : Nat → Nat) (ts : List RTree) :
    toPTreeList (renTreeList σ ts) = PdfDoc.mapResList (renObj σ) (toPTreeList ts) := by
  cases ts with
  | nil => rfl
  | cons t ts => simp only [renTreeList, toPTreeList, PdfDoc.mapResList, toPTree_ren σ t, toPTreeList_ren σ ts]
end

theorem pageSpecs_ren (σ : Nat → Nat) (t : RTree) :
    pageSpecs (renTree σ t) = (pageSpecs t).map fun p => (p.1.map (renObj σ), p.2.map (renObj σ)) := by
  unfold pageSpecs
  have hf : PdfDoc.flatten ((toPTree t).mapRes (renObj σ)) {} =
      (PdfDoc.flatten (toPTree t) {}).map (PdfDoc.AttrsOf.mapRes (renObj σ)) :=
    PdfDoc.flatten_mapRes (renObj σ) (toPTree t) {}
  rw [leafDicts_ren, toPTree_ren, hf]
  simp only [List.map_map, List.zip_map]
  apply List.map_congr_left
  intro p _
  simp [Prod.map, dget_ren, PdfDoc.AttrsOf.mapRes]

/-! #### contents -/

theorem resolveAll_ren (σ : Nat → Nat) (res res' : Res) (h : Renumbered σ res res') (xs : List Obj) :
    resolveAll res' (renList σ xs) = (resolveAll res xs).map (List.map (renSVal σ)) := by
  induction xs with
  | nil => rfl
  | cons x xs ih =>
    simp only [renList, resolveAll, resolve_ren σ res res' h, ih]
    cases resolve res x with
    | error e => rfl
    | ok v =>
      simp only [Except.map]
      cases resolveAll res xs with
      | error e => rfl
      | ok vs => rfl

theorem decodedParts_ren (σ : Nat → Nat) (vs : List SVal) :
    decodedParts (vs.map (renSVal σ)) = decodedParts vs := by
  induction vs with
  | nil => rfl
  | cons v vs ih =>
    cases v with
    | obj o => simp only [List.map_cons, renSVal, decodedParts, ih]
    | stream d =>
      cases d with
      | none => rfl
      | some d => simp only [List.map_cons, renSVal, decodedParts, ih]

theorem contentBytes_ren (σ : Nat → Nat) (res res' : Res) (h : Renumbered σ res res') (c : Option Obj) :
    contentBytes res' (c.map (renObj σ)) = contentBytes res c := by
  cases c with
  | none => rfl
  | some c =>
    simp only [Option.map_some, contentBytes, resolve_ren σ res res' h]
    cases resolve res c with
    | error e => rfl
    | ok v =>
      cases v with
      | stream d => rfl
      | obj o =>
        cases o with
        | arr xs =>
          simp only [Except.map, renSVal, renObj, resolveAll_ren σ res res' h]
          cases resolveAll res xs with
          | error e => rfl
          | ok vs => simp only [Except.map, decodedParts_ren]
        | _ => simp [Except.map, renSVal, renObj]

/-! #### fonts -/

theorem isNum_ren (σ : Nat → Nat) (o : Obj) : isNum (renObj σ o) = isNum o := by
  cases o <;> rfl

theorem extractName_ren (σ : Nat → Nat) (x : Option Obj) : extractName (x.map (renObj σ)) = extractName x := by
  cases x with
  | none => rfl
  | some o => cases o <;> rfl

theorem all_ren (σ : Nat → Nat) (p : Obj → Bool) (hp : ∀ o, p (renObj σ o) = p o) (xs : List Obj) :
    (renList σ xs).all p = xs.all p := by
  induction xs with
  | nil => rfl
  | cons x xs ih => simp [renList, hp, ih]

theorem baseEncoding_ren (σ : Nat → Nat) (ed : Dict) (std : Str) :
    baseEncoding (renKV σ ed) std = baseEncoding ed std := by
  simp only [baseEncoding, dget_ren]
  cases dget ed kBaseEncoding with
  | none => rfl
  | some b => cases b <;> rfl

theorem type0Encoding_ren (σ : Nat → Nat) (fd : Dict) : type0Encoding (renKV σ fd) = type0Encoding fd := by
  simp only [type0Encoding, dget_ren]
  cases dget fd kEncoding with
  | none => rfl
  | some e => exact extractName_ren σ (some e)

theorem parseDiffsLoop_ren (σ : Nat → Nat) (xs : List Obj) (code : Int) (acc : FontDecode.Diffs) :
    parseDiffsLoop (renList σ xs) code acc = parseDiffsLoop xs code acc := by
  induction xs generalizing code acc with
  | nil => rfl
  | cons x xs ih =>
    cases x <;> simp only [renList, renObj, parseDiffsLoop, ih]

theorem simpleEncoding_ren (σ : Nat → Nat) (res res' : Res) (h : Renumbered σ res res') (fd : Dict)
    (std : Str) (strict : Bool) :
    simpleEncoding res' (renKV σ fd) std strict = simpleEncoding res fd std strict := by
  simp only [simpleEncoding, dget_ren]
  cases dget fd kEncoding with
  | none => rfl
  | some e =>
    simp only [Option.map_some, resolve_ren σ res res' h]
    cases resolve res e with
    | error er => rfl
    | ok v =>
      cases v with
      | stream d => rfl
      | obj o =>
        cases o with
        | name n => rfl
        | dict ed =>
          simp only [Except.map, renSVal, renObj, dget_ren, baseEncoding_ren]
          cases dget ed kDifferences with
          | none => rfl
          | some dobj =>
            simp only [Option.map_some, resolve_ren σ res res' h]
            cases resolve res dobj with
            | error er => rfl
            | ok dv =>
              cases dv with
              | stream d => rfl
              | obj dd =>
                cases dd with
                | arr xs =>
                  simp only [Except.map, renSVal, renObj, parseDifferences, parseDiffsLoop_ren]
                | _ => simp [Except.map, renSVal, renObj]
        | _ => simp [Except.map, renSVal, renObj]

theorem widthsOk_ren (σ : Nat → Nat) (res res' : Res) (h : Renumbered σ res res') (fd : Dict) :
    widthsOk res' (renKV σ fd) = widthsOk res fd := by
  simp only [widthsOk, dget_ren]
  cases dget fd kWidths with
  | none => rfl
  | some w =>
    simp only [Option.map_some, resolve_ren σ res res' h]
    cases resolve res w with
    | error er => rfl
    | ok v =>
      cases v with
      | stream d => rfl
      | obj o =>
        cases o with
        | arr xs =>
          simp only [Except.map, renSVal, renObj]
          exact all_ren σ isNum (isNum_ren σ) xs
        | _ => simp [Except.map, renSVal, renObj]

theorem toUnicodeOf_ren (σ : Nat → Nat) (res res' : Res) (h : Renumbered σ res res') (fd : Dict) :
    toUnicodeOf res' (renKV σ fd) = toUnicodeOf res fd := by
  simp only [toUnicodeOf, dget_ren]
  cases dget fd kToUnicode with
  | none => rfl
  | some o =>
    cases o with
    | ref n g =>
      simp only [Option.map_some, renObj]
      have := resolve_ren σ res res' h (.ref n g)
      simp only [renObj] at this
      rw [this]
      cases resolve res (.ref n g) with
      | error er => rfl
      | ok v =>
        cases v with
        | stream d => rfl
        | obj o => rfl
    | _ => rfl

theorem descendantOk_ren (σ : Nat → Nat) (res res' : Res) (h : Renumbered σ res res') (fd : Dict) :
    descendantOk res' (renKV σ fd) = descendantOk res fd := by
  simp only [descendantOk, dget_ren]
  cases dget fd kDescendantFonts with
  | none => rfl
  | some d =>
    simp only [Option.map_some, resolve_ren σ res res' h]
    cases resolve res d with
    | error er => rfl
    | ok v =>
      cases v with
      | stream dd => rfl
      | obj o =>
        cases o with
        | arr xs =>
          cases xs with
          | nil => rfl
          | cons x xs =>
            simp only [Except.map, renSVal, renObj, renList, resolve_ren σ res res' h]
            cases resolve res x with
            | error er => rfl
            | ok xv =>
              cases xv with
              | stream dd => rfl
              | obj xo =>
                cases xo with
                | dict cd =>
                  simp only [Except.map, renSVal, renObj, dget_ren, extractName_ren]
                  split
                  · cases dget cd kCIDSystemInfo with
                    | none => rfl
                    | some si =>
                      simp only [Option.map_some, resolve_ren σ res res' h]
                      cases resolve res si with
                      | error er => rfl
                      | ok sv =>
                        cases sv with
                        | stream dd => rfl
                        | obj so => cases so <;> simp [Except.map, renSVal, renObj]
                  · rfl
                | _ => simp [Except.map, renSVal, renObj]
        | _ => simp [Except.map, renSVal, renObj]

theorem parseFont_ren (σ : Nat → Nat) (res res' : Res) (h : Renumbered σ res res') (o : Obj) :
    parseFont res' (renObj σ o) = parseFont res o := by
  simp only [parseFont, resolve_ren σ res res' h]
  cases resolve res o with
  | error er => rfl
  | ok v =>
    cases v with
    | stream d => rfl
    | obj fo =>
      cases fo with
      | dict fd =>
        simp only [Except.map, renSVal, renObj, dget_ren]
        cases hS : dget fd kSubtype with
        | none => rfl
        | some st =>
          cases st with
          | name n =>
            simp only [Option.map_some, renObj, simpleEncoding_ren σ res res' h, widthsOk_ren σ res res' h,
              toUnicodeOf_ren σ res res' h, descendantOk_ren σ res res' h, type0Encoding_ren]
          | _ => simp [renObj]
      | _ => simp [Except.map, renSVal, renObj]

theorem registered_ren (σ : Nat → Nat) (res res' : Res) (h : Renumbered σ res res') (fonts : Dict) (name : Str) :
    registered res' (renKV σ fonts) name = registered res fonts name := by
  simp only [registered, dget_ren]
  cases dget fonts name with
  | some o => simp only [Option.map_some, parseFont_ren σ res res' h]
  | none =>
    simp only [Option.map_none]
    cases name with
    | nil => rfl
    | cons c k =>
      split
      · next k' _ =>
        split
        · rfl
        · cases dget fonts k' with
          | none => rfl
          | some o => simp [parseFont_ren σ res res' h]
      · rfl

theorem resourcesDict_ren (σ : Nat → Nat) (res res' : Res) (h : Renumbered σ res res') (r : Option Obj) :
    resourcesDict res' (r.map (renObj σ)) = (resourcesDict res r).map (renKV σ) := by
  cases r with
  | none => rfl
  | some r =>
    simp only [Option.map_some, resourcesDict, resolve_ren σ res res' h]
    cases resolve res r with
    | error er => rfl
    | ok v =>
      cases v with
      | stream d => rfl
      | obj o => cases o <;> simp [Except.map, renSVal, renObj]

theorem fontsOf_ren (σ : Nat → Nat) (res res' : Res) (h : Renumbered σ res res') (rd : Option Dict) :
    fontsOf res' (rd.map (renKV σ)) = (fontsOf res rd).map (renKV σ) := by
  cases rd with
  | none => rfl
  | some rd =>
    simp only [Option.map_some, fontsOf, dget_ren]
    cases dget rd kFont with
    | none => rfl
    | some fo =>
      simp only [Option.map_some, resolve_ren σ res res' h]
      cases resolve res fo with
      | error er => rfl
      | ok v =>
        cases v with
        | stream d => rfl
        | obj o => cases o <;> simp [Except.map, renSVal, renObj]

/-! #### interpretation -/

theorem decodeShown_ren (σ : Nat → Nat) (res res' : Res) (h : Renumbered σ res res') (ext : Ext)
    (fonts : Option Dict) (cur data : Str) :
    decodeShown res' ext (fonts.map (renKV σ)) cur data = decodeShown res ext fonts cur data := by
  unfold decodeShown
  have : ((fonts.map (renKV σ)).bind fun fd => registered res' fd cur) = fonts.bind fun fd => registered res fd cur := by
    cases fonts with
    | none => rfl
    | some fd => simp [registered_ren σ res res' h]
  rw [this]

/-- the environment of a page on the renumbered store -/
def renEnv (σ : Nat → Nat) (res' : Res) (env : Env) : Env :=
  { res := res', ext := env.ext, rdict := env.rdict.map (renKV σ), fonts := env.fonts.map (renKV σ) }

theorem showOne_ren (σ : Nat → Nat) (res' : Res) (env : Env) (h : Renumbered σ env.res res') (st : IState) (data : Str) :
    showOne (renEnv σ res' env) st data = showOne env st data := by
  simp only [showOne, renEnv, decodeShown_ren σ env.res res' h]

theorem showArray_ren (σ : Nat → Nat) (res' : Res) (env : Env) (h : Renumbered σ env.res res') (xs : List Obj) :
    ∀ st, showArray (renEnv σ res' env) st xs = showArray env st xs := by
  induction xs with
  | nil => intro st; rfl
  | cons x xs ih =>
    intro st
    cases x with
    | str s =>
      simp only [showArray, showOne_ren σ res' env h]
      cases showOne env st s with
      | error e => rfl
      | ok st' => exact ih st'
    | _ => simp only [showArray]; exact ih st

theorem step_ren (σ : Nat → Nat) (res' : Res) (env : Env) (h : Renumbered σ env.res res') (st : IState)
    (op : Pdf.CS.Operation) : step (renEnv σ res' env) st op = step env st op := by
  simp only [step, showOne_ren σ res' env h, showArray_ren σ res' env h]
  have : (renEnv σ res' env).rdict = env.rdict.map (renKV σ) := rfl
  rw [this]
  cases env.rdict with
  | none => rfl
  | some rd => simp only [Option.map_some, dget_ren, Option.isSome_map]

theorem run_ren (σ : Nat → Nat) (res' : Res) (env : Env) (h : Renumbered σ env.res res') (ops : List Pdf.CS.Operation) :
    ∀ st, run (renEnv σ res' env) st ops = run env st ops := by
  induction ops with
  | nil => intro st; rfl
  | cons op ops ih =>
    intro st
    simp only [run, step_ren σ res' env h]
    cases step env st op with
    | error e => rfl
    | ok st' => exact ih st'

theorem showStrings_ren (σ : Nat → Nat) (res res' : Res) (h : Renumbered σ res res') (ext : Ext)
    (r : Option Obj) (content : Str) :
    showStrings res' ext (r.map (renObj σ)) content = showStrings res ext r content := by
  unfold showStrings
  cases Pdf.CS.csParse content with
  | none => rfl
  | some ops =>
    simp only [resourcesDict_ren σ res res' h, fontsOf_ren σ res res' h]
    have := run_ren σ res' { res := res, ext := ext, rdict := resourcesDict res r, fonts := fontsOf res (resourcesDict res r) } h ops {}
    simp only [renEnv] at this
    rw [this]

theorem pageStrings_ren (σ : Nat → Nat) (res res' : Res) (h : Renumbered σ res res') (ext : Ext)
    (c r : Option Obj) :
    pageStrings res' ext (c.map (renObj σ)) (r.map (renObj σ)) = pageStrings res ext c r := by
  unfold pageStrings
  rw [contentBytes_ren σ res res' h]
  cases contentBytes res c with
  | error e => rfl
  | ok oc =>
    cases oc with
    | none => rfl
    | some content => simp only [showStrings_ren σ res res' h]

theorem pagesOfSpecs_ren (σ : Nat → Nat) (res res' : Res) (h : Renumbered σ res res') (ext : Ext)
    (specs : List (Option Obj × Option Obj)) :
    pagesOfSpecs res' ext (specs.map fun p => (p.1.map (renObj σ), p.2.map (renObj σ))) = pagesOfSpecs res ext specs := by
  induction specs with
  | nil => rfl
  | cons p ps ih =>
    obtain ⟨c, r⟩ := p
    simp only [List.map_cons, pagesOfSpecs, pageStrings_ren σ res res' h, ih]

theorem readWith_ren (σ : Nat → Nat) (hinj : ∀ a b, σ a = σ b → a = b) (res res' : Res)
    (h : Renumbered σ res res') (ext : Ext) (fuel r : Nat) :
    readWith res' ext fuel (some (σ r)) = readWith res ext fuel (some r) := by
  unfold readWith
  rw [pageTree_ren σ hinj res res' h]
  cases pageTree res fuel (some r) with
  | error e => rfl
  | ok t =>
    simp only [Except.map, pagesOfTree, pageSpecs_ren, pagesOfSpecs_ren σ res res' h]

end Tabula.Reader
