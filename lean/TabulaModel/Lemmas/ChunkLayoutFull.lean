import TabulaModel.Lemmas.ChunkSent
/-!
Helper lemmas for property C12, layout-based chunker: the cover theorem without the hypothesis
`ListFits`. The one reordering `splitSectionByParagraphs` performs (the sentence chunks of an
over-long list are appended while its introducing paragraph is still pending in
`currentText`) is described by `emitOrder`; it exchanges a paragraph with the list behind it and
nothing else, so every element is still emitted exactly once and each kind keeps its order.
-/
namespace Tabula.ChunkLayout
open Tabula.Chunk

/-- the order in which `splitSectionByParagraphs` emits the elements of a section: document
order, except that an introducing paragraph that fits is emitted behind its list when the list
exceeds `MaxChunkSize` and lists are atomic -/
def emitOrder (cfg : Cfg) : List CE → List CE
  | [] => []
  | [e] => [e]
  | e :: n :: rest =>
    if cfg.keepLists && e.kind == .list then e :: emitOrder cfg (n :: rest)
    else if e.kind == .para && n.kind == .list && e.intro then
      if cfg.keepLists && !lenGt e.text cfg.maxSize && lenGt n.text cfg.maxSize then
        n :: e :: emitOrder cfg rest
      else e :: n :: emitOrder cfg rest
    else e :: emitOrder cfg (n :: rest)

theorem emitOrder_perm (cfg : Cfg) (es : List CE) : (emitOrder cfg es).Perm es := by
  fun_induction emitOrder cfg es with
  | case1 => exact .nil
  | case2 e => exact .refl _
  | case3 e n rest _ ih => exact ih.cons e
  | case4 e n rest _ _ _ ih => exact (List.Perm.swap e n _).trans ((ih.cons n).cons e)
  | case5 e n rest _ _ _ ih => exact (ih.cons n).cons e
  | case6 e n rest _ _ ih => exact ih.cons e

/-- each kind keeps its order -/
theorem emitOrder_kind (cfg : Cfg) (k : Kind) (es : List CE) :
    (emitOrder cfg es).filter (fun e => e.kind == k) = es.filter (fun e => e.kind == k) := by
  fun_induction emitOrder cfg es with
  | case1 => rfl
  | case2 e => rfl
  | case3 e n rest _ ih => rw [List.filter_cons, ih, List.filter_cons (x := e) (xs := n :: rest)]
  | case4 e n rest _ hi _ ih =>
    simp only [Bool.and_eq_true, beq_iff_eq] at hi
    obtain ⟨⟨he, hn⟩, _⟩ := hi
    simp only [List.filter_cons, ih, he, hn]
    cases k <;> simp
  | case5 e n rest _ _ _ ih => simp only [List.filter_cons, ih]
  | case6 e n rest _ _ ih => rw [List.filter_cons, ih, List.filter_cons (x := e) (xs := n :: rest)]

/-- nothing moves when no list exceeds the maximum -/
theorem emitOrder_of_listFits (cfg : Cfg) (es : List CE) (h : ∀ e ∈ es, ListFits cfg e) :
    emitOrder cfg es = es := by
  fun_induction emitOrder cfg es with
  | case1 => rfl
  | case2 e => rfl
  | case3 e n rest _ ih => rw [ih (fun x hx => h x (List.mem_cons_of_mem _ hx))]
  | case4 e n rest _ hi hsw ih =>
    exfalso
    simp only [Bool.and_eq_true, beq_iff_eq] at hi hsw
    have := h n (List.mem_cons_of_mem _ (List.mem_cons_self ..)) hi.1.2
    rw [this] at hsw
    exact absurd hsw.2 (by decide)
  | case5 e n rest _ _ _ ih =>
    rw [ih (fun x hx => h x (List.mem_cons_of_mem _ (List.mem_cons_of_mem _ hx)))]
  | case6 e n rest _ _ ih => rw [ih (fun x hx => h x (List.mem_cons_of_mem _ hx))]

/-! ### `splitBySentences` while something is pending -/

theorem splitBySentences_texts (cfg : Cfg) (info : SecInfo) (sents : List Str) (s : LS) :
    strip (textsOf (splitBySentences cfg info sents s).chunks) =
      strip (textsOf s.chunks) ++ strip sents.flatten ∧
    (splitBySentences cfg info sents s).cur = s.cur := by
  obtain ⟨h1, h2⟩ := sentLoop_pend cfg info sents ⟨s.chunks, [], s.idx⟩
  unfold splitBySentences
  refine ⟨?_, rfl⟩
  simp only [pend, h2, strip_nil, List.append_nil] at h1
  exact h1

theorem lenGt_mono (a b : Str) (n : Int) (h : a.length ≤ b.length) (ha : lenGt a n = true) :
    lenGt b n = true := by
  unfold lenGt at *
  simp only [decide_eq_true_eq] at *
  omega

theorem joinPara_length_right (acc t : Str) : t.length ≤ (joinPara acc t).length := by
  unfold joinPara
  split
  · exact Nat.le_refl _
  · simp only [List.length_append]; omega

theorem joinPara_length_left (acc t : Str) : acc.length ≤ (joinPara acc t).length := by
  unfold joinPara
  split
  · rename_i h; rw [List.isEmpty_iff.mp h]; exact Nat.zero_le _
  · simp only [List.length_append]; omega

/-- the atomic block "introduction + list", for every size of the two -/
theorem atomic2_pend_full (cfg : Cfg) (info : SecInfo) (e n : CE) (s : LS)
    (he : SentsOK cfg e) (hn : SentsOK cfg n) :
    pend (atomicBlock cfg info [e, n] s) =
      pend s ++ (if !lenGt e.text cfg.maxSize && lenGt n.text cfg.maxSize
        then strip n.text ++ strip e.text else strip e.text ++ strip n.text) := by
  by_cases hnf : lenGt n.text cfg.maxSize = true
  · by_cases hef : lenGt e.text cfg.maxSize = true
    · -- both are split by sentences, in order
      simp only [hef, hnf, Bool.not_true, Bool.false_and, Bool.false_eq_true, if_false]
      obtain ⟨f1, f2⟩ := flushIfPending_pend cfg info s
      have hbig : lenGt (joinPara (joinPara [] e.text) n.text) cfg.maxSize = true :=
        lenGt_mono _ _ _ (joinPara_length_right _ _) hnf
      simp only [atomicBlock, List.foldl_cons, List.foldl_nil, hbig, if_true, atomicOversize, hef, hnf]
      obtain ⟨g1, g2⟩ := splitBySentences_pend cfg info e.sents _ f2
      obtain ⟨k1, _⟩ := splitBySentences_pend cfg info n.sents _ g2
      rw [k1, g1, f1, he hef, hn hnf, List.append_assoc]
    · -- the swap: the list's sentences are appended while the paragraph is pending
      have hef' : lenGt e.text cfg.maxSize = false := by simpa using hef
      simp only [hef', hnf, Bool.not_false, Bool.and_self, if_true]
      obtain ⟨f1, f2⟩ := flushIfPending_pend cfg info s
      have hbig : lenGt (joinPara (joinPara [] e.text) n.text) cfg.maxSize = true :=
        lenGt_mono _ _ _ (joinPara_length_right _ _) hnf
      simp only [atomicBlock, List.foldl_cons, List.foldl_nil, hbig, if_true, atomicOversize, hef', hnf,
        Bool.false_eq_true, if_false]
      generalize flushIfPending cfg info s = s1 at f1 f2
      obtain ⟨k1, k2⟩ := splitBySentences_texts cfg info n.sents { s1 with cur := joinPara s1.cur e.text }
      simp only [pend, k1, k2, joinPara_strip, f2, List.nil_append, hn hnf]
      simp only [pend, f2, List.append_nil] at f1
      rw [f1, List.append_assoc]
  · have hnf' : lenGt n.text cfg.maxSize = false := by simpa using hnf
    simp only [hnf', Bool.and_false, Bool.false_eq_true, if_false]
    rw [atomic2_pend cfg info e n s he hnf', List.append_assoc]

theorem paraLoop_pend_full (cfg : Cfg) (info : SecInfo) (es : List CE) (s : LS)
    (h : ∀ e ∈ es, SentsOK cfg e) :
    pend (paraLoop cfg info es s) = pend s ++ strip (ceTexts (emitOrder cfg es)) := by
  fun_induction paraLoop cfg info es s with
  | case1 s => simp [emitOrder, ceTexts, strip_nil]
  | case2 e s hk =>
    rw [atomic1_pend cfg info e s (h e (List.mem_cons_self ..))]; simp [emitOrder, ceTexts]
  | case3 e s hk =>
    rw [plainElem_pend cfg info e s (h e (List.mem_cons_self ..))]; simp [emitOrder, ceTexts]
  | case4 e n rest s hk ih =>
    rw [ih (fun x hx => h x (List.mem_cons_of_mem _ hx)),
      atomic1_pend cfg info e s (h e (List.mem_cons_self ..))]
    simp [emitOrder, hk, ceTexts, strip_append]
  | case5 e n rest s hk hi hkeep ih =>
    have hn : n ∈ e :: n :: rest := List.mem_cons_of_mem _ (List.mem_cons_self ..)
    rw [ih (fun x hx => h x (List.mem_cons_of_mem _ (List.mem_cons_of_mem _ hx))),
      atomic2_pend_full cfg info e n s (h e (List.mem_cons_self ..)) (h n hn)]
    rw [emitOrder, if_neg hk, if_pos hi]
    simp only [hkeep, Bool.true_and]
    by_cases hsw : (!lenGt e.text cfg.maxSize && lenGt n.text cfg.maxSize) = true
    · simp [hsw, ceTexts, strip_append]
    · simp [hsw, ceTexts, strip_append]
  | case6 e n rest s hk hi hkeep s1 ih =>
    rw [ih (fun x hx => h x (List.mem_cons_of_mem _ (List.mem_cons_of_mem _ hx)))]
    have hp1 : pend s1 = pend s := flushIfOver_pend cfg info _ s
    rw [emitOrder, if_neg hk, if_pos hi]
    have hkeep' : cfg.keepLists = false := by simpa using hkeep
    simp only [hkeep', Bool.false_and, Bool.false_eq_true, if_false]
    simp only [pend, strip_append, joinPara_strip, strip_nn, List.append_nil] at hp1 ⊢
    rw [← List.append_assoc, ← List.append_assoc, hp1]
    simp [ceTexts, strip_append]
  | case7 e n rest s hk hi ih =>
    rw [ih (fun x hx => h x (List.mem_cons_of_mem _ hx)),
      plainElem_pend cfg info e s (h e (List.mem_cons_self ..))]
    rw [emitOrder, if_neg hk, if_neg hi]
    simp [ceTexts, strip_append]

theorem splitSection_cover_full (cfg : Cfg) (info : SecInfo) (content : List CE) (idx : Nat)
    (h : ∀ e ∈ content, SentsOK cfg e) :
    strip (textsOf (splitSectionByParagraphs cfg info content idx)) =
      strip (ceTexts (emitOrder cfg content)) := by
  unfold splitSectionByParagraphs
  obtain ⟨f1, f2⟩ := flushChunk_pend cfg info (paraLoop cfg info content ⟨[], [], idx⟩)
  have hp := paraLoop_pend_full cfg info content ⟨[], [], idx⟩ h
  simp only [pend, f2, List.append_nil] at f1
  rw [f1]
  simpa [pend, textsOf_nil, strip_nil] using hp

/-! ### a section that fits is emitted in document order -/

theorem foldl_joinPara_length (es : List CE) (acc : Str) :
    acc.length ≤ (es.foldl (fun acc e => joinPara acc e.text) acc).length ∧
    ∀ e ∈ es, e.text.length ≤ (es.foldl (fun acc e => joinPara acc e.text) acc).length := by
  induction es generalizing acc with
  | nil => exact ⟨Nat.le_refl _, fun e he => by cases he⟩
  | cons x xs ih =>
    obtain ⟨i1, i2⟩ := ih (joinPara acc x.text)
    simp only [List.foldl_cons]
    refine ⟨Nat.le_trans (joinPara_length_left _ _) i1, ?_⟩
    intro e he
    rcases List.mem_cons.mp he with rfl | he
    · exact Nat.le_trans (joinPara_length_right _ _) i1
    · exact i2 e he

theorem fits_elems (cfg : Cfg) (content : List CE) (h : Fits cfg content) :
    ∀ e ∈ content, lenGt e.text cfg.maxSize = false := by
  intro e he
  unfold Fits at h
  cases hg : lenGt e.text cfg.maxSize with
  | false => rfl
  | true =>
    have := lenGt_mono _ _ _ ((foldl_joinPara_length content []).2 e he) hg
    rw [h] at this; cases this

theorem ceTexts_perm_strip_nil {a b : List CE} (hp : a.Perm b) (h : strip (ceTexts b) = []) :
    strip (ceTexts a) = [] := by
  rw [ceTexts_strip_nil] at h ⊢
  exact fun e he => h e (hp.subset he)

/-- a section's own chunks carry the section's content in `emitOrder`, white space aside -/
def SectionCoverO (cfg : Cfg) (x : SecInfo × List CE) : Prop :=
  ∀ idx, strip (textsOf (chunkSection cfg x.1 x.2 idx)) = strip (ceTexts (emitOrder cfg x.2))

theorem sectionCoverO (cfg : Cfg) (info : SecInfo) (content : List CE)
    (h : ∀ e ∈ content, SentsOK cfg e) : SectionCoverO cfg (info, content) := by
  intro idx
  simp only [chunkSection]
  have hj := joinAll_strip content []
  simp only [strip_nil, List.nil_append] at hj
  by_cases hb : (trim (content.foldl (fun acc e => joinPara acc e.text) [])).isEmpty = true
  · rw [if_pos hb]
    have h0 : strip (ceTexts content) = [] := by rw [← hj]; exact trim_empty_strip _ hb
    rw [ceTexts_perm_strip_nil (emitOrder_perm cfg content) h0]; rfl
  · rw [if_neg hb]
    split
    · rename_i hfit
      have hfit' : Fits cfg content := by
        unfold Fits
        simpa using hfit
      rw [emitOrder_of_listFits cfg content (fun e he _ => fits_elems cfg content hfit' e he)]
      simp [textsOf, createChunk, hj]
    · exact splitSection_cover_full cfg info content idx h

theorem chunkFlat_coverO (cfg : Cfg) (l : List (SecInfo × List CE)) (h : ∀ x ∈ l, SectionCoverO cfg x)
    (idx : Nat) :
    strip (textsOf (chunkFlat cfg l idx)) = strip (ceTexts (l.flatMap fun x => emitOrder cfg x.2)) := by
  induction l generalizing idx with
  | nil => rfl
  | cons x xs ih =>
    obtain ⟨info, content⟩ := x
    have hx := h (info, content) (List.mem_cons_self ..) idx
    have hxs := ih (fun y hy => h y (List.mem_cons_of_mem _ hy)) (idx + (chunkSection cfg info content idx).length)
    simp only [chunkFlat, textsOf_append, strip_append]
    simp only at hx
    rw [hx, hxs]
    simp [ceTexts, strip_append]

/-! ### the whole of `Chunker.Chunk` -/

/-- the content elements of the document in the order `Chunk` emits them -/
def emitted (cfg : Cfg) (d : LDoc) : List CE :=
  (flatForest (buildSections cfg d)).flatMap fun x => emitOrder cfg x.2

theorem emitted_perm (cfg : Cfg) (d : LDoc) : (emitted cfg d).Perm (canon cfg d) := by
  rw [← buildSections_contents]
  unfold emitted secContents
  generalize flatForest (buildSections cfg d) = l
  induction l with
  | nil => exact .nil
  | cons x xs ih =>
    simp only [List.flatMap_cons]
    exact (emitOrder_perm cfg x.2).append ih

theorem emitted_kind (cfg : Cfg) (k : Kind) (d : LDoc) :
    (emitted cfg d).filter (fun e => e.kind == k) = (canon cfg d).filter (fun e => e.kind == k) := by
  rw [← buildSections_contents]
  unfold emitted secContents
  generalize flatForest (buildSections cfg d) = l
  induction l with
  | nil => rfl
  | cons x xs ih =>
    simp only [List.flatMap_cons, List.filter_append, ih, emitOrder_kind]

theorem emitted_of_listFits (cfg : Cfg) (d : LDoc) (h : ∀ e ∈ canon cfg d, ListFits cfg e) :
    emitted cfg d = canon cfg d := by
  rw [← buildSections_contents] at h ⊢
  unfold emitted secContents at *
  generalize flatForest (buildSections cfg d) = l at h
  induction l with
  | nil => rfl
  | cons x xs ih =>
    simp only [List.flatMap_cons, List.mem_append] at h ⊢
    rw [emitOrder_of_listFits cfg x.2 (fun e he => h e (Or.inl he)), ih (fun e he => h e (Or.inr he))]

/-- **cover for `Chunker.Chunk`** with no hypothesis on the sizes -/
theorem chunk_cover_full (cfg : Cfg) (title : Str) (d : LDoc) (h : ∀ e ∈ canon cfg d, SentsOK cfg e) :
    strip (textsOf (chunk cfg title d)) = strip (ceTexts (emitted cfg d)) := by
  unfold chunk
  simp only [setTotal_texts]
  have hf : strip (textsOf (chunkForest cfg (buildSections cfg d) 0)) = strip (ceTexts (emitted cfg d)) := by
    rw [chunkForest_flat, chunkFlat_coverO]
    · rfl
    · intro x hx
      apply sectionCoverO
      intro e he
      apply h
      rw [← buildSections_contents]
      exact List.mem_flatMap.mpr ⟨x, hx, he⟩
  by_cases he : (chunkForest cfg (buildSections cfg d) 0).isEmpty = true
  · rw [if_pos he]
    rw [List.isEmpty_iff.mp he] at hf
    have hnil : strip (ceTexts (emitted cfg d)) = [] := hf.symm
    rw [hnil]
    have hcan : strip (ceTexts (canon cfg d)) = [] :=
      ceTexts_perm_strip_nil (emitted_perm cfg d).symm hnil
    rcases chunkByParagraphs_eq cfg title d with h0 | ⟨info, h1⟩
    · rw [h0]; rfl
    · rw [h1, splitSection_cover_full cfg info _ 0 (fun e he => h e (fallback_sub cfg d e he))]
      apply ceTexts_perm_strip_nil (emitOrder_perm cfg _)
      rw [ceTexts_strip_nil] at hcan ⊢
      exact fun e he => hcan e (fallback_sub cfg d e he)
  · rw [if_neg he]; exact hf

end Tabula.ChunkLayout
