import TabulaModel.Model.BoundsCore
/-!
Helper lemmas for Props/C02Core.lean: the loading guard of `GetObject`, the potential argument
for the page-tree walk, the invariants of the memoised `ResolveDeep`.
-/
namespace Tabula.BoundsCore

/-! ### lookups -/

theorem lookupL_some_mem {β : Type} (l : List (Nat × β)) (n : Nat) (v : β)
    (h : lookupL l n = some v) : (n, v) ∈ l := by
  unfold lookupL at h
  cases hf : l.find? (·.1 = n) with
  | none => simp [hf] at h
  | some p =>
    obtain ⟨k, w⟩ := p
    simp only [hf, Option.some.injEq] at h
    have hm := List.mem_of_find?_eq_some hf
    have hp := List.find?_some hf
    simp at hp
    subst hp; subst h
    exact hm

theorem lookupL_none_not_mem {β : Type} (l : List (Nat × β)) (n : Nat)
    (h : lookupL l n = none) : n ∉ l.map Prod.fst := by
  unfold lookupL at h
  cases hf : l.find? (·.1 = n) with
  | some p => obtain ⟨k, w⟩ := p; simp [hf] at h
  | none =>
    intro hm
    obtain ⟨p, hp, hk⟩ := List.mem_map.mp hm
    have := List.find?_eq_none.mp hf p hp
    simp [hk] at this

theorem lookupL_cons {β : Type} (k : Nat) (v : β) (l : List (Nat × β)) (n : Nat) :
    lookupL ((k, v) :: l) n = if k = n then some v else lookupL l n := by
  unfold lookupL
  by_cases h : k = n
  · simp [h]
  · simp [h]

/-! ### 2. GetObject -/

theorem getObject_peak_le (g : LGraph) (fuel : Nat) (cache : List (Nat × LKind × Nat)) (loading : List Nat)
    (n : Nat) (h : loading.length ≤ maxNestedLoads) :
    (getObject g fuel cache loading n).peak ≤ maxNestedLoads := by
  induction fuel generalizing cache loading n with
  | zero => simpa [getObject] using h
  | succ fuel ih =>
    unfold getObject
    split
    · split <;> exact h
    · split
      · exact h
      · split
        · exact h
        · split
          · exact h
          · rename_i hlt
            have hlt' : loading.length + 1 ≤ maxNestedLoads := by omega
            split
            · exact hlt'
            · exact hlt'
            · exact hlt'
            · rename_i m _
              have := ih cache (n :: loading) m (by simpa using hlt')
              simp only
              split <;> exact this

theorem getObject_no_fuel (g : LGraph) (fuel : Nat) (cache : List (Nat × LKind × Nat)) (loading : List Nat)
    (n : Nat) (hl : loading.length ≤ maxNestedLoads) (h : maxNestedLoads + 1 ≤ fuel + loading.length) :
    (getObject g fuel cache loading n).res ≠ .error .fuel := by
  induction fuel generalizing cache loading n with
  | zero => omega
  | succ fuel ih =>
    unfold getObject
    split
    · split <;> simp
    · split
      · simp
      · split
        · simp
        · split
          · simp
          · rename_i hlt
            split
            · simp
            · simp
            · simp
            · rename_i m _
              have := ih cache (n :: loading) m (by simp; omega) (by simp; omega)
              simp only
              split
              · simp
              · simp
              · rename_i e he
                simp only [ne_eq, Except.error.injEq]
                intro hfu
                rw [hfu] at he
                exact this he

/-! ### 3. the page-tree walk: potential = size of the stack + weight of the unvisited objects -/

theorem stackSize_map_append (d : Nat) (items : List PV) (rest : List (Nat × PV)) :
    stackSize (items.map (fun v => (d, v)) ++ rest) = PV.sizeList items + stackSize rest := by
  induction items with
  | nil => simp [PV.sizeList]
  | cons v vs ih => simp [stackSize, PV.sizeList, ih]; omega

theorem contains_cons_ne (visited : List Nat) (n k : Nat) (h : k ≠ n) :
    (n :: visited).contains k = visited.contains k := by
  simp [h]

theorem pweight_cons_le (g : PGraph) (visited : List Nat) (n : Nat) :
    pweight g (n :: visited) ≤ pweight g visited := by
  induction g with
  | nil => simp [pweight]
  | cons p rest ih =>
    obtain ⟨k, w⟩ := p
    simp only [pweight]
    by_cases hk : k = n
    · subst hk
      have : (k :: visited).contains k = true := by simp
      rw [this]; simp only [if_true]; omega
    · rw [contains_cons_ne visited n k hk]; omega

theorem pweight_mark (g : PGraph) (visited : List Nat) (n : Nat) (v : PV)
    (h : lookupL g n = some v) (hn : visited.contains n = false) :
    pweight g (n :: visited) + 1 + v.size ≤ pweight g visited := by
  induction g with
  | nil => simp [lookupL] at h
  | cons p rest ih =>
    obtain ⟨k, w⟩ := p
    rw [lookupL_cons] at h
    simp only [pweight]
    by_cases hk : k = n
    · subst hk
      simp only [if_true, Option.some.injEq] at h
      subst h
      have : (k :: visited).contains k = true := by simp
      rw [this, hn]
      have := pweight_cons_le rest visited k
      simp only [if_true, Bool.false_eq_true, if_false]; omega
    · simp only [hk, if_false] at h
      have := ih h
      rw [contains_cons_ne visited n k hk]; omega

/-- the potential of a state -/
def phi (g : PGraph) (s : PState) : Nat := stackSize s.stack + pweight g s.visited

theorem traverseNode_decreases (g : PGraph) (lim d : Nat) (node : PV) (rest : List (Nat × PV))
    (visited : List Nat) (pages peak : Nat) (s' : PState)
    (h : traverseNode g lim d node rest visited pages peak = .running s') :
    phi g s' + 1 ≤ node.size + stackSize rest + pweight g visited := by
  unfold traverseNode at h
  split at h
  · cases h
  · simp only at h
    split at h
    · cases h; simp only [phi, PV.size]; omega
    · cases h
      simp only [phi, stackSize_map_append, PV.size]; omega
    · rename_i a
      split at h
      · cases h
      · rename_i hv
        split at h
        · rename_i items hl
          cases h
          have := pweight_mark g visited a (.arr items) hl (by simpa using hv)
          simp only [phi, stackSize_map_append, PV.size] at *; omega
        · cases h
    · cases h

theorem traverseNode_inv (g : PGraph) (lim d : Nat) (node : PV) (rest : List (Nat × PV))
    (visited : List Nat) (pages peak : Nat) (s' : PState)
    (h : traverseNode g lim d node rest visited pages peak = .running s') (hp : peak ≤ lim) :
    s'.peak ≤ lim ∧ s'.pages ≤ pages + 1 := by
  unfold traverseNode at h
  split at h
  · cases h
  · rename_i hd
    simp only at h
    have hm : max peak (d + 1) ≤ lim := by
      have : d + 1 ≤ lim := by omega
      exact Nat.max_le.mpr ⟨hp, this⟩
    split at h
    · cases h; exact ⟨hm, Nat.le_refl _⟩
    · cases h; exact ⟨hm, by simp⟩
    · split at h
      · cases h
      · split at h
        · cases h; exact ⟨hm, by simp⟩
        · cases h
    · cases h

theorem traverseNode_done (g : PGraph) (lim d : Nat) (node : PV) (rest : List (Nat × PV))
    (visited : List Nat) (pages peak p k : Nat) :
    traverseNode g lim d node rest visited pages peak ≠ .done p k := by
  unfold traverseNode
  split
  · simp
  · simp only
    split
    · simp
    · simp
    · split
      · simp
      · split <;> simp
    · simp

theorem pstep_decreases (g : PGraph) (lim : Nat) (s s' : PState)
    (h : pstep g lim s = .running s') : phi g s' + 1 ≤ phi g s := by
  unfold pstep at h
  split at h
  · cases h
  · rename_i d n rest hs
    split at h
    · cases h
    · rename_i hv
      split at h
      · rename_i hl
        have := traverseNode_decreases _ _ _ _ _ _ _ _ _ h
        have hm := pweight_mark g s.visited n .page hl (by simpa using hv)
        simp only [phi, hs, stackSize, PV.size] at *; omega
      · rename_i k hl
        have := traverseNode_decreases _ _ _ _ _ _ _ _ _ h
        have hm := pweight_mark g s.visited n (.pages k) hl (by simpa using hv)
        simp only [phi, hs, stackSize, PV.size] at *; omega
      · cases h
  · rename_i d rest hs
    have := traverseNode_decreases _ _ _ _ _ _ _ _ _ h
    simp only [phi, hs, stackSize, PV.size] at *; omega
  · rename_i d k rest hs
    have := traverseNode_decreases _ _ _ _ _ _ _ _ _ h
    simp only [phi, hs, stackSize, PV.size] at *; omega
  · cases h

theorem pstep_inv (g : PGraph) (lim : Nat) (s s' : PState)
    (h : pstep g lim s = .running s') (hp : s.peak ≤ lim) :
    s'.peak ≤ lim ∧ s'.pages ≤ s.pages + 1 := by
  unfold pstep at h
  split at h
  · cases h
  · split at h
    · cases h
    · split at h
      · exact traverseNode_inv _ _ _ _ _ _ _ _ _ h hp
      · exact traverseNode_inv _ _ _ _ _ _ _ _ _ h hp
      · cases h
  · exact traverseNode_inv _ _ _ _ _ _ _ _ _ h hp
  · exact traverseNode_inv _ _ _ _ _ _ _ _ _ h hp
  · cases h

theorem pstep_done (g : PGraph) (lim : Nat) (s : PState) (p k : Nat)
    (h : pstep g lim s = .done p k) : p = s.pages ∧ k = s.peak := by
  unfold pstep at h
  split at h
  · cases h; exact ⟨rfl, rfl⟩
  · split at h
    · cases h
    · split at h
      · exact absurd h (traverseNode_done _ _ _ _ _ _ _ _ _ _)
      · exact absurd h (traverseNode_done _ _ _ _ _ _ _ _ _ _)
      · cases h
  · exact absurd h (traverseNode_done _ _ _ _ _ _ _ _ _ _)
  · exact absurd h (traverseNode_done _ _ _ _ _ _ _ _ _ _)
  · cases h

theorem prun_no_fuel (g : PGraph) (lim fuel : Nat) (s : PState) (h : phi g s < fuel) :
    prun g lim fuel s ≠ .fuel := by
  induction fuel generalizing s with
  | zero => omega
  | succ fuel ih =>
    unfold prun
    cases hs : pstep g lim s with
    | done p k => simp
    | error => simp
    | running s' =>
      simp only
      have := pstep_decreases g lim s s' hs
      exact ih s' (by omega)

theorem prun_ok_bounds (g : PGraph) (lim fuel : Nat) (s : PState) (p k : Nat)
    (h : prun g lim fuel s = .ok p k) (hp : s.peak ≤ lim) :
    k ≤ lim ∧ p ≤ s.pages + fuel := by
  induction fuel generalizing s with
  | zero => simp [prun] at h
  | succ fuel ih =>
    unfold prun at h
    cases hs : pstep g lim s with
    | done p' k' =>
      simp only [hs, PResult.ok.injEq] at h
      obtain ⟨hp', hk'⟩ := pstep_done g lim s p' k' hs
      omega
    | error => simp [hs] at h
    | running s' =>
      simp only [hs] at h
      obtain ⟨h1, h2⟩ := pstep_inv g lim s s' hs hp
      have := ih s' h h1
      omega

/-! ### 5. ResolveDeep -/

/-- a generic invariant rule for `seqList` -/
theorem seqList_inv (f : RV → RSt → Except RErr RV × RSt) (I Q : RSt → Prop)
    (hIQ : ∀ st, I st → Q st)
    (hf : ∀ v st, I st → Q (f v st).2 ∧ (∀ x, (f v st).1 = .ok x → I (f v st).2))
    (items : List RV) (st : RSt) (hi : I st) :
    Q (seqList f items st).2 ∧ (∀ xs, (seqList f items st).1 = .ok xs → I (seqList f items st).2) := by
  induction items generalizing st with
  | nil => simp [seqList]; exact ⟨hIQ st hi, hi⟩
  | cons v rest ih =>
    unfold seqList
    have h1 := hf v st hi
    cases hfv : f v st with
    | mk r st' =>
      rw [hfv] at h1
      cases r with
      | error e => simp; exact h1.1
      | ok v' =>
        have hi' := h1.2 v' rfl
        have h2 := ih st' hi'
        simp only
        cases hsl : seqList f rest st' with
        | mk r2 st'' =>
          rw [hsl] at h2
          cases r2 with
          | error e => simp; exact h2.1
          | ok vs => simp; exact ⟨h2.1, h2.2 vs rfl⟩

theorem seqList_no_fuel (f : RV → RSt → Except RErr RV × RSt)
    (hf : ∀ v st, (f v st).1 ≠ .error .fuel) (items : List RV) (st : RSt) :
    (seqList f items st).1 ≠ .error .fuel := by
  induction items generalizing st with
  | nil => simp [seqList]
  | cons v rest ih =>
    unfold seqList
    have h1 := hf v st
    cases hfv : f v st with
    | mk r st' =>
      rw [hfv] at h1
      cases r with
      | error e => simpa using h1
      | ok v' =>
        simp only
        have h2 := ih st'
        cases hsl : seqList f rest st' with
        | mk r2 st'' =>
          rw [hsl] at h2
          cases r2 with
          | error e => simpa using h2
          | ok vs => simp

theorem resolveDeep_no_fuel (g : RGraph) (m : RMode) (fuel : Nat) (active : List Nat) (depth : Nat)
    (v : RV) (st : RSt) (hd : depth ≤ m.lim) (h : m.lim + 1 ≤ fuel + depth) :
    (resolveDeep g m fuel active depth v st).1 ≠ .error .fuel := by
  induction fuel generalizing active depth v st with
  | zero => omega
  | succ fuel ih =>
    unfold resolveDeep
    simp only
    split
    · simp
    · rename_i hlt
      split
      · simp
      · rename_i items
        have := seqList_no_fuel (resolveDeep g m fuel active (depth + 1))
          (fun v st => ih active (depth + 1) v st (by omega) (by omega)) items
          { st with calls := st.calls + 1, reach := max st.reach depth }
        split
        · rename_i e st' he
          rw [he] at this
          simpa using this
        · simp
      · rename_i n
        split
        · split <;> simp
        · split
          · split <;> simp
          · split
            · simp
            · rename_i target _
              have := ih (n :: active) (depth + 1) target
                { st with calls := st.calls + 1, reach := depth, fetched := n :: st.fetched } (by omega) (by omega)
              split
              · rename_i e st' he
                try simp only at he
                rw [he] at this
                simpa using this
              · simp

/-- the invariant of the memo table: every object fetched so far is either finished (in `done`)
or being resolved further up (in `active`), and nothing was fetched twice -/
def RInv (active : List Nat) (st : RSt) : Prop :=
  st.fetched.Nodup ∧ ∀ n ∈ st.fetched, n ∈ st.done.map Prod.fst ∨ n ∈ active

theorem resolveDeep_inv (g : RGraph) (m : RMode) (fuel : Nat) (active : List Nat) (depth : Nat)
    (v : RV) (st : RSt) (hi : RInv active st) :
    (resolveDeep g m fuel active depth v st).2.fetched.Nodup ∧
    (∀ x, (resolveDeep g m fuel active depth v st).1 = .ok x →
      RInv active (resolveDeep g m fuel active depth v st).2) := by
  induction fuel generalizing active depth v st with
  | zero => simp [resolveDeep]; exact hi.1
  | succ fuel ih =>
    have hi' : RInv active { st with calls := st.calls + 1, reach := max st.reach depth } := hi
    unfold resolveDeep
    simp only
    split
    · simp; exact hi.1
    · split
      · simp; exact ⟨hi.1, hi'⟩
      · rename_i items
        have := seqList_inv (resolveDeep g m fuel active (depth + 1)) (RInv active)
          (fun st => st.fetched.Nodup) (fun st h => h.1)
          (fun v st h => ih active (depth + 1) v st h) items _ hi'
        split
        · rename_i e st' he
          rw [he] at this
          simp; exact this.1
        · rename_i vs st' he
          rw [he] at this
          simp; exact ⟨this.1, this.2 vs rfl⟩
      · rename_i n
        split
        · split
          · simp; exact hi.1
          · simp; exact ⟨hi.1, hi'⟩
        · rename_i hdone
          split
          · split
            · simp; exact ⟨hi.1, hi'⟩
            · simp; exact hi.1
          · rename_i hact
            have hnf : n ∉ st.fetched := by
              intro hm
              rcases hi.2 n hm with h | h
              · exact lookupL_none_not_mem _ _ hdone h
              · exact hact (by simpa using h)
            have hnd : (n :: st.fetched).Nodup := List.nodup_cons.mpr ⟨hnf, hi.1⟩
            split
            · refine ⟨hnd, ?_⟩
              intro x hx; cases hx
            · rename_i target _
              have hi1 : RInv (n :: active) { st with calls := st.calls + 1, reach := depth, fetched := n :: st.fetched } := by
                refine ⟨hnd, ?_⟩
                intro k hk
                rcases List.mem_cons.mp hk with rfl | hk
                · exact Or.inr List.mem_cons_self
                · rcases hi.2 k hk with h | h
                  · exact Or.inl h
                  · exact Or.inr (List.mem_cons_of_mem _ h)
              have := ih (n :: active) (depth + 1) target _ hi1
              split
              · rename_i e st' he
                try simp only at he
                rw [he] at this
                simp; exact this.1
              · rename_i res st' he
                try simp only at he
                rw [he] at this
                have h2 := this.2 res rfl
                simp
                refine ⟨this.1, this.1, ?_⟩
                intro k hk
                rcases h2.2 k hk with h | h
                · exact Or.inl (by simp only [List.map_cons, List.mem_cons]; exact Or.inr h)
                · rcases List.mem_cons.mp h with rfl | h
                  · exact Or.inl (by simp)
                  · exact Or.inr h

/-- the size of the object a fetch brings in (0 for a missing object) -/
def tsize (g : RGraph) (n : Nat) : Nat :=
  match lookupL g n with
  | some v => v.size
  | none => 0

/-- the total size of the objects fetched so far -/
def cost (g : RGraph) (st : RSt) : Nat := (st.fetched.map (tsize g)).sum

theorem seqList_calls (g : RGraph) (f : RV → RSt → Except RErr RV × RSt)
    (hf : ∀ v st, (f v st).2.calls + cost g st ≤ st.calls + cost g (f v st).2 + v.size)
    (items : List RV) (st : RSt) :
    (seqList f items st).2.calls + cost g st ≤ st.calls + cost g (seqList f items st).2 + RV.sizeList items := by
  induction items generalizing st with
  | nil => simp [seqList, RV.sizeList]
  | cons v rest ih =>
    unfold seqList
    have h1 := hf v st
    cases hfv : f v st with
    | mk r st' =>
      rw [hfv] at h1
      cases r with
      | error e => simp only [RV.sizeList] at *; omega
      | ok v' =>
        simp only
        have h2 := ih st'
        cases hsl : seqList f rest st' with
        | mk r2 st'' =>
          rw [hsl] at h2
          cases r2 <;> simp only [RV.sizeList] at * <;> omega

theorem resolveDeep_calls (g : RGraph) (m : RMode) (fuel : Nat) (active : List Nat) (depth : Nat)
    (v : RV) (st : RSt) :
    (resolveDeep g m fuel active depth v st).2.calls + cost g st ≤
      st.calls + cost g (resolveDeep g m fuel active depth v st).2 + v.size := by
  induction fuel generalizing active depth v st with
  | zero => simp [resolveDeep]
  | succ fuel ih =>
    have hv : 1 ≤ v.size := by cases v <;> simp [RV.size] <;> omega
    unfold resolveDeep
    simp only
    split
    · simp only [cost]; omega
    · split
      · simp only [cost]; omega
      · rename_i items
        have := seqList_calls g (resolveDeep g m fuel active (depth + 1))
          (fun v st => ih active (depth + 1) v st) items { st with calls := st.calls + 1, reach := max st.reach depth }
        split
        · rename_i e st' he
          rw [he] at this
          simp only [cost, RV.size] at *; omega
        · rename_i vs st' he
          rw [he] at this
          simp only [cost, RV.size] at *; omega
      · rename_i n
        split
        · split <;> (simp only [cost]; omega)
        · split
          · split <;> (simp only [cost]; omega)
          · split
            · simp only [cost, List.map_cons, List.sum_cons]; omega
            · rename_i target hl
              have := ih (n :: active) (depth + 1) target
                { st with calls := st.calls + 1, reach := depth, fetched := n :: st.fetched }
              have ht : tsize g n = target.size := by simp [tsize, hl]
              split
              · rename_i e st' he
                try simp only at he
                rw [he] at this
                simp only [cost, List.map_cons, List.sum_cons, RV.size, ht] at *; omega
              · rename_i res st' he
                try simp only at he
                rw [he] at this
                simp only [cost, List.map_cons, List.sum_cons, RV.size, ht] at *; omega

/-- the total size of the objects of the graph -/
def totalSize : RGraph → Nat
  | [] => 0
  | (_, v) :: rest => v.size + totalSize rest

theorem tsize_cons (k : Nat) (w : RV) (g : RGraph) (n : Nat) :
    tsize ((k, w) :: g) n = if k = n then w.size else tsize g n := by
  unfold tsize
  rw [lookupL_cons]
  by_cases h : k = n <;> simp [h]

theorem sum_tsize_cons_le (k : Nat) (w : RV) (g : RGraph) (l : List Nat) (hl : l.Nodup) :
    (l.map (tsize ((k, w) :: g))).sum ≤ w.size + ((l.filter (fun x => x != k)).map (tsize g)).sum := by
  induction l with
  | nil => simp
  | cons n rest ih =>
    have hn := List.nodup_cons.mp hl
    by_cases hk : k = n
    · subst hk
      -- k occurs nowhere else in rest
      have hrest : rest.filter (fun x => x != k) = rest := by
        apply List.filter_eq_self.mpr
        intro a ha
        simp only [bne_iff_ne, ne_eq]
        intro h; subst h; exact hn.1 ha
      have hsum : (rest.map (tsize ((k, w) :: g))).sum = (rest.map (tsize g)).sum := by
        congr 1
        apply List.map_congr_left
        intro a ha
        rw [tsize_cons]
        have : k ≠ a := by intro h; subst h; exact hn.1 ha
        simp [this]
      have hf : (k :: rest).filter (fun x => x != k) = rest := by
        rw [List.filter_cons]; simp [hrest]
      rw [hf]
      simp only [List.map_cons, List.sum_cons, tsize_cons, if_true, hsum]
      omega
    · have := ih hn.2
      have hne : n ≠ k := fun h => hk h.symm
      have hf : (n :: rest).filter (fun x => x != k) = n :: rest.filter (fun x => x != k) := by
        rw [List.filter_cons]; simp [hne]
      rw [hf]
      simp only [List.map_cons, List.sum_cons, tsize_cons, hk, if_false]
      omega

theorem cost_le_totalSize (g : RGraph) (l : List Nat) (hl : l.Nodup) :
    (l.map (tsize g)).sum ≤ totalSize g := by
  induction g generalizing l with
  | nil =>
    have : ∀ n, tsize [] n = 0 := by intro n; simp [tsize, lookupL]
    induction l with
    | nil => simp
    | cons a r ih => simp [this a, ih (List.nodup_cons.mp hl).2]
  | cons p rest ih =>
    obtain ⟨k, w⟩ := p
    have h1 := sum_tsize_cons_le k w rest l hl
    have h2 := ih (l.filter (fun x => x != k)) (hl.filter _)
    simp only [totalSize]; omega

end Tabula.BoundsCore
