import TabulaModel.Lemmas.MarkdownDocx
/-!
The HTML Markdown writer (`htmlBody`: pieces joined by a blank line, no trailing newline) as
lines, and what the reading spec gives back on them.
-/
namespace Tabula.MarkdownDoc
open Tabula.A1 (Str dec decInt)
open Tabula.Markdown

/-! ## lines joined by single newlines, no newline after the last -/

def unlines : List Str → Str
  | [] => []
  | [l] => l
  | l :: m :: r => l ++ 10 :: unlines (m :: r)

theorem unlines_cons (l : Str) (L : List Str) (h : L ≠ []) : unlines (l :: L) = l ++ 10 :: unlines L := by
  cases L with
  | nil => exact absurd rfl h
  | cons m r => rfl

theorem unlines_append (A B : List Str) (hA : A ≠ []) (hB : B ≠ []) :
    unlines (A ++ B) = unlines A ++ 10 :: unlines B := by
  induction A with
  | nil => exact absurd rfl hA
  | cons a A ih =>
    cases A with
    | nil => simp [unlines_cons a B hB, unlines]
    | cons a' A' =>
      have h1 : (a' :: A') ++ B ≠ [] := by simp
      rw [List.cons_append, unlines_cons a _ h1, ih (by simp), unlines_cons a (a' :: A') (by simp)]
      simp

theorem splitLines_unlines (L : List Str) (hne : L ≠ []) (h : ∀ l ∈ L, 10 ∉ l) : splitLines (unlines L) = L := by
  induction L with
  | nil => exact absurd rfl hne
  | cons l L ih =>
    cases L with
    | nil => simp [unlines, splitLines_noNl l (h l (by simp))]
    | cons m r =>
      rw [unlines_cons l _ (by simp), splitLines_append _ _ (h l (by simp)),
        ih (by simp) (fun x hx => h x (List.mem_cons_of_mem _ hx))]

theorem unlines_joinLines (T : List Str) : joinLines T = unlines (T ++ [[]]) := by
  induction T with
  | nil => rfl
  | cons l T ih =>
    rw [joinLines_cons, ih, List.cons_append, unlines_cons l _ (by simp)]

theorem unlines_eq_nil (A : List Str) (h : A = [] ∨ ∃ a r, A = a :: r ∧ a ≠ []) : unlines A = [] ↔ A = [] := by
  constructor
  · intro hu
    rcases h with h | ⟨a, r, rfl, ha⟩
    · exact h
    · exfalso
      cases r with
      | nil => exact ha (by simpa [unlines] using hu)
      | cons m r' =>
        rw [unlines_cons a _ (by simp)] at hu
        cases a with
        | nil => exact ha rfl
        | cons c cs => simp at hu
  · intro h; rw [h]; rfl

/-! ## the pieces of `htmlBody` -/

/-- the item lines of a list element (`htmlItems` without the joining newlines) -/
def htmlItemLine (it : HItem) : Str :=
  indent2 it.level ++ (if it.ordered then [49, 46, 32] else [45, 32]) ++ it.text

theorem htmlItems_false (its : List HItem) (hne : its ≠ []) :
    htmlItems its false = 10 :: unlines (its.map htmlItemLine) := by
  induction its with
  | nil => exact absurd rfl hne
  | cons it rest ih =>
    cases rest with
    | nil => simp [htmlItems, unlines, htmlItemLine]
    | cons it2 rest2 =>
      have ih' := ih (by simp)
      rw [List.map_cons, unlines_cons _ _ (by simp)]
      have : htmlItems (it :: it2 :: rest2) false = 10 :: (htmlItemLine it ++ htmlItems (it2 :: rest2) false) := by
        simp [htmlItems, htmlItemLine]
      rw [this, ih']

theorem htmlItems_unlines (items : List HItem) (hne : items ≠ []) :
    htmlItems items true = unlines (items.map htmlItemLine) := by
  cases items with
  | nil => exact absurd rfl hne
  | cons it rest =>
    cases rest with
    | nil => simp [htmlItems, unlines, htmlItemLine]
    | cons it2 rest2 =>
      rw [List.map_cons, unlines_cons _ _ (by simp)]
      have : htmlItems (it :: it2 :: rest2) true = htmlItemLine it ++ htmlItems (it2 :: rest2) false := by
        simp [htmlItems, htmlItemLine]
      rw [this, htmlItems_false _ (by simp)]

/-- the lines one element contributes, `none` when it writes nothing at all (a table without
rows); code blocks and block quotes are outside this description -/
def htmlPieceLines (hl : Int → Int) : HElem → Option (List Str)
  | .heading l t => some [atxLine (hl l).toNat t]
  | .para t => some [t]
  | .list items => some (if items.isEmpty then [[]] else items.map htmlItemLine)
  | .table none => none
  | .table (some rows) =>
    match rows with
    | [] => none
    | hdr :: rest =>
      some ((renderRow .html hdr :: renderDelim .html hdr.length :: rest.map (renderRow .html)) ++ [[]])
  | .code _ => none
  | .quote _ => none

/-- elements this description covers -/
def HElem.basic : HElem → Bool
  | .code _ => false
  | .quote _ => false
  | _ => true

theorem render_html_lines (hdr : List Str) (rest : List (List Str)) :
    render .html (hdr :: rest)
      = joinLines (renderRow .html hdr :: renderDelim .html hdr.length :: rest.map (renderRow .html)) := by
  simp only [render, joinLines_cons]
  have : (rest.flatMap fun r => renderRow .html r ++ [10]) = joinLines (rest.map (renderRow .html)) := by
    unfold joinLines; exact flatMap_lines _ rest
  rw [this]; simp

theorem htmlStep_piece (hl : Int → Int) (acc : Str) (e : HElem) (hb : e.basic = true) :
    htmlStep hl acc e =
      match htmlPieceLines hl e with
      | none => acc
      | some P => acc ++ sep2 acc ++ unlines P := by
  cases e with
  | heading l t => simp [htmlStep, htmlPieceLines, unlines, atxLine]
  | para t => simp [htmlStep, htmlPieceLines, unlines]
  | list items =>
    cases items with
    | nil => simp [htmlStep, htmlPieceLines, unlines, htmlItems]
    | cons it rest =>
      simp only [htmlStep, htmlPieceLines, List.isEmpty_cons, Bool.false_eq_true, if_false]
      rw [htmlItems_unlines _ (by simp)]
  | table rows =>
    cases rows with
    | none => rfl
    | some rows =>
      cases rows with
      | nil => simp [htmlStep, htmlPieceLines]
      | cons hdr rest =>
        simp only [htmlStep, htmlPieceLines, List.isEmpty_cons, Bool.false_eq_true, if_false]
        rw [render_html_lines, unlines_joinLines]
  | code t => cases hb
  | quote t => cases hb

/-- all pieces so far, each preceded by an empty line -/
def htmlUniform (hl : Int → Int) (els : List HElem) : List Str :=
  els.flatMap fun e =>
    match htmlPieceLines hl e with
    | none => []
    | some P => [] :: P

def dropEmpty (L : List Str) : List Str := L.dropWhile (·.isEmpty)

theorem dropEmpty_head (L : List Str) : dropEmpty L = [] ∨ ∃ a r, dropEmpty L = a :: r ∧ a ≠ [] := by
  unfold dropEmpty
  induction L with
  | nil => left; rfl
  | cons l L ih =>
    cases l with
    | nil => simpa [List.dropWhile] using ih
    | cons c cs => right; exact ⟨c :: cs, L, by simp [List.dropWhile], by simp⟩

theorem dropEmpty_append_of_ne (A B : List Str) (h : dropEmpty A ≠ []) :
    dropEmpty (A ++ B) = dropEmpty A ++ B := by
  unfold dropEmpty at *
  induction A with
  | nil => exact absurd rfl h
  | cons a A ih =>
    cases a with
    | nil =>
      simp only [List.cons_append, List.dropWhile, List.isEmpty_nil, if_true] at h ⊢
      exact ih h
    | cons c cs => simp [List.dropWhile]

theorem dropEmpty_append_of_nil (A B : List Str) (h : dropEmpty A = []) :
    dropEmpty (A ++ B) = dropEmpty B := by
  unfold dropEmpty at *
  induction A with
  | nil => rfl
  | cons a A ih =>
    cases a with
    | nil =>
      simp only [List.cons_append, List.dropWhile, List.isEmpty_nil, if_true] at h ⊢
      exact ih h
    | cons c cs => simp [List.dropWhile] at h

/-- a piece is either one empty line or starts with a non-empty line -/
def PieceOK (P : List Str) : Prop := P = [[]] ∨ ∃ a r, P = a :: r ∧ a ≠ []

theorem htmlBody_lines (hl : Int → Int) (els : List HElem) (hb : ∀ e ∈ els, e.basic = true)
    (hp : ∀ e ∈ els, ∀ P, htmlPieceLines hl e = some P → PieceOK P) :
    htmlBody hl els = unlines (dropEmpty (htmlUniform hl els)) := by
  unfold htmlBody
  have key : ∀ (es : List HElem) (U : List Str), (∀ e ∈ es, e.basic = true) →
      (∀ e ∈ es, ∀ P, htmlPieceLines hl e = some P → PieceOK P) →
      es.foldl (htmlStep hl) (unlines (dropEmpty U)) = unlines (dropEmpty (U ++ htmlUniform hl es)) := by
    intro es
    induction es with
    | nil => intro U _ _; simp [htmlUniform]
    | cons e es ih =>
      intro U hb hp
      have hb' := fun x hx => hb x (List.mem_cons_of_mem _ hx)
      have hp' := fun x hx => hp x (List.mem_cons_of_mem _ hx)
      simp only [List.foldl_cons]
      rw [htmlStep_piece hl _ e (hb e (by simp))]
      have hU : htmlUniform hl (e :: es) = (match htmlPieceLines hl e with
          | none => []
          | some P => [] :: P) ++ htmlUniform hl es := by
        simp [htmlUniform]
      rw [hU]
      cases hP : htmlPieceLines hl e with
      | none => simpa using ih U hb' hp'
      | some P =>
        simp only
        have hok := hp e (by simp) P hP
        have hPne : P ≠ [] := by
          rcases hok with h | ⟨a, r, h, _⟩ <;> simp [h]
        rw [← List.append_assoc]
        rw [← ih (U ++ [] :: P) hb' hp']
        congr 1
        -- the new accumulator
        by_cases hA : dropEmpty U = []
        · rw [hA]
          simp only [unlines, sep2, List.isEmpty_nil, if_true, List.nil_append]
          rw [dropEmpty_append_of_nil U _ hA]
          rcases hok with h | ⟨a, r, h, ha⟩
          · rw [h]; rfl
          · rw [h]
            cases a with
            | nil => exact absurd rfl ha
            | cons c cs => simp [dropEmpty, List.dropWhile]
        · have hne : unlines (dropEmpty U) ≠ [] := by
            intro hu
            exact hA ((unlines_eq_nil _ (dropEmpty_head U)).mp hu)
          have hse : (unlines (dropEmpty U)).isEmpty = false := by
            cases hx : unlines (dropEmpty U) with
            | nil => exact absurd hx hne
            | cons a b => rfl
          rw [dropEmpty_append_of_ne U _ hA]
          simp only [sep2, hse, Bool.false_eq_true, if_false]
          rw [unlines_append _ _ hA (by simp), unlines_cons [] P hPne]
          simp
  have := key els [] hb hp
  simpa [dropEmpty, unlines] using this

/-! ## the body as segments, and what the reader finds -/

def htmlTableLines (hdr : List Str) (rest : List (List Str)) : List Str :=
  renderRow .html hdr :: renderDelim .html hdr.length :: rest.map (renderRow .html)

def htmlSegsOf (hl : Int → Int) : HElem → List Seg
  | .heading l t => [.plain [[]], .plain [atxLine (hl l).toNat t]]
  | .para t => [.plain [[]], .plain [t]]
  | .list items => [.plain [[]], .plain (if items.isEmpty then [[]] else items.map htmlItemLine)]
  | .table none => []
  | .table (some []) => []
  | .table (some (hdr :: rest)) => [.plain [[]], .table (htmlTableLines hdr rest)]
  | .code _ => []
  | .quote _ => []

def htmlSegs (hl : Int → Int) (els : List HElem) : List Seg := els.flatMap (htmlSegsOf hl)

theorem htmlUniform_segs (hl : Int → Int) (els : List HElem) :
    htmlUniform hl els = segLines (htmlSegs hl els) := by
  unfold htmlUniform htmlSegs segLines
  rw [List.flatMap_assoc]
  congr 1
  funext e
  cases e with
  | heading l t => simp [htmlPieceLines, htmlSegsOf, Seg.lines]
  | para t => simp [htmlPieceLines, htmlSegsOf, Seg.lines]
  | list items => simp [htmlPieceLines, htmlSegsOf, Seg.lines]
  | table rows =>
    cases rows with
    | none => simp [htmlPieceLines, htmlSegsOf]
    | some rows =>
      cases rows with
      | nil => simp [htmlPieceLines, htmlSegsOf]
      | cons hdr rest => simp [htmlPieceLines, htmlSegsOf, Seg.lines, htmlTableLines]
  | code t => simp [htmlPieceLines, htmlSegsOf]
  | quote t => simp [htmlPieceLines, htmlSegsOf]

def hHeadings (hl : Int → Int) (els : List HElem) : List (Nat × Str) :=
  els.filterMap fun
    | .heading l t => some ((hl l).toNat, t)
    | _ => none

def hItems (els : List HElem) : List (Nat × Bool × Str) :=
  els.flatMap fun
    | .list items => items.map fun it => (it.level.toNat, it.ordered, it.text)
    | _ => []

def hParas (els : List HElem) : List Str :=
  els.filterMap fun
    | .para t => if t.isEmpty then none else some t
    | _ => none

def hTables (els : List HElem) : List (List (List Str)) :=
  els.filterMap fun
    | .table (some (hdr :: rest)) => some (hdr :: rest)
    | _ => none

/-- the table lines of a table with at least one row -/
def htmlTableLinesOf : List (List Str) → List Str
  | [] => []
  | hdr :: rest => htmlTableLines hdr rest

/-- well-formed input of the HTML writer for the read-back theorems -/
structure HtmlWF (hl : Int → Int) (els : List HElem) : Prop where
  basic : ∀ e ∈ els, e.basic = true
  /-- the heading levels written are ATX levels (for `MarkdownWithOptions` this says the source levels are 1..6, as the HTML parser produces them) -/
  hlRange : ∀ l t, HElem.heading l t ∈ els → 1 ≤ (hl l).toNat ∧ (hl l).toNat ≤ 6
  headNl : ∀ l t, HElem.heading l t ∈ els → 10 ∉ t
  paraNl : ∀ t, HElem.para t ∈ els → 10 ∉ t
  plain : ∀ t, HElem.para t ∈ els → t.isEmpty = false → classify t = .para
  itemNl : ∀ items, HElem.list items ∈ els → ∀ it ∈ items, 10 ∉ it.text
  /-- every table row has at least one cell -/
  rows : ∀ hdr rest, HElem.table (some (hdr :: rest)) ∈ els → ∀ r ∈ hdr :: rest, r ≠ []

theorem HtmlWF.tail {hl e es} (h : HtmlWF hl (e :: es)) : HtmlWF hl es :=
  ⟨fun x hx => h.basic x (List.mem_cons_of_mem _ hx), fun l t hx => h.hlRange l t (List.mem_cons_of_mem _ hx),
   fun l t hx => h.headNl l t (List.mem_cons_of_mem _ hx), fun t hx => h.paraNl t (List.mem_cons_of_mem _ hx),
   fun t hx => h.plain t (List.mem_cons_of_mem _ hx), fun i hx => h.itemNl i (List.mem_cons_of_mem _ hx),
   fun a b hx => h.rows a b (List.mem_cons_of_mem _ hx)⟩

theorem htmlItemLine_eq (it : HItem) :
    htmlItemLine it = listLine ⟨it.level.toNat, it.ordered, 1, it.text⟩ := by
  have : dec 1 = [49] := by simp [Tabula.A1.dec, Tabula.A1.decAux]
  simp [htmlItemLine, listLine, indent2, this]

theorem listLine_noNl (it : Item) (h : 10 ∉ it.text) : 10 ∉ listLine it := by
  unfold listLine
  intro hm
  simp only [List.mem_append] at hm
  rcases hm with (hm | hm) | hm
  · have := List.eq_of_mem_replicate hm; omega
  · split at hm
    · rcases List.mem_append.mp hm with h1 | h1
      · have := dec_digits it.num 10 h1; simp [isDigit] at this
      · simp at h1
    · simp at hm
  · exact h hm

theorem atxLine_noNl (n : Nat) (t : Str) (h : 10 ∉ t) : 10 ∉ atxLine n t := by
  unfold atxLine
  intro hm
  rcases List.mem_append.mp hm with hm | hm
  · have := List.eq_of_mem_replicate hm; omega
  · rcases List.mem_cons.mp hm with hm | hm
    · omega
    · exact h hm

theorem atxLine_ne_hr (n : Nat) (t : Str) (h1 : 1 ≤ n) : atxLine n t ≠ hrLine := by
  intro e
  have := classify_atxLine n t h1
  rw [e] at this
  have h2 : classify hrLine = .skip := by decide
  rw [h2] at this; cases this

theorem renderRow_html_pipe (cells : List Str) : isPipeLine (renderRow .html cells) = true := rfl

theorem renderDelim_html_pipe (n : Nat) : isPipeLine (renderDelim .html n) = true := rfl

theorem htmlTableLines_props (hdr : List Str) (rest : List (List Str)) (hne : ∀ r ∈ hdr :: rest, r ≠ []) :
    ∀ l ∈ htmlTableLines hdr rest, isPipeLine l = true ∧ 10 ∉ l := by
  intro l hl
  simp only [htmlTableLines, List.mem_cons, List.mem_map] at hl
  rcases hl with rfl | rfl | ⟨r, hr, rfl⟩
  · exact ⟨rfl, renderRow_noNl .html hdr (hne hdr (by simp))⟩
  · refine ⟨rfl, renderDelim_noNl .html _ ?_⟩
    have := hne hdr (by simp)
    cases hdr with
    | nil => exact absurd rfl this
    | cons a b => simp
  · exact ⟨rfl, renderRow_noNl .html r (hne r (List.mem_cons_of_mem _ hr))⟩

theorem hHeadings_cons (hl : Int → Int) (e : HElem) (es : List HElem) :
    hHeadings hl (e :: es) = hHeadings hl [e] ++ hHeadings hl es := by
  simp only [hHeadings, List.filterMap_cons, List.filterMap_nil]
  split <;> simp
theorem hParas_cons (e : HElem) (es : List HElem) : hParas (e :: es) = hParas [e] ++ hParas es := by
  simp only [hParas, List.filterMap_cons, List.filterMap_nil]
  split <;> simp
theorem hTables_cons (e : HElem) (es : List HElem) : hTables (e :: es) = hTables [e] ++ hTables es := by
  simp only [hTables, List.filterMap_cons, List.filterMap_nil]
  split <;> simp
theorem hItems_cons (e : HElem) (es : List HElem) : hItems (e :: es) = hItems [e] ++ hItems es := by
  simp [hItems]

theorem htmlSegsOf_facts (hl : Int → Int) (e : HElem) (es : List HElem) (hwf : HtmlWF hl (e :: es)) :
    (∀ sg ∈ htmlSegsOf hl e, sg.OK) ∧
    (∀ l ∈ segLines (htmlSegsOf hl e), 10 ∉ l ∧ l ≠ hrLine) ∧
    (segPlain (htmlSegsOf hl e)).filterMap headingOf = hHeadings hl [e] ∧
    (segPlain (htmlSegsOf hl e)).filterMap itemOf = hItems [e] ∧
    (segPlain (htmlSegsOf hl e)).filter isPara = hParas [e] ∧
    segTables (htmlSegsOf hl e) = (hTables [e]).map htmlTableLinesOf := by
  have hnil : (10 ∉ ([] : Str) ∧ ([] : Str) ≠ hrLine) := by simp [hrLine]
  have hblankOK : (Seg.plain [[]]).OK := by intro l hl'; simp at hl'; subst hl'; rfl
  cases e with
  | heading l t =>
    have hr := (hwf.hlRange l t (by simp)).1
    have hnl := hwf.headNl l t (by simp)
    refine ⟨?_, ?_, ?_, ?_, ?_, ?_⟩
    · intro sg hsg
      simp only [htmlSegsOf, List.mem_cons, List.not_mem_nil, or_false] at hsg
      rcases hsg with rfl | rfl
      · exact hblankOK
      · intro x hx; simp at hx; subst hx; exact isPipeLine_atxLine _ _ hr
    · intro x hx
      simp only [htmlSegsOf, segLines, List.flatMap_cons, List.flatMap_nil, Seg.lines, List.append_nil,
        List.mem_append, List.mem_singleton] at hx
      rcases hx with rfl | rfl
      · exact hnil
      · exact ⟨atxLine_noNl _ _ hnl, atxLine_ne_hr _ _ hr⟩
    · simp [htmlSegsOf, segPlain, hHeadings, headingOf_nil, headingOf_atxLine _ _ hr]
    · simp [htmlSegsOf, segPlain, hItems, itemOf_nil, itemOf_atxLine _ _ hr]
    · simp [htmlSegsOf, segPlain, hParas, isPara_nil, isPara_atxLine _ _ hr]
    · simp [htmlSegsOf, segTables, hTables]
  | para t =>
    have hnl := hwf.paraNl t (by simp)
    by_cases ht : t.isEmpty = true
    · have hte : t = [] := by simpa using ht
      subst hte
      refine ⟨?_, ?_, ?_, ?_, ?_, ?_⟩
      · intro sg hsg
        simp only [htmlSegsOf, List.mem_cons, List.not_mem_nil, or_false] at hsg
        rcases hsg with rfl | rfl <;> exact hblankOK
      · intro x hx
        simp only [htmlSegsOf, segLines, List.flatMap_cons, List.flatMap_nil, Seg.lines, List.append_nil,
          List.mem_append, List.mem_singleton] at hx
        rcases hx with rfl | rfl <;> exact hnil
      · simp [htmlSegsOf, segPlain, hHeadings, headingOf_nil]
      · simp [htmlSegsOf, segPlain, hItems, itemOf_nil]
      · simp [htmlSegsOf, segPlain, hParas, isPara_nil]
      · simp [htmlSegsOf, segTables, hTables]
    · have ht' : t.isEmpty = false := by simpa using ht
      have htne : t ≠ [] := by simpa using ht'
      obtain ⟨hp1, hp2, hp3, hp4, hp5, _⟩ := classify_para_props t (hwf.plain t (by simp) ht')
      refine ⟨?_, ?_, ?_, ?_, ?_, ?_⟩
      · intro sg hsg
        simp only [htmlSegsOf, List.mem_cons, List.not_mem_nil, or_false] at hsg
        rcases hsg with rfl | rfl
        · exact hblankOK
        · intro x hx; simp at hx; subst hx; exact hp4
      · intro x hx
        simp only [htmlSegsOf, segLines, List.flatMap_cons, List.flatMap_nil, Seg.lines, List.append_nil,
          List.mem_append, List.mem_singleton] at hx
        rcases hx with rfl | rfl
        · exact hnil
        · exact ⟨hnl, hp5⟩
      · simp [htmlSegsOf, segPlain, hHeadings, headingOf_nil, hp1]
      · simp [htmlSegsOf, segPlain, hItems, itemOf_nil, hp2]
      · simp [htmlSegsOf, segPlain, hParas, isPara_nil, hp3, htne]
      · simp [htmlSegsOf, segTables, hTables]
  | list items =>
    have hnl := hwf.itemNl items (by simp)
    cases items with
    | nil =>
      refine ⟨?_, ?_, ?_, ?_, ?_, ?_⟩
      · intro sg hsg
        simp only [htmlSegsOf, List.isEmpty_nil, if_true, List.mem_cons, List.not_mem_nil, or_false] at hsg
        rcases hsg with rfl | rfl <;> exact hblankOK
      · intro x hx
        simp only [htmlSegsOf, List.isEmpty_nil, if_true, segLines, List.flatMap_cons, List.flatMap_nil,
          Seg.lines, List.append_nil, List.mem_append, List.mem_singleton] at hx
        rcases hx with rfl | rfl <;> exact hnil
      · simp [htmlSegsOf, segPlain, hHeadings, headingOf_nil]
      · simp [htmlSegsOf, segPlain, hItems, itemOf_nil]
      · simp [htmlSegsOf, segPlain, hParas, isPara_nil]
      · simp [htmlSegsOf, segTables, hTables]
    | cons it rest =>
      have hmapH : ((it :: rest).map htmlItemLine).filterMap headingOf = [] := by
        rw [List.filterMap_eq_nil_iff]
        intro l hl'
        rcases List.mem_map.mp hl' with ⟨i, _, rfl⟩
        rw [htmlItemLine_eq]; exact headingOf_listLine _
      have hmapI : ((it :: rest).map htmlItemLine).filterMap itemOf
          = (it :: rest).map fun i => (i.level.toNat, i.ordered, i.text) := by
        rw [List.filterMap_map]
        have : (itemOf ∘ htmlItemLine) = fun i => some (i.level.toNat, i.ordered, i.text) := by
          funext i
          simp only [Function.comp, htmlItemLine_eq, itemOf_listLine]
        rw [this]
        induction (it :: rest) with
        | nil => rfl
        | cons a b ih => simp [List.filterMap_cons, ih]
      have hmapP : ((it :: rest).map htmlItemLine).filter isPara = [] := by
        rw [List.filter_eq_nil_iff]
        intro l hl'
        rcases List.mem_map.mp hl' with ⟨i, _, rfl⟩
        rw [htmlItemLine_eq, isPara_listLine]; simp
      refine ⟨?_, ?_, ?_, ?_, ?_, ?_⟩
      · intro sg hsg
        simp only [htmlSegsOf, List.isEmpty_cons, Bool.false_eq_true, if_false, List.mem_cons,
          List.not_mem_nil, or_false] at hsg
        rcases hsg with rfl | rfl
        · exact hblankOK
        · intro x hx
          rcases List.mem_map.mp hx with ⟨i, _, rfl⟩
          rw [htmlItemLine_eq]; exact isPipeLine_listLine _
      · intro x hx
        simp only [htmlSegsOf, List.isEmpty_cons, Bool.false_eq_true, if_false, segLines, List.flatMap_cons,
          List.flatMap_nil, Seg.lines, List.append_nil, List.mem_append, List.mem_singleton] at hx
        rcases hx with rfl | hx
        · exact hnil
        · rcases List.mem_map.mp hx with ⟨i, hi, rfl⟩
          rw [htmlItemLine_eq]
          obtain ⟨_, _, _, _, _, hhr⟩ := listLine_shape ⟨i.level.toNat, i.ordered, 1, i.text⟩
          exact ⟨listLine_noNl _ (hnl i hi), hhr⟩
      · simp only [htmlSegsOf, List.isEmpty_cons, Bool.false_eq_true, if_false, segPlain, List.flatMap_cons,
          List.flatMap_nil, List.append_nil, List.filterMap_append, hmapH]
        simp [hHeadings, headingOf_nil]
      · simp only [htmlSegsOf, List.isEmpty_cons, Bool.false_eq_true, if_false, segPlain, List.flatMap_cons,
          List.flatMap_nil, List.append_nil, List.filterMap_append, hmapI]
        simp [hItems, itemOf_nil]
      · simp only [htmlSegsOf, List.isEmpty_cons, Bool.false_eq_true, if_false, segPlain, List.flatMap_cons,
          List.flatMap_nil, List.append_nil, List.filter_append, hmapP]
        simp [hParas, isPara_nil]
      · simp [htmlSegsOf, segTables, hTables]
  | table rows =>
    cases rows with
    | none => simp [htmlSegsOf, segLines, segPlain, segTables, hHeadings, hItems, hParas, hTables]
    | some rows =>
      cases rows with
      | nil => simp [htmlSegsOf, segLines, segPlain, segTables, hHeadings, hItems, hParas, hTables]
      | cons hdr rest =>
        have hprops := htmlTableLines_props hdr rest (hwf.rows hdr rest (by simp))
        refine ⟨?_, ?_, ?_, ?_, ?_, ?_⟩
        · intro sg hsg
          simp only [htmlSegsOf, List.mem_cons, List.not_mem_nil, or_false] at hsg
          rcases hsg with rfl | rfl
          · exact hblankOK
          · exact ⟨by simp [htmlTableLines], fun l hl' => (hprops l hl').1⟩
        · intro x hx
          simp only [htmlSegsOf, segLines, List.flatMap_cons, List.flatMap_nil, Seg.lines, List.append_nil,
            List.mem_append, List.mem_singleton] at hx
          rcases hx with rfl | hx | rfl
          · exact hnil
          · refine ⟨(hprops x hx).2, ?_⟩
            intro e
            have := (hprops x hx).1
            rw [e] at this; exact absurd this (by decide)
          · exact hnil
        · simp [htmlSegsOf, segPlain, hHeadings, headingOf_nil]
        · simp [htmlSegsOf, segPlain, hItems, itemOf_nil]
        · simp [htmlSegsOf, segPlain, hParas, isPara_nil]
        · simp [htmlSegsOf, segTables, hTables, htmlTableLinesOf]
  | code t => exact absurd (hwf.basic (.code t) (by simp)) (by simp [HElem.basic])
  | quote t => exact absurd (hwf.basic (.quote t) (by simp)) (by simp [HElem.basic])

theorem htmlSegs_facts (hl : Int → Int) (els : List HElem) (hwf : HtmlWF hl els) :
    (∀ sg ∈ htmlSegs hl els, sg.OK) ∧
    (∀ l ∈ segLines (htmlSegs hl els), 10 ∉ l ∧ l ≠ hrLine) ∧
    (segPlain (htmlSegs hl els)).filterMap headingOf = hHeadings hl els ∧
    (segPlain (htmlSegs hl els)).filterMap itemOf = hItems els ∧
    (segPlain (htmlSegs hl els)).filter isPara = hParas els ∧
    segTables (htmlSegs hl els) = (hTables els).map htmlTableLinesOf := by
  induction els with
  | nil => simp [htmlSegs, segLines, segPlain, segTables, hHeadings, hItems, hParas, hTables]
  | cons e es ih =>
    obtain ⟨f2, f3, f4, f5, f6, f7⟩ := htmlSegsOf_facts hl e es hwf
    obtain ⟨g2, g3, g4, g5, g6, g7⟩ := ih hwf.tail
    have hs : htmlSegs hl (e :: es) = htmlSegsOf hl e ++ htmlSegs hl es := by simp [htmlSegs]
    rw [hs]
    refine ⟨?_, ?_, ?_, ?_, ?_, ?_⟩
    · intro sg hsg
      rcases List.mem_append.mp hsg with h | h
      · exact f2 sg h
      · exact g2 sg h
    · intro l hl'
      rw [segLines_append] at hl'
      rcases List.mem_append.mp hl' with h | h
      · exact f3 l h
      · exact g3 l h
    · rw [segPlain_append, List.filterMap_append, f4, g4, ← hHeadings_cons]
    · rw [segPlain_append, List.filterMap_append, f5, g5, ← hItems_cons]
    · rw [segPlain_append, List.filter_append, f6, g6, ← hParas_cons]
    · rw [segTables_append, f7, g7, ← List.map_append, ← hTables_cons]

theorem dropEmpty_split (U : List Str) : ∃ k, U = List.replicate k [] ++ dropEmpty U := by
  unfold dropEmpty
  induction U with
  | nil => exact ⟨0, rfl⟩
  | cons l U ih =>
    cases l with
    | nil =>
      obtain ⟨k, hk⟩ := ih
      refine ⟨k + 1, ?_⟩
      simp only [List.dropWhile, List.isEmpty_nil, if_true, List.replicate_succ, List.cons_append]
      rw [← hk]
    | cons c cs => exact ⟨0, by simp [List.dropWhile]⟩

theorem readLines_dropEmpty (U : List Str) (h : hrLine ∉ U) : readLines (dropEmpty U) = readLines U := by
  obtain ⟨k, hk⟩ := dropEmpty_split U
  conv => rhs; rw [hk]
  rw [readLines_cons_blanks]
  intro hh
  have hm : hrLine ∈ dropEmpty U := by
    cases hd : dropEmpty U with
    | nil => rw [hd] at hh; simp at hh
    | cons a b =>
      rw [hd] at hh
      simp only [List.head?_cons, Option.some.injEq] at hh
      rw [hh]; simp
  apply h
  rw [hk]
  exact List.mem_append_right _ hm

theorem readLines_nil : readLines [] = { headings := [], items := [], tables := [], paras := [] } := by decide

/-- the body of an HTML rendering, read back -/
theorem html_body_read (hl : Int → Int) (els : List HElem) (hwf : HtmlWF hl els)
    (htoc : (2, tocText) ∉ hHeadings hl els) :
    let U := htmlUniform hl els
    (∀ l ∈ U, 10 ∉ l) ∧ hrLine ∉ U ∧ tocTitle ∉ U ∧
    htmlBody hl els = unlines (dropEmpty U) ∧
    readLines U =
      { headings := hHeadings hl els, items := hItems els,
        tables := (hTables els).map fun t => gfmTableL (htmlTableLinesOf t), paras := hParas els } := by
  intro U
  obtain ⟨g2, g3, g4, g5, g6, g7⟩ := htmlSegs_facts hl els hwf
  have hU : U = segLines (htmlSegs hl els) := htmlUniform_segs hl els
  have hhr : hrLine ∉ U := by rw [hU]; exact fun h => (g3 _ h).2 rfl
  have hh : U.filterMap headingOf = hHeadings hl els := by
    rw [hU, ← g4]; exact filterMap_segLines headingOf headingOf_nil headingOf_pipe _ g2
  have htt : tocTitle ∉ U := by
    intro h
    apply htoc
    rw [← hh]
    exact List.mem_filterMap.mpr ⟨tocTitle, h, headingOf_tocTitle⟩
  have hpieces : ∀ e ∈ els, ∀ P, htmlPieceLines hl e = some P → PieceOK P := by
    intro e he P hP
    cases e with
    | heading l t =>
      simp only [htmlPieceLines, Option.some.injEq] at hP; subst hP
      right
      have hr := (hwf.hlRange l t he).1
      obtain ⟨k, hk⟩ : ∃ k, (hl l).toNat = k + 1 := ⟨(hl l).toNat - 1, by omega⟩
      exact ⟨_, [], rfl, by rw [hk, atxLine_succ]; simp⟩
    | para t =>
      simp only [htmlPieceLines, Option.some.injEq] at hP; subst hP
      cases t with
      | nil => left; rfl
      | cons c cs => right; exact ⟨_, [], rfl, by simp⟩
    | list items =>
      simp only [htmlPieceLines, Option.some.injEq] at hP; subst hP
      cases items with
      | nil => left; rfl
      | cons it rest =>
        right
        refine ⟨htmlItemLine it, rest.map htmlItemLine, by simp, ?_⟩
        rw [htmlItemLine_eq]
        obtain ⟨c, r, hcr, _⟩ := listLine_shape ⟨it.level.toNat, it.ordered, 1, it.text⟩
        rw [hcr]; simp
    | table rows =>
      cases rows with
      | none => simp [htmlPieceLines] at hP
      | some rows =>
        cases rows with
        | nil => simp [htmlPieceLines] at hP
        | cons hdr rest =>
          simp only [htmlPieceLines, Option.some.injEq] at hP; subst hP
          right
          refine ⟨renderRow .html hdr, renderDelim .html hdr.length :: (rest.map (renderRow .html) ++ [[]]), by simp, ?_⟩
          exact (by
            intro e
            have : isPipeLine (renderRow .html hdr) = true := rfl
            rw [e] at this; exact absurd this (by decide))
    | code t => simp [htmlPieceLines] at hP
    | quote t => simp [htmlPieceLines] at hP
  refine ⟨fun l h => by rw [hU] at h; exact (g3 l h).1, hhr, htt, htmlBody_lines hl els hwf.basic hpieces, ?_⟩
  rw [readLines_plain U (by
    intro h
    cases hL : U with
    | nil => rw [hL] at h; simp at h
    | cons a b =>
      rw [hL] at h
      simp only [List.head?_cons, Option.some.injEq] at h
      exact hhr (by rw [hL, h]; simp)) htt]
  rw [hh]
  congr 1
  · rw [hU, ← g5]; exact filterMap_segLines itemOf itemOf_nil itemOf_pipe _ g2
  · rw [hU, pipeBlocks_segs _ g2, g7, List.map_map]; rfl
  · rw [hU, ← g6]; exact filter_segLines isPara isPara_nil isPara_pipe _ g2

end Tabula.MarkdownDoc
