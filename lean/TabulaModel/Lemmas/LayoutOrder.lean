import TabulaModel.Model.LayoutOrder
import TabulaModel.Lemmas.Layout
/-!
Lemmas about `Model/LayoutOrder.lean`: sections, their order, the ByColumn and JoinParagraphs
texts.
-/
namespace Tabula.Layout
open List

/-! ## lines of a fragment list -/

theorem lineTexts_nonspace' (L : List (List Frag)) :
    nonspace (textsOf L.flatten) = nonspace (L.map lineText).flatten := by
  induction L with
  | nil => rfl
  | cons l L ih =>
    simp only [List.map_cons, List.flatten_cons, nonspace_append, textsOf_append, nonspace_lineText, ih]

theorem detectLines_nonspace (tol minW : Rat) (preserve : List Frag → Bool) (fs : List Frag) :
    (nonspace (textsOf (detectLines tol minW preserve fs).flatten)).Perm (nonspace (textsOf fs)) := by
  unfold detectLines
  rw [buildLines_nonspace]
  unfold groupIntoLines
  have h1 := flatten_map_perm (orderLine preserve) (orderLine_perm preserve)
    (segment (lineBreak tol) (stableSort (lessY tol) fs) [])
  rw [segment_flatten, List.nil_append] at h1
  exact textsOf_perm (h1.trans (stableSort_perm _ _))

/-- filtering groups does not change how often `f` is counted when every group that holds `f`
is kept -/
theorem sum_count_filter {α : Type} [DecidableEq α] (p : List α → Bool) (L : List (List α)) (f : α)
    (h : ∀ g ∈ L, f ∈ g → p g = true) :
    ((L.filter p).map (List.count f)).sum = (L.map (List.count f)).sum := by
  induction L with
  | nil => rfl
  | cons g L ih =>
    have ih' := ih (fun x hx => h x (List.mem_cons_of_mem _ hx))
    simp only [List.filter_cons]
    cases hp : p g with
    | true => simp only [if_true, List.map_cons, List.sum_cons, ih']
    | false =>
      have hn : f ∉ g := fun hm => by have := h g (by simp) hm; rw [hp] at this; exact Bool.noConfusion this
      simp only [Bool.false_eq_true, if_false, List.map_cons, List.sum_cons, ih', List.count_eq_zero_of_not_mem hn,
        Nat.zero_add]

/-- a group that holds a fragment with visible text has visible text -/
theorem visible_of_mem (g : List Frag) (f : Frag) (hm : f ∈ g) (hv : visible f.text = true) :
    visible (lineText g) = true := by
  cases hc : visible (lineText g) with
  | true => rfl
  | false =>
    have h0 := (visible_false_iff _).mp hc
    rw [nonspace_lineText] at h0
    have hf : nonspace f.text = [] := by
      apply List.eq_nil_iff_forall_not_mem.mpr
      intro c hcm
      have : c ∈ nonspace (textsOf g) := by
        unfold nonspace textsOf at *
        rcases List.mem_filter.mp hcm with ⟨h1, h2⟩
        exact List.mem_filter.mpr ⟨List.mem_flatMap.mpr ⟨f, hm, h1⟩, h2⟩
      rw [h0] at this
      simp at this
    have := (visible_false_iff f.text).mpr hf
    rw [hv] at this
    exact Bool.noConfusion this

/-! ## sections -/

theorem reorderLinesByY_perm (ls : List (List Frag)) : (reorderLinesByY ls).Perm ls :=
  stableSort_perm _ _

theorem orderSections_perm (rtl : Bool) (ss : List Sec) : (orderSections rtl ss).Perm ss :=
  stableSort_perm _ _

theorem mkSection_frags (tolOf : List Frag → Rat) (minW : Rat) (preserve : List Frag → Bool) (sp : Bool)
    (frs : List Frag) : (mkSection tolOf minW preserve sp frs).frags = frs := rfl

/-- the lines of a section show the non-space characters of its fragments -/
theorem mkSection_lines (tolOf : List Frag → Rat) (minW : Rat) (preserve : List Frag → Bool) (sp : Bool)
    (frs : List Frag) :
    (nonspace (textsOf (mkSection tolOf minW preserve sp frs).lines.flatten)).Perm (nonspace (textsOf frs)) := by
  unfold mkSection
  exact (textsOf_perm (reorderLinesByY_perm _).flatten).trans (detectLines_nonspace _ _ _ _)

theorem filter_nonempty_flatten {α : Type} (L : List (List α)) :
    (L.filter (fun c => !c.isEmpty)).flatten = L.flatten := by
  induction L with
  | nil => rfl
  | cons c cs ih =>
    simp only [List.filter_cons]
    cases c with
    | nil => simp [ih]
    | cons a c => simp [ih]

theorem flatMap_frags_map_mkSection (tolOf : List Frag → Rat) (minW : Rat) (preserve : List Frag → Bool)
    (sp : Bool) (L : List (List Frag)) :
    (L.map (mkSection tolOf minW preserve sp)).flatMap (·.frags) = L.flatten := by
  induction L with
  | nil => rfl
  | cons c cs ih => simp only [List.map_cons, List.flatMap_cons, mkSection_frags, List.flatten_cons, ih]

/-- the fragments of the built sections: the spanning group, then the columns -/
theorem buildSections_frags (tolOf : List Frag → Rat) (minW : Rat) (preserve : List Frag → Bool)
    (cl : ColumnLayout) :
    (buildSections tolOf minW preserve cl).flatMap (·.frags) = cl.spanning ++ cl.columns.flatten := by
  unfold buildSections
  rw [List.flatMap_append, flatMap_frags_map_mkSection, filter_nonempty_flatten]
  congr 1
  split
  · rename_i h; rw [(isEmpty_eq_true_iff _).mp h]; rfl
  · simp [mkSection_frags]

/-- invariant of every built section: its lines conserve its fragments' characters -/
def SecOk (s : Sec) : Prop :=
  (nonspace (textsOf s.lines.flatten)).Perm (nonspace (textsOf s.frags))

theorem buildSections_ok (tolOf : List Frag → Rat) (minW : Rat) (preserve : List Frag → Bool)
    (cl : ColumnLayout) : ∀ s ∈ buildSections tolOf minW preserve cl, SecOk s := by
  intro s hs
  unfold buildSections at hs
  rcases List.mem_append.mp hs with h | h
  · split at h
    · simp at h
    · rw [List.mem_singleton] at h; subst h; exact mkSection_lines _ _ _ _ _
  · rcases List.mem_map.mp h with ⟨c, _, rfl⟩
    exact mkSection_lines _ _ _ _ _

theorem secs_lines_nonspace (ss : List Sec) (h : ∀ s ∈ ss, SecOk s) :
    (nonspace (textsOf (ss.flatMap (·.lines)).flatten)).Perm (nonspace (textsOf (ss.flatMap (·.frags)))) := by
  induction ss with
  | nil => exact List.Perm.refl _
  | cons s ss ih =>
    simp only [List.flatMap_cons, List.flatten_append, textsOf_append, nonspace_append]
    exact (h s (by simp)).append (ih fun t ht => h t (List.mem_cons_of_mem _ ht))

theorem readingOrderOf_sections_ok (tolOf : List Frag → Rat) (minW : Rat) (preserve : List Frag → Bool)
    (rtl : Bool) (cl : ColumnLayout) : ∀ s ∈ (readingOrderOf tolOf minW preserve rtl cl).sections, SecOk s := by
  intro s hs
  unfold readingOrderOf at hs
  exact buildSections_ok tolOf minW preserve cl s ((orderSections_perm rtl _).mem_iff.mp hs)

theorem readingOrderOf_fragments (tolOf : List Frag → Rat) (minW : Rat) (preserve : List Frag → Bool)
    (rtl : Bool) (cl : ColumnLayout) :
    (readingOrderOf tolOf minW preserve rtl cl).fragments.Perm cl.all := by
  unfold readingOrderOf ColumnLayout.all
  simp only
  have h := (orderSections_perm rtl (buildSections tolOf minW preserve cl)).flatMap_right (·.frags)
  rw [buildSections_frags] at h
  exact h.trans List.perm_append_comm

theorem readingOrderOf_lines_eq (tolOf : List Frag → Rat) (minW : Rat) (preserve : List Frag → Bool)
    (rtl : Bool) (cl : ColumnLayout) :
    (readingOrderOf tolOf minW preserve rtl cl).lines =
      (readingOrderOf tolOf minW preserve rtl cl).sections.flatMap (·.lines) := rfl

theorem readingOrderOf_fragments_eq (tolOf : List Frag → Rat) (minW : Rat) (preserve : List Frag → Bool)
    (rtl : Bool) (cl : ColumnLayout) :
    (readingOrderOf tolOf minW preserve rtl cl).fragments =
      (readingOrderOf tolOf minW preserve rtl cl).sections.flatMap (·.frags) := rfl

theorem readingOrder_empty (gaps : List Gap) (minCW minW : Rat) (isSpan keep : List Frag → List Frag → Bool)
    (tolOf : List Frag → Rat) (preserve : List Frag → Bool) (rtl : Bool) (fs : List Frag)
    (h : fs.isEmpty = true) :
    readingOrder gaps minCW minW isSpan keep tolOf preserve rtl fs = ⟨[], [], [], 0⟩ := by
  unfold readingOrder; rw [if_pos h]

theorem readingOrder_nonempty (gaps : List Gap) (minCW minW : Rat) (isSpan keep : List Frag → List Frag → Bool)
    (tolOf : List Frag → Rat) (preserve : List Frag → Bool) (rtl : Bool) (fs : List Frag)
    (h : ¬ fs.isEmpty = true) :
    readingOrder gaps minCW minW isSpan keep tolOf preserve rtl fs =
      readingOrderOf tolOf minW preserve rtl (detectColumns gaps minCW isSpan keep fs) := by
  unfold readingOrder; rw [if_neg h]

/-! ## the ByColumn text -/

theorem nonspace_sepLines (p c : List Frag) : nonspace (sepLines p c) = [] := by
  unfold sepLines; split <;> rfl

theorem nonspace_sectionTextAux (p : List Frag) (ls : List (List Frag)) :
    nonspace (sectionTextAux p ls) = nonspace (textsOf ls.flatten) := by
  induction ls generalizing p with
  | nil => rfl
  | cons l ls ih =>
    simp only [sectionTextAux, nonspace_append, nonspace_sepLines, nonspace_trimSpace, nonspace_lineText,
      List.nil_append, ih, List.flatten_cons, textsOf_append]

theorem nonspace_sectionText (ls : List (List Frag)) :
    nonspace (sectionText ls) = nonspace (textsOf ls.flatten) := by
  cases ls with
  | nil => rfl
  | cons l ls =>
    simp only [sectionText, nonspace_append, nonspace_trimSpace, nonspace_lineText, nonspace_sectionTextAux,
      List.flatten_cons, textsOf_append]

theorem nonspace_sectionsTextAux (si : Nat) (acc : Str) (ss : List Sec) :
    nonspace (sectionsTextAux si acc ss) = nonspace acc ++ nonspace (textsOf (ss.flatMap (·.lines)).flatten) := by
  induction ss generalizing si acc with
  | nil => simp [sectionsTextAux, textsOf, nonspace_nil]
  | cons s ss ih =>
    simp only [sectionsTextAux, ih, nonspace_append, nonspace_sectionText, List.flatMap_cons,
      List.flatten_append, textsOf_append, List.append_assoc]
    split <;> simp [nonspace, isSpaceByte]

/-! ## paragraphs -/

theorem nonspace_paragraphText (p : List (List Frag)) :
    nonspace (paragraphText p) = nonspace (textsOf p.flatten) := by
  induction p with
  | nil => rfl
  | cons l ls ih =>
    cases ls with
    | nil => simp [paragraphText, nonspace_lineText]
    | cons l2 ls =>
      simp only [paragraphText, nonspace_append, nonspace_lineText, ih, List.flatten_cons, textsOf_append]
      split <;> simp [nonspace, isSpaceByte]

theorem nonspace_paragraphLayoutText (ps : List (List (List Frag))) :
    nonspace (paragraphLayoutText ps) = nonspace (textsOf ps.flatten.flatten) := by
  induction ps with
  | nil => rfl
  | cons p ps ih =>
    cases ps with
    | nil => simp [paragraphLayoutText, nonspace_paragraphText]
    | cons p2 ps =>
      simp only [paragraphLayoutText, nonspace_append, nonspace_paragraphText, ih, List.flatten_cons,
        List.flatten_append, textsOf_append]
      simp [nonspace, isSpaceByte]

theorem nonspace_withParagraphsText (ps : List (List (List Frag))) :
    nonspace (withParagraphsText ps) = nonspace (textsOf ps.flatten.flatten) := by
  unfold withParagraphsText joinParagraphsText
  rw [nonspace_joinParagraphsAux]
  induction ps with
  | nil => rfl
  | cons p ps ih =>
    simp only [List.map_cons, List.flatten_cons, nonspace_append, List.flatten_append, textsOf_append]
    rw [ih, ← lineTexts_nonspace' p]

theorem detectParagraphs_flatten (brk : List (List Frag) → List Frag → List (List Frag) → Bool)
    (lines : List (List Frag)) : (detectParagraphs brk lines).flatten = lines := by
  simpa [detectParagraphs] using segment_flatten brk lines []

theorem flatMap_paragraphs_flatten
    (brkOf : List (List Frag) → List (List Frag) → List Frag → List (List Frag) → Bool) (ss : List Sec) :
    ((ss.filter (fun s => !s.lines.isEmpty)).flatMap fun s => detectParagraphs (brkOf s.lines) s.lines).flatten =
      ss.flatMap (·.lines) := by
  induction ss with
  | nil => rfl
  | cons s ss ih =>
    simp only [List.filter_cons]
    cases hl : s.lines with
    | nil => simpa [hl] using ih
    | cons l ls =>
      simp only [List.isEmpty_cons, Bool.not_false, if_true, List.flatMap_cons, List.flatten_append,
        detectParagraphs_flatten, ih, hl]

end Tabula.Layout
