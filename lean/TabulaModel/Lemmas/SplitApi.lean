import TabulaModel.Lemmas.Split
import TabulaModel.Lemmas.SplitBound
/-!
Helper lemmas for the deepening round of C13: the choice `findBestBoundaryNear` makes, size
monotonicity for the two units of the size bound.
-/
set_option linter.unusedVariables false
namespace Tabula.Split

/-- the search window of `findBestBoundaryNear` -/
def InWindow (position tolerance : Nat) (b : Boundary) : Prop :=
  position - tolerance ≤ b.pos ∧ b.pos ≤ position + tolerance

/-- one iteration of the loop of `findBestBoundaryNear` -/
def bestStep (minPos maxPos : Nat) (acc : Option Boundary × Int) (b : Boundary) : Option Boundary × Int :=
  if minPos ≤ b.pos ∧ b.pos ≤ maxPos ∧ b.score > acc.2 then (some b, b.score) else acc

theorem findBestBoundaryNear_eq (bs : List Boundary) (position tolerance : Nat) :
    findBestBoundaryNear bs position tolerance
      = (bs.foldl (bestStep (position - tolerance) (position + tolerance)) (none, -1)).1 := rfl

/-- loop invariant: `acc` is the first boundary of highest score (> -1) among `pre` in the window -/
def BestInv (lo hi : Nat) (pre : List Boundary) (acc : Option Boundary × Int) : Prop :=
  -1 ≤ acc.2 ∧ (∀ b ∈ pre, lo ≤ b.pos → b.pos ≤ hi → b.score ≤ acc.2) ∧
    (match acc.1 with
     | none => acc.2 = -1
     | some b => b ∈ pre ∧ lo ≤ b.pos ∧ b.pos ≤ hi ∧ b.score = acc.2 ∧ -1 < b.score)

theorem bestInv_foldl (lo hi : Nat) (bs pre : List Boundary) (acc : Option Boundary × Int)
    (h : BestInv lo hi pre acc) : BestInv lo hi (pre ++ bs) (bs.foldl (bestStep lo hi) acc) := by
  induction bs generalizing pre acc with
  | nil => simpa using h
  | cons b rest ih =>
    have : pre ++ b :: rest = (pre ++ [b]) ++ rest := by simp
    rw [this, List.foldl_cons]
    apply ih
    obtain ⟨h1, h2, h3⟩ := h
    unfold bestStep
    by_cases hc : lo ≤ b.pos ∧ b.pos ≤ hi ∧ b.score > acc.2
    · rw [if_pos hc]
      refine ⟨by simp only; omega, ?_, ?_⟩
      · intro x hx hlo hhi
        rcases List.mem_append.mp hx with hx | hx
        · have := h2 x hx hlo hhi; simp only; omega
        · have : x = b := by simpa using hx
          subst this; exact Int.le_refl _
      · simp only
        exact ⟨by simp, hc.1, hc.2.1, trivial, by omega⟩
    · rw [if_neg hc]
      refine ⟨h1, ?_, ?_⟩
      · intro x hx hlo hhi
        rcases List.mem_append.mp hx with hx | hx
        · exact h2 x hx hlo hhi
        · have : x = b := by simpa using hx
          subst this
          have : ¬ x.score > acc.2 := fun hgt => hc ⟨hlo, hhi, hgt⟩
          omega
      · cases hacc : acc.1 with
        | none => simp only [hacc] at h3 ⊢; exact h3
        | some y =>
          simp only [hacc] at h3 ⊢
          exact ⟨List.mem_append_left _ h3.1, h3.2⟩

/-- **the boundary chosen**: it is one of the given boundaries, lies in `position ± tolerance`,
has a score above -1, and no boundary in the window has a higher score -/
theorem findBestBoundaryNear_some {bs : List Boundary} {position tolerance : Nat} {b : Boundary}
    (h : findBestBoundaryNear bs position tolerance = some b) :
    b ∈ bs ∧ InWindow position tolerance b ∧ -1 < b.score ∧
      ∀ x ∈ bs, InWindow position tolerance x → x.score ≤ b.score := by
  rw [findBestBoundaryNear_eq] at h
  have inv := bestInv_foldl (position - tolerance) (position + tolerance) bs [] (none, -1)
    ⟨Int.le_refl _, by simp, rfl⟩
  obtain ⟨_, h2, h3⟩ := inv
  simp only [List.nil_append] at h2 h3
  rw [h] at h3
  simp only at h3
  obtain ⟨hm, hlo, hhi, hs, hpos⟩ := h3
  refine ⟨hm, ⟨hlo, hhi⟩, hpos, ?_⟩
  intro x hx hw
  rw [hs]
  exact h2 x hx hw.1 hw.2

/-- no boundary chosen: every boundary in the window has a score ≤ -1 -/
theorem findBestBoundaryNear_none {bs : List Boundary} {position tolerance : Nat}
    (h : findBestBoundaryNear bs position tolerance = none) :
    ∀ x ∈ bs, InWindow position tolerance x → x.score ≤ -1 := by
  rw [findBestBoundaryNear_eq] at h
  have inv := bestInv_foldl (position - tolerance) (position + tolerance) bs [] (none, -1)
    ⟨Int.le_refl _, by simp, rfl⟩
  obtain ⟨_, h2, h3⟩ := inv
  simp only [List.nil_append] at h2 h3
  rw [h] at h3
  simp only at h3
  intro x hx hw
  rw [← h3]
  exact h2 x hx hw.1 hw.2

/-- characters and tokens are monotone in the byte length -/
theorem getSize_mono {c : SizeConfig} {s t : Str} {u : SizeUnit}
    (hunit : u = .characters ∨ u = .tokens) (hl : s.length ≤ t.length) :
    getSize c s u ≤ getSize c t u := by
  rcases hunit with h | h <;> subst h <;> simp only [getSize, estimateTokens]
  · exact hl
  · exact Nat.div_le_div_right (Nat.mul_le_mul_right _ hl)

theorem findSplitPointAt_no_sem (c : SizeConfig) (hs : c.sem = false) (text : Str)
    (bs : List Boundary) (limit : Nat) (u : SizeUnit) :
    findSplitPointAt c text bs limit u = findSplitPointAt c text [] limit u := by
  unfold findSplitPointAt
  simp [hs]

/-- with `SplitAtSemanticBoundaries` off the boundaries play no role at all -/
theorem splitToSize_no_sem (c : SizeConfig) (hs : c.sem = false) (text : Str) (bs : List Boundary) :
    splitToSize c text bs = splitToSize c text [] := by
  generalize hn : text.length = n
  induction n using Nat.strongRecOn generalizing text bs with
  | _ n ih =>
    rw [splitToSize.eq_1 c text bs, splitToSize.eq_1 c text []]
    rw [findSplitPointAt_no_sem c hs text bs]
    by_cases h0 : text.length = 0
    · simp [h0]
    · simp only [h0, if_false]
      by_cases hmax : (!isAboveMax c text) = true
      · simp [hmax]
      · simp only [hmax, if_false]
        by_cases hsp : findSplitPointAt c text [] c.maxValue c.maxUnit = 0 ∨
            findSplitPointAt c text [] c.maxValue c.maxUnit ≥ text.length
        · simp [hsp]
        · simp only [hsp, dite_false]
          have hl := trimSpace_length_le (text.drop (findSplitPointAt c text [] c.maxValue c.maxUnit))
          simp only [List.length_drop] at hl
          have hlt : (trimSpace (text.drop (findSplitPointAt c text [] c.maxValue c.maxUnit))).length < n := by
            omega
          rw [ih _ hlt _ (adjustBoundaryPositions bs _) rfl, ih _ hlt _ (adjustBoundaryPositions [] _) rfl]

end Tabula.Split
