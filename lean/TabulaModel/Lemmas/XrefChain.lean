import TabulaModel.Model.XrefFile
/-!
The `/Prev` chain on the bytes (`ParseAllXRefs`, `loadXRef`): the sections come out oldest
first, each once; the fuel of the model's loop is never used up.
-/
namespace Tabula.XrefFile

theorem getLastI_append {α : Type} (a b : List (Int × α)) (n : Int) :
    getLastI (a ++ b) n = (getLastI b n).or (getLastI a n) := by
  induction a with
  | nil => cases h : getLastI b n <;> simp [getLastI, h]
  | cons kv a ih =>
    obtain ⟨k, v⟩ := kv
    simp only [List.cons_append, getLastI, ih]
    cases hb : getLastI b n with
    | some w => simp
    | none => simp

/-- the newest (last) section of an oldest-first list that mentions `n` decides -/
def newestI : List RawSection → Int → Option RawEntry
  | [], _ => none
  | t :: ts, n => (newestI ts n).or (getLastI t n)

theorem getLastI_flatten (ts : List RawSection) (n : Int) : getLastI ts.flatten n = newestI ts n := by
  induction ts with
  | nil => rfl
  | cons t ts ih => simp [List.flatten_cons, getLastI_append, newestI, ih]

/-- a section can only be read at an offset inside the file -/
theorem parseXRef_ok_range (ext : Reader.Ext) (file : Str) (off : Int) (r : RawSection × Reader.Dict)
    (h : parseXRef ext file off = .ok r) : 0 ≤ off ∧ off < file.length := by
  unfold parseXRef at h
  by_cases hneg : off < 0
  · simp [hneg] at h
  · simp only [hneg, if_false] at h
    refine ⟨by omega, ?_⟩
    by_cases hlt : off < file.length
    · exact hlt
    · exfalso
      have hd : file.drop off.toNat = [] := by
        apply List.drop_eq_nil_of_le; omega
      rw [hd] at h
      simp [linesOf, scanLines, splitLine] at h

theorem length_le_of_range (l : List Int) (L : Nat) (hnd : l.Nodup) (hr : ∀ x ∈ l, 0 ≤ x ∧ x < L) :
    l.length ≤ L := by
  have hsub : l ⊆ (List.range L).map Int.ofNat := by
    intro x hx
    obtain ⟨h0, h1⟩ := hr x hx
    simp only [List.mem_map, List.mem_range]
    exact ⟨x.toNat, by omega, by simp; omega⟩
  have := List.Nodup.length_le_of_subset hnd hsub
  simpa using this

/-- `path` is the `/Prev` chain of sections that starts at offset `off` and ends at a section
whose trailer has no `/Prev` -/
inductive ChainB (ext : Reader.Ext) (file : Str) : Int → List (Int × RawSection) → Prop
  | last (off : Int) (sec : RawSection) (tr : Reader.Dict) :
      parseXRef ext file off = .ok (sec, tr) → prevOf tr = .absent → ChainB ext file off [(off, sec)]
  | step (off : Int) (sec : RawSection) (tr : Reader.Dict) (p : Int) (rest : List (Int × RawSection)) :
      parseXRef ext file off = .ok (sec, tr) → prevOf tr = .at p → ChainB ext file p rest →
      ChainB ext file off ((off, sec) :: rest)

theorem ChainB.range {ext : Reader.Ext} {file : Str} {off : Int} {path : List (Int × RawSection)}
    (h : ChainB ext file off path) : ∀ x ∈ path.map Prod.fst, 0 ≤ x ∧ x < file.length := by
  induction h with
  | last off sec tr hp _ =>
    intro x hx; simp at hx; subst hx; exact parseXRef_ok_range ext file _ _ hp
  | step off sec tr p rest hp _ _ ih =>
    intro x hx
    simp only [List.map_cons, List.mem_cons] at hx
    rcases hx with rfl | hx
    · exact parseXRef_ok_range ext file _ _ hp
    · exact ih x hx

theorem ChainB.ne_nil {ext : Reader.Ext} {file : Str} {off : Int} {path : List (Int × RawSection)}
    (h : ChainB ext file off path) : path ≠ [] := by
  cases h <;> simp

/-- the loop of `ParseAllXRefs` from a trailer whose `/Prev` starts the chain `path` -/
theorem allXRefsLoop_chain (ext : Reader.Ext) (file : Str) (off : Int) (path : List (Int × RawSection))
    (h : ChainB ext file off path) :
    ∀ (fuel : Nat) (visited : List Int) (tr0 : Reader.Dict) (acc : List RawSection),
      prevOf tr0 = .at off → path.length < fuel → (path.map Prod.fst).Nodup →
      (∀ x ∈ path.map Prod.fst, x ∉ visited) →
      allXRefsLoop ext file fuel visited tr0 acc = .ok ((path.map Prod.snd).reverse ++ acc) := by
  induction h with
  | last off sec tr hp habs =>
    intro fuel visited tr0 acc h0 hf _ hv
    cases fuel with
    | zero => simp at hf
    | succ fuel =>
      cases fuel with
      | zero => simp at hf
      | succ fuel =>
        have hmem : off ∉ visited := hv off (by simp)
        simp [allXRefsLoop, h0, hmem, hp, habs]
  | step off sec tr p rest hp hprev _ ih =>
    intro fuel visited tr0 acc h0 hf hnd hv
    cases fuel with
    | zero => simp at hf
    | succ fuel =>
      have hmem : off ∉ visited := hv off (by simp)
      simp only [List.map_cons, List.nodup_cons] at hnd
      have hrec := ih fuel (off :: visited) tr (sec :: acc) hprev (by simp at hf; omega) hnd.2 (by
        intro x hx
        simp only [List.mem_cons, not_or]
        refine ⟨?_, hv x (by simp [hx])⟩
        intro e; subst e; exact hnd.1 hx)
      simp [allXRefsLoop, h0, hmem, hp, hrec]

end Tabula.XrefFile

namespace Tabula.XrefFile

/-- the loop of `ParseAllXRefs` never needs more rounds than the file has bytes: with the
offsets read so far distinct and inside the file, any two fuel values above the number of
offsets still unread give the same result -/
theorem allXRefsLoop_fuel (ext : Reader.Ext) (file : Str) :
    ∀ (f1 f2 : Nat) (visited : List Int) (tr : Reader.Dict) (acc : List RawSection),
      visited.Nodup → (∀ x ∈ visited, 0 ≤ x ∧ x < file.length) →
      file.length - visited.length < f1 → file.length - visited.length < f2 →
      allXRefsLoop ext file f1 visited tr acc = allXRefsLoop ext file f2 visited tr acc := by
  intro f1
  induction f1 with
  | zero => intro f2 visited tr acc _ _ h1 _; omega
  | succ f1 ih =>
    intro f2 visited tr acc hnd hr h1 h2
    cases f2 with
    | zero => omega
    | succ f2 =>
      simp only [allXRefsLoop]
      cases hp : prevOf tr with
      | absent => rfl
      | bad => rfl
      | «at» p =>
        simp only
        by_cases hv : visited.contains p = true
        · simp only [hv, if_true]
        · simp only [hv, if_false]
          cases hx : parseXRef ext file p with
          | error e => rfl
          | ok r =>
            obtain ⟨sec, tr'⟩ := r
            simp only
            have hin := parseXRef_ok_range ext file p _ hx
            have hnot : p ∉ visited := by simpa using hv
            have hnd' : (p :: visited).Nodup := List.nodup_cons.mpr ⟨hnot, hnd⟩
            have hr' : ∀ x ∈ p :: visited, 0 ≤ x ∧ x < file.length := by
              intro x hx'
              simp only [List.mem_cons] at hx'
              rcases hx' with rfl | hx'
              · exact hin
              · exact hr x hx'
            have hlen := length_le_of_range (p :: visited) file.length hnd' hr'
            simp only [List.length_cons] at hlen
            exact ih f2 (p :: visited) tr' (sec :: acc) hnd' hr' (by simp only [List.length_cons]; omega)
              (by simp only [List.length_cons]; omega)

end Tabula.XrefFile
