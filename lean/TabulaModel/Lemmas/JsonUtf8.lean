import TabulaModel.Lemmas.ExportJson
/-!
The JSON text of `Model/Json.lean`'s writer is well-formed UTF-8 (for `Props/C14Statement.lean`).
-/
set_option linter.unusedSimpArgs false
namespace Tabula.Json
open Tabula.Split

theorem validUtf8_ascii' (s : Str) (h : ∀ c ∈ s, c < 128) : validUtf8 s = true :=
  Tabula.Export.validUtf8_ascii s h

theorem escByte_ascii (b : Nat) (hb : b < 128) : ∀ c ∈ escByte b, c < 128 := by
  unfold escByte
  repeat' split
  all_goals first
    | (intro c hc; simp only [List.mem_cons, List.not_mem_nil, or_false] at hc; omega)
    | skip
  all_goals
    intro c hc
    simp only [List.mem_cons, List.not_mem_nil, or_false, hexDigit] at hc
    rcases hc with h | h | h | h | h | h
    all_goals first | omega | (subst h; split <;> omega)

/-- what `appendString` writes between the quotes is well-formed UTF-8, for EVERY input -/
theorem escBody_valid (s : Str) : validUtf8 (escBody s) = true := by
  induction hn : s.length using Nat.strongRecOn generalizing s with
  | _ n ih =>
    cases s with
    | nil => rw [escBody]; exact validUtf8_nil
    | cons b rest =>
      rw [escBody]
      simp only [List.length_cons] at hn
      have hrest : validUtf8 (escBody rest) = true := ih rest.length (by omega) rest rfl
      have hdrop : ∀ k, 0 < k → validUtf8 (escBody ((b :: rest).drop k)) = true := by
        intro k hk
        exact ih _ (by simp only [List.length_drop, List.length_cons]; omega) _ rfl
      split
      · rename_i hb
        exact validUtf8_append _ _ (validUtf8_ascii' _ (escByte_ascii b hb)) hrest
      · split
        · exact validUtf8_append _ _ (validUtf8_ascii' _ (by decide)) hrest
        · rename_i h0
          split
          · exact validUtf8_append _ _ (validUtf8_ascii' _ (by decide)) (hdrop 3 (by omega))
          · split
            · exact validUtf8_append _ _ (validUtf8_ascii' _ (by decide)) (hdrop 3 (by omega))
            · exact validUtf8_append _ _ (validUtf8_take_charLen _ h0) (hdrop _ (by omega))

theorem validUtf8_cons_ascii (c : Nat) (s : Str) (hc : c < 128) (hs : validUtf8 s = true) : validUtf8 (c :: s) = true :=
  validUtf8_append [c] s (validUtf8_ascii' [c] (by simpa using hc)) hs

theorem quote_valid (s : Str) : validUtf8 (quote s) = true := by
  unfold quote
  exact validUtf8_cons_ascii 34 _ (by decide) (validUtf8_append _ _ (escBody_valid s) (validUtf8_ascii' [34] (by decide)))

/-- a layout inserts ASCII only -/
structure StyleAscii (st : Style) : Prop where
  nl : ∀ d, ∀ c ∈ st.nl d, c < 128
  sp : ∀ c ∈ st.sp, c < 128

theorem styleAscii_of_ws (st : Style) (h : StyleWs st) : StyleAscii st := by
  constructor
  · intro d c hc
    have := h.nl d c hc
    revert this
    simp only [isWs, Bool.or_eq_true, beq_iff_eq]
    omega
  · intro c hc
    have := h.sp c hc
    revert this
    simp only [isWs, Bool.or_eq_true, beq_iff_eq]
    omega

theorem numChars_ascii {raw : Str} (h : raw.all isNumChar = true) : ∀ c ∈ raw, c < 128 := by
  intro c hc
  have := List.all_eq_true.mp h c hc
  revert this
  simp only [isNumChar, isDigit, Bool.or_eq_true, Bool.and_eq_true, decide_eq_true_eq, beq_iff_eq]
  omega

theorem writeElems_valid (st : Style) (hst : StyleAscii st) (d : Nat) (xs : List J)
    (h : ∀ x ∈ xs, validUtf8 (write st d x) = true) : validUtf8 (writeElems st d xs) = true := by
  induction xs with
  | nil => exact validUtf8_nil
  | cons y ys ih =>
    simp only [writeElems]
    exact validUtf8_cons_ascii 44 _ (by decide) (validUtf8_append _ _ (validUtf8_append _ _ (validUtf8_ascii' _ (hst.nl d)) (h y (by simp)))
      (ih (fun x hx => h x (List.mem_cons_of_mem _ hx))))

theorem writeMembers_valid (st : Style) (hst : StyleAscii st) (d : Nat) (ms : List (Str × J))
    (h : ∀ p ∈ ms, validUtf8 (write st d p.2) = true) : validUtf8 (writeMembers st d ms) = true := by
  induction ms with
  | nil => exact validUtf8_nil
  | cons q qs ih =>
    obtain ⟨k, v⟩ := q
    simp only [writeMembers]
    refine validUtf8_cons_ascii 44 _ (by decide) ?_
    refine validUtf8_append _ _ ?_ (ih (fun x hx => h x (List.mem_cons_of_mem _ hx)))
    refine validUtf8_append _ _ ?_ (h (k, v) (by simp))
    refine validUtf8_append _ _ (validUtf8_append _ _ (validUtf8_ascii' _ (hst.nl d)) (quote_valid k)) ?_
    exact validUtf8_cons_ascii 58 _ (by decide) (validUtf8_ascii' _ hst.sp)

/-- THE TEXT IS UTF-8: every value whose number tokens are number characters is written as
well-formed UTF-8, whatever bytes its strings and keys contain (ill-formed ones are replaced by the writer). -/
theorem write_valid (st : Style) (hst : StyleAscii st) (v : J) :
    wf v = true → ∀ d, validUtf8 (write st d v) = true := by
  refine J.ind' (fun v => wf v = true → ∀ d, validUtf8 (write st d v) = true) ?_ ?_ ?_ ?_ ?_ ?_ v
  · intro _ d; exact validUtf8_ascii' kNull (by decide)
  · intro b _ d; cases b
    · exact validUtf8_ascii' kFalse (by decide)
    · exact validUtf8_ascii' kTrue (by decide)
  · intro raw hw d
    simp only [wf, Bool.and_eq_true] at hw
    exact validUtf8_ascii' _ (numChars_ascii hw.2)
  · intro s _ d; exact quote_valid s
  · intro l ih hw d
    simp only [wf] at hw
    have hmem := wfList_mem hw
    cases l with
    | nil => exact validUtf8_ascii' [91, 93] (by decide)
    | cons x xs =>
      simp only [write]
      refine validUtf8_cons_ascii 91 _ (by decide) ?_
      refine validUtf8_append _ _ ?_ (validUtf8_ascii' [93] (by decide))
      refine validUtf8_append _ _ ?_ (validUtf8_ascii' _ (hst.nl d))
      refine validUtf8_append _ _ ?_ (writeElems_valid st hst (d + 1) xs
        (fun y hy => ih y (List.mem_cons_of_mem _ hy) (hmem y (List.mem_cons_of_mem _ hy)) (d + 1)))
      exact validUtf8_append _ _ (validUtf8_ascii' _ (hst.nl (d + 1))) (ih x (by simp) (hmem x (by simp)) (d + 1))
  · intro ms ih hw d
    simp only [wf] at hw
    have hmem := wfMembers_mem hw
    cases ms with
    | nil => exact validUtf8_ascii' [123, 125] (by decide)
    | cons p ps =>
      obtain ⟨k, v'⟩ := p
      simp only [write]
      refine validUtf8_cons_ascii 123 _ (by decide) ?_
      refine validUtf8_append _ _ ?_ (validUtf8_ascii' [125] (by decide))
      refine validUtf8_append _ _ ?_ (validUtf8_ascii' _ (hst.nl d))
      refine validUtf8_append _ _ ?_ (writeMembers_valid st hst (d + 1) ps
        (fun y hy => ih y (List.mem_cons_of_mem _ hy) (hmem y (List.mem_cons_of_mem _ hy)).2 (d + 1)))
      refine validUtf8_append _ _ ?_ (ih (k, v') (by simp) (hmem (k, v') (by simp)).2 (d + 1))
      refine validUtf8_append _ _ (validUtf8_append _ _ (validUtf8_ascii' _ (hst.nl (d + 1))) (quote_valid k)) ?_
      exact validUtf8_cons_ascii 58 _ (by decide) (validUtf8_ascii' _ hst.sp)

theorem encode_valid (pretty : Bool) (v : J) (hw : wf v = true) : validUtf8 (encode pretty v) = true := by
  unfold encode
  cases pretty with
  | true => exact validUtf8_append _ _ (write_valid indent2 (styleAscii_of_ws _ indent2_ws) v hw 0) (validUtf8_ascii' [10] (by decide))
  | false => exact validUtf8_append _ _ (write_valid compact (styleAscii_of_ws _ compact_ws) v hw 0) (validUtf8_ascii' [10] (by decide))

theorem validUtf8_flatMap {α : Type} (f : α → Str) (l : List α) (h : ∀ a ∈ l, validUtf8 (f a) = true) :
    validUtf8 (l.flatMap f) = true := by
  induction l with
  | nil => exact validUtf8_nil
  | cons a rest ih =>
    simp only [List.flatMap_cons]
    exact validUtf8_append _ _ (h a (by simp)) (ih (fun x hx => h x (List.mem_cons_of_mem _ hx)))

end Tabula.Json
