import TabulaModel.Model.Drm
import TabulaModel.Lemmas.Detect
/-!
Helper lemmas about `Model/Drm.lean`: the two loops are `List.any`s, so the
decision is a property of the multiset of members / entries.
-/
set_option autoImplicit false
namespace Tabula.Drm
open Tabula.Detect

/-- `isContentFile` looks at the lower-cased URI only -/
theorem isContentFile_lower (u : Str) : isContentFile (lower u) = isContentFile u := by
  unfold isContentFile
  rw [lower_idem]

theorem isContentFile_case {u u' : Str} (h : lower u = lower u') :
    isContentFile u = isContentFile u' := by
  unfold isContentFile
  rw [h]

/-- an entry that makes `hasEncryptedContent` answer true -/
def entryBad (e : Entry) : Bool := !isFontObfuscation e.algorithm && isContentFile e.uri

theorem hasEncryptedContent_eq_any (es : List Entry) :
    hasEncryptedContent es = es.any entryBad := by
  induction es with
  | nil => rfl
  | cons e rest ih =>
    rw [hasEncryptedContent, List.any_cons, ih, entryBad, isContentFile_lower]
    cases isFontObfuscation e.algorithm <;> cases isContentFile e.uri <;> simp

/-- a member that makes `checkForDRM` answer true -/
def memberBad : DMember → Bool
  | .rights => true
  | .encryption none => true
  | .encryption (some es) => hasEncryptedContent es
  | .other => false

theorem checkForDRM_eq_any (ms : List DMember) : checkForDRM ms = ms.any memberBad := by
  induction ms with
  | nil => rfl
  | cons m rest ih =>
    cases m with
    | rights => simp [checkForDRM, memberBad]
    | other => simp [checkForDRM, memberBad, ih]
    | encryption p =>
      cases p with
      | none => simp [checkForDRM, memberBad]
      | some es =>
        rw [checkForDRM, List.any_cons, ih, memberBad]
        cases hasEncryptedContent es <;> simp

end Tabula.Drm
