import TabulaModel.Lemmas.PdfNumLex
import TabulaModel.Lemmas.PdfBound
/-!
The two parsers of PDF object syntax - the document-level parser of core/parser.go (over the lexer
of core/lexer.go) and the operand parser of contentstream/parser.go - agree on EVERY byte string on
which both succeed: same value, same place in the input.  The only exception is the indirect
reference `n g R`, which content streams do not have: there the document-level parser returns the
reference and the content-stream parser reads the first integer (and inside an array or a dictionary
it then fails).  Core Lean only.
-/
namespace Tabula.Pdf
namespace Agree
open Prog
open Tabula.A1 (atoi)

/-! ### the first token, by the class of its first byte -/

theorem tok_nil : tok [] = some (.eof, []) := rfl

/-- the bytes `contentstream.parseOperand` sends to `parseNumber` -/
def NumStart (c : Nat) : Prop := c = 45 ∨ c = 43 ∨ c = 46 ∨ isDigit c = true

theorem numStart_ne {c : Nat} (h : NumStart c) :
    c ≠ 37 ∧ c ≠ 91 ∧ c ≠ 93 ∧ c ≠ 40 ∧ c ≠ 60 ∧ c ≠ 62 ∧ c ≠ 47 ∧ c ≠ 82 := by
  unfold NumStart at h
  simp only [isDigit, Bool.and_eq_true, decide_eq_true_eq] at h
  omega

theorem dispatch_num {c : Nat} (x : Str) (h : NumStart c) :
    Tok.dispatch c x =
      some (if (numLoop false true (c :: x)).2.1 then .real (numLoop false true (c :: x)).1
            else .integer (numLoop false true (c :: x)).1, (numLoop false true (c :: x)).2.2) := by
  obtain ⟨h37, h91, h93, h40, h60, h62, h47, _⟩ := numStart_ne h
  have hn : (isDigit c || c = 45 || c = 43 || c = 46) = true := by
    rcases h with h | h | h | h <;> simp [h]
  simp only [Tok.dispatch, h37, h91, h93, h40, h60, h62, h47, if_false, hn, if_true]

theorem dispatch_str (x : Str) :
    Tok.dispatch 40 x = (match strLoop 1 x with
      | none => none
      | some (v, r') => some (.str v, r')) := rfl

theorem dispatch_name (x : Str) :
    Tok.dispatch 47 x = (match nameLoop x with
      | none => none
      | some (v, r') => some (.name v, r')) := rfl

theorem dispatch_arrStart (x : Str) : Tok.dispatch 91 x = some (.arrStart, x) := rfl
theorem dispatch_arrEnd (x : Str) : Tok.dispatch 93 x = some (.arrEnd, x) := rfl
theorem dispatch_dictStart (x : Str) : Tok.dispatch 60 (60 :: x) = some (.dictStart, x) := rfl
theorem dispatch_dictEnd (x : Str) : Tok.dispatch 62 (62 :: x) = some (.dictEnd, x) := rfl

theorem dispatch_hexstr (x : Str) (h : x.head? ≠ some 60) :
    Tok.dispatch 60 x = (match hexLoop x with
      | none => none
      | some (v, r') => some (.hexstr v, r')) := by
  cases x with
  | nil => rfl
  | cons y x' =>
    have hy : y ≠ 60 := by intro e; subst e; exact h rfl
    simp only [Tok.dispatch]
    simp [hy]
    cases hexLoop (y :: x') <;> rfl

theorem isAlpha_facts {c : Nat} (h : isAlpha c = true) :
    c ≠ 37 ∧ c ≠ 91 ∧ c ≠ 93 ∧ c ≠ 40 ∧ c ≠ 60 ∧ c ≠ 62 ∧ c ≠ 47 ∧ ¬ NumStart c := by
  unfold NumStart
  simp only [isAlpha, isDigit, Bool.or_eq_true, Bool.and_eq_true, decide_eq_true_eq] at h ⊢
  omega

theorem takeWhile_alnum_cons {c : Nat} (x : Str) (h : isAlpha c = true) :
    (c :: x).takeWhile isAlnum = c :: x.takeWhile isAlnum := by
  rw [List.takeWhile_cons, if_pos (isAlpha_alnum h)]

/-- what the lexer makes of a letter -/
theorem dispatch_alpha {c : Nat} (x : Str) (h : isAlpha c = true) :
    Tok.dispatch c x =
      some (if (c :: x).takeWhile isAlnum = [82] then .ref else .keyword ((c :: x).takeWhile isAlnum),
        (c :: x).dropWhile isAlnum) := Tok.dispatch_alpha c x h

/-! inversions: which first byte a given token can have -/

theorem dispatch_arrEnd_inv (c : Nat) (x r : Str) (h : Tok.dispatch c x = some (.arrEnd, r)) : c = 93 := by
  unfold Tok.dispatch at h
  repeat' split at h
  all_goals first | assumption | cases h | (dsimp only at h; split at h <;> cases h)

theorem dispatch_integer_inv (c : Nat) (x v r : Str) (h : Tok.dispatch c x = some (.integer v, r)) :
    NumStart c := by
  unfold Tok.dispatch at h
  repeat' split at h
  all_goals first | cases h | skip
  next hb =>
    unfold NumStart
    simp only [Bool.or_eq_true, decide_eq_true_eq] at hb
    rcases hb with ((hb | hb) | hb) | hb
    · exact Or.inr (Or.inr (Or.inr hb))
    · exact Or.inl hb
    · exact Or.inr (Or.inl hb)
    · exact Or.inr (Or.inr (Or.inl hb))
  next => dsimp only at h; split at h <;> cases h

theorem dispatch_ref_inv (c : Nat) (x r : Str) (h : Tok.dispatch c x = some (.ref, r)) : c = 82 := by
  unfold Tok.dispatch at h
  repeat' split at h
  all_goals first | cases h | skip
  next => dsimp only at h; split at h <;> cases h
  next ha =>
    dsimp only at h
    rw [takeWhile_alnum_cons x ha] at h
    split at h
    · next e => simp only [List.cons.injEq] at e; exact e.1
    · cases h

/-! ### the window of the document-level parser -/

theorem core_obj_tok_none (f d : Nat) (inp : Str) (h : tok inp = none) (a : Obj) (s' : PState) :
    parseObject f d (stateAt inp) ≠ .ok (a, s') := by
  rw [stateAt_tok_none inp h]
  cases f <;> simp [parseObject]

theorem core_arr_tok_none (f d : Nat) (inp : Str) (h : tok inp = none) (acc : List Obj) (a : Obj) (s' : PState) :
    parseArray f d (stateAt inp) acc ≠ .ok (a, s') := by
  rw [stateAt_tok_none inp h]
  cases f <;> simp [parseArray]

theorem core_dict_tok_none (f d : Nat) (inp : Str) (h : tok inp = none) (acc : List (Str × Obj)) (a : Obj)
    (s' : PState) : parseDict f d (stateAt inp) acc ≠ .ok (a, s') := by
  rw [stateAt_tok_none inp h]
  cases f <;> simp [parseDict]

/-- a real token in the lookahead slot is the first token of what the current token left unread -/
theorem peek_tok {inp r1 : Str} {t t2 : Token} (h : tok inp = some (t, r1)) (hs : t ≠ .keyword kwStream)
    (hp : (stateAt inp).peek = some t2) (h2 : t2 ≠ .eof) : ∃ r2, tok r1 = some (t2, r2) := by
  rw [stateAt_peek inp t r1 h hs] at hp
  rcases stateAt_cur_cases r1 with ⟨_, hc, _⟩ | ⟨t', r', ht, hc⟩
  · rw [hc] at hp; cases hp; exact absurd rfl h2
  · rw [hc] at hp; cases hp; exact ⟨r', ht⟩

/-- `(*Parser).parseNumber` on a text that is an integer: the integer, one token consumed - or a
reference, seen in the two lookahead tokens -/
theorem parseNumber_cases (s : PState) (v : Str) (n : Int) (o : Obj) (s' : PState) (ha : atoi v = some n)
    (h : parseNumber s v = .ok (o, s')) :
    (o = .int n ∧ s' = s.next) ∨
    (∃ v2 g, s.peek = some (.integer v2) ∧ s.next.peek = some .ref ∧ o = .ref n g) := by
  unfold parseNumber at h
  rw [ha] at h
  dsimp only at h
  split at h
  · next v2 hp =>
    split at h
    · next g hg =>
      split at h
      · next hr => cases h; exact Or.inr ⟨v2, g, hp, hr, rfl⟩
      · cases h; exact Or.inl ⟨rfl, rfl⟩
    · cases h; exact Or.inl ⟨rfl, rfl⟩
  · cases h; exact Or.inl ⟨rfl, rfl⟩

/-- the exception: the document-level parser read `n g R`, the content-stream parser the integer `n` -/
def RefCase (inp : Str) (a b : Obj) (r : Str) : Prop :=
  ∃ n g va vb r2 r3, a = .ref n g ∧ b = .int n ∧ tok inp = some (.integer va, r) ∧
    tok r = some (.integer vb, r2) ∧ tok r2 = some (.ref, r3)

/-! ### scalars: one step of both parsers on the same bytes -/

theorem num_step (f d : Nat) (inp : Str) (c : Nat) (x : Str) (a : Obj) (s' : PState) (b : Obj) (r : Str)
    (hs : CS.skipSpace inp = c :: x) (hc : NumStart c)
    (h1 : parseObject (f + 1) d (stateAt inp) = .ok (a, s')) (h2 : CS.parseNumber (c :: x) = some (b, r)) :
    RefCase inp a b r ∨ (a = b ∧ s' = stateAt r) := by
  have htk := (tok_of_skipSpace inp).2 c x hs
  rw [dispatch_num x hc] at htk
  rw [cs_parseNumber_lexeme c x hc] at h2
  generalize numLoop false true (c :: x) = p at htk h2
  obtain ⟨text, hasDec, r1⟩ := p
  dsimp only at htk h2
  cases hasDec with
  | true =>
    simp only [if_true] at htk h2
    have hcur := stateAt_cur_tok inp _ r1 htk
    have hnext := stateAt_next_tok inp _ r1 htk (by simp)
    rw [parseObject, hcur] at h1
    dsimp only at h1
    cases hpr : parseReal text with
    | none => rw [hpr] at h2; cases h2
    | some o =>
      rw [hpr] at h1 h2
      dsimp only at h1 h2
      cases h1; cases h2
      exact Or.inr ⟨rfl, hnext⟩
  | false =>
    simp only [Bool.false_eq_true, if_false] at htk h2
    have hcur := stateAt_cur_tok inp _ r1 htk
    have hnext := stateAt_next_tok inp _ r1 htk (by simp)
    rw [parseObject, hcur] at h1
    dsimp only at h1
    cases hat : atoi text with
    | none => rw [hat] at h2; cases h2
    | some n =>
      rw [hat] at h2
      dsimp only at h2
      cases h2
      rcases parseNumber_cases _ _ n _ _ hat h1 with ⟨ha, hs'⟩ | ⟨v2, g, hp, hr, ha⟩
      · right; rw [ha, hs', hnext]; exact ⟨rfl, rfl⟩
      · left
        obtain ⟨r2, ht2⟩ := peek_tok htk (by simp) hp (by simp)
        rw [hnext] at hr
        obtain ⟨r3, ht3⟩ := peek_tok ht2 (by simp) hr (by simp)
        exact ⟨n, g, text, v2, r2, r3, ha, rfl, htk, ht2, ht3⟩

theorem str_step (f d : Nat) (inp x : Str) (a : Obj) (s' : PState) (v r : Str)
    (hs : CS.skipSpace inp = 40 :: x) (h1 : parseObject (f + 1) d (stateAt inp) = .ok (a, s'))
    (h2 : CS.strLoop 1 x = some (v, r)) : a = .str v ∧ s' = stateAt r := by
  have htk := (tok_of_skipSpace inp).2 40 x hs
  rw [dispatch_str, ← cs_strLoop_eq, h2] at htk
  dsimp only at htk
  have hcur := stateAt_cur_tok inp _ r htk
  have hnext := stateAt_next_tok inp _ r htk (by simp)
  rw [parseObject, hcur] at h1
  dsimp only at h1
  cases h1
  exact ⟨rfl, hnext⟩

theorem hex_step (f d : Nat) (inp x : Str) (a : Obj) (s' : PState) (v r : Str)
    (hs : CS.skipSpace inp = 60 :: x) (hx : x.head? ≠ some 60)
    (h1 : parseObject (f + 1) d (stateAt inp) = .ok (a, s'))
    (h2 : CS.hexLoop x = some (v, r)) : a = .str v ∧ s' = stateAt r := by
  have htk := (tok_of_skipSpace inp).2 60 x hs
  rw [dispatch_hexstr x hx] at htk
  cases hh : hexLoop x with
  | none =>
    rw [hh] at htk
    exact absurd h1 (core_obj_tok_none _ _ inp htk a s')
  | some q =>
    obtain ⟨ds, r1⟩ := q
    rw [hh] at htk
    dsimp only at htk
    have e := cs_hexLoop_agree x ds r1 hh
    rw [h2] at e
    cases e
    have hcur := stateAt_cur_tok inp _ r htk
    have hnext := stateAt_next_tok inp _ r htk (by simp)
    rw [parseObject, hcur] at h1
    dsimp only at h1
    cases h1
    exact ⟨rfl, hnext⟩

theorem name_tok (inp x : Str) (hs : CS.skipSpace inp = 47 :: x) (hne : tok inp ≠ none) :
    tok inp = some (.name (CS.nameLoop x).1, (CS.nameLoop x).2) := by
  have htk := (tok_of_skipSpace inp).2 47 x hs
  rw [dispatch_name] at htk
  cases hh : nameLoop x with
  | none => rw [hh] at htk; exact absurd htk hne
  | some q =>
    obtain ⟨k, r1⟩ := q
    rw [hh] at htk
    dsimp only at htk
    rw [cs_nameLoop_agree x k r1 hh]
    exact htk

theorem name_step (f d : Nat) (inp x : Str) (a : Obj) (s' : PState)
    (hs : CS.skipSpace inp = 47 :: x) (h1 : parseObject (f + 1) d (stateAt inp) = .ok (a, s')) :
    a = .name (CS.nameLoop x).1 ∧ s' = stateAt (CS.nameLoop x).2 := by
  have hne : tok inp ≠ none := fun h => core_obj_tok_none _ _ inp h a s' h1
  have htk := name_tok inp x hs hne
  have hcur := stateAt_cur_tok inp _ _ htk
  have hnext := stateAt_next_tok inp _ _ htk (by simp)
  rw [parseObject, hcur] at h1
  dsimp only at h1
  cases h1
  exact ⟨rfl, hnext⟩

theorem dropWhile_eq_drop (p : Nat → Bool) (l : Str) : l.dropWhile p = l.drop (l.takeWhile p).length := by
  induction l with
  | nil => rfl
  | cons a l ih =>
    rw [List.dropWhile_cons, List.takeWhile_cons]
    split <;> simp [ih]

/-- `true`, `false`, `null`: when both parsers accept the word they mean the same word -/
theorem kw_tok (f d : Nat) (inp : Str) (c : Nat) (x kw : Str) (a : Obj) (s' : PState)
    (hs : CS.skipSpace inp = c :: x) (hc : c = 116 ∨ c = 102 ∨ c = 110)
    (hrt : CS.regularToken (c :: x) = kw) (hkw : kw = kwTrue ∨ kw = kwFalse ∨ kw = kwNull)
    (h1 : parseObject (f + 1) d (stateAt inp) = .ok (a, s')) :
    tok inp = some (.keyword kw, (c :: x).drop kw.length) := by
  have hal : isAlpha c = true := by rcases hc with e | e | e <;> subst e <;> decide
  have h82 : c ≠ 82 := by omega
  have htk := (tok_of_skipSpace inp).2 c x hs
  rw [dispatch_alpha x hal, dropWhile_eq_drop] at htk
  have hne : (c :: x).takeWhile isAlnum ≠ [82] := by
    rw [takeWhile_alnum_cons x hal]
    intro e
    simp only [List.cons.injEq] at e
    exact h82 e.1
  rw [if_neg hne] at htk
  have htwh : ((c :: x).takeWhile isAlnum).head? = some c := by rw [takeWhile_alnum_cons x hal]; rfl
  have hkwh : kw.head? = some c := by
    rw [← hrt]
    unfold CS.regularToken
    rw [List.takeWhile_cons]
    split
    · rfl
    · next hn =>
      exfalso
      unfold CS.regularToken at hrt
      rw [List.takeWhile_cons, if_neg hn] at hrt
      rcases hkw with e | e | e <;> rw [e] at hrt <;> cases hrt
  have hcur := stateAt_cur_tok inp _ _ htk
  rw [parseObject, hcur] at h1
  dsimp only at h1
  generalize (c :: x).takeWhile isAlnum = tw at htk htwh h1
  have htw : tw = kwNull ∨ tw = kwTrue ∨ tw = kwFalse := by
    by_cases e1 : tw = kwNull
    · exact Or.inl e1
    · by_cases e2 : tw = kwTrue
      · exact Or.inr (Or.inl e2)
      · by_cases e3 : tw = kwFalse
        · exact Or.inr (Or.inr e3)
        · rw [if_neg e1, if_neg e2, if_neg e3] at h1; cases h1
  have : tw = kw := by
    rcases htw with e | e | e <;> rcases hkw with e' | e' | e' <;> subst e <;> subst e' <;>
      first
        | rfl
        | (exfalso
           simp only [kwNull, kwTrue, kwFalse, List.head?_cons, Option.some.injEq] at htwh hkwh
           omega)
  rw [this] at htk
  exact htk

theorem kwStream_ne {kw : Str} (hkw : kw = kwTrue ∨ kw = kwFalse ∨ kw = kwNull) :
    Token.keyword kw ≠ .keyword kwStream := by
  rcases hkw with e | e | e <;> subst e <;> decide

/-! ### the content-stream parser after the first integer of a reference -/

theorem cs_op_skip (g d : Nat) (inp : Str) : CS.parseOperand g d (CS.skipSpace inp) = CS.parseOperand g d inp := by
  cases g with
  | zero => rw [CS.parseOperand, CS.parseOperand]
  | succ g => rw [CS.parseOperand, CS.parseOperand, skipSpace_idem]

theorem skipSpace_of_tok {inp r : Str} {t : Token} (h : tok inp = some (t, r)) (ht : t ≠ .eof) :
    inp ≠ [] ∧ ∃ c x, CS.skipSpace inp = c :: x ∧ Tok.dispatch c x = some (t, r) := by
  constructor
  · intro e; subst e; rw [tok_nil] at h; cases h; exact ht rfl
  · cases hs : CS.skipSpace inp with
    | nil => rw [(tok_of_skipSpace inp).1 hs] at h; cases h; exact absurd rfl ht
    | cons c x => rw [(tok_of_skipSpace inp).2 c x hs] at h; exact ⟨c, x, rfl, h⟩

/-- the keyword `R` is not an operand -/
theorem cs_op_R (g d : Nat) (x : Str) : CS.parseOperand g d (82 :: x) = none := by
  cases g with
  | zero => rw [CS.parseOperand]
  | succ g =>
    rw [CS.parseOperand, skipSpace_other 82 x (by decide) (by decide)]
    simp [show isDigit 82 = false by decide]

/-- an operand that starts like a number is a number -/
theorem cs_op_num (g d : Nat) (c : Nat) (x : Str) (hc : NumStart c) (hw : isWs c = false) :
    CS.parseOperand (g + 1) d (c :: x) = CS.parseNumber (c :: x) := by
  have h37 := (numStart_ne hc).1
  rw [CS.parseOperand, skipSpace_other c x hw h37]
  dsimp only
  have hc' : c = 45 ∨ c = 43 ∨ c = 46 ∨ isDigit c = true := hc
  rw [if_pos hc']

/-- a dictionary: after the first integer of a reference there is neither a key nor `>>` -/
theorem cs_dict_after_int (g d : Nat) (r1 vb r2 : Str) (acc : List (Str × Obj))
    (h : tok r1 = some (.integer vb, r2)) : CS.parseDict g d r1 acc = none := by
  cases g with
  | zero => rw [CS.parseDict]
  | succ g =>
    obtain ⟨hne, c, x, hs, hd⟩ := skipSpace_of_tok h (by simp)
    have hc := dispatch_integer_inv c x vb r2 hd
    obtain ⟨_, _, _, _, _, h62, h47, _⟩ := numStart_ne hc
    rw [CS.parseDict, if_neg hne, hs]
    dsimp only
    rw [if_neg (fun e => h62 e.1), if_pos h47]

/-- an array: the second integer of the reference is read, then `R` is not an operand -/
theorem cs_arr_after_int (g d : Nat) (r1 vb r2 r3 : Str) (acc : List Obj)
    (h : tok r1 = some (.integer vb, r2)) (h' : tok r2 = some (.ref, r3)) : CS.parseArray g d r1 acc = none := by
  cases g with
  | zero => rw [CS.parseArray]
  | succ g =>
    obtain ⟨hne, c, x, hs, hd⟩ := skipSpace_of_tok h (by simp)
    have hc := dispatch_integer_inv c x vb r2 hd
    have h93 := (numStart_ne hc).2.2.1
    have hw := (skipSpace_head r1 c x hs).1
    rw [CS.parseArray, if_neg hne, hs]
    dsimp only
    rw [if_neg h93]
    cases g with
    | zero => rw [CS.parseOperand]
    | succ g =>
      rw [cs_op_num g d c x hc hw, cs_parseNumber_lexeme c x hc]
      rw [dispatch_num x hc] at hd
      generalize numLoop false true (c :: x) = p at hd
      obtain ⟨text, hasDec, rest⟩ := p
      dsimp only at hd ⊢
      cases hasDec with
      | true => simp at hd
      | false =>
        simp only [Bool.false_eq_true, if_false, Option.some.injEq, Prod.mk.injEq, Token.integer.injEq] at hd ⊢
        obtain ⟨_, hr⟩ := hd
        subst hr
        cases atoi text with
        | none => rfl
        | some v =>
          dsimp only
          obtain ⟨hne2, c3, x3, hs3, hd3⟩ := skipSpace_of_tok h' (by simp)
          have h82 := dispatch_ref_inv c3 x3 r3 hd3
          subst h82
          rw [CS.parseArray, if_neg hne2, hs3]
          dsimp only
          rw [if_neg (by decide), cs_op_R]

theorem kw_step (f d : Nat) (inp : Str) (c : Nat) (x kw : Str) (a : Obj) (s' : PState)
    (hs : CS.skipSpace inp = c :: x) (hc : c = 116 ∨ c = 102 ∨ c = 110)
    (hrt : CS.regularToken (c :: x) = kw) (hkw : kw = kwTrue ∨ kw = kwFalse ∨ kw = kwNull)
    (h1 : parseObject (f + 1) d (stateAt inp) = .ok (a, s')) :
    ((kw = kwTrue → a = .bool true) ∧ (kw = kwFalse → a = .bool false) ∧ (kw = kwNull → a = .null)) ∧
    s' = stateAt ((c :: x).drop kw.length) := by
  have htk := kw_tok f d inp c x kw a s' hs hc hrt hkw h1
  have hcur := stateAt_cur_tok inp _ _ htk
  have hnext := stateAt_next_tok inp _ _ htk (kwStream_ne hkw)
  rw [parseObject, hcur] at h1
  dsimp only at h1
  rcases hkw with e | e | e <;> subst e
  · rw [if_neg (by decide), if_pos rfl] at h1
    cases h1
    exact ⟨⟨fun _ => rfl, fun e => absurd e (by decide), fun e => absurd e (by decide)⟩, hnext⟩
  · rw [if_neg (by decide), if_neg (by decide), if_pos rfl] at h1
    cases h1
    exact ⟨⟨fun e => absurd e (by decide), fun _ => rfl, fun e => absurd e (by decide)⟩, hnext⟩
  · rw [if_pos rfl] at h1
    cases h1
    exact ⟨⟨fun e => absurd e (by decide), fun e => absurd e (by decide), fun _ => rfl⟩, hnext⟩

/-! ### one step of the simulation -/

/-- one call of `ParseObject` against one call of `parseOperand`, the container loops given -/
theorem obj_step (f f2 : Nat)
    (ihA : ∀ d inp acc a s' b r, parseArray f d (stateAt inp) acc = .ok (a, s') →
      CS.parseArray f2 d inp acc = some (b, r) → a = b ∧ s' = stateAt r)
    (ihD : ∀ d inp acc a s' b r, parseDict f d (stateAt inp) acc = .ok (a, s') →
      CS.parseDict f2 d inp acc = some (b, r) → a = b ∧ s' = stateAt r)
    (d : Nat) (inp : Str) (a : Obj) (s' : PState) (b : Obj) (r : Str)
    (h1 : parseObject (f + 1) d (stateAt inp) = .ok (a, s'))
    (h2 : CS.parseOperand (f2 + 1) d inp = some (b, r)) :
    RefCase inp a b r ∨ (a = b ∧ s' = stateAt r) := by
  rw [CS.parseOperand] at h2
  cases hs : CS.skipSpace inp with
  | nil => rw [hs] at h2; cases h2
  | cons c x =>
    rw [hs] at h2
    dsimp only at h2
    by_cases c1 : c = 45 ∨ c = 43 ∨ c = 46 ∨ isDigit c = true
    · rw [if_pos c1] at h2
      exact num_step f d inp c x a s' b r hs c1 h1 h2
    rw [if_neg c1] at h2
    right
    by_cases c2 : c = 40
    · rw [if_pos c2] at h2
      subst c2
      cases hstr : CS.strLoop 1 x with
      | none => rw [hstr] at h2; cases h2
      | some q =>
        obtain ⟨v, r'⟩ := q
        rw [hstr] at h2
        dsimp only at h2
        cases h2
        exact str_step f d inp x a s' v _ hs h1 hstr
    rw [if_neg c2] at h2
    by_cases c3 : c = 60 ∧ x ≠ [] ∧ x.head? ≠ some 60
    · rw [if_pos c3] at h2
      obtain ⟨e, _, hx⟩ := c3
      subst e
      cases hh : CS.hexLoop x with
      | none => rw [hh] at h2; cases h2
      | some q =>
        obtain ⟨v, r'⟩ := q
        rw [hh] at h2
        dsimp only at h2
        cases h2
        exact hex_step f d inp x a s' v _ hs hx h1 hh
    rw [if_neg c3] at h2
    by_cases c4 : c = 47
    · rw [if_pos c4] at h2
      subst c4
      cases h2
      exact name_step f d inp x a s' hs h1
    rw [if_neg c4] at h2
    by_cases c5 : c = 91
    · rw [if_pos c5] at h2
      subst c5
      have htk := (tok_of_skipSpace inp).2 91 x hs
      rw [dispatch_arrStart] at htk
      have hcur := stateAt_cur_tok inp _ _ htk
      have hnext := stateAt_next_tok inp _ _ htk (by simp)
      rw [parseObject, hcur] at h1
      dsimp only at h1
      by_cases hd : maxNestingDepth ≤ d
      · rw [if_pos hd] at h2; cases h2
      · rw [if_neg hd] at h1 h2
        rw [hnext] at h1
        exact ihA _ _ _ _ _ _ _ h1 h2
    rw [if_neg c5] at h2
    by_cases c6 : c = 60 ∧ x.head? = some 60
    · rw [if_pos c6] at h2
      obtain ⟨e, hx⟩ := c6
      subst e
      cases x with
      | nil => cases hx
      | cons y x' =>
        simp only [List.head?_cons, Option.some.injEq] at hx
        subst hx
        simp only [List.drop_succ_cons, List.drop_zero] at h2
        have htk := (tok_of_skipSpace inp).2 60 _ hs
        rw [dispatch_dictStart] at htk
        have hcur := stateAt_cur_tok inp _ _ htk
        have hnext := stateAt_next_tok inp _ _ htk (by simp)
        rw [parseObject, hcur] at h1
        dsimp only at h1
        by_cases hd : maxNestingDepth ≤ d
        · rw [if_pos hd] at h2; cases h2
        · rw [if_neg hd] at h1 h2
          rw [hnext] at h1
          exact ihD _ _ _ _ _ _ _ h1 h2
    rw [if_neg c6] at h2
    by_cases c7 : c = 116 ∨ c = 102 ∨ c = 110
    · rw [if_pos c7] at h2
      by_cases k1 : CS.regularToken (c :: x) = kwTrue
      · rw [if_pos k1, k1] at h2
        cases h2
        have := kw_step f d inp c x kwTrue a s' hs c7 k1 (Or.inl rfl) h1
        exact ⟨this.1.1 rfl, this.2⟩
      rw [if_neg k1] at h2
      by_cases k2 : CS.regularToken (c :: x) = kwFalse
      · rw [if_pos k2, k2] at h2
        cases h2
        have := kw_step f d inp c x kwFalse a s' hs c7 k2 (Or.inr (Or.inl rfl)) h1
        exact ⟨this.1.2.1 rfl, this.2⟩
      rw [if_neg k2] at h2
      by_cases k3 : CS.regularToken (c :: x) = kwNull
      · rw [if_pos k3, k3] at h2
        cases h2
        have := kw_step f d inp c x kwNull a s' hs c7 k3 (Or.inr (Or.inr rfl)) h1
        exact ⟨this.1.2.2 rfl, this.2⟩
      rw [if_neg k3] at h2
      cases h2
    rw [if_neg c7] at h2
    cases h2

/-- one turn of the loop of `parseArray`, both parsers -/
theorem arr_step (f f2 : Nat)
    (ihO : ∀ d inp a s' b r, parseObject f d (stateAt inp) = .ok (a, s') →
      CS.parseOperand f2 d inp = some (b, r) → RefCase inp a b r ∨ (a = b ∧ s' = stateAt r))
    (ihA : ∀ d inp acc a s' b r, parseArray f d (stateAt inp) acc = .ok (a, s') →
      CS.parseArray f2 d inp acc = some (b, r) → a = b ∧ s' = stateAt r)
    (d : Nat) (inp : Str) (acc : List Obj) (a : Obj) (s' : PState) (b : Obj) (r : Str)
    (h1 : parseArray (f + 1) d (stateAt inp) acc = .ok (a, s'))
    (h2 : CS.parseArray (f2 + 1) d inp acc = some (b, r)) : a = b ∧ s' = stateAt r := by
  have hne : tok inp ≠ none := fun h => core_arr_tok_none _ _ inp h acc a s' h1
  rw [CS.parseArray] at h2
  by_cases h0 : inp = []
  · exfalso
    subst h0
    have hcur := stateAt_cur_tok [] _ _ tok_nil
    rw [parseArray, hcur] at h1
    cases h1
  rw [if_neg h0] at h2
  cases hs : CS.skipSpace inp with
  | nil => rw [hs] at h2; cases h2
  | cons c x =>
    rw [hs] at h2
    dsimp only at h2
    have htk := (tok_of_skipSpace inp).2 c x hs
    by_cases c1 : c = 93
    · subst c1
      rw [if_pos rfl] at h2
      cases h2
      rw [dispatch_arrEnd] at htk
      have hcur := stateAt_cur_tok inp _ _ htk
      have hnext := stateAt_next_tok inp _ _ htk (by simp)
      rw [parseArray, hcur] at h1
      dsimp only at h1
      cases h1
      exact ⟨rfl, hnext⟩
    rw [if_neg c1] at h2
    cases hd : Tok.dispatch c x with
    | none => rw [hd] at htk; exact absurd htk hne
    | some q =>
      obtain ⟨t, r1⟩ := q
      rw [hd] at htk
      have hcur := stateAt_cur_tok inp t r1 htk
      have step : (match parseObject f d (stateAt inp) with
            | .error _ => (.error .err : Except PErr (Obj × PState))
            | .ok (o, s') => parseArray f d s' (acc ++ [o])) = .ok (a, s') →
          ∃ o1 s1, parseObject f d (stateAt inp) = .ok (o1, s1) ∧
            parseArray f d s1 (acc ++ [o1]) = .ok (a, s') := by
        intro h
        split at h
        · cases h
        · next o1 s1 ho => exact ⟨o1, s1, ho, h⟩
      have hO : ∃ o1 s1, parseObject f d (stateAt inp) = .ok (o1, s1) ∧
          parseArray f d s1 (acc ++ [o1]) = .ok (a, s') := by
        rw [parseArray, hcur] at h1
        cases t with
        | arrEnd => exact absurd (dispatch_arrEnd_inv c x r1 hd) c1
        | eof => cases h1
        | _ => exact step h1
      obtain ⟨o1, s1, ho, hA⟩ := hO
      have e : CS.parseOperand f2 d (c :: x) = CS.parseOperand f2 d inp := by rw [← hs, cs_op_skip]
      rw [e] at h2
      cases hop : CS.parseOperand f2 d inp with
      | none => rw [hop] at h2; cases h2
      | some q =>
        obtain ⟨b1, r'⟩ := q
        rw [hop] at h2
        dsimp only at h2
        rcases ihO d inp o1 s1 b1 r' ho hop with ⟨n, g, va, vb, r2, r3, _, _, _, ht2, ht3⟩ | ⟨e1, e2⟩
        · rw [cs_arr_after_int f2 d r' vb r2 r3 _ ht2 ht3] at h2
          cases h2
        · subst e1; subst e2
          exact ihA d r' _ a s' b r hA h2

/-- one turn of the loop of `parseDict`, both parsers -/
theorem dict_step (f f2 : Nat)
    (ihO : ∀ d inp a s' b r, parseObject f d (stateAt inp) = .ok (a, s') →
      CS.parseOperand f2 d inp = some (b, r) → RefCase inp a b r ∨ (a = b ∧ s' = stateAt r))
    (ihD : ∀ d inp acc a s' b r, parseDict f d (stateAt inp) acc = .ok (a, s') →
      CS.parseDict f2 d inp acc = some (b, r) → a = b ∧ s' = stateAt r)
    (d : Nat) (inp : Str) (acc : List (Str × Obj)) (a : Obj) (s' : PState) (b : Obj) (r : Str)
    (h1 : parseDict (f + 1) d (stateAt inp) acc = .ok (a, s'))
    (h2 : CS.parseDict (f2 + 1) d inp acc = some (b, r)) : a = b ∧ s' = stateAt r := by
  have hne : tok inp ≠ none := fun h => core_dict_tok_none _ _ inp h acc a s' h1
  rw [CS.parseDict] at h2
  by_cases h0 : inp = []
  · exfalso
    subst h0
    have hcur := stateAt_cur_tok [] _ _ tok_nil
    rw [parseDict, hcur] at h1
    cases h1
  rw [if_neg h0] at h2
  cases hs : CS.skipSpace inp with
  | nil => rw [hs] at h2; cases h2
  | cons c x =>
    rw [hs] at h2
    dsimp only at h2
    by_cases c1 : c = 62 ∧ x.head? = some 62
    · rw [if_pos c1] at h2
      obtain ⟨e, hx⟩ := c1
      subst e
      cases x with
      | nil => cases hx
      | cons y x' =>
        simp only [List.head?_cons, Option.some.injEq] at hx
        subst hx
        simp only [List.drop_succ_cons, List.drop_zero] at h2
        cases h2
        have htk := (tok_of_skipSpace inp).2 62 _ hs
        rw [dispatch_dictEnd] at htk
        have hcur := stateAt_cur_tok inp _ _ htk
        have hnext := stateAt_next_tok inp _ _ htk (by simp)
        rw [parseDict, hcur] at h1
        dsimp only at h1
        cases h1
        exact ⟨rfl, hnext⟩
    rw [if_neg c1] at h2
    by_cases c2 : c ≠ 47
    · rw [if_pos c2] at h2; cases h2
    rw [if_neg c2] at h2
    have c2' : c = 47 := Decidable.not_not.1 c2
    subst c2'
    have htk := name_tok inp x hs hne
    have hcur := stateAt_cur_tok inp _ _ htk
    have hnext := stateAt_next_tok inp _ _ htk (by simp)
    rw [parseDict, hcur] at h1
    dsimp only at h1
    rw [hnext] at h1
    cases ho : parseObject f d (stateAt (CS.nameLoop x).2) with
    | error e => rw [ho] at h1; cases h1
    | ok q =>
      obtain ⟨o1, s1⟩ := q
      rw [ho] at h1
      dsimp only at h1
      cases hop : CS.parseOperand f2 d (CS.nameLoop x).2 with
      | none => rw [hop] at h2; cases h2
      | some q =>
        obtain ⟨b1, r'⟩ := q
        rw [hop] at h2
        dsimp only at h2
        rcases ihO d _ o1 s1 b1 r' ho hop with ⟨n, g, va, vb, r2, r3, _, _, _, ht2, _⟩ | ⟨e1, e2⟩
        · rw [cs_dict_after_int f2 d r' vb r2 _ ht2] at h2
          cases h2
        · subst e1; subst e2
          exact ihD d r' _ a s' b r h1 h2

/-! ### the simulation -/

/-- the simulation, with the lookahead of the reference case kept: the three tokens of `n g R` -/
theorem agree_sim_ref (f : Nat) :
    (∀ d inp a s' f2 b r, parseObject f d (stateAt inp) = .ok (a, s') → CS.parseOperand f2 d inp = some (b, r) →
        RefCase inp a b r ∨ (a = b ∧ s' = stateAt r)) ∧
    (∀ d inp acc a s' f2 b r, parseArray f d (stateAt inp) acc = .ok (a, s') → CS.parseArray f2 d inp acc = some (b, r) →
        a = b ∧ s' = stateAt r) ∧
    (∀ d inp acc a s' f2 b r, parseDict f d (stateAt inp) acc = .ok (a, s') → CS.parseDict f2 d inp acc = some (b, r) →
        a = b ∧ s' = stateAt r) := by
  induction f with
  | zero =>
    refine ⟨?_, ?_, ?_⟩
    · intro d inp a s' f2 b r h; rw [parseObject] at h; cases h
    · intro d inp acc a s' f2 b r h; rw [parseArray] at h; cases h
    · intro d inp acc a s' f2 b r h; rw [parseDict] at h; cases h
  | succ f ih =>
    obtain ⟨ihO, ihA, ihD⟩ := ih
    refine ⟨?_, ?_, ?_⟩
    · intro d inp a s' f2 b r h1 h2
      cases f2 with
      | zero => rw [CS.parseOperand] at h2; cases h2
      | succ f2 =>
        exact obj_step f f2 (fun d inp acc a s' b r => ihA d inp acc a s' f2 b r)
          (fun d inp acc a s' b r => ihD d inp acc a s' f2 b r) d inp a s' b r h1 h2
    · intro d inp acc a s' f2 b r h1 h2
      cases f2 with
      | zero => rw [CS.parseArray] at h2; cases h2
      | succ f2 =>
        exact arr_step f f2 (fun d inp a s' b r => ihO d inp a s' f2 b r)
          (fun d inp acc a s' b r => ihA d inp acc a s' f2 b r) d inp acc a s' b r h1 h2
    · intro d inp acc a s' f2 b r h1 h2
      cases f2 with
      | zero => rw [CS.parseDict] at h2; cases h2
      | succ f2 =>
        exact dict_step f f2 (fun d inp a s' b r => ihO d inp a s' f2 b r)
          (fun d inp acc a s' b r => ihD d inp acc a s' f2 b r) d inp acc a s' b r h1 h2

/-- simulation: started on the same bytes with the same number `d` of open containers, whenever BOTH parsers succeed
they return the same value and stand at the same place - unless the document-level parser read an indirect
reference (then the content-stream parser, which has no references, read its first integer) -/
theorem agree_sim (f : Nat) :
    (∀ d inp a s' f2 b r, parseObject f d (stateAt inp) = .ok (a, s') → CS.parseOperand f2 d inp = some (b, r) →
        (∃ n g, a = .ref n g ∧ b = .int n) ∨ (a = b ∧ s' = stateAt r)) ∧
    (∀ d inp acc a s' f2 b r, parseArray f d (stateAt inp) acc = .ok (a, s') → CS.parseArray f2 d inp acc = some (b, r) →
        a = b ∧ s' = stateAt r) ∧
    (∀ d inp acc a s' f2 b r, parseDict f d (stateAt inp) acc = .ok (a, s') → CS.parseDict f2 d inp acc = some (b, r) →
        a = b ∧ s' = stateAt r) := by
  obtain ⟨hO, hA, hD⟩ := agree_sim_ref f
  refine ⟨?_, hA, hD⟩
  intro d inp a s' f2 b r h1 h2
  rcases hO d inp a s' f2 b r h1 h2 with ⟨n, g, _, _, _, _, ha, hb, _⟩ | h
  · exact Or.inl ⟨n, g, ha, hb⟩
  · exact Or.inr h

/-- **the two parsers agree on every byte string** -/
theorem parsers_agree_all (inp : Str) (a : Obj) (s : PState) (f2 : Nat) (b : Obj) (r : Str)
    (h1 : coreParse inp = .ok (a, s)) (h2 : CS.parseOperand f2 0 inp = some (b, r)) :
    (∃ n g, a = .ref n g ∧ b = .int n) ∨ (a = b ∧ s = stateAt r) :=
  (agree_sim (fuelFor inp)).1 0 inp a s f2 b r h1 h2

/-- inside arrays and dictionaries there is no exception: a reference makes the content-stream parser fail -/
theorem parsers_agree_containers (inp : Str) (a : Obj) (s : PState) (f2 : Nat) (b : Obj) (r : Str)
    (h1 : coreParse inp = .ok (a, s)) (h2 : CS.parseOperand f2 0 inp = some (b, r))
    (hc : (∃ xs, a = .arr xs) ∨ (∃ kv, a = .dict kv)) : a = b ∧ s = stateAt r := by
  rcases parsers_agree_all inp a s f2 b r h1 h2 with ⟨n, g, ha, _⟩ | h
  · rcases hc with ⟨xs, e⟩ | ⟨kv, e⟩ <;> rw [e] at ha <;> cases ha
  · exact h

end Agree
end Tabula.Pdf
