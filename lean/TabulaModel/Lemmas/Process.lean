import TabulaModel.Model.Process
import TabulaModel.Props.C10Hist
/-!
Lemmas for `Model/Process.lean`: a call touches the family it names and nothing else; the
answers a family gets in any schedule are those of its own calls run alone; each of them is a
function of the document and of the chain of configuration calls behind its receiver.
-/
namespace Tabula.Process
open Tabula.Builder Tabula.C10Hist

/-! ### shapes of static answers -/

theorem derive_format (e : Ext) (c : BCall) : (e.derive c).format = e.format := by
  unfold Ext.derive Ext.clone
  cases c <;> simp only [applyCall] <;> repeat' split
  all_goals rfl

theorem chainFrom_format (e0 : Ext) (cs : List BCall) : (chainFrom e0 cs).format = e0.format := by
  induction cs generalizing e0 with
  | nil => rfl
  | cons c cs ih =>
    simp only [chainFrom, List.foldl_cons]
    have := ih (e0.derive c)
    simp only [chainFrom] at this
    rw [this, derive_format]

theorem termBody_not_whole (w : World) (k : Term) (o : Options) : termBody w k o ≠ .whole := by
  unfold termBody
  repeat' split
  all_goals simp

theorem termStatic_whole (w : World) (k : Term) (e : Ext) (h : termStatic w k e = .whole) :
    e.format ≠ .pdf := by
  intro hf
  unfold termStatic termBodyF at h
  simp only [hf, if_true] at h
  repeat' split at h
  all_goals first
    | cases h
    | exact termBody_not_whole w k _ h

theorem termStatic_pages (w : World) (k : Term) (e : Ext) (idx : List Nat)
    (h : termStatic w k e = .pages idx) : e.format = .pdf := by
  by_cases hf : e.format = .pdf
  · exact hf
  · exfalso
    unfold termStatic termBodyF at h
    simp only [hf, if_false] at h
    repeat' split at h
    all_goals cases h

theorem loopWarnings_zero (d : Doc) (r : Res) (h : reachedLoop r = false) : loopWarnings d r = 0 := by
  cases r <;> simp_all [reachedLoop, loopWarnings]

/-! ### one family -/

/-- the warning counts go with the extractors, and a family that is not a PDF never holds one -/
def WInv (d : Doc) (f : Fam) : Prop :=
  f.warns.length = f.st.exts.length ∧ (d.base.format ≠ .pdf → ∀ n ∈ f.warns, n = 0)

theorem famStep_st (d : Doc) (f : Fam) (op : Op) :
    (famStep d f op).1.st = (step d.world f.st op).1 ∧ (famStep d f op).2.1 = (step d.world f.st op).2 := by
  cases op with
  | derive i c => exact ⟨rfl, rfl⟩
  | nonTerm i k => exact ⟨rfl, rfl⟩
  | close i => exact ⟨rfl, rfl⟩
  | term i k =>
    simp only [famStep, famTerminal, step]
    repeat' split
    all_goals exact ⟨rfl, rfl⟩

theorem base_format_of_lin {d : Doc} {L : List (List BCall)} {i : Nat} {cs : List BCall}
    (_ : L[i]? = some cs) : (chainFrom d.base cs).format = d.base.format :=
  chainFrom_format _ _

/-- the result class of a terminal operation on a family that is not a PDF is never a page list -/
theorem static_pages_pdf (d : Doc) (L : List (List BCall)) (i : Nat) (k : Term) (idx : List Nat)
    (h : staticAnswer d.world d.base L (.term i k) = .pages idx) : d.base.format = .pdf := by
  simp only [staticAnswer] at h
  cases hL : L[i]? with
  | none => rw [hL] at h; cases h
  | some cs =>
    rw [hL] at h
    rw [← chainFrom_format d.base cs]
    exact termStatic_pages _ _ _ _ h

theorem static_whole_nonpdf (d : Doc) (L : List (List BCall)) (i : Nat) (k : Term)
    (h : staticAnswer d.world d.base L (.term i k) = .whole) : d.base.format ≠ .pdf := by
  simp only [staticAnswer] at h
  cases hL : L[i]? with
  | none => rw [hL] at h; cases h
  | some cs =>
    rw [hL] at h
    rw [← chainFrom_format d.base cs]
    exact termStatic_whole _ _ _ h

/-- **one call, answered as if alone**: in any state a family can reach, the answer to a call —
result class and warnings — is the one predicted from the document and the chain of
configuration calls behind the receiver -/
theorem famStep_answer (d : Doc) {L : List (List BCall)} {f : Fam} (hs : StoreInv f.st)
    (hf : FamInv d.world f.st) (hl : LinInv d.base L f.st) (hw : WInv d f) (op : Op) :
    (famStep d f op).2 = aloneAnswer d L op := by
  have hr := step_static_answer d.world d.base hs hf hl op
  have hst := (famStep_st d f op).2
  cases op with
  | derive i c => exact Prod.ext (by rw [hst, hr]; rfl) rfl
  | nonTerm i k => exact Prod.ext (by rw [hst, hr]; rfl) rfl
  | close i => exact Prod.ext (by rw [hst, hr]; rfl) rfl
  | term i k =>
    simp only [step] at hr
    simp only [famStep, famTerminal, aloneAnswer]
    rw [← hr]
    generalize hT : terminal d.world k f.st i = T at *
    obtain ⟨s, r⟩ := T
    simp only
    by_cases hk : returnsWarnings k = true
    · simp only [hk, if_true]
      by_cases hl' : reachedLoop r = true
      · simp only [hl', if_true]
      · simp only [hl', Bool.false_eq_true, if_false]
        have hz := loopWarnings_zero d r (by simpa using hl')
        cases r with
        | whole =>
          simp only [hz]
          have hnp : d.base.format ≠ .pdf := static_whole_nonpdf d L i k (by rw [← hr])
          cases hwi : f.warns[i]? with
          | none => rfl
          | some n =>
            have : n = 0 := hw.2 hnp n (List.mem_of_getElem? hwi)
            simp [this]
        | pages l => simp [reachedLoop] at hl'
        | none => simp [hz]
        | closed => simp [hz]
        | count n => simp [hz]
        | flag => simp [hz]
        | err => simp [hz]
        | bad => simp [hz]
    · simp only [hk, Bool.false_eq_true, if_false]

theorem winv_step (d : Doc) {L : List (List BCall)} {f : Fam} (hs : StoreInv f.st)
    (hf : FamInv d.world f.st) (hl : LinInv d.base L f.st) (hw : WInv d f) (op : Op) :
    WInv d (famStep d f op).1 := by
  have hlen : (step d.world f.st op).1.exts.length = f.st.exts.length + (if op.mutates then 0 else
      (if (f.st.exts[op.target]?).isSome then 1 else 0)) := by
    by_cases hm : op.mutates = true
    · have := congrArg List.length (step_static d.world f.st op hm)
      simp only [List.length_map] at this
      simp [hm, this]
    · cases op with
      | derive i c =>
        simp only [step, deriveOp, Op.target, Op.mutates, Bool.false_eq_true, if_false]
        split
        · rename_i he; simp [he]
        · rename_i e he; simp [he]
      | term i k => simp [Op.mutates] at hm
      | nonTerm i k => simp [Op.mutates] at hm
      | close i => simp [Op.mutates] at hm
  have hr := step_static_answer d.world d.base hs hf hl op
  cases op with
  | derive i c =>
    simp only [famStep, famDerive]
    simp only [step, Op.mutates, Op.target, Bool.false_eq_true, if_false] at hlen
    refine ⟨?_, ?_⟩
    · simp only [hlen]
      cases hwi : f.warns[i]? with
      | none =>
        have : f.st.exts[i]? = none := by
          apply List.getElem?_eq_none_iff.mpr
          have := List.getElem?_eq_none_iff.mp hwi
          rw [← hw.1]; exact this
        simp [this, hw.1]
      | some n =>
        have hi : i < f.warns.length := (List.getElem?_eq_some_iff.mp hwi).1
        have : (f.st.exts[i]?).isSome = true := by
          rw [List.getElem?_eq_getElem (by rw [← hw.1]; exact hi)]; rfl
        simp [this, hw.1]
    · intro hnp n hn
      cases hwi : f.warns[i]? with
      | none => rw [hwi] at hn; exact hw.2 hnp n hn
      | some m =>
        rw [hwi] at hn
        rcases List.mem_append.mp hn with hn | hn
        · exact hw.2 hnp n hn
        · simp only [List.mem_singleton] at hn
          subst hn
          exact hw.2 hnp _ (List.mem_of_getElem? hwi)
  | nonTerm i k =>
    simp only [step, Op.mutates, if_true, Nat.add_zero] at hlen
    exact ⟨by simp only [famStep]; rw [hlen]; exact hw.1, hw.2⟩
  | close i =>
    simp only [step, Op.mutates, if_true, Nat.add_zero] at hlen
    exact ⟨by simp only [famStep]; rw [hlen]; exact hw.1, hw.2⟩
  | term i k =>
    simp only [step, Op.mutates, if_true, Nat.add_zero] at hlen hr
    simp only [famStep, famTerminal]
    generalize hT : terminal d.world k f.st i = T at *
    obtain ⟨s, r⟩ := T
    simp only at hlen hr ⊢
    by_cases hk : returnsWarnings k = true
    · simp only [hk, if_true]
      by_cases hl' : reachedLoop r = true
      · simp only [hl', if_true]
        refine ⟨by simp only [List.length_set]; rw [hlen]; exact hw.1, ?_⟩
        intro hnp n hn
        exfalso
        cases r with
        | pages idx => exact hnp (static_pages_pdf d L i k idx hr.symm)
        | _ => simp [reachedLoop] at hl'
      · simp only [hl', Bool.false_eq_true, if_false]
        cases r <;> exact ⟨by rw [hlen]; exact hw.1, hw.2⟩
    · simp only [hk, Bool.false_eq_true, if_false]
      exact ⟨by rw [hlen]; exact hw.1, hw.2⟩

/-- **a family's program, answered as if alone**: the answers of any program of calls on the
extractors of one family are those predicted call by call from the chains of configuration calls -/
theorem famRun_alone (d : Doc) (ops : List Op) :
    ∀ (L : List (List BCall)) (f : Fam), StoreInv f.st → FamInv d.world f.st → LinInv d.base L f.st →
      WInv d f → famRun d f ops = aloneRun d L ops := by
  induction ops with
  | nil => intro L f _ _ _ _; rfl
  | cons op ops ih =>
    intro L f hs hf hl hw
    have hst := (famStep_st d f op).1
    have h1 : StoreInv (famStep d f op).1.st := by rw [hst]; exact inv_step d.world hs op
    have h2 : FamInv d.world (famStep d f op).1.st := by rw [hst]; exact fam_step d.world hs hf op
    have h3 : LinInv d.base (lineage L [op]) (famStep d f op).1.st := by
      rw [hst]; exact lin_exec d.world d.base [op] hl
    have h4 := winv_step d hs hf hl hw op
    simp only [famRun, aloneRun]
    rw [famStep_answer d hs hf hl hw op, ih _ _ h1 h2 h3 h4]

theorem fam0_inv (d : Doc) :
    StoreInv d.fam0.st ∧ FamInv d.world d.fam0.st ∧ LinInv d.base [[]] d.fam0.st ∧ WInv d d.fam0 := by
  unfold Doc.fam0 Doc.store0 Doc.base
  by_cases h : d.fromReader = true
  · simp only [h, if_true]
    exact ⟨inv_readerBase, fam_readerBase _, lin_base _ [true], rfl, by intro _ n hn; simpa using hn⟩
  · simp only [h, Bool.false_eq_true, if_false]
    exact ⟨inv_openBaseF _, fam_openBaseF _ _, lin_base _ [], rfl, by intro _ n hn; simpa using hn⟩

/-! ### the process -/

/-- **non_interference**: a call leaves every family but the one it names exactly as it was -/
theorem procStep_other (docs : List Doc) (p : Proc) (c : Call) (d : Nat) (h : d ≠ c.fam) :
    (procStep docs p c).1[d]? = p[d]? := by
  unfold procStep
  split
  · simp only
    rw [List.getElem?_set_ne (fun x => h x.symm)]
  · rfl

theorem procStep_same (docs : List Doc) (p : Proc) (c : Call) (doc : Doc) (f : Fam)
    (hd : docs[c.fam]? = some doc) (hp : p[c.fam]? = some f) :
    (procStep docs p c).1[c.fam]? = some (famStep doc f c.op).1 ∧ (procStep docs p c).2 = (famStep doc f c.op).2 := by
  unfold procStep
  simp only [hd, hp, and_true]
  rw [List.getElem?_set_self]
  exact (List.getElem?_eq_some_iff.mp hp).1

/-- **sequential consistency of the schedule**: whatever the interleaving of the calls of all
families, the answers that go to family `d` are exactly the answers of `d`'s own calls, in
their order, run on `d` alone -/
theorem procRun_project (docs : List Doc) (cs : List Call) :
    ∀ (p : Proc) (d : Nat) (doc : Doc) (f : Fam), docs[d]? = some doc → p[d]? = some f →
      projectAns d cs (procRun docs p cs) = famRun doc f (project d cs) := by
  induction cs with
  | nil => intro p d doc f _ _; rfl
  | cons c cs ih =>
    intro p d doc f hd hp
    simp only [procRun, projectAns, project, List.filter_cons]
    by_cases hc : c.fam = d
    · subst hc
      obtain ⟨h1, h2⟩ := procStep_same docs p c doc f hd hp
      simp only [decide_true, if_true, List.map_cons, famRun]
      rw [h2]
      congr 1
      exact ih _ _ doc _ hd h1
    · simp only [hc, decide_false, if_false, Bool.false_eq_true]
      have := procStep_other docs p c d (fun x => hc x.symm)
      exact ih _ d doc f hd (by rw [this]; exact hp)

theorem proc0_get (docs : List Doc) (d : Nat) (doc : Doc) (h : docs[d]? = some doc) :
    (proc0 docs)[d]? = some doc.fam0 := by
  simp [proc0, List.getElem?_map, h]

/-! ### a reader's caches -/

/-- everything in the cache is what the file says -/
def CacheInv {κ β : Type} (spec : κ → Option β) (cache : List (κ × β)) : Prop :=
  ∀ e ∈ cache, spec e.1 = some e.2

theorem readCached_spec {κ β : Type} [DecidableEq κ] (spec : κ → Option β) (cache : List (κ × β)) (n : κ)
    (h : CacheInv spec cache) :
    (readCached spec cache n).2 = spec n ∧ CacheInv spec (readCached spec cache n).1 := by
  unfold readCached
  cases hf : cache.find? (fun e => decide (e.1 = n)) with
  | some e =>
    simp only
    have hm := List.mem_of_find?_eq_some hf
    have hp := List.find?_some hf
    simp only [decide_eq_true_eq] at hp
    exact ⟨by rw [← hp]; exact (h e hm).symm, h⟩
  | none =>
    simp only
    cases hs : spec n with
    | none => exact ⟨rfl, h⟩
    | some v =>
      refine ⟨rfl, ?_⟩
      intro e he
      rcases List.mem_cons.mp he with rfl | he
      · exact hs
      · exact h e he

/-- **cache_transparent**: whatever was looked up or cleared before on a reader, every look-up
returns what the file says -/
theorem accessRun_spec {κ β : Type} [DecidableEq κ] (spec : κ → Option β) (as : List (Access κ)) :
    ∀ (cache : List (κ × β)), CacheInv spec cache →
      (accessRun spec cache as).2 = as.map (accessSpec spec) ∧ CacheInv spec (accessRun spec cache as).1 := by
  induction as with
  | nil => intro c h; exact ⟨rfl, h⟩
  | cons a as ih =>
    intro c h
    cases a with
    | get n =>
      obtain ⟨h1, h2⟩ := readCached_spec spec c n h
      obtain ⟨g1, g2⟩ := ih _ h2
      simp only [accessRun, accessStep, List.map_cons, accessSpec]
      exact ⟨by rw [g1, h1], g2⟩
    | clear =>
      obtain ⟨g1, g2⟩ := ih [] (by intro e he; cases he)
      simp only [accessRun, accessStep, List.map_cons, accessSpec]
      exact ⟨by rw [g1], g2⟩

end Tabula.Process
