import TabulaModel.Model.Workbook
import TabulaModel.Lemmas.Sheet
/-!
Lemmas for `Model/Workbook.lean` (C17, workbook level): grid shape, the dimension pass covers
every write, the merge pass position by position, the loader end to end.
-/
namespace Tabula.Wb
open Tabula.A1 Tabula.Sheet

/-! ## generic -/

theorem foldl_preserves {α β : Type} (P : α → Prop) (f : α → β → α)
    (h : ∀ a b, P a → P (f a b)) (xs : List β) (a : α) (ha : P a) : P (xs.foldl f a) := by
  induction xs generalizing a with
  | nil => exact ha
  | cons x xs ih => exact ih _ (h _ _ ha)

/-! ## shape -/

/-- every row of the grid has `ncols` cells -/
def Rect (ncols : Nat) (g : Grid) : Prop := ∀ row ∈ g, row.length = ncols

theorem rect_emptyGrid (m n : Nat) : Rect n (emptyGrid m n) := by
  intro row h
  simp only [emptyGrid, List.mem_replicate] at h
  rw [h.2]; simp

theorem length_emptyGrid (m n : Nat) : (emptyGrid m n).length = m := by simp [emptyGrid]

theorem rect_modify {n : Nat} {g : Grid} (h : Rect n g) (r c : Nat) (f : Cell → Cell) :
    Rect n (g.modify r c f) := by
  unfold Grid.modify
  split
  · exact h
  · rename_i row hrow
    split
    · exact h
    · intro x hx
      rcases List.mem_or_eq_of_mem_set hx with hx | hx
      · exact h x hx
      · rw [hx, List.length_set]; exact h row (List.mem_of_getElem? hrow)

theorem rect_placeRow {n : Nat} (shared : List Str) {g : Grid} (h : Rect n g) (row : RowXML) :
    Rect n (placeRow shared g row) := by
  unfold placeRow
  split
  · exact h
  · split
    · exact h
    · apply foldl_preserves (Rect n) _ _ _ _ h
      intro a b ha
      unfold placeCell
      split
      · exact ha
      · exact rect_modify ha _ _ _

theorem rect_placeRows {n : Nat} (shared : List Str) (rows : List RowXML) {g : Grid} (h : Rect n g) :
    Rect n (rows.foldl (placeRow shared) g) :=
  foldl_preserves (Rect n) _ (fun _ b ha => rect_placeRow shared ha b) _ _ h

theorem length_placeRows (shared : List Str) (rows : List RowXML) (g : Grid) :
    (rows.foldl (placeRow shared) g).length = g.length := by
  induction rows generalizing g with
  | nil => rfl
  | cons row rows ih => simp only [List.foldl_cons]; rw [ih, placeRow_length]

theorem length_foldl_modify {α : Type} (f : α → Cell → Cell) (pos : α → Nat × Nat) (ps : List α) (g : Grid) :
    (ps.foldl (fun g a => g.modify (pos a).1 (pos a).2 (f a)) g).length = g.length := by
  induction ps generalizing g with
  | nil => rfl
  | cons p ps ih => simp only [List.foldl_cons]; rw [ih, Grid.modify_length]

theorem length_applyRegionC (ncols : Nat) (g : Grid) (m : Region) :
    (applyRegionC ncols g m).length = g.length := by
  unfold applyRegionC
  exact length_foldl_modify (fun rc => markCell m rc) id _ g

theorem rect_applyRegionC {n : Nat} (ncols : Nat) {g : Grid} (h : Rect n g) (m : Region) :
    Rect n (applyRegionC ncols g m) := by
  unfold applyRegionC
  exact foldl_preserves (Rect n) _ (fun _ _ ha => rect_modify ha _ _ _) _ _ h

theorem length_applyRegions (ncols : Nat) (ms : List Region) (g : Grid) :
    (ms.foldl (applyRegionC ncols) g).length = g.length := by
  induction ms generalizing g with
  | nil => rfl
  | cons m ms ih => simp only [List.foldl_cons]; rw [ih, length_applyRegionC]

theorem rect_applyRegions {n : Nat} (ncols : Nat) (ms : List Region) {g : Grid} (h : Rect n g) :
    Rect n (ms.foldl (applyRegionC ncols) g) :=
  foldl_preserves (Rect n) _ (fun _ b ha => rect_applyRegionC ncols ha b) _ _ h

/-- in a rectangular grid `get` succeeds exactly inside the rectangle -/
theorem get_isSome_of_rect {n : Nat} {g : Grid} (h : Rect n g) (r c : Nat) :
    (g.get r c).isSome = (decide (r < g.length) && decide (c < n)) := by
  unfold Grid.get
  by_cases hr : r < g.length
  · have hrow := h g[r] (List.getElem_mem hr)
    rw [List.getElem?_eq_getElem hr]
    simp only [Option.bind_some, hr, decide_true, Bool.true_and]
    by_cases hc : c < n
    · rw [List.getElem?_eq_getElem (by omega)]; simp [hc]
    · rw [List.getElem?_eq_none (by omega)]; simp [hc]
  · rw [List.getElem?_eq_none (by omega)]; simp [hr]

/-! ## the dimension pass covers every write -/

def rowStep (m : Nat) (r : RowXML) : Nat := if r.r > (m : Int) then r.r.toNat else m

theorem maxRowOf_eq (rows : List RowXML) : maxRowOf rows = rows.foldl rowStep 0 := rfl

theorem rowStep_ge (m : Nat) (r : RowXML) : m ≤ rowStep m r := by
  unfold rowStep; split <;> omega

theorem maxRow_foldl_ge (rows : List RowXML) (m0 : Nat) : m0 ≤ rows.foldl rowStep m0 := by
  induction rows generalizing m0 with
  | nil => exact Nat.le_refl _
  | cons row rows ih => exact Nat.le_trans (rowStep_ge m0 row) (ih _)

theorem maxRow_foldl_mem (rows : List RowXML) (m0 : Nat) (row : RowXML) (h : row ∈ rows) :
    row.r ≤ ((rows.foldl rowStep m0 : Nat) : Int) := by
  induction rows generalizing m0 with
  | nil => cases h
  | cons x rows ih =>
    simp only [List.foldl_cons]
    rcases List.mem_cons.mp h with h | h
    · subst h
      have h1 := maxRow_foldl_ge rows (rowStep m0 row)
      have h2 : row.r ≤ ((rowStep m0 row : Nat) : Int) := by unfold rowStep; split <;> omega
      omega
    · exact ih _ h

/-- every `<row>` element's number is at most the row count of the grid -/
theorem row_le_maxRow (rows : List RowXML) (row : RowXML) (h : row ∈ rows) :
    row.r ≤ (maxRowOf rows : Int) := by
  rw [maxRowOf_eq]; exact maxRow_foldl_mem rows 0 row h

def colStep (m : Nat) (c : CellXML) : Nat :=
  match refCol c.ref with
  | some col => if col > m then col else m
  | none => m

theorem colStep_ge (m : Nat) (c : CellXML) : m ≤ colStep m c := by
  unfold colStep; split
  · split <;> omega
  · exact Nat.le_refl _

theorem cells_foldl_ge (cells : List CellXML) (m0 : Nat) : m0 ≤ cells.foldl colStep m0 := by
  induction cells generalizing m0 with
  | nil => exact Nat.le_refl _
  | cons c cs ih => exact Nat.le_trans (colStep_ge m0 c) (ih _)

theorem cells_foldl_mem (cells : List CellXML) (m0 : Nat) (x : CellXML) (h : x ∈ cells) (col : Nat)
    (hc : refCol x.ref = some col) : col ≤ cells.foldl colStep m0 := by
  induction cells generalizing m0 with
  | nil => cases h
  | cons c cs ih =>
    simp only [List.foldl_cons]
    rcases List.mem_cons.mp h with h | h
    · subst h
      refine Nat.le_trans ?_ (cells_foldl_ge cs _)
      unfold colStep; rw [hc]; simp only; split <;> omega
    · exact ih _ h

theorem maxColOf_eq (rows : List RowXML) :
    maxColOf rows = rows.foldl (fun m (r : RowXML) => r.cells.foldl colStep m) 0 := rfl

theorem maxCol_foldl_ge (rows : List RowXML) (m0 : Nat) :
    m0 ≤ rows.foldl (fun m (r : RowXML) => r.cells.foldl colStep m) m0 := by
  induction rows generalizing m0 with
  | nil => exact Nat.le_refl _
  | cons row rows ih => exact Nat.le_trans (cells_foldl_ge row.cells m0) (ih _)

theorem maxCol_foldl_mem (rows : List RowXML) (m0 : Nat) (row : RowXML) (h : row ∈ rows)
    (x : CellXML) (hx : x ∈ row.cells) (col : Nat) (hc : refCol x.ref = some col) :
    col ≤ rows.foldl (fun m (r : RowXML) => r.cells.foldl colStep m) m0 := by
  induction rows generalizing m0 with
  | nil => cases h
  | cons y rows ih =>
    simp only [List.foldl_cons]
    rcases List.mem_cons.mp h with h | h
    · subst h
      exact Nat.le_trans (cells_foldl_mem row.cells m0 x hx col hc) (maxCol_foldl_ge rows _)
    · exact ih _ h

/-- every parsable cell reference names a column inside the grid -/
theorem col_le_maxCol (rows : List RowXML) (row : RowXML) (h : row ∈ rows)
    (x : CellXML) (hx : x ∈ row.cells) (col : Nat) (hc : refCol x.ref = some col) :
    col ≤ maxColOf rows := by
  rw [maxColOf_eq]; exact maxCol_foldl_mem rows 0 row h x hx col hc

/-! ## the cells of the file addressed to one position -/

/-- the `<c>` elements addressed to position `(r,c)` (0-indexed), in source order: those in a
`<row>` numbered `r+1` whose reference parses to column `c` -/
def addressed (rows : List RowXML) (r c : Nat) : List CellXML :=
  rows.flatMap fun row => if row.r = (r : Int) + 1 then row.cells.filter (fun cx => refCol cx.ref == some c) else []

theorem filter_cells_same (ri c : Nat) (cells : List CellXML) :
    ((cells.filterMap fun x => (refCol x.ref).map fun col => (ri, col, x)).filter
        (fun w => w.1 = ri ∧ w.2.1 = c)).map (·.2.2) = cells.filter (fun cx => refCol cx.ref == some c) := by
  induction cells with
  | nil => rfl
  | cons x xs ih =>
    simp only [List.filterMap_cons, List.filter_cons]
    cases h : refCol x.ref with
    | none => simpa using ih
    | some col =>
      simp only [Option.map_some, List.filter_cons, true_and]
      by_cases hc : col = c
      · subst hc; simpa using ih
      · have : ¬ (some col == some c) = true := by simpa using hc
        simpa [hc, this] using ih

theorem filter_cells_other (ri r c : Nat) (hne : ri ≠ r) (cells : List CellXML) :
    ((cells.filterMap fun x => (refCol x.ref).map fun col => (ri, col, x)).filter
        (fun w => w.1 = r ∧ w.2.1 = c)) = [] := by
  rw [List.filter_eq_nil_iff]
  intro w hw
  simp only [List.mem_filterMap, Option.map_eq_some_iff] at hw
  obtain ⟨x, _, col, _, rfl⟩ := hw
  simp [hne]

theorem filter_rowWrites (n r c : Nat) (hr : r < n) (row : RowXML) :
    ((rowWrites n row).filter (fun w => w.1 = r ∧ w.2.1 = c)).map (·.2.2) =
      if row.r = (r : Int) + 1 then row.cells.filter (fun cx => refCol cx.ref == some c) else [] := by
  unfold rowWrites
  split
  · have : ¬ row.r = (r : Int) + 1 := by omega
    simp [this]
  · split
    · have : ¬ row.r = (r : Int) + 1 := by omega
      simp [this]
    · by_cases h : row.r = (r : Int) + 1
      · have e : (row.r - 1).toNat = r := by omega
        rw [e]; simp only [h, if_true]
        exact filter_cells_same r c row.cells
      · have e : (row.r - 1).toNat ≠ r := by omega
        simp only [h, if_false]
        rw [filter_cells_other _ r c e]; rfl

/-- the effective writes of the second pass to an in-grid position are the addressed cells -/
theorem filter_writes (n r c : Nat) (hr : r < n) (rows : List RowXML) :
    ((writes n rows).filter (fun w => w.1 = r ∧ w.2.1 = c)).map (·.2.2) = addressed rows r c := by
  induction rows with
  | nil => rfl
  | cons row rows ih =>
    simp only [writes, addressed, List.flatMap_cons, List.filter_append, List.map_append]
    rw [filter_rowWrites n r c hr row]
    congr 1

/-- nothing is addressed outside the grid the dimension pass allocates -/
theorem addressed_in_grid (rows : List RowXML) (r c : Nat) (h : addressed rows r c ≠ []) :
    r < maxRowOf rows ∧ c ≤ maxColOf rows := by
  unfold addressed at h
  obtain ⟨x, hx⟩ := List.exists_mem_of_ne_nil _ h
  simp only [List.mem_flatMap] at hx
  obtain ⟨row, hrow, hx⟩ := hx
  split at hx
  · rename_i hr
    simp only [List.mem_filter, beq_iff_eq] at hx
    have h1 := row_le_maxRow rows row hrow
    exact ⟨by omega, col_le_maxCol rows row hrow x hx.1 c hx.2⟩
  · cases hx

/-! ## the merge pass, position by position -/

/-- position `(r,c)` lies in the region as declared -/
def covers (m : Region) (r c : Nat) : Prop := (m.sr ≤ r ∧ r ≤ m.er) ∧ (m.sc ≤ c ∧ c ≤ m.ec)

instance (m : Region) (r c : Nat) : Decidable (covers m r c) := by unfold covers; infer_instance

theorem mem_regionCells' (m : Region) (r c : Nat) : (r, c) ∈ regionCells m ↔ covers m r c := by
  unfold regionCells covers
  simp only [List.mem_flatMap, List.mem_range, List.mem_map, Prod.mk.injEq]
  constructor
  · rintro ⟨dr, hdr, dc, hdc, h1, h2⟩
    omega
  · rintro ⟨⟨h1, h2⟩, h3, h4⟩
    exact ⟨r - m.sr, by omega, c - m.sc, by omega, by omega, by omega⟩

/-- the merge pass visits exactly the positions of the region that lie in the grid -/
theorem mem_visited (nrows ncols : Nat) (m : Region) (r c : Nat) :
    (r, c) ∈ visited nrows ncols m ↔ covers m r c ∧ r < nrows ∧ c < ncols := by
  unfold visited
  split
  · rename_i h
    constructor
    · intro h'; cases h'
    · rintro ⟨_, h1, h2⟩; omega
  · rename_i h
    rw [mem_regionCells']
    unfold covers clipRegion
    simp only
    constructor
    · rintro ⟨⟨h1, h2⟩, h3, h4⟩
      split at h2 <;> split at h4 <;> omega
    · rintro ⟨⟨⟨h1, h2⟩, h3, h4⟩, h5, h6⟩
      refine ⟨⟨h1, ?_⟩, h3, ?_⟩
      · split <;> omega
      · split <;> omega

/-- what any number of marks of one region do to a cell -/
theorem marks_fold (m : Region) (qs : List (Nat × Nat)) (cell : Cell) :
    let res := qs.foldl (fun cell rc => markCell m rc cell) cell
    res.value = cell.value ∧ res.type = cell.type ∧
      res.merged = (cell.merged || !qs.isEmpty) ∧
      res.root = (cell.root || qs.any (fun rc => decide (rc.1 = m.sr ∧ rc.2 = m.sc))) := by
  induction qs generalizing cell with
  | nil => simp
  | cons q qs ih =>
    simp only [List.foldl_cons]
    obtain ⟨h1, h2, h3, h4⟩ := ih (markCell m q cell)
    refine ⟨?_, ?_, ?_, ?_⟩
    · rw [h1]; unfold markCell; split <;> rfl
    · rw [h2]; unfold markCell; split <;> rfl
    · rw [h3]; unfold markCell; split <;> simp
    · rw [h4]; unfold markCell
      by_cases hq1 : q.1 = m.sr <;> by_cases hq2 : q.2 = m.sc <;> simp [hq1, hq2]

theorem get_foldl_marks (m : Region) (ps : List (Nat × Nat)) (g : Grid) (r c : Nat) :
    (ps.foldl (fun g (rc : Nat × Nat) => g.modify rc.1 rc.2 (markCell m rc)) g).get r c =
      (g.get r c).map fun cell =>
        (ps.filter fun p => p.1 = r ∧ p.2 = c).foldl (fun cell rc => markCell m rc cell) cell := by
  induction ps generalizing g with
  | nil => simp
  | cons p ps ih =>
    simp only [List.foldl_cons]
    rw [ih, Grid.get_modify]
    by_cases h : p.1 = r ∧ p.2 = c
    · obtain ⟨h1, h2⟩ := h
      subst h1; subst h2
      simp [List.filter_cons]
      rfl
    · simp only [h, if_false]
      rw [List.filter_cons]
      simp [h]

theorem filter_pos_isEmpty (ps : List (Nat × Nat)) (r c : Nat) :
    (ps.filter fun p => p.1 = r ∧ p.2 = c).isEmpty = !decide ((r, c) ∈ ps) := by
  induction ps with
  | nil => simp
  | cons p ps ih =>
    rw [List.filter_cons]
    by_cases hp : p.1 = r ∧ p.2 = c
    · have : p = (r, c) := Prod.ext hp.1 hp.2
      simp [hp, this]
    · have hne : ¬ (r, c) = p := fun h => hp (by rw [← h]; exact ⟨rfl, rfl⟩)
      simp only [hp, decide_false, Bool.false_eq_true, if_false, List.mem_cons, hne, false_or]
      exact ih

theorem filter_pos_any (ps : List (Nat × Nat)) (r c : Nat) (m : Region) :
    (ps.filter fun p => p.1 = r ∧ p.2 = c).any (fun rc => decide (rc.1 = m.sr ∧ rc.2 = m.sc)) =
      (decide ((r, c) ∈ ps) && decide (r = m.sr ∧ c = m.sc)) := by
  induction ps with
  | nil => simp
  | cons p ps ih =>
    rw [List.filter_cons]
    by_cases hp : p.1 = r ∧ p.2 = c
    · have : p = (r, c) := Prod.ext hp.1 hp.2
      subst this
      simp only [and_self, decide_true, if_true, List.any_cons, ih, List.mem_cons, true_or]
      by_cases hroot : r = m.sr ∧ c = m.sc <;> simp [hroot]
    · have hne : ¬ (r, c) = p := fun h => hp (by rw [← h]; exact ⟨rfl, rfl⟩)
      simp only [hp, decide_false, Bool.false_eq_true, if_false, List.mem_cons, hne, false_or]
      exact ih

/-- the summary of a cell the merge pass works on -/
structure CellMarks where
  value : Str
  type : CType
  merged : Bool
  root : Bool
  deriving DecidableEq

def marksOf (c : Cell) : CellMarks := ⟨c.value, c.type, c.merged, c.root⟩

/-- one region: value and type stay, `merged` is set on the positions of the region inside the
grid, `root` on its top-left if that is one of them -/
theorem get_applyRegionC (ncols : Nat) (g : Grid) (m : Region) (r c : Nat) :
    ((applyRegionC ncols g m).get r c).map marksOf =
      (g.get r c).map fun cell =>
        { value := cell.value, type := cell.type,
          merged := cell.merged || decide (covers m r c ∧ r < g.length ∧ c < ncols),
          root := cell.root || (decide (covers m r c ∧ r < g.length ∧ c < ncols) && decide (r = m.sr ∧ c = m.sc)) } := by
  unfold applyRegionC
  rw [get_foldl_marks]
  cases g.get r c with
  | none => rfl
  | some cell =>
    simp only [Option.map_some, Option.some.injEq]
    obtain ⟨h1, h2, h3, h4⟩ := marks_fold m ((visited g.length ncols m).filter fun p => p.1 = r ∧ p.2 = c) cell
    unfold marksOf
    rw [h1, h2, h3, h4, filter_pos_isEmpty, filter_pos_any]
    have e : decide ((r, c) ∈ visited g.length ncols m) = decide (covers m r c ∧ r < g.length ∧ c < ncols) := by
      simp only [mem_visited]
    rw [e]; simp

/-- all regions in turn -/
theorem get_applyRegions (ncols : Nat) (ms : List Region) (g : Grid) (r c : Nat) :
    ((ms.foldl (applyRegionC ncols) g).get r c).map marksOf =
      (g.get r c).map fun cell =>
        { value := cell.value, type := cell.type,
          merged := cell.merged || ms.any (fun m => decide (covers m r c ∧ r < g.length ∧ c < ncols)),
          root := cell.root || ms.any (fun m => decide (covers m r c ∧ r < g.length ∧ c < ncols) && decide (r = m.sr ∧ c = m.sc)) } := by
  induction ms generalizing g with
  | nil =>
    simp only [List.foldl_nil]
    cases g.get r c <;> simp [marksOf]
  | cons m ms ih =>
    simp only [List.foldl_cons]
    rw [ih, length_applyRegionC]
    have h := get_applyRegionC ncols g m r c
    cases hg : g.get r c with
    | none =>
      rw [hg] at h
      cases h2 : (applyRegionC ncols g m).get r c with
      | none => rfl
      | some x => rw [h2] at h; cases h
    | some cell =>
      rw [hg] at h
      cases h2 : (applyRegionC ncols g m).get r c with
      | none => rw [h2] at h; cases h
      | some x =>
        rw [h2] at h
        simp only [Option.map_some, Option.some.injEq, marksOf, CellMarks.mk.injEq] at h
        obtain ⟨e1, e2, e3, e4⟩ := h
        simp only [Option.map_some, Option.some.injEq, CellMarks.mk.injEq, e1, e2, e3, e4, List.any_cons, Bool.or_assoc, and_self]

/-! ## the loader end to end -/

theorem get_emptyGrid (m n r c : Nat) (hr : r < m) (hc : c < n) : (emptyGrid m n).get r c = some {} := by
  unfold emptyGrid Grid.get
  rw [List.getElem?_replicate]
  simp [hr, List.getElem?_replicate, hc]

/-- the merged regions the file declares (ranges that parse) -/
def fileRegions (x : SheetXML) : List Region := x.merges.filterMap parseRegion

/-- the cell the file stores for position `(r,c)`: the addressed `<c>` elements applied in source
order to an empty cell (one element, as producers write: that element's content) -/
def fileCell (shared : List Str) (x : SheetXML) (r c : Nat) : Cell :=
  (addressed x.rows r c).foldl (fun cell cx => cellContent shared cx cell) {}

/-- **the merged regions that are applied**, from the file only: the longest prefix of the
declared regions whose rectangles, clipped to the grid of the dimension pass, add up to at most
the cells of that grid (`Sheet.appliedPrefix`; the merge loop of `parseWorksheet` stops at the
first region that exceeds what is left of this budget).  For every sheet whose regions' clipped
areas fit the grid — in particular pairwise disjoint regions, i.e. every valid sheet — these are
all declared regions (`applied_all_of_fit`, `applied_all_of_disjoint` in
`Lemmas/WorkbookBudget.lean`). -/
def appliedRegions (x : SheetXML) : List Region :=
  appliedPrefix (maxRowOf x.rows) (maxColOf x.rows + 1) (fileRegions x) (gridSize x)

/-- some applied region covers the position -/
def isCovered (x : SheetXML) (r c : Nat) : Bool := (appliedRegions x).any fun m => decide (covers m r c)

/-- the position is the top-left cell of an applied region -/
def isRoot (x : SheetXML) (r c : Nat) : Bool :=
  (appliedRegions x).any fun m => decide (covers m r c) && decide (r = m.sr ∧ c = m.sc)

/-- **the displayed value** the file gives a position: blank under an applied merged region except
at a top-left corner, else the stored value -/
def displayed (shared : List Str) (x : SheetXML) (r c : Nat) : Str :=
  if isCovered x r c && !isRoot x r c then [] else (fileCell shared x r c).value

/-- the type switch writes type and value only -/
theorem cellContent_flags (shared : List Str) (x : CellXML) (old : Cell) :
    (cellContent shared x old).merged = old.merged ∧ (cellContent shared x old).root = old.root ∧
      (cellContent shared x old).mergeRows = old.mergeRows ∧ (cellContent shared x old).mergeCols = old.mergeCols := by
  unfold cellContent
  iterate 7 (split; · exact ⟨rfl, rfl, rfl, rfl⟩)
  exact ⟨rfl, rfl, rfl, rfl⟩

theorem foldl_cellContent_flags (shared : List Str) (xs : List CellXML) (old : Cell) :
    let res := xs.foldl (fun cell cx => cellContent shared cx cell) old
    res.merged = old.merged ∧ res.root = old.root ∧ res.mergeRows = old.mergeRows ∧ res.mergeCols = old.mergeCols := by
  induction xs generalizing old with
  | nil => exact ⟨rfl, rfl, rfl, rfl⟩
  | cons x xs ih =>
    simp only [List.foldl_cons]
    obtain ⟨a, b, c, d⟩ := ih (cellContent shared x old)
    obtain ⟨a', b', c', d'⟩ := cellContent_flags shared x old
    exact ⟨a.trans a', b.trans b', c.trans c', d.trans d'⟩

theorem length_prodRange (a b : Nat) (f : Nat → Nat → Nat × Nat) :
    ((List.range a).flatMap fun dr => (List.range b).map fun dc => f dr dc).length = a * b := by
  induction a with
  | zero => simp
  | succ a ih => simp [List.range_succ, List.flatMap_append, ih, Nat.succ_mul]

theorem length_regionCells (m : Region) :
    (regionCells m).length = (m.er + 1 - m.sr) * (m.ec + 1 - m.sc) := by
  unfold regionCells; exact length_prodRange _ _ _

theorem length_visited (nrows ncols : Nat) (m : Region) :
    (visited nrows ncols m).length = clipArea nrows ncols m := by
  unfold visited clipArea
  split
  · rename_i h
    rcases h with h | h <;> subst h <;> simp
  · rename_i h
    rw [length_regionCells]
    unfold clipRegion
    simp only
    congr 1
    · split <;> omega
    · split <;> omega

/-- for a region without a cell in the grid the merge pass of `applyRegionC` does nothing -/
theorem applyRegionC_neutral (ncols : Nat) (g : Grid) (m : Region) (h : clipArea g.length ncols m = 0) :
    applyRegionC ncols g m = g := by
  unfold applyRegionC
  have : visited g.length ncols m = [] := List.eq_nil_of_length_eq_zero (by rw [length_visited, h])
  rw [this]; rfl

theorem loadSheet_some {shared : List Str} {i used : Nat} {fresh : Bool} {x : SheetXML} {s : Sheet}
    (h : loadSheet shared i used fresh x = some s) :
    s.name = x.name ∧ s.index = i ∧ s.maxCol = maxColOf x.rows ∧ s.regions = fileRegions x ∧
      s.rows = (appliedRegions x).foldl (applyRegionC (maxColOf x.rows + 1))
        (x.rows.foldl (placeRow shared) (emptyGrid (maxRowOf x.rows) (maxColOf x.rows + 1))) := by
  unfold loadSheet at h
  simp only at h
  split at h
  · cases h
  · simp only [Option.some.injEq] at h
    subst h
    refine ⟨rfl, rfl, rfl, rfl, ?_⟩
    simp only
    rw [mergeLoop_eq_foldl _ _ _ (fun g => g.length = maxRowOf x.rows)
      (fun g m hg => by rw [length_applyRegionC]; exact hg)
      (fun g m hg hz => applyRegionC_neutral _ g m (by rw [hg]; exact hz))
      _ _ _ (by rw [length_placeRows, length_emptyGrid])]
    rfl

/-- the grid of a loaded sheet has the dimensions of the dimension pass -/
theorem loadSheet_shape {shared : List Str} {i used : Nat} {fresh : Bool} {x : SheetXML} {s : Sheet}
    (h : loadSheet shared i used fresh x = some s) :
    s.rows.length = maxRowOf x.rows ∧ Rect (s.maxCol + 1) s.rows := by
  obtain ⟨_, _, h3, _, h5⟩ := loadSheet_some h
  rw [h5, h3]
  refine ⟨?_, ?_⟩
  · rw [length_applyRegions, length_placeRows, length_emptyGrid]
  · exact rect_applyRegions _ _ (rect_placeRows _ _ (rect_emptyGrid _ _))

/-- **every position of the grid of a loaded sheet**: value and type are those the file stores
for the position, `merged`/`root` say whether an applied region covers it / starts at it -/
theorem loadSheet_get {shared : List Str} {i used : Nat} {fresh : Bool} {x : SheetXML} {s : Sheet}
    (h : loadSheet shared i used fresh x = some s) (r c : Nat) (hr : r < maxRowOf x.rows) (hc : c ≤ maxColOf x.rows) :
    (s.rows.get r c).map marksOf =
      some ⟨(fileCell shared x r c).value, (fileCell shared x r c).type, isCovered x r c, isRoot x r c⟩ := by
  obtain ⟨_, _, _, _, h5⟩ := loadSheet_some h
  rw [h5, get_applyRegions, length_placeRows, length_emptyGrid, placement_eq]
  rw [get_emptyGrid _ _ _ _ hr (by omega)]
  simp only [Option.map_some, Option.some.injEq, length_emptyGrid]
  have hin : ∀ m : Region, decide (covers m r c ∧ r < maxRowOf x.rows ∧ c < maxColOf x.rows + 1) = decide (covers m r c) := by
    intro m
    have : c < maxColOf x.rows + 1 := by omega
    simp [hr, this]
  have hfold : ((writes (maxRowOf x.rows) x.rows).filter fun w => w.1 = r ∧ w.2.1 = c).foldl
      (fun cell w => cellContent shared w.2.2 cell) {} = fileCell shared x r c := by
    unfold fileCell
    rw [← filter_writes (maxRowOf x.rows) r c hr x.rows, List.foldl_map]
  rw [hfold]
  simp only [hin]
  obtain ⟨hm, hroot, _, _⟩ := foldl_cellContent_flags shared (addressed x.rows r c) {}
  have hm' : (fileCell shared x r c).merged = false := hm
  have hr' : (fileCell shared x r c).root = false := hroot
  unfold isCovered isRoot
  simp [hm', hr']
where
  placement_eq : ∀ {shared : List Str} {rows : List RowXML} {g0 : Grid} {r c : Nat},
      (rows.foldl (placeRow shared) g0).get r c = (g0.get r c).map fun cell =>
        ((writes g0.length rows).filter fun w => w.1 = r ∧ w.2.1 = c).foldl
          (fun cell w => cellContent shared w.2.2 cell) cell := by
    intro shared rows g0 r c
    rw [placeRows_eq_writes, get_foldl_applyWrite]

/-! ## the dimension pass is a least upper bound -/

theorem maxRow_foldl_le (rows : List RowXML) (m0 M : Nat) (h0 : m0 ≤ M) (h : ∀ row ∈ rows, row.r ≤ (M : Int)) :
    rows.foldl rowStep m0 ≤ M := by
  induction rows generalizing m0 with
  | nil => exact h0
  | cons row rows ih =>
    simp only [List.foldl_cons]
    apply ih
    · have := h row (by simp)
      unfold rowStep; split <;> omega
    · intro r hr; exact h r (by simp [hr])

theorem cells_foldl_le (cells : List CellXML) (m0 M : Nat) (h0 : m0 ≤ M)
    (h : ∀ x ∈ cells, ∀ col, refCol x.ref = some col → col ≤ M) : cells.foldl colStep m0 ≤ M := by
  induction cells generalizing m0 with
  | nil => exact h0
  | cons c cs ih =>
    simp only [List.foldl_cons]
    apply ih
    · unfold colStep
      cases hc : refCol c.ref with
      | none => exact h0
      | some col =>
        have := h c (by simp) col hc
        simp only; split <;> omega
    · intro x hx; exact h x (by simp [hx])

theorem maxCol_foldl_le (rows : List RowXML) (m0 M : Nat) (h0 : m0 ≤ M)
    (h : ∀ row ∈ rows, ∀ x ∈ row.cells, ∀ col, refCol x.ref = some col → col ≤ M) :
    rows.foldl (fun m (r : RowXML) => r.cells.foldl colStep m) m0 ≤ M := by
  induction rows generalizing m0 with
  | nil => exact h0
  | cons row rows ih =>
    simp only [List.foldl_cons]
    apply ih
    · exact cells_foldl_le row.cells m0 M h0 (h row (by simp))
    · intro r hr; exact h r (by simp [hr])

end Tabula.Wb
