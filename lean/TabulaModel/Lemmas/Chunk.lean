import TabulaModel.Model.Chunk
import TabulaModel.Lemmas.A1
/-!
Helper lemmas for property C12 (element-based chunker): white-space stripping, the
per-step invariants of `chunkPage` (cover, indices, page numbers), the simulation between
two section trackers, and the specification of the heading stack.
-/
namespace Tabula.Chunk

/-! ### strip / trim -/

theorem strip_append (a b : Str) : strip (a ++ b) = strip a ++ strip b := by
  unfold strip; exact List.filter_append a b

theorem strip_nil : strip [] = [] := rfl

theorem strip_reverse (a : Str) : strip a.reverse = (strip a).reverse := by
  unfold strip; exact List.filter_reverse

theorem strip_dropWhile (a : Str) : strip (a.dropWhile isSpace) = strip a := by
  induction a with
  | nil => rfl
  | cons c cs ih =>
    rw [List.dropWhile_cons]
    by_cases h : isSpace c = true
    · simp only [h, if_true, ih]
      unfold strip
      simp [h]
    · simp only [h]; rfl

theorem strip_trim (a : Str) : strip (trim a) = strip a := by
  unfold trim
  rw [strip_reverse, strip_dropWhile, strip_reverse, List.reverse_reverse, strip_dropWhile]

theorem strip_nn : strip [10, 10] = [] := by decide

/-! ### trimRight (`strings.TrimRightFunc(s, unicode.IsSpace)`, the list chunk text) -/

theorem trim_eq_trimRight (a : Str) : trim a = trimRight (a.dropWhile isSpace) := rfl

theorem strip_trimRight (a : Str) : strip (trimRight a) = strip a := by
  unfold trimRight
  rw [strip_reverse, strip_dropWhile, strip_reverse, List.reverse_reverse]

theorem mem_takeWhile_isSpace (l : Str) : ∀ c ∈ l.takeWhile isSpace, isSpace c = true := by
  induction l with
  | nil => intro c hc; cases hc
  | cons x l ih =>
    intro c hc
    rw [List.takeWhile_cons] at hc
    by_cases hx : isSpace x = true
    · simp only [hx, if_true, List.mem_cons] at hc
      rcases hc with rfl | hc
      · exact hx
      · exact ih c hc
    · simp [hx] at hc

/-- trimming the end takes white space from the end and nothing else -/
theorem trimRight_tail (s : Str) : ∃ ws, (∀ c ∈ ws, isSpace c = true) ∧ trimRight s ++ ws = s := by
  refine ⟨(s.reverse.takeWhile isSpace).reverse, ?_, ?_⟩
  · intro c hc
    exact mem_takeWhile_isSpace _ c (List.mem_reverse.mp hc)
  · unfold trimRight
    rw [← List.reverse_append, List.takeWhile_append_dropWhile, List.reverse_reverse]

/-- everything up to a byte that is not white space survives the trimming of the end -/
theorem trimRight_keep (a : Str) (c : Nat) (b : Str) (hc : isSpace c = false) :
    trimRight (a ++ c :: b) = a ++ c :: trimRight b := by
  have key : ∀ r : Str, ((r ++ c :: a.reverse).dropWhile isSpace).reverse
      = a ++ c :: (r.dropWhile isSpace).reverse := by
    intro r
    induction r with
    | nil => simp [hc]
    | cons x r ih =>
      by_cases hx : isSpace x = true
      · simpa [List.dropWhile_cons, hx] using ih
      · simp [hx]
  unfold trimRight
  have := key b.reverse
  simpa using this

/-- concatenated chunk texts -/
def textsOf (cs : List Chunk) : Str := (cs.map (·.text)).flatten

theorem textsOf_nil : textsOf [] = [] := rfl

theorem textsOf_append (a b : List Chunk) : textsOf (a ++ b) = textsOf a ++ textsOf b := by
  unfold textsOf; rw [List.map_append, List.flatten_append]

theorem textsOf_cons (c : Chunk) (cs : List Chunk) : textsOf (c :: cs) = c.text ++ textsOf cs := rfl

theorem textsOf_flatten (gs : List (List Chunk)) : textsOf gs.flatten = (gs.map textsOf).flatten := by
  induction gs with
  | nil => rfl
  | cons g gs ih => rw [List.flatten_cons, textsOf_append, ih]; rfl

/-- the contract the text splitter has to meet (property C13, `split_conserves`) -/
def SplitOK (sp : Splitter) : Prop := ∀ t ps, sp t = some ps → strip ps.flatten = strip t

/-! ### pieces -/

theorem piecesToChunks_length (path : List Str) (page : Int) (ps : List Str) (idx : Nat) :
    (piecesToChunks path page ps idx).length = ps.length := by
  induction ps generalizing idx with
  | nil => rfl
  | cons t ts ih => simp [piecesToChunks, ih]

theorem piecesToChunks_idx (path : List Str) (page : Int) (ps : List Str) (idx : Nat) :
    (piecesToChunks path page ps idx).map (·.idx) = List.range' idx ps.length := by
  induction ps generalizing idx with
  | nil => rfl
  | cons t ts ih => simp [piecesToChunks, ih, mkChunk, List.range'_succ]

theorem piecesToChunks_texts (path : List Str) (page : Int) (ps : List Str) (idx : Nat) :
    strip (textsOf (piecesToChunks path page ps idx)) = strip ps.flatten := by
  induction ps generalizing idx with
  | nil => rfl
  | cons t ts ih =>
    simp only [piecesToChunks, textsOf_cons, List.flatten_cons, strip_append, ih]
    simp [mkChunk, strip_trim]

theorem piecesToChunks_mem (path : List Str) (page : Int) (ps : List Str) (idx : Nat) :
    ∀ c ∈ piecesToChunks path page ps idx,
      c.pageStart = page ∧ c.pageEnd = page ∧ c.path = path ∧ c.id = chunkId c.idx := by
  induction ps generalizing idx with
  | nil => intro c h; cases h
  | cons t ts ih =>
    intro c h
    simp only [piecesToChunks, List.mem_cons] at h
    rcases h with h | h
    · subst h; simp [mkChunk]
    · exact ih _ c h

/-! ### per-chunk facts that every step preserves -/

/-- what is true of every chunk produced on page `page` -/
def ChunkOK (page : Int) (c : Chunk) : Prop :=
  c.pageStart = page ∧ c.pageEnd = page ∧ c.id = chunkId c.idx

/-- the chunks `cs` emitted from a state with index `i` are numbered `i, i+1, …` -/
def Seq (i : Nat) (cs : List Chunk) : Prop := cs.map (·.idx) = List.range' i cs.length

theorem Seq_nil (i : Nat) : Seq i [] := rfl

theorem Seq_append {i : Nat} {a b : List Chunk} (ha : Seq i a) (hb : Seq (i + a.length) b) :
    Seq i (a ++ b) := by
  unfold Seq at *
  rw [List.map_append, ha, hb, List.length_append]
  simp

theorem textBlockToChunks_seq (sp : Splitter) (text : Str) (path : List Str) (page : Int) (i : Nat) :
    Seq i (textBlockToChunks sp text path page i) := by
  unfold textBlockToChunks Seq
  split <;> rw [piecesToChunks_idx, piecesToChunks_length]

theorem textBlockToChunks_ok (sp : Splitter) (text : Str) (path : List Str) (page : Int) (i : Nat) :
    ∀ c ∈ textBlockToChunks sp text path page i, ChunkOK page c ∧ c.path = path := by
  intro c h
  unfold textBlockToChunks at h
  split at h <;>
  · have := piecesToChunks_mem path page _ i c h
    exact ⟨⟨this.1, this.2.1, this.2.2.2⟩, this.2.2.1⟩

theorem textBlockToChunks_texts (sp : Splitter) (hsp : SplitOK sp) (text : Str) (path : List Str)
    (page : Int) (i : Nat) :
    strip (textsOf (textBlockToChunks sp text path page i)) = strip text := by
  unfold textBlockToChunks
  split
  · rw [piecesToChunks_texts]; simp
  · rename_i ps h
    rw [piecesToChunks_texts]; exact hsp text ps h

/-! ### flush, emitOne, stepElem, runElems: the three invariants at once -/

/-- Result of a step from state `st`: the emitted chunks are well-formed for the page and
numbered from `st.idx`, the new index accounts for them, and (cover) the stripped texts
emitted plus the stripped pending block equal the stripped old block plus `added`. -/
structure StepOK {σ} (sp : Splitter) (page : Int) (st : St σ) (r : St σ × List Chunk) (added : Str) : Prop where
  seq : Seq st.idx r.2
  idx : r.1.idx = st.idx + r.2.length
  ok : ∀ c ∈ r.2, ChunkOK page c
  cover : strip (textsOf r.2) ++ strip r.1.block = strip st.block ++ strip added

theorem flush_ok {σ} (sp : Splitter) (hsp : SplitOK sp) (page : Int) (st : St σ) :
    StepOK sp page st (flush sp page st) [] ∧ (flush sp page st).1.block = [] ∧
      (flush sp page st).1.sec = st.sec := by
  unfold flush
  by_cases h : st.block = []
  · rw [if_pos h]
    refine ⟨⟨Seq_nil _, rfl, ?_, ?_⟩, h, rfl⟩
    · intro c hc; cases hc
    · simp [textsOf_nil, strip_nil]
  · rw [if_neg h]
    refine ⟨⟨textBlockToChunks_seq _ _ _ _ _, rfl, ?_, ?_⟩, rfl, rfl⟩
    · intro c hc; exact (textBlockToChunks_ok _ _ _ _ _ c hc).1
    · simp [textBlockToChunks_texts sp hsp, strip_nil]

theorem emitOne_ok {σ} (sp : Splitter) (hsp : SplitOK sp) (page : Int) (st : St σ) (sec : σ)
    (text : Str) (path : List Str) :
    StepOK sp page st (emitOne sp page st sec text path) text ∧
      (emitOne sp page st sec text path).1.block = [] := by
  obtain ⟨⟨hseq, hidx, hok, hcov⟩, hb, _⟩ := flush_ok sp hsp page st
  unfold emitOne
  generalize flush sp page st = r at *
  obtain ⟨st1, cs⟩ := r
  simp only at hseq hidx hok hcov hb ⊢
  refine ⟨⟨?_, ?_, ?_, ?_⟩, hb⟩
  · apply Seq_append hseq
    simp [Seq, mkChunk, hidx]
  · simp [hidx]; omega
  · intro c hc
    rcases List.mem_append.mp hc with h | h
    · exact hok c h
    · simp only [List.mem_singleton] at h; subst h; simp [ChunkOK, mkChunk]
  · rw [hb] at hcov
    simp only [strip_nil, List.append_nil] at hcov
    rw [textsOf_append, strip_append, hcov, hb]
    simp [strip_nil, textsOf, mkChunk]

theorem stepElem_ok {σ} (tr : Tracker σ) (sp : Splitter) (hsp : SplitOK sp) (toc : List TOCEntry)
    (page : Int) (st : St σ) (e : Elem) :
    StepOK sp page st (stepElem tr sp toc page st e) (render e) := by
  cases e with
  | heading l t => exact (emitOne_ok sp hsp page st _ _ _).1
  | list o items => exact (emitOne_ok sp hsp page st _ _ _).1
  | table rows => exact (emitOne_ok sp hsp page st _ _ _).1
  | image alt =>
    simp only [stepElem, render]
    by_cases h : alt = []
    · rw [if_pos h, if_pos h]; exact (flush_ok sp hsp page st).1
    · rw [if_neg h, if_neg h]; exact (emitOne_ok sp hsp page st _ _ _).1
  | para t =>
    simp only [stepElem, render]
    by_cases h : isHeadingElement t toc page = true
    · rw [if_pos h]; exact (emitOne_ok sp hsp page st _ _ _).1
    · rw [if_neg h]
      refine ⟨Seq_nil _, rfl, (by intro c hc; cases hc), ?_⟩
      show strip (textsOf []) ++ strip (if st.block = [] then t else st.block ++ [10, 10] ++ t) = _
      by_cases hb : st.block = []
      · rw [if_pos hb, hb]; simp [textsOf_nil, strip_nil]
      · rw [if_neg hb]
        simp only [textsOf_nil, strip_nil, strip_append, strip_nn, List.nil_append, List.append_nil]

theorem runElems_ok {σ} (tr : Tracker σ) (sp : Splitter) (hsp : SplitOK sp) (toc : List TOCEntry)
    (page : Int) (st : St σ) (es : List Elem) :
    StepOK sp page st (runElems tr sp toc page st es) (es.flatMap render) := by
  induction es generalizing st with
  | nil => exact ⟨Seq_nil _, by simp [runElems], (by intro c hc; cases hc), by simp [runElems, textsOf_nil, strip_nil]⟩
  | cons e es ih =>
    have h1 := stepElem_ok tr sp hsp toc page st e
    have h2 := ih (stepElem tr sp toc page st e).1
    simp only [runElems]
    refine ⟨?_, ?_, ?_, ?_⟩
    · exact Seq_append h1.seq (by rw [← h1.idx]; exact h2.seq)
    · simp only [List.length_append]; rw [h2.idx, h1.idx]; omega
    · intro c hc
      rcases List.mem_append.mp hc with h | h
      · exact h1.ok c h
      · exact h2.ok c h
    · simp only [textsOf_append, strip_append, List.flatMap_cons]
      rw [List.append_assoc, h2.cover, ← List.append_assoc, h1.cover, List.append_assoc]

/-- `resolveRepeatedHeadings` changes how an element is delivered, never its text -/
theorem resolveElems_render (layout : List (Int × Str)) (seen : List Str) (es : List Elem) :
    (resolveElems layout seen es).flatMap render = es.flatMap render := by
  induction es generalizing seen with
  | nil => rfl
  | cons e es ih =>
    cases e with
    | heading l t => simp only [resolveElems, List.flatMap_cons, ih]
    | list o items => simp only [resolveElems, List.flatMap_cons, ih]
    | table rows => simp only [resolveElems, List.flatMap_cons, ih]
    | image alt => simp only [resolveElems, List.flatMap_cons, ih]
    | para t =>
      simp only [resolveElems]
      split
      · simp only [List.flatMap_cons, ih]
      · simp only [List.flatMap_cons, ih]
        split <;> rfl

theorem resolve_render (pg : Page) :
    (resolveRepeatedHeadings pg).flatMap render = pg.elems.flatMap render := by
  unfold resolveRepeatedHeadings
  split
  · rfl
  · exact resolveElems_render _ _ _

/-- a whole page: from an empty block to an empty block -/
theorem chunkPage_ok {σ} (tr : Tracker σ) (sp : Splitter) (hsp : SplitOK sp) (toc : List TOCEntry)
    (st : St σ) (hst : st.block = []) (pg : Page) :
    StepOK sp pg.number st (chunkPage tr sp toc st pg) (pg.elems.flatMap render) ∧
      (chunkPage tr sp toc st pg).1.block = [] := by
  have h1 := runElems_ok tr sp hsp toc pg.number st (resolveRepeatedHeadings pg)
  rw [resolve_render] at h1
  obtain ⟨h2, hb, _⟩ := flush_ok sp hsp pg.number (runElems tr sp toc pg.number st (resolveRepeatedHeadings pg)).1
  unfold chunkPage
  refine ⟨⟨?_, ?_, ?_, ?_⟩, hb⟩
  · exact Seq_append h1.seq (by rw [← h1.idx]; exact h2.seq)
  · simp only [List.length_append]; rw [h2.idx, h1.idx]; omega
  · intro c hc
    rcases List.mem_append.mp hc with h | h
    · exact h1.ok c h
    · exact h2.ok c h
  · have c1 := h1.cover
    have c2 := h2.cover
    simp only [textsOf_append, strip_append]
    rw [hb] at c2 ⊢
    simp only [strip_nil, List.append_nil] at c2 ⊢
    rw [hst] at c1 ⊢
    simp only [strip_nil, List.nil_append] at c1 ⊢
    rw [c2, c1]

/-- what the chunks of one page look like -/
def PageOK (pg : Page) (g : List Chunk) : Prop :=
  (∀ c ∈ g, c.pageStart = pg.number ∧ c.pageEnd = pg.number) ∧
    strip (textsOf g) = strip (pg.elems.flatMap render)

/-- page by page: chunk group `i` belongs to page `i` -/
def PagesOK : List Page → List (List Chunk) → Prop
  | [], [] => True
  | pg :: pgs, g :: gs => PageOK pg g ∧ PagesOK pgs gs
  | _, _ => False

theorem chunkPages_ok {σ} (tr : Tracker σ) (sp : Splitter) (hsp : SplitOK sp) (toc : List TOCEntry)
    (st : St σ) (hst : st.block = []) (pgs : List Page) :
    PagesOK pgs (chunkPages tr sp toc st pgs) ∧
      Seq st.idx (chunkPages tr sp toc st pgs).flatten ∧
      (∀ c ∈ (chunkPages tr sp toc st pgs).flatten, c.id = chunkId c.idx) := by
  induction pgs generalizing st with
  | nil => exact ⟨trivial, Seq_nil _, (by intro c hc; cases hc)⟩
  | cons pg pgs ih =>
    obtain ⟨h1, hb⟩ := chunkPage_ok tr sp hsp toc st hst pg
    obtain ⟨i1, i2, i3⟩ := ih (chunkPage tr sp toc st pg).1 hb
    simp only [chunkPages, List.flatten_cons]
    refine ⟨⟨⟨?_, ?_⟩, i1⟩, ?_, ?_⟩
    · intro c hc; exact ⟨(h1.ok c hc).1, (h1.ok c hc).2.1⟩
    · have := h1.cover
      rw [hb, hst] at this
      simpa [strip_nil] using this
    · exact Seq_append h1.seq (by rw [← h1.idx]; exact i2)
    · intro c hc
      rcases List.mem_append.mp hc with h | h
      · exact (h1.ok c h).2.2
      · exact i3 c h

/-! ### `setTotal` -/

theorem setTotal_length (cs : List Chunk) : (setTotal cs).length = cs.length := by
  simp [setTotal]

theorem setTotal_texts (cs : List Chunk) : textsOf (setTotal cs) = textsOf cs := by
  simp [setTotal, textsOf, List.map_map, Function.comp_def]

theorem setTotal_idx (cs : List Chunk) : (setTotal cs).map (·.idx) = cs.map (·.idx) := by
  simp [setTotal, List.map_map, Function.comp_def]

theorem setTotal_id (cs : List Chunk) : (setTotal cs).map (·.id) = cs.map (·.id) := by
  simp [setTotal, List.map_map, Function.comp_def]

theorem setTotal_path (cs : List Chunk) : (setTotal cs).map (·.path) = cs.map (·.path) := by
  simp [setTotal, List.map_map, Function.comp_def]

/-! ### ids -/

theorem dec_injective {a b : Nat} (h : Tabula.A1.dec a = Tabula.A1.dec b) : a = b := by
  have ha := Tabula.A1.digitsAcc_dec a
  have hb := Tabula.A1.digitsAcc_dec b
  rw [h, hb] at ha
  exact (Option.some.inj ha).symm

theorem chunkId_injective {a b : Nat} (h : chunkId a = chunkId b) : a = b := by
  unfold chunkId at h
  exact dec_injective (List.append_cancel_left h)

/-! ### simulation between two section trackers -/

/-- two states that differ only in how the section path is tracked -/
def SimSt {σ τ} (R : σ → τ → Prop) (a : St σ) (b : St τ) : Prop :=
  R a.sec b.sec ∧ a.block = b.block ∧ a.blockPath = b.blockPath ∧ a.idx = b.idx

/-- a simulation relation: related states report the same path and stay related -/
structure TrackerSim {σ τ} (t1 : Tracker σ) (t2 : Tracker τ) (R : σ → τ → Prop) : Prop where
  init : R t1.init t2.init
  push : ∀ a b l t, R a b → R (t1.push a l t) (t2.push b l t)
  path : ∀ a b, R a b → t1.path a = t2.path b

theorem flush_sim {σ τ} (R : σ → τ → Prop) (sp : Splitter) (page : Int) (a : St σ) (b : St τ)
    (h : SimSt R a b) :
    SimSt R (flush sp page a).1 (flush sp page b).1 ∧ (flush sp page a).2 = (flush sp page b).2 := by
  obtain ⟨h1, h2, h3, h4⟩ := h
  unfold flush
  rw [← h2, ← h3, ← h4]
  by_cases hb : a.block = []
  · rw [if_pos hb, if_pos hb]; exact ⟨⟨h1, h2, h3, h4⟩, rfl⟩
  · rw [if_neg hb, if_neg hb]; exact ⟨⟨h1, rfl, rfl, rfl⟩, rfl⟩

theorem emitOne_sim {σ τ} (R : σ → τ → Prop) (sp : Splitter) (page : Int) (a : St σ) (b : St τ)
    (h : SimSt R a b) (s1 : σ) (s2 : τ) (hs : R s1 s2) (text : Str) (path : List Str) :
    SimSt R (emitOne sp page a s1 text path).1 (emitOne sp page b s2 text path).1 ∧
      (emitOne sp page a s1 text path).2 = (emitOne sp page b s2 text path).2 := by
  obtain ⟨⟨f1, f2, f3, f4⟩, fc⟩ := flush_sim R sp page a b h
  unfold emitOne
  generalize flush sp page a = ra at *
  generalize flush sp page b = rb at *
  obtain ⟨sa, ca⟩ := ra
  obtain ⟨sb, cb⟩ := rb
  simp only at f1 f2 f3 f4 fc ⊢
  subst fc
  exact ⟨⟨hs, f2, f3, by simp [f4]⟩, by simp [f4]⟩

theorem stepElem_sim {σ τ} (t1 : Tracker σ) (t2 : Tracker τ) (R : σ → τ → Prop)
    (hR : TrackerSim t1 t2 R) (sp : Splitter) (toc : List TOCEntry) (page : Int)
    (a : St σ) (b : St τ) (h : SimSt R a b) (e : Elem) :
    SimSt R (stepElem t1 sp toc page a e).1 (stepElem t2 sp toc page b e).1 ∧
      (stepElem t1 sp toc page a e).2 = (stepElem t2 sp toc page b e).2 := by
  have hsec := h.1
  have hp := hR.path _ _ hsec
  cases e with
  | heading l t =>
    simp only [stepElem]
    have hs := hR.push _ _ l t hsec
    rw [hR.path _ _ hs]
    exact emitOne_sim R sp page a b h _ _ hs _ _
  | list o items => simp only [stepElem]; rw [hp]; exact emitOne_sim R sp page a b h _ _ hsec _ _
  | table rows => simp only [stepElem]; rw [hp]; exact emitOne_sim R sp page a b h _ _ hsec _ _
  | image alt =>
    simp only [stepElem]
    by_cases ha : alt = []
    · rw [if_pos ha, if_pos ha]; exact flush_sim R sp page a b h
    · rw [if_neg ha, if_neg ha, hp]; exact emitOne_sim R sp page a b h _ _ hsec _ _
  | para t =>
    simp only [stepElem]
    by_cases hh : isHeadingElement t toc page = true
    · rw [if_pos hh, if_pos hh]
      have hs := hR.push _ _ (getHeadingLevel t toc page) t hsec
      rw [hR.path _ _ hs]
      exact emitOne_sim R sp page a b h _ _ hs _ _
    · rw [if_neg hh, if_neg hh]
      obtain ⟨h1, h2, h3, h4⟩ := h
      rw [hp, h2]
      exact ⟨⟨h1, rfl, rfl, h4⟩, rfl⟩

theorem runElems_sim {σ τ} (t1 : Tracker σ) (t2 : Tracker τ) (R : σ → τ → Prop)
    (hR : TrackerSim t1 t2 R) (sp : Splitter) (toc : List TOCEntry) (page : Int)
    (a : St σ) (b : St τ) (h : SimSt R a b) (es : List Elem) :
    SimSt R (runElems t1 sp toc page a es).1 (runElems t2 sp toc page b es).1 ∧
      (runElems t1 sp toc page a es).2 = (runElems t2 sp toc page b es).2 := by
  induction es generalizing a b with
  | nil => exact ⟨h, rfl⟩
  | cons e es ih =>
    obtain ⟨s1, c1⟩ := stepElem_sim t1 t2 R hR sp toc page a b h e
    obtain ⟨s2, c2⟩ := ih _ _ s1
    simp only [runElems]
    exact ⟨s2, by rw [c1, c2]⟩

theorem chunkPages_sim {σ τ} (t1 : Tracker σ) (t2 : Tracker τ) (R : σ → τ → Prop)
    (hR : TrackerSim t1 t2 R) (sp : Splitter) (toc : List TOCEntry)
    (a : St σ) (b : St τ) (h : SimSt R a b) (pgs : List Page) :
    chunkPages t1 sp toc a pgs = chunkPages t2 sp toc b pgs := by
  induction pgs generalizing a b with
  | nil => rfl
  | cons pg pgs ih =>
    obtain ⟨s1, c1⟩ := runElems_sim t1 t2 R hR sp toc pg.number a b h (resolveRepeatedHeadings pg)
    obtain ⟨s2, c2⟩ := flush_sim R sp pg.number _ _ s1
    simp only [chunkPages, chunkPage]
    rw [c1, c2, ih _ _ s2]

/-! ### the heading stack meets its specification -/

theorem openSpec_snoc (hs : List H) (h : H) :
    openSpec (hs ++ [h]) = (openSpec hs).filter (fun e => decide (e.1 < h.1)) ++ [h] := by
  induction hs with
  | nil => simp [openSpec]
  | cons x hs ih =>
    simp only [List.cons_append, openSpec, List.all_append, List.all_cons, List.all_nil, Bool.and_true]
    by_cases h1 : (hs.all fun r => decide (x.1 < r.1)) = true
    · by_cases h2 : x.1 < h.1
      · simp [h1, h2, ih]
      · simp [h1, h2, ih]
    · simp [h1, ih]

theorem openSpec_sublist (hs : List H) : (openSpec hs).Sublist hs := by
  induction hs with
  | nil => exact List.Sublist.slnil
  | cons x hs ih =>
    simp only [openSpec]
    split
    · exact List.Sublist.cons_cons x ih
    · exact List.Sublist.cons x ih

/-- levels strictly increase along the chain of open headings -/
theorem openSpec_pairwise (hs : List H) : (openSpec hs).Pairwise (fun a b => a.1 < b.1) := by
  induction hs with
  | nil => exact List.Pairwise.nil
  | cons x hs ih =>
    simp only [openSpec]
    split
    · rename_i hall
      refine List.Pairwise.cons ?_ ih
      intro y hy
      have := (openSpec_sublist hs).subset hy
      have := List.all_eq_true.mp hall y this
      simpa using this
    · exact ih

/-- on a chain with increasing levels, popping from the inner end while the level is
>= `l` is the same as keeping the levels < `l` -/
theorem dropWhile_eq_filter_of_pairwise (st : List H) (l : Int)
    (hp : st.Pairwise (fun a b => b.1 < a.1)) :
    st.dropWhile (fun e => decide (l ≤ e.1)) = st.filter (fun e => decide (e.1 < l)) := by
  induction st with
  | nil => rfl
  | cons x st ih =>
    rw [List.pairwise_cons] at hp
    rw [List.dropWhile_cons, List.filter_cons]
    by_cases h : l ≤ x.1
    · have h' : ¬ x.1 < l := by omega
      simp only [h, h', decide_true, decide_false, if_true]
      exact ih hp.2
    · have h' : x.1 < l := by omega
      simp only [h, h', decide_true, decide_false]
      have : st.filter (fun e => decide (e.1 < l)) = st := by
        rw [List.filter_eq_self]
        intro y hy
        have := hp.1 y hy
        simp; omega
      simp [this]

/-- the relation between the code's stack (innermost first) and the history of headings -/
def StackRel (st : List H) (hist : List H) : Prop := st.reverse = openSpec hist

theorem stack_sim : TrackerSim stackTracker histTracker StackRel where
  init := rfl
  push := by
    intro st hist l t h
    unfold StackRel at *
    simp only [stackTracker, histTracker, pushSection]
    rw [openSpec_snoc, ← h]
    have hp : st.Pairwise (fun a b => b.1 < a.1) := by
      have := openSpec_pairwise hist
      rw [← h, List.pairwise_reverse] at this
      exact this
    rw [dropWhile_eq_filter_of_pairwise st l hp]
    simp [List.filter_reverse]
  path := by
    intro st hist h
    unfold StackRel at h
    simp only [stackTracker, histTracker]
    rw [h]

/-- membership in `openSpec`: exactly the headings all of whose successors are deeper -/
theorem mem_openSpec (hs : List H) (h : H) :
    h ∈ openSpec hs ↔ ∃ pre post, hs = pre ++ h :: post ∧ ∀ r ∈ post, h.1 < r.1 := by
  induction hs with
  | nil => simp [openSpec]
  | cons x hs ih =>
    constructor
    · intro hm
      simp only [openSpec] at hm
      split at hm
      · rename_i hall
        rcases List.mem_cons.mp hm with e | hm
        · subst e
          exact ⟨[], hs, rfl, fun r hr => by simpa using List.all_eq_true.mp hall r hr⟩
        · obtain ⟨pre, post, e, hp⟩ := ih.mp hm
          exact ⟨x :: pre, post, by rw [e]; rfl, hp⟩
      · obtain ⟨pre, post, e, hp⟩ := ih.mp hm
        exact ⟨x :: pre, post, by rw [e]; rfl, hp⟩
    · rintro ⟨pre, post, e, hp⟩
      cases pre with
      | nil =>
        simp only [List.nil_append, List.cons.injEq] at e
        obtain ⟨e1, e2⟩ := e
        subst e1 e2
        simp only [openSpec]
        have : (hs.all fun r => decide (x.1 < r.1)) = true := by
          rw [List.all_eq_true]; intro r hr; simpa using hp r hr
        simp [this]
      | cons y pre =>
        simp only [List.cons_append, List.cons.injEq] at e
        obtain ⟨e1, e2⟩ := e
        have hm : h ∈ openSpec hs := ih.mpr ⟨pre, post, e2, hp⟩
        simp only [openSpec]
        split
        · exact List.mem_cons_of_mem _ hm
        · exact hm

/-! ### later pages and later elements do not reach back -/

theorem runElems_append {σ} (tr : Tracker σ) (sp : Splitter) (toc : List TOCEntry) (page : Int)
    (st : St σ) (es fs : List Elem) :
    runElems tr sp toc page st (es ++ fs) =
      ((runElems tr sp toc page (runElems tr sp toc page st es).1 fs).1,
       (runElems tr sp toc page st es).2 ++ (runElems tr sp toc page (runElems tr sp toc page st es).1 fs).2) := by
  induction es generalizing st with
  | nil => simp [runElems]
  | cons e es ih => simp only [List.cons_append, runElems, ih, List.append_assoc]

/-- the state `chunkPages` reaches after the pages `pgs` -/
def stateAfter {σ} (tr : Tracker σ) (sp : Splitter) (toc : List TOCEntry) : St σ → List Page → St σ
  | st, [] => st
  | st, pg :: pgs => stateAfter tr sp toc (chunkPage tr sp toc st pg).1 pgs

theorem chunkPages_append {σ} (tr : Tracker σ) (sp : Splitter) (toc : List TOCEntry)
    (st : St σ) (ps qs : List Page) :
    chunkPages tr sp toc st (ps ++ qs) =
      chunkPages tr sp toc st ps ++ chunkPages tr sp toc (stateAfter tr sp toc st ps) qs := by
  induction ps generalizing st with
  | nil => rfl
  | cons p ps ih => simp only [List.cons_append, chunkPages, stateAfter, ih]

theorem chunkPages_length {σ} (tr : Tracker σ) (sp : Splitter) (toc : List TOCEntry)
    (st : St σ) (ps : List Page) : (chunkPages tr sp toc st ps).length = ps.length := by
  induction ps generalizing st with
  | nil => rfl
  | cons p ps ih => simp [chunkPages, ih]

end Tabula.Chunk
