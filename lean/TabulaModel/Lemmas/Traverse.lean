import TabulaModel.Lemmas.Html
/-!
The stateful traversal (`trav`, the model of `traverseNodeFiltered` with its list
context) flattens to the compositional specification `atoms`.
-/
namespace Tabula.Html

def itemAtom (i : Item) : Atom := .item i.level i.text

/-- atoms already emitted plus the pending list items -/
def St.flat (s : St) : List Atom := flatten s.out ++ s.items.map itemAtom

def St.lc (s : St) : LC := ⟨s.inList, s.level⟩

/-- outside a list nothing is pending and the level is 0 -/
def St.ok (s : St) : Prop := s.inList = false → s.items = [] ∧ s.level = 0

theorem flatten_append (a b : List Element) : flatten (a ++ b) = flatten a ++ flatten b := by
  simp [flatten]

theorem flatten_single (e : Element) : flatten [e] = e.atoms := by
  simp [flatten]

theorem flushList_flat (s : St) : (flushList s).flat = s.flat := by
  unfold flushList St.flat
  split
  · simp [flatten_append, flatten_single, Element.atoms, itemAtom]
  · rfl

theorem flushList_inList (s : St) : (flushList s).inList = s.inList := by
  unfold flushList; split <;> rfl

theorem flushList_level (s : St) : (flushList s).level = s.level := by
  unfold flushList; split <;> rfl

theorem flushList_items (s : St) (h : s.ok) : (flushList s).items = [] := by
  unfold flushList
  split
  · rfl
  · rename_i hc
    cases hi : s.inList with
    | false => exact (h hi).1
    | true =>
      simp [hi] at hc
      exact hc

theorem flushList_ok (s : St) (h : s.ok) : (flushList s).ok := by
  intro hi
  rw [flushList_inList] at hi
  rw [flushList_level]
  exact ⟨flushList_items s h, (h hi).2⟩

theorem emit_flat (s : St) (e : Element) (h : s.items = []) : (s.emit e).flat = s.flat ++ e.atoms := by
  simp [St.emit, St.flat, h, flatten_append, flatten_single]


/-- `s'` continues `s` by exactly the atoms `as`, in the same list context -/
structure Refines (s s' : St) (as : List Atom) : Prop where
  flat : s'.flat = s.flat ++ as
  inList : s'.inList = s.inList
  level : s'.level = s.level
  ok : s'.ok

theorem Refines.rfl' (s : St) (h : s.ok) : Refines s s [] := ⟨by simp, rfl, rfl, h⟩

theorem Refines.trans {s s1 s2 : St} {a b : List Atom} (h1 : Refines s s1 a) (h2 : Refines s1 s2 b) :
    Refines s s2 (a ++ b) :=
  ⟨by rw [h2.flat, h1.flat, List.append_assoc], h2.inList.trans h1.inList, h2.level.trans h1.level, h2.ok⟩

theorem Refines.lc {s s' : St} {a : List Atom} (h : Refines s s' a) : s'.lc = s.lc := by
  simp [St.lc, h.inList, h.level]

theorem refines_flush (s : St) (h : s.ok) : Refines s (flushList s) [] :=
  ⟨by simp [flushList_flat], flushList_inList s, flushList_level s, flushList_ok s h⟩

theorem refines_flush_emit (s : St) (h : s.ok) (e : Element) : Refines s ((flushList s).emit e) e.atoms :=
  ⟨by rw [emit_flat _ _ (flushList_items s h), flushList_flat],
   by simp [St.emit, flushList_inList], by simp [St.emit, flushList_level],
   by
     intro hi
     have := flushList_ok s h
     simp only [St.emit] at hi ⊢
     exact this hi⟩


theorem emitRun_refines (run : Str) (s : St) (h : s.ok) : Refines s (emitRun run s) (runAtoms run) := by
  unfold emitRun runAtoms
  split
  · have := refines_flush_emit s h (.para (trim run))
    simpa [Element.atoms] using this
  · exact Refines.rfl' s h

theorem liHead_refines (kids : List Dom) (s : St) (hin : s.inList = true) :
    (liHead kids s).flat = s.flat ++ (if getDirectTextContent kids != [] then [Atom.item s.level (getDirectTextContent kids)] else []) ∧
    (liHead kids s).inList = true ∧ (liHead kids s).level = s.level + 1 := by
  unfold liHead
  by_cases ht : (getDirectTextContent kids != []) = true
  · simp [ht, St.flat, itemAtom, hin]
  · simp [ht, St.flat, hin]

theorem listEnter_facts (ord : Bool) (s : St) (h : s.ok) :
    (listEnter ord s).flat = s.flat ∧ (listEnter ord s).inList = true ∧
    (listEnter ord s).lc = s.lc.enter ∧ (listEnter ord s).ok := by
  have h1 : Refines s (if (s.level == 0) = true then flushList s else s) [] := by
    split
    · exact refines_flush s h
    · exact Refines.rfl' s h
  unfold listEnter
  generalize (if (s.level == 0) = true then flushList s else s) = s1 at h1
  have hf := h1.flat
  have hi := h1.inList
  have hl := h1.level
  have hok := h1.ok
  simp only [List.append_nil] at hf
  cases hin : s1.inList with
  | true =>
    refine ⟨?_, rfl, ?_, ?_⟩
    · simp [St.flat, hin] at hf ⊢; exact hf
    · simp [St.lc, LC.enter, hin, ← hi, ← hl]
    · intro hc; cases hc
  | false =>
    have := hok hin
    refine ⟨?_, rfl, ?_, ?_⟩
    · simp [St.flat, hin, this.1] at hf ⊢; exact hf
    · simp [St.lc, LC.enter, hin, ← hi]
    · intro hc; cases hc

theorem listExit_refines (ord : Bool) (s s3 : St) (as : List Atom) (h : s.ok)
    (hf : (listEnter ord s).flat = s.flat) (hin : (listEnter ord s).inList = true)
    (h2 : Refines (listEnter ord s) s3 as) : Refines s (listExit s s3) as := by
  have h3f := h2.flat
  have h3i := h2.inList
  rw [hf] at h3f
  rw [hin] at h3i
  unfold listExit
  cases hsi : s.inList with
  | true =>
    simp only [if_true]
    refine ⟨?_, ?_, rfl, ?_⟩
    · simpa [St.flat] using h3f
    · exact h3i.trans hsi.symm
    · intro hc
      have : s3.inList = false := hc
      rw [h3i] at this; cases this
  | false =>
    simp only [Bool.false_eq_true, if_false]
    have hs0 := h hsi
    refine ⟨?_, hsi.symm, rfl, ?_⟩
    · by_cases hit : (s3.items != []) = true
      · simp only [hit, if_true]
        simp only [St.flat, St.emit, List.map_nil, List.append_nil] at h3f ⊢
        rw [flatten_append, flatten_single]
        have e : (fun i : Item => Atom.item i.level i.text) = itemAtom := rfl
        simpa [Element.atoms, e] using h3f
      · simp only [hit, if_false, Bool.false_eq_true]
        have : s3.items = [] := by simpa using hit
        simp only [St.flat, this, List.map_nil, List.append_nil] at h3f ⊢
        exact h3f
    · intro _; exact ⟨rfl, hs0.2⟩

mutual
theorem trav_refines (p : Pos → Dom → Bool) (w : Bool) :
    ∀ (t : Dom) (pos : Pos) (s : St), s.ok → Refines s (trav p w pos t s) (atoms p w pos s.lc t)
  | .text _, pos, s, h => by
      simp only [trav, atoms]; exact Refines.rfl' s h
  | .other kids, pos, s, h => by
      simp only [trav, atoms]; exact travL_refines p w kids _ s h
  | .elem tag attrs kids, pos, s, h => by
      unfold trav atoms
      by_cases hs : isSkip tag = true
      · simp only [hs, if_true]; exact Refines.rfl' s h
      · by_cases hp : p pos (.elem tag attrs kids) = true
        · simp only [hs, hp, if_true, if_false, Bool.false_eq_true]; exact Refines.rfl' s h
        · simp only [hs, hp, if_false, Bool.false_eq_true]
          cases hc : classify tag with
          | heading lvl =>
            simp only []
            split
            · exact refines_flush_emit s h _
            · exact refines_flush s h
          | pdiv isP =>
            simp only []
            have h1 : Refines s (if isP = true then flushList s else s) [] := by
              split
              · exact refines_flush s h
              · exact Refines.rfl' s h
            by_cases hcnd : (trim (getTextContent (.elem tag attrs kids)) != [] && !isBlockContainer kids) = true
            · simp only [hcnd, if_true]
              have := h1.trans (refines_flush_emit _ h1.ok (.para (trim (getTextContent (.elem tag attrs kids)))))
              simpa [Element.atoms] using this
            · simp only [hcnd, if_false, Bool.false_eq_true]
              have h2 := travM_refines p w kids (pos.kid w tag) [] _ h1.ok
              rw [h1.lc] at h2
              simpa using h1.trans h2
          | list ord =>
            simp only []
            have he := listEnter_facts ord s h
            have h2 := travL_refines p w kids (pos.kid w tag) _ he.2.2.2
            rw [he.2.2.1] at h2
            exact listExit_refines ord s _ _ h he.1 he.2.1 h2
          | li =>
            simp only []
            by_cases hin : s.inList = true
            · simp only [hin, if_true]
              have hh := liHead_refines kids s hin
              have hok : (liHead kids s).ok := by intro hi; rw [hh.2.1] at hi; cases hi
              have h2 := travLi_refines p w kids (pos.kid w tag) _ hok
              have hlc : (liHead kids s).lc = ⟨true, s.lc.enter.level + 1⟩ := by
                simp [St.lc, LC.enter, hh.2.1, hh.2.2, hin]
              rw [hlc] at h2
              have hlvl : s.lc.enter.level = s.level := by simp [St.lc, LC.enter, hin]
              rw [hlvl] at h2 ⊢
              refine ⟨?_, ?_, ?_, ?_⟩
              · show (liExit _).flat = _
                have : ∀ x : St, (liExit x).flat = x.flat := fun x => rfl
                rw [this, h2.flat, hh.1, List.append_assoc]
              · show (liExit _).inList = _
                have : ∀ x : St, (liExit x).inList = x.inList := fun x => rfl
                rw [this, h2.inList, hh.2.1, hin]
              · show (liExit _).level = _
                have : ∀ x : St, (liExit x).level = x.level - 1 := fun x => rfl
                rw [this, h2.level, hh.2.2]; omega
              · intro hi
                have : ∀ x : St, (liExit x).inList = x.inList := fun x => rfl
                rw [this, h2.inList, hh.2.1] at hi; cases hi
            · have hin' : s.inList = false := by simpa using hin
              simp only [hin', Bool.false_eq_true, if_false]
              have hs0 := h hin'
              have hin0 : (strayEnter s).inList = true := rfl
              have hh := liHead_refines kids (strayEnter s) hin0
              have hok : (liHead kids (strayEnter s)).ok := by intro hi; rw [hh.2.1] at hi; cases hi
              have h2 := travLi_refines p w kids (pos.kid w tag) _ hok
              have hlc : (liHead kids (strayEnter s)).lc = ⟨true, s.lc.enter.level + 1⟩ := by
                have e : s.lc.enter.level = 0 := by simp [St.lc, LC.enter, hin']
                rw [e]; unfold St.lc; rw [hh.2.1, hh.2.2]; rfl
              rw [hlc] at h2
              have hlvl : s.lc.enter.level = 0 := by simp [St.lc, LC.enter, hin']
              have hlvl0 : (strayEnter s).level = 0 := rfl
              have hflat0 : (strayEnter s).flat = s.flat := by simp [strayEnter, St.flat, hs0.1]
              rw [hlvl] at h2 ⊢
              rw [hlvl0] at hh
              have hx_in : (liExit (travLi p w (pos.kid w tag) kids (liHead kids (strayEnter s)))).inList = true := by
                show (travLi p w (pos.kid w tag) kids (liHead kids (strayEnter s))).inList = true
                rw [h2.inList, hh.2.1]
              have hx_ok : (liExit (travLi p w (pos.kid w tag) kids (liHead kids (strayEnter s)))).ok := by
                intro hi; rw [hx_in] at hi; cases hi
              refine ⟨?_, ?_, ?_, ?_⟩
              · have e1 : ∀ x : St, x.ok → (strayExit x).flat = x.flat := by
                  intro x hx
                  have := flushList_flat x
                  have hi := flushList_items x hx
                  simp only [strayExit, St.flat] at this ⊢
                  rw [hi] at this
                  simpa using this
                rw [e1 _ hx_ok]
                show (travLi p w (pos.kid w tag) kids (liHead kids (strayEnter s))).flat = _
                rw [h2.flat, hh.1, hflat0, List.append_assoc]
              · show false = s.inList
                exact hin'.symm
              · show (flushList (liExit (travLi p w (pos.kid w tag) kids (liHead kids (strayEnter s))))).level = s.level
                rw [flushList_level]
                show (travLi p w (pos.kid w tag) kids (liHead kids (strayEnter s))).level - 1 = s.level
                rw [h2.level, hh.2.2, hs0.2]
              · intro _
                refine ⟨rfl, ?_⟩
                show (flushList (liExit (travLi p w (pos.kid w tag) kids (liHead kids (strayEnter s))))).level = 0
                rw [flushList_level]
                show (travLi p w (pos.kid w tag) kids (liHead kids (strayEnter s))).level - 1 = 0
                rw [h2.level, hh.2.2]
          | table =>
            simp only []
            by_cases hr : ((parseTable kids).1 != []) = true
            · simp only [hr, if_true]
              have := refines_flush_emit s h (.table (parseTable kids).2 (parseTable kids).1)
              simpa [Element.atoms] using this
            · simp only [hr, if_false, Bool.false_eq_true]
              have he : (parseTable kids).1 = [] := by simpa using hr
              have := refines_flush s h
              simpa [he] using this
          | code =>
            simp only []
            split
            · have := refines_flush_emit s h (.code (getTextContent (.elem tag attrs kids)))
              simpa [Element.atoms] using this
            · exact Refines.rfl' s h
          | quote =>
            simp only []
            split
            · have := refines_flush_emit s h (.quote (trim (getTextContent (.elem tag attrs kids))))
              simpa [Element.atoms] using this
            · exact Refines.rfl' s h
          | void => simp only []; exact Refines.rfl' s h
          | other => simp only []; exact travL_refines p w kids _ s h
theorem travL_refines (p : Pos → Dom → Bool) (w : Bool) :
    ∀ (ts : List Dom) (kp : Pos) (s : St), s.ok → Refines s (travL p w kp ts s) (atomsL p w kp s.lc ts)
  | [], kp, s, h => by simp only [travL, atomsL]; exact Refines.rfl' s h
  | k :: ks, kp, s, h => by
      simp only [travL, atomsL]
      have h1 := trav_refines p w k kp s h
      have h2 := travL_refines p w ks kp _ h1.ok
      rw [h1.lc] at h2
      exact h1.trans h2
theorem travLi_refines (p : Pos → Dom → Bool) (w : Bool) :
    ∀ (ts : List Dom) (kp : Pos) (s : St), s.ok → Refines s (travLi p w kp ts s) (atomsLi p w kp s.lc ts)
  | [], kp, s, h => by simp only [travLi, atomsLi]; exact Refines.rfl' s h
  | k :: ks, kp, s, h => by
      simp only [travLi, atomsLi]
      by_cases hk : isListElem k = true
      · simp only [hk, if_true]
        have h1 := trav_refines p w k kp s h
        have h2 := travLi_refines p w ks kp _ h1.ok
        rw [h1.lc] at h2
        exact h1.trans h2
      · simp only [hk, if_false, Bool.false_eq_true, List.nil_append]
        exact travLi_refines p w ks kp s h
theorem travM_refines (p : Pos → Dom → Bool) (w : Bool) :
    ∀ (ts : List Dom) (kp : Pos) (run : Str) (s : St), s.ok →
      Refines s (travM p w kp ts run s) (atomsM p w kp s.lc ts run)
  | [], kp, run, s, h => by simp only [travM, atomsM]; exact emitRun_refines run s h
  | k :: ks, kp, run, s, h => by
      simp only [travM, atomsM]
      by_cases hk : isInline k = true
      · simp only [hk, if_true]
        exact travM_refines p w ks kp _ s h
      · simp only [hk, if_false, Bool.false_eq_true]
        have h0 := emitRun_refines run s h
        have h1 := trav_refines p w k kp _ h0.ok
        rw [h0.lc] at h1
        have h2 := travM_refines p w ks kp [] _ h1.ok
        rw [h1.lc, h0.lc] at h2
        exact (h0.trans h1).trans h2
end

end Tabula.Html
