import TabulaModel.Model.ChunkIntro
import TabulaModel.Lemmas.ChunkLayoutSections
import TabulaModel.Lemmas.ChunkSent
/-!
Lemmas for `Props/C12Intro.lean`: `withIntro` changes nothing but the `intro` flags of paragraphs,
and sets every one of them to what `isListIntro` says of the paragraph's text.
-/
namespace Tabula.ChunkIntro
open Tabula.Chunk Tabula.ChunkLayout

theorem withIntro_numbers (d : LDoc) : (withIntro d).map (·.number) = d.map (·.number) := by
  simp [withIntro, List.map_map, Function.comp_def]

theorem ascFrom_withIntro (b : Int) (d : LDoc) (h : AscFrom b d) : AscFrom b (withIntro d) := by
  induction d generalizing b with
  | nil => trivial
  | cons pg pgs ih =>
    obtain ⟨h1, h2, h3⟩ := h
    exact ⟨h1, h2, ih _ h3⟩

/-- the element without its introduction flag -/
def CE.noIntro (e : CE) : Kind × Str × Int × List Str := (e.kind, e.text, e.page, e.sents)

theorem withIntro_canon (cfg : Cfg) (d : LDoc) :
    (canon cfg (withIntro d)).map CE.noIntro = (canon cfg d).map CE.noIntro := by
  unfold canon withIntro
  induction d with
  | nil => rfl
  | cons pg pgs ih =>
    simp only [List.map_cons, List.flatMap_cons, List.map_append, ih]
    congr 1
    unfold pageCanon
    cases hl : pg.layout with
    | none => rfl
    | some lay =>
      simp only [Option.map_some, List.map_append, List.map_map]
      congr 1

/-- every paragraph's flag is `isListIntro` of its text; the other elements keep `false` -/
theorem withIntro_flags (cfg : Cfg) (d : LDoc) :
    ∀ e ∈ canon cfg (withIntro d), e.kind = .para → e.intro = isListIntro e.text := by
  intro e he hk
  unfold canon withIntro at he
  obtain ⟨pg, hpg, hin⟩ := List.mem_flatMap.mp he
  obtain ⟨pg0, _, rfl⟩ := List.mem_map.mp hpg
  unfold pageCanon at hin
  cases hl : pg0.layout with
  | none => simp [hl] at hin
  | some lay =>
    simp only [hl, Option.map_some] at hin
    rcases List.mem_append.mp hin with h1 | h1
    · rcases List.mem_append.mp h1 with h2 | h2
      · obtain ⟨h, _, rfl⟩ := List.mem_map.mp h2
        cases hk
      · obtain ⟨p, hp, rfl⟩ := List.mem_map.mp h2
        obtain ⟨p0, _, rfl⟩ := List.mem_map.mp hp
        rfl
    · obtain ⟨l, _, rfl⟩ := List.mem_map.mp h1
      cases hk

/-- a text whose trimmed form ends with a colon -/
theorem tailRev_colon (t pre : Str) (h : Tabula.Split.trimSpace t = pre ++ [58]) : tailRev t = 58 :: pre.reverse := by
  unfold tailRev
  rw [h, List.reverse_append]
  rfl

/-! ### what the backward matcher decides: the language of a phrase -/

/-- what one pattern character (lower-case letter or `.`) matches under `(?i)`: itself, its upper
case, and for `s` also U+017F -/
def CharLang (c : Nat) (w : Str) : Prop :=
  w = [c] ∨ (97 ≤ c ∧ c ≤ 122 ∧ w = [c - 32]) ∨ (c = 115 ∧ w = [0xC5, 0xBF])

/-- a word: its characters one after the other -/
def LitLang : Str → Str → Prop
  | [], w => w = []
  | c :: cs, w => ∃ a b, w = a ++ b ∧ CharLang c a ∧ LitLang cs b

/-- `\s+` -/
def GapLang (w : Str) : Prop := w ≠ [] ∧ ∀ b ∈ w, reSpace b = true

def TokLang : Tok → Str → Prop
  | .lit l, w => LitLang l w
  | .gap, w => GapLang w

/-- a phrase: its tokens one after the other -/
def Lang : List Tok → Str → Prop
  | [], w => w = []
  | t :: ts, w => ∃ a b, w = a ++ b ∧ TokLang t a ∧ Lang ts b

theorem matchCharRev_iff (c : Nat) (r r' : Str) :
    matchCharRev c r = some r' ↔ ∃ w, CharLang c w ∧ r = w.reverse ++ r' := by
  constructor
  · intro h
    cases r with
    | nil => cases h
    | cons b rest =>
      simp only [matchCharRev] at h
      split at h
      · rename_i hb
        cases h
        exact ⟨[c], Or.inl rfl, by simp [eq_of_beq hb]⟩
      · split at h
        · rename_i hb
          cases h
          simp only [Bool.and_eq_true, decide_eq_true_eq, beq_iff_eq] at hb
          refine ⟨[c - 32], Or.inr (Or.inl ⟨hb.1.1, hb.1.2, rfl⟩), ?_⟩
          have : c - 32 = b := by omega
          simp [this]
        · split at h
          · rename_i hb
            simp only [Bool.and_eq_true, beq_iff_eq] at hb
            cases rest with
            | nil => cases h
            | cons x rest' =>
              by_cases hx : x = 0xC5
              · subst hx
                simp only at h
                cases h
                exact ⟨[0xC5, 0xBF], Or.inr (Or.inr ⟨hb.1, rfl⟩), by simp [hb.2]⟩
              · exfalso
                revert h
                split
                · rename_i e; cases e; exact absurd rfl hx
                · intro h; cases h
          · cases h
  · rintro ⟨w, hw, rfl⟩
    rcases hw with rfl | ⟨h1, h2, rfl⟩ | ⟨rfl, rfl⟩
    · simp [matchCharRev]
    · have hne : (c - 32 == c) = false := by simp; omega
      have hle : (97 ≤ c && c ≤ 122 && c - 32 + 32 == c) = true := by
        simp only [Bool.and_eq_true, decide_eq_true_eq, beq_iff_eq]; omega
      simp [matchCharRev, hne, hle]
    · simp [matchCharRev]

theorem litLang_snoc (xs : Str) (c : Nat) (w : Str) :
    LitLang (xs ++ [c]) w ↔ ∃ a b, w = a ++ b ∧ LitLang xs a ∧ CharLang c b := by
  induction xs generalizing w with
  | nil =>
    simp only [List.nil_append, LitLang]
    constructor
    · rintro ⟨a, b, rfl, ha, rfl⟩; exact ⟨[], a, by simp, rfl, ha⟩
    · rintro ⟨a, b, rfl, rfl, hb⟩; exact ⟨b, [], by simp, hb, rfl⟩
  | cons x xs ih =>
    simp only [List.cons_append, LitLang]
    constructor
    · rintro ⟨a, b, rfl, ha, hb⟩
      obtain ⟨a2, b2, rfl, h1, h2⟩ := (ih b).mp hb
      exact ⟨a ++ a2, b2, by simp, ⟨a, a2, rfl, ha, h1⟩, h2⟩
    · rintro ⟨a, b, rfl, ⟨a1, a2, rfl, h1, h2⟩, hb⟩
      exact ⟨a1, a2 ++ b, by simp, h1, (ih _).mpr ⟨a2, b, rfl, h2, hb⟩⟩

/-- the backward word matcher decides the word's language at the end of the text -/
theorem matchLitRev_iff (cs r r' : Str) :
    matchLitRev cs r = some r' ↔ ∃ w, LitLang cs.reverse w ∧ r = w.reverse ++ r' := by
  induction cs generalizing r with
  | nil =>
    simp only [matchLitRev, List.reverse_nil, LitLang]
    constructor
    · intro h; cases h; exact ⟨[], rfl, rfl⟩
    · rintro ⟨w, rfl, rfl⟩; rfl
  | cons c cs ih =>
    simp only [matchLitRev, List.reverse_cons]
    constructor
    · intro h
      split at h
      · rename_i r1 h1
        obtain ⟨b, hb, rfl⟩ := (matchCharRev_iff c r r1).mp h1
        obtain ⟨a, ha, rfl⟩ := (ih r1).mp h
        exact ⟨a ++ b, (litLang_snoc _ _ _).mpr ⟨a, b, rfl, ha, hb⟩, by simp⟩
      · cases h
    · rintro ⟨w, hw, rfl⟩
      obtain ⟨a, b, rfl, ha, hb⟩ := (litLang_snoc _ _ _).mp hw
      have h1 : matchCharRev c ((a ++ b).reverse ++ r') = some (a.reverse ++ r') :=
        (matchCharRev_iff c _ _).mpr ⟨b, hb, by simp⟩
      rw [h1]
      exact (ih _).mpr ⟨a, ha, rfl⟩

theorem lang_snoc (ts : List Tok) (t : Tok) (w : Str) :
    Lang (ts ++ [t]) w ↔ ∃ a b, w = a ++ b ∧ Lang ts a ∧ TokLang t b := by
  induction ts generalizing w with
  | nil =>
    simp only [List.nil_append, Lang]
    constructor
    · rintro ⟨a, b, rfl, ha, rfl⟩; exact ⟨[], a, by simp, rfl, ha⟩
    · rintro ⟨a, b, rfl, rfl, hb⟩; exact ⟨b, [], by simp, hb, rfl⟩
  | cons x xs ih =>
    simp only [List.cons_append, Lang]
    constructor
    · rintro ⟨a, b, rfl, ha, hb⟩
      obtain ⟨a2, b2, rfl, h1, h2⟩ := (ih b).mp hb
      exact ⟨a ++ a2, b2, by simp, ⟨a, a2, rfl, ha, h1⟩, h2⟩
    · rintro ⟨a, b, rfl, ⟨a1, a2, rfl, h1, h2⟩, hb⟩
      exact ⟨a1, a2 ++ b, by simp, h1, (ih _).mpr ⟨a2, b, rfl, h2, hb⟩⟩

theorem takeWhile_all (p : Nat → Bool) (l : Str) : ∀ x ∈ l.takeWhile p, p x = true := by
  induction l with
  | nil => intro x hx; cases hx
  | cons y ys ih =>
    intro x hx
    simp only [List.takeWhile_cons] at hx
    split at hx
    · rename_i hy
      rcases List.mem_cons.mp hx with rfl | hx
      · exact hy
      · exact ih x hx
    · cases hx

theorem matchGapRev_sound (r r' : Str) (h : matchGapRev r = some r') : ∃ g, GapLang g ∧ r = g.reverse ++ r' := by
  cases r with
  | nil => cases h
  | cons b rest =>
    simp only [matchGapRev] at h
    split at h
    · rename_i hb
      cases h
      refine ⟨(b :: rest.takeWhile reSpace).reverse, ⟨by simp, ?_⟩, by simp⟩
      intro x hx
      simp only [List.mem_reverse, List.mem_cons] at hx
      rcases hx with rfl | hx
      · exact hb
      · exact takeWhile_all reSpace rest x hx
    · cases h

/-- **soundness**: when the backward matcher accepts, a word of the phrase's language ends the text -/
theorem matchRev_sound (ts : List Tok) (r : Str) (h : matchRev ts r = true) :
    ∃ w rest, Lang ts.reverse w ∧ r = w.reverse ++ rest := by
  induction ts generalizing r with
  | nil => exact ⟨[], r, rfl, rfl⟩
  | cons t ts ih =>
    cases t with
    | lit l =>
      simp only [matchRev] at h
      split at h
      · rename_i r1 h1
        obtain ⟨b, hb, rfl⟩ := (matchLitRev_iff _ _ _).mp h1
        rw [List.reverse_reverse] at hb
        obtain ⟨a, rest, ha, rfl⟩ := ih r1 h
        exact ⟨a ++ b, rest, by rw [List.reverse_cons]; exact (lang_snoc _ _ _).mpr ⟨a, b, rfl, ha, hb⟩, by simp⟩
      · cases h
    | gap =>
      simp only [matchRev] at h
      split at h
      · rename_i r1 h1
        obtain ⟨g, hg, rfl⟩ := matchGapRev_sound _ _ h1
        obtain ⟨a, rest, ha, rfl⟩ := ih r1 h
        exact ⟨a ++ g, rest, by rw [List.reverse_cons]; exact (lang_snoc _ _ _).mpr ⟨a, g, rfl, ha, hg⟩, by simp⟩
      · cases h

/-- a pattern character none of whose spellings ends in regexp white space -/
def solidChar (c : Nat) : Bool := !reSpace c && !reSpace (c - 32)

/-- reversed token list in which every `\s+` is followed by a non-empty word whose last
character is solid: then taking all white space greedily loses no match -/
def WF : List Tok → Bool
  | [] => true
  | .lit _ :: ts => WF ts
  | .gap :: [] => false
  | .gap :: .lit l :: ts => (match l.getLast? with | some c => solidChar c | none => false) && WF (.lit l :: ts)
  | .gap :: .gap :: _ => false

theorem charLang_last_solid (c : Nat) (w : Str) (hc : solidChar c = true) (hw : CharLang c w) :
    ∃ x pre, w = pre ++ [x] ∧ reSpace x = false := by
  simp only [solidChar, Bool.and_eq_true, Bool.not_eq_true'] at hc
  rcases hw with rfl | ⟨_, _, rfl⟩ | ⟨_, rfl⟩
  · exact ⟨c, [], rfl, hc.1⟩
  · exact ⟨c - 32, [], rfl, hc.2⟩
  · exact ⟨0xBF, [0xC5], rfl, by decide⟩

theorem litLang_last_solid (l : Str) (c : Nat) (hl : l.getLast? = some c) (hc : solidChar c = true) (w : Str)
    (hw : LitLang l w) : ∃ x pre, w = pre ++ [x] ∧ reSpace x = false := by
  obtain ⟨xs, rfl⟩ : ∃ xs, l = xs ++ [c] := by
    rcases List.eq_nil_or_concat l with rfl | ⟨xs, y, rfl⟩
    · cases hl
    · simp at hl; subst hl; exact ⟨xs, by simp⟩
  obtain ⟨a, b, rfl, _, hb⟩ := (litLang_snoc _ _ _).mp hw
  obtain ⟨x, pre, rfl, hx⟩ := charLang_last_solid c b hc hb
  exact ⟨x, a ++ pre, by simp, hx⟩

theorem matchGapRev_complete (g : Str) (hg : GapLang g) (tail : Str) (ht : ∀ x rest, tail = x :: rest → reSpace x = false) :
    matchGapRev (g.reverse ++ tail) = some tail := by
  obtain ⟨hne, hall⟩ := hg
  obtain ⟨b, g', hg'⟩ : ∃ b g', g.reverse = b :: g' := by
    cases h : g.reverse with
    | nil => exact absurd (List.reverse_eq_nil_iff.mp h) hne
    | cons b g' => exact ⟨b, g', rfl⟩
  have hb : reSpace b = true := hall b (by rw [← List.mem_reverse, hg']; exact List.mem_cons_self ..)
  have hg'all : ∀ x ∈ g', reSpace x = true := fun x hx =>
    hall x (by rw [← List.mem_reverse, hg']; exact List.mem_cons_of_mem _ hx)
  rw [hg']
  simp only [List.cons_append, matchGapRev, hb, if_true]
  congr 1
  clear hg' hb
  induction g' with
  | nil =>
    cases tail with
    | nil => rfl
    | cons x rest => simp [ht x rest rfl]
  | cons y ys ih =>
    simp only [List.cons_append, List.dropWhile_cons, hg'all y (List.mem_cons_self ..), if_true]
    exact ih (fun x hx => hg'all x (List.mem_cons_of_mem _ hx))

/-- **completeness**: when a word of the phrase's language ends the text, the backward matcher accepts -/
theorem matchRev_complete (ts : List Tok) (hwf : WF ts = true) (w rest : Str) (hw : Lang ts.reverse w) :
    matchRev ts (w.reverse ++ rest) = true := by
  induction ts generalizing w rest with
  | nil => rfl
  | cons t ts ih =>
    rw [List.reverse_cons] at hw
    obtain ⟨a, b, rfl, ha, hb⟩ := (lang_snoc _ _ _).mp hw
    cases t with
    | lit l =>
      simp only [TokLang] at hb
      have hwf' : WF ts = true := by simpa [WF] using hwf
      have h1 : matchLitRev l.reverse ((a ++ b).reverse ++ rest) = some (a.reverse ++ rest) :=
        (matchLitRev_iff _ _ _).mpr ⟨b, by rw [List.reverse_reverse]; exact hb, by simp⟩
      simp only [matchRev, h1]
      exact ih hwf' a rest ha
    | gap =>
      simp only [TokLang] at hb
      have htail : ∀ x r0, a.reverse ++ rest = x :: r0 → reSpace x = false := by
        cases ts with
        | nil => simp [WF] at hwf
        | cons t2 ts2 =>
          cases t2 with
          | gap => simp [WF] at hwf
          | lit l =>
            simp only [WF, Bool.and_eq_true] at hwf
            rw [List.reverse_cons] at ha
            obtain ⟨a1, b1, rfl, _, hb1⟩ := (lang_snoc _ _ _).mp ha
            simp only [TokLang] at hb1
            cases hl : l.getLast? with
            | none => rw [hl] at hwf; simp at hwf
            | some c =>
              rw [hl] at hwf
              obtain ⟨x0, pre, rfl, hx0⟩ := litLang_last_solid l c hl hwf.1 b1 hb1
              intro x r0 e
              simp at e
              rw [← e.1]; exact hx0
      have hwf' : WF ts = true := by
        cases ts with
        | nil => simp [WF] at hwf
        | cons t2 ts2 =>
          cases t2 with
          | gap => simp [WF] at hwf
          | lit l => simp only [WF, Bool.and_eq_true] at hwf; exact hwf.2
      have h1 : matchGapRev ((a ++ b).reverse ++ rest) = some (a.reverse ++ rest) := by
        rw [List.reverse_append, List.append_assoc]
        exact matchGapRev_complete b hb _ htail
      simp only [matchRev, h1]
      exact ih hwf' a rest ha

end Tabula.ChunkIntro
