import TabulaModel.Model.Overlap
import TabulaModel.Lemmas.Utf8
import TabulaModel.Lemmas.Split
set_option linter.unusedVariables false
namespace Tabula.Overlap
open Tabula.Split

/-! ## `utf8.AppendRune` / `[]rune(s)` round trip -/

theorem ok2_enc (cp : Nat) (h1 : ¬ cp < 0x80) (h2 : cp < 0x800) :
    ok2 (0xC0 + cp / 64) (0x80 + cp % 64) = true := by
  simp only [ok2, isCont, Bool.and_eq_true, decide_eq_true_eq]
  omega

theorem ok3_enc (cp : Nat) (h2 : ¬ cp < 0x800)
    (h3 : ¬ (0xD800 ≤ cp ∧ cp ≤ 0xDFFF ∨ cp > 0x10FFFF)) (h4 : cp < 0x10000) :
    ok3 (0xE0 + cp / 4096) (0x80 + cp / 64 % 64) (0x80 + cp % 64) = true := by
  simp only [ok3, isCont, Bool.and_eq_true, Bool.or_eq_true, decide_eq_true_eq, beq_iff_eq]
  omega

theorem ok4_enc (cp : Nat)
    (h3 : ¬ (0xD800 ≤ cp ∧ cp ≤ 0xDFFF ∨ cp > 0x10FFFF)) (h4 : ¬ cp < 0x10000) :
    ok4 (0xF0 + cp / 262144) (0x80 + cp / 4096 % 64) (0x80 + cp / 64 % 64) (0x80 + cp % 64)
      = true := by
  simp only [ok4, isCont, Bool.and_eq_true, Bool.or_eq_true, decide_eq_true_eq, beq_iff_eq]
  omega

/-- `utf8.AppendRune` always produces one well-formed character -/
theorem charLen_encodeRune (cp : Nat) :
    charLen (encodeRune cp) = (encodeRune cp).length ∧ encodeRune cp ≠ [] := by
  unfold encodeRune
  by_cases h1 : cp < 0x80
  · rw [if_pos h1]
    exact ⟨charLen_one h1, List.cons_ne_nil _ _⟩
  · rw [if_neg h1]
    by_cases h2 : cp < 0x800
    · rw [if_pos h2]
      exact ⟨charLen_two (ok2_enc cp h1 h2), List.cons_ne_nil _ _⟩
    · rw [if_neg h2]
      by_cases h3 : 0xD800 ≤ cp ∧ cp ≤ 0xDFFF ∨ cp > 0x10FFFF
      · rw [if_pos h3]
        exact ⟨charLen_three (by decide), List.cons_ne_nil _ _⟩
      · rw [if_neg h3]
        by_cases h4 : cp < 0x10000
        · rw [if_pos h4]
          exact ⟨charLen_three (ok3_enc cp h2 h3 h4), List.cons_ne_nil _ _⟩
        · rw [if_neg h4]
          exact ⟨charLen_four (ok4_enc cp h3 h4), List.cons_ne_nil _ _⟩

theorem valid_encodeRune (cp : Nat) : validUtf8 (encodeRune cp) = true := by
  obtain ⟨h1, h2⟩ := charLen_encodeRune cp
  have h3 : charLen (encodeRune cp) ≠ 0 := by
    rw [h1]
    intro h
    exact h2 (List.eq_nil_of_length_eq_zero h)
  rw [validUtf8_step _ h3, h1, List.drop_length]
  exact validUtf8_nil

theorem encodeRunes_nil : encodeRunes [] = [] := rfl

theorem encodeRunes_cons (a : Nat) (rs : List Nat) :
    encodeRunes (a :: rs) = encodeRune a ++ encodeRunes rs := by
  simp [encodeRunes]

theorem valid_encodeRunes (rs : List Nat) : validUtf8 (encodeRunes rs) = true := by
  induction rs with
  | nil => exact validUtf8_nil
  | cons a rs ih =>
    rw [encodeRunes_cons]
    exact validUtf8_append _ _ (valid_encodeRune a) ih

theorem codePoint_one {a : Nat} {r : Str} (h : a < 0x80) : codePoint (a :: r) = a := by
  unfold codePoint
  rw [charLen_one h]
  rfl

theorem codePoint_two {a b : Nat} {r : Str} (h : ok2 a b = true) :
    codePoint (a :: b :: r) = (a - 0xC0) * 64 + (b - 0x80) := by
  unfold codePoint
  rw [charLen_two h]
  rfl

theorem codePoint_three {a b c : Nat} {r : Str} (h : ok3 a b c = true) :
    codePoint (a :: b :: c :: r) = (a - 0xE0) * 4096 + (b - 0x80) * 64 + (c - 0x80) := by
  unfold codePoint
  rw [charLen_three h]
  rfl

theorem codePoint_four {a b c d : Nat} {r : Str} (h : ok4 a b c d = true) :
    codePoint (a :: b :: c :: d :: r)
      = (a - 0xF0) * 262144 + (b - 0x80) * 4096 + (c - 0x80) * 64 + (d - 0x80) := by
  unfold codePoint
  rw [charLen_four h]
  rfl

theorem encodeRune_two {a b : Nat} (h : ok2 a b = true) :
    encodeRune ((a - 0xC0) * 64 + (b - 0x80)) = [a, b] := by
  simp only [ok2, isCont, Bool.and_eq_true, decide_eq_true_eq] at h
  unfold encodeRune
  rw [if_neg (by omega), if_pos (by omega)]
  have e1 : 0xC0 + ((a - 0xC0) * 64 + (b - 0x80)) / 64 = a := by omega
  have e2 : 0x80 + ((a - 0xC0) * 64 + (b - 0x80)) % 64 = b := by omega
  rw [e1, e2]

theorem encodeRune_three {a b c : Nat} (h : ok3 a b c = true) :
    encodeRune ((a - 0xE0) * 4096 + (b - 0x80) * 64 + (c - 0x80)) = [a, b, c] := by
  simp only [ok3, isCont, Bool.and_eq_true, Bool.or_eq_true, decide_eq_true_eq, beq_iff_eq] at h
  generalize hcp : (a - 0xE0) * 4096 + (b - 0x80) * 64 + (c - 0x80) = cp
  unfold encodeRune
  rw [if_neg (by omega), if_neg (by omega), if_neg (by omega), if_pos (by omega)]
  have e1 : 0xE0 + cp / 4096 = a := by omega
  have e2 : 0x80 + cp / 64 % 64 = b := by omega
  have e3 : 0x80 + cp % 64 = c := by omega
  rw [e1, e2, e3]

theorem encodeRune_four {a b c d : Nat} (h : ok4 a b c d = true) :
    encodeRune ((a - 0xF0) * 262144 + (b - 0x80) * 4096 + (c - 0x80) * 64 + (d - 0x80))
      = [a, b, c, d] := by
  simp only [ok4, isCont, Bool.and_eq_true, Bool.or_eq_true, decide_eq_true_eq, beq_iff_eq] at h
  generalize hcp : (a - 0xF0) * 262144 + (b - 0x80) * 4096 + (c - 0x80) * 64 + (d - 0x80) = cp
  unfold encodeRune
  rw [if_neg (by omega), if_neg (by omega), if_neg (by omega), if_neg (by omega)]
  have e1 : 0xF0 + cp / 262144 = a := by omega
  have e2 : 0x80 + cp / 4096 % 64 = b := by omega
  have e3 : 0x80 + cp / 64 % 64 = c := by omega
  have e4 : 0x80 + cp % 64 = d := by omega
  rw [e1, e2, e3, e4]

/-- decoding a well-formed character and encoding it again gives the same bytes -/
theorem encodeRune_codePoint (s : Str) (h : charLen s ≠ 0) :
    encodeRune (codePoint s) = s.take (charLen s) := by
  rcases charLen_cases s with h0 | ⟨a, r, rfl, h1⟩ | ⟨a, b, r, rfl, h2⟩ | ⟨a, b, c, r, rfl, h3⟩
    | ⟨a, b, c, d, r, rfl, h4⟩
  · exact absurd h0 h
  · rw [codePoint_one h1, charLen_one h1]
    unfold encodeRune
    rw [if_pos h1]
    rfl
  · rw [codePoint_two h2, charLen_two h2, encodeRune_two h2]
    rfl
  · rw [codePoint_three h3, charLen_three h3, encodeRune_three h3]
    rfl
  · rw [codePoint_four h4, charLen_four h4, encodeRune_four h4]
    rfl

theorem encode_decodeAux (fuel : Nat) : ∀ s : Str, s.length ≤ fuel → validUtf8 s = true →
    encodeRunes (decodeRunesAux fuel s) = s := by
  induction fuel with
  | zero =>
    intro s hl hv
    have : s = [] := List.eq_nil_of_length_eq_zero (by omega)
    subst this
    rfl
  | succ fuel ih =>
    intro s hl hv
    unfold decodeRunesAux
    by_cases hs : s = []
    · rw [if_pos hs, hs]; rfl
    · rw [if_neg hs]
      have hc : charLen s ≠ 0 := charLen_ne_zero_of_valid hs hv
      have hr : runeLen s = charLen s := by unfold runeLen; rw [if_neg hc]
      rw [hr, encodeRunes_cons, encodeRune_codePoint s hc]
      have hv' : validUtf8 (s.drop (charLen s)) = true := by
        rw [← validUtf8_step s hc]; exact hv
      have hl' : (s.drop (charLen s)).length ≤ fuel := by
        rw [List.length_drop]; omega
      rw [ih _ hl' hv', List.take_append_drop]

/-- `string([]rune(s)) == s` for valid UTF-8 -/
theorem encode_decode (s : Str) (hv : validUtf8 s = true) : encodeRunes (decodeRunes s) = s :=
  encode_decodeAux s.length s (Nat.le_refl _) hv

/-- the encoding of a White_Space code point is one White_Space character in the byte-pattern sense -/
theorem wsChar_encodeRune (cp : Nat) (h : isSpaceRune cp = true) : IsWsChar (encodeRune cp) := by
  simp only [isSpaceRune, Bool.or_eq_true, Bool.and_eq_true, decide_eq_true_eq, beq_iff_eq] at h
  have hc : cp = 9 ∨ cp = 10 ∨ cp = 11 ∨ cp = 12 ∨ cp = 13 ∨ cp = 0x20 ∨ cp = 0x85 ∨ cp = 0xA0
      ∨ cp = 0x1680 ∨ cp = 0x2000 ∨ cp = 0x2001 ∨ cp = 0x2002 ∨ cp = 0x2003 ∨ cp = 0x2004
      ∨ cp = 0x2005 ∨ cp = 0x2006 ∨ cp = 0x2007 ∨ cp = 0x2008 ∨ cp = 0x2009 ∨ cp = 0x200A
      ∨ cp = 0x2028 ∨ cp = 0x2029 ∨ cp = 0x202F ∨ cp = 0x205F ∨ cp = 0x3000 := by omega
  unfold IsWsChar
  rcases hc with rfl | rfl | rfl | rfl | rfl | rfl | rfl | rfl | rfl | rfl | rfl | rfl | rfl
    | rfl | rfl | rfl | rfl | rfl | rfl | rfl | rfl | rfl | rfl | rfl | rfl
  all_goals decide

end Tabula.Overlap
