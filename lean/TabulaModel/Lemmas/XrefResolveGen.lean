import TabulaModel.Model.XrefResolve
/-!
# `Resolve` / `ResolveDeep`: general facts about the model of `Model/XrefResolve.lean`

* A. refinement: a stateful lookup that answers like a stateless `spec` on every state that
  satisfies an invariant (`Sim`) may replace it in `rdeep`, `resolveR`, `resolveDeepR`,
  `resolveP` and under every sequence of public calls (`api_run_sim`);
* B. the resolver's own fields never influence an answer: every call gives the depth counter
  back (`resolveP_depth`), a call from outside starts from fresh maps (`resolveP_top_fresh`),
  so the answers of a call sequence do not depend on the resolver's history
  (`api_run_resolver_history_free`);
* C. the structural fuel is never what ends a call (`rdeep_fuel`, `resolveP_fuel`).

`stepP` is one level of `resolveP` with the nested call as an argument (`resolveP_succ`, by
`rfl`), so each fact is proved once about `stepP` and carried through the recursion.
Core Lean only.
-/
namespace Tabula.XrefR
open Tabula.Reader (PVal)
open Tabula.XrefFile (Str)

/-- a stateless lookup as a stateful one -/
def pureGet (spec : Int → Option PVal) : Int → Unit → Option PVal × Unit := fun n _ => (spec n, ())

/-- the stateful lookup `get` answers like `spec` on every state that satisfies `I`, and keeps `I` -/
def Sim {σ : Type} (get : Int → σ → Option PVal × σ) (spec : Int → Option PVal) (I : σ → Prop) : Prop :=
  ∀ n s, I s → (get n s).1 = spec n ∧ I (get n s).2

/-! ## A. refinement -/

/-- same answer, invariant kept (reader side) -/
def RelR {α σ : Type} (I : σ → Prop) (x : α × σ) (y : α × Unit) : Prop := x.1 = y.1 ∧ I x.2

theorem foldRes_sim {δ σ : Type} {I : σ → Prop}
    (f : DObj → δ → σ → Option (DObj × δ) × σ) (g : DObj → δ → Unit → Option (DObj × δ) × Unit)
    (hfg : ∀ e d s, I s → RelR I (f e d s) (g e d ())) :
    ∀ xs d s, I s → RelR I (foldRes f xs d s) (foldRes g xs d ()) := by
  intro xs
  induction xs with
  | nil => intro d s hs; exact ⟨rfl, hs⟩
  | cons e es ih =>
    intro d s hs
    have h1 := hfg e d s hs
    simp only [foldRes]
    generalize f e d s = x at h1
    generalize g e d () = y at h1
    obtain ⟨a, s'⟩ := x
    obtain ⟨b, u⟩ := y
    obtain ⟨hab, hs'⟩ := h1
    simp only at hab hs'
    subst hab
    cases a with
    | none => exact ⟨rfl, hs'⟩
    | some ed =>
      obtain ⟨e', d'⟩ := ed
      have h2 := ih d' s' hs'
      simp only
      generalize foldRes f es d' s' = x at h2
      generalize foldRes g es d' () = y at h2
      obtain ⟨a, s''⟩ := x
      obtain ⟨b, u⟩ := y
      obtain ⟨hab, hs''⟩ := h2
      simp only at hab hs''
      subst hab
      cases a with
      | none => exact ⟨rfl, hs''⟩
      | some r => exact ⟨rfl, hs''⟩

theorem rdeep_rel {σ : Type} {get : Int → σ → Option PVal × σ} {spec : Int → Option PVal} {I : σ → Prop}
    (h : Sim get spec I) : ∀ (fuel : Nat) (active : List Ref) (obj : DObj) (depth : Nat) (done : List (Ref × DObj)) (s : σ), I s →
      RelR I (rdeep get fuel active obj depth done s) (rdeep (pureGet spec) fuel active obj depth done ()) := by
  intro fuel
  induction fuel with
  | zero => intro _ _ _ _ s hs; exact ⟨rfl, hs⟩
  | succ fuel ih =>
    intro active obj depth done s hs
    simp only [rdeep]
    by_cases hd : depth > maxResolveDepth
    · simp only [hd, if_true]; exact ⟨rfl, hs⟩
    · simp only [hd, if_false]
      have hfold : ∀ xs, RelR I (foldRes (fun e d s => rdeep get fuel active e (depth + 1) d s) xs done s)
          (foldRes (fun e d s => rdeep (pureGet spec) fuel active e (depth + 1) d s) xs done ()) :=
        fun xs => foldRes_sim _ _ (fun e d s hs => ih active e (depth + 1) d s hs) xs done s hs
      cases obj with
      | ref n g =>
        simp only
        cases hl : List.lookup (n, g) done with
        | some res => exact ⟨rfl, hs⟩
        | none =>
          simp only
          by_cases ha : active.contains (n, g) = true
          · simp only [ha, if_true]; exact ⟨rfl, hs⟩
          · simp only [ha, Bool.false_eq_true, if_false]
            have hg := h n s hs
            simp only [pureGet]
            generalize get n s = x at hg
            obtain ⟨o, s1⟩ := x
            obtain ⟨ho, hs1⟩ := hg
            simp only at ho hs1
            subst ho
            cases spec n with
            | none => exact ⟨rfl, hs1⟩
            | some target =>
              simp only
              have h2 := ih ((n, g) :: active) (ofPVal target) (depth + 1) done s1 hs1
              generalize rdeep get fuel ((n, g) :: active) (ofPVal target) (depth + 1) done s1 = x at h2
              generalize rdeep (pureGet spec) fuel ((n, g) :: active) (ofPVal target) (depth + 1) done () = y at h2
              obtain ⟨a, s2⟩ := x
              obtain ⟨b, u⟩ := y
              obtain ⟨hab, hs2⟩ := h2
              simp only at hab hs2
              subst hab
              cases a with
              | none => exact ⟨rfl, hs2⟩
              | some r => exact ⟨rfl, hs2⟩
      | arr xs =>
        simp only
        have h2 := hfold xs
        generalize foldRes (fun e d s => rdeep get fuel active e (depth + 1) d s) xs done s = x at h2
        generalize foldRes (fun e d s => rdeep (pureGet spec) fuel active e (depth + 1) d s) xs done () = y at h2
        obtain ⟨a, s2⟩ := x
        obtain ⟨b, u⟩ := y
        obtain ⟨hab, hs2⟩ := h2
        simp only at hab hs2
        subst hab
        cases a with
        | none => exact ⟨rfl, hs2⟩
        | some r => exact ⟨rfl, hs2⟩
      | dict kv =>
        simp only
        have h2 := hfold ((sortKV kv).map Prod.snd)
        generalize foldRes (fun e d s => rdeep get fuel active e (depth + 1) d s) ((sortKV kv).map Prod.snd) done s = x at h2
        generalize foldRes (fun e d s => rdeep (pureGet spec) fuel active e (depth + 1) d s) ((sortKV kv).map Prod.snd) done () = y at h2
        obtain ⟨a, s2⟩ := x
        obtain ⟨b, u⟩ := y
        obtain ⟨hab, hs2⟩ := h2
        simp only at hab hs2
        subst hab
        cases a with
        | none => exact ⟨rfl, hs2⟩
        | some r => exact ⟨rfl, hs2⟩
      | _ => exact ⟨rfl, hs⟩

theorem rdeep_sim {σ : Type} {get : Int → σ → Option PVal × σ} {spec : Int → Option PVal} {I : σ → Prop}
    (h : Sim get spec I) : ∀ (fuel : Nat) (active : List Ref) (obj : DObj) (depth : Nat) (done : List (Ref × DObj)) (s : σ), I s →
      (rdeep get fuel active obj depth done s).1 = (rdeep (pureGet spec) fuel active obj depth done ()).1 ∧
      I (rdeep get fuel active obj depth done s).2 :=
  rdeep_rel h

theorem resolveR_sim {σ : Type} {get : Int → σ → Option PVal × σ} {spec : Int → Option PVal} {I : σ → Prop}
    (h : Sim get spec I) (obj : DObj) (s : σ) (hs : I s) :
      (resolveR get obj s).1 = (resolveR (pureGet spec) obj ()).1 ∧ I (resolveR get obj s).2 := by
  cases obj with
  | ref n g =>
    simp only [resolveR, pureGet]
    have hg := h n s hs
    exact ⟨by rw [hg.1], hg.2⟩
  | _ => exact ⟨rfl, hs⟩

theorem resolveDeepR_sim {σ : Type} {get : Int → σ → Option PVal × σ} {spec : Int → Option PVal} {I : σ → Prop}
    (h : Sim get spec I) (obj : DObj) (s : σ) (hs : I s) :
      (resolveDeepR get obj s).1 = (resolveDeepR (pureGet spec) obj ()).1 ∧ I (resolveDeepR get obj s).2 := by
  have h2 := rdeep_sim h (maxResolveDepth + 2) [] obj 0 [] s hs
  simp only [resolveDeepR]
  exact ⟨by rw [h2.1], h2.2⟩

/-! ## the resolver: one level with the nested call as an argument -/

/-- one level of `resolveP`; `down` is the nested call -/
def stepP {σ : Type} (get : Int → σ → Option PVal × σ) (maxDepth : Nat)
    (ord : List (Str × DObj) → List (Str × DObj)) (deep : Bool)
    (down : DObj → PSt → σ → Option DObj × PSt × σ) (obj : DObj) (p0 : PSt) (s : σ) :
    Option DObj × PSt × σ :=
    let pr : PSt := if p0.depth = 0 then { visited := [], done := [], reach := 0, depth := 0 } else p0
    if pr.depth ≥ maxDepth then (none, pr, s)
    else
      let p : PSt := { pr with reach := max pr.reach pr.depth }
      match obj with
      | .ref n g =>
        match (if deep then p.done.lookup (n, g) else none) with
        | some (res, need) =>
          if p.depth + need ≥ maxDepth then (none, p, s)
          else (some res, { p with reach := max p.reach (p.depth + need) }, s)
        | none =>
          if p.visited.contains n then (none, p, s)
          else
            let p1 : PSt := { p with visited := n :: p.visited }
            match get n s with
            | (none, s1) => (none, unmark n p1, s1)
            | (some target, s1) =>
              if deep then
                let r := down (ofPVal target) { p1 with reach := p1.depth } s1
                let need := r.2.1.reach - r.2.1.depth
                let p3 : PSt := { r.2.1 with reach := max r.2.1.reach p1.reach }
                match r.1 with
                | none => (none, unmark n p3, r.2.2)
                | some res => (some res, unmark n { p3 with done := ((n, g), (res, need)) :: p3.done }, r.2.2)
              else (some (ofPVal target), unmark n p1, s1)
      | .dict kv =>
        if deep then
          let okv := ord kv
          let r := foldP down (okv.map Prod.snd) p s
          (r.1.map fun ys => .dict (sortKV ((okv.map Prod.fst).zip ys)), r.2)
        else (some obj, p, s)
      | .arr xs =>
        if deep then
          let r := foldP down xs p s
          (r.1.map .arr, r.2)
        else (some obj, p, s)
      | .stream kv data =>
        if deep then
          match down (.dict kv) p s with
          | (some (.dict kv'), q, s') => (some (.stream kv' data), q, s')
          | (_, q, s') => (none, q, s')
        else (some obj, p, s)
      | o => (some o, p, s)

/-- one level down: `r.currentDepth++; r.resolve(x, deep); r.currentDepth--` -/
def downP {σ : Type} (get : Int → σ → Option PVal × σ) (maxDepth : Nat)
    (ord : List (Str × DObj) → List (Str × DObj)) (deep : Bool) (fuel : Nat) :
    DObj → PSt → σ → Option DObj × PSt × σ := fun e q s =>
  let r := resolveP get maxDepth ord deep fuel e { q with depth := q.depth + 1 } s
  (r.1, { r.2.1 with depth := r.2.1.depth - 1 }, r.2.2)

theorem resolveP_succ {σ : Type} (get : Int → σ → Option PVal × σ) (maxDepth : Nat)
    (ord : List (Str × DObj) → List (Str × DObj)) (deep : Bool) (fuel : Nat) (obj : DObj) (p0 : PSt) (s : σ) :
    resolveP get maxDepth ord deep (fuel + 1) obj p0 s
      = stepP get maxDepth ord deep (downP get maxDepth ord deep fuel) obj p0 s := rfl

/-- same answer, same resolver state, invariant kept -/
def RelP {α σ : Type} (I : σ → Prop) (x : α × PSt × σ) (y : α × PSt × Unit) : Prop :=
  x.1 = y.1 ∧ x.2.1 = y.2.1 ∧ I x.2.2

theorem foldP_sim {σ : Type} {I : σ → Prop}
    (f : DObj → PSt → σ → Option DObj × PSt × σ) (g : DObj → PSt → Unit → Option DObj × PSt × Unit)
    (hfg : ∀ e p s, I s → RelP I (f e p s) (g e p ())) :
    ∀ xs p s, I s → RelP I (foldP f xs p s) (foldP g xs p ()) := by
  intro xs
  induction xs with
  | nil => intro p s hs; exact ⟨rfl, rfl, hs⟩
  | cons e es ih =>
    intro p s hs
    have h1 := hfg e p s hs
    simp only [foldP]
    generalize f e p s = x at h1
    generalize g e p () = y at h1
    obtain ⟨a, p', s'⟩ := x
    obtain ⟨b, q', u⟩ := y
    obtain ⟨hab, hpq, hs'⟩ := h1
    simp only at hab hpq hs'
    subst hab; subst hpq
    cases a with
    | none => exact ⟨rfl, rfl, hs'⟩
    | some e' =>
      have h2 := ih p' s' hs'
      simp only
      generalize foldP f es p' s' = x at h2
      generalize foldP g es p' () = y at h2
      obtain ⟨a, p'', s''⟩ := x
      obtain ⟨b, q'', u⟩ := y
      obtain ⟨hab, hpq, hs''⟩ := h2
      simp only at hab hpq hs''
      subst hab; subst hpq
      cases a with
      | none => exact ⟨rfl, rfl, hs''⟩
      | some r => exact ⟨rfl, rfl, hs''⟩

theorem stepP_sim {σ : Type} {get : Int → σ → Option PVal × σ} {spec : Int → Option PVal} {I : σ → Prop}
    (h : Sim get spec I) (maxDepth : Nat) (ord : List (Str × DObj) → List (Str × DObj)) (deep : Bool)
    (down : DObj → PSt → σ → Option DObj × PSt × σ) (down' : DObj → PSt → Unit → Option DObj × PSt × Unit)
    (hd : ∀ e q s, I s → RelP I (down e q s) (down' e q ()))
    (obj : DObj) (p0 : PSt) (s : σ) (hs : I s) :
    RelP I (stepP get maxDepth ord deep down obj p0 s) (stepP (pureGet spec) maxDepth ord deep down' obj p0 ()) := by
  simp only [stepP]
  generalize (if p0.depth = 0 then ({ visited := [], done := [], reach := 0, depth := 0 } : PSt) else p0) = pr
  by_cases hge : pr.depth ≥ maxDepth
  · simp only [hge, if_true]; exact ⟨rfl, rfl, hs⟩
  · simp only [hge, if_false]
    cases obj with
    | ref n g =>
      simp only
      cases hl : (if deep = true then List.lookup (n, g) pr.done else none) with
      | some rn =>
        obtain ⟨res, need⟩ := rn
        by_cases hn : pr.depth + need ≥ maxDepth
        · simp only [hn, if_true]; exact ⟨rfl, rfl, hs⟩
        · simp only [hn, if_false]; exact ⟨rfl, rfl, hs⟩
      | none =>
        by_cases hv : pr.visited.contains n = true
        · simp only [hv, if_true]; exact ⟨rfl, rfl, hs⟩
        · simp only [hv, Bool.false_eq_true, if_false]
          have hg := h n s hs
          simp only [pureGet]
          generalize get n s = x at hg
          obtain ⟨o, s1⟩ := x
          obtain ⟨ho, hs1⟩ := hg
          simp only at ho hs1
          subst ho
          cases spec n with
          | none => exact ⟨rfl, rfl, hs1⟩
          | some target =>
            simp only
            cases deep with
            | false => exact ⟨rfl, rfl, hs1⟩
            | true =>
              simp only [if_true]
              generalize hq : ({ visited := n :: pr.visited, done := pr.done, reach := pr.depth, depth := pr.depth } : PSt) = q
              have h2 := hd (ofPVal target) q s1 hs1
              generalize down (ofPVal target) q s1 = x at h2
              generalize down' (ofPVal target) q () = y at h2
              obtain ⟨a, p', s'⟩ := x
              obtain ⟨b, q', u⟩ := y
              obtain ⟨hab, hpq, hs'⟩ := h2
              simp only at hab hpq hs'
              subst hab; subst hpq
              cases a with
              | none => exact ⟨rfl, rfl, hs'⟩
              | some r => exact ⟨rfl, rfl, hs'⟩
    | dict kv =>
      cases deep with
      | false => exact ⟨rfl, rfl, hs⟩
      | true =>
        simp only [if_true]
        have h2 := foldP_sim down down' hd ((ord kv).map Prod.snd) ({ pr with reach := max pr.reach pr.depth } : PSt) s hs
        generalize foldP down ((ord kv).map Prod.snd) _ s = x at h2
        generalize foldP down' ((ord kv).map Prod.snd) _ () = y at h2
        obtain ⟨a, p', s'⟩ := x
        obtain ⟨b, q', u⟩ := y
        obtain ⟨hab, hpq, hs'⟩ := h2
        simp only at hab hpq hs'
        subst hab; subst hpq
        exact ⟨rfl, rfl, hs'⟩
    | arr xs =>
      cases deep with
      | false => exact ⟨rfl, rfl, hs⟩
      | true =>
        simp only [if_true]
        have h2 := foldP_sim down down' hd xs ({ pr with reach := max pr.reach pr.depth } : PSt) s hs
        generalize foldP down xs _ s = x at h2
        generalize foldP down' xs _ () = y at h2
        obtain ⟨a, p', s'⟩ := x
        obtain ⟨b, q', u⟩ := y
        obtain ⟨hab, hpq, hs'⟩ := h2
        simp only at hab hpq hs'
        subst hab; subst hpq
        exact ⟨rfl, rfl, hs'⟩
    | stream kv data =>
      cases deep with
      | false => exact ⟨rfl, rfl, hs⟩
      | true =>
        simp only [if_true]
        have h2 := hd (.dict kv) ({ pr with reach := max pr.reach pr.depth } : PSt) s hs
        generalize down (.dict kv) _ s = x at h2
        generalize down' (.dict kv) _ () = y at h2
        obtain ⟨a, p', s'⟩ := x
        obtain ⟨b, q', u⟩ := y
        obtain ⟨hab, hpq, hs'⟩ := h2
        simp only at hab hpq hs'
        subst hab; subst hpq
        cases a with
        | none => exact ⟨rfl, rfl, hs'⟩
        | some r => cases r <;> exact ⟨rfl, rfl, hs'⟩
    | _ => exact ⟨rfl, rfl, hs⟩

theorem resolveP_rel {σ : Type} {get : Int → σ → Option PVal × σ} {spec : Int → Option PVal} {I : σ → Prop}
    (h : Sim get spec I) (maxDepth : Nat) (ord : List (Str × DObj) → List (Str × DObj)) (deep : Bool) :
    ∀ (fuel : Nat) (obj : DObj) (p : PSt) (s : σ), I s →
      RelP I (resolveP get maxDepth ord deep fuel obj p s) (resolveP (pureGet spec) maxDepth ord deep fuel obj p ()) := by
  intro fuel
  induction fuel with
  | zero => intro obj p s hs; exact ⟨rfl, rfl, hs⟩
  | succ fuel ih =>
    intro obj p s hs
    rw [resolveP_succ, resolveP_succ]
    apply stepP_sim h _ _ _ _ _ _ _ _ _ hs
    intro e q s hs
    have h2 := ih e { q with depth := q.depth + 1 } s hs
    obtain ⟨h21, h22, h23⟩ := h2
    refine ⟨h21, ?_, h23⟩
    simp only [downP]
    rw [h22]

theorem resolveP_sim {σ : Type} {get : Int → σ → Option PVal × σ} {spec : Int → Option PVal} {I : σ → Prop}
    (h : Sim get spec I) (maxDepth : Nat) (ord : List (Str × DObj) → List (Str × DObj)) (deep : Bool) :
    ∀ (fuel : Nat) (obj : DObj) (p : PSt) (s : σ), I s →
      (resolveP get maxDepth ord deep fuel obj p s).1 = (resolveP (pureGet spec) maxDepth ord deep fuel obj p ()).1 ∧
      (resolveP get maxDepth ord deep fuel obj p s).2.1 = (resolveP (pureGet spec) maxDepth ord deep fuel obj p ()).2.1 ∧
      I (resolveP get maxDepth ord deep fuel obj p s).2.2 :=
  resolveP_rel h maxDepth ord deep

/-! ## B. the resolver's own state -/

theorem foldP_depth {σ : Type} (f : DObj → PSt → σ → Option DObj × PSt × σ)
    (hf : ∀ e q s, (f e q s).2.1.depth = q.depth) :
    ∀ xs p s, (foldP f xs p s).2.1.depth = p.depth := by
  intro xs
  induction xs with
  | nil => intro p s; rfl
  | cons e es ih =>
    intro p s
    have h1 := hf e p s
    simp only [foldP]
    generalize f e p s = x at h1
    obtain ⟨a, p', s'⟩ := x
    simp only at h1
    cases a with
    | none => exact h1
    | some e' =>
      have h2 := ih p' s'
      simp only
      generalize foldP f es p' s' = x at h2
      obtain ⟨a, p'', s''⟩ := x
      simp only at h2
      cases a with
      | none => simp only; omega
      | some r => simp only; omega

theorem stepP_depth {σ : Type} (get : Int → σ → Option PVal × σ) (maxDepth : Nat)
    (ord : List (Str × DObj) → List (Str × DObj)) (deep : Bool)
    (down : DObj → PSt → σ → Option DObj × PSt × σ)
    (hd : ∀ e q s, (down e q s).2.1.depth = q.depth) (obj : DObj) (p0 : PSt) (s : σ) :
    (stepP get maxDepth ord deep down obj p0 s).2.1.depth = p0.depth := by
  simp only [stepP]
  have hpr : (if p0.depth = 0 then ({ visited := [], done := [], reach := 0, depth := 0 } : PSt) else p0).depth = p0.depth := by
    by_cases h0 : p0.depth = 0
    · simp only [h0, if_true]
    · simp only [h0, if_false]
  generalize (if p0.depth = 0 then ({ visited := [], done := [], reach := 0, depth := 0 } : PSt) else p0) = pr at hpr
  rw [← hpr]
  by_cases hge : pr.depth ≥ maxDepth
  · simp only [hge, if_true]
  · simp only [hge, if_false]
    cases obj with
    | ref n g =>
      simp only
      cases hl : (if deep = true then List.lookup (n, g) pr.done else none) with
      | some rn =>
        obtain ⟨res, need⟩ := rn
        simp only
        by_cases hn : pr.depth + need ≥ maxDepth
        · simp only [hn, if_true]
        · simp only [hn, if_false]
      | none =>
        simp only
        by_cases hv : pr.visited.contains n = true
        · simp only [hv, if_true]
        · simp only [hv, Bool.false_eq_true, if_false]
          generalize get n s = x
          obtain ⟨o, s1⟩ := x
          cases o with
          | none => rfl
          | some target =>
            simp only
            cases deep with
            | false => rfl
            | true =>
              simp only [if_true]
              have h2 := hd (ofPVal target) { visited := n :: pr.visited, done := pr.done, reach := pr.depth, depth := pr.depth } s1
              generalize down (ofPVal target) _ s1 = x at h2
              obtain ⟨a, p', s'⟩ := x
              simp only at h2
              cases a with
              | none => exact h2
              | some r => exact h2
    | dict kv =>
      cases deep with
      | false => rfl
      | true =>
        simp only [if_true]
        exact foldP_depth down hd _ _ _
    | arr xs =>
      cases deep with
      | false => rfl
      | true =>
        simp only [if_true]
        exact foldP_depth down hd _ _ _
    | stream kv data =>
      cases deep with
      | false => rfl
      | true =>
        simp only [if_true]
        have h2 := hd (.dict kv) ({ pr with reach := max pr.reach pr.depth } : PSt) s
        generalize down (.dict kv) _ s = x at h2
        obtain ⟨a, p', s'⟩ := x
        simp only at h2
        cases a with
        | none => exact h2
        | some r => cases r <;> exact h2
    | _ => rfl

/-- every call gives the depth counter back as it got it (on every path, errors included) -/
theorem resolveP_depth {σ : Type} (get : Int → σ → Option PVal × σ) (maxDepth : Nat)
    (ord : List (Str × DObj) → List (Str × DObj)) (deep : Bool) :
    ∀ (fuel : Nat) (obj : DObj) (p : PSt) (s : σ),
      (resolveP get maxDepth ord deep fuel obj p s).2.1.depth = p.depth := by
  intro fuel
  induction fuel with
  | zero => intro obj p s; rfl
  | succ fuel ih =>
    intro obj p s
    rw [resolveP_succ]
    apply stepP_depth
    intro e q s
    have h2 := ih e { q with depth := q.depth + 1 } s
    simp only [downP]
    rw [h2]
    simp only [Nat.add_sub_cancel]

theorem downP_depth {σ : Type} (get : Int → σ → Option PVal × σ) (maxDepth : Nat)
    (ord : List (Str × DObj) → List (Str × DObj)) (deep : Bool) (fuel : Nat) (e : DObj) (q : PSt) (s : σ) :
    (downP get maxDepth ord deep fuel e q s).2.1.depth = q.depth := by
  have h2 := resolveP_depth get maxDepth ord deep fuel e { q with depth := q.depth + 1 } s
  simp only [downP]
  rw [h2]
  simp only [Nat.add_sub_cancel]

/-- a call made from outside (depth counter 0) starts from fresh maps: nothing of the resolver's
state matters -/
theorem resolveP_top_fresh {σ : Type} (get : Int → σ → Option PVal × σ) (maxDepth : Nat)
    (ord : List (Str × DObj) → List (Str × DObj)) (deep : Bool) (fuel : Nat) (obj : DObj) (p : PSt) (s : σ)
    (hp : p.depth = 0) :
    resolveP get maxDepth ord deep (fuel + 1) obj p s = resolveP get maxDepth ord deep (fuel + 1) obj {} s := by
  rw [resolveP_succ, resolveP_succ]
  have h1 : (if p.depth = 0 then ({ visited := [], done := [], reach := 0, depth := 0 } : PSt) else p)
      = (if ({} : PSt).depth = 0 then ({ visited := [], done := [], reach := 0, depth := 0 } : PSt) else {}) := by
    rw [if_pos hp]; rfl
  simp only [stepP, h1]

/-- between calls the depth counter is 0, whatever was called and whatever failed -/
theorem api_step_depth {σ : Type} (get : Int → σ → Option PVal × σ) (clear : σ → σ) (maxDepth : Nat)
    (ord : List (Str × DObj) → List (Str × DObj)) (st : Api.St σ) (op : Api.Op) (h : st.res.depth = 0) :
    (Api.step get clear maxDepth ord st op).2.res.depth = 0 := by
  have hr : ∀ deep obj s, (resolveP get maxDepth ord deep (maxDepth + 1) obj st.res s).2.1.depth = 0 := by
    intro deep obj s; rw [resolveP_depth]; exact h
  cases op with
  | clear => exact h
  | get n => exact h
  | resolve n g => exact h
  | deep n g => exact h
  | deepObj n =>
    simp only [Api.step]
    generalize get n st.rd = x
    obtain ⟨o, s1⟩ := x
    cases o <;> exact h
  | pResolve n g => exact hr _ _ _
  | pDeep n g => exact hr _ _ _
  | pDeepObj n =>
    simp only [Api.step]
    generalize get n st.rd = x
    obtain ⟨o, s1⟩ := x
    cases o with
    | none => exact h
    | some v => exact hr _ _ _
  | pRef n g => rfl
  | pRefDeep n g => rfl
  | pGet n => exact h
  | pGetResolved n =>
    simp only [Api.step]
    generalize get n st.rd = x
    obtain ⟨o, s1⟩ := x
    cases o with
    | none => exact h
    | some v => rfl
  | pGetDeep n =>
    simp only [Api.step]
    generalize get n st.rd = x
    obtain ⟨o, s1⟩ := x
    cases o with
    | none => exact h
    | some v => rfl
  | pCont n =>
    simp only [Api.step]
    generalize get n st.rd = x
    obtain ⟨o, s1⟩ := x
    cases o with
    | none => exact h
    | some v =>
      simp only
      cases ofPVal v <;> first | exact h | rfl
  | pReset => rfl

/-- one call: same reader state, both resolvers between calls ⇒ same answer, same reader state
afterwards -/
theorem api_step_history_free {σ : Type} (get : Int → σ → Option PVal × σ) (clear : σ → σ) (maxDepth : Nat)
    (ord : List (Str × DObj) → List (Str × DObj)) (rd : σ) (p1 p2 : PSt) (op : Api.Op)
    (h1 : p1.depth = 0) (h2 : p2.depth = 0) :
    (Api.step get clear maxDepth ord { rd := rd, res := p1 } op).1
        = (Api.step get clear maxDepth ord { rd := rd, res := p2 } op).1 ∧
    (Api.step get clear maxDepth ord { rd := rd, res := p1 } op).2.rd
        = (Api.step get clear maxDepth ord { rd := rd, res := p2 } op).2.rd := by
  have hr : ∀ deep obj s, resolveP get maxDepth ord deep (maxDepth + 1) obj p1 s
      = resolveP get maxDepth ord deep (maxDepth + 1) obj p2 s := by
    intro deep obj s
    rw [resolveP_top_fresh _ _ _ _ _ _ p1 _ h1, resolveP_top_fresh _ _ _ _ _ _ p2 _ h2]
  cases op with
  | clear => exact ⟨rfl, rfl⟩
  | get n => exact ⟨rfl, rfl⟩
  | resolve n g => exact ⟨rfl, rfl⟩
  | deep n g => exact ⟨rfl, rfl⟩
  | deepObj n =>
    simp only [Api.step]
    generalize get n rd = x
    obtain ⟨o, s1⟩ := x
    cases o <;> exact ⟨rfl, rfl⟩
  | pResolve n g => simp only [Api.step, hr, and_self]
  | pDeep n g => simp only [Api.step, hr, and_self]
  | pDeepObj n =>
    simp only [Api.step]
    generalize get n rd = x
    obtain ⟨o, s1⟩ := x
    cases o with
    | none => exact ⟨rfl, rfl⟩
    | some v => simp only [hr, and_self]
  | pRef n g => exact ⟨rfl, rfl⟩
  | pRefDeep n g => simp only [Api.step, hr, and_self]
  | pGet n => exact ⟨rfl, rfl⟩
  | pGetResolved n =>
    simp only [Api.step]
    generalize get n rd = x
    obtain ⟨o, s1⟩ := x
    cases o with
    | none => exact ⟨rfl, rfl⟩
    | some v => simp only [hr, and_self]
  | pGetDeep n =>
    simp only [Api.step]
    generalize get n rd = x
    obtain ⟨o, s1⟩ := x
    cases o with
    | none => exact ⟨rfl, rfl⟩
    | some v => simp only [hr, and_self]
  | pCont n =>
    simp only [Api.step]
    generalize get n rd = x
    obtain ⟨o, s1⟩ := x
    cases o with
    | none => exact ⟨rfl, rfl⟩
    | some v =>
      simp only
      cases ofPVal v <;> first | exact ⟨rfl, rfl⟩ | (simp only [hr, and_self])
  | pReset => exact ⟨rfl, rfl⟩

/-- **the answers do not depend on what the resolver was used for before** -/
theorem api_run_resolver_history_free {σ : Type} (get : Int → σ → Option PVal × σ) (clear : σ → σ) (maxDepth : Nat)
    (ord : List (Str × DObj) → List (Str × DObj)) :
    ∀ (ops : List Api.Op) (st1 st2 : Api.St σ), st1.rd = st2.rd → st1.res.depth = 0 → st2.res.depth = 0 →
      Api.run get clear maxDepth ord st1 ops = Api.run get clear maxDepth ord st2 ops := by
  intro ops
  induction ops with
  | nil => intro _ _ _ _ _; rfl
  | cons op ops ih =>
    intro st1 st2 hrd h1 h2
    obtain ⟨rd1, p1⟩ := st1
    obtain ⟨rd2, p2⟩ := st2
    simp only at hrd h1 h2
    subst hrd
    have hs := api_step_history_free get clear maxDepth ord rd1 p1 p2 op h1 h2
    simp only [Api.run]
    rw [hs.1]
    congr 1
    exact ih _ _ hs.2 (api_step_depth get clear maxDepth ord _ op h1) (api_step_depth get clear maxDepth ord _ op h2)

/-! ## A, continued: the public API -/

theorem api_step_sim {σ : Type} {get : Int → σ → Option PVal × σ} {spec : Int → Option PVal} {I : σ → Prop}
    (h : Sim get spec I) (clear : σ → σ) (hc : ∀ s, I s → I (clear s)) (maxDepth : Nat)
    (ord : List (Str × DObj) → List (Str × DObj)) (s : σ) (p : PSt) (hs : I s) (op : Api.Op) :
    (Api.step get clear maxDepth ord { rd := s, res := p } op).1
        = (Api.step (pureGet spec) id maxDepth ord { rd := (), res := p } op).1 ∧
    (Api.step get clear maxDepth ord { rd := s, res := p } op).2.res
        = (Api.step (pureGet spec) id maxDepth ord { rd := (), res := p } op).2.res ∧
    I (Api.step get clear maxDepth ord { rd := s, res := p } op).2.rd := by
  have hg := fun n => h n s hs
  have hP : ∀ deep obj s1, I s1 →
      (resolveP get maxDepth ord deep (maxDepth + 1) obj p s1).1 = (resolveP (pureGet spec) maxDepth ord deep (maxDepth + 1) obj p ()).1 ∧
      (resolveP get maxDepth ord deep (maxDepth + 1) obj p s1).2.1 = (resolveP (pureGet spec) maxDepth ord deep (maxDepth + 1) obj p ()).2.1 ∧
      I (resolveP get maxDepth ord deep (maxDepth + 1) obj p s1).2.2 :=
    fun deep obj s1 hs1 => resolveP_sim h maxDepth ord deep (maxDepth + 1) obj p s1 hs1
  cases op with
  | clear => exact ⟨rfl, rfl, hc s hs⟩
  | get n =>
    simp only [Api.step, pureGet]
    exact ⟨by rw [(hg n).1], trivial, (hg n).2⟩
  | resolve n g =>
    have h2 := resolveR_sim h (.ref n g) s hs
    simp only [Api.step]
    exact ⟨by rw [h2.1], trivial, h2.2⟩
  | deep n g =>
    have h2 := resolveDeepR_sim h (.ref n g) s hs
    simp only [Api.step]
    exact ⟨by rw [h2.1], trivial, h2.2⟩
  | deepObj n =>
    have hg := hg n
    simp only [Api.step, pureGet]
    generalize get n s = x at hg
    obtain ⟨o, s1⟩ := x
    obtain ⟨ho, hs1⟩ := hg
    simp only at ho hs1
    subst ho
    cases spec n with
    | none => exact ⟨rfl, rfl, hs1⟩
    | some v =>
      have h2 := resolveDeepR_sim h (ofPVal v) s1 hs1
      simp only
      exact ⟨by rw [h2.1], trivial, h2.2⟩
  | pResolve n g =>
    have h2 := hP false (.ref n g) s hs
    simp only [Api.step]
    exact ⟨by rw [h2.1], h2.2.1, h2.2.2⟩
  | pDeep n g =>
    have h2 := hP true (.ref n g) s hs
    simp only [Api.step]
    exact ⟨by rw [h2.1], h2.2.1, h2.2.2⟩
  | pDeepObj n =>
    have hg := hg n
    simp only [Api.step, pureGet]
    generalize get n s = x at hg
    obtain ⟨o, s1⟩ := x
    obtain ⟨ho, hs1⟩ := hg
    simp only at ho hs1
    subst ho
    cases spec n with
    | none => exact ⟨rfl, rfl, hs1⟩
    | some v =>
      have h2 := hP true (ofPVal v) s1 hs1
      simp only
      exact ⟨by rw [h2.1], h2.2.1, h2.2.2⟩
  | pRef n g =>
    simp only [Api.step, pureGet]
    exact ⟨by rw [(hg n).1], trivial, (hg n).2⟩
  | pRefDeep n g =>
    have h2 := hP true (.ref n g) s hs
    simp only [Api.step]
    exact ⟨by rw [h2.1], rfl, h2.2.2⟩
  | pGet n =>
    simp only [Api.step, pureGet]
    exact ⟨by rw [(hg n).1], trivial, (hg n).2⟩
  | pGetResolved n =>
    have hg := hg n
    simp only [Api.step, pureGet]
    generalize get n s = x at hg
    obtain ⟨o, s1⟩ := x
    obtain ⟨ho, hs1⟩ := hg
    simp only at ho hs1
    subst ho
    cases spec n with
    | none => exact ⟨rfl, rfl, hs1⟩
    | some v =>
      have h2 := hP false (ofPVal v) s1 hs1
      simp only
      exact ⟨by rw [h2.1], rfl, h2.2.2⟩
  | pGetDeep n =>
    have hg := hg n
    simp only [Api.step, pureGet]
    generalize get n s = x at hg
    obtain ⟨o, s1⟩ := x
    obtain ⟨ho, hs1⟩ := hg
    simp only at ho hs1
    subst ho
    cases spec n with
    | none => exact ⟨rfl, rfl, hs1⟩
    | some v =>
      have h2 := hP true (ofPVal v) s1 hs1
      simp only
      exact ⟨by rw [h2.1], rfl, h2.2.2⟩
  | pCont n =>
    have hg := hg n
    simp only [Api.step, pureGet]
    generalize get n s = x at hg
    obtain ⟨o, s1⟩ := x
    obtain ⟨ho, hs1⟩ := hg
    simp only at ho hs1
    subst ho
    cases spec n with
    | none => exact ⟨rfl, rfl, hs1⟩
    | some v =>
      simp only
      cases ofPVal v with
      | dict kv =>
        have h2 := hP true (.dict kv) s1 hs1
        simp only
        exact ⟨by rw [h2.1], rfl, h2.2.2⟩
      | arr xs =>
        have h2 := hP true (.arr xs) s1 hs1
        simp only
        exact ⟨by rw [h2.1], rfl, h2.2.2⟩
      | _ => exact ⟨rfl, rfl, hs1⟩
  | pReset => exact ⟨rfl, rfl, hs⟩

/-- **the cached reader may replace the stateless lookup under every sequence of public calls** -/
theorem api_run_sim {σ : Type} {get : Int → σ → Option PVal × σ} {spec : Int → Option PVal} {I : σ → Prop}
    (h : Sim get spec I) (clear : σ → σ) (hc : ∀ s, I s → I (clear s)) (maxDepth : Nat)
    (ord : List (Str × DObj) → List (Str × DObj)) :
    ∀ (ops : List Api.Op) (s : σ) (p : PSt), I s →
      Api.run get clear maxDepth ord { rd := s, res := p } ops
        = Api.run (pureGet spec) id maxDepth ord { rd := (), res := p } ops := by
  intro ops
  induction ops with
  | nil => intro _ _ _; rfl
  | cons op ops ih =>
    intro s p hs
    have h1 := api_step_sim h clear hc maxDepth ord s p hs op
    simp only [Api.run]
    rw [h1.1]
    congr 1
    have h2 := ih (Api.step get clear maxDepth ord { rd := s, res := p } op).2.rd
      (Api.step get clear maxDepth ord { rd := s, res := p } op).2.res h1.2.2
    have e : (Api.step (pureGet spec) id maxDepth ord { rd := (), res := p } op).2
        = { rd := (), res := (Api.step get clear maxDepth ord { rd := s, res := p } op).2.res } := by
      rw [h1.2.1]
    rw [e]
    exact h2

/-! ## C. the structural fuel is never what ends a call -/

theorem rdeep_fuel {σ : Type} (get : Int → σ → Option PVal × σ) :
    ∀ (f f' : Nat) (active : List Ref) (obj : DObj) (depth : Nat) (done : List (Ref × DObj)) (s : σ),
      maxResolveDepth + 2 ≤ f + depth → maxResolveDepth + 2 ≤ f' + depth →
      rdeep get f active obj depth done s = rdeep get f' active obj depth done s := by
  intro f
  induction f with
  | zero =>
    intro f' active obj depth done s h1 h2
    cases f' with
    | zero => rfl
    | succ f' =>
      have hd : depth > maxResolveDepth := by omega
      simp only [rdeep, hd, if_true]
  | succ f ih =>
    intro f' active obj depth done s h1 h2
    cases f' with
    | zero =>
      have hd : depth > maxResolveDepth := by omega
      simp only [rdeep, hd, if_true]
    | succ f' =>
      have ih' : ∀ active obj done s, rdeep get f active obj (depth + 1) done s
          = rdeep get f' active obj (depth + 1) done s :=
        fun active obj done s => ih f' active obj (depth + 1) done s (by omega) (by omega)
      simp only [rdeep, ih']

theorem foldP_congr {σ : Type} (k : Nat) (f g : DObj → PSt → σ → Option DObj × PSt × σ)
    (hf : ∀ e q s, (f e q s).2.1.depth = q.depth)
    (hfg : ∀ e q s, q.depth = k → f e q s = g e q s) :
    ∀ xs p s, p.depth = k → foldP f xs p s = foldP g xs p s := by
  intro xs
  induction xs with
  | nil => intro p s _; rfl
  | cons e es ih =>
    intro p s hp
    have h1 := hf e p s
    simp only [foldP]
    rw [← hfg e p s hp]
    generalize f e p s = x at h1
    obtain ⟨a, p', s'⟩ := x
    simp only at h1
    cases a with
    | none => rfl
    | some e' =>
      simp only
      rw [ih p' s' (by omega)]

theorem stepP_congr {σ : Type} (get : Int → σ → Option PVal × σ) (maxDepth : Nat)
    (ord : List (Str × DObj) → List (Str × DObj)) (deep : Bool)
    (down down' : DObj → PSt → σ → Option DObj × PSt × σ) (obj : DObj) (p0 : PSt) (s : σ)
    (hd : ∀ e q s, (down e q s).2.1.depth = q.depth)
    (hdd : ∀ e q s, q.depth = p0.depth → down e q s = down' e q s) :
    stepP get maxDepth ord deep down obj p0 s = stepP get maxDepth ord deep down' obj p0 s := by
  simp only [stepP]
  have hpr : (if p0.depth = 0 then ({ visited := [], done := [], reach := 0, depth := 0 } : PSt) else p0).depth = p0.depth := by
    by_cases h0 : p0.depth = 0
    · simp only [h0, if_true]
    · simp only [h0, if_false]
  generalize (if p0.depth = 0 then ({ visited := [], done := [], reach := 0, depth := 0 } : PSt) else p0) = pr at hpr
  by_cases hge : pr.depth ≥ maxDepth
  · simp only [hge, if_true]
  · simp only [hge, if_false]
    cases obj with
    | ref n g =>
      have hq : ∀ e s, down e { visited := n :: pr.visited, done := pr.done, reach := pr.depth, depth := pr.depth } s
          = down' e { visited := n :: pr.visited, done := pr.done, reach := pr.depth, depth := pr.depth } s :=
        fun e s => hdd e _ s hpr
      simp only [hq]
    | dict kv =>
      simp only
      rw [foldP_congr p0.depth down down' hd hdd _ ({ pr with reach := max pr.reach pr.depth } : PSt) _ hpr]
    | arr xs =>
      simp only
      rw [foldP_congr p0.depth down down' hd hdd _ ({ pr with reach := max pr.reach pr.depth } : PSt) _ hpr]
    | stream kv data =>
      simp only
      rw [hdd _ ({ pr with reach := max pr.reach pr.depth } : PSt) _ hpr]
    | _ => rfl

theorem resolveP_fuel {σ : Type} (get : Int → σ → Option PVal × σ) (maxDepth : Nat)
    (ord : List (Str × DObj) → List (Str × DObj)) (deep : Bool) :
    ∀ (f f' : Nat) (obj : DObj) (p : PSt) (s : σ),
      maxDepth + 1 ≤ f + p.depth → maxDepth + 1 ≤ f' + p.depth →
      resolveP get maxDepth ord deep f obj p s = resolveP get maxDepth ord deep f' obj p s := by
  have hz : ∀ (f : Nat) (obj : DObj) (p : PSt) (s : σ), maxDepth + 1 ≤ p.depth →
      resolveP get maxDepth ord deep f obj p s = (none, p, s) := by
    intro f obj p s hp
    cases f with
    | zero => rfl
    | succ f =>
      have h0 : ¬ p.depth = 0 := by omega
      have hge : p.depth ≥ maxDepth := by omega
      simp only [resolveP, h0, if_false, hge, if_true]
  intro f
  induction f with
  | zero =>
    intro f' obj p s h1 h2
    rw [hz 0 obj p s (by omega), hz f' obj p s (by omega)]
  | succ f ih =>
    intro f' obj p s h1 h2
    cases f' with
    | zero => rw [hz (f + 1) obj p s (by omega), hz 0 obj p s (by omega)]
    | succ f' =>
      rw [resolveP_succ, resolveP_succ]
      apply stepP_congr
      · exact downP_depth get maxDepth ord deep f
      · intro e q s hq
        simp only [downP]
        rw [ih f' e { q with depth := q.depth + 1 } s (by simp only; omega) (by simp only; omega)]

end Tabula.XrefR
