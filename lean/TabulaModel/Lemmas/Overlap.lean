import TabulaModel.Model.Overlap
import TabulaModel.Lemmas.Split
/-!
Helper lemmas for the overlap part of C13: length bounds of `truncateOverlap`,
`generateCharacterOverlap` returns (up to trailing whitespace) a suffix of its input,
and which text `ApplyOverlapToChunks` takes the overlap of chunk i+1 from.
-/
set_option linter.unusedVariables false
namespace Tabula.Overlap
open Tabula.Split

/-! ### suffixes -/

theorem skipCont_suffix (s : Str) : ∃ a, s = a ++ skipCont s := by
  induction s with
  | nil => exact ⟨[], rfl⟩
  | cons b rest ih =>
    unfold skipCont
    split
    · exact ⟨[], rfl⟩
    · obtain ⟨a, e⟩ := ih
      exact ⟨b :: a, by rw [List.cons_append, ← e]⟩

theorem skipNonSpace_suffix (fuel : Nat) (s : Str) : ∃ a, s = a ++ skipNonSpace fuel s := by
  induction fuel generalizing s with
  | zero => exact ⟨[], rfl⟩
  | succ n ih =>
    unfold skipNonSpace
    split
    · rename_i h; exact ⟨[], by simp [h]⟩
    · split
      · exact ⟨[], rfl⟩
      · obtain ⟨a, e⟩ := ih (s.drop (runeLen s))
        refine ⟨s.take (runeLen s) ++ a, ?_⟩
        rw [List.append_assoc, ← e, List.take_append_drop]

theorem suffix_length_le {s a t : Str} (e : s = a ++ t) : t.length ≤ s.length := by
  rw [e, List.length_append]; omega

theorem final_trim_suffix (t : Str) :
    ∃ a r, WsOnly r ∧ t = a ++ (if t = [] then [] else trimSpace t) ++ r := by
  split
  · rename_i h; exact ⟨[], [], .nil, by simp [h]⟩
  · obtain ⟨l, r, _, hr, e⟩ := trimSpace_decomp t
    exact ⟨l, r, hr, e⟩

theorem suffix_chain {text a0 t a res r : Str} (e0 : text = a0 ++ t) (e : t = a ++ res ++ r) :
    text = (a0 ++ a) ++ res ++ r := by
  rw [e0, e]; simp [List.append_assoc]

/-- `generateCharacterOverlap` returns a suffix of the text, up to trailing whitespace -/
theorem generateCharacterOverlap_suffix (c : OverlapConfig) (text : Str) :
    ∃ a r, WsOnly r ∧ text = a ++ generateCharacterOverlap c text ++ r := by
  unfold generateCharacterOverlap
  split
  · exact ⟨[], [], .nil, by simp⟩
  · simp only
    obtain ⟨a1, e1⟩ := skipCont_suffix (text.drop (text.length - c.size))
    have e0 : text = text.take (text.length - c.size) ++ text.drop (text.length - c.size) :=
      (List.take_append_drop _ _).symm
    generalize skipCont (text.drop (text.length - c.size)) = t1 at e1 ⊢
    have et1 : text = (text.take (text.length - c.size) ++ a1) ++ t1 := by
      rw [List.append_assoc, ← e1]; exact e0
    cases hpw : c.preserveWords with
    | false =>
      simp only [Bool.false_eq_true, if_false]
      obtain ⟨a, r, hr, e⟩ := final_trim_suffix t1
      exact ⟨_, r, hr, suffix_chain et1 e⟩
    | true =>
      simp only [if_true]
      obtain ⟨a2, e2⟩ := skipNonSpace_suffix t1.length t1
      obtain ⟨l, _, e3⟩ := trimLeft_decomp (skipNonSpace t1.length t1)
      generalize trimLeft (skipNonSpace t1.length t1) = t at e3 ⊢
      have et : text = (text.take (text.length - c.size) ++ a1 ++ a2 ++ l) ++ t := by
        rw [List.append_assoc _ l, ← e3, List.append_assoc _ a2, ← e2]; exact et1
      obtain ⟨a, r, hr, e⟩ := final_trim_suffix t
      exact ⟨_, r, hr, suffix_chain et e⟩

theorem generateCharacterOverlap_length_le (c : OverlapConfig) (text : Str) :
    (generateCharacterOverlap c text).length ≤ text.length := by
  obtain ⟨a, r, _, e⟩ := generateCharacterOverlap_suffix c text
  have := congrArg List.length e
  simp only [List.length_append] at this
  omega

theorem skipCont_length_le (s : Str) : (skipCont s).length ≤ s.length := by
  obtain ⟨a, e⟩ := skipCont_suffix s
  exact suffix_length_le e

theorem tailAtRuneBoundary_length_le (s : Str) (n : Nat) : (tailAtRuneBoundary s n).length ≤ n := by
  unfold tailAtRuneBoundary
  split
  · omega
  · have := skipCont_length_le (s.drop (s.length - n))
    simp only [List.length_drop] at this
    omega

/-! ### truncation -/

theorem joinWith_cons (sep s : Str) (acc : List Str) :
    joinWith sep (s :: acc) = if acc = [] then s else s ++ sep ++ joinWith sep acc := by
  cases acc with
  | nil => simp [joinWith]
  | cons a as => simp [joinWith]

theorem fitLast_cons (max : Nat) (s : Str) (rest : List Str) (size : Nat) (acc : List Str) :
    fitLast max (s :: rest) size acc =
      if size + (s.length + (if size > 0 then 1 else 0)) > max then acc
      else fitLast max rest (size + (s.length + (if size > 0 then 1 else 0))) (s :: acc) := by
  simp [fitLast]

/-- invariant of the backward loop of `truncateOverlap` -/
theorem fitLast_length (max : Nat) (rev : List Str) (hne : ∀ s ∈ rev, s ≠ []) (size : Nat) (acc : List Str)
    (hinv : (acc = [] ∧ size = 0) ∨ (acc ≠ [] ∧ (joinWith [32] acc).length = size ∧ 0 < size))
    (hsz : size ≤ max) : (joinWith [32] (fitLast max rev size acc)).length ≤ max := by
  have hbase : (joinWith [32] acc).length ≤ max := by
    rcases hinv with ⟨h1, h2⟩ | ⟨_, h2, _⟩
    · subst h1; simp [joinWith]
    · omega
  induction rev generalizing size acc with
  | nil => simpa [fitLast] using hbase
  | cons s rest ih =>
    rw [fitLast_cons]
    by_cases hfit : size + (s.length + (if size > 0 then 1 else 0)) > max
    · rw [if_pos hfit]; exact hbase
    · rw [if_neg hfit]
      have hs : s ≠ [] := hne s (List.mem_cons_self ..)
      have hslen : 0 < s.length := List.length_pos_iff.mpr hs
      have hnew : (joinWith [32] (s :: acc)).length = size + (s.length + (if size > 0 then 1 else 0)) := by
        rw [joinWith_cons]
        rcases hinv with ⟨h1, h2⟩ | ⟨h1, h2, h3⟩
        · subst h1; subst h2; simp
        · simp only [h1, if_false, List.length_append, List.length_cons, List.length_nil, h2]
          have : (if size > 0 then 1 else 0) = 1 := by simp [h3]
          omega
      apply ih (fun t ht => hne t (List.mem_cons_of_mem _ ht))
      · right
        exact ⟨by simp, hnew, by omega⟩
      · omega
      · omega

/-- every sentence returned by the sentence splitter is non-empty -/
theorem sentencesLoop_ne_nil (cl : Classes) (runes : Array Nat) (fuel i : Nat) (cur : List Nat)
    (acc : List Str) (hacc : ∀ t ∈ acc, t ≠ []) :
    ∀ t ∈ sentencesLoop cl runes fuel i cur acc, t ≠ [] := by
  induction fuel generalizing i cur acc with
  | zero =>
    unfold sentencesLoop
    intro t ht
    simp only [List.mem_append, List.mem_reverse] at ht
    rcases ht with ht | ht
    · exact hacc t ht
    · split at ht
      · simp at ht
      · rename_i h; simp at ht; subst ht; exact h
  | succ n ih =>
    unfold sentencesLoop
    split
    · intro t ht
      simp only [List.mem_append, List.mem_reverse] at ht
      rcases ht with ht | ht
      · exact hacc t ht
      · split at ht
        · simp at ht
        · rename_i h; simp at ht; subst ht; exact h
    · simp only
      split
      · apply ih
        intro t ht
        split at ht
        · exact hacc t ht
        · rename_i h
          rcases List.mem_cons.mp ht with ht | ht
          · subst ht; exact h
          · exact hacc t ht
      · exact ih _ _ _ hacc

theorem splitIntoSentences_ne_nil (cl : Classes) (text : Str) :
    ∀ t ∈ splitIntoSentences cl text, t ≠ [] := by
  unfold splitIntoSentences
  exact sentencesLoop_ne_nil cl _ _ _ _ _ (by simp)

theorem truncateOverlap_length_le (cl : Classes) (c : OverlapConfig) (o : Str) :
    (truncateOverlap cl c o).length ≤ c.maxOverlap := by
  unfold truncateOverlap
  split
  · assumption
  · simp only
    have hchar : (generateCharacterOverlap c (tailAtRuneBoundary o c.maxOverlap)).length ≤ c.maxOverlap :=
      Nat.le_trans (generateCharacterOverlap_length_le _ _) (tailAtRuneBoundary_length_le _ _)
    split
    · exact hchar
    · split
      · exact hchar
      · apply fitLast_length
        · intro s hs
          exact splitIntoSentences_ne_nil cl o s (List.mem_reverse.mp hs)
        · left; exact ⟨rfl, rfl⟩
        · omega

theorem capOverlap_length_le (cl : Classes) (c : OverlapConfig) (o : Str) :
    (capOverlap cl c o).length ≤ c.maxOverlap := by
  unfold capOverlap
  split
  · exact truncateOverlap_length_le ..
  · omega

/-- **overlap bound**: whatever the strategy, the generated overlap has at most `MaxOverlap` bytes -/
theorem generateOverlap_length_le (cl : Classes) (c : OverlapConfig) (text : Str) :
    (generateOverlap cl c text).length ≤ c.maxOverlap := by
  unfold generateOverlap
  split
  · simp
  · exact capOverlap_length_le ..

/-! ### where the overlap comes from -/

/-- the overlap `ApplyOverlapToChunks` computes from a previous text -/
def overlapFrom (cl : Classes) (c : OverlapConfig) : Option Str → Str
  | some p => if c.strategy ≠ 0 then generateOverlap cl c p else []
  | none => []

/-- the text chunk `i` takes its overlap from: the ORIGINAL text of chunk `i-1` -/
def prevText (prev : Option Str) (items : List (Str × Str)) : Nat → Option Str
  | 0 => prev
  | i + 1 => items[i]?.map (·.1)

theorem out_pref (ov text t2 : Str) :
    (if ov = [] then ({ has := false, pref := [], text := text } : OverlapOut)
      else { has := true, pref := ov, text := t2 }).pref = ov := by
  split
  · rename_i h; simp [h]
  · rfl

theorem applyOverlapAux_pref (cl : Classes) (c : OverlapConfig) (prev : Option Str)
    (items : List (Str × Str)) (i : Nat) (hi : i < items.length) :
    ((applyOverlapAux cl c prev items)[i]?).map (·.pref) = some (overlapFrom cl c (prevText prev items i)) := by
  induction items generalizing prev i with
  | nil => simp at hi
  | cons it rest ih =>
    obtain ⟨text, title⟩ := it
    unfold applyOverlapAux
    cases i with
    | zero =>
      simp only [List.getElem?_cons_zero, Option.map_some, prevText]
      congr 1
      rw [out_pref]
      cases prev <;> rfl
    | succ j =>
      simp only [List.getElem?_cons_succ]
      have hj : j < rest.length := by simpa using hi
      rw [ih (some text) j hj]
      congr 2
      cases j <;> simp [prevText]

end Tabula.Overlap
