import TabulaModel.Model.Builder
/-!
Helper lemmas for C10 (builder / reader life cycle): the ownership invariant of
the handle store, its preservation by every operation, and the "view" of one
extractor (its record and whether the file behind its reader is open) that
determines the result of every operation on it.
-/
namespace Tabula.Builder
open Tabula.PageSel

/-! ### configuration methods only touch options / err -/

theorem clone_opts (e : Ext) : e.clone.opts = e.opts := by
  unfold Ext.clone Options.clone; split <;> rfl

theorem clone_err (e : Ext) : e.clone.err = e.err := by
  unfold Ext.clone; split <;> rfl

theorem clone_hasFile (e : Ext) : e.clone.hasFile = e.hasFile := by
  unfold Ext.clone; split <;> rfl

theorem applyCall_reader (c : BCall) (e : Ext) : (applyCall c e).reader = e.reader := by
  cases c <;> simp only [applyCall] <;> (try split) <;> rfl

theorem applyCall_owns (c : BCall) (e : Ext) : (applyCall c e).owns = e.owns := by
  cases c <;> simp only [applyCall] <;> (try split) <;> rfl

theorem applyCall_opened (c : BCall) (e : Ext) : (applyCall c e).opened = e.opened := by
  cases c <;> simp only [applyCall] <;> (try split) <;> rfl

theorem applyCall_hasFile (c : BCall) (e : Ext) : (applyCall c e).hasFile = e.hasFile := by
  cases c <;> simp only [applyCall] <;> (try split) <;> rfl

/-- life-cycle fields of a derived extractor: shared only when the parent has
an open reader it does not own from a file -/
theorem derive_life (e : Ext) (c : BCall) :
    (e.opened = true ∧ (e.owns && e.hasFile) = false ∧
      (e.derive c).reader = e.reader ∧ (e.derive c).owns = e.owns ∧ (e.derive c).opened = true) ∨
    ((e.derive c).reader = none ∧ (e.derive c).owns = false ∧ (e.derive c).opened = false) := by
  unfold Ext.derive
  rw [applyCall_reader, applyCall_owns, applyCall_opened]
  unfold Ext.clone
  by_cases h : (e.opened && !(e.owns && e.hasFile)) = true
  · left
    rw [if_pos h]
    have h' := h
    simp only [Bool.and_eq_true, Bool.not_eq_true'] at h'
    exact ⟨h'.1, h'.2, rfl, rfl, h'.1⟩
  · right
    rw [if_neg h]
    exact ⟨rfl, rfl, rfl⟩

/-! ### ensureReader / Close -/

/-- the state after `ensureReader` had to open the file -/
def openNew (s : Store) (i : Nat) (e : Ext) : Store × Ext :=
  ({ readers := s.readers ++ [true],
     exts := s.exts.set i { e with reader := some s.readers.length, owns := true, opened := true } },
   { e with reader := some s.readers.length, owns := true, opened := true })

theorem ensureReader_cases (w : World) (s : Store) (i : Nat) (e : Ext) :
    (e.opened = true ∧ ensureReader w s i e = .ok (s, e)) ∨
    (e.opened = false ∧ (e.hasFile = false ∨ w.openOk = false) ∧
      ∃ x, ensureReader w s i e = .error x) ∨
    (e.opened = false ∧ e.hasFile = true ∧ w.openOk = true ∧
      ensureReader w s i e = .ok (openNew s i e)) := by
  unfold ensureReader
  by_cases ho : e.opened = true
  · left; simp [ho]
  · have ho' : e.opened = false := by simpa using ho
    right
    by_cases hf : e.hasFile = true
    · by_cases hw : w.openOk = true
      · right; simp [ho', hf, hw, openNew]
      · left; simp [ho', hf, hw]
    · left; simp [ho', hf]

theorem closeExt_length (s : Store) (i : Nat) (e : Ext) :
    (closeExt s i e).exts.length = s.exts.length := by
  unfold closeExt
  split
  · split <;> simp
  · rfl

theorem openNew_length (s : Store) (i : Nat) (e : Ext) :
    (openNew s i e).1.exts.length = s.exts.length := by
  simp [openNew]

/-- ownership invariant of the handle store (holds in every state reachable
from `Open` / `FromReader` after the fix) -/
structure StoreInv (s : Store) : Prop where
  /-- an extractor that is not opened holds nothing -/
  unopened : ∀ (i : Nat) (e : Ext), s.exts[i]? = some e → e.opened = false → e.owns = false ∧ e.reader = none
  /-- an opened extractor points at a reader whose file is open -/
  live : ∀ (i : Nat) (e : Ext), s.exts[i]? = some e → e.opened = true →
    ∃ r, e.reader = some r ∧ s.readers[r]? = some true
  /-- a reader owned by one extractor is referenced by no other -/
  unique : ∀ (i j : Nat) (ei ej : Ext) (r : Nat), i ≠ j → s.exts[i]? = some ei → s.exts[j]? = some ej →
    ei.owns = true → ei.reader = some r → ej.reader ≠ some r
  /-- only extractors with a file name own readers -/
  ownsFile : ∀ (i : Nat) (e : Ext), s.exts[i]? = some e → e.owns = true → e.hasFile = true
  /-- an extractor carrying a builder error never opened anything -/
  errNoOwn : ∀ (i : Nat) (e : Ext), s.exts[i]? = some e → e.err = true → e.owns = false

theorem StoreInv.bound {s : Store} (h : StoreInv s) {i : Nat} {e : Ext} {r : Nat}
    (he : s.exts[i]? = some e) (hr : e.reader = some r) : r < s.readers.length := by
  by_cases ho : e.opened = true
  · obtain ⟨r', hr', hl⟩ := h.live i e he ho
    rw [hr] at hr'; cases hr'
    exact (List.getElem?_eq_some_iff.mp hl).1
  · have := (h.unopened i e he (by simpa using ho)).2
    rw [hr] at this; cases this

theorem StoreInv.owns_opened {s : Store} (h : StoreInv s) {i : Nat} {e : Ext}
    (he : s.exts[i]? = some e) (ho : e.owns = true) : e.opened = true := by
  by_cases hop : e.opened = true
  · exact hop
  · have := (h.unopened i e he (by simpa using hop)).1
    rw [ho] at this; cases this

theorem lt_of_getElem? {α : Type} {l : List α} {i : Nat} {a : α} (h : l[i]? = some a) :
    i < l.length := (List.getElem?_eq_some_iff.mp h).1

theorem inv_openNew {s : Store} (h : StoreInv s) {i : Nat} {e : Ext}
    (he : s.exts[i]? = some e) (ho : e.opened = false) (hf : e.hasFile = true)
    (herr : e.err = false) :
    StoreInv (openNew s i e).1 := by
  have hi := lt_of_getElem? he
  have hun := h.unopened i e he ho
  constructor
  · intro j ej hj hoj
    by_cases hji : i = j
    · subst hji
      simp only [openNew, List.getElem?_set_self hi] at hj
      cases hj; simp at hoj
    · simp only [openNew, List.getElem?_set_ne hji] at hj
      exact h.unopened j ej hj hoj
  · intro j ej hj hoj
    by_cases hji : i = j
    · subst hji
      simp only [openNew, List.getElem?_set_self hi] at hj
      cases hj
      exact ⟨s.readers.length, rfl, by simp [openNew]⟩
    · simp only [openNew, List.getElem?_set_ne hji] at hj
      obtain ⟨r, hr, hl⟩ := h.live j ej hj hoj
      refine ⟨r, hr, ?_⟩
      simp only [openNew]
      rw [List.getElem?_append_left (lt_of_getElem? hl)]
      exact hl
  · intro j k ej ek r hjk hj hk hown hr
    by_cases hij : i = j
    · subst hij
      simp only [openNew, List.getElem?_set_self hi] at hj
      cases hj
      simp only [Option.some.injEq] at hr
      have hik : i ≠ k := hjk
      simp only [openNew, List.getElem?_set_ne hik] at hk
      intro hkr
      have := h.bound hk hkr
      omega
    · simp only [openNew, List.getElem?_set_ne hij] at hj
      by_cases hik : i = k
      · subst hik
        simp only [openNew, List.getElem?_set_self hi] at hk
        cases hk
        have := h.bound hj hr
        simp only [ne_eq, Option.some.injEq]
        omega
      · simp only [openNew, List.getElem?_set_ne hik] at hk
        exact h.unique j k ej ek r hjk hj hk hown hr
  · intro j ej hj hoj
    by_cases hji : i = j
    · subst hji
      simp only [openNew, List.getElem?_set_self hi] at hj
      cases hj; exact hf
    · simp only [openNew, List.getElem?_set_ne hji] at hj
      exact h.ownsFile j ej hj hoj
  · intro j ej hj hej
    by_cases hji : i = j
    · subst hji
      simp only [openNew, List.getElem?_set_self hi] at hj
      cases hj
      simp only at hej
      rw [herr] at hej; cases hej
    · simp only [openNew, List.getElem?_set_ne hji] at hj
      exact h.errNoOwn j ej hj hej

theorem inv_closeExt {s : Store} (h : StoreInv s) {i : Nat} {e : Ext}
    (he : s.exts[i]? = some e) : StoreInv (closeExt s i e) := by
  have hi := lt_of_getElem? he
  unfold closeExt
  by_cases hown : e.owns = true
  · simp only [hown, if_true]
    cases hr : e.reader with
    | none => exact h
    | some r =>
      simp only
      constructor
      · intro j ej hj hoj
        by_cases hji : i = j
        · subst hji
          simp only [List.getElem?_set_self hi] at hj
          cases hj; exact ⟨rfl, rfl⟩
        · simp only [List.getElem?_set_ne hji] at hj
          exact h.unopened j ej hj hoj
      · intro j ej hj hoj
        by_cases hji : i = j
        · subst hji
          simp only [List.getElem?_set_self hi] at hj
          cases hj; simp at hoj
        · simp only [List.getElem?_set_ne hji] at hj
          obtain ⟨r', hr', hl⟩ := h.live j ej hj hoj
          refine ⟨r', hr', ?_⟩
          have hne : r ≠ r' := by
            intro hrr; subst hrr
            exact h.unique i j e ej r hji he hj hown hr hr'
          simp only [List.getElem?_set_ne hne]
          exact hl
      · intro j k ej ek r' hjk hj hk hownj hrj
        by_cases hij : i = j
        · subst hij
          simp only [List.getElem?_set_self hi] at hj
          cases hj; simp at hownj
        · simp only [List.getElem?_set_ne hij] at hj
          by_cases hik : i = k
          · subst hik
            simp only [List.getElem?_set_self hi] at hk
            cases hk; simp
          · simp only [List.getElem?_set_ne hik] at hk
            exact h.unique j k ej ek r' hjk hj hk hownj hrj
      · intro j ej hj hoj
        by_cases hji : i = j
        · subst hji
          simp only [List.getElem?_set_self hi] at hj
          cases hj; simp at hoj
        · simp only [List.getElem?_set_ne hji] at hj
          exact h.ownsFile j ej hj hoj
      · intro j ej hj hej
        by_cases hji : i = j
        · subst hji
          simp only [List.getElem?_set_self hi] at hj
          cases hj; rfl
        · simp only [List.getElem?_set_ne hji] at hj
          exact h.errNoOwn j ej hj hej
  · simp only [hown]
    exact h

theorem getElem?_concat {α : Type} (l : List α) (a : α) (j : Nat) (b : α)
    (h : (l ++ [a])[j]? = some b) : l[j]? = some b ∨ (j = l.length ∧ b = a) := by
  by_cases hj : j < l.length
  · rw [List.getElem?_append_left hj] at h; exact Or.inl h
  · rw [List.getElem?_append_right (by omega)] at h
    have : j - l.length = 0 := by
      cases hk : j - l.length with
      | zero => rfl
      | succ k => rw [hk] at h; simp at h
    rw [this] at h
    simp only [List.getElem?_cons_zero, Option.some.injEq] at h
    exact Or.inr ⟨by omega, h.symm⟩

theorem inv_append {s : Store} (h : StoreInv s) {i : Nat} {e : Ext} (c : BCall)
    (he : s.exts[i]? = some e) : StoreInv { s with exts := s.exts ++ [e.derive c] } := by
  have hi := lt_of_getElem? he
  have hlife := derive_life e c
  constructor
  · intro j ej hj hoj
    rcases getElem?_concat _ _ _ _ hj with hj | ⟨_, rfl⟩
    · exact h.unopened j ej hj hoj
    · rcases hlife with ⟨_, _, _, _, ho⟩ | ⟨hr, hw, _⟩
      · rw [ho] at hoj; cases hoj
      · exact ⟨hw, hr⟩
  · intro j ej hj hoj
    rcases getElem?_concat _ _ _ _ hj with hj | ⟨_, rfl⟩
    · exact h.live j ej hj hoj
    · rcases hlife with ⟨ho, _, hr, _, _⟩ | ⟨_, _, ho⟩
      · obtain ⟨r, hr', hl⟩ := h.live i e he ho
        exact ⟨r, by rw [hr, hr'], hl⟩
      · rw [ho] at hoj; cases hoj
  · intro j k ej ek r hjk hj hk hown hr
    rcases getElem?_concat _ _ _ _ hj with hj | ⟨hjl, rfl⟩
    · rcases getElem?_concat _ _ _ _ hk with hk | ⟨hkl, rfl⟩
      · exact h.unique j k ej ek r hjk hj hk hown hr
      · -- the new extractor as the "other": it can only reference the reader of `e`
        rcases hlife with ⟨ho, hnot, hrd, _, _⟩ | ⟨hrd, _, _⟩
        · rw [hrd]
          by_cases hji : j = i
          · subst hji
            rw [he] at hj; cases hj
            have := h.ownsFile j e he hown
            simp [hown, this] at hnot
          · exact h.unique j i ej e r hji hj he hown hr
        · rw [hrd]; simp
    · -- the new extractor never owns a reader referenced elsewhere
      rcases hlife with ⟨ho, hnot, hrd, hw, _⟩ | ⟨_, hw, _⟩
      · rw [hw] at hown
        have := h.ownsFile i e he hown
        simp [hown, this] at hnot
      · rw [hw] at hown; cases hown
  · intro j ej hj hoj
    rcases getElem?_concat _ _ _ _ hj with hj | ⟨_, rfl⟩
    · exact h.ownsFile j ej hj hoj
    · rcases hlife with ⟨_, hnot, _, hw, _⟩ | ⟨_, hw, _⟩
      · rw [hw] at hoj
        rw [hoj] at hnot
        simp only [Bool.true_and] at hnot
        -- owns ∧ ¬hasFile cannot happen for the parent
        have := h.ownsFile i e he hoj
        rw [this] at hnot; cases hnot
      · rw [hw] at hoj; cases hoj
  · intro j ej hj hej
    rcases getElem?_concat _ _ _ _ hj with hj | ⟨_, rfl⟩
    · exact h.errNoOwn j ej hj hej
    · rcases hlife with ⟨_, hnot, _, hw, _⟩ | ⟨_, hw, _⟩
      · rw [hw]
        cases hown : e.owns with
        | false => rfl
        | true =>
          have := h.ownsFile i e he hown
          simp [hown, this] at hnot
      · exact hw

/-! ### the stores after the frames of the operations -/

theorem set_self_getElem? {s : Store} {i : Nat} {e : Ext} (he : s.exts[i]? = some e) :
    (openNew s i e).1.exts[i]? = some (openNew s i e).2 := by
  simp only [openNew, List.getElem?_set_self (lt_of_getElem? he)]

/-- the store after `ensureReader … defer e.Close()` (a terminal operation that got past its
first tests) -/
def termStore (w : World) (s : Store) (i : Nat) (e : Ext) : Store :=
  match ensureReader w s i e with
  | .error _ => s
  | .ok (s1, e1) => closeExt s1 i e1

/-- the store after `ensureReader` alone (non-terminal operations) -/
def ntStore (w : World) (s : Store) (i : Nat) (e : Ext) : Store :=
  match ensureReader w s i e with
  | .error _ => s
  | .ok (s1, _) => s1

theorem termStore_cases (w : World) (s : Store) (i : Nat) (e : Ext) :
    (e.opened = true ∧ termStore w s i e = closeExt s i e) ∨
    (e.opened = false ∧ (e.hasFile = false ∨ w.openOk = false) ∧ termStore w s i e = s) ∨
    (e.opened = false ∧ e.hasFile = true ∧ w.openOk = true ∧
      termStore w s i e = closeExt (openNew s i e).1 i (openNew s i e).2) := by
  unfold termStore
  rcases ensureReader_cases w s i e with ⟨ho, hr⟩ | ⟨ho, hb, x, hr⟩ | ⟨ho, hf, hw, hr⟩
  · left; rw [hr]; exact ⟨ho, rfl⟩
  · right; left; rw [hr]; exact ⟨ho, hb, rfl⟩
  · right; right; rw [hr]; exact ⟨ho, hf, hw, rfl⟩

theorem ntStore_cases (w : World) (s : Store) (i : Nat) (e : Ext) :
    (e.opened = true ∧ ntStore w s i e = s) ∨
    (e.opened = false ∧ (e.hasFile = false ∨ w.openOk = false) ∧ ntStore w s i e = s) ∨
    (e.opened = false ∧ e.hasFile = true ∧ w.openOk = true ∧
      ntStore w s i e = (openNew s i e).1) := by
  unfold ntStore
  rcases ensureReader_cases w s i e with ⟨ho, hr⟩ | ⟨ho, hb, x, hr⟩ | ⟨ho, hf, hw, hr⟩
  · left; rw [hr]; exact ⟨ho, rfl⟩
  · right; left; rw [hr]; exact ⟨ho, hb, rfl⟩
  · right; right; rw [hr]; exact ⟨ho, hf, hw, rfl⟩

/-- `Close` on an extractor that has not opened anything does nothing -/
theorem closeExt_unopened {s : Store} (h : StoreInv s) {i : Nat} {e : Ext}
    (he : s.exts[i]? = some e) (ho : e.opened = false) : closeExt s i e = s := by
  have := (h.unopened i e he ho).1
  unfold closeExt
  simp [this]

theorem set_concat_false' (l : List Bool) : (l ++ [true]).set l.length false = l ++ [false] := by
  induction l with
  | nil => rfl
  | cons b bs ih => simp [List.set, ih]

/-- opening the file and closing it again leaves one more, closed, reader behind and
nothing else -/
theorem close_openNew {s : Store} (h : StoreInv s) {i : Nat} {e : Ext}
    (he : s.exts[i]? = some e) (ho : e.opened = false) :
    closeExt (openNew s i e).1 i (openNew s i e).2 = { s with readers := s.readers ++ [false] } := by
  have hi := lt_of_getElem? he
  obtain ⟨hw, hr⟩ := h.unopened i e he ho
  have hee : ({ e with reader := none, owns := false, opened := false } : Ext) = e := by
    cases e; simp_all
  have hset : s.exts.set i e = s.exts := by
    apply List.ext_getElem?
    intro j
    by_cases hij : i = j
    · subst hij; rw [List.getElem?_set_self hi, he]
    · rw [List.getElem?_set_ne hij]
  simp only [closeExt, openNew, if_true, List.set_set, set_concat_false', hee, hset]

theorem inv_deadReader {s : Store} (h : StoreInv s) :
    StoreInv { s with readers := s.readers ++ [false] } := by
  constructor
  · exact h.unopened
  · intro j ej hj hoj
    obtain ⟨r, hr, hl⟩ := h.live j ej hj hoj
    exact ⟨r, hr, by
      show (s.readers ++ [false])[r]? = some true
      rw [List.getElem?_append_left (lt_of_getElem? hl)]; exact hl⟩
  · exact h.unique
  · exact h.ownsFile
  · exact h.errNoOwn

theorem inv_termStore (w : World) {s : Store} (h : StoreInv s) {i : Nat} {e : Ext}
    (he : s.exts[i]? = some e) : StoreInv (termStore w s i e) := by
  rcases termStore_cases w s i e with ⟨_, hr⟩ | ⟨_, _, hr⟩ | ⟨ho, _, _, hr⟩
  · rw [hr]; exact inv_closeExt h he
  · rw [hr]; exact h
  · rw [hr, close_openNew h he ho]; exact inv_deadReader h

theorem inv_ntStore (w : World) {s : Store} (h : StoreInv s) {i : Nat} {e : Ext}
    (he : s.exts[i]? = some e) (herr : e.err = false) : StoreInv (ntStore w s i e) := by
  rcases ntStore_cases w s i e with ⟨_, hr⟩ | ⟨_, _, hr⟩ | ⟨ho, hf, _, hr⟩
  · rw [hr]; exact h
  · rw [hr]; exact h
  · rw [hr]; exact inv_openNew h he ho hf herr

/-- the path through a failing `ensurePDFReader`: for a file-based extractor it is the frame
of a terminal operation, for any other nothing happens -/
theorem mismatchStore_eq (w : World) {s : Store} (h : StoreInv s) {i : Nat} {e : Ext}
    (he : s.exts[i]? = some e) :
    mismatchStore w s i e = if e.hasFile then termStore w s i e else s := by
  unfold mismatchStore termStore
  rcases ensureReader_cases w s i e with ⟨ho, hr⟩ | ⟨ho, hb, x, hr⟩ | ⟨ho, hf, hw, hr⟩
  · rw [hr]
  · rw [hr]
    cases hf : e.hasFile
    · simp
    · simp [closeExt_unopened h he ho]
  · rw [hr]; simp [hf]

theorem inv_mismatch (w : World) {s : Store} (h : StoreInv s) {i : Nat} {e : Ext}
    (he : s.exts[i]? = some e) : StoreInv (mismatchStore w s i e) := by
  rw [mismatchStore_eq w h he]
  split
  · exact inv_termStore w h he
  · exact h

/-! ### every operation preserves the invariant -/

theorem terminal_fst (w : World) (k : Term) (s : Store) (i : Nat) (e : Ext)
    (he : s.exts[i]? = some e) :
    (terminal w k s i).1 =
      if (k.checksErr e.format && e.err) = true then s
      else if (k.pdfOnly && e.format != .pdf) = true then mismatchStore w s i e
      else termStore w s i e := by
  unfold terminal termStore
  simp only [he]
  split
  · rfl
  · split
    · rfl
    · cases ensureReader w s i e with
      | error x => rfl
      | ok p => rfl

theorem nonTerminal_fst (w : World) (k : NonTerm) (s : Store) (i : Nat) (e : Ext)
    (he : s.exts[i]? = some e) :
    (nonTerminal w k s i).1 =
      if e.err = true then s
      else if (k.pdfOnly && e.format != .pdf) = true then mismatchStore w s i e
      else ntStore w s i e := by
  unfold nonTerminal ntStore
  simp only [he]
  split
  · rfl
  · split
    · rfl
    · cases ensureReader w s i e with
      | error x => rfl
      | ok p => rfl

theorem inv_step (w : World) {s : Store} (h : StoreInv s) (op : Op) : StoreInv (step w s op).1 := by
  cases op with
  | derive i c =>
    simp only [step, deriveOp]
    cases he : s.exts[i]? with
    | none => exact h
    | some e => exact inv_append h c he
  | term i k =>
    simp only [step]
    cases he : s.exts[i]? with
    | none => simp only [terminal, he]; exact h
    | some e =>
      rw [terminal_fst w k s i e he]
      split
      · exact h
      · split
        · exact inv_mismatch w h he
        · exact inv_termStore w h he
  | nonTerm i k =>
    simp only [step]
    cases he : s.exts[i]? with
    | none => simp only [nonTerminal, he]; exact h
    | some e =>
      rw [nonTerminal_fst w k s i e he]
      split
      · exact h
      · rename_i herr
        split
        · exact inv_mismatch w h he
        · exact inv_ntStore w h he (by simpa using herr)
  | close i =>
    simp only [step, closeOp]
    cases he : s.exts[i]? with
    | none => exact h
    | some e => exact inv_closeExt h he

theorem inv_exec (w : World) (ops : List Op) : ∀ {s : Store}, StoreInv s → StoreInv (exec w s ops) := by
  induction ops with
  | nil => intro s h; exact h
  | cons op ops ih => intro s h; exact ih (inv_step w h op)

theorem inv_openBaseF (f : Fmt) : StoreInv (openBaseF f) := by
  have key : ∀ (i : Nat) (e : Ext), (openBaseF f).exts[i]? = some e → e = ({ format := f } : Ext) := by
    intro i e he
    cases i with
    | zero => simp [openBaseF] at he; exact he.symm
    | succ k => simp [openBaseF] at he
  constructor
  · intro i e he _; rw [key i e he]; exact ⟨rfl, rfl⟩
  · intro i e he ho; rw [key i e he] at ho; cases ho
  · intro i j ei ej r hij hi hj hown
    rw [key i ei hi] at hown; cases hown
  · intro i e he ho; rw [key i e he] at ho; cases ho
  · intro i e he herr; rw [key i e he] at herr; cases herr

theorem inv_openBase : StoreInv openBase := inv_openBaseF .pdf

theorem inv_readerBase : StoreInv readerBase := by
  have key : ∀ (i : Nat) (e : Ext), readerBase.exts[i]? = some e →
      e = ({ hasFile := false, reader := some 0, owns := false, opened := true } : Ext) := by
    intro i e he
    cases i with
    | zero => simp [readerBase] at he; exact he.symm
    | succ k => simp [readerBase] at he
  constructor
  · intro i e he ho; rw [key i e he] at ho; cases ho
  · intro i e he _; rw [key i e he]; exact ⟨0, rfl, rfl⟩
  · intro i j ei ej r hij hi hj hown
    rw [key i ei hi] at hown; cases hown
  · intro i e he ho; rw [key i e he] at ho; cases ho
  · intro i e he herr; rw [key i e he] at herr; cases herr

/-! ### the view of one extractor -/

/-- what determines the result of an operation on extractor `i`: its record and
whether the file behind its reader is open -/
def view (s : Store) (i : Nat) : Option (Ext × Bool) :=
  (s.exts[i]?).map fun e => (e, readerLive s e)

theorem readerLive_openNew (s : Store) (i : Nat) (e : Ext) :
    readerLive (openNew s i e).1 (openNew s i e).2 = true := by
  simp [readerLive, openNew]

/-- the result of a terminal operation is a function of the view -/
def termRes (w : World) (k : Term) (v : Option (Ext × Bool)) : Res :=
  match v with
  | none => .bad
  | some (e, liveNow) =>
    if k.checksErr e.format && e.err then .err
    else if k.pdfOnly && e.format != .pdf then .err
    else if e.opened then (if liveNow then termBodyF w k e else .err)
    else if !e.hasFile then .err
    else if !w.openOk then .err
    else termBodyF w k e

def nonTermRes (w : World) (k : NonTerm) (v : Option (Ext × Bool)) : Res :=
  match v with
  | none => .bad
  | some (e, liveNow) =>
    if e.err then .err
    else if k.pdfOnly && e.format != .pdf then .err
    else if e.opened then (if liveNow then nonTermBody w k else .err)
    else if !e.hasFile then .err
    else if !w.openOk then .err
    else nonTermBody w k

theorem termBodyF_openNew (w : World) (k : Term) (s : Store) (i : Nat) (e : Ext) :
    termBodyF w k (openNew s i e).2 = termBodyF w k e := rfl

theorem terminal_res (w : World) (k : Term) (s : Store) (i : Nat) :
    (terminal w k s i).2 = termRes w k (view s i) := by
  unfold terminal view termRes
  cases he : s.exts[i]? with
  | none => rfl
  | some e =>
    simp only [Option.map_some]
    split
    · rfl
    · split
      · rfl
      · rcases ensureReader_cases w s i e with ⟨ho, hr⟩ | ⟨ho, hbad, x, hr⟩ | ⟨ho, hf, hw, hr⟩
        · rw [hr]; simp [ho]
        · rw [hr]
          rcases hbad with hb | hb <;> simp [ho, hb]
        · rw [hr]
          simp only [readerLive_openNew, termBodyF_openNew]
          simp [ho, hf, hw]

theorem nonTerminal_res (w : World) (k : NonTerm) (s : Store) (i : Nat) :
    (nonTerminal w k s i).2 = nonTermRes w k (view s i) := by
  unfold nonTerminal view nonTermRes
  cases he : s.exts[i]? with
  | none => rfl
  | some e =>
    simp only [Option.map_some]
    split
    · rfl
    · split
      · rfl
      · rcases ensureReader_cases w s i e with ⟨ho, hr⟩ | ⟨ho, hbad, x, hr⟩ | ⟨ho, hf, hw, hr⟩
        · rw [hr]; simp [ho]
        · rw [hr]
          rcases hbad with hb | hb <;> simp [ho, hb]
        · rw [hr]
          simp only [readerLive_openNew]
          simp [ho, hf, hw]

/-- the result of any operation whose receiver is `i`, as a function of the view -/
def opRes (w : World) (v : Option (Ext × Bool)) : Op → Res
  | .derive _ _ => if v.isSome then .none else .bad
  | .term _ k => termRes w k v
  | .nonTerm _ k => nonTermRes w k v
  | .close _ => if v.isSome then .closed else .bad

theorem step_res (w : World) (s : Store) (op : Op) :
    (step w s op).2 = opRes w (view s op.target) op := by
  cases op with
  | derive i c =>
    simp only [step, deriveOp, opRes, Op.target, view]
    split <;> rename_i h <;> simp [h]
  | term i k => exact terminal_res w k s i
  | nonTerm i k => exact nonTerminal_res w k s i
  | close i =>
    simp only [step, closeOp, opRes, Op.target, view]
    split <;> rename_i h <;> simp [h]

/-! ### operations on other extractors do not change the view -/

theorem view_openNew_ne {s : Store} (h : StoreInv s) {i j : Nat} {e : Ext} (hij : j ≠ i) :
    view (openNew s j e).1 i = view s i := by
  unfold view
  simp only [openNew, List.getElem?_set_ne hij]
  cases hi : s.exts[i]? with
  | none => rfl
  | some ei =>
    simp only [Option.map_some, Option.some.injEq, Prod.mk.injEq, true_and]
    unfold readerLive
    cases hr : ei.reader with
    | none => rfl
    | some r =>
      have := h.bound hi hr
      simp only [List.getElem?_append_left this]

theorem view_deadReader {s : Store} (h : StoreInv s) (i : Nat) :
    view { s with readers := s.readers ++ [false] } i = view s i := by
  unfold view
  cases hi : s.exts[i]? with
  | none => rfl
  | some ei =>
    simp only [Option.map_some, Option.some.injEq, Prod.mk.injEq, true_and]
    unfold readerLive
    cases hr : ei.reader with
    | none => rfl
    | some r =>
      have := h.bound hi hr
      simp only [List.getElem?_append_left this]

theorem view_closeExt_ne {s : Store} (h : StoreInv s) {i j : Nat} {e : Ext}
    (he : s.exts[j]? = some e) (hij : j ≠ i) :
    view (closeExt s j e) i = view s i := by
  unfold closeExt
  by_cases hown : e.owns = true
  · simp only [hown, if_true]
    cases hr : e.reader with
    | none => rfl
    | some r =>
      unfold view
      simp only [List.getElem?_set_ne hij]
      cases hi : s.exts[i]? with
      | none => rfl
      | some ei =>
        simp only [Option.map_some, Option.some.injEq, Prod.mk.injEq, true_and]
        unfold readerLive
        cases hri : ei.reader with
        | none => rfl
        | some r' =>
          have hne : r ≠ r' := by
            intro hrr; subst hrr
            exact h.unique j i e ei r hij he hi hown hr hri
          simp only [List.getElem?_set_ne hne]
  · simp only [hown]; rfl

theorem view_termStore_ne (w : World) {s : Store} (h : StoreInv s) {i j : Nat} {e : Ext}
    (he : s.exts[j]? = some e) (hij : j ≠ i) : view (termStore w s j e) i = view s i := by
  rcases termStore_cases w s j e with ⟨_, hr⟩ | ⟨_, _, hr⟩ | ⟨ho, _, _, hr⟩
  · rw [hr]; exact view_closeExt_ne h he hij
  · rw [hr]
  · rw [hr, close_openNew h he ho]; exact view_deadReader h i

theorem view_ntStore_ne (w : World) {s : Store} (h : StoreInv s) {i j : Nat} {e : Ext}
    (hij : j ≠ i) : view (ntStore w s j e) i = view s i := by
  rcases ntStore_cases w s j e with ⟨_, hr⟩ | ⟨_, _, hr⟩ | ⟨_, _, _, hr⟩
  · rw [hr]
  · rw [hr]
  · rw [hr]; exact view_openNew_ne h hij

theorem view_mismatch_ne (w : World) {s : Store} (h : StoreInv s) {i j : Nat} {e : Ext}
    (he : s.exts[j]? = some e) (hij : j ≠ i) : view (mismatchStore w s j e) i = view s i := by
  rw [mismatchStore_eq w h he]
  split
  · exact view_termStore_ne w h he hij
  · rfl

theorem view_append {s : Store} {i : Nat} (d : Ext) (hi : i < s.exts.length) :
    view { s with exts := s.exts ++ [d] } i = view s i := by
  unfold view
  simp only [List.getElem?_append_left hi]
  rfl

theorem termStore_length (w : World) (s : Store) (i : Nat) (e : Ext) :
    (termStore w s i e).exts.length = s.exts.length := by
  rcases termStore_cases w s i e with ⟨_, hr⟩ | ⟨_, _, hr⟩ | ⟨_, _, _, hr⟩
  · rw [hr, closeExt_length]
  · rw [hr]
  · rw [hr, closeExt_length, openNew_length]

theorem ntStore_length (w : World) (s : Store) (i : Nat) (e : Ext) :
    (ntStore w s i e).exts.length = s.exts.length := by
  rcases ntStore_cases w s i e with ⟨_, hr⟩ | ⟨_, _, hr⟩ | ⟨_, _, _, hr⟩
  · rw [hr]
  · rw [hr]
  · rw [hr, openNew_length]

theorem mismatchStore_length (w : World) (s : Store) (i : Nat) (e : Ext) :
    (mismatchStore w s i e).exts.length = s.exts.length := by
  unfold mismatchStore
  rcases ensureReader_cases w s i e with ⟨_, hr⟩ | ⟨_, _, x, hr⟩ | ⟨_, hf, _, hr⟩
  · simp only [hr]; split
    · exact closeExt_length s i e
    · rfl
  · simp only [hr]; split
    · exact closeExt_length s i e
    · rfl
  · simp only [hr, hf, if_true]
    rw [closeExt_length, openNew_length]

theorem length_step (w : World) (s : Store) (op : Op) :
    s.exts.length ≤ (step w s op).1.exts.length := by
  cases op with
  | derive i c =>
    simp only [step, deriveOp]
    split <;> simp
  | term i k =>
    simp only [step]
    cases he : s.exts[i]? with
    | none => simp [terminal, he]
    | some e =>
      rw [terminal_fst w k s i e he]
      split
      · exact Nat.le_refl _
      · split
        · rw [mismatchStore_length]; exact Nat.le_refl _
        · rw [termStore_length]; exact Nat.le_refl _
  | nonTerm i k =>
    simp only [step]
    cases he : s.exts[i]? with
    | none => simp [nonTerminal, he]
    | some e =>
      rw [nonTerminal_fst w k s i e he]
      split
      · exact Nat.le_refl _
      · split
        · rw [mismatchStore_length]; exact Nat.le_refl _
        · rw [ntStore_length]; exact Nat.le_refl _
  | close i =>
    simp only [step, closeOp]
    split
    · simp
    · simp [closeExt_length]

theorem length_step_le (w : World) (s : Store) (op : Op) :
    s.exts.length ≤ (step w s op).1.exts.length := length_step w s op

/-- an operation that does not mutate extractor `i` (its receiver is another
extractor, or it is a configuration method) leaves the view of `i` unchanged -/
theorem view_step (w : World) {s : Store} (h : StoreInv s) (i : Nat) (hi : i < s.exts.length)
    (op : Op) (hop : op.mutates = true → op.target ≠ i) :
    view (step w s op).1 i = view s i := by
  cases op with
  | derive j c =>
    simp only [step, deriveOp]
    cases he : s.exts[j]? with
    | none => rfl
    | some e => exact view_append _ hi
  | term j k =>
    have hji : j ≠ i := hop rfl
    simp only [step]
    cases he : s.exts[j]? with
    | none => simp only [terminal, he]
    | some e =>
      rw [terminal_fst w k s j e he]
      split
      · rfl
      · split
        · exact view_mismatch_ne w h he hji
        · exact view_termStore_ne w h he hji
  | nonTerm j k =>
    have hji : j ≠ i := hop rfl
    simp only [step]
    cases he : s.exts[j]? with
    | none => simp only [nonTerminal, he]
    | some e =>
      rw [nonTerminal_fst w k s j e he]
      split
      · rfl
      · split
        · exact view_mismatch_ne w h he hji
        · exact view_ntStore_ne w h hji
  | close j =>
    have hji : j ≠ i := hop rfl
    simp only [step, closeOp]
    cases he : s.exts[j]? with
    | none => rfl
    | some e => exact view_closeExt_ne h he hji

theorem view_exec (w : World) (i : Nat) (ops : List Op) :
    ∀ {s : Store}, StoreInv s → i < s.exts.length →
      (∀ op ∈ ops, op.mutates = true → op.target ≠ i) → view (exec w s ops) i = view s i := by
  induction ops with
  | nil => intro s _ _ _; rfl
  | cons op ops ih =>
    intro s h hi hops
    simp only [exec]
    rw [ih (inv_step w h op) (Nat.lt_of_lt_of_le hi (length_step_le w s op))
      (fun o ho => hops o (List.mem_cons_of_mem _ ho))]
    exact view_step w h i hi op (hops op (by simp))

/-! ### descriptor counting -/

theorem count_set_false (l : List Bool) (r : Nat) (h : l[r]? = some true) :
    (l.set r false).count true + 1 = l.count true := by
  induction l generalizing r with
  | nil => simp at h
  | cons b bs ih =>
    cases r with
    | zero =>
      simp only [List.getElem?_cons_zero, Option.some.injEq] at h
      subst h
      simp [List.set, List.count_cons]
    | succ k =>
      simp only [List.getElem?_cons_succ] at h
      have := ih k h
      simp only [List.set, List.count_cons]
      omega

theorem set_concat_false (l : List Bool) : (l ++ [true]).set l.length false = l ++ [false] := by
  induction l with
  | nil => rfl
  | cons b bs ih => simp [List.set, ih]

/-- `Close` releases what the extractor holds: afterwards it owns nothing and
the descriptor count has dropped by exactly what it held -/
theorem closeExt_releases {s : Store} (h : StoreInv s) {i : Nat} {e : Ext}
    (he : s.exts[i]? = some e) :
    ∃ e', (closeExt s i e).exts[i]? = some e' ∧ e'.owns = false ∧
      (closeExt s i e).fdCount + (if e.owns then 1 else 0) = s.fdCount := by
  have hi := lt_of_getElem? he
  unfold closeExt
  cases hown : e.owns with
  | false => exact ⟨e, by simpa using he, hown, by simp⟩
  | true =>
    obtain ⟨r, hr, hl⟩ := h.live i e he (h.owns_opened he hown)
    simp only [if_true, hr]
    refine ⟨_, List.getElem?_set_self hi, rfl, ?_⟩
    simp only [Store.fdCount]
    exact count_set_false s.readers r hl

/-- the frame of a terminal operation releases what the extractor holds -/
theorem termStore_releases (w : World) {s : Store} (h : StoreInv s) {i : Nat} {e : Ext}
    (he : s.exts[i]? = some e) :
    ∃ e', (termStore w s i e).exts[i]? = some e' ∧ e'.owns = false ∧
      (termStore w s i e).fdCount + (if e.owns then 1 else 0) = s.fdCount := by
  rcases termStore_cases w s i e with ⟨_, hr⟩ | ⟨ho, _, hr⟩ | ⟨ho, _, _, hr⟩
  · rw [hr]; exact closeExt_releases h he
  · rw [hr]
    have := (h.unopened i e he ho).1
    exact ⟨e, he, this, by simp [this]⟩
  · rw [hr, close_openNew h he ho]
    have := (h.unopened i e he ho).1
    refine ⟨e, he, this, ?_⟩
    simp [this, Store.fdCount, List.count_append]

theorem mismatch_releases (w : World) {s : Store} (h : StoreInv s) {i : Nat} {e : Ext}
    (he : s.exts[i]? = some e) :
    ∃ e', (mismatchStore w s i e).exts[i]? = some e' ∧ e'.owns = false ∧
      (mismatchStore w s i e).fdCount + (if e.owns then 1 else 0) = s.fdCount := by
  rw [mismatchStore_eq w h he]
  cases hf : e.hasFile with
  | true => simpa using termStore_releases w h he
  | false =>
    have hown : e.owns = false := by
      cases ho : e.owns with
      | false => rfl
      | true => have := h.ownsFile i e he ho; rw [hf] at this; cases this
    exact ⟨e, by simpa using he, hown, by simp [hown]⟩

end Tabula.Builder
