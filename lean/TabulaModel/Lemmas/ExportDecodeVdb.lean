import TabulaModel.Model.ExportDecodeVdb
import TabulaModel.Lemmas.ExportDecode
import TabulaModel.Lemmas.ExportApi
/-!
Lemmas about the inverse readers of the vector-database exports (`Model/ExportDecodeVdb.lean`):
each record the exporters build (`weaviateOf`, `pineconeOf`, the parallel arrays of
`chromaRecord`) is decoded to the view of its chunk, for `Props/C14Vdb.lean`.
-/
set_option linter.unusedSimpArgs false
namespace Tabula.Export
open Tabula.Csv (Str)
open Tabula.Json

/-! ### embeddings -/

theorem jNumItems_map (l : List Str) : jNumItems (l.map J.num) = some l := by
  induction l with
  | nil => rfl
  | cons a r ih => simp only [List.map_cons, jNumItems, ih, Option.map_some]

/-- an entry of the `embeddings` array (absent, `null` or an array of numbers) reads back to `embAt` -/
theorem jVecOpt_embToJ (embs : List (Emb Str)) (i : Nat) :
    jVecOpt (embs.map embToJ)[i]? = some (embAt embs i) := by
  rw [List.getElem?_map]
  unfold embAt
  cases embs[i]? with
  | none => rfl
  | some e =>
    cases e with
    | none => rfl
    | some l => simp only [Option.map_some, embToJ, jVecOpt, jNumItems_map]

/-- the `omitempty` vector member of a Weaviate object -/
theorem jVecOpt_omit (v : List Str) :
    jVecOpt (getMember kVector (if v.isEmpty then [] else [(kVector, J.arr (v.map J.num))])) = some v := by
  cases v with
  | nil => rfl
  | cons a r =>
    simp only [List.isEmpty_cons, Bool.false_eq_true, if_false, getMember, if_true, jVecOpt, jNumItems_map]

/-! ### metadata maps as JSON objects -/

theorem getMember_mapToJ (m : MapSV) (h : (mapKeys m).Nodup) (k : Str) :
    getMember k (sortMembers (valsToJ m)) = (mapLookup m k).map valToJ :=
  mapToJ_get m h k

theorem weaviateProps_members (c : Chunk) :
    getMember kContent (sortMembers (valsToJ (weaviateProps c))) = some (.str c.text) ∧
    getMember kDocumentTitleC (sortMembers (valsToJ (weaviateProps c))) = some (.str c.md.documentTitle) ∧
    getMember kPageStartC (sortMembers (valsToJ (weaviateProps c))) = some (.num (decInt c.md.pageStart)) ∧
    getMember kSectionTitleC (sortMembers (valsToJ (weaviateProps c))) = some (.str c.md.sectionTitle) ∧
    getMember kChunkIndexC (sortMembers (valsToJ (weaviateProps c))) = some (.num (decInt c.md.chunkIndex)) := by
  have n : (mapKeys (weaviateProps c)).Nodup := by simp (decide := true) [weaviateProps, mapKeys]
  refine ⟨?_, ?_, ?_, ?_, ?_⟩ <;> rw [getMember_mapToJ _ n] <;>
    simp (decide := true) [weaviateProps, mapLookup, valToJ]

theorem pineconeMetadata_members (c : Chunk) :
    getMember kText (sortMembers (valsToJ (pineconeMetadata c))) = some (.str c.text) ∧
    getMember kDocumentTitle (sortMembers (valsToJ (pineconeMetadata c))) = some (.str c.md.documentTitle) ∧
    getMember kPageStart (sortMembers (valsToJ (pineconeMetadata c))) = some (.num (decInt c.md.pageStart)) ∧
    getMember kSectionTitle (sortMembers (valsToJ (pineconeMetadata c))) = some (.str c.md.sectionTitle) := by
  have n : (mapKeys (pineconeMetadata c)).Nodup := by simp (decide := true) [pineconeMetadata, mapKeys]
  refine ⟨?_, ?_, ?_, ?_⟩ <;> rw [getMember_mapToJ _ n] <;>
    simp (decide := true) [pineconeMetadata, mapLookup, valToJ]

theorem chromaMetadata_members (m : Meta) :
    getMember kDocumentTitle (sortMembers (valsToJ (chromaMetadata m))) = some (.str m.documentTitle) ∧
    getMember kPageStart (sortMembers (valsToJ (chromaMetadata m))) = some (.num (decInt m.pageStart)) ∧
    getMember kSectionTitle (sortMembers (valsToJ (chromaMetadata m))) = some (.str m.sectionTitle) ∧
    getMember kChunkIndex (sortMembers (valsToJ (chromaMetadata m))) = some (.num (decInt m.chunkIndex)) := by
  have n : (mapKeys (chromaMetadata m)).Nodup := by simp (decide := true) [chromaMetadata, mapKeys]
  refine ⟨?_, ?_, ?_, ?_⟩ <;> rw [getMember_mapToJ _ n] <;>
    simp (decide := true) [chromaMetadata, mapLookup, valToJ]

/-! ### Weaviate -/

/-- the `omitempty` vector member of a Weaviate object reads back to the vector -/
theorem weaviate_vector_member (o : WeaviateObject Str) :
    jVecOpt ((weaviateObjectToJ o).get kVector) = some o.vector := by
  obtain ⟨cls, id, props, v⟩ := o
  simp only [weaviateObjectToJ, J.get, getMember_append, getMember_omitStr]
  cases v with
  | nil => simp (decide := true) [getMember, jVecOpt]
  | cons a r =>
    have := jNumItems_map (a :: r)
    simp only [List.map_cons] at this
    simp (decide := true) [getMember, jVecOpt, this]

/-- the object of chunk `p.1` at index `p.2` decodes to the class name and the chunk's view -/
theorem decodeWeaviate_weaviateOf (cls : Str) (embs : List (Emb Str)) (p : Chunk × Nat) :
    decodeWeaviate (weaviateObjectToJ (weaviateOf cls embs p)) =
      some (cls, vdbView true p.1 (embAt embs p.2)) := by
  obtain ⟨c, i⟩ := p
  obtain ⟨p1, p2, p3, p4, p5⟩ := weaviateProps_members c
  have h1 : (weaviateObjectToJ (weaviateOf cls embs (c, i))).get kClass = some (.str cls) := by
    simp (decide := true) [weaviateObjectToJ, weaviateOf, J.get, getMember]
  have h2 : (weaviateObjectToJ (weaviateOf cls embs (c, i))).get kId =
      (if c.id.isEmpty then none else some (.str c.id)) := by
    simp only [weaviateObjectToJ, weaviateOf, J.get, getMember_append, getMember_omitStr]
    by_cases hv : (embAt embs i).isEmpty = true <;> by_cases hi : c.id.isEmpty = true <;>
      simp (decide := true) [getMember, hv, hi]
  have h3 : (weaviateObjectToJ (weaviateOf cls embs (c, i))).get kProperties =
      some (.obj (sortMembers (valsToJ (weaviateProps c)))) := by
    simp only [weaviateObjectToJ, weaviateOf, J.get, getMember_append, getMember_omitStr]
    simp (decide := true) [getMember, mapToJ]
  have h4 : jVecOpt ((weaviateObjectToJ (weaviateOf cls embs (c, i))).get kVector) = some (embAt embs i) :=
    weaviate_vector_member (weaviateOf cls embs (c, i))
  obtain ⟨ms, hms⟩ : ∃ ms, weaviateObjectToJ (weaviateOf cls embs (c, i)) = .obj ms := ⟨_, rfl⟩
  rw [hms] at h1 h2 h3 h4 ⊢
  simp only [J.get] at h1 h2 h3 h4
  simp only [decodeWeaviate, h1, h2, h3, h4, p1, p2, p3, p4, p5, jReqStr, jReqObj, jReqInt, jStrOpt_omit,
    readInt_decInt, Option.bind_some]
  rfl

/-! ### Pinecone -/

/-- the record of a chunk with a vector decodes to the chunk's view (without index) -/
theorem decodePineconeRecord_of (c : Chunk) (v : List Str) :
    decodePineconeRecord (pineconeRecordToJ { id := c.id, values := v, metadata := pineconeMetadata c }) =
      some (vdbView false c v) := by
  obtain ⟨p1, p2, p3, p4⟩ := pineconeMetadata_members c
  have hne : (pineconeMetadata c).isEmpty = false := rfl
  have h1 : (pineconeRecordToJ { id := c.id, values := v, metadata := pineconeMetadata c }).get kId =
      some (.str c.id) := by
    simp (decide := true) [pineconeRecordToJ, J.get, getMember]
  have h2 : (pineconeRecordToJ { id := c.id, values := v, metadata := pineconeMetadata c }).get kValues =
      some (.arr (v.map J.num)) := by
    simp (decide := true) [pineconeRecordToJ, J.get, getMember]
  have h3 : (pineconeRecordToJ { id := c.id, values := v, metadata := pineconeMetadata c }).get kMetadata =
      some (.obj (sortMembers (valsToJ (pineconeMetadata c)))) := by
    simp (decide := true) [pineconeRecordToJ, J.get, getMember, hne, mapToJ]
  obtain ⟨ms, hms⟩ : ∃ ms, pineconeRecordToJ { id := c.id, values := v, metadata := pineconeMetadata c } = .obj ms :=
    ⟨_, rfl⟩
  rw [hms] at h1 h2 h3 ⊢
  simp only [J.get] at h1 h2 h3
  simp only [decodePineconeRecord, h1, h2, h3, p1, p2, p3, p4, jReqStr, jReqObj, jReqInt, jNumItems_map,
    readInt_decInt, Option.bind_some]
  rfl

/-- the `vectors` array of the records of `pinecone_records` decodes to the views of exactly the
chunks with a non-empty vector at their index -/
theorem decodePinecone_records (embs : List (Emb Str)) (l : List (Chunk × Nat)) :
    mapOpt decodePineconeRecord ((l.filterMap (pineconeOf embs)).map pineconeRecordToJ) =
      some (l.filterMap (fun p => if embAt embs p.2 = [] then none else some (vdbView false p.1 (embAt embs p.2)))) := by
  induction l with
  | nil => rfl
  | cons p rest ih =>
    simp only [List.filterMap_cons, pineconeOf]
    cases he : embAt embs p.2 with
    | nil => simp only [if_true]; exact ih
    | cons a r =>
      have hne : ¬ (a :: r = []) := by simp
      simp only [hne, if_false, List.map_cons, mapOpt, decodePineconeRecord_of, ih]

/-! ### Chroma -/

/-- the parallel arrays of `chroma_parallel`, with the caller's embeddings, zip back to one view per
chunk; `i` = index of the first chunk -/
theorem chromaZip_chunks (embs : List (Emb Str)) (cs : List Chunk) (i : Nat) :
    chromaZip ((cs.map (·.id)).map J.str) ((cs.map (·.text)).map J.str)
        (cs.map (fun c => mapToJ (chromaMetadata c.md))) i (embs.map embToJ) =
      some ((cs.zipIdx i).map (fun p => vdbView true p.1 (embAt embs p.2))) := by
  induction cs generalizing i with
  | nil => rfl
  | cons c rest ih =>
    obtain ⟨p1, p2, p3, p4⟩ := chromaMetadata_members c.md
    simp only [List.map_cons, mapToJ, chromaZip, p1, p2, p3, p4, jReqStr, jReqInt, readInt_decInt,
      jVecOpt_embToJ, Option.bind_some, List.zipIdx_cons]
    have := ih (i + 1)
    simp only [mapToJ] at this
    rw [this]
    rfl

/-- the members of the Chroma document a reader looks at -/
theorem chromaRecordToJ_members (chunks : List Chunk) (embs : List (Emb Str)) :
    ∃ ms, chromaRecordToJ (chromaRecord chunks embs) = .obj ms ∧
      getMember kIds ms = some (.arr ((chunks.map (·.id)).map J.str)) ∧
      getMember kDocuments ms = some (.arr ((chunks.map (·.text)).map J.str)) ∧
      jArrOpt (getMember kMetadatas ms) = some (chunks.map (fun c => mapToJ (chromaMetadata c.md))) ∧
      jArrOpt (getMember kEmbeddings ms) = some (embs.map embToJ) := by
  refine ⟨_, rfl, ?_, ?_, ?_, ?_⟩
  · simp (decide := true) [chromaRecord, chromaLoop_eq, jStrs, getMember]
  · simp (decide := true) [chromaRecord, chromaLoop_eq, jStrs, getMember]
  · cases chunks <;> cases embs <;>
      simp (decide := true) [chromaRecord, chromaLoop_eq, jStrs, getMember, jArrOpt, List.map_map] <;> rfl
  · cases chunks <;> cases embs <;>
      simp (decide := true) [chromaRecord, chromaLoop_eq, jStrs, getMember, jArrOpt]

/-- a text that reads back to the Chroma document of a collection decodes to one view per chunk -/
theorem decodeChromaText_of_read (text : Str) (chunks : List Chunk) (embs : List (Emb Str))
    (h : jsonRead text = some (chromaRecordToJ (chromaRecord chunks embs))) :
    decodeChromaText text = some (chunks.zipIdx.map (fun p => vdbView true p.1 (embAt embs p.2))) := by
  obtain ⟨ms, hms, h1, h2, h3, h4⟩ := chromaRecordToJ_members chunks embs
  rw [hms] at h
  simp only [decodeChromaText, h, h1, h2, h3, h4, Option.bind_some]
  exact chromaZip_chunks embs chunks 0

/-- a text that reads back to the Pinecone document of a collection decodes to the views of the
chunks that have a vector -/
theorem decodePineconeText_of_read (text : Str) (chunks : List Chunk) (embs : List (Emb Str))
    (h : jsonRead text = some (.obj [(kVectors, .arr ((pineconeVectors chunks embs).map pineconeRecordToJ))])) :
    decodePineconeText text =
      some (chunks.zipIdx.filterMap (fun p => if embAt embs p.2 = [] then none else some (vdbView false p.1 (embAt embs p.2)))) := by
  have hv : pineconeVectors chunks embs = chunks.zipIdx.filterMap (pineconeOf embs) := pineconeLoop_eq embs chunks 0
  rw [hv] at h
  simp only [decodePineconeText, h, getMember, if_true]
  exact decodePinecone_records embs chunks.zipIdx

/-- lines that read back to the Weaviate objects of a collection decode to one view per chunk -/
theorem decodeWeaviateText_of_read (text cls : Str) (chunks : List Chunk) (embs : List (Emb Str))
    (h : jsonlRead text = some ((weaviateObjects cls chunks embs).map weaviateObjectToJ)) :
    decodeWeaviateText text = some (chunks.zipIdx.map (fun p => (cls, vdbView true p.1 (embAt embs p.2)))) := by
  have hv : weaviateObjects cls chunks embs = chunks.zipIdx.map (weaviateOf cls embs) := weaviateLoop_eq cls embs chunks 0
  rw [hv, List.map_map] at h
  simp only [decodeWeaviateText, h, Option.bind_some]
  exact mapOpt_map' decodeWeaviate _ _ chunks.zipIdx (fun p _ => decodeWeaviate_weaviateOf cls embs p)

end Tabula.Export
