import TabulaModel.Lemmas.XDoc
import TabulaModel.Lemmas.Inline
/-!
Unfolding a document into the form TREE of `Model/GState.lean`.

`expandForm`/`expandOps` resolve every `Do` the way `invokeXObject` does — current
resources, merge with the form's own, nesting limit, budget (threaded in program order,
because whether a form still runs depends on what ran before it) — and produce the typed
program in which every executed form is an `Op.form` node with its `/Matrix` and its
expanded content, and every skipped `Do` is gone.  `formLoop_refines`, `invoke_refines` and
`extractLoop_refines` show that the extractor model on the document and the operator
model on the unfolded tree compute the same graphics states and the same fragments.
-/
namespace Tabula.XDoc
open Tabula Tabula.GState

variable {α : Type}

/-- an executed form: its `/Matrix` (if applied) and its unfolded content -/
abbrev Node (α : Type) := Option (Option (Matrix α) × List (Op α))

def Node.toOps : Node α → List (Op α)
  | none => []
  | some (m, body) => [Op.form m body]

section
variable [Lean.Grind.CommRing α]

/-- the operations of one content stream, unfolded; `inv` unfolds a `Do` -/
def expandOps (inv : Name → Acct → Node α × Acct) : List (RawOp α) → Acct → List (Op α) × Acct
  | [], a => ([], a)
  | op :: rest, a =>
    match decodeOp op with
    | .ops l =>
      let e := expandOps inv rest a
      (l ++ e.1, e.2)
    | .xobj name =>
      let r := inv name a
      let e := expandOps inv rest r.2
      (r.1.toOps ++ e.1, e.2)

/-- one `Do` at nesting depth `depth` under resources `res`, unfolded (same recursion
bound as `invokeXObject`) -/
def expandForm (doc : Doc α) : Nat → Nat → Res → Name → Acct → Node α × Acct
  | 0, _, _, _, a => (none, a)
  | fuel + 1, depth, res, name, a =>
    if depth ≥ maxXObjectDepth then (none, a)
    else match lookupForm doc res name with
      | none => (none, a)
      | some f =>
        if f.len = 0 then (none, a)
        else if a.bytes + f.len + xobjectCallCost > maxXObjectBytes then (none, a.refuse f.len)
        else
          let e := expandOps (expandForm doc fuel (depth + 1) (formResources doc res f)) (formBody f)
            (a.charge f.len)
          (some (formMatrix f.matrix, e.1), e.2)

/-- a `Do` with no resource context: nothing -/
def expandNone : Name → Acct → Node α × Acct := fun _ a => (none, a)

/-- the unfolding `Extract` induces for a page content in extractor state `(resources,
depth, accounting)` -/
def expandPage (doc : Doc α) (resources : Option Res) (depth : Nat) (ops : List (RawOp α)) (a : Acct) :
    List (Op α) × Acct :=
  match resources with
  | none => expandOps expandNone ops a
  | some res => expandOps (expandForm doc maxXObjectDepth depth res) ops a

end

section
variable [Lean.Grind.CommRing α] [DecidableEq α] [LT α] [DecidableLT α]

/-- a `Do`-free typed list under `runForm` is `stepOps` -/
theorem runForm_formFree (adv : Adv α) (l : List (Op α)) (h : FormFree l) (s : State α) :
    runForm adv l s = ((stepOps adv l s).1, (stepOps adv l s).2.1.map (·.sh)) := by
  induction l generalizing s with
  | nil => simp [runForm, stepOps]
  | cons op rest ih =>
    have hop : ∀ m b, op ≠ Op.form m b := h op List.mem_cons_self
    have hrun : runForm adv (op :: rest) s =
        ((runForm adv rest (stepBasic adv op s).1).1,
          (stepBasic adv op s).2.1 ++ (runForm adv rest (stepBasic adv op s).1).2) := by
      cases op <;> first | exact absurd rfl (hop _ _) | simp [runForm]
    rw [hrun, ih h.tail]
    simp [stepOps, List.map_append, List.map_map, Function.comp_def]

/-- the single node of an unfolded `Do` under `exec` and under `runForm` -/
theorem exec_node (adv : Adv α) (n : Node α) (s : State α) :
    exec adv n.toOps s = some (runForm adv n.toOps s) := by
  cases n with
  | none => simp [Node.toOps, exec, runForm]
  | some p =>
    obtain ⟨m, body⟩ := p
    simp only [Node.toOps, exec, step, runForm]
    split <;> simp

/-- `invoke` (on extractor states with resources `R` at depth `d`) is refined by the
unfolding `inv`: same accounting, same graphics state and fragments as the operator model
on the unfolded node; resources and depth come back -/
def Refines (adv : Adv α) (invoke : Name → XState α → XState α × List (Frag α))
    (inv : Name → Acct → Node α × Acct) (d : Nat) (R : Option Res) : Prop :=
  ∀ name (x : XState α), x.resources = R → x.gs.xdepth = d →
    (invoke name x).1.acct = (inv name x.acct).2 ∧ (invoke name x).1.resources = R ∧
    (invoke name x).1.gs.xdepth = d ∧
    ((invoke name x).1.gs, (invoke name x).2.map (·.sh)) = runForm adv (inv name x.acct).1.toOps x.gs

theorem formLoop_refines (adv : Adv α) (invoke : Name → XState α → XState α × List (Frag α))
    (inv : Name → Acct → Node α × Acct) (d : Nat) (R : Option Res) (H : Refines adv invoke inv d R)
    (ops : List (RawOp α)) :
    ∀ x : XState α, x.resources = R → x.gs.xdepth = d →
      (formLoop adv invoke ops x).1.acct = (expandOps inv ops x.acct).2 ∧
      (formLoop adv invoke ops x).1.resources = R ∧ (formLoop adv invoke ops x).1.gs.xdepth = d ∧
      ((formLoop adv invoke ops x).1.gs, (formLoop adv invoke ops x).2.map (·.sh))
        = runForm adv (expandOps inv ops x.acct).1 x.gs := by
  induction ops with
  | nil => intro x hR hd; simp [formLoop, expandOps, runForm, hR, hd]
  | cons op rest ih =>
    intro x hR hd
    simp only [formLoop, processOperation, expandOps]
    have hff := decodeOp_formFree op
    cases hdec : decodeOp op with
    | ops l =>
      rw [hdec] at hff
      simp only
      have hx1 : (stepOps adv l x.gs).1.xdepth = d := by rw [stepOps_xdepth, hd]
      obtain ⟨i1, i2, i3, i4⟩ := ih { x with gs := (stepOps adv l x.gs).1 } hR hx1
      refine ⟨i1, i2, i3, ?_⟩
      rw [runForm_append, runForm_formFree adv l hff]
      simp only [List.map_append]
      rw [← i4]
    | xobj name =>
      simp only
      obtain ⟨j1, j2, j3, j4⟩ := H name x hR hd
      obtain ⟨i1, i2, i3, i4⟩ := ih (invoke name x).1 j2 j3
      rw [j1] at i1 i4
      refine ⟨i1, i2, i3, ?_⟩
      rw [runForm_append, ← j4]
      simp only [List.map_append]
      rw [← i4]

theorem invoke_refines (adv : Adv α) (doc : Doc α) (fuel : Nat) :
    ∀ (d : Nat) (res : Res),
      Refines adv (invokeXObject adv doc fuel) (expandForm doc fuel d res) d (some res) := by
  induction fuel with
  | zero =>
    intro d res name x hR hd
    simp [invokeXObject, expandForm, Node.toOps, runForm, hR, hd]
  | succ fuel ih =>
    intro d res name x hR hd
    rw [invokeXObject, expandForm, hR]
    simp only [hd]
    by_cases hdeep : d ≥ maxXObjectDepth
    · simp [hdeep, Node.toOps, runForm, hR, hd]
    · simp only [hdeep, if_false]
      cases hf : lookupForm doc res name with
      | none => simp [Node.toOps, runForm, hR, hd]
      | some f =>
        simp only
        by_cases hl : f.len = 0
        · simp [hl, Node.toOps, runForm, hR, hd]
        · simp only [hl, if_false]
          by_cases hb : x.acct.bytes + f.len + xobjectCallCost > maxXObjectBytes
          · simp [hb, Node.toOps, runForm, hR, hd]
          · simp only [hb, if_false]
            have hx1R : (enterForm doc res f x).resources = some (formResources doc res f) := rfl
            have hx1d : (enterForm doc res f x).gs.xdepth = d + 1 := by
              show (formEnter _ x.gs).xdepth = _
              rw [formEnter_xdepth, hd]
            obtain ⟨i1, _, i3, i4⟩ := formLoop_refines adv (invokeXObject adv doc fuel)
              (expandForm doc fuel (d + 1) (formResources doc res f)) (d + 1)
              (some (formResources doc res f)) (ih (d + 1) (formResources doc res f)) (formBody f)
              (enterForm doc res f x) hx1R hx1d
            have hacct : (enterForm doc res f x).acct = x.acct.charge f.len := rfl
            rw [hacct] at i1 i4
            refine ⟨i1, hR, ?_, ?_⟩
            · show (formExit _).xdepth = d
              rw [formExit_xdepth, i3]; rfl
            · have hnd : ¬ x.gs.xdepth ≥ maxXObjectDepth := by rw [hd]; exact hdeep
              have hgs : (enterForm doc res f x).gs = formEnter (formMatrix f.matrix) x.gs := rfl
              rw [hgs] at i4
              simp only [Node.toOps, runForm, hnd, if_false, ← i4, leaveForm, List.append_nil]

/-- with no resource context every `Do` is a no-op -/
theorem invoke_refines_none (adv : Adv α) (doc : Doc α) (fuel d : Nat) :
    Refines adv (invokeXObject adv doc fuel) (expandNone (α := α)) d none := by
  intro name x hR hd
  cases fuel with
  | zero => simp [invokeXObject, expandNone, Node.toOps, runForm, hR, hd]
  | succ fuel => simp [invokeXObject, expandNone, Node.toOps, runForm, hR, hd]

/-- no `Q` in a typed operator list -/
def NoQ (l : List (Op α)) : Prop := ∀ op ∈ l, op ≠ Op.Q

omit [DecidableEq α] [LT α] [DecidableLT α] in
/-- one operation decodes to a single typed operator, or to a list without `Q` -/
theorem decodeOp_shape (r : RawOp α) (l : List (Op α)) (h : decodeOp r = .ops l) :
    (∃ op, l = [op]) ∨ NoQ l := by
  unfold decodeOp at h
  split at h <;> (try split at h) <;> (try (injection h with h; subst h)) <;>
    first
    | exact Or.inl ⟨_, rfl⟩
    | (right; intro op hm; simp at hm)
    | (right; intro op hm
       simp only [dquoteOps, List.mem_append, List.mem_cons, List.not_mem_nil, or_false] at hm
       rcases hm with (hm | hm) | hm
       · split at hm <;> simp_all
       · split at hm <;> simp_all
       · subst hm; split <;> simp)
    | cases h

theorem stepBasic_noerr (adv : Adv α) (op : Op α) (h : op ≠ Op.Q) (s : State α) :
    (stepBasic adv op s).2.2 = false := by
  cases op <;> first | exact absurd rfl h | rfl

theorem exec_noQ (adv : Adv α) (l : List (Op α)) (hff : FormFree l) (hq : NoQ l) :
    ∀ s : State α, (stepOps adv l s).2.2 = false ∧
      exec adv l s = some ((stepOps adv l s).1, (stepOps adv l s).2.1.map (·.sh)) := by
  induction l with
  | nil => intro s; simp [exec, stepOps]
  | cons op rest ih =>
    intro s
    have hop : ∀ m b, op ≠ Op.form m b := hff op List.mem_cons_self
    have hne : (stepBasic adv op s).2.2 = false := stepBasic_noerr adv op (hq op List.mem_cons_self) s
    have hq' : NoQ rest := fun o ho => hq o (List.mem_cons_of_mem _ ho)
    obtain ⟨i1, i2⟩ := ih hff.tail hq' (stepBasic adv op s).1
    refine ⟨by simp [stepOps, hne, i1], ?_⟩
    simp only [exec, step_formFree adv op hop, stepOps, hne, Bool.false_eq_true, if_false, i2]
    simp [List.map_map, Function.comp_def]

/-- a decoded operation under `exec` -/
theorem exec_decoded (adv : Adv α) (l : List (Op α)) (hff : FormFree l)
    (hs : (∃ op, l = [op]) ∨ NoQ l) (s : State α) :
    exec adv l s = if (stepOps adv l s).2.2 then none
      else some ((stepOps adv l s).1, (stepOps adv l s).2.1.map (·.sh)) := by
  rcases hs with ⟨op, rfl⟩ | hq
  · have hop : ∀ m b, op ≠ Op.form m b := hff op List.mem_cons_self
    simp only [exec, step_formFree adv op hop, stepOps, Bool.or_false, List.append_nil]
    split <;> simp [List.map_map, Function.comp_def]
  · obtain ⟨h1, h2⟩ := exec_noQ adv l hff hq s
    rw [h1, h2]; simp

/-- **`Extract` on the document = the operator model on the unfolded tree** (loop level):
the same error behaviour, the same final graphics state, the same fragments; and the
accounting is the unfolding's when no error stops the loop -/
theorem extractLoop_refines (adv : Adv α) (doc : Doc α) (inv : Name → Acct → Node α × Acct)
    (d : Nat) (R : Option Res) (H : Refines adv (invokeXObject adv doc maxXObjectDepth) inv d R)
    (ops : List (RawOp α)) :
    ∀ x : XState α, x.resources = R → x.gs.xdepth = d →
      exec adv (expandOps inv ops x.acct).1 x.gs =
        (if (extractLoop adv doc ops x).2.2 then none
         else some ((extractLoop adv doc ops x).1.gs, (extractLoop adv doc ops x).2.1.map (·.sh))) ∧
      ((extractLoop adv doc ops x).2.2 = false →
        (extractLoop adv doc ops x).1.acct = (expandOps inv ops x.acct).2) := by
  induction ops with
  | nil => intro x _ _; simp [extractLoop, expandOps, exec]
  | cons op rest ih =>
    intro x hR hd
    have hff := decodeOp_formFree op
    cases hdec : decodeOp op with
    | ops l =>
      rw [hdec] at hff
      have hsh := decodeOp_shape op l hdec
      simp only [extractLoop, processOperation, expandOps, hdec]
      rw [exec_append, exec_decoded adv l hff hsh]
      cases herr : (stepOps adv l x.gs).2.2 with
      | true => simp
      | false =>
        simp only [Bool.false_eq_true, if_false]
        have hx1 : (stepOps adv l x.gs).1.xdepth = d := by rw [stepOps_xdepth, hd]
        obtain ⟨i1, i2⟩ := ih { x with gs := (stepOps adv l x.gs).1 } hR hx1
        simp only at i1 i2
        rw [i1]
        refine ⟨?_, i2⟩
        cases hb : (extractLoop adv doc rest { x with gs := (stepOps adv l x.gs).1 }).2.2 <;> simp
    | xobj name =>
      simp only [extractLoop, processOperation, expandOps, hdec]
      obtain ⟨j1, j2, j3, j4⟩ := H name x hR hd
      obtain ⟨i1, i2⟩ := ih (invokeXObject adv doc maxXObjectDepth name x).1 j2 j3
      rw [j1] at i1 i2
      rw [exec_append, exec_node, ← j4]
      simp only [Bool.false_eq_true, if_false]
      rw [i1]
      refine ⟨?_, i2⟩
      cases hb : (extractLoop adv doc rest (invokeXObject adv doc maxXObjectDepth name x).1).2.2 <;> simp

end
end Tabula.XDoc
