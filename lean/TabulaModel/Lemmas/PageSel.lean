import TabulaModel.Model.PageSel
/-!
Helper lemmas for C10 (page selection): insertion sort, the conversion loop of
`resolvePages`, uniqueness of strictly ascending lists, the join rule of `Text`.
-/
namespace Tabula.PageSel

/-- strictly ascending -/
abbrev StrictAsc (l : List Nat) : Prop := l.Pairwise (· < ·)

/-! ### insertion sort -/

theorem mem_insertSorted (a x : Nat) (l : List Nat) :
    x ∈ insertSorted a l ↔ x = a ∨ x ∈ l := by
  induction l with
  | nil => simp [insertSorted]
  | cons b bs ih =>
    unfold insertSorted
    split
    · simp
    · simp only [List.mem_cons, ih]
      constructor
      · rintro (h | h | h)
        · exact Or.inr (Or.inl h)
        · exact Or.inl h
        · exact Or.inr (Or.inr h)
      · rintro (h | h | h)
        · exact Or.inr (Or.inl h)
        · exact Or.inl h
        · exact Or.inr (Or.inr h)

theorem mem_isort (x : Nat) (l : List Nat) : x ∈ isort l ↔ x ∈ l := by
  induction l with
  | nil => simp [isort]
  | cons a as ih => simp [isort, mem_insertSorted, ih]

theorem insertSorted_strictAsc (a : Nat) (l : List Nat) (hl : StrictAsc l) (ha : a ∉ l) :
    StrictAsc (insertSorted a l) := by
  induction l with
  | nil => simp [insertSorted]
  | cons b bs ih =>
    have hb := List.pairwise_cons.mp hl
    have hab : a ≠ b := fun h => ha (by simp [h])
    have habs : a ∉ bs := fun h => ha (by simp [h])
    unfold insertSorted
    split
    · rename_i hle
      refine List.pairwise_cons.mpr ⟨?_, hl⟩
      intro x hx
      rcases List.mem_cons.mp hx with h | h
      · omega
      · have := hb.1 x h; omega
    · rename_i hle
      refine List.pairwise_cons.mpr ⟨?_, ih hb.2 habs⟩
      intro x hx
      rcases (mem_insertSorted a x bs).mp hx with h | h
      · omega
      · exact hb.1 x h

theorem isort_strictAsc (l : List Nat) (hl : l.Nodup) : StrictAsc (isort l) := by
  induction l with
  | nil => simp [isort]
  | cons a as ih =>
    have h := List.nodup_cons.mp hl
    exact insertSorted_strictAsc a (isort as) (ih h.2) (fun hm => h.1 ((mem_isort a as).mp hm))

theorem insertSorted_perm (a : Nat) (l : List Nat) : (insertSorted a l).Perm (a :: l) := by
  induction l with
  | nil => simp [insertSorted]
  | cons b bs ih =>
    unfold insertSorted
    split
    · exact List.Perm.refl _
    · exact ((List.Perm.cons b ih).trans (List.Perm.swap a b bs))

theorem isort_perm (l : List Nat) : (isort l).Perm l := by
  induction l with
  | nil => simp [isort]
  | cons a as ih => exact (insertSorted_perm a (isort as)).trans (List.Perm.cons a ih)

/-- a strictly ascending list is determined by its set of members -/
theorem strictAsc_ext : ∀ (l₁ l₂ : List Nat), StrictAsc l₁ → StrictAsc l₂ →
    (∀ x, x ∈ l₁ ↔ x ∈ l₂) → l₁ = l₂
  | [], [], _, _, _ => rfl
  | [], b :: bs, _, _, h => by have := (h b).mpr (by simp); simp at this
  | a :: as, [], _, _, h => by have := (h a).mp (by simp); simp at this
  | a :: as, b :: bs, h₁, h₂, h => by
    have p₁ := List.pairwise_cons.mp h₁
    have p₂ := List.pairwise_cons.mp h₂
    have hab : a = b := by
      have ha : a ∈ b :: bs := (h a).mp (by simp)
      have hb : b ∈ a :: as := (h b).mpr (by simp)
      rcases List.mem_cons.mp ha with e | e
      · exact e
      · rcases List.mem_cons.mp hb with e' | e'
        · exact e'.symm
        · have := p₁.1 b e'; have := p₂.1 a e; omega
    subst hab
    have : as = bs := by
      apply strictAsc_ext as bs p₁.2 p₂.2
      intro x
      constructor
      · intro hx
        have hlt := p₁.1 x hx
        rcases List.mem_cons.mp ((h x).mp (List.mem_cons_of_mem _ hx)) with e | e
        · omega
        · exact e
      · intro hx
        have hlt := p₂.1 x hx
        rcases List.mem_cons.mp ((h x).mpr (List.mem_cons_of_mem _ hx)) with e | e
        · omega
        · exact e
    rw [this]

/-! ### the conversion loop -/

/-- every page number of the selection is inside the document -/
def InRange (sel : List Int) (n : Nat) : Prop := ∀ p ∈ sel, 1 ≤ p ∧ p ≤ (n : Int)

theorem convLoop_error (n : Nat) (sel : List Int) (h : ¬ InRange sel n) :
    ∀ seen, convLoop n seen sel = .error .range := by
  induction sel with
  | nil => exact absurd (by intro p hp; simp at hp) h
  | cons p ps ih =>
    intro seen
    unfold convLoop
    by_cases hp : p < 1 ∨ p > (n : Int)
    · simp [hp]
    · have hps : ¬ InRange ps n := by
        intro hr
        apply h
        intro q hq
        rcases List.mem_cons.mp hq with e | e
        · subst e; omega
        · exact hr q e
      simp only [hp, if_false]
      split
      · exact ih hps _
      · rw [ih hps _]

/-- what the loop returns on an in-range selection: no duplicates, nothing
already seen, and exactly the (0-based) members of the selection not yet seen -/
theorem convLoop_ok (n : Nat) (sel : List Int) (h : InRange sel n) :
    ∀ seen, ∃ l, convLoop n seen sel = .ok l ∧ l.Nodup ∧
      ∀ z : Nat, z ∈ l ↔ (z ∉ seen ∧ ((z : Int) + 1) ∈ sel) := by
  induction sel with
  | nil => intro seen; exact ⟨[], rfl, List.nodup_nil, by simp⟩
  | cons p ps ih =>
    intro seen
    have hp := h p (by simp)
    have hps : InRange ps n := fun q hq => h q (List.mem_cons_of_mem _ hq)
    have hnot : ¬ (p < 1 ∨ p > (n : Int)) := by omega
    have hz : (((p - 1).toNat : Nat) : Int) + 1 = p := by omega
    unfold convLoop
    simp only [hnot, if_false]
    by_cases hs : (p - 1).toNat ∈ seen
    · simp only [hs, if_true]
      obtain ⟨l, hl, hnd, hmem⟩ := ih hps seen
      refine ⟨l, hl, hnd, ?_⟩
      intro z
      rw [hmem z]
      constructor
      · rintro ⟨a, b⟩; exact ⟨a, List.mem_cons_of_mem _ b⟩
      · rintro ⟨a, b⟩
        refine ⟨a, ?_⟩
        rcases List.mem_cons.mp b with e | e
        · exfalso; apply a
          have : z = (p - 1).toNat := by omega
          rw [this]; exact hs
        · exact e
    · simp only [hs, if_false]
      obtain ⟨l, hl, hnd, hmem⟩ := ih hps ((p - 1).toNat :: seen)
      rw [hl]
      refine ⟨(p - 1).toNat :: l, rfl, ?_, ?_⟩
      · refine List.nodup_cons.mpr ⟨?_, hnd⟩
        intro hin
        have := ((hmem _).mp hin).1
        simp at this
      · intro z
        simp only [List.mem_cons, hmem z]
        constructor
        · rintro (e | ⟨a, b⟩)
          · subst e; exact ⟨hs, Or.inl hz⟩
          · refine ⟨fun hc => a (Or.inr hc), Or.inr b⟩
        · rintro ⟨a, b⟩
          by_cases e : z = (p - 1).toNat
          · exact Or.inl e
          · right
            refine ⟨?_, ?_⟩
            · rintro (c | c)
              · exact e c
              · exact a c
            · rcases b with b | b
              · exfalso; apply e; omega
              · exact b

/-! ### the spec list: the pages of the set, in document order -/

/-- ascending list of the 0-based indices `k < n` with `k+1 ∈ sel` -/
def specPages (sel : List Int) (n : Nat) : List Nat :=
  (List.range n).filter fun k => decide (((k : Int) + 1) ∈ sel)

theorem specPages_strictAsc (sel : List Int) (n : Nat) : StrictAsc (specPages sel n) :=
  List.Pairwise.filter _ List.pairwise_lt_range

theorem mem_specPages (sel : List Int) (n k : Nat) :
    k ∈ specPages sel n ↔ k < n ∧ ((k : Int) + 1) ∈ sel := by
  simp [specPages, List.mem_filter, List.mem_range]

/-! ### the join rule -/

/-- non-empty page texts joined by the separator (right-recursive spec) -/
def joinNE : List Str → Str
  | [] => []
  | t :: ts => if t = [] then joinNE ts else if joinNE ts = [] then t else t ++ sep ++ joinNE ts

theorem textStep_nil_left (t : Str) : textStep [] t = t := by simp [textStep]

theorem joinNE_cons (t : Str) (ts : List Str) :
    joinNE (t :: ts) = if t = [] then joinNE ts else if joinNE ts = [] then t else t ++ sep ++ joinNE ts := rfl

theorem foldl_textStep (ts : List Str) : ∀ acc : Str,
    ts.foldl textStep acc = textStep acc (joinNE ts) := by
  induction ts with
  | nil => intro acc; simp [joinNE, textStep]
  | cons t ts ih =>
    intro acc
    simp only [List.foldl_cons, ih]
    rw [joinNE_cons]
    by_cases ht : t = []
    · subst ht
      have : textStep acc [] = acc := by simp [textStep]
      simp [this]
    · simp only [ht, if_false]
      by_cases hj : joinNE ts = []
      · simp only [hj, if_true]
        simp [textStep]
      · simp only [hj, if_false]
        by_cases ha : acc = []
        · subst ha
          simp [textStep, ht, hj]
        · have h1 : textStep acc t = acc ++ sep ++ t := by simp [textStep, ha, ht]
          have h2 : acc ++ sep ++ t ≠ [] := by simp [ha]
          have h3 : t ++ sep ++ joinNE ts ≠ [] := by simp [ht]
          rw [h1]
          simp [textStep, h2, hj, ha, h3, List.append_assoc]

theorem joinNE_eq_intercalate (ts : List Str) :
    joinNE ts = sep.intercalate (ts.filter (· ≠ [])) := by
  induction ts with
  | nil => rfl
  | cons t ts ih =>
    rw [joinNE_cons]
    by_cases ht : t = []
    · subst ht; simpa using ih
    · simp only [ht, if_false]
      have hf : (t :: ts).filter (· ≠ []) = t :: ts.filter (· ≠ []) := by
        simp [List.filter_cons, ht]
      rw [hf]
      cases hts : ts.filter (· ≠ []) with
      | nil =>
        have : joinNE ts = [] := by rw [ih, hts]; rfl
        simp [this, List.intercalate, List.intersperse]
      | cons u us =>
        have hu : u ≠ [] := by
          have : u ∈ ts.filter (· ≠ []) := by rw [hts]; simp
          simpa using (List.mem_filter.mp this).2
        have hne : joinNE ts ≠ [] := by
          rw [ih, hts]
          cases us with
          | nil => simpa [List.intercalate, List.intersperse] using hu
          | cons v vs => simp [List.intercalate, List.intersperse_cons_cons, hu]
        simp only [hne, if_false]
        rw [ih, hts]
        simp [List.intercalate, List.intersperse_cons_cons, List.append_assoc]

/-! ### collecting per-page results -/

theorem collect_ok {α : Type} (pg : Nat → Except E α) (f : Nat → α) (idx : List Nat)
    (h : ∀ k ∈ idx, pg k = .ok (f k)) : collect pg idx = .ok (idx.map f) := by
  induction idx with
  | nil => rfl
  | cons k ks ih =>
    unfold collect
    rw [h k (by simp), ih (fun j hj => h j (List.mem_cons_of_mem _ hj))]
    rfl

theorem collect_error {α : Type} (pg : Nat → Except E α) (idx : List Nat)
    (h : ∃ k ∈ idx, ∃ e, pg k = .error e) : ∃ e, collect pg idx = .error e := by
  induction idx with
  | nil => obtain ⟨k, hk, _⟩ := h; simp at hk
  | cons k ks ih =>
    unfold collect
    cases hk : pg k with
    | error e => exact ⟨e, rfl⟩
    | ok a =>
      obtain ⟨j, hj, e, he⟩ := h
      have : ∃ k ∈ ks, ∃ e, pg k = .error e := by
        rcases List.mem_cons.mp hj with c | c
        · subst c; rw [hk] at he; cases he
        · exact ⟨j, c, e, he⟩
      obtain ⟨e', he'⟩ := ih this
      simp only [he']
      exact ⟨e', rfl⟩

theorem foldl_append_flatten {F : Type} (fs : List (List F)) : ∀ acc : List F,
    fs.foldl (· ++ ·) acc = acc ++ fs.flatten := by
  induction fs with
  | nil => intro acc; simp
  | cons f fs ih => intro acc; simp [List.foldl_cons, ih, List.append_assoc]

/-! ### page numbering -/

theorem foldl_addPage (idx : List Nat) : ∀ d : List MPage,
    idx.foldl (fun d k => addPage d ⟨k + 1, k⟩) d = d ++ idx.map fun k => ⟨k + 1, k⟩ := by
  induction idx with
  | nil => intro d; simp
  | cons k ks ih =>
    intro d
    rw [List.foldl_cons, ih]
    have : ¬ (k + 1 = 0) := by omega
    simp [addPage, this]

theorem foldl_addPageOld (idx : List Nat) : ∀ d : List MPage,
    (idx.foldl (fun d k => addPageOld d ⟨k + 1, k⟩) d).length = d.length + idx.length := by
  induction idx with
  | nil => intro d; simp
  | cons k ks ih =>
    intro d
    rw [List.foldl_cons, ih]
    simp only [addPageOld, List.length_append, List.length_cons, List.length_nil]
    omega

end Tabula.PageSel
