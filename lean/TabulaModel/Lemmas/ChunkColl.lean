import TabulaModel.Model.ChunkColl
import TabulaModel.Lemmas.ChunkMeta
import TabulaModel.Lemmas.ChunkSeq
import TabulaModel.Lemmas.ChunkLayoutMeta
import TabulaModel.Lemmas.ChunkLayoutX
/-!
Lemmas for `Props/C12Query.lean`: `Filter` is `List.filter`, every query result is a sub-list of
the queried collection, what a sub-list of a chunker's collection keeps, the accessors.
-/
namespace Tabula.ChunkColl
open Tabula.Chunk Tabula.ChunkMeta

/-! ### `Filter` and the queries -/

theorem filterLoop_eq (p : QChunk → Bool) (cs acc : List QChunk) : filterLoop p cs acc = acc ++ cs.filter p := by
  induction cs generalizing acc with
  | nil => simp [filterLoop]
  | cons c cs ih =>
    simp only [filterLoop, ih, List.filter_cons]
    split <;> simp

theorem filterC_eq (p : QChunk → Bool) (cs : List QChunk) : filterC p cs = cs.filter p := by
  simp [filterC, filterLoop_eq]

theorem applyQuery_sublist (q : Query) (cs : List QChunk) : (applyQuery q cs).Sublist cs := by
  cases q with
  | slice a b => exact (List.drop_sublist _ _).trans (List.take_sublist _ _)
  | _ => simp only [applyQuery, filterC_eq]; exact List.filter_sublist

theorem applyQuery_filter (q : Query) (cs : List QChunk) (h : ∀ a b, q ≠ .slice a b) :
    applyQuery q cs = cs.filter (queryPred q) := by
  cases q with
  | slice a b => exact absurd rfl (h a b)
  | _ => simp only [applyQuery, filterC_eq]

/-! ### the accessors hand out members -/

theorem getByIndex_some (cs : List QChunk) (i : Int) (q : QChunk) (h : getByIndex cs i = some q) :
    0 ≤ i ∧ cs[i.toNat]? = some q := by
  unfold getByIndex at h
  split at h
  · cases h
  · rename_i hn
    exact ⟨by omega, h⟩

theorem getByID_some (id : Str) (cs : List QChunk) (q : QChunk) (h : getByID id cs = some q) :
    q ∈ cs ∧ q.c.id = id := by
  induction cs with
  | nil => cases h
  | cons c cs ih =>
    simp only [getByID] at h
    split at h
    · cases h; exact ⟨List.mem_cons_self .., by assumption⟩
    · exact ⟨List.mem_cons_of_mem _ (ih h).1, (ih h).2⟩

theorem getByID_of_nodup (id : Str) (cs : List QChunk) (hn : (cs.map (·.c.id)).Nodup) (q : QChunk)
    (hq : q ∈ cs) (hid : q.c.id = id) : getByID id cs = some q := by
  induction cs with
  | nil => cases hq
  | cons c cs ih =>
    simp only [List.map_cons, List.nodup_cons] at hn
    simp only [getByID]
    rcases List.mem_cons.mp hq with rfl | hq
    · rw [if_pos hid]
    · have : c.c.id ≠ id := by
        intro e
        apply hn.1
        rw [e, ← hid]
        exact List.mem_map.mpr ⟨q, hq, rfl⟩
      rw [if_neg this]
      exact ih hn.2 hq

theorem first_some (cs : List QChunk) (q : QChunk) (h : first cs = some q) : q ∈ cs := by
  cases cs with
  | nil => cases h
  | cons c cs => cases h; exact List.mem_cons_self ..

theorem last_some (cs : List QChunk) (q : QChunk) (h : last cs = some q) : q ∈ cs := by
  unfold last at h
  split at h
  · cases h
  · exact List.mem_of_getElem? h

/-! ### a history only ever holds sub-lists of the collection it started from -/

def ResultOK (base : List QChunk) : Result → Prop
  | .coll cs => cs.Sublist base
  | .chunk (some q) => q ∈ base
  | _ => True

theorem applyRead_ok (base cs : List QChunk) (hs : cs.Sublist base) (r : Read) : ResultOK base (applyRead r cs) := by
  cases r with
  | getByIndex i =>
    simp only [applyRead]
    cases h : getByIndex cs i with
    | none => trivial
    | some q => exact hs.subset (List.mem_of_getElem? (getByIndex_some cs i q h).2)
  | getByID id =>
    simp only [applyRead]
    cases h : getByID id cs with
    | none => trivial
    | some q => exact hs.subset (getByID_some id cs q h).1
  | first =>
    simp only [applyRead]
    cases h : first cs with
    | none => trivial
    | some q => exact hs.subset (first_some cs q h)
  | last =>
    simp only [applyRead]
    cases h : last cs with
    | none => trivial
    | some q => exact hs.subset (last_some cs q h)
  | count => trivial
  | pageRange => trivial
  | sections => trivial
  | totalTokens => trivial

theorem stepStore_ok (base : List QChunk) (store : Store) (hst : ∀ cs ∈ store, cs.Sublist base) (s : Step) :
    (∀ cs ∈ (stepStore store s).1, cs.Sublist base) ∧ store <+: (stepStore store s).1 ∧
    ResultOK base (stepStore store s).2 := by
  have htgt : (store[s.target]?.getD []).Sublist base := by
    cases h : store[s.target]? with
    | none => exact List.nil_sublist _
    | some cs => exact hst cs (List.mem_of_getElem? h)
  unfold stepStore
  cases s.op with
  | query q =>
    have hq := (applyQuery_sublist q (store[s.target]?.getD [])).trans htgt
    refine ⟨?_, List.prefix_append _ _, hq⟩
    intro cs hcs
    rcases List.mem_append.mp hcs with h | h
    · exact hst cs h
    · simp only [List.mem_singleton] at h; subst h; exact hq
  | read r => exact ⟨hst, List.prefix_refl _, applyRead_ok base _ htgt r⟩

theorem runStore_ok (base : List QChunk) (store : Store) (hst : ∀ cs ∈ store, cs.Sublist base) (steps : List Step) :
    (∀ cs ∈ (runStore store steps).1, cs.Sublist base) ∧ store <+: (runStore store steps).1 ∧
    ∀ r ∈ (runStore store steps).2, ResultOK base r := by
  induction steps generalizing store with
  | nil => exact ⟨hst, List.prefix_refl _, fun r hr => by cases hr⟩
  | cons s rest ih =>
    obtain ⟨h1, h2, h3⟩ := stepStore_ok base store hst s
    obtain ⟨i1, i2, i3⟩ := ih (stepStore store s).1 h1
    simp only [runStore]
    refine ⟨i1, h2.trans i2, ?_⟩
    intro r hr
    rcases List.mem_cons.mp hr with rfl | hr
    · exact h3
    · exact i3 r hr

/-! ### what a sub-list of a chunker's collection keeps -/

/-- the collection directly behind the chunker call: indices `0..n-1`, ids `idOf index`, total `n` -/
structure BaseOK (idOf : Nat → Str) (b : List QChunk) : Prop where
  idx : b.map (·.c.idx) = List.range b.length
  id : ∀ q ∈ b, q.c.id = idOf q.c.idx
  total : ∀ q ∈ b, q.c.total = b.length

theorem base_get {idOf : Nat → Str} {b : List QChunk} (hb : BaseOK idOf b) (i : Nat) (q : QChunk)
    (h : b[i]? = some q) : q.c.idx = i := by
  have h1 : (b.map (·.c.idx))[i]? = some q.c.idx := by rw [List.getElem?_map, h]; rfl
  rw [hb.idx] at h1
  have hi : i < b.length := by
    rcases Nat.lt_or_ge i b.length with hlt | hge
    · exact hlt
    · rw [List.getElem?_eq_none (by simpa using hge)] at h; cases h
  rw [List.getElem?_range hi] at h1
  cases h1; rfl

theorem base_mem_get {idOf : Nat → Str} {b : List QChunk} (hb : BaseOK idOf b) (q : QChunk) (hq : q ∈ b) :
    b[q.c.idx]? = some q := by
  obtain ⟨i, hi⟩ := List.getElem?_of_mem hq
  rw [base_get hb i q hi]; exact hi

theorem sub_facts {idOf : Nat → Str} (hinj : ∀ a b, idOf a = idOf b → a = b) {b cs : List QChunk}
    (hb : BaseOK idOf b) (hs : cs.Sublist b) :
    (cs.map (·.c.idx)).Pairwise (· < ·) ∧ (cs.map (·.c.id)).Nodup ∧
    ∀ q ∈ cs, q.c.total = b.length ∧ b[q.c.idx]? = some q := by
  have hlt : (cs.map (·.c.idx)).Pairwise (· < ·) := by
    have h1 : (cs.map (·.c.idx)).Sublist (List.range b.length) := by
      rw [← hb.idx]; exact hs.map _
    exact List.Pairwise.sublist h1 List.pairwise_lt_range
  refine ⟨hlt, ?_, fun q hq => ⟨hb.total q (hs.subset hq), base_mem_get hb q (hs.subset hq)⟩⟩
  have hids : cs.map (·.c.id) = (cs.map (·.c.idx)).map idOf := by
    rw [List.map_map]
    apply List.map_congr_left
    intro q hq
    exact hb.id q (hs.subset hq)
  rw [hids, List.nodup_iff_pairwise_ne, List.pairwise_map]
  exact hlt.imp fun {x y} (h : x < y) (e : idOf x = idOf y) => by
    have := hinj _ _ e
    omega

/-! ### the two chunkers' collections are such bases -/

theorem elementColl_c (c : Tabula.Split.SizeConfig) (d : Doc) :
    (elementColl c d).map (·.c) = Tabula.ChunkSplit.chunkDocumentC c d := by
  unfold elementColl chunkDocumentXC Tabula.ChunkSplit.chunkDocumentC
  rw [List.map_map]
  exact chunkDocumentX_c _ d

theorem baseOK_of_c (idOf : Nat → Str) (b : List QChunk)
    (h1 : (b.map (·.c)).map (·.idx) = List.range (b.map (·.c)).length)
    (h2 : ∀ c ∈ b.map (·.c), c.id = idOf c.idx)
    (h3 : ∀ c ∈ b.map (·.c), c.total = (b.map (·.c)).length) : BaseOK idOf b := by
  refine ⟨?_, ?_, ?_⟩
  · rw [List.map_map, List.length_map] at h1; exact h1
  · intro q hq; exact h2 q.c (List.mem_map.mpr ⟨q, hq, rfl⟩)
  · intro q hq
    have := h3 q.c (List.mem_map.mpr ⟨q, hq, rfl⟩)
    rw [List.length_map] at this; exact this

theorem elementColl_base (c : Tabula.Split.SizeConfig) (d : Doc) : BaseOK chunkId (elementColl c d) := by
  obtain ⟨h1, h2, h3⟩ := chunkDocument_seq (Tabula.ChunkSplit.splitterOf c) d
  apply baseOK_of_c
  · rw [elementColl_c]; exact h1
  · rw [elementColl_c]; exact h2
  · rw [elementColl_c]; exact h3

open Tabula.ChunkLayout in
theorem layoutColl_c (low : Str → Bool) (cfg : Cfg) (title : Str) (d : LDoc) :
    (layoutColl low cfg title d).map (·.c) = Tabula.ChunkSent.chunkS low cfg title d := by
  unfold layoutColl Tabula.ChunkSent.chunkS
  rw [List.map_map]
  exact Tabula.ChunkLayoutX.chunkX_proj cfg title _

open Tabula.ChunkLayout in
theorem layout_chunk_seq (cfg : Cfg) (title : Str) (d : LDoc) :
    (chunk cfg title d).map (·.idx) = List.range (chunk cfg title d).length ∧
    (∀ c ∈ chunk cfg title d, c.id = layoutId cfg c.idx) ∧
    ∀ c ∈ chunk cfg title d, c.total = (chunk cfg title d).length := by
  obtain ⟨hseq, hid⟩ := chunkRaw_seq cfg title d
  refine ⟨?_, ?_, ?_⟩
  · rw [chunk_eq_raw, setTotal_idx, setTotal_length, List.range_eq_range']
    exact hseq
  · intro c hc
    rw [chunk_eq_raw] at hc
    simp only [setTotal, List.mem_map] at hc
    obtain ⟨c0, h0, e⟩ := hc
    rw [← e]
    exact hid c0 h0
  · intro c hc
    rw [chunk_eq_raw] at hc ⊢
    rw [setTotal_length]
    simp only [setTotal, List.mem_map] at hc
    obtain ⟨c0, _, e⟩ := hc
    rw [← e]

open Tabula.ChunkLayout in
theorem layoutColl_base (low : Str → Bool) (cfg : Cfg) (title : Str) (d : LDoc) :
    BaseOK (layoutId cfg) (layoutColl low cfg title d) := by
  obtain ⟨h1, h2, h3⟩ := layout_chunk_seq cfg title (Tabula.ChunkSent.withSents low d)
  apply baseOK_of_c
  · rw [layoutColl_c]; exact h1
  · rw [layoutColl_c]; exact h2
  · rw [layoutColl_c]; exact h3

/-! ### `FilterByPage` on the element-based chunker's collection: the chunks of those pages -/

def stamp (n : Nat) (c : Chunk) : Chunk := { c with total := n }

def onPage (p : Int) (c : Chunk) : Bool := decide (p ≥ c.pageStart) && decide (p ≤ c.pageEnd)

theorem filter_group (n : Nat) (p : Int) (pg : Page) (g : List Chunk)
    (h : ∀ c ∈ g, c.pageStart = pg.number ∧ c.pageEnd = pg.number) :
    (g.map (stamp n)).filter (onPage p) = if pg.number == p then g.map (stamp n) else [] := by
  induction g with
  | nil => split <;> rfl
  | cons c g ih =>
    have hc := h c (List.mem_cons_self ..)
    have ih := ih (fun x hx => h x (List.mem_cons_of_mem _ hx))
    simp only [List.map_cons, List.filter_cons, ih]
    by_cases e : pg.number = p
    · have : onPage p (stamp n c) = true := by simp [onPage, stamp, hc.1, hc.2, e]
      simp [this, e]
    · have : onPage p (stamp n c) = false := by
        simp only [onPage, stamp, hc.1, hc.2, ge_iff_le, Bool.and_eq_false_imp, decide_eq_true_eq, decide_eq_false_iff_not]
        intro h1 h2; exact e (by omega)
      simp [this, e]

theorem filter_pages (n : Nat) (p : Int) (d : List Page) (gs : List (List Chunk)) (h : PagesM d gs) :
    (gs.flatten.map (stamp n)).filter (onPage p) =
      ((d.zip gs).filter fun x => x.1.number == p).flatMap fun x => x.2.map (stamp n) := by
  induction d generalizing gs with
  | nil =>
    cases gs with
    | nil => rfl
    | cons _ _ => exact absurd h (by simp [PagesM])
  | cons pg pgs ih =>
    cases gs with
    | nil => exact absurd h (by simp [PagesM])
    | cons g gs =>
      obtain ⟨hg, hrest⟩ := h
      simp only [List.flatten_cons, List.map_append, List.filter_append, List.zip_cons_cons, List.filter_cons]
      rw [filter_group n p pg g hg, ih gs hrest]
      by_cases e : pg.number == p <;> simp [e]

end Tabula.ChunkColl

namespace Tabula.ChunkColl
open Tabula.Chunk Tabula.ChunkMeta

/-- `Count` after `FilterByPage` etc. never exceeds `Count` of the queried collection -/
theorem applyQuery_length (q : Query) (cs : List QChunk) : (applyQuery q cs).length ≤ cs.length :=
  (applyQuery_sublist q cs).length_le

/-- the members of the store after a history, by position: the first is the base -/
theorem runStore_head (base : List QChunk) (rest : Store) (steps : List Step) :
    (runStore (base :: rest) steps).1.head? = some base := by
  induction steps generalizing rest with
  | nil => rfl
  | cons s ss ih =>
    simp only [runStore]
    unfold stepStore
    cases s.op with
    | query q => exact ih _
    | read r => exact ih _

end Tabula.ChunkColl
