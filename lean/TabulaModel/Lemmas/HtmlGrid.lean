import TabulaModel.Model.HtmlGrid
/-!
Lemmas about the table grid of htmldoc (Model/HtmlGrid.lean), generic in the cell type:
the grid is rectangular, keeps every cell of every row in order, is the row list itself for
tables without spans, puts a cell's covered columns behind it, and `dropEmptyRows` removes
nothing but rows without cells.
-/
namespace Tabula.HtmlGrid

variable {α : Type}

/-! ## `placeRow` / `layoutRows`: lengths -/

theorem takeWhile_length_add_dropWhile (p : Nat → Bool) (l : List Nat) :
    (l.takeWhile p).length + (l.dropWhile p).length = l.length := by
  have := congrArg List.length (List.takeWhile_append_dropWhile (p := p) (l := l))
  rw [List.length_append] at this
  exact this

theorem placeRow_length (sp : α → Nat × Nat) : ∀ (r : List α) (cov : List Nat),
    (placeRow sp cov r).1.length ≤ (placeRow sp cov r).2.length ∧
      cov.length ≤ (placeRow sp cov r).2.length
  | [], cov => by simp [placeRow]
  | c :: cs, cov => by
      have ih := placeRow_length sp cs (List.drop ((sp c).1 + 1) (cov.dropWhile (0 < ·)))
      have hl := takeWhile_length_add_dropWhile (0 < ·) cov
      simp only [placeRow, List.length_append, List.length_map, List.length_cons,
        List.length_replicate]
      rw [List.length_drop] at ih
      omega

theorem layoutRows_length (sp : α → Nat × Nat) : ∀ (t : List (List α)) (cov : List Nat),
    (∀ l ∈ (layoutRows sp cov t).1, l.length ≤ (layoutRows sp cov t).2.length) ∧
      cov.length ≤ (layoutRows sp cov t).2.length
  | [], cov => by simp [layoutRows]
  | r :: rs, cov => by
      have hp := placeRow_length sp r cov
      have ih := layoutRows_length sp rs ((placeRow sp cov r).2.map (· - 1))
      rw [List.length_map] at ih
      simp only [layoutRows]
      refine ⟨?_, by omega⟩
      intro l hl
      rcases List.mem_cons.mp hl with h | h
      · subst h; omega
      · exact ih.1 l h

theorem layoutRows_rows (sp : α → Nat × Nat) : ∀ (t : List (List α)) (cov : List Nat),
    (layoutRows sp cov t).1.length = t.length
  | [], _ => rfl
  | r :: rs, cov => by simp [layoutRows, layoutRows_rows sp rs]

/-- **the grid is rectangular**: every line has the width of the grid -/
theorem layoutGrid_rect (sp : α → Nat × Nat) (t : List (List α)) :
    ∀ l ∈ layoutGrid sp t, l.length = widthOf sp t := by
  intro l hl
  unfold layoutGrid at hl
  rcases List.mem_map.mp hl with ⟨l0, h0, rfl⟩
  have := (layoutRows_length sp t []).1 l0 h0
  simp only [List.length_append, List.length_replicate]
  unfold widthOf
  omega

/-- one line per row -/
theorem layoutGrid_rows (sp : α → Nat × Nat) (t : List (List α)) :
    (layoutGrid sp t).length = t.length := by
  simp [layoutGrid, layoutRows_rows]

/-! ## every cell is kept, in order -/

theorem filterMap_id_map_none (l : List Nat) :
    (l.map fun _ => (none : Option α)).filterMap id = [] := by
  induction l with
  | nil => rfl
  | cons _ _ ih => simp [ih]

theorem filterMap_id_replicate_none (n : Nat) :
    (List.replicate n (none : Option α)).filterMap id = [] := by
  induction n with
  | zero => rfl
  | succ n ih => simp [List.replicate_succ, ih]

theorem placeRow_cells (sp : α → Nat × Nat) : ∀ (r : List α) (cov : List Nat),
    (placeRow sp cov r).1.filterMap id = r
  | [], _ => rfl
  | c :: cs, cov => by
      simp only [placeRow, List.filterMap_append, List.filterMap_cons, id,
        filterMap_id_map_none, filterMap_id_replicate_none, List.nil_append]
      rw [placeRow_cells sp cs]
      rfl

theorem layoutRows_cells (sp : α → Nat × Nat) : ∀ (t : List (List α)) (cov : List Nat),
    (layoutRows sp cov t).1.map (·.filterMap id) = t
  | [], _ => rfl
  | r :: rs, cov => by
      simp only [layoutRows, List.map_cons]
      rw [placeRow_cells, layoutRows_cells sp rs]

/-- **no cell is lost or moved past another**: the cells of line `i` of the grid, read from
left to right, are the cells of row `i` -/
theorem layoutGrid_cells (sp : α → Nat × Nat) (t : List (List α)) :
    (layoutGrid sp t).map (·.filterMap id) = t := by
  unfold layoutGrid
  rw [List.map_map]
  have : ((fun l : List (Option α) => l.filterMap id) ∘
      fun l => l ++ List.replicate (widthOf sp t - l.length) none)
        = fun l : List (Option α) => l.filterMap id := by
    funext l
    simp [List.filterMap_append]
  rw [this]
  exact layoutRows_cells sp t []

/-! ## rows over columns that are not covered: a cell, then its covered columns -/

def AllZero (cov : List Nat) : Prop := ∀ x ∈ cov, x = 0

theorem takeWhile_allZero (cov : List Nat) (h : AllZero cov) : cov.takeWhile (0 < ·) = [] := by
  cases cov with
  | nil => rfl
  | cons x xs =>
    have : x = 0 := h x (by simp)
    simp [List.takeWhile, this]

theorem dropWhile_allZero (cov : List Nat) (h : AllZero cov) : cov.dropWhile (0 < ·) = cov := by
  cases cov with
  | nil => rfl
  | cons x xs =>
    have : x = 0 := h x (by simp)
    simp [List.dropWhile, this]

theorem allZero_drop (cov : List Nat) (k : Nat) (h : AllZero cov) : AllZero (cov.drop k) :=
  fun x hx => h x (List.mem_of_mem_drop hx)

/-- what one cell writes on free columns: itself, then `none` for the further columns it covers -/
def cellLine (sp : α → Nat × Nat) (c : α) : List (Option α) := some c :: List.replicate (sp c).1 none

/-- over columns none of which is covered from above a row is its cells, each followed by the
columns it covers (the grid row of docx/odt) -/
theorem placeRow_free (sp : α → Nat × Nat) : ∀ (r : List α) (cov : List Nat), AllZero cov →
    (placeRow sp cov r).1 = r.flatMap (cellLine sp)
  | [], _, _ => rfl
  | c :: cs, cov, h => by
      simp only [placeRow, takeWhile_allZero cov h, dropWhile_allZero cov h, List.map_nil,
        List.nil_append, List.flatMap_cons, cellLine]
      rw [placeRow_free sp cs _ (allZero_drop cov _ h)]

/-- … and when no cell spans more than one row, nothing is covered for the next row either -/
theorem placeRow_free_cov (sp : α → Nat × Nat) (hsp : ∀ c, (sp c).2 ≤ 1) :
    ∀ (r : List α) (cov : List Nat), AllZero cov → AllZero ((placeRow sp cov r).2.map (· - 1))
  | [], cov, h => by
      intro x hx
      rcases List.mem_map.mp hx with ⟨y, hy, rfl⟩
      simp [placeRow] at hy
      rw [h y hy]
  | c :: cs, cov, h => by
      have ih := placeRow_free_cov sp hsp cs _ (allZero_drop cov ((sp c).1 + 1) h)
      simp only [placeRow, takeWhile_allZero cov h, dropWhile_allZero cov h, List.nil_append,
        List.map_append, List.map_replicate]
      intro x hx
      rcases List.mem_append.mp hx with h1 | h1
      · have := List.eq_of_mem_replicate h1
        have := hsp c
        omega
      · exact ih x h1

/-- **tables without rowspan**: every line of the grid is the row's cells, each followed by
`none` for the further columns of its colspan -/
theorem layoutRows_noRowSpan (sp : α → Nat × Nat) (hsp : ∀ c, (sp c).2 ≤ 1) :
    ∀ (t : List (List α)) (cov : List Nat), AllZero cov →
      (layoutRows sp cov t).1 = t.map fun r => r.flatMap (cellLine sp)
  | [], _, _ => rfl
  | r :: rs, cov, h => by
      simp only [layoutRows, List.map_cons]
      rw [placeRow_free sp r cov h,
        layoutRows_noRowSpan sp hsp rs _ (placeRow_free_cov sp hsp r cov h)]

/-- the first row of any table stands on free columns -/
theorem layoutRows_first (sp : α → Nat × Nat) (r : List α) (rs : List (List α)) :
    (layoutRows sp [] (r :: rs)).1.head? = some (r.flatMap (cellLine sp)) := by
  simp only [layoutRows, List.head?_cons]
  rw [placeRow_free sp r [] (fun _ h => by cases h)]

/-! ## tables without spans -/

theorem flatMap_cellLine_plain (sp : α → Nat × Nat) (hsp : ∀ c, (sp c).1 = 0) (r : List α) :
    r.flatMap (cellLine sp) = r.map some := by
  induction r with
  | nil => rfl
  | cons c cs ih => simp [List.flatMap_cons, cellLine, hsp c, ih]

theorem placeRow_plain_cov (sp : α → Nat × Nat) (hsp : ∀ c, sp c = (0, 1)) :
    ∀ (r : List α) (cov : List Nat), AllZero cov →
      (placeRow sp cov r).2.length = max cov.length r.length
  | [], cov, _ => by simp [placeRow]
  | c :: cs, cov, h => by
      have ih := placeRow_plain_cov sp hsp cs (cov.drop 1) (allZero_drop cov 1 h)
      simp only [placeRow, takeWhile_allZero cov h, dropWhile_allZero cov h, List.nil_append,
        hsp c, List.length_append, List.length_replicate, List.length_cons]
      rw [ih, List.length_drop]
      omega

/-- width of a table without spans: its longest row -/
theorem layoutRows_plain_width (sp : α → Nat × Nat) (hsp : ∀ c, sp c = (0, 1)) :
    ∀ (t : List (List α)) (cov : List Nat), AllZero cov →
      (layoutRows sp cov t).2.length = t.foldl (fun m r => max m r.length) cov.length
  | [], _, _ => rfl
  | r :: rs, cov, h => by
      have h2 : ∀ c, (sp c).2 ≤ 1 := fun c => by rw [hsp c]; exact Nat.le_refl 1
      simp only [layoutRows, List.foldl_cons]
      rw [layoutRows_plain_width sp hsp rs _ (placeRow_free_cov sp h2 r cov h), List.length_map,
        placeRow_plain_cov sp hsp r cov h]

theorem foldl_max_rect (n : Nat) : ∀ (t : List (List α)) (m : Nat), m ≤ n → (∀ r ∈ t, r.length = n) →
    t ≠ [] → t.foldl (fun m r => max m r.length) m = n
  | [], _, _, _, hne => absurd rfl hne
  | [r], m, hm, hr, _ => by
      have := hr r (by simp)
      simp only [List.foldl_cons, List.foldl_nil]; omega
  | r :: r2 :: rs, m, hm, hr, _ => by
      have h1 := hr r (by simp)
      simp only [List.foldl_cons]
      have := foldl_max_rect n (r2 :: rs) (max m r.length) (by omega)
        (fun x hx => hr x (List.mem_cons_of_mem _ hx)) (by simp)
      simpa using this

/-- **tables without spans whose rows have equal length are their own grid** -/
theorem layoutGrid_plain (sp : α → Nat × Nat) (hsp : ∀ c, sp c = (0, 1)) (n : Nat)
    (t : List (List α)) (hrect : ∀ r ∈ t, r.length = n) :
    layoutGrid sp t = t.map (·.map some) := by
  by_cases hne : t = []
  · subst hne; rfl
  have h2 : ∀ c, (sp c).2 ≤ 1 := fun c => by rw [hsp c]; exact Nat.le_refl 1
  have h1 : ∀ c, (sp c).1 = 0 := fun c => by rw [hsp c]
  have hz : AllZero ([] : List Nat) := fun _ h => by cases h
  have hw : widthOf sp t = n := by
    unfold widthOf
    rw [layoutRows_plain_width sp hsp t [] hz]
    exact foldl_max_rect n t 0 (Nat.zero_le _) hrect hne
  unfold layoutGrid
  rw [hw, layoutRows_noRowSpan sp h2 t [] hz, List.map_map]
  apply List.map_congr_left
  intro r hr
  simp only [Function.comp]
  rw [flatMap_cellLine_plain sp h1, List.length_map, hrect r hr, Nat.sub_self]
  simp

/-! ## width -/

theorem placeRow_width_pos (sp : α → Nat × Nat) (r : List α) (cov : List Nat) (h : r ≠ []) :
    0 < (placeRow sp cov r).2.length := by
  cases r with
  | nil => exact absurd rfl h
  | cons c cs => simp [placeRow]; omega

/-- a table with a cell has at least one column -/
theorem layoutRows_width_pos (sp : α → Nat × Nat) : ∀ (t : List (List α)) (cov : List Nat),
    (∃ r ∈ t, r ≠ []) → 0 < (layoutRows sp cov t).2.length
  | [], _, h => by rcases h with ⟨_, hr, _⟩; cases hr
  | r :: rs, cov, h => by
      simp only [layoutRows]
      by_cases hr : r = []
      · apply layoutRows_width_pos sp rs
        rcases h with ⟨x, hx, hxe⟩
        rcases List.mem_cons.mp hx with e | e
        · exact absurd (e ▸ hr) hxe
        · exact ⟨x, e, hxe⟩
      · have h1 := placeRow_width_pos sp r cov hr
        have h2 := (layoutRows_length sp rs ((placeRow sp cov r).2.map (· - 1))).2
        rw [List.length_map] at h2
        omega

theorem widthOf_pos (sp : α → Nat × Nat) (t : List (List α)) (h : ∃ r ∈ t, r ≠ []) :
    0 < widthOf sp t := layoutRows_width_pos sp t [] h

/-! ## a cell never stands on a column covered from above -/

theorem getD_append_right' (a b : List Nat) (k : Nat) (h : a.length ≤ k) :
    (a ++ b).getD k 0 = b.getD (k - a.length) 0 := by
  simp [List.getD, List.getElem?_append_right h]

theorem dropWhile_head_zero : ∀ (cov : List Nat) (x : Nat) (xs : List Nat),
    cov.dropWhile (0 < ·) = x :: xs → x = 0
  | [], _, _, h => by cases h
  | y :: ys, x, xs, h => by
      by_cases hy : 0 < y
      · rw [List.dropWhile_cons_of_pos (by simpa using hy)] at h
        exact dropWhile_head_zero ys x xs h
      · rw [List.dropWhile_cons_of_neg (by simpa using hy)] at h
        cases h; omega

/-- if line position `k` holds a cell, column `k` was not covered when the row was placed -/
theorem placeRow_cell_free (sp : α → Nat × Nat) : ∀ (r : List α) (cov : List Nat) (k : Nat) (c : α),
    (placeRow sp cov r).1[k]? = some (some c) → cov.getD k 0 = 0
  | [], _, k, c, h => by simp [placeRow] at h
  | c0 :: cs, cov, k, c, h => by
      have hsplit : cov = cov.takeWhile (0 < ·) ++ cov.dropWhile (0 < ·) :=
        (List.takeWhile_append_dropWhile).symm
      simp only [placeRow] at h
      by_cases h1 : k < (cov.takeWhile (0 < ·)).length
      · rw [List.getElem?_append_left (by simpa using h1)] at h
        simp at h
      · have h1' : (cov.takeWhile (0 < ·)).length ≤ k := Nat.le_of_not_lt h1
        rw [List.getElem?_append_right (by simpa using h1')] at h
        simp only [List.length_map] at h
        rw [hsplit, getD_append_right' _ _ _ h1']
        generalize k - (cov.takeWhile (0 < ·)).length = j at h ⊢
        by_cases h2 : j < (some c0 :: List.replicate (sp c0).1 (none : Option α)).length
        · rw [List.getElem?_append_left h2] at h
          cases j with
          | zero =>
            -- the first column that is not covered
            cases hd : cov.dropWhile (0 < ·) with
            | nil => rfl
            | cons x xs =>
              have := dropWhile_head_zero cov x xs hd
              simp [List.getD, this]
          | succ j =>
            rw [List.getElem?_cons_succ] at h
            simp only [List.length_cons, List.length_replicate] at h2
            rw [List.getElem?_replicate] at h
            split at h <;> cases h
        · have h2' : (some c0 :: List.replicate (sp c0).1 (none : Option α)).length ≤ j :=
            Nat.le_of_not_lt h2
          rw [List.getElem?_append_right h2'] at h
          simp only [List.length_cons, List.length_replicate] at h h2'
          have ih := placeRow_cell_free sp cs _ _ c h
          simp only [List.getD, List.getElem?_drop] at ih ⊢
          have : (sp c0).1 + 1 + (j - ((sp c0).1 + 1)) = j := by omega
          rw [this] at ih
          exact ih

/-! ## `dropEmptyRows` -/

theorem dropEmptyRowsFrom_flatten (rowSpan : α → Int) : ∀ (rows : List (List α)) (reach : Nat),
    (dropEmptyRowsFrom rowSpan reach rows).flatten = rows.flatten
  | [], _ => rfl
  | r :: rs, reach => by
      unfold dropEmptyRowsFrom
      split
      · rename_i h
        have : r = [] := by simpa using h.1
        subst this
        simpa using dropEmptyRowsFrom_flatten rowSpan rs reach
      · simp [dropEmptyRowsFrom_flatten rowSpan rs]

/-- nothing but rows without cells is dropped, nothing is reordered -/
theorem dropEmptyRowsFrom_sublist (rowSpan : α → Int) : ∀ (rows : List (List α)) (reach : Nat),
    (dropEmptyRowsFrom rowSpan reach rows).Sublist rows
  | [], _ => List.Sublist.slnil
  | r :: rs, reach => by
      unfold dropEmptyRowsFrom
      split
      · exact (dropEmptyRowsFrom_sublist rowSpan rs reach).cons _
      · exact (dropEmptyRowsFrom_sublist rowSpan rs _).cons_cons _

/-- a table whose rows all have cells is kept as it is -/
theorem dropEmptyRowsFrom_nonEmpty (rowSpan : α → Int) : ∀ (rows : List (List α)) (reach : Nat),
    (∀ r ∈ rows, r ≠ []) → dropEmptyRowsFrom rowSpan reach rows = rows
  | [], _, _ => rfl
  | r :: rs, reach, h => by
      have hr : r ≠ [] := h r (by simp)
      unfold dropEmptyRowsFrom
      have : ¬ (r.isEmpty = true ∧ reach = 0) := by
        intro hh; exact hr (by simpa using hh.1)
      rw [if_neg this]
      simp only []
      rw [dropEmptyRowsFrom_nonEmpty rowSpan rs _ (fun x hx => h x (List.mem_cons_of_mem _ hx))]

/-- a row without cells that a rowspan from above reaches is kept -/
theorem dropEmptyRowsFrom_reached (rowSpan : α → Int) (reach : Nat) (rs : List (List α)) :
    dropEmptyRowsFrom rowSpan (reach + 1) ([] :: rs) = [] :: dropEmptyRowsFrom rowSpan reach rs := by
  rw [dropEmptyRowsFrom]
  simp

theorem foldl_reach_noSpan (rowSpan : α → Int) : ∀ (r : List α) (m : Nat),
    (∀ c ∈ r, cellSpan (rowSpan c) = 1) →
      r.foldl (fun m c => if cellSpan (rowSpan c) - 1 > m then cellSpan (rowSpan c) - 1 else m) m = m
  | [], _, _ => rfl
  | c :: cs, m, h => by
      have hc := h c (by simp)
      simp only [List.foldl_cons, hc]
      have : ¬ (1 - 1 > m) := by omega
      rw [if_neg this]
      exact foldl_reach_noSpan rowSpan cs m (fun x hx => h x (List.mem_cons_of_mem _ hx))

/-- **without rowspans** `dropEmptyRows` is what parseTable did before: the rows without cells
are dropped, all of them -/
theorem dropEmptyRows_noRowSpan (rowSpan : α → Int) : ∀ (rows : List (List α)),
    (∀ r ∈ rows, ∀ c ∈ r, cellSpan (rowSpan c) = 1) →
      dropEmptyRowsFrom rowSpan 0 rows = rows.filter (fun r => !r.isEmpty)
  | [], _ => rfl
  | r :: rs, h => by
      have ih := dropEmptyRows_noRowSpan rowSpan rs (fun x hx => h x (List.mem_cons_of_mem _ hx))
      unfold dropEmptyRowsFrom
      by_cases he : r.isEmpty = true
      · simp [he, ih]
      · have : ¬ (r.isEmpty = true ∧ (0 : Nat) = 0) := fun hh => he hh.1
        rw [if_neg this]
        simp only [Nat.zero_sub]
        rw [foldl_reach_noSpan rowSpan r 0 (h r (by simp)), ih]
        simp [he]

end Tabula.HtmlGrid
