import TabulaModel.Lemmas.XrefExpand
import TabulaModel.Lemmas.XrefResolveGen
/-!
# `resolver.ResolveDeep` answers the plain tree unfolding

`resolveP … deep := true` (resolver/resolver.go `resolve`) shares results (`done`, with the levels
`need` a result stands for), marks the objects on the way by number (`visited`) and ranges over
dictionaries in Go's map order (`ord`). None of it is visible: from outside (depth counter 0) the
answer is `expand g true maxDepth obj` - the unfolding with no memory at all - an error iff the
unfolding fails (a level `≥ maxDepth` somewhere, a reference cycle, a failing lookup).

* `resolveP_deep_eq_expand` - the statement; `resolveP_inner` - the invariant form below the top
  level (`done` sound with exact `need`, `visited` = references the object stands below, `reach`
  raised by exactly the levels needed);
* `resolveP_order_free` - no dependence on `ord` (nor on the resolver's history);
* `resolveP_arr_none_iff`, `resolveP_arr_perm` - no masking by the order of array elements;
* `resolveP_shallow` - `Resolve`.

Dictionaries are Go maps: distinct keys (`WF`), also in the objects of the file (`hg`).
Helpers live in `Tabula.XrefR.PDeep`. Core Lean only.
-/
namespace Tabula.XrefR
open Tabula.Reader (PVal)
open Tabula.XrefFile (Str)

/-- all dictionaries (also those of streams) have pairwise distinct keys - they are Go maps -/
inductive WF : DObj → Prop
  | null : WF .null
  | bool (b : Bool) : WF (.bool b)
  | int (i : Int) : WF (.int i)
  | real (n : Bool) (m s : Nat) : WF (.real n m s)
  | str (s : Str) : WF (.str s)
  | name (s : Str) : WF (.name s)
  | arr {xs : List DObj} : (∀ e ∈ xs, WF e) → WF (.arr xs)
  | dict {kv : List (Str × DObj)} : (kv.map Prod.fst).Nodup → (∀ e ∈ kv.map Prod.snd, WF e) → WF (.dict kv)
  | ref (n g : Int) : WF (.ref n g)
  | stream {kv : List (Str × DObj)} {data : Str} : (kv.map Prod.fst).Nodup → (∀ e ∈ kv.map Prod.snd, WF e) →
      WF (.stream kv data)

/-- `o` has the deep value `v` and needs exactly `k` levels below its own -/
def Hgt (g : Int → Option PVal) (o : DObj) (k : Nat) (v : DObj) : Prop :=
  expand g true (k + 1) o = some v ∧ expand g true k o = none

/-- every shared result is the deep value of its reference, with the levels it needs -/
def DoneOkP (g : Int → Option PVal) (done : List (Ref × (DObj × Nat))) : Prop :=
  ∀ r res need, done.lookup r = some (res, need) → Hgt g (.ref r.1 r.2) need res

/-- every object number marked as visited belongs to a reference the current object stands below -/
def VisitedOk (g : Int → Option PVal) (visited : List Int) (obj : DObj) : Prop :=
  ∀ n ∈ visited, ∃ gen, Below g true (.ref n gen) obj

namespace PDeep

/-! ## `strLt` is a strict total order -/

theorem strLt_irrefl : ∀ a : Str, strLt a a = false
  | [] => rfl
  | x :: xs => by
    simp only [strLt, Nat.lt_irrefl, if_false]
    exact strLt_irrefl xs

theorem strLt_trans : ∀ a b c : Str, strLt a b = true → strLt b c = true → strLt a c = true
  | [], [], _, h, _ => by simp [strLt] at h
  | [], _ :: _, [], _, h => by simp [strLt] at h
  | [], _ :: _, _ :: _, _, _ => rfl
  | _ :: _, [], _, h, _ => by simp [strLt] at h
  | _ :: _, _ :: _, [], _, h => by simp [strLt] at h
  | x :: xs, y :: ys, z :: zs, h1, h2 => by
    simp only [strLt] at h1 h2 ⊢
    by_cases hxy : x < y
    · by_cases hyz : y < z
      · have : x < z := by omega
        simp only [this, if_true]
      · simp only [hyz, if_false] at h2
        by_cases hzy : z < y
        · simp only [hzy, if_true] at h2; cases h2
        · have : x < z := by omega
          simp only [this, if_true]
    · simp only [hxy, if_false] at h1
      by_cases hyx : y < x
      · simp only [hyx, if_true] at h1; cases h1
      · simp only [hyx, if_false] at h1
        have hxy' : x = y := by omega
        subst hxy'
        by_cases hyz : x < z
        · simp only [hyz, if_true]
        · simp only [hyz, if_false] at h2 ⊢
          by_cases hzy : z < x
          · simp only [hzy, if_true] at h2; cases h2
          · simp only [hzy, if_false] at h2 ⊢
            exact strLt_trans xs ys zs h1 h2

theorem strLt_tri : ∀ a b : Str, a ≠ b → strLt a b = true ∨ strLt b a = true
  | [], [], h => absurd rfl h
  | [], _ :: _, _ => Or.inl rfl
  | _ :: _, [], _ => Or.inr rfl
  | x :: xs, y :: ys, h => by
    simp only [strLt]
    by_cases hxy : x < y
    · left; simp only [hxy, if_true]
    · by_cases hyx : y < x
      · right; simp only [hyx, if_true]
      · simp only [hxy, hyx, if_false]
        have e : x = y := by omega
        subst e
        exact strLt_tri xs ys (fun h' => h (by rw [h']))

theorem strLt_asymm (a b : Str) (h : strLt a b = true) : strLt b a = false := by
  cases h' : strLt b a with
  | false => rfl
  | true =>
    have := strLt_trans a b a h h'
    rw [strLt_irrefl] at this
    cases this

/-! ## the sorted entries do not depend on the order they came in -/

theorem insertKV_comm (a b : Str × DObj) (hab : a.1 ≠ b.1) :
    ∀ l, insertKV a (insertKV b l) = insertKV b (insertKV a l)
  | [] => by
    simp only [insertKV]
    cases strLt_tri a.1 b.1 hab with
    | inl h => simp only [h, if_true, strLt_asymm _ _ h, Bool.false_eq_true, if_false]
    | inr h => simp only [h, if_true, strLt_asymm _ _ h, Bool.false_eq_true, if_false]
  | q :: r => by
    simp only [insertKV]
    by_cases haq : strLt a.1 q.1 = true
    · by_cases hbq : strLt b.1 q.1 = true
      · simp only [haq, hbq, if_true, insertKV]
        cases strLt_tri a.1 b.1 hab with
        | inl h => simp only [h, if_true, strLt_asymm _ _ h, Bool.false_eq_true, if_false]
        | inr h => simp only [h, if_true, strLt_asymm _ _ h, Bool.false_eq_true, if_false]
      · have hba : strLt b.1 a.1 = false := by
          cases h : strLt b.1 a.1 with
          | false => rfl
          | true => exact absurd (strLt_trans _ _ _ h haq) hbq
        simp only [haq, hbq, if_true, Bool.false_eq_true, if_false, insertKV, hba]
    · by_cases hbq : strLt b.1 q.1 = true
      · have hab' : strLt a.1 b.1 = false := by
          cases h : strLt a.1 b.1 with
          | false => rfl
          | true => exact absurd (strLt_trans _ _ _ h hbq) haq
        simp only [haq, hbq, if_true, Bool.false_eq_true, if_false, insertKV, hab']
      · simp only [haq, hbq, Bool.false_eq_true, if_false, insertKV]
        rw [insertKV_comm a b hab r]

theorem sortKV_perm {l₁ l₂ : List (Str × DObj)} (h : l₁.Perm l₂) (hn : (l₁.map Prod.fst).Nodup) :
    sortKV l₁ = sortKV l₂ := by
  induction h with
  | nil => rfl
  | cons x _ ih =>
    simp only [sortKV]
    rw [ih (List.nodup_cons.mp hn).2]
  | swap x y l =>
    simp only [sortKV]
    apply insertKV_comm
    simp only [List.map_cons, List.nodup_cons, List.mem_cons, not_or] at hn
    exact hn.1.1
  | trans h1 _ ih1 ih2 =>
    rw [ih1 hn]
    exact ih2 ((h1.map Prod.fst).nodup_iff.mp hn)


/-! ## `mapOpt` -/

theorem mapOpt_cons_none {f : DObj → Option DObj} {e : DObj} {es : List DObj} (h : f e = none) :
    mapOpt f (e :: es) = none := by
  simp only [mapOpt, h]

theorem mapOpt_cons_some {f : DObj → Option DObj} {e e' : DObj} {es : List DObj} (h : f e = some e') :
    mapOpt f (e :: es) = (mapOpt f es).map (e' :: ·) := by
  simp only [mapOpt, h]

theorem mapOpt_eq_none_iff {f : DObj → Option DObj} : ∀ {xs : List DObj},
    mapOpt f xs = none ↔ ∃ e ∈ xs, f e = none
  | [] => ⟨fun h => (by cases h), fun h => (by obtain ⟨e, he, _⟩ := h; cases he)⟩
  | x :: xs => by
    cases hx : f x with
    | none => exact ⟨fun _ => ⟨x, List.mem_cons_self .., hx⟩, fun _ => mapOpt_cons_none hx⟩
    | some x' =>
      rw [mapOpt_cons_some hx, Option.map_eq_none_iff, mapOpt_eq_none_iff (xs := xs)]
      constructor
      · intro h
        obtain ⟨e, he, hn⟩ := h
        exact ⟨e, List.mem_cons_of_mem _ he, hn⟩
      · intro h
        obtain ⟨e, he, hn⟩ := h
        cases he with
        | head => rw [hx] at hn; cases hn
        | tail _ he' => exact ⟨e, he', hn⟩

theorem mapOpt_mono_le {g : Int → Option PVal} {b b' : Nat} (hb : b ≤ b') {xs ys : List DObj}
    (h : mapOpt (expand g true b) xs = some ys) : mapOpt (expand g true b') xs = some ys :=
  mapOpt_congr h (fun e _ v hv => expand_mono_le g true b b' hb e v hv)

/-- the entries of a dictionary with their values mapped: all, or nothing -/
def mapKV (f : DObj → Option DObj) : List (Str × DObj) → Option (List (Str × DObj))
  | [] => some []
  | p :: r =>
    match f p.2 with
    | none => none
    | some v' => (mapKV f r).map ((p.1, v') :: ·)

theorem mapKV_eq (f : DObj → Option DObj) : ∀ kv : List (Str × DObj),
    (mapOpt f (kv.map Prod.snd)).map (fun ys => (kv.map Prod.fst).zip ys) = mapKV f kv
  | [] => rfl
  | p :: r => by
    simp only [List.map_cons, mapOpt, mapKV]
    cases f p.2 with
    | none => rfl
    | some v' =>
      simp only
      rw [← mapKV_eq f r]
      cases mapOpt f (r.map Prod.snd) with
      | none => rfl
      | some ys => rfl

theorem mapKV_keys {f : DObj → Option DObj} : ∀ {kv l : List (Str × DObj)}, mapKV f kv = some l →
    l.map Prod.fst = kv.map Prod.fst
  | [], l, h => by cases h; rfl
  | p :: r, l, h => by
    simp only [mapKV] at h
    cases hp : f p.2 with
    | none => rw [hp] at h; cases h
    | some v' =>
      rw [hp] at h
      cases hr : mapKV f r with
      | none => rw [hr] at h; cases h
      | some l' =>
        rw [hr] at h
        cases h
        simp only [List.map_cons, mapKV_keys hr]

/-- both fail, or both succeed with the same entries in some order -/
def OptPerm : Option (List (Str × DObj)) → Option (List (Str × DObj)) → Prop
  | none, none => True
  | some x, some y => x.Perm y
  | _, _ => False

theorem OptPerm.trans' : ∀ {a b c : Option (List (Str × DObj))}, OptPerm a b → OptPerm b c → OptPerm a c
  | none, none, none, _, _ => trivial
  | some _, some _, some _, h1, h2 => List.Perm.trans h1 h2
  | none, none, some _, _, h => h.elim
  | none, some _, _, h, _ => h.elim
  | some _, none, _, h, _ => h.elim
  | some _, some _, none, _, h => h.elim

theorem OptPerm.map_cons (p : Str × DObj) : ∀ {a b : Option (List (Str × DObj))}, OptPerm a b →
    OptPerm (a.map (p :: ·)) (b.map (p :: ·))
  | none, none, _ => trivial
  | some _, some _, h => List.Perm.cons p h
  | none, some _, h => h.elim
  | some _, none, h => h.elim

theorem OptPerm.refl' : ∀ a : Option (List (Str × DObj)), OptPerm a a
  | none => trivial
  | some _ => List.Perm.refl _

theorem mapKV_perm (f : DObj → Option DObj) {kv₁ kv₂ : List (Str × DObj)} (h : kv₁.Perm kv₂) :
    OptPerm (mapKV f kv₁) (mapKV f kv₂) := by
  induction h with
  | nil => exact OptPerm.refl' _
  | cons x _ ih =>
    simp only [mapKV]
    cases f x.2 with
    | none => trivial
    | some v' => exact OptPerm.map_cons _ ih
  | swap x y l =>
    simp only [mapKV]
    cases f x.2 with
    | none => cases f y.2 <;> trivial
    | some vx =>
      cases f y.2 with
      | none => trivial
      | some vy =>
        simp only
        cases mapKV f l with
        | none => trivial
        | some l' => exact List.Perm.swap _ _ _
  | trans _ _ ih1 ih2 => exact OptPerm.trans' ih1 ih2

theorem expand_dict_eq (g : Int → Option PVal) (b : Nat) (kv : List (Str × DObj)) :
    expand g true (b + 1) (.dict kv) = (mapKV (expand g true b) kv).map fun l => .dict (sortKV l) := by
  simp only [expand]
  rw [← mapKV_eq]
  cases mapOpt (expand g true b) (kv.map Prod.snd) <;> rfl

/-- the deep value of a dictionary (distinct keys) does not depend on the order of its entries -/
theorem expand_dict_perm (g : Int → Option PVal) {kv₁ kv₂ : List (Str × DObj)} (h : kv₁.Perm kv₂)
    (hn : (kv₁.map Prod.fst).Nodup) (b : Nat) :
    expand g true b (.dict kv₁) = expand g true b (.dict kv₂) := by
  cases b with
  | zero => rfl
  | succ b =>
    rw [expand_dict_eq, expand_dict_eq]
    have hp := mapKV_perm (expand g true b) h
    cases h1 : mapKV (expand g true b) kv₁ with
    | none =>
      rw [h1] at hp
      cases h2 : mapKV (expand g true b) kv₂ with
      | none => rfl
      | some _ => rw [h2] at hp; exact hp.elim
    | some l₁ =>
      rw [h1] at hp
      cases h2 : mapKV (expand g true b) kv₂ with
      | none => rw [h2] at hp; exact hp.elim
      | some l₂ =>
        rw [h2] at hp
        simp only [Option.map_some]
        rw [sortKV_perm hp (by rw [mapKV_keys h1]; exact hn)]



/-! ## heights -/

theorem hgt_of_expand (g : Int → Option PVal) (o v : DObj) : ∀ b, expand g true b o = some v →
    ∃ k, k < b ∧ Hgt g o k v
  | 0, h => by cases h
  | b + 1, h => by
    cases hb : expand g true b o with
    | none => exact ⟨b, Nat.lt_succ_self _, h, hb⟩
    | some v' =>
      have e := expand_unique g true _ _ o _ _ hb h
      subst e
      obtain ⟨k, hk, hh⟩ := hgt_of_expand g o v' b hb
      exact ⟨k, by omega, hh⟩

theorem hgt_some {g : Int → Option PVal} {o v : DObj} {k : Nat} (h : Hgt g o k v) {b : Nat} (hb : k < b) :
    expand g true b o = some v :=
  expand_mono_le g true (k + 1) b hb o v h.1

theorem hgt_none {g : Int → Option PVal} {o v : DObj} {k : Nat} (h : Hgt g o k v) {b : Nat} (hb : b ≤ k) :
    expand g true b o = none := by
  cases hb' : expand g true b o with
  | none => rfl
  | some v' =>
    have := expand_mono_le g true b k hb o v' hb'
    rw [h.2] at this
    cases this

theorem hgt_of_some {g : Int → Option PVal} {o v v' : DObj} {k : Nat} (h : Hgt g o k v) {b : Nat}
    (hb : expand g true b o = some v') : k < b ∧ v' = v := by
  by_cases hk : k < b
  · rw [hgt_some h hk] at hb
    exact ⟨hk, (Option.some.inj hb).symm⟩
  · rw [hgt_none h (Nat.le_of_not_lt hk)] at hb
    cases hb

theorem expand_ref_some {g : Int → Option PVal} {n : Int} {t : PVal} (hg : g n = some t) (b : Nat) (gen : Int) :
    expand g true (b + 1) (.ref n gen) = expand g true b (ofPVal t) := by
  simp only [expand, hg]

theorem expand_ref_none {g : Int → Option PVal} {n : Int} (hg : g n = none) (b : Nat) (gen : Int) :
    expand g true b (.ref n gen) = none := by
  cases b with
  | zero => rfl
  | succ b => simp only [expand, hg]

theorem hgt_ref {g : Int → Option PVal} {n : Int} {t : PVal} (hg : g n = some t) (gen : Int) {k : Nat} {v : DObj}
    (h : Hgt g (ofPVal t) k v) : Hgt g (.ref n gen) (k + 1) v :=
  ⟨by rw [expand_ref_some hg]; exact h.1, by rw [expand_ref_some hg]; exact h.2⟩

theorem hgt_scalar {g : Int → Option PVal} {o : DObj} (h : ∀ b, expand g true (b + 1) o = some o) : Hgt g o 0 o :=
  ⟨h 0, rfl⟩

/-! ## cycles: the way out of a reference depends on its number only -/

theorem below_ref_gen {g : Int → Option PVal} {n gen gen' : Int} {o : DObj} (h : Below g true (.ref n gen) o) :
    Below g true (.ref n gen') o := by
  cases h with
  | one hc => cases hc with | ref hg => exact .one (.ref hg)
  | cons hc hb => cases hc with | ref hg => exact .cons (.ref hg) hb

theorem visited_none {g : Int → Option PVal} {vis : List Int} {n gen : Int} (hv : VisitedOk g vis (.ref n gen))
    (hn : n ∈ vis) (b : Nat) : expand g true b (.ref n gen) = none := by
  obtain ⟨gen', hb⟩ := hv n hn
  exact expand_cycle g true _ (below_ref_gen hb) b

theorem visitedOk_child {g : Int → Option PVal} {vis : List Int} {o o' : DObj} (hv : VisitedOk g vis o)
    (hc : Child g true o o') : VisitedOk g vis o' := by
  intro n hn
  obtain ⟨gen, hb⟩ := hv n hn
  exact ⟨gen, hb.snoc hc⟩

theorem visitedOk_ref_child {g : Int → Option PVal} {vis : List Int} {n gen : Int} {t : PVal}
    (hv : VisitedOk g vis (.ref n gen)) (hg : g n = some t) : VisitedOk g (n :: vis) (ofPVal t) := by
  intro m hm
  cases hm with
  | head => exact ⟨gen, .one (.ref hg)⟩
  | tail _ hm' => exact (visitedOk_child hv (.ref hg)) m hm'

theorem visitedOk_nil (g : Int → Option PVal) (o : DObj) : VisitedOk g [] o := by
  intro n hn; cases hn

/-! ## shared results -/

theorem doneOkP_nil (g : Int → Option PVal) : DoneOkP g [] := by
  intro r res need h; cases h

theorem doneOkP_cons {g : Int → Option PVal} {done : List (Ref × (DObj × Nat))} (hd : DoneOkP g done)
    {n gen : Int} {res : DObj} {need : Nat} (h : Hgt g (.ref n gen) need res) :
    DoneOkP g (((n, gen), (res, need)) :: done) := by
  intro r res' need' hl
  rw [List.lookup_cons] at hl
  by_cases e : r = (n, gen)
  · subst e
    simp only [BEq.rfl] at hl
    cases hl
    exact h
  · have : (r == (n, gen)) = false := by
      cases hb : r == (n, gen) with
      | false => rfl
      | true => exact absurd (eq_of_beq hb) e
    rw [this] at hl
    exact hd r res' need' hl

theorem erase_head (n : Int) (l : List Int) : (n :: l).erase n = l := by
  simp only [List.erase_cons_head]


/-! ## one call: what it answers and what it leaves -/

/-- what a successful call leaves: marks and depth as they were, `reach` raised to exactly `k` levels
below the current one, shared results sound -/
def Good (g : Int → Option PVal) (q : PSt) (k : Nat) (r : PSt) : Prop :=
  r.visited = q.visited ∧ r.depth = q.depth ∧ r.reach = max q.reach (q.depth + k) ∧ DoneOkP g r.done

/-- the call answers the unfolding with `b` levels -/
def PostB (g : Int → Option PVal) (b : Nat) (obj : DObj) (p : PSt) (r : Option DObj × PSt × Unit) : Prop :=
  (expand g true b obj = none → r.1 = none) ∧
  (∀ v, expand g true b obj = some v → ∃ k, Hgt g obj k v ∧ r.1 = some v ∧ Good g p k r.2.1)

/-- the nested call (one level down from depth `d`) answers the unfolding with the levels left -/
def DownSpec (g : Int → Option PVal) (md d : Nat) (down : DObj → PSt → Unit → Option DObj × PSt × Unit) : Prop :=
  ∀ e q, q.depth = d → WF e → DoneOkP g q.done → VisitedOk g q.visited e →
    (expand g true (md - (d + 1)) e = none → (down e q ()).1 = none) ∧
    (∀ v, expand g true (md - (d + 1)) e = some v →
      ∃ k, Hgt g e k v ∧ (down e q ()).1 = some v ∧ Good g q (k + 1) (down e q ()).2.1)

/-- the elements `xs` have the deep values `ys` and need exactly `H` levels below their container's -/
def LHgt (g : Int → Option PVal) (xs : List DObj) (H : Nat) (ys : List DObj) : Prop :=
  mapOpt (expand g true H) xs = some ys ∧ ∀ j, H = j + 1 → mapOpt (expand g true j) xs = none

theorem hgt_of_lhgt {g : Int → Option PVal} {o : DObj} {xs : List DObj} {w : List DObj → DObj}
    (hexp : ∀ b, expand g true (b + 1) o = (mapOpt (expand g true b) xs).map w) {H : Nat} {ys : List DObj}
    (h : LHgt g xs H ys) : Hgt g o H (w ys) := by
  constructor
  · rw [hexp, h.1]; rfl
  · cases H with
    | zero => rfl
    | succ j => rw [hexp, h.2 j rfl]; rfl

theorem foldP_spec {g : Int → Option PVal} {md d : Nat} {down : DObj → PSt → Unit → Option DObj × PSt × Unit}
    (hd : DownSpec g md d down) : ∀ (xs : List DObj) (q : PSt), q.depth = d → q.depth ≤ q.reach → (∀ e ∈ xs, WF e) →
      DoneOkP g q.done → (∀ e ∈ xs, VisitedOk g q.visited e) →
      (mapOpt (expand g true (md - (d + 1))) xs = none → (foldP down xs q ()).1 = none) ∧
      (∀ ys, mapOpt (expand g true (md - (d + 1))) xs = some ys →
        ∃ H, LHgt g xs H ys ∧ (foldP down xs q ()).1 = some ys ∧ Good g q H (foldP down xs q ()).2.1) := by
  intro xs
  induction xs with
  | nil =>
    intro q hq hqr _ hdone _
    refine ⟨fun h => (by cases h), fun ys hys => ?_⟩
    cases hys
    exact ⟨0, ⟨rfl, fun j hj => (by cases hj)⟩, rfl, rfl, rfl, by simp only [foldP]; omega, hdone⟩
  | cons e es ih =>
    intro q hq hqr hwf hdone hvis
    have he := hd e q hq (hwf e (List.mem_cons_self ..)) hdone (hvis e (List.mem_cons_self ..))
    simp only [foldP]
    generalize down e q () = x at he
    obtain ⟨a, q', ⟨⟩⟩ := x
    cases hfe : expand g true (md - (d + 1)) e with
    | none =>
      have ha := he.1 hfe
      simp only at ha
      subst ha
      refine ⟨fun _ => rfl, fun ys hys => ?_⟩
      rw [mapOpt_cons_none hfe] at hys
      cases hys
    | some e' =>
      obtain ⟨k, hk, ha, hv, hdp, hr, hdn⟩ := he.2 e' hfe
      simp only at ha hv hdp hr hdn
      subst ha
      have ih' := ih q' (hdp.trans hq) (by rw [hr, hdp]; omega) (fun e he => hwf e (List.mem_cons_of_mem _ he)) hdn
        (fun e he => by rw [hv]; exact hvis e (List.mem_cons_of_mem _ he))
      simp only
      generalize foldP down es q' () = y at ih'
      obtain ⟨a2, q'', ⟨⟩⟩ := y
      rw [mapOpt_cons_some hfe]
      cases hm : mapOpt (expand g true (md - (d + 1))) es with
      | none =>
        have ha2 := ih'.1 hm
        simp only at ha2
        subst ha2
        exact ⟨fun _ => rfl, fun ys hys => by cases hys⟩
      | some ys' =>
        obtain ⟨H, hL, ha2, hv2, hdp2, hr2, hdn2⟩ := ih'.2 ys' hm
        simp only at ha2 hv2 hdp2 hr2 hdn2
        subst ha2
        refine ⟨fun h => (by cases h), fun ys hys => ?_⟩
        cases hys
        refine ⟨max (k + 1) H, ⟨?_, ?_⟩, rfl, hv2.trans hv, hdp2.trans hdp, ?_, hdn2⟩
        · rw [mapOpt_cons_some (hgt_some hk (by omega : k < max (k + 1) H)),
            mapOpt_mono_le (by omega : H ≤ max (k + 1) H) hL.1]
          rfl
        · intro j hj
          by_cases hjk : j ≤ k
          · exact mapOpt_cons_none (hgt_none hk hjk)
          · rw [mapOpt_cons_some (hgt_some hk (by omega : k < j)), hL.2 j (by omega)]
            rfl
        · simp only
          rw [hr2, hr, hdp]
          omega


theorem postB_container {g : Int → Option PVal} {o : DObj} {xs : List DObj} {w : List DObj → DObj} {B : Nat}
    (hexp : ∀ b, expand g true (b + 1) o = (mapOpt (expand g true b) xs).map w)
    {pr p : PSt} (hp1 : p.visited = pr.visited) (hp2 : p.depth = pr.depth) (hp3 : p.reach = max pr.reach pr.depth)
    {r : Option (List DObj) × PSt × Unit}
    (hf : (mapOpt (expand g true B) xs = none → r.1 = none) ∧
      (∀ ys, mapOpt (expand g true B) xs = some ys → ∃ H, LHgt g xs H ys ∧ r.1 = some ys ∧ Good g p H r.2.1)) :
    PostB g (B + 1) o pr (r.1.map w, r.2) := by
  obtain ⟨a, q', ⟨⟩⟩ := r
  unfold PostB
  rw [hexp]
  cases hm : mapOpt (expand g true B) xs with
  | none =>
    have ha := hf.1 hm
    simp only at ha
    subst ha
    exact ⟨fun _ => rfl, fun v hv => (by cases hv)⟩
  | some ys =>
    obtain ⟨H, hL, ha, hv, hdp, hr, hdn⟩ := hf.2 ys hm
    simp only at ha hv hdp hr hdn
    subst ha
    refine ⟨fun h => (by cases h), fun v hv' => ?_⟩
    cases hv'
    refine ⟨H, hgt_of_lhgt hexp hL, rfl, hv.trans hp1, hdp.trans hp2, ?_, hdn⟩
    simp only
    rw [hr, hp2, hp3]
    omega

theorem stepP_post (g : Int → Option PVal) (md : Nat) (ord : List (Str × DObj) → List (Str × DObj))
    (hord : ∀ kv, (ord kv).Perm kv) (hg : ∀ n t, g n = some t → WF (ofPVal t))
    (down : DObj → PSt → Unit → Option DObj × PSt × Unit) (pr : PSt) (hdown : DownSpec g md pr.depth down)
    (obj : DObj) (hwf : WF obj) (hdone : DoneOkP g pr.done) (hvis : VisitedOk g pr.visited obj) (p0 : PSt)
    (hpr : (if p0.depth = 0 then ({ visited := [], done := [], reach := 0, depth := 0 } : PSt) else p0) = pr) :
    PostB g (md - pr.depth) obj pr (stepP (pureGet g) md ord true down obj p0 ()) := by
  simp only [stepP, hpr]
  by_cases hge : pr.depth ≥ md
  · simp only [hge, if_true]
    have h0 : md - pr.depth = 0 := by omega
    rw [h0]
    exact ⟨fun _ => rfl, fun v hv => (by cases hv)⟩
  · simp only [hge, if_false]
    have hB : md - pr.depth = (md - (pr.depth + 1)) + 1 := by omega
    rw [hB]
    cases obj with
    | ref n gen =>
      simp only [if_true]
      cases hl : List.lookup (n, gen) pr.done with
      | some rn =>
        obtain ⟨res, need⟩ := rn
        have hh : Hgt g (.ref n gen) need res := hdone (n, gen) res need hl
        simp only
        by_cases hn : pr.depth + need ≥ md
        · simp only [hn, if_true]
          refine ⟨fun _ => rfl, fun v hv => ?_⟩
          have := (hgt_of_some hh hv).1
          omega
        · simp only [hn, if_false]
          refine ⟨fun h => ?_, fun v hv => ?_⟩
          · rw [hgt_some hh (by omega)] at h
            cases h
          · have e := (hgt_of_some hh hv).2
            subst e
            exact ⟨need, hh, rfl, rfl, rfl, by simp only; omega, hdone⟩
      | none =>
        simp only
        by_cases hc : pr.visited.contains n = true
        · simp only [hc, if_true]
          have hnone := visited_none hvis (List.contains_iff_mem.mp hc) (md - (pr.depth + 1) + 1)
          refine ⟨fun _ => rfl, fun v hv => ?_⟩
          rw [hnone] at hv
          cases hv
        · simp only [hc, Bool.false_eq_true, if_false, pureGet]
          cases hgn : g n with
          | none =>
            simp only
            refine ⟨fun _ => rfl, fun v hv => ?_⟩
            rw [expand_ref_none hgn] at hv
            cases hv
          | some t =>
            simp only
            have hs := hdown (ofPVal t) { visited := n :: pr.visited, done := pr.done, reach := pr.depth, depth := pr.depth }
              rfl (hg n t hgn) hdone (visitedOk_ref_child hvis hgn)
            generalize down (ofPVal t) _ () = x at hs ⊢
            obtain ⟨a, q', ⟨⟩⟩ := x
            unfold PostB
            rw [expand_ref_some hgn]
            cases he : expand g true (md - (pr.depth + 1)) (ofPVal t) with
            | none =>
              have ha := hs.1 he
              simp only at ha
              subst ha
              exact ⟨fun _ => rfl, fun v hv => (by cases hv)⟩
            | some v =>
              obtain ⟨k, hk, ha, hv, hdp, hr, hdn⟩ := hs.2 v he
              simp only at ha hv hdp hr hdn
              subst ha
              refine ⟨fun h => (by cases h), fun v' hv' => ?_⟩
              cases hv'
              have hneed : q'.reach - q'.depth = k + 1 := by rw [hr, hdp]; omega
              refine ⟨k + 1, hgt_ref hgn gen hk, rfl, ?_, hdp, ?_, ?_⟩
              · simp only [unmark, hv, List.erase_cons_head]
              · simp only [unmark]
                rw [hr]
                omega
              · simp only [unmark, hneed]
                exact doneOkP_cons hdn (hgt_ref hgn gen hk)
    | arr xs =>
      simp only [if_true]
      have hwf' : ∀ e ∈ xs, WF e := by cases hwf with | arr h => exact h
      exact postB_container (o := .arr xs) (xs := xs) (w := DObj.arr) (pr := pr) (p := { visited := pr.visited, done := pr.done, reach := max pr.reach pr.depth, depth := pr.depth }) (fun b => by simp only [expand]) rfl rfl rfl
        (foldP_spec hdown xs { visited := pr.visited, done := pr.done, reach := max pr.reach pr.depth, depth := pr.depth } rfl (Nat.le_max_right _ _) hwf' hdone (fun e he => visitedOk_child hvis (.arr he)))
    | dict kv =>
      simp only [if_true]
      have hperm := hord kv
      have hwf' : (kv.map Prod.fst).Nodup ∧ ∀ e ∈ kv.map Prod.snd, WF e := by
        cases hwf with | dict h1 h2 => exact ⟨h1, h2⟩
      have hex : ∀ b, expand g true b (.dict kv) = expand g true b (.dict (ord kv)) :=
        fun b => expand_dict_perm g hperm.symm hwf'.1 b
      have hpost : PostB g (md - (pr.depth + 1) + 1) (.dict (ord kv)) pr
          (Option.map (fun ys => DObj.dict (sortKV ((List.map Prod.fst (ord kv)).zip ys)))
            (foldP down (List.map Prod.snd (ord kv))
                { visited := pr.visited, done := pr.done, reach := max pr.reach pr.depth, depth := pr.depth } ()).fst,
          (foldP down (List.map Prod.snd (ord kv))
              { visited := pr.visited, done := pr.done, reach := max pr.reach pr.depth, depth := pr.depth } ()).snd) :=
        postB_container (o := .dict (ord kv)) (xs := (ord kv).map Prod.snd) (pr := pr) (p := { visited := pr.visited, done := pr.done, reach := max pr.reach pr.depth, depth := pr.depth }) (fun b => by simp only [expand]) rfl rfl rfl
          (foldP_spec hdown _ { visited := pr.visited, done := pr.done, reach := max pr.reach pr.depth, depth := pr.depth } rfl (Nat.le_max_right _ _)
            (fun e he => hwf'.2 e (((hperm.map Prod.snd).mem_iff).mp he)) hdone
            (fun e he => visitedOk_child hvis (.dict (((hperm.map Prod.snd).mem_iff).mp he))))
      unfold PostB at hpost ⊢
      unfold Hgt at hpost ⊢
      simp only [hex]
      exact hpost
    | stream kv data =>
      simp only [if_true]
      have hwf' : WF (.dict kv) := by cases hwf with | stream h1 h2 => exact .dict h1 h2
      have hs := hdown (.dict kv) { visited := pr.visited, done := pr.done, reach := max pr.reach pr.depth, depth := pr.depth }
        rfl hwf' hdone (visitedOk_child hvis (.stream rfl))
      generalize down (.dict kv) _ () = x at hs ⊢
      obtain ⟨a, q', ⟨⟩⟩ := x
      unfold PostB
      rw [expand_stream]
      simp only [if_true]
      cases he : expand g true (md - (pr.depth + 1)) (.dict kv) with
      | none =>
        have ha := hs.1 he
        simp only at ha
        subst ha
        exact ⟨fun _ => rfl, fun v hv => (by cases hv)⟩
      | some v =>
        obtain ⟨k, hk, ha, hv, hdp, hr, hdn⟩ := hs.2 v he
        simp only at ha hv hdp hr hdn
        subst ha
        cases v with
        | dict kv' =>
          refine ⟨fun h => (by cases h), fun v' hv' => ?_⟩
          cases hv'
          refine ⟨k + 1, ⟨?_, ?_⟩, rfl, hv, hdp, ?_, hdn⟩
          · rw [expand_stream, if_pos rfl, hk.1]
          · rw [expand_stream, if_pos rfl, hk.2]
          · simp only
            rw [hr]
            omega
        | _ => exact ⟨fun _ => rfl, fun v hv => (by cases hv)⟩
    | null =>
      have hgood : Good g pr 0 { visited := pr.visited, done := pr.done, reach := max pr.reach pr.depth, depth := pr.depth } :=
        ⟨rfl, rfl, by simp only; omega, hdone⟩
      refine ⟨fun h => (by cases h), fun v hv => ?_⟩
      cases hv
      exact ⟨0, ⟨rfl, rfl⟩, rfl, hgood⟩
    | bool _ =>
      have hgood : Good g pr 0 { visited := pr.visited, done := pr.done, reach := max pr.reach pr.depth, depth := pr.depth } :=
        ⟨rfl, rfl, by simp only; omega, hdone⟩
      refine ⟨fun h => (by cases h), fun v hv => ?_⟩
      cases hv
      exact ⟨0, ⟨rfl, rfl⟩, rfl, hgood⟩
    | int _ =>
      have hgood : Good g pr 0 { visited := pr.visited, done := pr.done, reach := max pr.reach pr.depth, depth := pr.depth } :=
        ⟨rfl, rfl, by simp only; omega, hdone⟩
      refine ⟨fun h => (by cases h), fun v hv => ?_⟩
      cases hv
      exact ⟨0, ⟨rfl, rfl⟩, rfl, hgood⟩
    | real _ _ _ =>
      have hgood : Good g pr 0 { visited := pr.visited, done := pr.done, reach := max pr.reach pr.depth, depth := pr.depth } :=
        ⟨rfl, rfl, by simp only; omega, hdone⟩
      refine ⟨fun h => (by cases h), fun v hv => ?_⟩
      cases hv
      exact ⟨0, ⟨rfl, rfl⟩, rfl, hgood⟩
    | str _ =>
      have hgood : Good g pr 0 { visited := pr.visited, done := pr.done, reach := max pr.reach pr.depth, depth := pr.depth } :=
        ⟨rfl, rfl, by simp only; omega, hdone⟩
      refine ⟨fun h => (by cases h), fun v hv => ?_⟩
      cases hv
      exact ⟨0, ⟨rfl, rfl⟩, rfl, hgood⟩
    | name _ =>
      have hgood : Good g pr 0 { visited := pr.visited, done := pr.done, reach := max pr.reach pr.depth, depth := pr.depth } :=
        ⟨rfl, rfl, by simp only; omega, hdone⟩
      refine ⟨fun h => (by cases h), fun v hv => ?_⟩
      cases hv
      exact ⟨0, ⟨rfl, rfl⟩, rfl, hgood⟩


/-- the state a call starts from: fresh maps when it comes from outside (depth counter 0) -/
def pre (p : PSt) : PSt :=
  if p.depth = 0 then ({ visited := [], done := [], reach := 0, depth := 0 } : PSt) else p

theorem pre_depth (p : PSt) : (pre p).depth = p.depth := by
  unfold pre
  by_cases h : p.depth = 0
  · simp only [h, if_true]
  · simp only [h, if_false]

theorem pre_pos (p : PSt) (h : p.depth ≠ 0) : pre p = p := by
  unfold pre
  simp only [h, if_false]

/-- the main statement: on every state that satisfies the invariants a call answers the unfolding
with the levels left, and keeps the invariants -/
theorem resolveP_post (g : Int → Option PVal) (md : Nat) (ord : List (Str × DObj) → List (Str × DObj))
    (hord : ∀ kv, (ord kv).Perm kv) (hg : ∀ n t, g n = some t → WF (ofPVal t)) :
    ∀ (fuel : Nat) (obj : DObj) (p : PSt), WF obj → DoneOkP g (pre p).done → VisitedOk g (pre p).visited obj →
      md + 1 ≤ fuel + p.depth →
      PostB g (md - p.depth) obj (pre p) (resolveP (pureGet g) md ord true fuel obj p ()) := by
  intro fuel
  induction fuel with
  | zero =>
    intro obj p _ _ _ hf
    have h0 : md - p.depth = 0 := by omega
    rw [h0]
    exact ⟨fun _ => rfl, fun v hv => (by cases hv)⟩
  | succ fuel ih =>
    intro obj p hwf hdone hvis hf
    rw [resolveP_succ, ← pre_depth p]
    apply stepP_post g md ord hord hg _ (pre p) _ obj hwf hdone hvis p rfl
    intro e q hq hwfe hdq hvq
    have hne : ({ q with depth := q.depth + 1 } : PSt).depth ≠ 0 := Nat.succ_ne_zero _
    have h := ih e { q with depth := q.depth + 1 } hwfe (by rw [pre_pos _ hne]; exact hdq)
      (by rw [pre_pos _ hne]; exact hvq) (by rw [pre_depth] at hq; simp only; omega)
    rw [pre_pos _ hne] at h
    have hb : md - ({ q with depth := q.depth + 1 } : PSt).depth = md - ((pre p).depth + 1) := by
      simp only; rw [hq]
    rw [hb] at h
    simp only [downP]
    refine ⟨h.1, fun v hv => ?_⟩
    obtain ⟨k, hk, ha, hv', hdp, hr, hdn⟩ := h.2 v hv
    refine ⟨k, hk, ha, hv', ?_, ?_, hdn⟩
    · simp only at hdp ⊢
      rw [hdp]
      omega
    · simp only at hr ⊢
      rw [hr]
      omega

end PDeep

open PDeep

/-- the inner form, as a call below the top level sees it (`0 < p.depth`: no reset): with the
invariants on `done` and `visited` the call fails iff the unfolding with the levels left fails;
when it succeeds it answers the deep value `v`, gives marks and depth counter back, leaves `reach`
raised to exactly the `k` levels `obj` needs (that is what makes a recorded `need` exact), and keeps
the shared results sound -/
theorem resolveP_inner (g : Int → Option PVal) (md : Nat) (ord : List (Str × DObj) → List (Str × DObj))
    (hord : ∀ kv, (ord kv).Perm kv) (hg : ∀ n t, g n = some t → WF (ofPVal t))
    (fuel : Nat) (obj : DObj) (p : PSt) (hwf : WF obj) (hpos : 0 < p.depth) (hdone : DoneOkP g p.done)
    (hvis : VisitedOk g p.visited obj) (hf : md + 1 ≤ fuel + p.depth) :
    match expand g true (md - p.depth) obj with
    | none => (resolveP (pureGet g) md ord true fuel obj p ()).1 = none
    | some v => ∃ k, Hgt g obj k v ∧ (resolveP (pureGet g) md ord true fuel obj p ()).1 = some v ∧
        (resolveP (pureGet g) md ord true fuel obj p ()).2.1.visited = p.visited ∧
        (resolveP (pureGet g) md ord true fuel obj p ()).2.1.depth = p.depth ∧
        (resolveP (pureGet g) md ord true fuel obj p ()).2.1.reach = max p.reach (p.depth + k) ∧
        DoneOkP g (resolveP (pureGet g) md ord true fuel obj p ()).2.1.done := by
  have hne : p.depth ≠ 0 := by omega
  have h := resolveP_post g md ord hord hg fuel obj p hwf (by rw [pre_pos _ hne]; exact hdone)
    (by rw [pre_pos _ hne]; exact hvis) hf
  rw [pre_pos _ hne] at h
  cases he : expand g true (md - p.depth) obj with
  | none => exact h.1 he
  | some v => exact h.2 v he

/-- **`resolver.ResolveDeep` answers the plain tree unfolding with `maxDepth` levels**: sharing
results (`done` with `need`) and marking by object number (`visited`) are invisible -/
theorem resolveP_deep_eq_expand (g : Int → Option PVal) (md : Nat) (ord : List (Str × DObj) → List (Str × DObj))
    (hord : ∀ kv, (ord kv).Perm kv) (obj : DObj) (hwf : WF obj)
    (hg : ∀ n t, g n = some t → WF (ofPVal t)) (p : PSt) (hp : p.depth = 0) :
    (resolveP (pureGet g) md ord true (md + 1) obj p ()).1 = expand g true md obj := by
  have hpre : pre p = ({ visited := [], done := [], reach := 0, depth := 0 } : PSt) := by
    unfold pre
    simp only [hp, if_true]
  have h := resolveP_post g md ord hord hg (md + 1) obj p hwf (by rw [hpre]; exact doneOkP_nil g)
    (by rw [hpre]; exact visitedOk_nil g obj) (by omega)
  rw [hp, Nat.sub_zero] at h
  cases he : expand g true md obj with
  | none => exact h.1 he
  | some v =>
    obtain ⟨k, _, ha, _⟩ := h.2 v he
    exact ha

/-- **the answer does not depend on the order in which Go ranges over a map** (nor on what the
resolver was used for before) -/
theorem resolveP_order_free (g : Int → Option PVal) (md : Nat) (ord₁ ord₂ : List (Str × DObj) → List (Str × DObj))
    (h₁ : ∀ kv, (ord₁ kv).Perm kv) (h₂ : ∀ kv, (ord₂ kv).Perm kv) (obj : DObj) (hwf : WF obj)
    (hg : ∀ n t, g n = some t → WF (ofPVal t)) (p₁ p₂ : PSt) (hp₁ : p₁.depth = 0) (hp₂ : p₂.depth = 0) :
    (resolveP (pureGet g) md ord₁ true (md + 1) obj p₁ ()).1
      = (resolveP (pureGet g) md ord₂ true (md + 1) obj p₂ ()).1 := by
  rw [resolveP_deep_eq_expand g md ord₁ h₁ obj hwf hg p₁ hp₁, resolveP_deep_eq_expand g md ord₂ h₂ obj hwf hg p₂ hp₂]

/-- an error of `ResolveDeep` is an error of the unfolding: a level `≥ maxDepth` somewhere, a
reference cycle, or a failing lookup - never an artefact of sharing -/
theorem resolveP_deep_none_iff (g : Int → Option PVal) (md : Nat) (ord : List (Str × DObj) → List (Str × DObj))
    (hord : ∀ kv, (ord kv).Perm kv) (obj : DObj) (hwf : WF obj)
    (hg : ∀ n t, g n = some t → WF (ofPVal t)) (p : PSt) (hp : p.depth = 0) :
    (resolveP (pureGet g) md ord true (md + 1) obj p ()).1 = none ↔ expand g true md obj = none := by
  rw [resolveP_deep_eq_expand g md ord hord obj hwf hg p hp]

/-- **no masking by the order of array elements**: an array fails iff one of its elements has no
deep value with the levels left - whatever stands before it and whatever was shared on the way; so
every rearrangement of the elements fails or succeeds alike -/
theorem resolveP_arr_none_iff (g : Int → Option PVal) (md : Nat) (ord : List (Str × DObj) → List (Str × DObj))
    (hord : ∀ kv, (ord kv).Perm kv) (xs : List DObj) (hwf : WF (.arr xs))
    (hg : ∀ n t, g n = some t → WF (ofPVal t)) (p : PSt) (hp : p.depth = 0) :
    (resolveP (pureGet g) md ord true (md + 1) (.arr xs) p ()).1 = none ↔
      md = 0 ∨ ∃ e ∈ xs, expand g true (md - 1) e = none := by
  rw [resolveP_deep_eq_expand g md ord hord _ hwf hg p hp]
  cases md with
  | zero => exact ⟨fun _ => Or.inl rfl, fun _ => rfl⟩
  | succ b =>
    simp only [expand, Nat.add_sub_cancel, Option.map_eq_none_iff, mapOpt_eq_none_iff]
    exact ⟨fun h => Or.inr h, fun h => h.elim (fun h0 => absurd h0 (Nat.succ_ne_zero _)) id⟩

theorem resolveP_arr_perm (g : Int → Option PVal) (md : Nat) (ord : List (Str × DObj) → List (Str × DObj))
    (hord : ∀ kv, (ord kv).Perm kv) (xs ys : List DObj) (hperm : xs.Perm ys) (hwf : WF (.arr xs))
    (hg : ∀ n t, g n = some t → WF (ofPVal t)) (p₁ p₂ : PSt) (hp₁ : p₁.depth = 0) (hp₂ : p₂.depth = 0) :
    (resolveP (pureGet g) md ord true (md + 1) (.arr xs) p₁ ()).1 = none ↔
      (resolveP (pureGet g) md ord true (md + 1) (.arr ys) p₂ ()).1 = none := by
  have hwf' : WF (.arr ys) := by
    cases hwf with
    | arr h => exact .arr (fun e he => h e (hperm.mem_iff.mpr he))
  rw [resolveP_arr_none_iff g md ord hord xs hwf hg p₁ hp₁, resolveP_arr_none_iff g md ord hord ys hwf' hg p₂ hp₂]
  constructor
  · intro h
    cases h with
    | inl h => exact Or.inl h
    | inr h => obtain ⟨e, he, hn⟩ := h; exact Or.inr ⟨e, hperm.mem_iff.mp he, hn⟩
  · intro h
    cases h with
    | inl h => exact Or.inl h
    | inr h => obtain ⟨e, he, hn⟩ := h; exact Or.inr ⟨e, hperm.mem_iff.mpr he, hn⟩

/-- shallow resolution: a reference is looked up once, anything else is handed back -/
theorem resolveP_shallow (g : Int → Option PVal) (md : Nat) (ord : List (Str × DObj) → List (Str × DObj))
    (obj : DObj) (p : PSt) (hp : p.depth = 0) (hmd : 0 < md) :
    (resolveP (pureGet g) md ord false (md + 1) obj p ()).1 =
      match obj with
      | .ref n _ => (g n).map ofPVal
      | o => some o := by
  rw [resolveP_succ]
  have hge : ¬ (0 ≥ md) := by omega
  simp only [stepP, hp, if_true, hge, if_false, Bool.false_eq_true]
  cases obj with
  | ref n gen =>
    simp only [List.contains_nil, Bool.false_eq_true, if_false, pureGet]
    cases g n <;> rfl
  | _ => rfl

end Tabula.XrefR
