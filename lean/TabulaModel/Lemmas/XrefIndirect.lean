import TabulaModel.Model.XrefFile
import TabulaModel.Lemmas.PdfParse
/-!
`ParseIndirectObject` reads back an indirect object laid out as ISO 32000-1 7.3.10 / 7.3.8
prescribe: `N G obj value endobj` and `N G obj dictionary stream EOL data EOL endstream endobj`.
-/
namespace Tabula.XrefFile
open Tabula.Pdf Tabula.A1 Tabula.Pdf.Prs Tabula.Reader

theorem kw_starts (pre : Sep) (b : Nat) (v rest : Str) (hp : SepOk pre) (hb : isAlpha b = true)
    (hv : ∀ c ∈ v, isAlnum c = true) (hne : b :: v ≠ [82]) (hns : b :: v ≠ kwStream) (hT : Terminated rest) :
    Starts (renderSep pre ++ (b :: v ++ rest)) (.keyword (b :: v)) rest := by
  have h := Tok.nextToken_word b v rest hb hv hT
  simp only [hne, if_false] at h
  exact starts_tok pre _ _ _ hp h (by intro w e; cases e) (by intro e; injection e with e; exact hns e)

theorem stateAt_stream (pre : Sep) (rest : Str) (hp : SepOk pre) (hT : Terminated rest) :
    stateAt (renderSep pre ++ (kwStream ++ rest)) =
      { cur := some (.keyword kwStream), peek := none, inp := rest, err := false } := by
  have h := Tok.nextToken_word 115 [116, 114, 101, 97, 109] rest (by decide) (by decide) hT
  have hne : ¬ ((115 :: [116, 114, 101, 97, 109] : Str) = [82]) := by decide
  simp only [hne, if_false] at h
  have hlex : lexSkip ((renderSep pre ++ (kwStream ++ rest)).length + 1) (renderSep pre ++ (kwStream ++ rest)) =
      some (.keyword kwStream, rest) := by
    apply lexSkip_sep pre _ _ _ _ hp (by simpa [kwStream] using h) (by intro w e; cases e)
    have := sep_len pre
    rw [List.length_append]; omega
  rw [stateAt_def, half_of_lex _ _ _ hlex]
  simp [PState.next]

/-- the end-of-line marker that must follow `stream`: LF or CR LF -/
inductive StreamEol | lf | crlf
  deriving DecidableEq, Repr

def StreamEol.bytes : StreamEol → Str
  | .lf => [10]
  | .crlf => [13, 10]

theorem skipStreamEOL_bytes (e : StreamEol) (r : Str) : skipStreamEOL (e.bytes ++ r) = some r := by
  cases e <;> simp [StreamEol.bytes, skipStreamEOL]

theorem streamEol_terminated (e : StreamEol) (r : Str) : Terminated (e.bytes ++ r) := by
  cases e
  · exact term_cons 10 _ (by decide)
  · exact term_cons 13 _ (by decide)

/-- what stands between `obj` and `endobj` -/
inductive Body
  | plain (val : SObj) (s3 : Sep)
  | stream (pre : Sep) (kvs : List SObj) (close : Sep) (s3 : Sep) (seol : StreamEol) (data : Str)
      (w4 : Str) (s5 : Sep)

def Body.render (rest : Str) : Body → Str
  | .plain val s3 => val.render ++ (renderSep s3 ++ (kwEndobj ++ rest))
  | .stream pre kvs close s3 seol data w4 s5 =>
    (SObj.dict pre kvs close).render ++ (renderSep s3 ++ (kwStream ++ (seol.bytes ++ (data ++
      (w4 ++ (kwEndstream ++ (renderSep s5 ++ (kwEndobj ++ rest))))))))

def Body.value : Body → PVal
  | .plain val _ => .obj val.value
  | .stream _ kvs _ _ _ data _ _ => .stream (valueKVs kvs) data

/-- legality of the layout; `lenOf` is the resolver for an indirect `/Length` -/
def Body.Ok (lenOf : Int → Option Int) : Body → Prop
  | .plain val s3 =>
    val.Valid true ∧ val.value.depth ≤ maxNestingDepth ∧ SepOk s3 ∧ (val.endsRegular = true → s3 ≠ [])
  | .stream pre kvs close s3 _ data w4 s5 =>
    (SObj.dict pre kvs close).Valid true ∧ (SObj.dict pre kvs close).value.depth ≤ maxNestingDepth ∧
    SepOk s3 ∧ AllWs w4 ∧ SepOk s5 ∧ s5 ≠ [] ∧
    (dget (valueKVs kvs) kLength = some (.int data.length) ∨
      ∃ n g, dget (valueKVs kvs) kLength = some (.ref n g) ∧ lenOf n = some (data.length : Int))

/-- `N s1 G s2 obj` body `endobj` rest -/
def renderIndirect (num gen : Nat) (s1 s2 : Sep) (b : Body) (rest : Str) : Str :=
  dec num ++ (renderSep s1 ++ (dec gen ++ (renderSep s2 ++ (kwObj ++ b.render rest))))

theorem starts_endobj (pre : Sep) (rest : Str) (hp : SepOk pre) (hT : Terminated rest) :
    Starts (renderSep pre ++ (kwEndobj ++ rest)) (.keyword kwEndobj) rest := by
  have := kw_starts pre 101 [110, 100, 111, 98, 106] rest hp (by decide) (by decide) (by decide) (by decide) hT
  simpa [kwEndobj] using this

theorem firstNotR_kw {inp : Str} {k r : Str} (h : (stateAt inp).cur = some (.keyword k)) : FirstNotR inp := by
  unfold FirstNotR; rw [h]; intro e; cases e

theorem noRefAhead_kw {inp : Str} {k : Str} (h : (stateAt inp).cur = some (.keyword k)) : NoRefAhead inp := by
  intro vb b hc _; rw [h] at hc; cases hc

theorem body_terminated (lenOf : Int → Option Int) (b : Body) (rest : Str) (h : b.Ok lenOf) :
    Terminated (b.render rest) := by
  cases b with
  | plain val s3 => exact term_obj val true h.1 _ (Or.inl rfl)
  | stream pre kvs close s3 seol data w4 s5 => exact term_obj _ true h.1 _ (Or.inl rfl)

theorem fuel_ok (so : SObj) (a b : Str) : so.size ≤ fuelFor (a ++ (so.render ++ b)) := by
  have := size_le so
  unfold fuelFor
  simp only [List.length_append]
  omega

/-- **the round trip of `ParseIndirectObject`** -/
theorem parseIndirect_render (lenOf : Int → Option Int) (num gen : Nat) (s1 s2 : Sep) (b : Body) (rest : Str)
    (hn : num ≤ maxInt64) (hg : gen ≤ maxInt64)
    (h1 : SepOk s1) (h1n : s1 ≠ []) (h2 : SepOk s2) (h2n : s2 ≠ [])
    (hb : b.Ok lenOf) (hT : Terminated rest) :
    parseIndirect (renderIndirect num gen s1 s2 b rest) lenOf = some ((num : Int), (gen : Int), b.value) := by
  have hbT := body_terminated lenOf b rest hb
  -- the three header tokens
  have st0 : Starts (dec num ++ (renderSep s1 ++ (dec gen ++ (renderSep s2 ++ (kwObj ++ b.render rest)))))
      (.integer (dec num)) (renderSep s1 ++ (dec gen ++ (renderSep s2 ++ (kwObj ++ b.render rest)))) := by
    have := starts_dec [] num (renderSep s1 ++ (dec gen ++ (renderSep s2 ++ (kwObj ++ b.render rest))))
      (by intro u hu; cases hu) (sep_terminated s1 _ h1 h1n)
    rw [show renderSep [] = [] from rfl, List.nil_append] at this
    exact this
  have st1 := starts_dec s1 gen (renderSep s2 ++ (kwObj ++ b.render rest)) h1 (sep_terminated s2 _ h2 h2n)
  have st2 : Starts (renderSep s2 ++ (kwObj ++ b.render rest)) (.keyword kwObj) (b.render rest) :=
    kw_starts s2 111 [98, 106] (b.render rest) h2 (by decide) (by decide) (by decide) (by decide) hbT
  have hfuel : ∀ so : SObj, ∀ X : Str, b.render rest = so.render ++ X →
      so.size ≤ fuelFor (renderIndirect num gen s1 s2 b rest) := by
    intro so X hX
    have := fuel_ok so (dec num ++ (renderSep s1 ++ (dec gen ++ (renderSep s2 ++ kwObj)))) X
    unfold renderIndirect
    rw [hX]
    simpa [List.append_assoc] using this
  have hhead : parseIndirect (renderIndirect num gen s1 s2 b rest) lenOf =
      indirectBody (fuelFor (renderIndirect num gen s1 s2 b rest)) (num : Int) (gen : Int)
        (stateAt (b.render rest)) lenOf := by
    unfold parseIndirect
    have e0 : newParser (renderIndirect num gen s1 s2 b rest) =
        stateAt (dec num ++ (renderSep s1 ++ (dec gen ++ (renderSep s2 ++ (kwObj ++ b.render rest))))) := rfl
    simp only [e0, st0.cur, atoi_dec num hn, st0.next, st1.cur, atoi_dec gen hg, st1.next, st2.cur, st2.next,
      if_true]
  rw [hhead]
  unfold indirectBody
  cases b with
  | plain val s3 =>
    obtain ⟨hv, hd, h3, h3n⟩ := hb
    have st3 := starts_endobj s3 rest h3 hT
    have hterm : val.endsRegular = true → Terminated (renderSep s3 ++ (kwEndobj ++ rest)) :=
      fun he => sep_terminated s3 _ h3 (h3n he)
    have hp := parse_roundtrip val true (renderSep s3 ++ (kwEndobj ++ rest))
      (fuelFor (renderIndirect num gen s1 s2 (Body.plain val s3) rest))
      0 hv (hfuel val _ rfl)
      (by omega) hterm (firstNotR_kw (r := rest) st3.cur) (noRefAhead_kw st3.cur)
    have er : (Body.plain val s3).render rest = val.render ++ (renderSep s3 ++ (kwEndobj ++ rest)) := rfl
    rw [er, hp]
    have hne : ¬ (kwEndobj = kwStream) := by decide
    simp [st3.cur, hne, Body.value]
  | stream pre kvs close s3 seol data w4 s5 =>
    obtain ⟨hv, hd, h3, h4, h5, h5n, hlen⟩ := hb
    let afterStream := seol.bytes ++ (data ++ (w4 ++ (kwEndstream ++ (renderSep s5 ++ (kwEndobj ++ rest)))))
    have hst := stateAt_stream s3 afterStream h3 (streamEol_terminated seol _)
    have hcur : (stateAt (renderSep s3 ++ (kwStream ++ afterStream))).cur = some (.keyword kwStream) := by
      rw [hst]
    have er : (Body.stream pre kvs close s3 seol data w4 s5).render rest =
        (SObj.dict pre kvs close).render ++ (renderSep s3 ++ (kwStream ++ afterStream)) := rfl
    have hp := parse_roundtrip (SObj.dict pre kvs close) true (renderSep s3 ++ (kwStream ++ afterStream))
      (fuelFor (renderIndirect num gen s1 s2 (Body.stream pre kvs close s3 seol data w4 s5) rest))
      0 hv (hfuel _ _ er)
      (by omega) (by intro he; simp [SObj.endsRegular] at he) (firstNotR_kw (r := afterStream) hcur) (noRefAhead_kw hcur)
    rw [er, hp, hst]
    simp only [SObj.value, if_true]
    -- the stream data
    have st5 := starts_endobj s5 rest h5 hT
    have hend : nextToken (w4 ++ (kwEndstream ++ (renderSep s5 ++ (kwEndobj ++ rest)))) =
        some (.keyword kwEndstream, renderSep s5 ++ (kwEndobj ++ rest)) := by
      rw [nextToken_ws w4 _ h4]
      have := Tok.nextToken_word 101 [110, 100, 115, 116, 114, 101, 97, 109] (renderSep s5 ++ (kwEndobj ++ rest))
        (by decide) (by decide) (sep_terminated s5 _ h5 h5n)
      simpa [kwEndstream] using this
    have hdrop : (data ++ (w4 ++ (kwEndstream ++ (renderSep s5 ++ (kwEndobj ++ rest))))).drop data.length =
        w4 ++ (kwEndstream ++ (renderSep s5 ++ (kwEndobj ++ rest))) := by simp
    have htake : (data ++ (w4 ++ (kwEndstream ++ (renderSep s5 ++ (kwEndobj ++ rest))))).take data.length = data := by simp
    have hnl : ¬ ((data.length : Int) < 0) := by omega
    have hshort : ¬ ((data ++ (w4 ++ (kwEndstream ++ (renderSep s5 ++ (kwEndobj ++ rest))))).length < data.length) := by
      simp
    have hreload : PState.next (PState.next { cur := none, peek := none, inp := renderSep s5 ++ (kwEndobj ++ rest), err := false }) =
        stateAt (renderSep s5 ++ (kwEndobj ++ rest)) := rfl
    rcases hlen with h | ⟨n, g, h, hl⟩
    · simp only [parseStreamData, h, hnl, if_false, afterStream, skipStreamEOL_bytes, Int.toNat_natCast, hshort,
        hdrop, htake, hend, if_true, hreload, st5.cur, Body.value]
    · simp only [parseStreamData, h, hl, hnl, if_false, afterStream, skipStreamEOL_bytes, Int.toNat_natCast, hshort,
        hdrop, htake, hend, if_true, hreload, st5.cur, Body.value]

/-! ### a stream whose `/Length` is a reference the resolver does not answer -/

/-- the layout of a stream object whose `/Length` is the reference `m g R` — everything
`Body.Ok` asks for except the resolver's answer -/
def Body.OkRef (m g : Int) : Body → Prop
  | .plain _ _ => False
  | .stream pre kvs close s3 _ _ w4 s5 =>
    (SObj.dict pre kvs close).Valid true ∧ (SObj.dict pre kvs close).value.depth ≤ maxNestingDepth ∧
    SepOk s3 ∧ AllWs w4 ∧ SepOk s5 ∧ s5 ≠ [] ∧ dget (valueKVs kvs) kLength = some (.ref m g)

/-- the number of data bytes of a stream layout -/
def Body.dataLen : Body → Nat
  | .plain _ _ => 0
  | .stream _ _ _ _ _ data _ _ => data.length

/-- answered with the number of data bytes, the layout is legal -/
theorem Body.OkRef.ok {b : Body} {m g : Int} (h : b.OkRef m g) (lenOf : Int → Option Int)
    (hl : lenOf m = some (b.dataLen : Int)) : b.Ok lenOf := by
  cases b with
  | plain val s3 => exact h.elim
  | stream pre kvs close s3 seol data w4 s5 =>
    obtain ⟨a1, a2, a3, a4, a5, a6, a7⟩ := h
    exact ⟨a1, a2, a3, a4, a5, a6, Or.inr ⟨m, g, a7, hl⟩⟩

/-- **an indirect `/Length` that is not answered is an error**: the same layout as in
`parseIndirect_render`, but the resolver has no integer for the `/Length` reference (the
object is missing, not an integer, or — since 129dd3d — nested too deep):
`ParseIndirectObject` fails -/
theorem parseIndirect_render_unresolved (lenOf : Int → Option Int) (num gen : Nat) (s1 s2 : Sep) (b : Body)
    (rest : Str) (m g : Int) (hn : num ≤ maxInt64) (hg : gen ≤ maxInt64)
    (h1 : SepOk s1) (h1n : s1 ≠ []) (h2 : SepOk s2) (h2n : s2 ≠ [])
    (hb : b.OkRef m g) (hl : lenOf m = none) (hT : Terminated rest) :
    parseIndirect (renderIndirect num gen s1 s2 b rest) lenOf = none := by
  cases b with
  | plain val s3 => exact hb.elim
  | stream pre kvs close s3 seol data w4 s5 =>
    obtain ⟨hv, hd, h3, h4, h5, h5n, hlen⟩ := hb
    have hbT : Terminated ((Body.stream pre kvs close s3 seol data w4 s5).render rest) :=
      term_obj _ true hv _ (Or.inl rfl)
    have st0 : Starts (dec num ++ (renderSep s1 ++ (dec gen ++ (renderSep s2 ++ (kwObj ++ (Body.stream pre kvs close s3 seol data w4 s5).render rest)))))
        (.integer (dec num)) (renderSep s1 ++ (dec gen ++ (renderSep s2 ++ (kwObj ++ (Body.stream pre kvs close s3 seol data w4 s5).render rest)))) := by
      have := starts_dec [] num (renderSep s1 ++ (dec gen ++ (renderSep s2 ++ (kwObj ++ (Body.stream pre kvs close s3 seol data w4 s5).render rest))))
        (by intro u hu; cases hu) (sep_terminated s1 _ h1 h1n)
      rw [show renderSep [] = [] from rfl, List.nil_append] at this
      exact this
    have st1 := starts_dec s1 gen (renderSep s2 ++ (kwObj ++ (Body.stream pre kvs close s3 seol data w4 s5).render rest)) h1
      (sep_terminated s2 _ h2 h2n)
    have st2 : Starts (renderSep s2 ++ (kwObj ++ (Body.stream pre kvs close s3 seol data w4 s5).render rest)) (.keyword kwObj)
        ((Body.stream pre kvs close s3 seol data w4 s5).render rest) :=
      kw_starts s2 111 [98, 106] _ h2 (by decide) (by decide) (by decide) (by decide) hbT
    have hhead : parseIndirect (renderIndirect num gen s1 s2 (Body.stream pre kvs close s3 seol data w4 s5) rest) lenOf =
        indirectBody (fuelFor (renderIndirect num gen s1 s2 (Body.stream pre kvs close s3 seol data w4 s5) rest)) (num : Int) (gen : Int)
          (stateAt ((Body.stream pre kvs close s3 seol data w4 s5).render rest)) lenOf := by
      unfold parseIndirect
      have e0 : newParser (renderIndirect num gen s1 s2 (Body.stream pre kvs close s3 seol data w4 s5) rest) =
          stateAt (dec num ++ (renderSep s1 ++ (dec gen ++ (renderSep s2 ++ (kwObj ++ (Body.stream pre kvs close s3 seol data w4 s5).render rest))))) := rfl
      simp only [e0, st0.cur, atoi_dec num hn, st0.next, st1.cur, atoi_dec gen hg, st1.next, st2.cur, st2.next,
        if_true]
    rw [hhead]
    unfold indirectBody
    let afterStream := seol.bytes ++ (data ++ (w4 ++ (kwEndstream ++ (renderSep s5 ++ (kwEndobj ++ rest)))))
    have hst := stateAt_stream s3 afterStream h3 (streamEol_terminated seol _)
    have hcur : (stateAt (renderSep s3 ++ (kwStream ++ afterStream))).cur = some (.keyword kwStream) := by
      rw [hst]
    have er : (Body.stream pre kvs close s3 seol data w4 s5).render rest =
        (SObj.dict pre kvs close).render ++ (renderSep s3 ++ (kwStream ++ afterStream)) := rfl
    have hfuel : (SObj.dict pre kvs close).size ≤
        fuelFor (renderIndirect num gen s1 s2 (Body.stream pre kvs close s3 seol data w4 s5) rest) := by
      have := fuel_ok (SObj.dict pre kvs close) (dec num ++ (renderSep s1 ++ (dec gen ++ (renderSep s2 ++ kwObj))))
        (renderSep s3 ++ (kwStream ++ afterStream))
      unfold renderIndirect
      rw [er]
      simpa [List.append_assoc] using this
    have hp := parse_roundtrip (SObj.dict pre kvs close) true (renderSep s3 ++ (kwStream ++ afterStream))
      (fuelFor (renderIndirect num gen s1 s2 (Body.stream pre kvs close s3 seol data w4 s5) rest))
      0 hv hfuel
      (by omega) (by intro he; simp [SObj.endsRegular] at he) (firstNotR_kw (r := afterStream) hcur) (noRefAhead_kw hcur)
    rw [er, hp, hst]
    simp only [SObj.value, if_true, parseStreamData, hlen, hl]

end Tabula.XrefFile
