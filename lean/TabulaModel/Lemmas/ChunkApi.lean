import TabulaModel.Model.ChunkApi
import TabulaModel.Lemmas.ChunkLayoutSections
/-!
Helper lemmas for property C12: `updateSectionPath` over a history of headings, and the page
numbers `Document.AddPage` assigns.
-/
namespace Tabula.ChunkApi
open Tabula.Chunk Tabula.ChunkLayout

/-! ### `updateSectionPath` -/

/-- the open headings are one level apart, the innermost at level `c` -/
def Consec : Int → List H → Prop
  | _, [] => True
  | c, (l, _) :: rest => l = c ∧ Consec (c - 1) rest

theorem assumed_of_consec (st : List H) (c : Int) (h : Consec c st) : assumedStack (st.map (·.2)) c = st := by
  induction st generalizing c with
  | nil => rfl
  | cons x xs ih =>
    obtain ⟨l, t⟩ := x
    obtain ⟨e, hr⟩ := h
    subst e
    simp only [List.map_cons, assumedStack, ih _ hr]

theorem consec_dropWhile (st : List H) (c l : Int) (h : Consec c st) (hl : l ≤ c + 1) :
    Consec (l - 1) (st.dropWhile fun e => decide (l ≤ e.1)) := by
  induction st generalizing c with
  | nil => trivial
  | cons x xs ih =>
    obtain ⟨l', t⟩ := x
    obtain ⟨e, hr⟩ := h
    subst e
    rw [List.dropWhile_cons]
    by_cases hle : l ≤ l'
    · simp only [hle, decide_true, if_true]
      exact ih (l' - 1) hr (by omega)
    · simp only [hle, decide_false, Bool.false_eq_true, if_false]
      have : l - 1 = l' := by omega
      rw [this]
      exact ⟨rfl, hr⟩

/-- no heading is more than one level deeper than the heading before it -/
def NoSkip : Option Int → List (Int × Str) → Prop
  | _, [] => True
  | none, (l, _) :: hs => NoSkip (some l) hs
  | some c, (l, _) :: hs => l ≤ c + 1 ∧ NoSkip (some l) hs

/-- the history as the specification reads it (`pushSection` trims the heading text) -/
def trimmed (hs : List (Int × Str)) : List H := hs.map fun h => (h.1, trim h.2)

theorem runUpdate_spec (st hist : List H) (cur : Int) (hs : List (Int × Str))
    (hrel : StackRel st hist) (hcon : Consec cur st)
    (hns : NoSkip (if st = [] then none else some cur) hs) :
    (runUpdate (st.reverse.map (·.2)) cur hs).1 = (openSpec (hist ++ trimmed hs)).map (·.2) := by
  induction hs generalizing st hist cur with
  | nil =>
    unfold StackRel at hrel
    simp [runUpdate, trimmed, ← hrel]
  | cons x xs ih =>
    obtain ⟨l, t⟩ := x
    have hstep : updateSectionPath (st.reverse.map (·.2)) cur l t =
        ((pushSection st l t).reverse.map (·.2), l) := by
      unfold updateSectionPath
      have : (st.reverse.map (·.2)).reverse = st.map (·.2) := by
        rw [← List.map_reverse, List.reverse_reverse]
      rw [this, assumed_of_consec st cur hcon]
    have hrel' : StackRel (pushSection st l t) (hist ++ [(l, trim t)]) := stack_sim.push st hist l t hrel
    have hcon' : Consec l (pushSection st l t) := by
      unfold pushSection
      refine ⟨rfl, ?_⟩
      by_cases he : st = []
      · subst he; trivial
      · rw [if_neg he] at hns
        exact consec_dropWhile st cur l hcon hns.1
    have hns' : NoSkip (if pushSection st l t = [] then none else some l) xs := by
      have hne : pushSection st l t ≠ [] := by unfold pushSection; simp
      rw [if_neg hne]
      by_cases he : st = []
      · rw [if_pos he] at hns; exact hns
      · rw [if_neg he] at hns; exact hns.2
    have := ih (pushSection st l t) (hist ++ [(l, trim t)]) l hrel' hcon' hns'
    simp only [runUpdate, hstep]
    rw [this]
    simp [trimmed, List.append_assoc]

/-! ### `Document.AddPage` -/

theorem addPages_unset (nums : List Int) (k : Nat) :
    addPages nums (List.replicate k 0) = nums ++ (List.range' (nums.length + 1) k).map Int.ofNat := by
  induction k generalizing nums with
  | zero => simp [addPages]
  | succ k ih =>
    simp only [List.replicate_succ, addPages, addPage, BEq.rfl, if_true]
    rw [ih]
    simp only [List.length_append, List.length_cons, List.length_nil, List.range'_succ, List.map_cons,
      List.append_assoc, List.cons_append, List.nil_append]
    rfl

theorem addPages_preset (nums ns : List Int) (h : ∀ n ∈ ns, n ≠ 0) : addPages nums ns = nums ++ ns := by
  induction ns generalizing nums with
  | nil => simp [addPages]
  | cons n ns ih =>
    have hn : (n == 0) = false := by simpa using h n (List.mem_cons_self ..)
    simp only [addPages, addPage, hn, Bool.false_eq_true, if_false]
    rw [ih _ (fun m hm => h m (List.mem_cons_of_mem _ hm))]
    simp

theorem ascFrom_of_range (d : LDoc) (b : Int) (s : Nat) (hb : b ≤ s) (hs : 1 ≤ s)
    (h : d.map (·.number) = (List.range' s d.length).map Int.ofNat) : AscFrom b d := by
  induction d generalizing b s with
  | nil => trivial
  | cons pg pgs ih =>
    simp only [List.map_cons, List.length_cons, List.range'_succ, List.cons.injEq] at h
    obtain ⟨h1, h2⟩ := h
    have h1' : pg.number = (s : Int) := h1
    refine ⟨by omega, by omega, ?_⟩
    exact ih pg.number (s + 1) (by omega) (by omega) h2

end Tabula.ChunkApi
