import TabulaModel.Lemmas.OverlapFull
import TabulaModel.Lemmas.Aligned
/-!
C13, round 6: the byte-index cuts of `rag/overlap.go` (`generateCharacterOverlap`,
`tailAtRuneBoundary`) for ANY bytes: the cut is moved to a rune-start byte, which no
well-formed character covers, and the word search advances by whole decoded runes, so the
result carries a suffix of the text's non-whitespace characters (an ill-formed byte counting
as a character) whatever the input.
-/
set_option linter.unusedVariables false
namespace Tabula.Overlap
open Tabula.Split

/-- where `skipCont` stops, as a position of the whole text: a position no character covers -/
theorem skipCont_drop_notCovered (s : Str) (k : Nat) :
    ∃ p, k ≤ p ∧ skipCont (s.drop k) = s.drop p ∧ NotCovered s p := by
  obtain ⟨j, e, hj⟩ := skipCont_eq_drop (s.drop k)
  refine ⟨k + j, Nat.le_add_right _ _, by rw [e, List.drop_drop], ?_⟩
  rcases hj with hj | ⟨b, hb, hs⟩
  · apply notCovered_of_ge
    simp only [List.length_drop] at hj
    omega
  · rw [List.getElem?_drop] at hb
    exact notCovered_of_runeStart s (k + j) b hb hs

theorem contentSuffix_drop_notCovered (s : Str) (p : Nat) (h : NotCovered s p) :
    ContentSuffix s (s.drop p) :=
  ⟨stripWs (s.take p), stripWs_cut s p h⟩

theorem contentSuffix_skipNonSpace (fuel : Nat) (s : Str) : ContentSuffix s (skipNonSpace fuel s) := by
  induction fuel generalizing s with
  | zero => exact .refl s
  | succ n ih =>
    unfold skipNonSpace
    split
    · exact contentSuffix_nil s
    · rename_i hs
      split
      · exact .refl s
      · rename_i hsp
        have hsp' : spaceLen s = 0 := by simpa using hsp
        exact ContentSuffix.trans ⟨s.take (runeLen s), stripWs_char s hs hsp'⟩ (ih _)

theorem contentSuffix_trimLeft (s : Str) : ContentSuffix s (trimLeft s) := by
  obtain ⟨l, hl, e⟩ := trimLeft_decomp s
  refine ⟨[], ?_⟩
  conv => lhs; rw [e]
  rw [stripWs_wsOnly_append hl]; rfl

theorem contentSuffix_trimSpace (s : Str) : ContentSuffix s (trimSpace s) :=
  ⟨[], by rw [stripWs_trimSpace_any]; rfl⟩

/-- **the character overlap of ANY byte string** carries a suffix of its non-whitespace
characters -/
theorem contentSuffix_charOverlap_any (c : OverlapConfig) (text : Str) :
    ContentSuffix text (generateCharacterOverlap c text) := by
  unfold generateCharacterOverlap
  split
  · exact .refl text
  · simp only
    obtain ⟨p, _, e, hn⟩ := skipCont_drop_notCovered text (text.length - c.size)
    rw [e]
    have h1 := contentSuffix_drop_notCovered text p hn
    generalize text.drop p = t1 at h1 ⊢
    have h2 : ContentSuffix t1 (if c.preserveWords = true then trimLeft (skipNonSpace t1.length t1) else t1) := by
      split
      · exact (contentSuffix_skipNonSpace _ _).trans (contentSuffix_trimLeft _)
      · exact .refl t1
    generalize (if c.preserveWords = true then trimLeft (skipNonSpace t1.length t1) else t1) = t at h2 ⊢
    split
    · exact contentSuffix_nil text
    · exact (h1.trans h2).trans (contentSuffix_trimSpace t)

theorem tailAtRuneBoundary_any (s : Str) (n : Nat) : ContentSuffix s (tailAtRuneBoundary s n) := by
  unfold tailAtRuneBoundary
  split
  · exact .refl s
  · obtain ⟨p, _, e, hn⟩ := skipCont_drop_notCovered s (s.length - n)
    rw [e]
    exact contentSuffix_drop_notCovered s p hn

/-- a cut in front of an ASCII byte is never inside a character, whatever precedes it -/
theorem stripWs_before_ascii (A : Str) (b : Nat) (rest : Str) (hb : b < 0x80) :
    stripWs (A ++ b :: rest) = stripWs A ++ stripWs (b :: rest) := by
  have hn : NotCovered (A ++ b :: rest) A.length :=
    notCovered_of_runeStart _ _ b (by rw [List.getElem?_append_right (Nat.le_refl _)]; simp)
      (runeStart_of_lt hb)
  have := stripWs_cut _ _ hn
  rwa [List.take_left, List.drop_left] at this

/-- joining ANY pieces with an ASCII whitespace separator keeps exactly their content -/
theorem stripWs_joinWith_any (b : Nat) (t : Str) (hb : b < 0x80) (hs : WsOnly (b :: t)) (ps : List Str) :
    stripWs (joinWith (b :: t) ps) = ps.flatMap stripWs := by
  induction ps with
  | nil => simp [joinWith, stripWs_nil]
  | cons p rest ih =>
    rw [joinWith_cons]
    split
    · rename_i h; subst h; simp
    · have e : p ++ (b :: t) ++ joinWith (b :: t) rest = p ++ b :: (t ++ joinWith (b :: t) rest) := by simp
      rw [e, stripWs_before_ascii p b _ hb]
      have e2 : b :: (t ++ joinWith (b :: t) rest) = (b :: t) ++ joinWith (b :: t) rest := by simp
      rw [e2, stripWs_wsOnly_append hs, ih, List.flatMap_cons]

theorem splitLines_content_any (text : Str) : (splitLines text []).flatMap stripWs = stripWs text := by
  have := stripWs_joinWith_any 10 [] (by decide) wsOnly_nl (splitLines text [])
  rw [splitLines_join] at this
  simpa using this.symm

/-- invariant of the paragraph loop for any bytes: the content read so far -/
def ParaInvAny (content : Str) (st : Str × List Str) : Prop :=
  st.2.reverse.flatMap stripWs ++ stripWs st.1 = content

theorem paraStep_inv_any (content : Str) (st : Str × List Str) (line : Str)
    (h : ParaInvAny content st) : ParaInvAny (content ++ stripWs line) (paraStep st line) := by
  unfold ParaInvAny at h ⊢
  unfold paraStep
  simp only
  have hts := stripWs_trimSpace_any line
  by_cases ht : trimSpace line = []
  · rw [if_pos ht]
    have hz : stripWs line = [] := by rw [← hts, ht, stripWs_nil]
    rw [hz, List.append_nil]
    by_cases hc : st.1 ≠ []
    · rw [if_pos hc]
      simp only [List.reverse_cons, List.flatMap_append, List.flatMap_cons, List.flatMap_nil,
        List.append_nil, stripWs_nil]
      rw [stripWs_trimSpace_any]; exact h
    · rw [if_neg hc]; exact h
  · rw [if_neg ht]
    simp only
    have hcs : stripWs ((if st.1 ≠ [] then st.1 ++ [32] else st.1) ++ trimSpace line)
        = stripWs st.1 ++ stripWs line := by
      split
      · have e : st.1 ++ [32] ++ trimSpace line = st.1 ++ 32 :: trimSpace line := by simp
        rw [e, stripWs_before_ascii st.1 32 _ (by decide)]
        have e2 : 32 :: trimSpace line = [32] ++ trimSpace line := rfl
        rw [e2, stripWs_wsOnly_append wsOnly_space, hts]
      · rename_i hc
        have : st.1 = [] := by simpa using hc
        rw [this, List.nil_append, stripWs_nil, List.nil_append, hts]
    rw [hcs, ← List.append_assoc, h]

theorem paraFold_inv_any (lines : List Str) (content : Str) (st : Str × List Str) (h : ParaInvAny content st) :
    ParaInvAny (content ++ lines.flatMap stripWs) (lines.foldl paraStep st) := by
  induction lines generalizing content st with
  | nil => simpa using h
  | cons l rest ih =>
    rw [List.foldl_cons, List.flatMap_cons, ← List.append_assoc]
    exact ih _ _ (paraStep_inv_any content st l h)

/-- `splitIntoParagraphs` keeps exactly the non-whitespace characters of ANY byte string -/
theorem splitIntoParagraphs_content_any (text : Str) :
    (splitIntoParagraphs text).flatMap stripWs = stripWs text := by
  rw [splitIntoParagraphs_eq]
  have inv := paraFold_inv_any (splitLines text []) [] ([], []) (by simp [ParaInvAny, stripWs_nil])
  rw [List.nil_append, splitLines_content_any text] at inv
  unfold ParaInvAny at inv
  generalize (splitLines text []).foldl paraStep ([], []) = st at inv
  unfold paraFinish
  by_cases hc : st.1 ≠ []
  · rw [if_pos hc]
    simp only [List.reverse_cons, List.flatMap_append, List.flatMap_cons, List.flatMap_nil,
      List.append_nil]
    rw [stripWs_trimSpace_any]; exact inv
  · rw [if_neg hc]
    have hc' : st.1 = [] := by simpa using hc
    rw [hc', stripWs_nil, List.append_nil] at inv
    exact inv

/-- the paragraph overlap of ANY byte string carries a suffix of its non-whitespace characters -/
theorem contentSuffix_paragraphOverlap_any (cl : Classes) (c : OverlapConfig) (text : Str) :
    ContentSuffix text (generateParagraphOverlap cl c text).1 := by
  unfold generateParagraphOverlap
  simp only
  split
  · exact contentSuffix_nil text
  · generalize (splitIntoParagraphs text).length - min c.size (splitIntoParagraphs text).length = k
    refine ⟨((splitIntoParagraphs text).take k).flatMap stripWs, ?_⟩
    rw [stripWs_trimSpace_any, stripWs_joinWith_any 10 [10] (by decide) wsOnly_nlnl,
      ← List.flatMap_append, List.take_append_drop, splitIntoParagraphs_content_any]

end Tabula.Overlap
