import TabulaModel.Model.Layout
import TabulaModel.Lemmas.Layout
/-!
Helper lemmas for `Props/C09More.lean`: the key set of `dedupeAux`, the cell-by-cell effect of
`appendAt` under the assignment fold of `createColumnsFromGaps`, the band Ys of
`groupFragmentsIntoLines`, `mergeInto` without overlaps, `trimLeft`.
-/
namespace Tabula.Layout
open List

/-! ## generic -/

theorem nodup_map_inj {α β : Type} (f : α → β) (l : List α) (h : (l.map f).Nodup)
    (a : α) (ha : a ∈ l) (b : α) (hb : b ∈ l) (e : f a = f b) : a = b := by
  induction l with
  | nil => simp at ha
  | cons c l ih =>
    simp only [List.map_cons, List.nodup_cons] at h
    rcases List.mem_cons.mp ha with ha1 | ha1 <;> rcases List.mem_cons.mp hb with hb1 | hb1
    · rw [ha1, hb1]
    · exact absurd (List.mem_map.mpr ⟨b, hb1, by rw [← ha1, e]⟩) h.1
    · exact absurd (List.mem_map.mpr ⟨a, ha1, by rw [← hb1, e]⟩) h.1
    · exact ih h.2 ha1 hb1

/-! ## deduplication -/

theorem dedupeAux_keys (seen : List Key) (fs : List Frag) :
    ((dedupeAux seen fs).map keyOf).Nodup ∧ ∀ g ∈ dedupeAux seen fs, keyOf g ∉ seen := by
  induction fs generalizing seen with
  | nil => simp [dedupeAux]
  | cons a fs ih =>
    simp only [dedupeAux]
    by_cases ha : keyOf a ∈ seen
    · have hc : seen.contains (keyOf a) = true := by simpa using ha
      simp only [hc, if_true]
      exact ih seen
    · have hc : seen.contains (keyOf a) = false := by simpa using ha
      simp only [hc, Bool.false_eq_true, if_false]
      have h := ih (keyOf a :: seen)
      refine ⟨?_, ?_⟩
      · simp only [List.map_cons, List.nodup_cons]
        refine ⟨?_, h.1⟩
        intro hm
        rcases List.mem_map.mp hm with ⟨g, hg, hk⟩
        exact h.2 g hg (by simp [hk])
      · intro g hg
        rcases List.mem_cons.mp hg with h' | h'
        · subst h'; exact ha
        · intro hs; exact h.2 g h' (List.mem_cons_of_mem _ hs)

theorem dedupeAux_fixed (seen : List Key) (fs : List Frag)
    (hn : (fs.map keyOf).Nodup) (hd : ∀ g ∈ fs, keyOf g ∉ seen) : dedupeAux seen fs = fs := by
  induction fs generalizing seen with
  | nil => simp [dedupeAux]
  | cons a fs ih =>
    have ha : keyOf a ∉ seen := hd a (by simp)
    have hc : seen.contains (keyOf a) = false := by simpa using ha
    simp only [dedupeAux, hc, Bool.false_eq_true, if_false]
    simp only [List.map_cons, List.nodup_cons] at hn
    congr 1
    apply ih _ hn.2
    intro g hg hs
    rcases List.mem_cons.mp hs with h | h
    · exact hn.1 (List.mem_map.mpr ⟨g, hg, h⟩)
    · exact hd g (List.mem_cons_of_mem _ hg) h

/-! ## column assignment -/

theorem appendAt_getElem? (j : Nat) (f : Frag) (cs : List (List Frag)) (i : Nat) :
    (appendAt j f cs)[i]? = if i = j then cs[i]?.map (· ++ [f]) else cs[i]? := by
  induction cs generalizing i j with
  | nil => simp [appendAt]
  | cons c cs ih =>
    cases j with
    | zero => cases i <;> simp [appendAt]
    | succ j =>
      cases i with
      | zero => simp [appendAt]
      | succ i => simp [appendAt, ih]

theorem foldl_appendAt_getElem? (g : Frag → Nat) (fs : List Frag) (cols : List (List Frag)) (i : Nat) :
    (fs.foldl (fun cols f => appendAt (g f) f cols) cols)[i]? =
      cols[i]?.map (· ++ fs.filter (fun f => g f == i)) := by
  induction fs generalizing cols with
  | nil =>
    simp only [List.foldl_nil, List.filter_nil, List.append_nil]
    generalize cols[i]? = o
    cases o <;> rfl
  | cons f fs ih =>
    simp only [List.foldl_cons, ih, appendAt_getElem?, List.filter_cons]
    by_cases h : i = g f
    · have h2 : (g f == i) = true := by simp [h]
      simp only [h2, if_true, if_pos h]
      generalize cols[i]? = o
      cases o <;> simp
    · have h2 : (g f == i) = false := by
        simp only [beq_eq_false_iff_ne, ne_eq]; exact fun e => h e.symm
      simp only [h2, if_neg h, Bool.false_eq_true, if_false]

theorem foldl_appendAt_length (g : Frag → Nat) (fs : List Frag) (cols : List (List Frag)) :
    (fs.foldl (fun cols f => appendAt (g f) f cols) cols).length = cols.length := by
  induction fs generalizing cols with
  | nil => rfl
  | cons f fs ih => simp only [List.foldl_cons, ih, appendAt_length]

theorem boundaries_length (gs : List Gap) (a b : Rat) : (boundaries gs a b).length = gs.length + 1 := by
  simp [boundaries]

/-! ## bands -/

theorem absR_self_le_bandTol (f : Frag) : absR (f.y - f.y) ≤ bandTol f := by
  have h0 : f.y - f.y = 0 := by grind
  rw [h0]
  unfold absR bandTol
  split <;> split <;> grind

theorem addToBands_ys (f : Frag) (bs : List Band) :
    (addToBands f bs).map (·.y) = bs.map (·.y) ∨
      ((addToBands f bs).map (·.y) = bs.map (·.y) ++ [f.y] ∧ ∀ b ∈ bs, f.y ≠ b.y) := by
  induction bs with
  | nil => right; simp [addToBands]
  | cons b bs ih =>
    simp only [addToBands]
    by_cases hc : absR (f.y - b.y) ≤ bandTol f
    · left; simp [hc]
    · simp only [hc, if_false]
      have hne : f.y ≠ b.y := by
        intro e; apply hc; rw [← e]; exact absR_self_le_bandTol f
      rcases ih with h | ⟨h, hall⟩
      · left; simp [h]
      · right
        refine ⟨by simp [h], ?_⟩
        intro c hcm
        rcases List.mem_cons.mp hcm with e | e
        · subst e; exact hne
        · exact hall c e

theorem addToBands_nodup (f : Frag) (bs : List Band) (h : (bs.map (·.y)).Nodup) :
    ((addToBands f bs).map (·.y)).Nodup := by
  rcases addToBands_ys f bs with e | ⟨e, hall⟩
  · rw [e]; exact h
  · rw [e, List.nodup_append]
    refine ⟨h, by simp, ?_⟩
    intro a ha b hb
    simp only [List.mem_singleton] at hb
    subst hb
    rcases List.mem_map.mp ha with ⟨c, hc, rfl⟩
    exact fun e' => hall c hc e'.symm

theorem foldl_addToBands_nodup (fs : List Frag) (bs : List Band) (h : (bs.map (·.y)).Nodup) :
    ((fs.foldl (fun bs f => addToBands f bs) bs).map (·.y)).Nodup := by
  induction fs generalizing bs with
  | nil => exact h
  | cons f fs ih => exact ih _ (addToBands_nodup f bs h)

/-! ## block merging -/

theorem mergeInto_none (ov : Block → Block → Bool) (cur : Block) (bs : List Block)
    (h : ∀ b ∈ bs, ov cur b = false) : mergeInto ov cur bs = (cur, bs) := by
  induction bs with
  | nil => rfl
  | cons b bs ih =>
    have hb : ov cur b = false := h b (by simp)
    simp only [mergeInto, hb, Bool.false_eq_true, if_false]
    rw [ih (fun c hc => h c (List.mem_cons_of_mem _ hc))]

/-! ## TrimSpace -/

theorem trimLeft_spec (s : Str) :
    ∃ a, s = a ++ trimLeft s ∧ (∀ c ∈ a, isSpaceByte c = true) ∧
      ∀ c, (trimLeft s).head? = some c → isSpaceByte c = false := by
  induction s with
  | nil => exact ⟨[], by simp [trimLeft]⟩
  | cons c s ih =>
    by_cases hc : isSpaceByte c = true
    · rcases ih with ⟨a, h1, h2, h3⟩
      refine ⟨c :: a, ?_, ?_, ?_⟩
      · simp only [trimLeft, hc, if_true, List.cons_append]; rw [← h1]
      · intro d hd
        rcases List.mem_cons.mp hd with e | e
        · subst e; exact hc
        · exact h2 d e
      · simpa only [trimLeft, hc, if_true] using h3
    · have hc' : isSpaceByte c = false := by simpa using hc
      refine ⟨[], ?_, by simp, ?_⟩
      · simp [trimLeft, hc']
      · intro d hd
        simp only [trimLeft, hc', Bool.false_eq_true, if_false, List.head?_cons,
          Option.some.injEq] at hd
        subst hd; exact hc'

theorem trimLeft_fixed (s : Str) (h : ∀ c, s.head? = some c → isSpaceByte c = false) :
    trimLeft s = s := by
  cases s with
  | nil => rfl
  | cons c s =>
    have := h c (by simp)
    simp [trimLeft, this]

/-! ## column validation -/

theorem validateStep_nonempty (m : Rat) (st : List (List Frag) × List Frag) (col : List Frag)
    (h : ∀ c ∈ st.1, c ≠ []) : ∀ c ∈ (validateStep m st col).1, c ≠ [] := by
  rcases st with ⟨v, p⟩
  unfold validateStep
  by_cases he : col.isEmpty = true
  · simp only [he, if_true]; exact h
  · have hne : col ≠ [] := by intro e; subst e; simp at he
    simp only [he, Bool.false_eq_true, if_false]
    by_cases hw : bboxW col < m
    · simp only [hw, if_true]
      cases v with
      | nil => simp
      | cons last r =>
        show ∀ c ∈ ((last ++ col) :: r), c ≠ []
        intro c hc
        rcases List.mem_cons.mp hc with e | e
        · subst e; simp [hne]
        · exact h c (List.mem_cons_of_mem _ e)
    · simp only [hw, if_false]
      intro c hc
      rcases List.mem_cons.mp hc with e | e
      · subst e; simp [hne]
      · exact h c e

theorem foldl_validateStep_nonempty (m : Rat) (cols : List (List Frag))
    (st : List (List Frag) × List Frag) (h : ∀ c ∈ st.1, c ≠ []) :
    ∀ c ∈ (cols.foldl (validateStep m) st).1, c ≠ [] := by
  induction cols generalizing st with
  | nil => exact h
  | cons c cols ih => exact ih _ (validateStep_nonempty m st c h)

theorem foldl_validateStep_wide (m : Rat) (cols : List (List Frag)) (vr : List (List Frag))
    (h : ∀ c ∈ cols, c ≠ [] ∧ ¬ bboxW c < m) :
    cols.foldl (validateStep m) (vr, []) = (cols.reverse ++ vr, []) := by
  induction cols generalizing vr with
  | nil => rfl
  | cons c cols ih =>
    have hc := h c (by simp)
    have he : c.isEmpty = false := by cases c <;> simp_all
    have hstep : validateStep m (vr, []) c = (c :: vr, []) := by
      simp [validateStep, he, hc.2]
    rw [List.foldl_cons, hstep, ih _ (fun d hd => h d (List.mem_cons_of_mem _ hd))]
    simp

end Tabula.Layout
