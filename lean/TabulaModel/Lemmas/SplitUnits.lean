import TabulaModel.Lemmas.SplitApi
/-!
C13, round 6: byte-length bounds of the pieces of `SplitToSize` for EVERY size unit and for
caller-supplied boundaries.

`FindSplitPointAt` converts the limit to a byte position `T` (`targetPosOf`: characters 1,
tokens 1/ratio, words 6, sentences 80, paragraphs 400 bytes per unit).  On a text with a space
every 50 bytes and `T ≥ 50`: without boundaries every split point is in `1..T`; with
boundaries in `1..T + T/4` (the search window of `findBestBoundaryNear`).  Hence every piece
has at most `T` (`T + T/4`) bytes or is a remainder that is within the limit in its own unit.
-/
set_option linter.unusedVariables false
namespace Tabula.Split

/-- where `FindSplitPointAt` can land when the limit lies inside a spaced text: with supplied
boundaries at most a quarter beyond the byte position of the limit -/
theorem findSplitPointAt_bound_boundaries {c : SizeConfig} {text : Str} (bs : List Boundary) {M : Nat}
    {u : SizeUnit} (hs : Spaced text) (hT : 50 ≤ targetPosOf c M u) (hlen : targetPosOf c M u < text.length) :
    1 ≤ findSplitPointAt c text bs M u
      ∧ findSplitPointAt c text bs M u ≤ targetPosOf c M u + targetPosOf c M u / 4 := by
  unfold findSplitPointAt
  simp only
  rw [if_neg (by omega)]
  split
  · rename_i b hb
    split at hb
    · obtain ⟨_, hw, _, _⟩ := findBestBoundaryNear_some hb
      obtain ⟨h1, h2⟩ := hw
      exact ⟨by omega, h2⟩
    · cases hb
  · have := findSentenceEndNear_bound hs hT hlen
    omega

/-- the generic induction: `Good` is a class of boundary lists closed under the loop's
adjustment for which every split point inside a spaced text is in `1..B` -/
theorem splitToSize_length_bound_aux (c : SizeConfig) (Good : List Boundary → Prop) (B : Nat)
    (hclosed : ∀ bs n, Good bs → Good (adjustBoundaryPositions bs n))
    (hB : targetPosOf c c.maxValue c.maxUnit ≤ B)
    (hsp : ∀ (rem : Str) (bs : List Boundary), Good bs → Spaced rem →
      targetPosOf c c.maxValue c.maxUnit < rem.length →
      1 ≤ findSplitPointAt c rem bs c.maxValue c.maxUnit ∧ findSplitPointAt c rem bs c.maxValue c.maxUnit ≤ B) :
    ∀ n (rem : Str) (bs : List Boundary), rem.length = n → Good bs → Spaced rem →
      ∀ p ∈ splitToSize c rem bs, p.length ≤ B ∨ getSize c p c.maxUnit ≤ c.maxValue := by
  intro n
  induction n using Nat.strongRecOn with
  | _ n ih =>
    intro rem bs hn hg hs p hp
    rw [splitToSize] at hp
    split at hp
    · cases hp
    · split at hp
      · rename_i hna
        have hpe : p = rem := by simpa using hp
        subst hpe
        right
        simpa [isAboveMax] using hna
      · simp only at hp
        by_cases hlen : targetPosOf c c.maxValue c.maxUnit < rem.length
        · obtain ⟨h1, h2⟩ := hsp rem bs hg hs hlen
          have hrest : ∀ q ∈ splitToSize c
              (trimSpace (rem.drop (findSplitPointAt c rem bs c.maxValue c.maxUnit)))
              (adjustBoundaryPositions bs (findSplitPointAt c rem bs c.maxValue c.maxUnit
                + leadingSpace (rem.drop (findSplitPointAt c rem bs c.maxValue c.maxUnit)))),
              q.length ≤ B ∨ getSize c q c.maxUnit ≤ c.maxValue := by
            have hl := trimSpace_length_le
              (rem.drop (findSplitPointAt c rem bs c.maxValue c.maxUnit))
            simp only [List.length_drop] at hl
            exact ih _ (by omega) _ _ rfl (hclosed _ _ hg) (hs.trimSpace_drop _)
          split at hp
          · rename_i hbad
            have hpe : p = rem := by simpa using hp
            subst hpe
            left; omega
          · split at hp
            · exact hrest p hp
            · rcases List.mem_cons.mp hp with h | h
              · subst h
                left
                have hl := trimSpace_length_le
                  (rem.take (findSplitPointAt c rem bs c.maxValue c.maxUnit))
                simp only [List.length_take] at hl
                omega
              · exact hrest p h
        · -- the byte position of the limit is not inside the text: it is returned whole
          have hfs : findSplitPointAt c rem bs c.maxValue c.maxUnit = rem.length := by
            unfold findSplitPointAt
            simp only
            rw [if_pos (by omega)]
          rw [hfs, dif_pos (Or.inr (Nat.le_refl _))] at hp
          have hpe : p = rem := by simpa using hp
          subst hpe
          left; omega

/-- **every unit, no boundaries**: a piece has at most `targetPos` bytes or is within the
limit in its own unit -/
theorem splitToSize_length_bound (c : SizeConfig) (text : Str) (hs : Spaced text)
    (hT : 50 ≤ targetPosOf c c.maxValue c.maxUnit) :
    ∀ p ∈ splitToSize c text [],
      p.length ≤ targetPosOf c c.maxValue c.maxUnit ∨ getSize c p c.maxUnit ≤ c.maxValue :=
  splitToSize_length_bound_aux c (fun bs => bs = []) _
    (fun bs n h => by subst h; rfl) (Nat.le_refl _)
    (fun rem bs hb hsr hlen => by subst hb; exact findSplitPointAt_nil_bound hsr hT hlen)
    _ text [] rfl rfl hs

/-- **every unit, any boundaries**: at most a quarter more -/
theorem splitToSize_length_bound_boundaries (c : SizeConfig) (text : Str) (bs : List Boundary)
    (hs : Spaced text) (hT : 50 ≤ targetPosOf c c.maxValue c.maxUnit) :
    ∀ p ∈ splitToSize c text bs,
      p.length ≤ targetPosOf c c.maxValue c.maxUnit + targetPosOf c c.maxValue c.maxUnit / 4
        ∨ getSize c p c.maxUnit ≤ c.maxValue :=
  splitToSize_length_bound_aux c (fun _ => True) _
    (fun _ _ _ => trivial) (Nat.le_add_right _ _)
    (fun rem bs _ hsr hlen => findSplitPointAt_bound_boundaries bs hsr hT hlen)
    _ text bs rfl trivial hs

/-- a text of at most `T + T/4` bytes has at most `M + M/4` characters / estimated tokens -/
theorem getSize_le_of_length_le_quarter {c : SizeConfig} {s : Str}
    (hunit : c.maxUnit = .characters ∨ c.maxUnit = .tokens)
    (hl : s.length ≤ targetPosOf c c.maxValue c.maxUnit + targetPosOf c c.maxValue c.maxUnit / 4) :
    getSize c s c.maxUnit ≤ c.maxValue + c.maxValue / 4 := by
  obtain ⟨hp, hq⟩ := ratio_pos c
  rcases hunit with h | h <;> rw [h] at hl ⊢ <;>
    simp only [targetPosOf, getSize, estimateTokens] at hl ⊢
  · exact hl
  · generalize c.ratio.1 = n at *
    generalize c.ratio.2 = d at *
    generalize c.maxValue = M at *
    generalize s.length = L at *
    -- T = M*d/n, L ≤ T + T/4, claim L*n/d ≤ M + M/4
    have hT : M * d / n * n ≤ M * d := Nat.div_mul_le_self _ _
    generalize M * d / n = T at *
    have h4 : 4 * L ≤ 5 * T := by omega
    have h5 : 4 * L * n ≤ 5 * T * n := Nat.mul_le_mul_right _ h4
    have h6 : 5 * T * n ≤ 5 * (M * d) := by
      rw [Nat.mul_assoc]; exact Nat.mul_le_mul_left _ hT
    have h7 : 4 * (L * n) ≤ 5 * (M * d) := by
      rw [← Nat.mul_assoc]; omega
    have h8 : M ≤ 4 * (M / 4) + 3 := by omega
    have h9 : M * d ≤ (4 * (M / 4) + 3) * d := Nat.mul_le_mul_right _ h8
    rw [Nat.add_mul, Nat.mul_assoc] at h9
    have h10 : L * n < (M + M / 4 + 1) * d := by
      rw [Nat.add_mul, Nat.add_mul, Nat.one_mul]
      generalize M * d = Y at *
      generalize M / 4 * d = Z at *
      generalize L * n = X at *
      omega
    exact Nat.le_of_lt_succ ((Nat.div_lt_iff_lt_mul hq).mpr h10)

/-- **size bound with any boundaries**: characters or tokens, `M ≥ 200`, ≤ 4 tokens per byte, a
space every 50 bytes: no piece exceeds the maximum by more than a quarter -/
theorem splitToSize_bound_boundaries (c : SizeConfig) (text : Str) (bs : List Boundary)
    (hunit : c.maxUnit = .characters ∨ c.maxUnit = .tokens)
    (hM : 200 ≤ c.maxValue) (hratio : c.ratio.1 ≤ 4 * c.ratio.2) (hs : Spaced text) :
    ∀ p ∈ splitToSize c text bs, getSize c p c.maxUnit ≤ c.maxValue + c.maxValue / 4 := by
  intro p hp
  rcases splitToSize_length_bound_boundaries c text bs hs (targetPos_ge_50 hunit hM hratio) p hp with h | h
  · exact getSize_le_of_length_le_quarter hunit h
  · omega

end Tabula.Split
