import TabulaModel.Lemmas.Docx
import TabulaModel.Model.VMergeSpec
/-!
`processVerticalMerges` (docx/tables.go) against a specification without mutable state.

The pass walks the cells row by row, keeps for every grid column the row of the latest
cell that started there and is no continuation (`mergeStarts`), and for every continuation
cell increments - in the table it is walking - the row span of the cell that covers the
continuation's start column in that row. The specification below says the same by search
in the original table: `targets rows` lists, for every continuation cell in reading order,
the (row, cell index) it adds a row to; the pass is `bumpAll rows (targets rows)`.
-/
namespace Tabula.Docx
open Tabula.Xml

/-- the pass on one cell -/
def stepEv (st : List (Option Nat) × List (List Cell)) (e : Ev) : List (Option Nat) × List (List Cell) :=
  if !e.cell.cont then (st.1.set e.col (some e.row), st.2)
  else match st.1.getD e.col none with
    | some startRow =>
      match findCellAtColumn (st.2.getD startRow []) e.col 0 0 with
      | some i => (st.1, bumpRowSpan st.2 startRow i)
      | none => st
    | none => st

theorem mergeRow_events (r : Nat) : ∀ (cells : List Cell) (col : Nat) (st : List (Option Nat) × List (List Cell)),
    mergeRow r cells col st = (rowEvents r cells col).foldl stepEv st := by
  intro cells
  induction cells with
  | nil => intro col st; rfl
  | cons c rest ih =>
    intro col st
    obtain ⟨starts, rows⟩ := st
    simp only [mergeRow, rowEvents, List.foldl_cons]
    rw [ih]
    congr 1

theorem mergeRows_events : ∀ (rows : List (List Cell)) (r : Nat) (st : List (Option Nat) × List (List Cell)),
    mergeRows rows r st = (eventsFrom rows r).foldl stepEv st := by
  intro rows
  induction rows with
  | nil => intro r st; rfl
  | cons row rest ih =>
    intro r st
    simp only [mergeRows, eventsFrom, List.foldl_append]
    rw [ih, mergeRow_events]

/-! ### the pass refines the specification -/

theorem stripRows_bumpAll (rows : List (List Cell)) : ∀ ts, stripRows (bumpAll rows ts) = stripRows rows := by
  intro ts
  induction ts generalizing rows with
  | nil => rfl
  | cons t rest ih =>
    simp only [bumpAll, List.foldl_cons]
    have := ih (bumpRowSpan rows t.1 t.2)
    simp only [bumpAll] at this
    rw [this, stripRows_bump]

/-- `findCellAtColumn` reads the column spans only -/
theorem findCell_congr : ∀ (a b : List Cell), a.map strip = b.map strip → ∀ t col i,
    findCellAtColumn a t col i = findCellAtColumn b t col i := by
  intro a
  induction a with
  | nil =>
    intro b h t col i
    cases b with
    | nil => rfl
    | cons _ _ => simp at h
  | cons x xs ih =>
    intro b h t col i
    cases b with
    | nil => simp at h
    | cons y ys =>
      simp only [List.map_cons, List.cons.injEq] at h
      have hs : x.colSpan = y.colSpan := by
        have := congrArg (fun t : Str × Nat × Bool => t.2.1) h.1
        simpa [strip] using this
      simp only [findCellAtColumn, hs]
      rw [ih ys h.2]

theorem getD_stripRows (rows : List (List Cell)) (r : Nat) : (rows.getD r []).map strip = (stripRows rows).getD r [] := by
  simp only [stripRows, List.getD_eq_getElem?_getD, List.getElem?_map]
  cases rows[r]? <;> simp

theorem findCell_bumpAll (rows : List (List Cell)) (ts : List (Nat × Nat)) (r t : Nat) :
    findCellAtColumn ((bumpAll rows ts).getD r []) t 0 0 = findCellAtColumn (rows.getD r []) t 0 0 := by
  apply findCell_congr
  rw [getD_stripRows, getD_stripRows, stripRows_bumpAll]

theorem getD_set (l : List (Option Nat)) (i j : Nat) (v : Option Nat) :
    (l.set i v).getD j none = if i = j ∧ i < l.length then v else l.getD j none := by
  simp only [List.getD_eq_getElem?_getD, List.getElem?_set]
  by_cases h : i = j
  · subst h
    by_cases hl : i < l.length
    · simp [hl]
    · simp only [hl, and_false, if_false, if_true]
      have : l[i]? = none := by simp; omega
      simp [this]
  · simp [h]

/-- `mergeStarts` holds, for every column, the row the specification finds by search -/
def StartsInv (cc : Nat) (starts : List (Option Nat)) (rev : List Ev) : Prop :=
  starts.length = cc ∧ ∀ col, starts.getD col none = lastStart cc rev col

theorem fold_refines (cc : Nat) (rows : List (List Cell)) : ∀ (evs rev : List Ev) (starts : List (Option Nat)) (ts : List (Nat × Nat)),
    StartsInv cc starts rev →
    (evs.foldl stepEv (starts, bumpAll rows ts)).2 = bumpAll rows (ts ++ targetsFrom cc rows evs rev) := by
  intro evs
  induction evs with
  | nil => intro rev starts ts _; simp [targetsFrom]
  | cons e rest ih =>
    intro rev starts ts hinv
    obtain ⟨hlen, hget⟩ := hinv
    simp only [List.foldl_cons, targetsFrom]
    by_cases hc : e.cell.cont = true
    · -- a continuation cell: mergeStarts unchanged, one row added to its target
      have hinv' : StartsInv cc starts (e :: rev) := by
        refine ⟨hlen, fun col => ?_⟩
        rw [hget col]
        simp [lastStart, List.find?_cons, startsAt, hc]
      simp only [stepEv, hc, Bool.not_true, Bool.false_eq_true, if_false, targetOf, if_true]
      rw [hget e.col]
      cases hls : lastStart cc rev e.col with
      | none =>
        simp only [Option.toList, List.nil_append]
        exact ih (e :: rev) starts ts hinv'
      | some sr =>
        simp only []
        rw [findCell_bumpAll]
        cases hf : findCellAtColumn (rows.getD sr []) e.col 0 0 with
        | none =>
          simp only [Option.map_none, Option.toList, List.nil_append]
          exact ih (e :: rev) starts ts hinv'
        | some i =>
          simp only [Option.map_some, Option.toList]
          have hb : bumpRowSpan (bumpAll rows ts) sr i = bumpAll rows (ts ++ [(sr, i)]) := by
            simp [bumpAll, List.foldl_append]
          rw [hb, ih (e :: rev) starts (ts ++ [(sr, i)]) hinv']
          simp [List.append_assoc]
    · -- any other cell: its start column now points to its row
      have hc' : e.cell.cont = false := by simpa using hc
      have hinv' : StartsInv cc (starts.set e.col (some e.row)) (e :: rev) := by
        refine ⟨by rw [List.length_set]; exact hlen, fun col => ?_⟩
        rw [getD_set, hget col, hlen]
        simp only [lastStart, List.find?_cons, startsAt, hc', Bool.not_false, Bool.true_and]
        by_cases h1 : e.col = col
        · subst h1
          by_cases h2 : e.col < cc
          · simp [h2]
          · simp [h2]
        · have : (e.col == col) = false := by simpa using h1
          simp [h1, this]
      simp only [stepEv, hc', Bool.not_false, if_true, targetOf, Bool.false_eq_true, if_false, Option.toList, List.nil_append]
      exact ih (e :: rev) _ ts hinv'

theorem startsInv_init (cc : Nat) : StartsInv cc (List.replicate cc none) [] := by
  refine ⟨by simp, fun col => ?_⟩
  simp [lastStart, List.getD_eq_getElem?_getD, List.getElem?_replicate]
  split <;> rfl

/-- **the pass is the specification**: `processVerticalMerges` adds one row to each target, nothing else -/
theorem processVerticalMerges_spec (rows : List (List Cell)) :
    processVerticalMerges rows = bumpAll rows (targets rows) := by
  unfold processVerticalMerges targets events
  rw [mergeRows_events]
  have := fold_refines (colCount rows) rows (eventsFrom rows 0) [] (List.replicate (colCount rows) none) [] (startsInv_init _)
  simpa [bumpAll] using this

/-! ### row spans -/

/-- cell number `i` of row `r` -/
def cellAt (rows : List (List Cell)) (r i : Nat) : Option Cell := (rows[r]?).bind (·[i]?)

theorem cellAt_bump (rows : List (List Cell)) (r i r' i' : Nat) :
    cellAt (bumpRowSpan rows r i) r' i' =
      (cellAt rows r' i').map fun c => if r = r' ∧ i = i' then { c with rowSpan := c.rowSpan + 1 } else c := by
  unfold cellAt bumpRowSpan
  rw [List.getElem?_modify]
  cases hr : rows[r']? with
  | none => simp
  | some row =>
    simp only [Option.map_eq_map, Option.map_some, Option.bind_some]
    by_cases h1 : r = r'
    · simp only [h1, if_true, true_and]
      rw [List.getElem?_modify]
      cases row[i']? <;> simp
    · simp only [h1, if_false, false_and]
      cases row[i']? <;> simp

theorem rowSpan_bumpAll : ∀ (ts : List (Nat × Nat)) (rows : List (List Cell)) (r i : Nat),
    (cellAt (bumpAll rows ts) r i).map (·.rowSpan) = (cellAt rows r i).map fun c => c.rowSpan + ts.count (r, i) := by
  intro ts
  induction ts with
  | nil => intro rows r i; simp [bumpAll]
  | cons t rest ih =>
    intro rows r i
    have hstep : bumpAll rows (t :: rest) = bumpAll (bumpRowSpan rows t.1 t.2) rest := by simp [bumpAll]
    rw [hstep, ih, cellAt_bump]
    cases cellAt rows r i with
    | none => simp
    | some c =>
      simp only [Option.map_some, List.count_cons]
      by_cases h : t.1 = r ∧ t.2 = i
      · have hb : (t == (r, i)) = true := by
          obtain ⟨h1, h2⟩ := h
          cases t; simp_all
        simp only [h, and_self, if_true, hb, Option.some.injEq]
        omega
      · have hb : (t == (r, i)) = false := by
          cases t
          simp only [Prod.mk.injEq, not_and] at h
          simp only [beq_eq_false_iff_ne, ne_eq, Prod.mk.injEq, not_and]
          exact h
        simp [h, hb]

end Tabula.Docx
