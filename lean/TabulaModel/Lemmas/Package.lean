import TabulaModel.Model.Package
/-!
Helper lemmas for C18: archive lookup (append, permutation), the skip loop as a
`filterMap`, percent-encoding round trip.
-/
namespace Tabula.Package

/-! ### lookup -/

theorem lookup_mem {a : Archive} {n : Str} {c : Nat} (h : lookup a n = some c) : (n, c) ∈ a := by
  induction a with
  | nil => simp [lookup] at h
  | cons m rest ih =>
    obtain ⟨k, v⟩ := m
    simp only [lookup] at h
    split at h
    · rename_i hk
      cases h
      subst hk
      exact List.mem_cons_self
    · exact List.mem_cons_of_mem _ (ih h)

theorem lookup_of_mem {a : Archive} (hn : (a.map Prod.fst).Nodup) {n : Str} {c : Nat}
    (h : (n, c) ∈ a) : lookup a n = some c := by
  induction a with
  | nil => cases h
  | cons m rest ih =>
    obtain ⟨k, v⟩ := m
    simp only [List.map_cons, List.nodup_cons] at hn
    simp only [lookup]
    rcases List.mem_cons.mp h with h | h
    · cases h
      simp
    · have hne : k ≠ n := by
        intro e
        subst e
        exact hn.1 (List.mem_map.mpr ⟨(k, c), h, rfl⟩)
      simp only [hne, if_false]
      exact ih hn.2 h

/-- with distinct member names, lookup does not depend on the archive order -/
theorem lookup_perm {a a' : Archive} (hn : (a.map Prod.fst).Nodup) (hp : a.Perm a') (n : Str) :
    lookup a n = lookup a' n := by
  have hn' : (a'.map Prod.fst).Nodup := (hp.map Prod.fst).nodup_iff.mp hn
  cases h : lookup a n with
  | some c =>
    exact (lookup_of_mem hn' (hp.mem_iff.mp (lookup_mem h))).symm
  | none =>
    cases h' : lookup a' n with
    | none => rfl
    | some c =>
      have := lookup_of_mem hn (hp.mem_iff.mpr (lookup_mem h'))
      rw [h] at this
      cases this

theorem lookup_perm_fun {a a' : Archive} (hn : (a.map Prod.fst).Nodup) (hp : a.Perm a') :
    lookup a = lookup a' := funext (lookup_perm hn hp)

theorem lookup_none_of_not_mem {e : Archive} {n : Str} (h : n ∉ e.map Prod.fst) : lookup e n = none := by
  cases h' : lookup e n with
  | none => rfl
  | some c => exact absurd (List.mem_map.mpr ⟨(n, c), lookup_mem h', rfl⟩) h

theorem lookup_append (a e : Archive) (n : Str) :
    lookup (a ++ e) n = match lookup a n with
      | some c => some c
      | none => lookup e n := by
  induction a with
  | nil => simp [lookup]
  | cons m rest ih =>
    obtain ⟨k, v⟩ := m
    simp only [List.cons_append, lookup]
    split
    · rfl
    · exact ih

/-- members added behind the archive under a name nobody else has are invisible
to a lookup of any other name -/
theorem lookup_append_other (a e : Archive) (n : Str) (h : n ∉ e.map Prod.fst) :
    lookup (a ++ e) n = lookup a n := by
  rw [lookup_append, lookup_none_of_not_mem h]
  cases lookup a n <;> rfl

/-! ### the skip loop -/

theorem loopIdx_eq_filterMap {α β : Type} (f : Nat → α → Option β) (i : Nat) (l : List α) :
    loopIdx f i l = (l.zipIdx i).filterMap (fun e => f e.2 e.1) := by
  induction l generalizing i with
  | nil => rfl
  | cons e rest ih =>
    simp only [loopIdx, List.zipIdx_cons, List.filterMap_cons]
    cases f i e with
    | some v => simp [ih]
    | none => simp [ih]

theorem loopIdx_congr {α β : Type} (f g : Nat → α → Option β) (l : List α)
    (h : ∀ e ∈ l, ∀ j, f j e = g j e) (i : Nat) : loopIdx f i l = loopIdx g i l := by
  induction l generalizing i with
  | nil => rfl
  | cons e rest ih =>
    simp only [loopIdx]
    rw [h e List.mem_cons_self i, ih (fun e' he' => h e' (List.mem_cons_of_mem _ he'))]

theorem filterMap_congr_mem {α β : Type} {f g : α → Option β} {l : List α}
    (h : ∀ a ∈ l, f a = g a) : l.filterMap f = l.filterMap g := by
  induction l with
  | nil => rfl
  | cons a rest ih =>
    simp only [List.filterMap_cons]
    rw [h a List.mem_cons_self, ih (fun b hb => h b (List.mem_cons_of_mem _ hb))]

theorem length_filterMap_eq_countP {α β : Type} (f : α → Option β) (l : List α) :
    (l.filterMap f).length = l.countP (fun a => (f a).isSome) := by
  induction l with
  | nil => rfl
  | cons a rest ih =>
    simp only [List.filterMap_cons, List.countP_cons]
    cases f a with
    | some v => simp [ih]
    | none => simp [ih]

/-! ### percent-encoding -/

/-- RFC 3986 unreserved characters: never escaped -/
def unreserved (b : Nat) : Bool :=
  (65 ≤ b && b ≤ 90) || (97 ≤ b && b ≤ 122) || (48 ≤ b && b ≤ 57) || b = 45 || b = 46 || b = 95 || b = 126

/-- upper-case hex digit -/
def hexU (d : Nat) : Nat := if d < 10 then 48 + d else 55 + d

/-- percent-encode a byte string: unreserved bytes literally, every other byte
(incl. `/`, `+`, space, `%`, non-ASCII) as `%XX` -/
def pctEncode : Str → Str
  | [] => []
  | b :: rest => if unreserved b then b :: pctEncode rest else 37 :: hexU (b / 16) :: hexU (b % 16) :: pctEncode rest

/-- a milder encoder that also keeps `/` and the sub-delimiters (`+` among them)
literal, as most producers do for manifest hrefs -/
def pctEncodePath : Str → Str
  | [] => []
  | b :: rest =>
    if unreserved b ∨ b = 47 ∨ b = 43 ∨ b = 33 ∨ b = 36 ∨ b = 38 ∨ b = 39 ∨ b = 40 ∨ b = 41 ∨ b = 42 ∨ b = 44
        ∨ b = 59 ∨ b = 61 ∨ b = 58 ∨ b = 64 then b :: pctEncodePath rest
    else 37 :: hexU (b / 16) :: hexU (b % 16) :: pctEncodePath rest

theorem hexVal_hexU (d : Nat) (h : d < 16) : hexVal (hexU d) = some d := by
  unfold hexU hexVal
  split
  · rename_i h1
    have : 48 ≤ 48 + d ∧ 48 + d ≤ 57 := by omega
    simp only [this, and_self, if_true]
    congr 1
    omega
  · rename_i h1
    have h2 : ¬ (48 ≤ 55 + d ∧ 55 + d ≤ 57) := by omega
    have h3 : ¬ (97 ≤ 55 + d ∧ 55 + d ≤ 102) := by omega
    have h4 : 65 ≤ 55 + d ∧ 55 + d ≤ 70 := by omega
    simp only [h2, h3, h4, and_self, if_true, if_false]
    congr 1
    omega

theorem pathUnescape_escape (b : Nat) (hb : b < 256) (rest : Str) :
    pathUnescape (37 :: hexU (b / 16) :: hexU (b % 16) :: rest) = (pathUnescape rest).map (fun r => b :: r) := by
  have h1 := hexVal_hexU (b / 16) (by omega)
  have h2 := hexVal_hexU (b % 16) (by omega)
  have e : b / 16 * 16 + b % 16 = b := by omega
  rw [pathUnescape.eq_2]
  simp only [↓reduceIte, h1, h2, e]

theorem pathUnescape_literal (b : Nat) (hb : b ≠ 37) (rest : Str) :
    pathUnescape (b :: rest) = (pathUnescape rest).map (fun r => b :: r) := by
  rw [pathUnescape.eq_def]
  simp only [hb, if_false]

/-- `url.PathUnescape` inverts percent-encoding, for every byte string -/
theorem pathUnescape_pctEncode (p : Str) (hp : ∀ b ∈ p, b < 256) : pathUnescape (pctEncode p) = some p := by
  induction p with
  | nil => rfl
  | cons b rest ih =>
    have ih' := ih (fun c hc => hp c (List.mem_cons_of_mem _ hc))
    unfold pctEncode
    split
    · rename_i hu
      have hb : b ≠ 37 := by
        intro e
        subst e
        simp [unreserved] at hu
      rw [pathUnescape_literal b hb, ih']
      rfl
    · rw [pathUnescape_escape b (hp b List.mem_cons_self), ih']
      rfl

theorem pathUnescape_pctEncodePath (p : Str) (hp : ∀ b ∈ p, b < 256) : pathUnescape (pctEncodePath p) = some p := by
  induction p with
  | nil => rfl
  | cons b rest ih =>
    have ih' := ih (fun c hc => hp c (List.mem_cons_of_mem _ hc))
    unfold pctEncodePath
    split
    · rename_i hu
      have hb : b ≠ 37 := by
        intro e
        subst e
        simp [unreserved] at hu
      rw [pathUnescape_literal b hb, ih']
      rfl
    · rw [pathUnescape_escape b (hp b List.mem_cons_self), ih']
      rfl

end Tabula.Package
