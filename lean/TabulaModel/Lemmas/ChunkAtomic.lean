import TabulaModel.Model.ChunkAtomic
/-!
Helper lemmas for property C12: the index-driven loop of `splitSectionByParagraphs` with
`FindAtomicBlocks` / `GetAtomicBlockAt` (`Model/ChunkAtomic.lean`) computes what the list
recursion `paraLoop` (`Model/ChunkLayout.lean`) computes.
-/
namespace Tabula.ChunkAtomic
open Tabula.Chunk Tabula.ChunkLayout

/-- `blocks[i-1]` when the loop stands behind `pre` -/
def lastOf (prev : Option CE) (pre : List CE) : Option CE :=
  match pre.getLast? with
  | some x => some x
  | none => prev

theorem lastOf_nil (prev : Option CE) : lastOf prev [] = prev := rfl

theorem lastOf_snoc (prev : Option CE) (pre : List CE) (e : CE) : lastOf prev (pre ++ [e]) = some e := by
  simp [lastOf]

theorem lastOf_cons (prev : Option CE) (e : CE) (l : List CE) : lastOf prev (e :: l) = lastOf (some e) l := by
  cases l with
  | nil => rfl
  | cons x xs =>
    unfold lastOf
    rw [List.getLast?_cons_cons]
    cases h : (x :: xs).getLast? with
    | none => simp at h
    | some y => rfl

theorem findFrom_append (keep : Bool) (prev : Option CE) (j : Nat) (a b : List CE) :
    findFrom keep prev j (a ++ b) = findFrom keep prev j a ++ findFrom keep (lastOf prev a) (j + a.length) b := by
  induction a generalizing prev j with
  | nil => simp [findFrom, lastOf_nil]
  | cons e es ih =>
    simp only [List.cons_append, findFrom, List.length_cons, lastOf_cons]
    have : j + (es.length + 1) = j + 1 + es.length := by omega
    split
    · rw [ih, this]; rfl
    · rw [ih, this]

/-- where the blocks found from index `j` on lie -/
theorem findFrom_bounds (keep : Bool) (prev : Option CE) (j : Nat) (l : List CE) :
    ∀ b ∈ findFrom keep prev j l, j ≤ b.2 ∧ b.2 < j + l.length ∧ j ≤ b.1 + 1 := by
  induction l generalizing prev j with
  | nil => intro b hb; simp [findFrom] at hb
  | cons e es ih =>
    intro b hb
    simp only [findFrom] at hb
    have hrest : ∀ b ∈ findFrom keep (some e) (j + 1) es, j ≤ b.2 ∧ b.2 < j + (e :: es).length ∧ j ≤ b.1 + 1 := by
      intro b hb
      obtain ⟨h1, h2, h3⟩ := ih (some e) (j + 1) b hb
      simp only [List.length_cons]
      omega
    split at hb
    · rcases List.mem_cons.mp hb with rfl | hb
      · simp only [List.length_cons]
        refine ⟨Nat.le_refl _, by omega, ?_⟩
        unfold blockStart
        cases prev with
        | none => simp
        | some p => simp only; split <;> omega
      · exact hrest b hb
    · exact hrest b hb

theorem find_skip {α} (p : α → Bool) (xs ys : List α) (h : ∀ x ∈ xs, p x = false) :
    (xs ++ ys).find? p = ys.find? p := by
  rw [List.find?_append, List.find?_eq_none.mpr (fun x hx => by simp [h x hx])]
  rfl

/-- the arrival condition of the loop: it never stands on a list whose introducing paragraph it
has just passed (that paragraph's block would have carried it past the list) -/
def Arr (keep : Bool) (prev : Option CE) (suf : List CE) : Prop :=
  ∀ p e r, keep = true → prev = some p → suf = e :: r → p.kind = .para → p.intro = true → e.kind ≠ .list

/-- what `GetAtomicBlockAt` is to find at position `i`, the rest of the content being `suf` -/
def expectBlock (keep : Bool) (i : Nat) : List CE → Option Block
  | [] => none
  | [e] => if keep && e.kind == .list then some (i, i) else none
  | e :: n :: _ =>
    if keep && e.kind == .list then some (i, i)
    else if keep && n.kind == .list && (e.kind == .para && e.intro) then some (i, i + 1)
    else none

/-- what `GetAtomicBlockAt` finds at the position behind `pre` -/
theorem getBlock (keep : Bool) (pre suf : List CE) (harr : Arr keep (lastOf none pre) suf) :
    getAtomicBlockAt pre.length (findAtomicBlocks keep (pre ++ suf)) = expectBlock keep pre.length suf := by
  unfold findAtomicBlocks getAtomicBlockAt
  have hskip : ∀ b ∈ findFrom keep none 0 pre, (decide (b.1 ≤ pre.length) && decide (pre.length ≤ b.2)) = false := by
    intro b hb
    obtain ⟨_, h2, _⟩ := findFrom_bounds keep none 0 pre b hb
    have : ¬ pre.length ≤ b.2 := by omega
    simp [this]
  rw [findFrom_append, find_skip _ _ _ hskip]
  simp only [Nat.zero_add]
  generalize hprev : lastOf none pre = prev at harr
  generalize pre.length = i
  have hnone : ∀ (pv : Option CE) (j : Nat) (l : List CE), i + 1 < j →
      (findFrom keep pv j l).find? (fun b => decide (b.1 ≤ i) && decide (i ≤ b.2)) = none := by
    intro pv j l hj
    rw [List.find?_eq_none]
    intro b hb
    obtain ⟨_, _, h3⟩ := findFrom_bounds keep pv j l b hb
    have : ¬ b.1 ≤ i := by omega
    simp [this]
  cases suf with
  | nil => simp [findFrom, expectBlock]
  | cons e rest =>
    by_cases hk : (keep && e.kind == .list) = true
    · -- a list: its own block, which starts here
      have hstart : blockStart prev i = i := by
        unfold blockStart
        cases prev with
        | none => rfl
        | some p =>
          simp only
          split
          · rename_i hp
            simp only [Bool.and_eq_true, beq_iff_eq] at hp hk
            exact absurd hk.2 (harr p e rest hk.1 rfl rfl hp.1 hp.2)
          · rfl
      cases rest with
      | nil => simp [findFrom, expectBlock, hk, hstart]
      | cons n r => simp [findFrom, expectBlock, hk, hstart]
    · cases rest with
      | nil => simp [findFrom, expectBlock, hk]
      | cons n r =>
        simp only [findFrom, expectBlock, hk, Bool.false_eq_true, if_false]
        by_cases hn : (keep && n.kind == .list) = true
        · simp only [hn, if_true, List.find?_cons]
          have hk' : keep = true := by simp only [Bool.and_eq_true] at hn; exact hn.1
          have hnl : (n.kind == .list) = true := by simp only [Bool.and_eq_true] at hn; exact hn.2
          by_cases hint : (e.kind == .para && e.intro) = true
          · have hbs : blockStart (some e) (i + 1) = i := by
              unfold blockStart; simp only [hint, if_true]; omega
            rw [hbs]
            simp [hint]
          · have hbs : blockStart (some e) (i + 1) = i + 1 := by
              unfold blockStart; simp only [hint, Bool.false_eq_true, if_false]
            rw [hbs]
            have hf : (e.kind == .para && e.intro) = false := by simpa using hint
            have h1 : (decide (i + 1 ≤ i) && decide (i ≤ i + 1)) = false := by
              have : ¬ i + 1 ≤ i := by omega
              simp [this]
            simp only [h1, hf, Bool.and_false, Bool.false_eq_true, if_false]
            exact hnone (some n) (i + 1 + 1) r (by omega)
        · simp only [hn, Bool.false_eq_true, if_false]
          rw [hnone (some n) (i + 1 + 1) r (by omega)]
          simp

theorem getElem_append_length {α} (pre : List α) (x : α) (rest : List α) :
    (pre ++ x :: rest)[pre.length]? = some x := by
  simp

theorem getElem_append_length_succ {α} (pre : List α) (x y : α) (rest : List α) :
    (pre ++ x :: y :: rest)[pre.length + 1]? = some y := by
  have : pre ++ x :: y :: rest = (pre ++ [x]) ++ y :: rest := by simp
  rw [this]
  have := getElem_append_length (pre ++ [x]) y rest
  simp

theorem take_drop_one {α} (pre : List α) (x : α) (rest : List α) :
    ((pre ++ x :: rest).drop pre.length).take 1 = [x] := by
  simp

theorem take_drop_two {α} (pre : List α) (x y : α) (rest : List α) :
    ((pre ++ x :: y :: rest).drop pre.length).take 2 = [x, y] := by
  simp

/-- **the index-driven loop is the list recursion** -/
theorem paraLoopAt_eq (cfg : Cfg) (info : SecInfo) (fuel : Nat) (pre suf : List CE) (s : LS)
    (hf : suf.length ≤ fuel) (harr : Arr cfg.keepLists (lastOf none pre) suf) :
    paraLoopAt cfg info (pre ++ suf) (findAtomicBlocks cfg.keepLists (pre ++ suf)) fuel pre.length s =
      paraLoop cfg info suf s := by
  induction fuel generalizing pre suf s with
  | zero =>
    have : suf = [] := List.eq_nil_of_length_eq_zero (by omega)
    subst this
    simp [paraLoopAt, paraLoop]
  | succ fuel ih =>
    have hblock := getBlock cfg.keepLists pre suf harr
    cases suf with
    | nil => simp [paraLoopAt, paraLoop]
    | cons e rest =>
      -- the positions reached from here satisfy the arrival condition
      have arr_list : ∀ (x : CE) (pre' suf' : List CE), x.kind = .list →
          Arr cfg.keepLists (lastOf none (pre' ++ [x])) suf' := by
        intro x pre' suf' hx p e' r _ hp _ hpk _
        rw [lastOf_snoc] at hp
        cases hp
        rw [hx] at hpk; cases hpk
      cases rest with
      | nil =>
        simp only [paraLoopAt, getElem_append_length, hblock, expectBlock]
        have hnext : (pre ++ [e])[pre.length + 1]? = none := by simp
        by_cases hk : (cfg.keepLists && e.kind == .list) = true
        · simp only [hk, if_true]
          have h1 : pre.length + 1 - pre.length = 1 := by omega
          rw [h1, take_drop_one]
          have he : e.kind = .list := by simp only [Bool.and_eq_true, beq_iff_eq] at hk; exact hk.2
          have := ih (pre ++ [e]) [] (atomicBlock cfg info [e] s) (by simp) (arr_list e pre [] he)
          simp only [List.append_nil, List.length_append, List.length_cons, List.length_nil] at this
          rw [this]
          simp [paraLoop, hk]
        · simp only [hk, Bool.false_eq_true, if_false, hnext]
          have := ih (pre ++ [e]) [] (plainElem cfg info e s) (by simp)
            (by intro p e' r _ _ hs; cases hs)
          simp only [List.append_nil, List.length_append, List.length_cons, List.length_nil] at this
          rw [this]
          simp [paraLoop, hk]
      | cons n r =>
        simp only [paraLoopAt, getElem_append_length, hblock, expectBlock]
        have hpre1 : pre ++ e :: n :: r = (pre ++ [e]) ++ n :: r := by simp
        have hpre2 : pre ++ e :: n :: r = (pre ++ [e, n]) ++ r := by simp
        have hlen : r.length ≤ fuel ∧ (n :: r).length ≤ fuel := by
          simp only [List.length_cons] at hf ⊢; omega
        by_cases hk : (cfg.keepLists && e.kind == .list) = true
        · simp only [hk, if_true]
          have h1 : pre.length + 1 - pre.length = 1 := by omega
          rw [h1, take_drop_one]
          have he : e.kind = .list := by simp only [Bool.and_eq_true, beq_iff_eq] at hk; exact hk.2
          have := ih (pre ++ [e]) (n :: r) (atomicBlock cfg info [e] s) hlen.2 (arr_list e pre _ he)
          simp only [List.length_append, List.length_cons, List.length_nil, ← hpre1] at this
          rw [this]
          rw [paraLoop, if_pos hk]
        · simp only [hk, Bool.false_eq_true, if_false]
          by_cases hi : (e.kind == .para && n.kind == .list && e.intro) = true
          · have hi' : e.kind = .para ∧ n.kind = .list ∧ e.intro = true := by
              simp only [Bool.and_eq_true, beq_iff_eq] at hi; exact ⟨hi.1.1, hi.1.2, hi.2⟩
            by_cases hkeep : cfg.keepLists = true
            · have hc : (cfg.keepLists && n.kind == .list && (e.kind == .para && e.intro)) = true := by
                simp [hkeep, hi'.1, hi'.2.1, hi'.2.2]
              simp only [hc, if_true]
              have h2 : pre.length + 1 + 1 - pre.length = 2 := by omega
              rw [h2, take_drop_two]
              have := ih (pre ++ [e, n]) r (atomicBlock cfg info [e, n] s) hlen.1
                (by
                  have : pre ++ [e, n] = (pre ++ [e]) ++ [n] := by simp
                  rw [this]; exact arr_list n _ _ hi'.2.1)
              simp only [List.length_append, List.length_cons, List.length_nil, ← hpre2] at this
              rw [this]
              rw [paraLoop, if_neg hk, if_pos hi, if_pos hkeep]
            · have hkf : cfg.keepLists = false := by simpa using hkeep
              have hc : (cfg.keepLists && n.kind == .list && (e.kind == .para && e.intro)) = false := by
                rw [hkf]; rfl
              simp only [hc, Bool.false_eq_true, if_false, getElem_append_length_succ, hi, if_true]
              have := ih (pre ++ [e, n]) r
                { (flushIfOver cfg info ((e.text.length : Int) + 2 + (n.text.length : Int)) s) with
                  cur := joinPara (flushIfOver cfg info ((e.text.length : Int) + 2 + (n.text.length : Int)) s).cur e.text
                    ++ [10, 10] ++ n.text } hlen.1
                (by intro p e' r' hkk; rw [hkf] at hkk; cases hkk)
              have hl2 : (pre ++ [e, n]).length = pre.length + 2 := by simp
              rw [hl2, ← hpre2] at this
              rw [this]
              rw [paraLoop, if_neg hk, if_pos hi, if_neg hkeep]
          · have hc : (cfg.keepLists && n.kind == .list && (e.kind == .para && e.intro)) = false := by
              rw [Bool.eq_false_iff]
              intro h
              simp only [Bool.and_eq_true] at h
              apply hi
              simp only [Bool.and_eq_true]
              exact ⟨⟨h.2.1, h.1.2⟩, h.2.2⟩
            simp only [hc, Bool.false_eq_true, if_false, getElem_append_length_succ, hi]
            have := ih (pre ++ [e]) (n :: r) (plainElem cfg info e s) hlen.2
              (by
                intro p e' r' hkk hp hs hpk hpi
                rw [lastOf_snoc] at hp
                cases hp; cases hs
                intro hnl
                apply hi
                simp [hpk, hnl, hpi])
            simp only [List.length_append, List.length_cons, List.length_nil, ← hpre1] at this
            rw [this]
            rw [paraLoop, if_neg hk, if_neg hi]

/-- `splitSectionByParagraphs` written with `FindAtomicBlocks` / `GetAtomicBlockAt` and an index
is the `splitSectionByParagraphs` of `Model/ChunkLayout.lean` -/
theorem splitSectionAt_eq (cfg : Cfg) (info : SecInfo) (content : List CE) (idx : Nat) :
    splitSectionByParagraphsAt cfg info content idx = splitSectionByParagraphs cfg info content idx := by
  unfold splitSectionByParagraphsAt splitSectionByParagraphs
  have := paraLoopAt_eq cfg info content.length [] content ⟨[], [], idx⟩ (Nat.le_refl _)
    (by intro p e r _ hp; cases hp)
  simp only [List.nil_append, List.length_nil] at this
  rw [this]

theorem chunkSectionAt_eq (cfg : Cfg) (info : SecInfo) (content : List CE) (idx : Nat) :
    chunkSectionAt cfg info content idx = chunkSection cfg info content idx := by
  unfold chunkSectionAt chunkSection
  rw [splitSectionAt_eq]

mutual
theorem chunkTreeAt_eq (cfg : Cfg) : ∀ (s : Sec) (idx : Nat), chunkTreeAt cfg s idx = chunkTree cfg s idx
  | .mk info content children, idx => by
    simp only [chunkTreeAt, chunkTree, chunkSectionAt_eq]
    rw [chunkForestAt_eq cfg children]
theorem chunkForestAt_eq (cfg : Cfg) : ∀ (ss : List Sec) (idx : Nat), chunkForestAt cfg ss idx = chunkForest cfg ss idx
  | [], _ => by simp [chunkForestAt, chunkForest]
  | s :: ss, idx => by
    simp only [chunkForestAt, chunkForest]
    rw [chunkTreeAt_eq cfg s, chunkForestAt_eq cfg ss]
end

theorem chunkByParagraphsAt_eq (cfg : Cfg) (title : Str) (d : LDoc) :
    chunkByParagraphsAt cfg title d = chunkByParagraphs cfg title d := by
  unfold chunkByParagraphsAt chunkByParagraphs
  cases (fallbackContent d).head? <;> cases (fallbackContent d).getLast? <;> simp only [splitSectionAt_eq]

theorem chunkAt_eq (cfg : Cfg) (title : Str) (d : LDoc) : chunkAt cfg title d = chunk cfg title d := by
  unfold chunkAt chunk
  simp only [chunkForestAt_eq, chunkByParagraphsAt_eq]

/-- a block is a list, alone or with the paragraph before it -/
theorem findFrom_shape (keep : Bool) (prev : Option CE) (j : Nat) (l : List CE) :
    ∀ b ∈ findFrom keep prev j l, b.1 ≤ b.2 ∧ b.2 ≤ b.1 + 1 := by
  induction l generalizing prev j with
  | nil => intro b hb; simp [findFrom] at hb
  | cons e es ih =>
    intro b hb
    simp only [findFrom] at hb
    split at hb
    · rcases List.mem_cons.mp hb with rfl | hb
      · unfold blockStart
        cases prev with
        | none => simp
        | some p => simp only; split <;> omega
      · exact ih _ _ b hb
    · exact ih _ _ b hb

end Tabula.ChunkAtomic
