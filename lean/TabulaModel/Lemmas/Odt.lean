import TabulaModel.Model.Odt
/-!
Helper lemmas for C16 (ODT model): inline content, the streaming body walk.
-/
namespace Tabula.Odt
open Tabula.Xml

theorem inlineList_append (a b : List Node) : inlineList (a ++ b) = inlineList a ++ inlineList b := by
  induction a with
  | nil => simp [inlineList]
  | cons n rest ih => simp [inlineList, ih]

mutual
/-- no `office:text` element anywhere in the subtree -/
def noTextNode : Node → Bool
  | .text _ => true
  | .elem tag _ kids => tag != sOfficeText && noTextList kids
def noTextList : List Node → Bool
  | [] => true
  | n :: rest => noTextNode n && noTextList rest
end

mutual
/-- the elements a subtree of the text body stands for, as a function of the tree alone:
`p`, `h`, `list`, `table` give their elements; any other element (a section, …) gives what
its children give, in order -/
def elemsOfNode (defs : List StyleDef) : Node → List Elem
  | .text _ => []
  | .elem tag attrs kids =>
    if localName tag == sP then [.para (processParagraph (.elem tag attrs kids))]
    else if localName tag == sH then [.para (processHeading defs (.elem tag attrs kids))]
    else if localName tag == sList then listElems (.elem tag attrs kids)
    else if localName tag == sTable then [.table (parseTable (.elem tag attrs kids))]
    else elemsOfList defs kids
def elemsOfList (defs : List StyleDef) : List Node → List Elem
  | [] => []
  | n :: rest => elemsOfNode defs n ++ elemsOfList defs rest
end

/-- inside the text body the streaming walk appends exactly `elemsOfNode`, in source order -/
theorem walk_inside_node (defs : List StyleDef) (n : Node) :
    ∀ w : Walk, w.inBody = true → noTextNode n = true →
      walkNode defs n w = { w with acc := w.acc ++ elemsOfNode defs n } := by
  induction n using Node.rec (motive_2 := fun l => ∀ w : Walk, w.inBody = true → noTextList l = true →
      walkList defs l w = { w with acc := w.acc ++ elemsOfList defs l }) with
  | elem tag attrs kids ih =>
    intro w hb hn
    simp only [noTextNode, Bool.and_eq_true, bne_iff_ne, ne_eq] at hn
    have hne : (tag == sOfficeText) = false := by
      cases h : tag == sOfficeText
      · rfl
      · exact absurd (by simpa using h) hn.1
    simp only [walkNode, elemsOfNode, hne, hb, Bool.false_eq_true, if_false, Bool.not_true]
    split
    · rfl
    · split
      · rfl
      · split
        · rfl
        · split
          · rfl
          · rw [ih w hb hn.2, hb]
  | text s => intro w _ _; simp [walkNode, elemsOfNode]
  | nil => simp [walkList, elemsOfList]
  | cons n rest ihn ihr =>
    rename_i w hb hn
    simp only [noTextList, Bool.and_eq_true] at hn
    simp only [walkList, elemsOfList]
    rw [ihn w hb hn.1, ihr { w with acc := w.acc ++ elemsOfNode defs n } hb hn.2]
    simp [List.append_assoc]

theorem walk_inside_list (defs : List StyleDef) (l : List Node) :
    ∀ w : Walk, w.inBody = true → noTextList l = true →
      walkList defs l w = { w with acc := w.acc ++ elemsOfList defs l } := by
  induction l with
  | nil => intro w _ _; simp [walkList, elemsOfList]
  | cons n rest ih =>
    intro w hb hn
    simp only [noTextList, Bool.and_eq_true] at hn
    simp only [walkList, elemsOfList]
    rw [walk_inside_node defs n w hb hn.1, ih { w with acc := w.acc ++ elemsOfNode defs n } hb hn.2]
    simp [List.append_assoc]

/-- outside the text body nothing is recorded -/
theorem walk_outside_node (defs : List StyleDef) (n : Node) :
    ∀ w : Walk, w.inBody = false → noTextNode n = true → walkNode defs n w = w := by
  induction n using Node.rec (motive_2 := fun l => ∀ w : Walk, w.inBody = false → noTextList l = true →
      walkList defs l w = w) with
  | elem tag attrs kids ih =>
    intro w hb hn
    simp only [noTextNode, Bool.and_eq_true, bne_iff_ne, ne_eq] at hn
    have hne : (tag == sOfficeText) = false := by
      cases h : tag == sOfficeText
      · rfl
      · exact absurd (by simpa using h) hn.1
    simp only [walkNode, hne, hb, Bool.false_eq_true, if_false, Bool.not_false, if_true]
    exact ih w hb hn.2
  | text s => intro w _ _; simp [walkNode]
  | nil => simp [walkList]
  | cons n rest ihn ihr =>
    rename_i w hb hn
    simp only [noTextList, Bool.and_eq_true] at hn
    simp only [walkList]
    rw [ihn w hb hn.1, ihr w hb hn.2]

theorem walk_outside_list (defs : List StyleDef) (l : List Node) :
    ∀ w : Walk, w.inBody = false → noTextList l = true → walkList defs l w = w := by
  induction l with
  | nil => intro w _ _; simp [walkList]
  | cons n rest ih =>
    intro w hb hn
    simp only [noTextList, Bool.and_eq_true] at hn
    simp only [walkList]
    rw [walk_outside_node defs n w hb hn.1, ih w hb hn.2]

theorem walkList_append (defs : List StyleDef) (a b : List Node) (w : Walk) :
    walkList defs (a ++ b) w = walkList defs b (walkList defs a w) := by
  induction a generalizing w with
  | nil => simp [walkList]
  | cons n rest ih => simp only [List.cons_append, walkList]; rw [ih]

/-! ### row spans: the pass only inserts covered placeholders -/

def live (cs : List Cell) : List Cell := cs.filter fun c => !c.covered

theorem live_append (a b : List Cell) : live (a ++ b) = live a ++ live b := by simp [live]

theorem live_skipCovered (cc : Nat) : ∀ (fuel colIdx : Nat) (rem : List Nat) (out : List Cell),
    live (skipCovered fuel cc colIdx rem out).2.2 = live out := by
  intro fuel
  induction fuel with
  | zero => intro colIdx rem out; simp [skipCovered]
  | succ n ih =>
    intro colIdx rem out
    simp only [skipCovered]
    split
    · rw [ih, live_append]; simp [live, coveredCell]
    · rfl

theorem live_spanRow (cc : Nat) : ∀ (cells : List Cell) (colIdx : Nat) (rem : List Nat) (out : List Cell),
    (∀ c ∈ cells, c.covered = false) →
    live (spanRow cc cells colIdx rem out).2.2 <+: live out ++ cells := by
  intro cells
  induction cells with
  | nil => intro colIdx rem out _; simp [spanRow]
  | cons c rest ih =>
    intro colIdx rem out hc
    simp only [spanRow]
    have hs := live_skipCovered cc cc colIdx rem out
    generalize skipCovered cc cc colIdx rem out = r at hs
    obtain ⟨col', rem', out'⟩ := r
    simp only at hs ⊢
    split
    · rw [hs]; exact List.prefix_append _ _
    · have hcc : c.covered = false := hc c (List.mem_cons_self)
      have := ih (col' + c.colSpan) (if c.rowSpan > 1 then markSpan c.colSpan cc col' (c.rowSpan - 1) rem' else rem') (out' ++ [c])
        (fun x hx => hc x (List.mem_cons_of_mem _ hx))
      rw [live_append, hs] at this
      have hl : live [c] = [c] := by simp [live, hcc]
      rw [hl, List.append_assoc] at this
      exact this

/-- row by row: the output row without its covered placeholders is a prefix of the authored row -/
inductive RowsKept : List (List Cell) → List (List Cell) → Prop
  | nil : RowsKept [] []
  | cons {out row : List Cell} {outs rows : List (List Cell)} :
      live out <+: row → RowsKept outs rows → RowsKept (out :: outs) (row :: rows)

/-- every output row, with the covered placeholders removed, is the authored row (cut
short only if the row overflows the grid) -/
theorem live_spanRows (cc : Nat) : ∀ (rows : List (List Cell)) (rem : List Nat),
    (∀ row ∈ rows, ∀ c ∈ row, c.covered = false) →
    RowsKept (spanRows cc rows rem) rows := by
  intro rows
  induction rows with
  | nil => intro rem _; simp only [spanRows]; exact RowsKept.nil
  | cons row rest ih =>
    intro rem h
    simp only [spanRows]
    have h1 := live_spanRow cc row 0 rem [] (h row (List.mem_cons_self))
    generalize spanRow cc row 0 rem [] = r at h1
    obtain ⟨col', rem', out'⟩ := r
    have h2 := live_skipCovered cc cc col' rem' out'
    generalize skipCovered cc cc col' rem' out' = r2 at h2
    obtain ⟨col2, rem2, out2⟩ := r2
    simp only at h1 h2 ⊢
    refine RowsKept.cons ?_ (ih rem2 (fun r hr => h r (List.mem_cons_of_mem _ hr)))
    rw [h2]
    simpa [live] using h1

theorem parseRows_live (tbl : Node) : ∀ row ∈ parseRows tbl, ∀ c ∈ row, c.covered = false := by
  intro row hrow c hc
  simp only [parseRows, List.mem_map] at hrow
  obtain ⟨tr, _, rfl⟩ := hrow
  simp only [List.mem_map] at hc
  obtain ⟨tc, _, rfl⟩ := hc
  rfl

/-- placeholders carry nothing -/
theorem covered_blank_skip (cc : Nat) : ∀ (fuel colIdx : Nat) (rem : List Nat) (out : List Cell),
    (∀ c ∈ out, c.covered = true → c = coveredCell) →
    ∀ c ∈ (skipCovered fuel cc colIdx rem out).2.2, c.covered = true → c = coveredCell := by
  intro fuel
  induction fuel with
  | zero => intro colIdx rem out h; simpa [skipCovered] using h
  | succ n ih =>
    intro colIdx rem out h
    simp only [skipCovered]
    split
    · apply ih
      intro c hc hcov
      simp only [List.mem_append, List.mem_singleton] at hc
      cases hc with
      | inl hm => exact h c hm hcov
      | inr he => exact he
    · exact h

theorem covered_blank_spanRow (cc : Nat) : ∀ (cells : List Cell) (colIdx : Nat) (rem : List Nat) (out : List Cell),
    (∀ c ∈ cells, c.covered = false) → (∀ c ∈ out, c.covered = true → c = coveredCell) →
    ∀ c ∈ (spanRow cc cells colIdx rem out).2.2, c.covered = true → c = coveredCell := by
  intro cells
  induction cells with
  | nil => intro colIdx rem out _ h; simpa [spanRow] using h
  | cons c0 rest ih =>
    intro colIdx rem out hc h
    simp only [spanRow]
    have hs := covered_blank_skip cc cc colIdx rem out h
    generalize skipCovered cc cc colIdx rem out = r at hs
    obtain ⟨col', rem', out'⟩ := r
    simp only at hs ⊢
    split
    · exact hs
    · apply ih _ _ _ (fun x hx => hc x (List.mem_cons_of_mem _ hx))
      intro c hmem hcov
      simp only [List.mem_append, List.mem_singleton] at hmem
      cases hmem with
      | inl hm => exact hs c hm hcov
      | inr he =>
        have := hc c0 (List.mem_cons_self)
        rw [he, this] at hcov
        cases hcov

theorem covered_blank_spanRows (cc : Nat) : ∀ (rows : List (List Cell)) (rem : List Nat),
    (∀ row ∈ rows, ∀ c ∈ row, c.covered = false) →
    ∀ out ∈ spanRows cc rows rem, ∀ c ∈ out, c.covered = true → c = coveredCell := by
  intro rows
  induction rows with
  | nil => intro rem _ out ho; simp [spanRows] at ho
  | cons row rest ih =>
    intro rem h out ho
    simp only [spanRows] at ho
    have h1 := covered_blank_spanRow cc row 0 rem [] (h row (List.mem_cons_self)) (by simp)
    generalize spanRow cc row 0 rem [] = r at h1 ho
    obtain ⟨col', rem', out'⟩ := r
    have h2 := covered_blank_skip cc cc col' rem' out' h1
    generalize skipCovered cc cc col' rem' out' = r2 at h2 ho
    obtain ⟨col2, rem2, out2⟩ := r2
    simp only [List.mem_cons] at ho
    cases ho with
    | inl he => rw [he]; exact h2
    | inr hm => exact ih rem2 (fun r hr => h r (List.mem_cons_of_mem _ hr)) out hm

end Tabula.Odt
